/-
  C09 — the heap model: Python reference semantics of the transaction/block classes of
  bitcoin/core/__init__.py and bitcoin/core/serialize.py.

  * The heap is a list of objects, the address of an object is its index; allocation appends
    (addresses are never reused, garbage stays where it is and is unreachable).
  * An object is an instance of one of the classes (`Scalars` = its class and the attribute slots
    that hold plain values: ints, `bytes`/`CScript`, a `CScriptWitness`), its mutability flag
    (`CMutableX` vs `CX`; for a sequence: Python `list` vs `tuple`), the attribute slots that hold
    references (`refs`), and the two slots `_cached_GetHash`, `_cached__hash__`
    (serialize.py:130).  The classes made by `__make_mutable` (core/__init__.py:76-84) inherit the
    slots but never read or write them (`GetHash`/`__hash__` are reset to `Serializable`'s).
  * `from_*` constructors are a *plan* (`planClone`) computed by reading the source graph —
    identity (`.ref`) exactly where the code returns its argument (`x.__class__ is CX`), a fresh
    object elsewhere, the witness object always shared (`cls(vin, vout, …, tx.wit)`) — followed
    by the allocation of the plan (`allocPlan`).  Reading first and allocating afterwards is the
    same as the interleaved order of the Python code because a fresh object is never reachable
    from the source.
  * `RawSignatureHash` is executed on the heap as the code does it: mutable copy, then the list
    and attribute surgery on the copy (script.py:933-967).  `VerifyScript` touches `txTo` only by
    passing it to `RawSignatureHash` (scripteval.py:145) and by storing it into exception objects.

  Not modelled (unobservable through the catalogue): the temporaries of `GetTxid`
  (`CTxWitness()`, the stripped `CTransaction`), `vMerkleTree`/`vWitnessMerkleTree` of a block,
  identity of the empty tuple.  Mathlib-free.
-/
import BtcVerif.Spec.ValueSem

namespace BtcVerif.Model.Heap
open BtcVerif BtcVerif.Spec.ValueSem

abbrev Addr := Nat

structure Obj where
  isMut : Bool
  sc : Scalars
  refs : List Addr
  cHash : Option Bytes := none      -- `_cached_GetHash`
  cPy : Option Bytes := none        -- `_cached__hash__`
deriving DecidableEq, Repr

abbrev Heap := List Obj

/-- fuel for graph traversals: block → tuple → tx → tuple → txin → outpoint is 6 objects deep -/
def D : Nat := 8

/-- a transaction is 4 objects deep; `CBlock.__init__` snapshots the transactions two levels below the block -/
def txFuel : Nat := 6

/-! ### reading the object graph -/

/-- the object graph below an address, unfolded into a tree that remembers addresses and flags -/
inductive ATree
  | node (addr : Addr) (isMut : Bool) (sc : Scalars) (kids : List ATree)
deriving Repr

def unfoldA : Nat → Heap → Addr → Option ATree
  | 0, _, _ => none
  | f + 1, h, a =>
    match h[a]? with
    | none => none
    | some o => (mapO (unfoldA f h) o.refs).map (ATree.node a o.isMut o.sc)

mutual
def decode : ATree → Option Val
  | .node _ _ sc kids => (decodeL kids).bind (assemble sc)
def decodeL : List ATree → Option (List Val)
  | [] => some []
  | t :: ts =>
    match decode t with
    | none => none
    | some v =>
      match decodeL ts with
      | none => none
      | some vs => some (v :: vs)
end

/-- the current field values of the object at `a` (what `stream_serialize` walks over) -/
def absVal (h : Heap) (a : Addr) : Option Val := (unfoldA D h a).bind decode

/-- follow attribute/index references: `obj.refs[i₀].refs[i₁]…` -/
def resolve (h : Heap) : Addr → List Nat → Option Addr
  | a, [] => if a < h.length then some a else none
  | a, i :: p => do
      let o ← h[a]?
      let c ← o.refs[i]?
      resolve h c p

/-! ### allocation -/

def alloc (h : Heap) (o : Obj) : Heap × Addr := (h ++ [o], h.length)

/-- what a constructor call is going to build: existing objects (`ref`) or fresh ones -/
inductive Plan
  | ref (a : Addr)
  | node (isMut : Bool) (sc : Scalars) (kids : List Plan)
deriving Repr

mutual
def allocPlan (h : Heap) : Plan → Heap × Addr
  | .ref a => (h, a)
  | .node m sc kids =>
      let r := allocPlans h kids
      (r.1 ++ [{ isMut := m, sc := sc, refs := r.2 }], r.1.length)
def allocPlans (h : Heap) : List Plan → Heap × List Addr
  | [] => (h, [])
  | p :: ps =>
      let r1 := allocPlan h p
      let r2 := allocPlans r1.1 ps
      (r2.1, r1.2 :: r2.2)
end

/-- `from_outpoint / from_txin / from_txout / from_tx / from_txinwitness / from_txwitness` of the
    immutable (`tm = false`) or mutable (`tm = true`) class, as a plan:
    * an instance of the immutable class is returned as is by the immutable class's `from_*`;
    * witness objects are passed on as they are by both `from_tx` (no mutable variant exists);
    * `tuple(… for … in …)` / `[… for … in …]` always build a new `vin`/`vout` sequence;
    * everything else is rebuilt from the attribute values and the copied parts. -/
def planClone (tm : Bool) : Nat → Heap → Addr → Option Plan
  | 0, _, _ => none
  | f + 1, h, a =>
    match h[a]? with
    | none => none
    | some o =>
      if !o.sc.rebuilt && !o.isMut && (!tm || o.sc.alwaysImm) then some (.ref a)
      else (mapO (planClone tm f h) o.refs).map (Plan.node tm o.sc)

def planOutPoint (m : Bool) (o : OutPoint) : Plan := .node m (.outpoint o.hash o.n) []
def planTxIn (m : Bool) (i : TxIn) : Plan :=
  .node m (.txin i.scriptSig i.nSequence) [planOutPoint m i.prevout]
def planTxOut (m : Bool) (o : TxOut) : Plan := .node m (.txout o.nValue o.scriptPubKey) []
def planIns (m : Bool) (l : List TxIn) : Plan := .node m (.seq .ins) (l.map (planTxIn m))
def planOuts (m : Bool) (l : List TxOut) : Plan := .node m (.seq .outs) (l.map (planTxOut m))
/-- `CTxWitness(tuple(CTxInWitness(CScriptWitness(st)) for st in w))` -/
def planWit (w : List WitStack) : Plan :=
  .node false .wit [.node false (.seq .stacks) (w.map fun st => .node false (.inwit st) [])]
def planTx (m : Bool) (t : Tx) (witPlan : Plan) : Plan :=
  .node m (.tx t.nVersion t.nLockTime) [planIns m t.vin, planOuts m t.vout, witPlan]

/-! ### the machine state -/

structure St where
  heap : Heap
  names : List (Option Addr)       -- step index ↦ root object bound by that step
deriving Repr

/-- address of the empty tuple `()` and of the default argument `witness=CTxWitness()` of
    `CTransaction.__init__` (evaluated once, at class-definition time, shared by every call) -/
def emptyTuple : Addr := 0
def defaultWit : Addr := 1

def init : St :=
  { heap := [ { isMut := false, sc := .seq .stacks, refs := [] },
              { isMut := false, sc := .wit, refs := [emptyTuple] } ],
    names := [] }

def St.bind (s : St) (h : Heap) (a : Option Addr) : St := { heap := h, names := s.names ++ [a] }
def St.skip (s : St) : St := s.bind s.heap none

def St.root (s : St) (r : Nat) : Option Addr := (s.names[r]?).join

def St.target (s : St) (t : Target) : Option Addr := do
  let a ← s.root t.root
  resolve s.heap a t.path

/-! ### writes -/

/-- `obj.<field> = value`: `ImmutableSerializable.__setattr__` raises; a mutable class stores
    (`object.__setattr__`; a name that is not a slot raises `AttributeError` as well) -/
def assignAt (h : Heap) (x : Addr) (f : Field) : Option (Except Exc Heap) :=
  match h[x]? with
  | none => none
  | some o =>
    if !o.isMut then some (.error attributeError)
    else match applySc f o.sc with
      | none => some (.error attributeError)
      | some sc' => some (.ok (h.set x { o with sc := sc' }))

/-- `obj.<ref attribute i> = <object at c>` on an object already known to be mutable -/
def setRef (h : Heap) (x : Addr) (i : Nat) (c : Addr) : Option Heap :=
  match h[x]? with
  | none => none
  | some o => if i < o.refs.length then some (h.set x { o with refs := o.refs.set i c }) else none

/-- replace the item list of a Python list object -/
def setItems (h : Heap) (x : Addr) (items : List Addr) : Option Heap :=
  match h[x]? with
  | none => none
  | some o => some (h.set x { o with refs := items })

/-- the transaction object at a root: (object, vin seq address, vout seq address, wit address) -/
def txParts (h : Heap) (a : Addr) : Option (Obj × Addr × Addr × Addr) :=
  match h[a]? with
  | some o =>
    match o.sc, o.refs with
    | .tx _ _, [vi, vo, w] => some (o, vi, vo, w)
    | _, _ => none
  | none => none

/-! ### `RawSignatureHash` on the heap -/

def foldAssign (f : Field) : Heap → List Addr → Option Heap
  | h, [] => some h
  | h, x :: xs =>
    match assignAt h x f with
    | some (.ok h') => foldAssign f h' xs
    | _ => none

/-- `for i in range(len(txtmp.vin)): if i != inIdx: txtmp.vin[i].nSequence = 0` -/
def zeroSeqs (inIdx : Nat) : Heap → List Addr → Nat → Option Heap
  | h, [], _ => some h
  | h, x :: xs, k =>
    if k = inIdx then zeroSeqs inIdx h xs (k + 1)
    else match assignAt h x (.nSequence 0) with
      | some (.ok h') => zeroSeqs inIdx h' xs (k + 1)
      | _ => none

/-- `for i in range(n): lst.append(CTxOut())` -/
def appendBlanks : Heap → Addr → Nat → Option Heap
  | h, _, 0 => some h
  | h, l, n + 1 =>
    let (h1, b) := alloc h { isMut := false, sc := .txout (-1) [], refs := [] }
    match h1[l]? with
    | some o => appendBlanks (h1.set l { o with refs := o.refs ++ [b] }) l n
    | none => none

/-- `for txin in txtmp.vin: txin.scriptSig = b''`, then `txtmp.vin[inIdx].scriptSig = sub`;
    returns the heap and the input object `txtmp.vin[inIdx]` -/
def sigScripts (h1 : Heap) (ins : List Addr) (sub : Bytes) (inIdx : Nat) : Option (Heap × Addr) :=
  match foldAssign (.scriptSig []) h1 ins with
  | none => none
  | some h2 =>
    match ins[inIdx]? with
    | none => none
    | some xi =>
      match assignAt h2 xi (.scriptSig sub) with
      | some (.ok h3) => some (h3, xi)
      | _ => none

/-- the `SIGHASH_NONE` branch: `txtmp.vout = []`, other inputs' sequence numbers zeroed -/
def sigNone (h3 : Heap) (c : Addr) (ins : List Addr) (inIdx : Nat) : Option Heap :=
  let (h4, l) := alloc h3 { isMut := true, sc := .seq .outs, refs := [] }
  match setRef h4 c 1 l with
  | none => none
  | some h5 => zeroSeqs inIdx h5 ins 0

/-- the `SIGHASH_SINGLE` branch after the range check: `tmp` is `txtmp.vout[outIdx]` -/
def sigSingle (h3 : Heap) (c : Addr) (ins : List Addr) (inIdx : Nat) (tmp : Addr) : Option Heap :=
  let (h4, l) := alloc h3 { isMut := true, sc := .seq .outs, refs := [] }
  match setRef h4 c 1 l with
  | none => none
  | some h5 =>
    match appendBlanks h5 l inIdx with
    | none => none
    | some h6 =>
      match h6[l]? with
      | none => none
      | some o => zeroSeqs inIdx (h6.set l { o with refs := o.refs ++ [tmp] }) ins 0

/-- `SIGHASH_ANYONECANPAY`: `tmp = txtmp.vin[inIdx]; txtmp.vin = []; txtmp.vin.append(tmp)` -/
def sigAnyone (h8 : Heap) (c xi : Addr) : Option Heap :=
  let (h9, l) := alloc h8 { isMut := true, sc := .seq .ins, refs := [] }
  match setRef h9 c 0 l with
  | none => none
  | some h9' => setItems h9' l [xi]

/-- `txtmp.wit = CTxWitness()` -/
def sigWit (h10 : Heap) (c : Addr) : Option Heap :=
  let (h11, w) := alloc h10 { isMut := false, sc := .wit, refs := [emptyTuple] }
  setRef h11 c 2 w

def sigDigest (h12 : Heap) (c : Addr) (ht : Nat) : Res Bytes :=
  match absVal h12 c with
  | some v => do
      let s ← serVal v
      let t ← Wire.packI 4 (ht : Int)
      pure (Crypto.hash256 (s ++ t))
  | none => .error (.py "ModelStuck")

/-- the surgery on the private copy `c` (script.py:935-970); result: final heap and
    `some digest`, or `none` digest for the early `HASH_ONE` return -/
def surgery (h1 : Heap) (c : Addr) (sub : Bytes) (inIdx ht : Nat) : Option (Heap × Option (Res Bytes)) :=
  match txParts h1 c with
  | none => none
  | some (_, vinL, voutL, _) =>
    match h1[vinL]? with
    | none => none
    | some lo =>
      match sigScripts h1 lo.refs sub inIdx with
      | none => none
      | some (h3, xi) =>
        match h3[voutL]? with
        | none => none
        | some vo =>
          let branch : Option (Option Heap) :=          -- inner none = early return
            if ht % 32 = 2 then (sigNone h3 c lo.refs inIdx).map some
            else if ht % 32 = 3 then
              match vo.refs[inIdx]? with
              | none => some none
              | some tmp => (sigSingle h3 c lo.refs inIdx tmp).map some
            else some (some h3)
          match branch with
          | none => none
          | some none => some (h3, none)
          | some (some h8) =>
            match (if ht / 128 % 2 = 1 then sigAnyone h8 c xi else some h8) with
            | none => none
            | some h10 =>
              match sigWit h10 c with
              | none => none
              | some h12 => some (h12, some (sigDigest h12 c ht))

/-- `RawSignatureHash(script, txTo, inIdx, hashtype)` with `txTo` the object at `a`;
    the digest is `HASH_ONE` in the two error-code cases -/
def rawSigHash (h : Heap) (a : Addr) (sub : Bytes) (inIdx ht : Nat) : Option (Heap × Res Bytes) :=
  match absVal h a with
  | some (.tx t) =>
    if inIdx ≥ t.vin.length then some (h, .ok hashOne)
    else if !validTx t then some (h, .error .valueerr)      -- `from_tx` → constructor raises
    else do
      let p ← planClone true D h a
      let (h1, c) := allocPlan h p
      let (h', d) ← surgery h1 c sub inIdx ht
      pure (h', d.getD (.ok hashOne))
  | _ => none

def rawSigHashes (h : Heap) (a : Addr) (inIdx : Nat) : List (Bytes × Nat) → Option Heap
  | [] => some h
  | (sub, ht) :: cs =>
    match rawSigHash h a sub inIdx ht with
    | some (h', _) => rawSigHashes h' a inIdx cs
    | none => none

/-! ### identifiers with the cache slots -/

/-- `GetHash()`: `ImmutableSerializable.GetHash` / `CBlock.GetHash` memoise in `_cached_GetHash`;
    the mutable classes use `Serializable.GetHash` -/
def getHashAt (h : Heap) (x : Addr) : Option (Heap × Res Bytes) := do
  let o ← h[x]?
  let v ← absVal h x
  if o.isMut then pure (h, identOf v)
  else match o.cHash with
    | some c => pure (h, .ok c)
    | none =>
      match identOf v with
      | .ok c => pure (h.set x { o with cHash := some c }, .ok c)
      | .error e => pure (h, .error e)

def pyHashAt (h : Heap) (x : Addr) : Option (Heap × Res Bytes) := do
  let o ← h[x]?
  let v ← absVal h x
  if o.isMut then pure (h, pyHashOf v)
  else match o.cPy with
    | some c => pure (h, .ok c)
    | none =>
      match pyHashOf v with
      | .ok c => pure (h.set x { o with cPy := some c }, .ok c)
      | .error e => pure (h, .error e)

def fillHashes : Heap → List Addr → Heap
  | h, [] => h
  | h, a :: as =>
    match getHashAt h a with
    | some (h', _) => fillHashes h' as
    | none => fillHashes h as

/-! ### one step of a history -/

def entryAt (h : Heap) (a : Addr) : Option (Entry × Tx) :=
  match h[a]?, absVal h a with
  | some o, some (.tx t) => some (⟨o.isMut, .tx t⟩, t)
  | _, _ => none

/-- common part of the edits of `tx.vin` / `tx.vout` / `tx.wit` -/
def withTx (s : St) (r : Nat) (k : Addr → Obj → Addr → Addr → St × Out) : St × Out :=
  match s.root r with
  | none => (s.skip, .badRef)
  | some a =>
    match txParts s.heap a with
    | none => (s.skip, .na)
    | some (o, vi, vo, _) => k a o vi vo

/-- store into a list object: `lst.append(x)`, `lst[i] = x`, `del lst[i]` -/
def withList (s : St) (l : Addr) (immErr : Exc) (f : List Addr → Except Exc (List Addr)) : St × Out :=
  match s.heap[l]? with
  | none => (s.skip, .badRef)
  | some lo =>
    if !lo.isMut then (s.skip, .err immErr)
    else match f lo.refs with
      | .error e => (s.skip, .err e)
      | .ok items => (s.bind (s.heap.set l { lo with refs := items }) none, .done)

def observeAt (s : St) (t : Target) (f : Addr → Obj → Val → St × Out) : St × Out :=
  match s.target t with
  | none => (s.skip, .badRef)
  | some x =>
    match s.heap[x]?, absVal s.heap x with
    | some o, some v => if o.sc.isSeq then (s.skip, .na) else f x o v
    | _, _ => (s.skip, .badRef)

def step (s : St) : Op → St × Out
  | .newTx v =>
      if validTx v then
        let (h, a) := allocPlan s.heap (planTx true v (planWit v.wit))
        (s.bind h (some a), .created)
      else (s.skip, .err .valueerr)
  | .newCTx v =>
      if validTx v then
        let (h, a) := allocPlan s.heap
          (planTx false v (if v.wit.isEmpty then .ref defaultWit else planWit v.wit))
        (s.bind h (some a), .created)
      else (s.skip, .err .valueerr)
  | .newHeader v =>
      if v.hashPrevBlock.length = 32 ∧ v.hashMerkleRoot.length = 32 then
        let (h, a) := alloc s.heap { isMut := false, sc := .header v, refs := [] }
        (s.bind h (some a), .created)
      else (s.skip, .err assertionError)
  | .newBlock hdr txs =>
      match mapO s.root txs with
      | none => (s.skip, .badRef)
      | some addrs =>
        match mapO (entryAt s.heap) addrs with
        | none => (s.skip, .badRef)
        | some es =>
          match newBlockVal hdr es with
          | .error x => (s.skip, .err x)
          | .ok b =>
            -- build_witness_merkle_tree_from_txs: `tx.GetHash()` memoises on the immutable ones
            let h1 := fillHashes s.heap addrs
            match mapO (planClone false txFuel h1) addrs with
            | none => (s.skip, .badRef)
            | some plans =>
              let (h2, a) := allocPlan h1 (.node false (.block b.hdr) [.node false (.seq .txs) plans])
              (s.bind h2 (some a), .created)
  | .snapshot t =>
      match s.target t with
      | none => (s.skip, .badRef)
      | some x =>
        match s.heap[x]?, absVal s.heap x with
        | some o, some v =>
          if o.sc.isSeq then (s.skip, .na) else
          match o.sc with
          | .header _ | .block _ => (s.skip, .na)
          | _ =>
            if !o.isMut then (s.bind s.heap (some x), .created)          -- `return obj`
            else if validCtor v then
              match planClone false D s.heap x with
              | some p => let (h, a) := allocPlan s.heap p; (s.bind h (some a), .created)
              | none => (s.skip, .badRef)
            else (s.skip, .err .valueerr)
        | _, _ => (s.skip, .badRef)
  | .mutCopy t =>
      match s.target t with
      | none => (s.skip, .badRef)
      | some x =>
        match s.heap[x]?, absVal s.heap x with
        | some o, some v =>
          if o.sc.isSeq || o.sc.alwaysImm then (s.skip, .na)
          else if validCtor v then
            match planClone true D s.heap x with
            | some p => let (h, a) := allocPlan s.heap p; (s.bind h (some a), .created)
            | none => (s.skip, .badRef)
          else (s.skip, .err .valueerr)
        | _, _ => (s.skip, .badRef)
  | .assign t f =>
      match s.target t with
      | none => (s.skip, .badRef)
      | some x =>
        match s.heap[x]? with
        | none => (s.skip, .badRef)
        | some o =>
          if o.sc.isSeq then (s.skip, .na) else
          match assignAt s.heap x f with
          | some (.ok h) => (s.bind h none, .done)
          | some (.error e) => (s.skip, .err e)
          | none => (s.skip, .badRef)
  | .delAttr t =>
      match s.target t with
      | none => (s.skip, .badRef)
      | some x =>
        match s.heap[x]? with
        | none => (s.skip, .badRef)
        | some o =>
          if o.sc.isSeq then (s.skip, .na)
          else if !o.isMut then (s.skip, .err attributeError)       -- `__delattr__` raises
          else (s.skip, .na)
  | .setVin r l => withTx s r fun a o _ _ =>
      if !l.all validTxIn then (s.skip, .err .valueerr)
      else if !o.isMut then (s.skip, .err attributeError)
      else
        let (h1, li) := allocPlan s.heap (planIns true l)
        match setRef h1 a 0 li with
        | some h2 => (s.bind h2 none, .done)
        | none => (s.skip, .badRef)
  | .setVout r l => withTx s r fun a o _ _ =>
      if !o.isMut then (s.skip, .err attributeError)
      else
        let (h1, li) := allocPlan s.heap (planOuts true l)
        match setRef h1 a 1 li with
        | some h2 => (s.bind h2 none, .done)
        | none => (s.skip, .badRef)
  | .appendIn r v => withTx s r fun _ _ vi _ =>
      match s.heap[vi]? with
      | none => (s.skip, .badRef)
      | some lo =>
        if !lo.isMut then (s.skip, .err attributeError)               -- tuple has no `append`
        else if !validTxIn v then (s.skip, .err .valueerr)
        else
          let (h1, x) := allocPlan s.heap (planTxIn true v)
          (s.bind (h1.set vi { lo with refs := lo.refs ++ [x] }) none, .done)
  | .replaceIn r i v => withTx s r fun _ _ vi _ =>
      if !validTxIn v then (s.skip, .err .valueerr)
      else match s.heap[vi]? with
        | none => (s.skip, .badRef)
        | some lo =>
          if !lo.isMut then (s.skip, .err typeError)
          else if i < lo.refs.length then
            let (h1, x) := allocPlan s.heap (planTxIn true v)
            (s.bind (h1.set vi { lo with refs := lo.refs.set i x }) none, .done)
          else (s.skip, .err indexError)
  | .removeIn r i => withTx s r fun _ _ vi _ =>
      withList s vi typeError fun items =>
        if i < items.length then .ok (items.eraseIdx i) else .error indexError
  | .appendOut r v => withTx s r fun _ _ _ vo =>
      match s.heap[vo]? with
      | none => (s.skip, .badRef)
      | some lo =>
        if !lo.isMut then (s.skip, .err attributeError)
        else
          let (h1, x) := allocPlan s.heap (planTxOut true v)
          (s.bind (h1.set vo { lo with refs := lo.refs ++ [x] }) none, .done)
  | .replaceOut r i v => withTx s r fun _ _ _ vo =>
      match s.heap[vo]? with
      | none => (s.skip, .badRef)
      | some lo =>
        if !lo.isMut then (s.skip, .err typeError)
        else if i < lo.refs.length then
          let (h1, x) := allocPlan s.heap (planTxOut true v)
          (s.bind (h1.set vo { lo with refs := lo.refs.set i x }) none, .done)
        else (s.skip, .err indexError)
  | .removeOut r i => withTx s r fun _ _ _ vo =>
      withList s vo typeError fun items =>
        if i < items.length then .ok (items.eraseIdx i) else .error indexError
  | .setWit r w => withTx s r fun a o _ _ =>
      if !o.isMut then (s.skip, .err attributeError)
      else
        let (h1, x) := allocPlan s.heap (planWit w)
        match setRef h1 a 2 x with
        | some h2 => (s.bind h2 none, .done)
        | none => (s.skip, .badRef)
  | .ser t => observeAt s t fun _ _ v => (s.skip, .bytes (serVal v))
  | .getHash t => observeAt s t fun x _ _ =>
      match getHashAt s.heap x with
      | some (h, r) => (s.bind h none, .bytes r)
      | none => (s.skip, .badRef)
  | .txid t => observeAt s t fun _ _ v =>
      match v with
      | .tx x => (s.skip, .bytes (txidOf x))
      | _ => (s.skip, .na)
  | .pyHash t => observeAt s t fun x _ _ =>
      match pyHashAt s.heap x with
      | some (h, r) => (s.bind h none, .bytes r)
      | none => (s.skip, .badRef)
  | .eq a b =>
      match s.target a, s.target b with
      | some x, some y =>
        match s.heap[x]?, s.heap[y]?, absVal s.heap x, absVal s.heap y with
        | some ox, some oy, some va, some vb =>
          if ox.sc.isSeq || oy.sc.isSeq then (s.skip, .na)
          else (s.skip, .bool (eqVals ox.isMut va oy.isMut vb))
        | _, _, _, _ => (s.skip, .badRef)
      | _, _ => (s.skip, .badRef)
  | .sighash r sub inIdx ht =>
      match s.root r with
      | none => (s.skip, .badRef)
      | some a =>
        match absVal s.heap a with
        | some (.tx _) =>
          match rawSigHash s.heap a sub inIdx ht with
          | some (h, _) => (s.bind h none, .done)
          | none => (s.skip, .badRef)
        | some _ => (s.skip, .na)
        | none => (s.skip, .badRef)
  | .sighashW r _ _ =>
      match s.root r with
      | none => (s.skip, .badRef)
      | some a =>
        match absVal s.heap a with
        | some (.tx _) => (s.skip, .done)               -- reads only (script.py:985-1023)
        | some _ => (s.skip, .na)
        | none => (s.skip, .badRef)
  | .verify r inIdx calls =>
      match s.root r with
      | none => (s.skip, .badRef)
      | some a =>
        match absVal s.heap a with
        | some (.tx _) =>
          match rawSigHashes s.heap a inIdx calls with
          | some h => (s.bind h none, .done)
          | none => (s.skip, .badRef)
        | some _ => (s.skip, .na)
        | none => (s.skip, .badRef)

def run : St → List Op → St × List Out
  | s, [] => (s, [])
  | s, op :: ops =>
      let (s1, o) := step s op
      let (s2, os) := run s1 ops
      (s2, o :: os)

end BtcVerif.Model.Heap
