/-
  C20 — `Model.Bloom.*` mirrors bitcoin/bloom.py: `_ROTL32`, `MurmurHash3` (unbounded Python ints,
  masks where the Python masks, the body loop's double condition, tail by `len & 3`, finalisation
  with late masking), `CBloomFilter.__init__` sizing (the float expressions are parameters),
  `bloom_hash`, `insert`, `contains`, `IsWithinSizeConstraints`, `stream_(de)serialize`.

  Python ints are `Nat` here (every value is non-negative); `&`, `|`, `^`, `<<`, `>>` are the
  `Nat` bit operations.  Every site where CPython could raise (the two `assert`s, `struct.unpack`
  on a short slice, `bytes`/`bytearray` indexing, `%` by zero, `struct.pack` ranges) is an explicit
  error branch.  `insert`/`contains` carry the CVE-2013-5700 guard (D16): the model is written for
  the property-conforming behaviour.  Mathlib-free.
-/
import BtcVerif.Basic.Outcome
import BtcVerif.Basic.Tx
import BtcVerif.Model.Wire
import BtcVerif.Spec.Bloom

namespace BtcVerif.Model.Bloom
open BtcVerif

def zeroDivisionError : Exc := .py "ZeroDivisionError"

/-! ### MurmurHash3 -/

/-- `_ROTL32(x, r)`: `assert x <= 0xFFFFFFFF; ((x << r) & 0xFFFFFFFF) | (x >> (32 - r))` -/
def rotl32 (x r : Nat) : Res Nat :=
  if x ≤ 0xFFFFFFFF then .ok (((x <<< r) &&& 0xFFFFFFFF) ||| (x >>> (32 - r)))
  else .error assertionError

def c1 : Nat := 0xcc9e2d51
def c2 : Nat := 0x1b873593

/-- `k1 = (k1 * c1) & M; k1 = _ROTL32(k1, 15); k1 = (k1 * c2) & M` (body and tail) -/
def mixK1 (k1 : Nat) : Res Nat := do
  let k1 := (k1 * c1) &&& 0xFFFFFFFF
  let k1 ← rotl32 k1 15
  pure ((k1 * c2) &&& 0xFFFFFFFF)

/-- `h1 ^= k1; h1 = _ROTL32(h1, 13); h1 = (((h1*5) & M) + 0xe6546b64) & M` -/
def mixH1 (h1 k1 : Nat) : Res Nat := do
  let h1 := h1 ^^^ k1
  let h1 ← rotl32 h1 13
  pure ((((h1 * 5) &&& 0xFFFFFFFF) + 0xe6546b64) &&& 0xFFFFFFFF)

/-- the `while (i < len - len % 4 and len - i >= 4)` loop -/
def bodyLoop (data : Bytes) (i h1 : Nat) : Res Nat :=
  if i < data.length - data.length % 4 ∧ data.length - i ≥ 4 then do
    let sl := (data.drop i).take 4                       -- vDataToHash[i:i+4]
    if sl.length ≠ 4 then throw structError              -- struct.unpack(b"<L", …)
    let k1 ← mixK1 (leNat sl)
    let h1 ← mixH1 h1 k1
    bodyLoop data (i + 4) h1
  else pure h1
termination_by data.length - i
decreasing_by omega

/-- `vDataToHash[j]` for a non-negative index -/
def byteAt (data : Bytes) (j : Nat) : Res Nat :=
  match data[j]? with
  | some b => .ok b.toNat
  | none => .error indexError

/-- the tail word: the three `if len & 3 >= n` statements, then `k1 &= 0xFFFFFFFF` -/
def tailWord (data : Bytes) : Res Nat := do
  let k1 := 0
  let j := (data.length / 4) * 4
  let k1 ← if data.length &&& 3 ≥ 3 then do
              let b ← byteAt data (j + 2)
              pure (k1 ^^^ (b <<< 16))
            else pure k1
  let k1 ← if data.length &&& 3 ≥ 2 then do
              let b ← byteAt data (j + 1)
              pure (k1 ^^^ (b <<< 8))
            else pure k1
  let k1 ← if data.length &&& 3 ≥ 1 then do
              let b ← byteAt data j
              pure (k1 ^^^ b)
            else pure k1
  pure (k1 &&& 0xFFFFFFFF)

/-- finalisation; `h1` grows beyond 32 bits, the masks are where the Python has them -/
def finalize (h1 len : Nat) : Nat :=
  let h1 := h1 ^^^ (len &&& 0xFFFFFFFF)
  let h1 := h1 ^^^ ((h1 &&& 0xFFFFFFFF) >>> 16)
  let h1 := h1 * 0x85ebca6b
  let h1 := h1 ^^^ ((h1 &&& 0xFFFFFFFF) >>> 13)
  let h1 := h1 * 0xc2b2ae35
  let h1 := h1 ^^^ ((h1 &&& 0xFFFFFFFF) >>> 16)
  h1 &&& 0xFFFFFFFF

/-- everything after the body loop -/
def finish (data : Bytes) (h1 : Nat) : Res Nat := do
  let k1 ← tailWord data
  let k1 ← mixK1 k1
  let h1 := h1 ^^^ k1
  pure (finalize h1 data.length)

/-- `MurmurHash3(nHashSeed, vDataToHash)` -/
def murmurHash3 (seed : Nat) (data : Bytes) : Res Nat := do
  if ¬ seed ≤ 0xFFFFFFFF then throw assertionError
  let h1 ← bodyLoop data 0 seed
  finish data h1

/-! ### CBloomFilter -/

structure Filter where
  vData : Bytes
  nHashFuncs : Nat
  nTweak : Nat
  nFlags : Nat
deriving DecidableEq, Repr

/-- the class constants; tied to the working tree by T1 (Tables/Bloom.lean) -/
def MAX_BLOOM_FILTER_SIZE : Nat := Spec.Bloom.MAX_BLOOM_FILTER_SIZE
def MAX_HASH_FUNCS : Nat := Spec.Bloom.MAX_HASH_FUNCS

/-- `int(v)` of a float value `v`: truncation toward zero -/
def truncInt (v : Rat) : Int := if 0 ≤ v then v.floor else -((-v).floor)

/-- not a Python exception: a negative hash-function count (possible only for `nElements < 0`, outside
    the property's quantifier) is not representable in `Filter`; the model refuses instead of
    pretending it is 0 -/
def outOfModel : Exc := .py "OutOfModelDomain:negative-nHashFuncs"

/-- `bytearray(int(min(x, MAX_BLOOM_FILTER_SIZE * 8) / 8))` where `x` stands for the float value of
    `-1 / LN2SQUARED * nElements * math.log(nFPRate)` (division by 8 is exact in binary floating
    point); `bytearray` of a negative count raises ValueError -/
def sizeBytes (x : Rat) : Res Nat :=
  let n := truncInt ((min x ((MAX_BLOOM_FILTER_SIZE * 8 : Nat) : Rat)) / 8)
  if n < 0 then .error .valueerr else .ok n.toNat

/-- `int(min(y, MAX_HASH_FUNCS))` where `y` stands for `len(vData) * 8 / nElements * LN2` -/
def hashFuncs (y : Rat) : Res Nat :=
  let n := truncInt (min y ((MAX_HASH_FUNCS : Nat) : Rat))
  if n < 0 then .error outOfModel else .ok n.toNat

/-- `CBloomFilter.__init__`.  The two float expressions are parameters: `x` is the outcome of the first
    (`math.log` raises ValueError for a rate ≤ 0), `y` the outcome of the second as a function of
    `len(self.vData)` (ZeroDivisionError for `nElements = 0`); their exceptions propagate. -/
def create (x : Res Rat) (y : Nat → Res Rat) (nTweak nFlags : Nat) : Res Filter := do
  let xv ← x
  let n ← sizeBytes xv
  let yv ← y n
  let k ← hashFuncs yv
  pure { vData := List.replicate n 0, nHashFuncs := k, nTweak := nTweak, nFlags := nFlags }

/-- `CBloomFilter(nElements, nFPRate, nTweak, nFlags)` with its arguments: which exception arises is
    decided here; only the *values* of `math.log(nFPRate)` (`logRate`, read when `rate > 0`) and of the
    float constants `1/LN2SQUARED`, `LN2` are parameters.  Python evaluates
    `-1 / LN2SQUARED * nElements * math.log(nFPRate)` left to right, so `math.log` (ValueError for a
    rate ≤ 0) comes before everything else; `len(vData) * 8 / nElements` divides by zero afterwards. -/
def createPy (nElements : Int) (rate logRate invLn2Sq ln2 : Rat) (nTweak nFlags : Nat) : Res Filter :=
  create
    (if rate ≤ 0 then .error .valueerr else .ok (-invLn2Sq * (nElements : Rat) * logRate))
    (fun n => if nElements = 0 then .error zeroDivisionError
              else .ok (((n : Int) : Rat) * 8 / (nElements : Rat) * ln2))
    nTweak nFlags

/-- `bloom_hash` -/
def bloomHash (f : Filter) (nHashNum : Nat) (e : Bytes) : Res Nat := do
  let h ← murmurHash3 ((nHashNum * 0xFBA4C795 + f.nTweak) &&& 0xFFFFFFFF) e
  if f.vData.length * 8 = 0 then throw zeroDivisionError
  pure (h % (f.vData.length * 8))

def bitMaskTable : List UInt8 := [0x01, 0x02, 0x04, 0x08, 0x10, 0x20, 0x40, 0x80]

/-- `self.vData[nIndex >> 3] |= self.__bit_mask[7 & nIndex]` -/
def setBit (v : Bytes) (nIndex : Nat) : Res Bytes :=
  match v[nIndex >>> 3]?, bitMaskTable[7 &&& nIndex]? with
  | some b, some m => .ok (v.set (nIndex >>> 3) (b ||| m))
  | _, _ => .error indexError

/-- `self.vData[nIndex >> 3] & self.__bit_mask[7 & nIndex]` as a truth value -/
def testBit (v : Bytes) (nIndex : Nat) : Res Bool :=
  match v[nIndex >>> 3]?, bitMaskTable[7 &&& nIndex]? with
  | some b, some m => .ok ((b &&& m) != 0)
  | _, _ => .error indexError

/-- `for i in range(i, i + n)` of `insert` -/
def insertLoop (e : Bytes) : (n i : Nat) → Filter → Res Filter
  | 0, _, f => .ok f
  | n + 1, i, f => do
      let nIndex ← bloomHash f i e
      let v ← setBit f.vData nIndex
      insertLoop e n (i + 1) { f with vData := v }

/-- `len(self.vData) == 1 and self.vData[0] == 0xff` -/
def isFullByte (f : Filter) : Bool := f.vData.length == 1 && f.vData[0]? == some 0xff

/-- `insert(elem)` for `bytes` (with the empty-data guard, D16) -/
def insert (f : Filter) (e : Bytes) : Res Filter :=
  if f.vData.length = 0 then .ok f
  else if isFullByte f then .ok f
  else insertLoop e f.nHashFuncs 0 f

def containsLoop (f : Filter) (e : Bytes) : (n i : Nat) → Res Bool
  | 0, _ => .ok true
  | n + 1, i => do
      let nIndex ← bloomHash f i e
      let b ← testBit f.vData nIndex
      if !b then pure false else containsLoop f e n (i + 1)

/-- `contains(elem)` for `bytes` (with the empty-data guard, D16) -/
def contains (f : Filter) (e : Bytes) : Res Bool :=
  if f.vData.length = 0 then .ok true
  else if isFullByte f then .ok true
  else containsLoop f e f.nHashFuncs 0

/-- elements: `bytes`, or a `COutPoint` which is replaced by its serialisation -/
inductive Elem
  | bytes (b : Bytes)
  | outpoint (o : OutPoint)
deriving DecidableEq, Repr

def Elem.toBytes : Elem → Res Bytes
  | .bytes b => .ok b
  | .outpoint o => Wire.serOutPoint o

def insertElem (f : Filter) (x : Elem) : Res Filter := do
  let e ← x.toBytes
  insert f e

def containsElem (f : Filter) (x : Elem) : Res Bool := do
  let e ← x.toBytes
  contains f e

def isWithinSizeConstraints (f : Filter) : Bool :=
  f.vData.length ≤ MAX_BLOOM_FILTER_SIZE && f.nHashFuncs ≤ MAX_HASH_FUNCS

/-- `stream_serialize`: `BytesSerializer` then `struct.pack('<IIB', …)` -/
def ser (f : Filter) : Res Bytes := do
  let d ← Wire.serBytes f.vData
  let k ← Wire.packU 4 f.nHashFuncs
  let t ← Wire.packU 4 f.nTweak
  let fl ← Wire.packU 1 f.nFlags
  pure (d ++ k ++ t ++ fl)

/-- `stream_deserialize`: `BytesSerializer`, `ser_read(f, 9)`, `struct.unpack('<IIB')` -/
def de : Wire.Parser Filter := fun s => do
  let (d, r) ← Wire.deBytes s
  let (raw, r) ← Wire.serRead 9 r
  pure ({ vData := d, nHashFuncs := leNat (raw.take 4), nTweak := leNat ((raw.drop 4).take 4),
          nFlags := leNat (raw.drop 8) }, r)

/-- `CBloomFilter.deserialize(buf)` -/
def deserialize (buf : Bytes) : Wire.DeResult Filter := Wire.deserialize de buf

/-- `CBloomFilter.deserialize(f.serialize())` -/
def reload (f : Filter) : Res Filter := do
  let b ← ser f
  match deserialize b with
  | .ok g => pure g
  | .extra _ _ => throw .sererr        -- DeserializationExtraDataError (a SerializationError)
  | .err e => throw e

/-! ### histories -/

inductive Op
  | insert (x : Elem)
  | reload
deriving DecidableEq, Repr

def step (f : Filter) : Op → Res Filter
  | .insert x => insertElem f x
  | .reload => reload f

def run (f : Filter) : List Op → Res Filter
  | [] => .ok f
  | op :: ops => do
      let g ← step f op
      run g ops

end BtcVerif.Model.Bloom
