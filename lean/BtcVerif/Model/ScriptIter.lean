/-
  `CScript.raw_iter` (bitcoin/core/script.py) — shared by C03, C06, C07, C08, C16.

  raw_iter is a generator: it yields operations and may raise CScriptInvalidError *later*.
  `rawIter s = (ops, err?)` returns the operations yielded before the error (if any), so a consumer
  that stops early never sees the error, exactly as in Python.  Mathlib-free.
-/
import BtcVerif.Basic.Outcome

namespace BtcVerif.Model.Script
open BtcVerif

structure RawOp where
  opcode : Nat
  data : Option Bytes      -- `None` for opcodes above OP_PUSHDATA4
  sopIdx : Nat             -- index of the opcode byte
deriving DecidableEq, Repr

inductive IterErr
  | missingLen                 -- CScriptInvalidError('PUSHDATAn: missing data length')
  | truncated (data : Bytes)   -- CScriptTruncatedPushDataError(…, data)
deriving DecidableEq, Repr

inductive Step
  | op (o : RawOp) (rest : Bytes)
  | err (e : IterErr)
deriving Repr

/-- one iteration of the `while i < len(self)` loop; `s` is the unread suffix, `idx` its offset -/
def rawStep (idx : Nat) : Bytes → Option Step
  | [] => none
  | b :: rest =>
    let opcode := b.toNat
    if opcode > 0x4e then some (.op ⟨opcode, none, idx⟩ rest)
    else
      -- (datasize, bytes after the length field) or missing length
      let hdr : Option (Nat × Bytes) :=
        if opcode < 0x4c then some (opcode, rest)
        else if opcode = 0x4c then
          (match rest with
           | l :: r => some (l.toNat, r)
           | _ => none)
        else if opcode = 0x4d then
          (match rest with
           | l0 :: l1 :: r => some (l0.toNat + l1.toNat * 256, r)
           | _ => none)
        else
          (match rest with
           | l0 :: l1 :: l2 :: l3 :: r =>
               some (l0.toNat + l1.toNat * 256 + l2.toNat * 65536 + l3.toNat * 16777216, r)
           | _ => none)
      match hdr with
      | none => some (.err .missingLen)
      | some (datasize, r) =>
        let data := r.take datasize
        if data.length < datasize then some (.err (.truncated data))
        else some (.op ⟨opcode, some data, idx⟩ (r.drop datasize))

theorem rawStep_rest_lt {idx : Nat} {s : Bytes} {o : RawOp} {rest : Bytes}
    (h : rawStep idx s = some (.op o rest)) : rest.length < s.length := by
  cases s with
  | nil => simp [rawStep] at h
  | cons b t =>
    simp only [rawStep] at h
    split at h
    · simp at h; simp [← h.2]
    · split at h
      · simp at h
      · rename_i ds r hh
        split at h
        · simp at h
        · simp at h
          have hr : r.length ≤ t.length := by
            split at hh
            · simp at hh; simp [← hh.2]
            · split at hh
              · split at hh <;> simp at hh
                simp [← hh.2]
              · split at hh
                · split at hh <;> simp at hh
                  simp [← hh.2]; omega
                · split at hh <;> simp at hh
                  simp [← hh.2]; omega
          rw [← h.2]; simp; omega

/-- the whole generator: operations yielded, then the error if one is raised -/
def rawIterFrom (idx : Nat) (s : Bytes) : List RawOp × Option IterErr :=
  match h : rawStep idx s with
  | none => ([], none)
  | some (.err e) => ([], some e)
  | some (.op o rest) =>
    let (ops, e) := rawIterFrom (idx + (s.length - rest.length)) rest
    (o :: ops, e)
termination_by s.length
decreasing_by exact rawStep_rest_lt h

def rawIter (s : Bytes) : List RawOp × Option IterErr := rawIterFrom 0 s

/-- bytes of one operation inside script `s` given the start of the next operation -/
def opBytes (s : Bytes) (o : RawOp) (nextIdx : Nat) : Bytes := (s.drop o.sopIdx).take (nextIdx - o.sopIdx)

end BtcVerif.Model.Script
