/-
  C12 — mirror of bitcoin/__init__.py (SelectParams), bitcoin/core/__init__.py (_SelectCoreParams)
  and bitcoin/wallet.py (CBitcoinAddress and its six subclasses).

  The selected chain is the explicit state `ChainState` (module globals `bitcoin.params` and
  `bitcoin.core.coreparams`).  Address objects are `Spec.Addr.Addr` values (class, nVersion/witver,
  payload).  `H` is `bitcoin.core.Hash` (SHA-256d), `H160` is `bitcoin.core.Hash160`.

  Exception sites that are not library errors are explicit outcomes:
    * `assert self.nVersion == bitcoin.params.BASE58_PREFIXES[...]` / `assert self.witver == 0`
      in the `to_scriptPubKey` methods                                     → `.py "AssertionError"`
    * `bytes(witprog)` with an element ≥ 256, range checks of the two `from_bytes` → `.valueerr`
    * whatever the bech32 / base58 / script layers can raise is passed through.
  The model is written for the repaired `CBech32BitcoinAddress.from_bytes` (D9: a witness version
  other than 0 raises CBitcoinAddressError instead of failing `assert witver == 0`) and for the
  property-conforming bare-pubkey branch (D18: the whole 65-byte uncompressed key is hashed; the
  shipped code slices `scriptPubKey[1:65]`, 64 bytes — pinned by test_wallet.py, a known finding).
  Mathlib-free (linked into btcmodel).
-/
import BtcVerif.Basic.Outcome
import BtcVerif.Spec.Addr
import BtcVerif.Model.Base58
import BtcVerif.Model.Bech32
import BtcVerif.Model.ScriptIter

namespace BtcVerif.Model.Addr
open BtcVerif BtcVerif.Spec
open BtcVerif.Spec.Addr (AddrClass Addr)

/-! ### chain selection -/

/-- which Python object `bitcoin.core.coreparams` is: an instance of a core-only class
    (`CoreMainParams()` …: only the core fields exist), or the very instance `bitcoin.params` holds -/
inductive CoreObj
  | coreOnly (c : Addr.CoreFields)
  | full (p : ChainParams)
deriving DecidableEq, Repr

/-- the core fields of either kind of object (what `bitcoin.core` reads) -/
def CoreObj.fields : CoreObj → Addr.CoreFields
  | .coreOnly c => c
  | .full p => Addr.coreFields p

/-- the two module globals.  wallet.py and bech32.py read `bitcoin.params` only (BASE58_PREFIXES,
    BECH32_HRP); `bitcoin.core.coreparams` is read by the consensus checks of bitcoin.core -/
structure ChainState where
  params : ChainParams          -- bitcoin.params
  coreparams : CoreObj          -- bitcoin.core.coreparams
deriving DecidableEq, Repr

/-- state after `import bitcoin`: `params = MainParams()`, `coreparams = CoreMainParams()` — two
    different objects, the second without prefixes / HRP / magic -/
def initState : ChainState := ⟨mainnet, .coreOnly (Addr.coreFields mainnet)⟩

/-- `bitcoin.core._SelectCoreParams(name)`: new value of `coreparams`, or ValueError -/
def selectCore (name : String) : Res CoreObj :=
  if name = "mainnet" then .ok (.coreOnly (Addr.coreFields mainnet))
  else if name = "testnet" then .ok (.coreOnly (Addr.coreFields testnet))
  else if name = "regtest" then .ok (.coreOnly (Addr.coreFields regtest))
  else if name = "signet" then .ok (.coreOnly (Addr.coreFields signet))
  else .error .valueerr

/-- `bitcoin.SelectParams(name)`: the state it leaves and the exception it raises, if any -/
def selectParams (st : ChainState) (name : String) : ChainState × Option Exc :=
  match selectCore name with
  | .error e => (st, some e)                       -- raised before anything was assigned
  | .ok core =>
    let st := { st with coreparams := core }
    -- params = bitcoin.core.coreparams = XParams(): one object for both globals
    if name = "mainnet" then (⟨mainnet, .full mainnet⟩, none)
    else if name = "testnet" then (⟨testnet, .full testnet⟩, none)
    else if name = "regtest" then (⟨regtest, .full regtest⟩, none)
    else if name = "signet" then (⟨signet, .full signet⟩, none)
    else (st, some .valueerr)

/-- a history of `SelectParams` calls (exceptions caught by the caller) -/
def runHistory (history : List String) : ChainState :=
  history.foldl (fun st n => (selectParams st n).1) initState

/-! ### script helpers (bitcoin/core/script.py) -/

/-- `CScriptOp.encode_op_pushdata(d)` -/
def pushEnc (d : Bytes) : Res Bytes :=
  let n := d.length
  if n < 0x4c then .ok (UInt8.ofNat n :: d)
  else if n ≤ 0xff then .ok (0x4c :: UInt8.ofNat n :: d)
  else if n ≤ 0xffff then .ok (0x4d :: (leBytes 2 n ++ d))
  else if n ≤ 0xffffffff then .ok (0x4e :: (leBytes 4 n ++ d))
  else .error .valueerr

/-- Python slice `s[a:b]` for `0 ≤ a ≤ b` -/
def slice (s : Bytes) (a b : Nat) : Bytes := (s.take b).drop a

/-- `CScript.is_p2sh` -/
def isP2sh (s : Bytes) : Bool :=
  s.length == 23 && s[0]? == some 0xa9 && s[1]? == some 0x14 && s[22]? == some 0x87

/-- `CScript.is_witness_v0_keyhash` -/
def isWitnessV0Keyhash (s : Bytes) : Bool := s.length == 22 && slice s 0 2 == [0x00, 0x14]

/-- `CScript.is_witness_v0_nested_keyhash` -/
def isWitnessV0NestedKeyhash (s : Bytes) : Bool := s.length == 23 && slice s 0 3 == [0x16, 0x00, 0x14]

/-- `CScript.is_witness_v0_scripthash` -/
def isWitnessV0Scripthash (s : Bytes) : Bool := s.length == 34 && slice s 0 2 == [0x00, 0x20]

/-- what `CScript.__coerce_instance` makes of one item yielded by `CScript.__iter__` -/
def recodeOp (o : Script.RawOp) : Res Bytes :=
  if o.opcode = 0 then .ok [0x00]                    -- yields 0 → encode_op_n(0) = OP_0
  else
    match o.data with
    | some d => pushEnc d                            -- yields the data → encode_op_pushdata
    | none => .ok [UInt8.ofNat o.opcode]             -- OP_1..OP_16 → n → the same opcode; others as is

/-- `CScript(tuple(scriptPubKey))`: iterate completely (a malformed push raises CScriptInvalidError),
    then rebuild with minimal push opcodes -/
def canonicalize (s : Bytes) : Res Bytes :=
  match Script.rawIter s with
  | (_, some _) => .error .invalidscript
  | (ops, none) => (ops.mapM recodeOp).map List.flatten

/-! ### from_bytes -/

/-- `CBase58BitcoinAddress.from_bytes` after `super().from_bytes`: class selection by version byte -/
def classify (chain : ChainParams) (d : Base58.B58Data) : Res Addr :=
  if d.nVersion.toNat = chain.scriptAddr then .ok ⟨.p2sh, d.nVersion.toNat, d.data⟩
  else if d.nVersion.toNat = chain.pubkeyAddr then .ok ⟨.p2pkh, d.nVersion.toNat, d.data⟩
  else .error .addrerr

/-- `CBase58BitcoinAddress.from_bytes(data, nVersion)` -/
def base58FromBytes (chain : ChainParams) (data : Bytes) (nVersion : Int) : Res Addr :=
  match Base58.fromBytes data nVersion with
  | .error e => .error e
  | .ok d => classify chain d

/-- `P2SHBitcoinAddress.from_bytes(data, nVersion)` / `P2PKHBitcoinAddress.from_bytes(data, nVersion)`
    with `expected` the chain's SCRIPT_ADDR / PUBKEY_ADDR; `none` is the default argument -/
def subclassFromBytes (chain : ChainParams) (expected : Nat) (data : Bytes) (nVersion : Option Int) :
    Res Addr :=
  match nVersion with
  | none => base58FromBytes chain data expected
  | some v => if v ≠ expected then .error .valueerr else base58FromBytes chain data v

/-- `bytes(witprog)` for a list of ints -/
def bytesOfInts (l : List Nat) : Res Bytes :=
  if l.all (· < 256) then .ok (l.map UInt8.ofNat) else .error .valueerr

/-- `CBech32BitcoinAddress.from_bytes(witver, witprog)` (repaired, D9) -/
def bech32FromBytes (witver : Nat) (witprog : List Nat) : Res Addr :=
  if witver ≠ 0 then .error .addrerr                 -- was: assert witver == 0
  else
    match bytesOfInts witprog with                   -- bytes(witprog)
    | .error e => .error e
    | .ok b =>
      if ¬ (witver ≤ 16) then .error .valueerr       -- CBech32Data.from_bytes range check
      else if b.length = 32 then .ok ⟨.p2wsh, witver, b⟩
      else if b.length = 20 then .ok ⟨.p2wpkh, witver, b⟩
      else .error .addrerr

/-! ### CBitcoinAddress(s) -/

/-- `CBech32BitcoinAddress(s)` = `CBech32Data.__new__` with the overridden `from_bytes` -/
def bech32New (chain : ChainParams) (s : List Char) : Res Addr :=
  match Bech32.decodeR chain.bech32Hrp.toList s with
  | .error e => .error e
  | .ok none => .error .bech32err
  | .ok (some (witver, data)) => bech32FromBytes witver data

/-- `CBase58BitcoinAddress(s)` = `CBase58Data.__new__` with the overridden `from_bytes` -/
def base58New (H : Bytes → Bytes) (chain : ChainParams) (s : List Char) : Res Addr :=
  match Base58.new H s with
  | .error e => .error e
  | .ok d => classify chain d

/-- `CBitcoinAddress.__new__(cls, s)`: bech32 first (only Bech32Error is swallowed), then base58
    (only Base58Error is swallowed), else CBitcoinAddressError -/
def parse (H : Bytes → Bytes) (chain : ChainParams) (s : List Char) : Res Addr :=
  match bech32New chain s with
  | .ok a => .ok a
  | .error .bech32err =>
    (match base58New H chain s with
     | .ok a => .ok a
     | .error .b58err => .error .addrerr
     | .error .b58checksum => .error .addrerr
     | .error e => .error e)
  | .error e => .error e

/-! ### from_scriptPubKey -/

/-- `try: A except CBitcoinAddressError: B` -/
def orElse (a : Res Addr) (b : Unit → Res Addr) : Res Addr :=
  match a with
  | .error .addrerr => b ()
  | r => r

def p2wshFromScript (spk : Bytes) : Res Addr :=
  if isWitnessV0Scripthash spk then bech32FromBytes 0 ((slice spk 2 34).map UInt8.toNat)
  else .error .addrerr

def p2wpkhFromScript (spk : Bytes) : Res Addr :=
  if isWitnessV0Keyhash spk then bech32FromBytes 0 ((slice spk 2 22).map UInt8.toNat)
  else .error .addrerr

def p2shFromScript (chain : ChainParams) (spk : Bytes) : Res Addr :=
  if isP2sh spk then subclassFromBytes chain chain.scriptAddr (slice spk 2 22) (some chain.scriptAddr)
  else .error .addrerr

/-- `P2PKHBitcoinAddress.from_scriptPubKey(scriptPubKey, accept_non_canonical_pushdata, accept_bare_checksig)` -/
def p2pkhFromScript (H160 : Bytes → Bytes) (chain : ChainParams) (spk : Bytes)
    (acceptNonCanonical : Bool := true) (acceptBareChecksig : Bool := true) : Res Addr :=
  let canon : Res Bytes :=
    if acceptNonCanonical then
      (match canonicalize spk with
       | .error .invalidscript => .error .addrerr
       | r => r)
    else .ok spk
  match canon with
  | .error e => .error e
  | .ok s =>
    let pk := some (chain.pubkeyAddr : Int)
    if isWitnessV0Keyhash s then subclassFromBytes chain chain.pubkeyAddr (slice s 2 22) pk
    else if isWitnessV0NestedKeyhash s then subclassFromBytes chain chain.pubkeyAddr (slice s 3 23) pk
    else if s.length == 25 && s[0]? == some 0x76 && s[1]? == some 0xa9 && s[2]? == some 0x14
        && s[23]? == some 0x88 && s[24]? == some 0xac then
      subclassFromBytes chain chain.pubkeyAddr (slice s 3 23) pk
    else if acceptBareChecksig then
      let pubkey : Option Bytes :=
        if s.length == 35 && s[0]? == some 0x21 && s[34]? == some 0xac then some (slice s 1 34)
        else if s.length == 67 && s[0]? == some 0x41 && s[66]? == some 0xac then some (slice s 1 66)  -- D18: shipped code has [1:65]
        else none
      match pubkey with
      -- from_pubkey(pubkey, accept_invalid=True) → P2PKHBitcoinAddress.from_bytes(Hash160(pubkey))
      | some p => subclassFromBytes chain chain.pubkeyAddr (H160 p) none
      | none => .error .addrerr
    else .error .addrerr

/-- D18, the KNOWN defect, as coded: what the shipped bare-uncompressed-pubkey branch returns for a
    (canonicalised) script `41 <65-byte key> ac` — the P2PKH address of the hash160 of
    `scriptPubKey[1:65]`, 64 of the 65 key bytes.  Used only by the harness to recognise exactly this
    known outcome (driver op `c12.bare.expect`); no theorem is about it. -/
def bareUncompressedAsCoded (H160 : Bytes → Bytes) (chain : ChainParams) (s : Bytes) : Res Addr :=
  subclassFromBytes chain chain.pubkeyAddr (H160 (slice s 1 65)) none

/-- `CBitcoinAddress.from_scriptPubKey(scriptPubKey)` -/
def fromScript (H160 : Bytes → Bytes) (chain : ChainParams) (spk : Bytes) : Res Addr :=
  orElse (orElse (p2wshFromScript spk) fun _ => orElse (p2wpkhFromScript spk) fun _ => .error .addrerr)
    fun _ =>
  orElse (orElse (p2shFromScript chain spk) fun _ =>
            orElse (p2pkhFromScript H160 chain spk) fun _ => .error .addrerr)
    fun _ => .error .addrerr

/-! ### to_scriptPubKey, __str__ -/

/-- `addr.to_scriptPubKey()` under the currently selected chain -/
def toScript (chain : ChainParams) (a : Addr) : Res Bytes :=
  match a.cls with
  | .p2sh =>
    if a.ver ≠ chain.scriptAddr then .error assertionError
    else (pushEnc a.payload).map fun p => [0xa9] ++ p ++ [0x87]
  | .p2pkh =>
    if a.ver ≠ chain.pubkeyAddr then .error assertionError
    else (pushEnc a.payload).map fun p => [0x76, 0xa9] ++ p ++ [0x88, 0xac]
  | .p2wsh | .p2wpkh =>
    if a.ver ≠ 0 then .error assertionError
    else (pushEnc a.payload).map fun p => [0x00] ++ p

/-- `str(addr)`: base58 classes use the stored `nVersion`, bech32 classes the *current* HRP -/
def toText (H : Bytes → Bytes) (chain : ChainParams) (a : Addr) : Res (List Char) :=
  match a.cls with
  | .p2sh | .p2pkh =>
    if a.ver < 256 then .ok (Base58.str H ⟨UInt8.ofNat a.ver, a.payload⟩)
    else .error .valueerr                            -- bytes([self.nVersion])
  | .p2wsh | .p2wpkh => Bech32.cbech32Str chain.bech32Hrp.toList a.ver a.payload

end BtcVerif.Model.Addr
