/-
  C03 / C04 — mirror of bitcoin/core/script.py `FindAndDelete`, `RawSignatureHash`, `SignatureHash`
  (both sigversions), `CScript.is_witness_scriptpubkey`, and of
  bitcoin/core/__init__.py `CMutableTransaction.from_tx` (the scratch copy and its constructors'
  range checks) and `CTxOut()` defaults.

  The code is followed statement by statement: scratch copy, blanking of every scriptSig,
  FindAndDelete over `raw_iter` operation boundaries, the `if/elif` on `hashtype & 0x1f`, the list
  surgery, `txtmp.wit = CTxWitness()`, serialisation through the shared wire model (`Model.Wire`)
  with each `struct` format's range error, and `struct.pack('<i', hashtype)`.

  Conventions.  `hashtype` is a Python int (`Int` here): `hashtype & 0x1f` is `hashtype % 32` and
  `hashtype & 0x80` is non-zero iff `(hashtype / 128) % 2 ≠ 0` (Lean's `Int` `/`, `%` are floor
  division / non-negative remainder for a positive divisor, i.e. two's-complement masking).
  The input index is a `Nat`: negative indices are outside the properties' domain (known finding D7
  belongs to C07).  Every place where Python could raise is an explicit `Res` error.

  D1: the witness-v0 branch packs nLockTime with `'<I'` here (the property-conforming behaviour);
  the shipped code has `'<i'` and raises struct.error for nLockTime ≥ 2^31.
  Mathlib-free.
-/
import BtcVerif.Model.Wire
import BtcVerif.Model.ScriptIter
import BtcVerif.Crypto.Sha256

namespace BtcVerif.Model.Sighash
open BtcVerif BtcVerif.Model.Wire BtcVerif.Model.Script

/-- Python slice `s[a:b]` for non-negative `a`, `b` -/
def pySlice (s : Bytes) (a b : Nat) : Bytes := (s.drop a).take (b - a)

/-! ### FindAndDelete -/

/-- loop state of `FindAndDelete`: `r`, `last_sop_idx`, `skip` -/
structure FadState where
  r : Bytes
  last : Nat
  skip : Bool
deriving Repr

/-- body of `for (opcode, data, sop_idx) in script.raw_iter():` -/
def fadStep (script sig : Bytes) (st : FadState) (o : RawOp) : FadState :=
  { r := if !st.skip then st.r ++ pySlice script st.last o.sopIdx else st.r
    last := o.sopIdx
    skip := pySlice script o.sopIdx (o.sopIdx + sig.length) == sig }

/-- script.py `FindAndDelete(script, sig)`.  When `raw_iter` raises (after its last yield) the
    exception propagates out of the `for` loop: outcome `invalidscript`. -/
def findAndDelete (script sig : Bytes) : Res Bytes :=
  let it := rawIter script
  let st := it.1.foldl (fadStep script sig) { r := [], last := 0, skip := true }
  match it.2 with
  | some _ => .error .invalidscript
  | none => .ok (if !st.skip then st.r ++ script.drop st.last else st.r)

/-! ### the scratch copy -/

/-- `CMutableTxIn.from_txin`: `CMutableOutPoint(hash, n)` checks `len(hash) == 32` and
    `0 <= n <= 0xffffffff`, `CMutableTxIn.__init__` checks `0 <= nSequence <= 0xffffffff`;
    each failure is a plain ValueError. -/
def fromTxInOk (i : TxIn) : Bool :=
  i.prevout.hash.length = 32 && i.prevout.n ≤ 0xffffffff && i.nSequence ≤ 0xffffffff

/-- `CMutableTransaction.from_tx(txTo)`: copies of all inputs, then of all outputs
    (`CMutableTxOut(nValue, scriptPubKey)`, no check), then `CMutableTransaction.__init__`
    with its `0 <= nLockTime <= 0xffffffff` check.  All failures are ValueError; the copy carries
    the same field values. -/
def fromTx (t : Tx) : Res Tx :=
  if t.vin.all fromTxInOk && t.nLockTime ≤ 0xffffffff then .ok t else .error .valueerr

/-- `bitcoin.core.CTxOut()`: nValue = -1, empty script -/
def blankTxOut : TxOut := { nValue := -1, scriptPubKey := [] }

/-- `for i in range(len(txtmp.vin)): if i != inIdx: txtmp.vin[i].nSequence = 0` -/
def zeroOtherSeq (vin : List TxIn) (inIdx : Nat) : List TxIn :=
  vin.mapIdx (fun k i => if k ≠ inIdx then { i with nSequence := 0 } else i)

/-- the function-local literal `HASH_ONE` -/
def HASH_ONE : Bytes :=
  [0x01, 0, 0, 0, 0, 0, 0, 0, 0, 0, 0, 0, 0, 0, 0, 0, 0, 0, 0, 0, 0, 0, 0, 0, 0, 0, 0, 0, 0, 0, 0, 0]

/-- `lst[i]` for `i ≥ 0` -/
def pyGetNat {α} (l : List α) (i : Nat) : Res α :=
  match l[i]? with
  | some x => .ok x
  | none => .error indexError

/-- the `if (hashtype & 0x1f) == SIGHASH_NONE … elif … == SIGHASH_SINGLE …` block acting on
    (`txtmp.vin`, `txtmp.vout`); `none` is the early `return (HASH_ONE, "outIdx … out of range")`. -/
def pruneOutputs (vin : List TxIn) (vout : List TxOut) (inIdx : Nat) (hashtype : Int) :
    Option (List TxIn × List TxOut) :=
  if hashtype % 32 = 2 then
    some (zeroOtherSeq vin inIdx, [])
  else if hashtype % 32 = 3 then
    -- outIdx = inIdx; `if outIdx >= len(txtmp.vout): return (HASH_ONE, …)`; `tmp = txtmp.vout[outIdx]`
    match vout[inIdx]? with
    | none => none
    | some tmp => some (zeroOtherSeq vin inIdx, List.replicate inIdx blankTxOut ++ [tmp])
  else some (vin, vout)

/-- `if hashtype & SIGHASH_ANYONECANPAY: tmp = txtmp.vin[inIdx]; txtmp.vin = []; txtmp.vin.append(tmp)` -/
def pruneInputs (vin : List TxIn) (inIdx : Nat) (hashtype : Int) : Res (List TxIn) :=
  if (hashtype / 128) % 2 ≠ 0 then do
    let tmp ← pyGetNat vin inIdx
    pure [tmp]
  else pure vin

/-- script.py `RawSignatureHash(script, txTo, inIdx, hashtype)` → `(hash, err is not None)` -/
def rawSignatureHash (script : Bytes) (txTo : Tx) (inIdx : Nat) (hashtype : Int) : Res (Bytes × Bool) :=
  if inIdx ≥ txTo.vin.length then .ok (HASH_ONE, true)
  else do
    let txtmp ← fromTx txTo
    -- for txin in txtmp.vin: txin.scriptSig = b''
    let vin0 := txtmp.vin.map (fun i => { i with scriptSig := [] })
    -- txtmp.vin[inIdx].scriptSig = FindAndDelete(script, CScript([OP_CODESEPARATOR]))
    let sc ← findAndDelete script [0xab]
    let signed ← pyGetNat vin0 inIdx
    let vin1 := vin0.set inIdx { signed with scriptSig := sc }
    match pruneOutputs vin1 txtmp.vout inIdx hashtype with
    | none => pure (HASH_ONE, true)
    | some (vin2, vout2) => do
      let vin3 ← pruneInputs vin2 inIdx hashtype
      -- txtmp.wit = CTxWitness(); s = txtmp.serialize()
      let s ← serTx { txtmp with vin := vin3, vout := vout2, wit := [] }
      -- s += struct.pack(b"<i", hashtype)
      let h ← packI 4 hashtype
      pure (Crypto.hash256 (s ++ h), false)

/-! ### `CScript.is_witness_scriptpubkey` -/

/-- `CScriptOp(n)`: `_opcode_instances[n]` on the 256-entry instance table with Python's negative
    indexing; on IndexError `assert len(_opcode_instances) == n` (which only `n = 256` passes, then
    yielding a new instance with value 256).  The value of the returned instance. -/
def cscriptOpValue (n : Int) : Res Int :=
  if 0 ≤ n ∧ n < 256 then .ok n
  else if -256 ≤ n ∧ n < 0 then .ok (256 + n)
  else if n = 256 then .ok 256
  else .error assertionError

/-- script.py `CScript.is_witness_scriptpubkey` (note the *signed* `'<bb'` unpack) -/
def isWitnessScriptPubKey (s : Bytes) : Res Bool :=
  let size := s.length
  if size < 4 ∨ size > 42 then .ok false
  else
    match s with
    | b0 :: b1 :: _ => do
      -- head = struct.unpack('<bb', self[:2])
      let head0 : Int := leInt [b0]
      let head1 : Int := leInt [b1]
      let op ← cscriptOpValue head0
      -- is_small_int: 0x51 <= self <= 0x60 or self == 0
      if ¬ ((0x51 ≤ op ∧ op ≤ 0x60) ∨ op = 0) then pure false
      else if head1 + 2 ≠ (size : Int) then pure false
      else pure true
    | _ => .error structError     -- unpack of fewer than 2 bytes

/-! ### `SignatureHash` -/

/-- `SignatureHash(script, txTo, inIdx, hashtype)` with `sigversion = SIGVERSION_BASE`, written for the
    property-conforming behaviour: the consensus digest, or ValueError when the raw form reports an
    error.  The shipped code has an additional guard in front, see `signatureHashBaseAsCoded` (known
    finding D17: an `assert` API precondition on subscripts that have the shape of a witness program). -/
def signatureHashBase (script : Bytes) (txTo : Tx) (inIdx : Nat) (hashtype : Int) : Res Bytes := do
  let (h, err) ← rawSignatureHash script txTo inIdx hashtype
  -- if err is not None: raise ValueError(err)
  if err then throw .valueerr
  pure h

/-- The wrapper exactly as coded: `assert not script.is_witness_scriptpubkey()` first (AssertionError
    for every subscript shaped like a witness program, whatever the other arguments), then as above. -/
def signatureHashBaseAsCoded (script : Bytes) (txTo : Tx) (inIdx : Nat) (hashtype : Int) : Res Bytes := do
  let w ← isWitnessScriptPubKey script
  if w then throw assertionError
  signatureHashBase script txTo inIdx hashtype

def zero32 : Bytes := List.replicate 32 0

/-- `hashtype & SIGHASH_ANYONECANPAY` is non-zero -/
def htAnyoneCanPay (hashtype : Int) : Bool := (hashtype / 128) % 2 ≠ 0

/-- first `if` block of the witness-v0 branch: `hashPrevouts` -/
def v0HashPrevouts (txTo : Tx) (hashtype : Int) : Res Bytes :=
  if !htAnyoneCanPay hashtype then do
    -- for i in txTo.vin: serialize_prevouts += i.prevout.serialize()
    let parts ← txTo.vin.mapM (fun i => serOutPoint i.prevout)
    pure (Crypto.hash256 parts.flatten)
  else pure zero32

/-- second `if` block: `hashSequence` -/
def v0HashSequence (txTo : Tx) (hashtype : Int) : Res Bytes :=
  if !htAnyoneCanPay hashtype && hashtype % 32 ≠ 3 && hashtype % 32 ≠ 2 then do
    -- for i in txTo.vin: serialize_sequence += struct.pack("<I", i.nSequence)
    let parts ← txTo.vin.mapM (fun i => packU 4 i.nSequence)
    pure (Crypto.hash256 parts.flatten)
  else pure zero32

/-- third `if / elif` block: `hashOutputs` -/
def v0HashOutputs (txTo : Tx) (inIdx : Nat) (hashtype : Int) : Res Bytes :=
  if hashtype % 32 ≠ 3 ∧ hashtype % 32 ≠ 2 then do
    let parts ← txTo.vout.mapM serTxOut
    pure (Crypto.hash256 parts.flatten)
  else if hashtype % 32 = 3 ∧ inIdx < txTo.vout.length then do
    let o ← pyGetNat txTo.vout inIdx
    let b ← serTxOut o
    pure (Crypto.hash256 b)
  else pure zero32

/-- `SignatureHash(script, txTo, inIdx, hashtype, amount, SIGVERSION_WITNESS_V0)`;
    `amount = none` is the default `None` (struct.error "required argument is not an integer"). -/
def signatureHashWitnessV0 (script : Bytes) (txTo : Tx) (inIdx : Nat) (hashtype : Int)
    (amount : Option Int) : Res Bytes := do
  let hashPrevouts ← v0HashPrevouts txTo hashtype
  let hashSequence ← v0HashSequence txTo hashtype
  let hashOutputs ← v0HashOutputs txTo inIdx hashtype
  let v ← packI 4 txTo.nVersion
  let i ← pyGetNat txTo.vin inIdx
  let op ← serOutPoint i.prevout
  let sc ← serBytes script
  let am ← match amount with
    | some a => packI 8 a
    | none => .error structError
  let sq ← packU 4 i.nSequence
  let lk ← packU 4 txTo.nLockTime                     -- '<I' (D1 repaired; shipped: '<i')
  let h ← packI 4 hashtype
  pure (Crypto.hash256 (v ++ hashPrevouts ++ hashSequence ++ op ++ sc ++ am ++ sq ++ hashOutputs ++ lk ++ h))

end BtcVerif.Model.Sighash
