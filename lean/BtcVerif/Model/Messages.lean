/-
  C18 — P2P messages.  `Model.Msg.*` mirrors bitcoin/messages.py (MsgSerializable.to_bytes,
  stream_deserialize, from_bytes, every msg_* class's msg_ser / msg_deser) and bitcoin/net.py
  (CAddress, CInv, CBlockLocator, CAlert).

  A stream is the list of bytes not yet consumed.  `streamDeserialize` returns the outcome AND the
  remaining stream in every case (also when an exception is raised), so "bytes consumed" is part of
  the model: `BytesIO.read(n)` with fewer than `n` bytes left returns what is left (the stream is
  then exhausted) and `ser_read` raises the truncation error; the `MAX_SIZE` guard raises before
  anything is read.

  Written for the property-conforming behaviour where the shipped code is defective:
    D14  the payload length is unpacked unsigned (`'<I'`), so lengths ≥ 2^31 hit the MAX_SIZE guard;
    D20  `msg_version.msg_ser` writes only the fields the message's nVersion carries;
    D15  `headers` entries carry the CompactSize transaction count 0 after each 80-byte header
         (written by msg_ser; read and discarded by msg_deser).

  Things the code does that are easy to overlook and are mirrored here:
    * `msg_deser` reads from `BytesIO(payload)`; payload bytes left over are ignored;
    * an unknown command prints a line and returns `None` (outcome `ok none`), the frame consumed;
    * the command is the part of the 12-byte field before the first NUL; what follows is ignored;
    * `msg_version.msg_deser` reads `addrFrom …` only from nVersion 106, the height from 209, `fRelay`
      from 70001 (else `True`); `msg_ser` writes under the same conditions (D20).
  Two defects of the shipped code are KNOWN findings, not repaired in /repo; the model is nevertheless
  written for the property-conforming behaviour:
    D24  `msg_version.msg_deser` reads nVersion 10300 as 300 (Bitcoin Core's receive-side quirk); the
         model keeps 10300;
    D25  `stream_deserialize(f, protover)` does not pass `protover` on and `CAddress.stream_deserialize`
         builds `cls()` (PROTO_VERSION), so the time gate of an address entry is dead on the read side and a
         frame built from `CAddress(protover < 31402)` objects cannot be read back; in the model the
         protocol version `pv` given to `streamDeserialize` governs the address entries and is what the
         parsed addresses carry.
  `socket.inet_pton / inet_ntop` are modelled, not verified: the model carries the 16 packed bytes
  (contract: `inet_pton(f, inet_ntop(f, b)) = b`, validated by the correspondence run).
  Mathlib-free (linked into btcmodel).
-/
import BtcVerif.Model.Wire
import BtcVerif.Spec.Messages

namespace BtcVerif.Model.Msg
open BtcVerif BtcVerif.Model.Wire

/-- net.py `PROTO_VERSION`, `CADDR_TIME_VERSION` (the model's own transcription; the Spec table has its
    own, tied to /repo by T1) -/
def PROTO_VERSION : Nat := 60002
def CADDR_TIME_VERSION : Nat := 31402

/-! ### net.py -/

/-- `struct.pack('>H', n)` -/
def packBE2 (n : Nat) : Res Bytes :=
  if n < 256 ^ 2 then .ok (beBytes 2 n) else .error structError

/-- `VarStringSerializer.stream_serialize` -/
def serVarStr (b : Bytes) : Res Bytes := serBytes b

/-- `CAddress.stream_serialize(f, without_time)` -/
def serAddr (withoutTime : Bool) (a : NetAddr) : Res Bytes := do
  let t ← if a.protover ≥ CADDR_TIME_VERSION && !withoutTime then packU 4 a.nTime else pure []
  let s ← packU 8 a.nServices
  let p ← packBE2 a.port
  pure (t ++ s ++ a.ip ++ p)

/-- `CAddress.stream_deserialize(f, without_time)` (D25 repaired): the address object belongs to the
    protocol version `pv` the caller of `stream_deserialize(f, protover=pv)` negotiated — the shipped
    code builds `cls()`, i.e. always PROTO_VERSION, so its time gate can never be false -/
def deAddr (pv : Nat) (withoutTime : Bool) : Parser NetAddr := fun s => do
  let (t, r) ← if pv ≥ CADDR_TIME_VERSION && !withoutTime then readU 4 s else pure (0, s)
  let (sv, r) ← readU 8 r
  let (ip, r) ← serRead 16 r
  let (pb, r) ← serRead 2 r
  pure ({ protover := pv, nTime := t, nServices := sv, ip := ip, port := beNat pb }, r)

/-- `CInv.stream_serialize`: the hash is written as it is (no length check) -/
def serInv (i : Inv) : Res Bytes := do
  let t ← packI 4 i.type
  pure (t ++ i.hash)

def deInv : Parser Inv := fun s => do
  let (t, r) ← readI 4 s
  let (h, r) ← serRead 32 r
  pure ({ type := t, hash := h }, r)

/-- `uint256VectorSerializer.stream_serialize`: `assert len(uint) == 32` inside the loop -/
def serUint256Vector (hs : List Bytes) : Res Bytes := do
  let l ← serVarInt hs.length
  let body ← hs.mapM (fun h => if h.length ≠ 32 then throw assertionError else pure h)
  pure (l ++ body.flatten)

def deUint256Vector : Parser (List Bytes) := fun s => do
  let (n, r) ← deVarInt s
  deRepeat (serRead 32) n r

/-- `CBlockLocator.stream_serialize` -/
def serLocator (l : Locator) : Res Bytes := do
  let v ← packI 4 l.nVersion
  let hs ← serUint256Vector l.vHave
  pure (v ++ hs)

def deLocator : Parser Locator := fun s => do
  let (v, r) ← readI 4 s
  let (hs, r) ← deUint256Vector r
  pure ({ nVersion := v, vHave := hs }, r)

/-! ### messages.py: msg_ser -/

/-- `msg_getblocks.msg_ser` / `msg_getheaders.msg_ser`: hashstop written as it is -/
def serLocatorMsg (l : Locator) (hashstop : Bytes) : Res Bytes := do
  let a ← serLocator l
  pure (a ++ hashstop)

/-- `msg_version.msg_ser` (D20 repaired): the fields after `addrTo` are written under the same
    conditions `msg_deser` reads them — `addrFrom`, `nNonce`, `strSubVer` from nVersion 106, the height
    from 209, `fRelay` from 70001.  A `None` field that is due raises: `None` has no `stream_serialize`
    (AttributeError), `struct.pack` of None is `struct.error`, `len(None)` is TypeError. -/
def serVersion (v : VersionMsg) : Res Bytes := do
  let a ← packI 4 v.nVersion
  let b ← packU 8 v.nServices
  let c ← packI 8 v.nTime
  let d ← serAddr true v.addrTo
  let e ←
    if v.nVersion ≥ 106 then do
      let e ← match v.addrFrom with
        | some x => serAddr true x
        | none => throw (.py "AttributeError")
      let f ← match v.nNonce with
        | some n => packU 8 n
        | none => throw structError
      let g ← match v.strSubVer with
        | some s => serVarStr s
        | none => throw (.py "TypeError")
      let h ←
        if v.nVersion ≥ 209 then
          (match v.nStartingHeight with
           | some n => packI 4 n
           | none => throw structError)
        else pure []
      pure (e ++ f ++ g ++ h)
    else pure []
  let i ← if v.nVersion ≥ 70001 then packU 1 v.fRelay else pure []
  pure (a ++ b ++ c ++ d ++ e ++ i)

/-- `msg_headers.msg_ser` (D15 repaired): each header followed by CompactSize 0 -/
def serHeaderEntry (h : Header) : Res Bytes := do
  let b ← serHeader h
  let z ← serVarInt 0
  pure (b ++ z)

/-- `msg_reject.msg_ser`: `struct.pack('<c', ccode)` wants a bytes object of length 1 -/
def serReject (m c r : Bytes) : Res Bytes := do
  let a ← serVarStr m
  let b ← if c.length = 1 then pure c else throw structError
  let d ← serVarStr r
  pure (a ++ b ++ d)

/-- `msg_ser` of each class -/
def msgSer : Msg → Res Bytes
  | .version v => serVersion v
  | .verack => pure []
  | .addr as => serVector (serAddr false) as
  | .alert m s => do
      let a ← serVarStr m
      let b ← serVarStr s
      pure (a ++ b)
  | .inv l => serVector serInv l
  | .getdata l => serVector serInv l
  | .notfound l => serVector serInv l
  | .getblocks loc stop => serLocatorMsg loc stop
  | .getheaders loc stop => serLocatorMsg loc stop
  | .headers hs => serVector serHeaderEntry hs
  | .tx t => serTx t
  | .block b => serBlock b
  | .getaddr => pure []
  | .ping n => packU 8 n
  | .pong n => packU 8 n
  | .reject m c r => serReject m c r
  | .mempool => pure []

/-! ### messages.py: msg_deser -/

def deVersion (pv : Nat) : Parser Msg := fun s => do
  let (ver, r) ← readI 4 s
  let (sv, r) ← readU 8 r
  let (t, r) ← readI 8 r
  let (to, r) ← deAddr pv true r
  let ((from?, nonce?, sub?, height?), r) ←
    (if ver ≥ 106 then do
      let (fr, r) ← deAddr pv true r
      let (n, r) ← readU 8 r
      let (sub, r) ← deBytes r
      if ver ≥ 209 then do
        let (h, r) ← readI 4 r
        pure ((some fr, some n, some sub, some h), r)
      else pure ((some fr, some n, some sub, none), r)
    else pure ((none, none, none, none), r) : Res ((Option NetAddr × Option Nat × Option Bytes × Option Int) × Bytes))
  let (relay, r) ← if ver ≥ 70001 then readU 1 r else pure (1, r)
  pure (.version { nVersion := ver, nServices := sv, nTime := t, addrTo := to, addrFrom := from?,
                   nNonce := nonce?, strSubVer := sub?, nStartingHeight := height?, fRelay := relay }, r)

def deAlert : Parser Msg := fun s => do
  let (m, r) ← deBytes s
  let (sg, r) ← deBytes r
  pure (.alert m sg, r)

def deLocatorMsg (mk : Locator → Bytes → Msg) : Parser Msg := fun s => do
  let (l, r) ← deLocator s
  let (stop, r) ← serRead 32 r
  pure (mk l stop, r)

/-- `msg_headers.msg_deser` (D15 repaired): the transaction count is read and discarded -/
def deHeaderEntry : Parser Header := fun s => do
  let (h, r) ← deHeader s
  let (_, r) ← deVarInt r
  pure (h, r)

def deReject : Parser Msg := fun s => do
  let (m, r) ← deBytes s
  let (c, r) ← serRead 1 r
  let (rs, r) ← deBytes r
  pure (.reject m c rs, r)

def mapP {α β} (f : α → β) (p : Parser α) : Parser β := fun s => do
  let (x, r) ← p s
  pure (f x, r)

/-! ### the `command` class attributes (ASCII bytes as they stand in messages.py) -/

/-- `b"version"` -/
def cmd_version : Bytes := [0x76, 0x65, 0x72, 0x73, 0x69, 0x6f, 0x6e]
/-- `b"verack"` -/
def cmd_verack : Bytes := [0x76, 0x65, 0x72, 0x61, 0x63, 0x6b]
/-- `b"addr"` -/
def cmd_addr : Bytes := [0x61, 0x64, 0x64, 0x72]
/-- `b"alert"` -/
def cmd_alert : Bytes := [0x61, 0x6c, 0x65, 0x72, 0x74]
/-- `b"inv"` -/
def cmd_inv : Bytes := [0x69, 0x6e, 0x76]
/-- `b"getdata"` -/
def cmd_getdata : Bytes := [0x67, 0x65, 0x74, 0x64, 0x61, 0x74, 0x61]
/-- `b"notfound"` -/
def cmd_notfound : Bytes := [0x6e, 0x6f, 0x74, 0x66, 0x6f, 0x75, 0x6e, 0x64]
/-- `b"getblocks"` -/
def cmd_getblocks : Bytes := [0x67, 0x65, 0x74, 0x62, 0x6c, 0x6f, 0x63, 0x6b, 0x73]
/-- `b"getheaders"` -/
def cmd_getheaders : Bytes := [0x67, 0x65, 0x74, 0x68, 0x65, 0x61, 0x64, 0x65, 0x72, 0x73]
/-- `b"headers"` -/
def cmd_headers : Bytes := [0x68, 0x65, 0x61, 0x64, 0x65, 0x72, 0x73]
/-- `b"tx"` -/
def cmd_tx : Bytes := [0x74, 0x78]
/-- `b"block"` -/
def cmd_block : Bytes := [0x62, 0x6c, 0x6f, 0x63, 0x6b]
/-- `b"getaddr"` -/
def cmd_getaddr : Bytes := [0x67, 0x65, 0x74, 0x61, 0x64, 0x64, 0x72]
/-- `b"ping"` -/
def cmd_ping : Bytes := [0x70, 0x69, 0x6e, 0x67]
/-- `b"pong"` -/
def cmd_pong : Bytes := [0x70, 0x6f, 0x6e, 0x67]
/-- `b"reject"` -/
def cmd_reject : Bytes := [0x72, 0x65, 0x6a, 0x65, 0x63, 0x74]
/-- `b"mempool"` -/
def cmd_mempool : Bytes := [0x6d, 0x65, 0x6d, 0x70, 0x6f, 0x6f, 0x6c]

/-- `self.command` of the class of each message -/
def command : Msg → Bytes
  | .version _ => cmd_version
  | .verack => cmd_verack
  | .addr _ => cmd_addr
  | .alert _ _ => cmd_alert
  | .inv _ => cmd_inv
  | .getdata _ => cmd_getdata
  | .notfound _ => cmd_notfound
  | .getblocks _ _ => cmd_getblocks
  | .getheaders _ _ => cmd_getheaders
  | .headers _ => cmd_headers
  | .tx _ => cmd_tx
  | .block _ => cmd_block
  | .getaddr => cmd_getaddr
  | .ping _ => cmd_ping
  | .pong _ => cmd_pong
  | .reject _ _ _ => cmd_reject
  | .mempool => cmd_mempool

/-- `messagemap`: command → `msg_deser` of its class -/
def msgDeser (pv : Nat) (command : Bytes) : Option (Parser Msg) :=
  if command = cmd_version then some (deVersion pv)
  else if command = cmd_verack then some (fun s => pure (.verack, s))
  else if command = cmd_addr then some (mapP Msg.addr (deVector (deAddr pv false)))
  else if command = cmd_alert then some deAlert
  else if command = cmd_inv then some (mapP Msg.inv (deVector deInv))
  else if command = cmd_getdata then some (mapP Msg.getdata (deVector deInv))
  else if command = cmd_notfound then some (mapP Msg.notfound (deVector deInv))
  else if command = cmd_getblocks then some (deLocatorMsg Msg.getblocks)
  else if command = cmd_getheaders then some (deLocatorMsg Msg.getheaders)
  else if command = cmd_headers then some (mapP Msg.headers (deVector deHeaderEntry))
  else if command = cmd_tx then some (mapP Msg.tx deTx)
  else if command = cmd_block then some (mapP Msg.block deBlock)
  else if command = cmd_getaddr then some (fun s => pure (.getaddr, s))
  else if command = cmd_ping then some (mapP Msg.ping (readU 8))
  else if command = cmd_pong then some (mapP Msg.pong (readU 8))
  else if command = cmd_reject then some deReject
  else if command = cmd_mempool then some (fun s => pure (.mempool, s))
  else none

/-! ### framing -/

/-- `th = sha256(body).digest(); h = sha256(th).digest(); h[:4]` -/
def checksum (payload : Bytes) : Bytes := (Crypto.sha256 (Crypto.sha256 payload)).take 4

/-- `MsgSerializable.to_bytes` after `msg_ser`: every command is at most 12 bytes, so
    `b"\x00" * (12 - len(command))` pads (a negative count would give `b""`, as `replicate` does) -/
def frame (magic command body : Bytes) : Res Bytes := do
  let l ← packU 4 body.length
  pure (magic ++ command ++ List.replicate (12 - command.length) 0 ++ l ++ checksum body ++ body)

/-- `MsgSerializable.to_bytes` under `bitcoin.params.MESSAGE_START = magic` -/
def toBytes (magic : Bytes) (m : Msg) : Res Bytes := do
  let body ← msgSer m
  frame magic (command m) body

/-- `ser_read(f, n)` on a `BytesIO`, keeping the stream position on failure as well -/
def readPos (n : Nat) (s : Bytes) : Res Bytes × Bytes :=
  if n > MAX_SIZE then (.error .sererr, s)
  else if s.length < n then (.error .trunc, [])
  else (.ok (s.take n), s.drop n)

/-- the `msglen` that `stream_deserialize` unpacks from a stream holding at least a header -/
def declaredLen (s : Bytes) : Nat := leNat ((s.drop 16).take 4)

/-- `MsgSerializable.stream_deserialize(f)`: outcome (`none` = the `return None` of an unknown
    command) and the stream that remains -/
def streamDeserialize (magic : Bytes) (pv : Nat) (s : Bytes) : Res (Option Msg) × Bytes :=
  match readPos 24 s with
  | (.error e, r) => (.error e, r)
  | (.ok recvbuf, r) =>
    if recvbuf.take 4 ≠ magic then (.error .valueerr, r)
    else
      let command := ((recvbuf.drop 4).take 12).takeWhile (· ≠ 0)
      let msglen := leNat ((recvbuf.drop 16).take 4)          -- struct.unpack('<I') (D14 repaired)
      let cks := (recvbuf.drop 20).take 4
      match readPos msglen r with
      | (.error e, r') => (.error e, r')
      | (.ok msg, r') =>
        if cks ≠ checksum msg then (.error .valueerr, r')
        else
          match msgDeser pv command with
          | some p =>
              (match p msg with
               | .ok (m, _) => (.ok (some m), r')
               | .error e => (.error e, r'))
          | none => (.ok none, r')

/-- header, declared length and checksum of the first frame of `s` pass `stream_deserialize`'s tests:
    what remains is the dispatch on the command and `msg_deser` on the payload -/
def frameAccepted (magic s : Bytes) : Bool :=
  decide (24 ≤ s.length) && decide (s.take 4 = magic) && decide (declaredLen s ≤ MAX_SIZE) &&
    decide (24 + declaredLen s ≤ s.length) &&
    decide ((s.drop 20).take 4 = checksum ((s.drop 24).take (declaredLen s)))

/-- `MsgSerializable.from_bytes(b)`: whatever follows the first frame is ignored -/
def fromBytes (magic : Bytes) (pv : Nat) (b : Bytes) : Res (Option Msg) := (streamDeserialize magic pv b).1

/-- reading a stream until it is exhausted (`while f.tell() < len(data)`): the messages returned
    in order, and the error that stopped the loop, if any.  Each successful call consumes at least
    the 24 header bytes, so `fuel = s.length` suffices. -/
def parseAllAux (magic : Bytes) (pv : Nat) : Nat → Bytes → List (Option Msg) × Option Exc
  | 0, _ => ([], none)
  | fuel + 1, s =>
    if s.isEmpty then ([], none)
    else
      match streamDeserialize magic pv s with
      | (.ok m, r) =>
          let (ms, e) := parseAllAux magic pv fuel r
          (m :: ms, e)
      | (.error e, _) => ([], some e)

def parseAll (magic : Bytes) (pv : Nat) (s : Bytes) : List (Option Msg) × Option Exc :=
  parseAllAux magic pv s.length s

/-- the same loop recording the stream position: every message with the stream that remains after it
    (`f.tell()` = bytes written − bytes remaining), and the error with what remains after the failing call -/
def parseTraceAux (magic : Bytes) (pv : Nat) : Nat → Bytes → List (Option Msg × Bytes) × Option (Exc × Bytes)
  | 0, _ => ([], none)
  | fuel + 1, s =>
    if s.isEmpty then ([], none)
    else
      match streamDeserialize magic pv s with
      | (.ok m, r) =>
          let (ms, e) := parseTraceAux magic pv fuel r
          ((m, r) :: ms, e)
      | (.error e, r) => ([], some (e, r))

def parseTrace (magic : Bytes) (pv : Nat) (s : Bytes) : List (Option Msg × Bytes) × Option (Exc × Bytes) :=
  parseTraceAux magic pv s.length s

end BtcVerif.Model.Msg
