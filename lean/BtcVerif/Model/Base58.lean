/-
  C10 — Base58 / Base58Check: mirror of bitcoin/base58.py (encode, decode, CBase58Data).

  Strings are `List Char`.  The hash `bitcoin.core.Hash` (SHA-256d) is the parameter `H`; the driver
  instantiates it with `Crypto.hash256`, theorems keep it opaque.

  Python exception sites that are not library errors are explicit outcomes:
    * `binascii.unhexlify` on the re-packed hex string        → `.py "Error"`   (binascii.Error)
    * `verbyte[0]` in `CBase58Data.__new__`                   → `.py "IndexError"`
  (both are proved unreachable in Props/C10.lean).  `B58_DIGITS[r]` is indexed with `r = n % 58`
  and the table has 58 entries (T1), so that index expression carries its bound.

  The model is written for the repaired `CBase58Data.__new__` (D8: `if len(k) < 5: raise
  Base58ChecksumError`).  Mathlib-free (linked into btcmodel).
-/
import BtcVerif.Basic.Outcome
import BtcVerif.Spec.Base58

namespace BtcVerif.Model.Base58
open BtcVerif.Spec.Base58 (alphabetChars alphabetChars_length)

/-- `B58_DIGITS[r]` for `r = n % 58` -/
def b58Digit (n : Nat) : Char :=
  alphabetChars[n % 58]'(by rw [alphabetChars_length]; exact Nat.mod_lt _ (by decide))

/-- `while n > 0: n, r = divmod(n, 58); res.append(B58_DIGITS[r])` -/
def encodeLoop (n : Nat) (res : List Char) : List Char :=
  if _h : n > 0 then encodeLoop (n / 58) (res ++ [b58Digit n]) else res
decreasing_by omega

/-- `for c in b: if c == 0: pad += 1 else: break` -/
def zeroPrefix : Bytes → Nat
  | [] => 0
  | c :: cs => if c == 0 then zeroPrefix cs + 1 else 0

/-- base58.py `encode` -/
def encode (b : Bytes) : List Char :=
  let n := beNat b                           -- int('0x0' + hexlify(b), 16)
  let res := (encodeLoop n []).reverse       -- ''.join(res[::-1])
  let pad := zeroPrefix b
  List.replicate pad '1' ++ res              -- B58_DIGITS[0] * pad + res

/-- the digit-accumulation loop of `decode`:
    `n *= 58; if c not in B58_DIGITS: raise InvalidBase58Error; n += B58_DIGITS.index(c)` -/
def decodeLoop : List Char → Nat → Res Nat
  | [], n => .ok n
  | c :: cs, n =>
    match alphabetChars.idxOf? c with
    | none => .error .b58err
    | some digit => decodeLoop cs (n * 58 + digit)

/-- `'%x' % n` -/
def hexOfNat (n : Nat) : List Char :=
  if _h : n < 16 then [hexDigit n] else hexOfNat (n / 16) ++ [hexDigit (n % 16)]
decreasing_by omega

/-- `for c in s[:-1]: if c == B58_DIGITS[0]: pad += 1 else: break` (argument is already `s[:-1]`) -/
def onePrefix : List Char → Nat
  | [] => 0
  | c :: cs => if c == '1' then onePrefix cs + 1 else 0

/-- base58.py `decode` -/
def decode (s : List Char) : Res Bytes :=
  if s.isEmpty then .ok []
  else
    match decodeLoop s 0 with
    | .error e => .error e
    | .ok n =>
      let h := hexOfNat n
      let h := if h.length % 2 = 1 then '0' :: h else h
      match ofHexChars? h with
      | none => .error (.py "Error")                   -- binascii.Error (dead, see Props/C10)
      | some res =>
        let pad := onePrefix s.dropLast                -- s[:-1]
        .ok (List.replicate pad (0 : UInt8) ++ res)

/-- a `CBase58Data` value: the payload bytes and the `nVersion` attribute -/
structure B58Data where
  nVersion : UInt8
  data : Bytes
deriving DecidableEq, Repr

/-- `CBase58Data.from_bytes(data, nVersion)` -/
def fromBytes (data : Bytes) (nVersion : Int) : Res B58Data :=
  if 0 ≤ nVersion ∧ nVersion ≤ 255 then .ok ⟨UInt8.ofNat nVersion.toNat, data⟩
  else .error .valueerr

/-- `CBase58Data.__new__(cls, s)`, with the length guard of the D8 repair -/
def new (H : Bytes → Bytes) (s : List Char) : Res B58Data :=
  match decode s with
  | .error e => .error e
  | .ok k =>
    if k.length < 5 then .error .b58checksum           -- repaired: a version byte and 4 check bytes
    else
      let verbyte := k.take 1                           -- k[0:1]
      let data := (k.take (k.length - 4)).drop 1        -- k[1:-4]
      let check0 := k.drop (k.length - 4)               -- k[-4:]
      let check1 := (H (verbyte ++ data)).take 4
      if check0 ≠ check1 then .error .b58checksum
      else
        match verbyte with
        | [] => .error indexError                       -- verbyte[0] (dead, see Props/C10)
        | v :: _ => fromBytes data (Int.ofNat v.toNat)

/-- `CBase58Data.__str__` -/
def str (H : Bytes → Bytes) (d : B58Data) : List Char :=
  let vs := d.nVersion :: d.data                       -- bytes([self.nVersion]) + self
  let check := (H vs).take 4
  encode (vs ++ check)

end BtcVerif.Model.Base58
