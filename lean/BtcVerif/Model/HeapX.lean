/-
  C09 — the heap model for the extended catalogue (audit F4): operations whose argument is a
  reference to an existing object or list, and the `witness=None` constructor path.

  The state is the heap state of `Model/Heap.lean`; `Spec.ValueSem.Op` operations are executed by
  `Model.Heap.step` unchanged.  The new operations store *addresses*:
    `obj.attr = other`      → one reference slot is overwritten with an existing address;
    `lst.append(other)`     → an existing address is appended to a list object;
    `CMutableTransaction(vin_obj, vout_obj, …)` → `self.vin = vin` etc. (core/__init__.py:477-488):
       the new transaction object refers to the very sequences it was given;
    `witness=None`          → `CTxWitness([CTxInWitness() for dummy in range(len(vin))])`: an object
       of the immutable class `CTxWitness`.  The model is PROPERTY-CONFORMING here (audit 2, D23): an
       immutable-class object never refers to a mutable object or to a Python list, i.e. the
       constructors freeze what they are given — `CTxWitness.__init__` stores `tuple(vtxinwit)`,
       `CScriptWitness.__init__` `tuple(stack)`, `CTxIn.__init__` `COutPoint.from_outpoint(prevout)`.
       Hence `w.vtxinwit[i] = …`, `.append`, `stack[j] = …` raise TypeError/AttributeError, and an
       outpoint object handed to `CTxIn(…)` is not shared with the new input.
  An operation whose source object is not of the class the slot/list holds is outside the catalogue
  (`na`): Python would store it, and every later `serialize()` would raise.  Mathlib-free.
-/
import BtcVerif.Model.Heap
import BtcVerif.Spec.AliasSem

namespace BtcVerif.Model.HeapX
open BtcVerif BtcVerif.Spec.ValueSem BtcVerif.Spec.AliasSem BtcVerif.Model.Heap

def kindAt (h : Heap) (a : Addr) : Option Nat := (h[a]?).map (·.sc.kind)

/-- `CTxWitness([CTxInWitness() for dummy in range(n)])` -/
def allocDefaultWit (h : Heap) (n : Nat) : Heap × Addr :=
  allocPlan h (.node false .wit [.node false (.seq .stacks) (List.replicate n (.node false (.inwit []) []))])

/-- store into a list object at an address: a tuple raises `immErr` -/
def withListAt (s : St) (x : Addr) (immErr : Exc) (f : List Addr → Except Exc (List Addr)) : St × Out :=
  match s.heap[x]? with
  | none => (s.skip, .badRef)
  | some lo =>
    if !lo.isMut then (s.skip, .err immErr)
    else match f lo.refs with
      | .error e => (s.skip, .err e)
      | .ok items => (s.bind (s.heap.set x { lo with refs := items }) none, .done)

def stepX (s : St) : OpX → St × Out
  | .base op => Model.Heap.step s op
  | .assignRef t slot src =>
      match s.target t, s.target src with
      | some x, some y =>
        match s.heap[x]? with
        | none => (s.skip, .badRef)
        | some o =>
          if o.sc.isSeq then (s.skip, .na)
          else match o.refs[slot]? with
            | none => (s.skip, .na)
            | some cur =>
              if kindAt s.heap cur ≠ kindAt s.heap y then (s.skip, .na)
              else if !o.isMut then (s.skip, .err attributeError)
              else (s.bind (s.heap.set x { o with refs := o.refs.set slot y }) none, .done)
      | _, _ => (s.skip, .badRef)
  | .setPrevout t v =>
      match s.target t with
      | none => (s.skip, .badRef)
      | some x =>
        if kindAt s.heap x ≠ some 1 then (s.skip, .na)
        else if !validOutPoint v then (s.skip, .err .valueerr)
        else match s.heap[x]? with
          | none => (s.skip, .badRef)
          | some o =>
            if !o.isMut then (s.skip, .err attributeError)
            else
              let a := allocPlan s.heap (planOutPoint true v)
              (s.bind (a.1.set x { o with refs := [a.2] }) none, .done)
  | .appendRef l src =>
      match s.target l, s.target src with
      | some x, some y =>
        match (kindAt s.heap x).bind elemKind with
        | none => (s.skip, .na)
        | some ek =>
          if kindAt s.heap y ≠ some ek then (s.skip, .na)
          else withListAt s x attributeError fun items => .ok (items ++ [y])
      | _, _ => (s.skip, .badRef)
  | .replaceRef l i src =>
      match s.target l, s.target src with
      | some x, some y =>
        match (kindAt s.heap x).bind elemKind with
        | none => (s.skip, .na)
        | some ek =>
          if kindAt s.heap y ≠ some ek then (s.skip, .na)
          else withListAt s x typeError fun items =>
            if i < items.length then .ok (items.set i y) else .error indexError
      | _, _ => (s.skip, .badRef)
  | .newTxFrom vin vout lock ver wit =>
      match s.target vin, s.target vout, wit.map s.target with
      | some avi, some avo, w =>
        if kindAt s.heap avi ≠ some 8 || kindAt s.heap avo ≠ some 9 then (s.skip, .na)
        else match w with
          | some none => (s.skip, .badRef)
          | some (some aw) =>
            if kindAt s.heap aw ≠ some 4 then (s.skip, .na)
            else if lock ≤ 0xffffffff then
              let a := alloc s.heap { isMut := true, sc := .tx ver lock, refs := [avi, avo, aw] }
              (s.bind a.1 (some a.2), .created)
            else (s.skip, .err .valueerr)
          | none =>
            if lock ≤ 0xffffffff then
              match s.heap[avi]? with
              | some lo =>
                let w := allocDefaultWit s.heap lo.refs.length
                let a := alloc w.1 { isMut := true, sc := .tx ver lock, refs := [avi, avo, w.2] }
                (s.bind a.1 (some a.2), .created)
              | none => (s.skip, .badRef)
            else (s.skip, .err .valueerr)
      | _, _, _ => (s.skip, .badRef)
  | .newTxDefault v =>
      if validTx v then
        let i := allocPlan s.heap (planIns true v.vin)
        let o := allocPlan i.1 (planOuts true v.vout)
        let w := allocDefaultWit o.1 v.vin.length
        let a := alloc w.1 { isMut := true, sc := .tx v.nVersion v.nLockTime, refs := [i.2, o.2, w.2] }
        (s.bind a.1 (some a.2), .created)
      else (s.skip, .err .valueerr)
  | .newTxInFrom prevout script seq =>
      match prevout.map s.target with
      | some none => (s.skip, .badRef)
      | some (some ap) =>
        if kindAt s.heap ap ≠ some 0 then (s.skip, .na)
        else if seq ≤ 0xffffffff then
          let a := alloc s.heap { isMut := true, sc := .txin script seq, refs := [ap] }
          (s.bind a.1 (some a.2), .created)
        else (s.skip, .err .valueerr)
      | none =>
        if seq ≤ 0xffffffff then
          let p := allocPlan s.heap (planOutPoint true ⟨List.replicate 32 0, 0xffffffff⟩)
          let a := alloc p.1 { isMut := true, sc := .txin script seq, refs := [p.2] }
          (s.bind a.1 (some a.2), .created)
        else (s.skip, .err .valueerr)
  | .newCTxInFrom prevout script seq =>
      match prevout.map s.target with
      | some none => (s.skip, .badRef)
      | some (some ap) =>
        if kindAt s.heap ap ≠ some 0 then (s.skip, .na)
        else if seq ≤ 0xffffffff then
          match s.heap[ap]?, absVal s.heap ap with
          | some o, some (.outpoint v) =>
            if !o.isMut || validOutPoint v then
              -- `COutPoint.from_outpoint(prevout)`: an immutable outpoint as is, a mutable one copied
              match planClone false D s.heap ap with
              | some p =>
                let a := allocPlan s.heap (.node false (.txin script seq) [p])
                (s.bind a.1 (some a.2), .created)
              | none => (s.skip, .badRef)
            else (s.skip, .err .valueerr)
          | _, _ => (s.skip, .badRef)
        else (s.skip, .err .valueerr)
      | none =>
        if seq ≤ 0xffffffff then
          let a := allocPlan s.heap
            (planTxIn false { prevout := ⟨List.replicate 32 0, 0xffffffff⟩, scriptSig := script, nSequence := seq })
          (s.bind a.1 (some a.2), .created)
        else (s.skip, .err .valueerr)
  | .witListEdit t i _ =>
      match s.target t with
      | none => (s.skip, .badRef)
      | some x =>
        if kindAt s.heap x ≠ some 4 then (s.skip, .na)
        else (s.skip, .err (if i.isSome then typeError else attributeError))
  | .stackEdit t j _ =>
      match s.target t with
      | none => (s.skip, .badRef)
      | some x =>
        if kindAt s.heap x ≠ some 3 then (s.skip, .na)
        else (s.skip, .err (if j.isSome then typeError else attributeError))
  | .newHeaderFrom t =>
      match s.target t with
      | none => (s.skip, .badRef)
      | some x =>
        match s.heap[x]? with
        | none => (s.skip, .badRef)
        | some o =>
          match o.sc with
          | .header h | .block h => Model.Heap.step s (.newHeader h)
          | _ => (s.skip, .na)
  | .newBlockFrom t txs =>
      match s.target t with
      | none => (s.skip, .badRef)
      | some x =>
        match s.heap[x]? with
        | none => (s.skip, .badRef)
        | some o =>
          match o.sc with
          | .header h | .block h => Model.Heap.step s (.newBlock h txs)
          | _ => (s.skip, .na)

def runX : St → List OpX → St × List Out
  | s, [] => (s, [])
  | s, op :: ops =>
      let r1 := stepX s op
      let r2 := runX r1.1 ops
      (r2.1, r1.2 :: r2.2)

/-! ### container kinds (T2 only; see `Spec.AliasSem.OpY`)

  A Python tuple holding mutable elements is a sequence object with `isMut = false` (not editable:
  `append` → AttributeError, item assignment → TypeError) whose references are mutable objects.
  `CTransaction.__init__`, `CTransaction.from_tx` and `CMutableTransaction.from_tx` rebuild `vin`/`vout`
  element by element whatever kind of sequence they are given (`planClone`: `.seq .ins/.outs` are
  `rebuilt`), so such a tuple never ends up inside an immutable transaction.
  (`InvX` of Proofs/HeapX1 does not cover heaps with such tuples; these operations are tied by T2 only.) -/

def stepY (s : St) : OpY → St × Out
  | .x op => stepX s op
  | .mkSeq outs isList items =>
      match mapO s.target items with
      | none => (s.skip, .badRef)
      | some as =>
        let ek := if outs then 2 else 1
        if as.any (fun a => kindAt s.heap a != some ek) then (s.skip, .na)
        else
          let a := alloc s.heap { isMut := isList, sc := .seq (if outs then .outs else .ins), refs := as }
          (s.bind a.1 (some a.2), .created)
  | .newCTxFrom vin vout lock ver wit =>
      match s.target vin, s.target vout, wit.map s.target with
      | some avi, some avo, w =>
        if kindAt s.heap avi ≠ some 8 || kindAt s.heap avo ≠ some 9 then (s.skip, .na)
        else
          let wa : Option (Option Addr) := match w with
            | none => some (some defaultWit)
            | some none => none
            | some (some aw) => if kindAt s.heap aw ≠ some 4 then some none else some (some aw)
          match wa with
          | none => (s.skip, .badRef)
          | some none => (s.skip, .na)
          | some (some aw) =>
            if lock ≤ 0xffffffff then
              match s.heap[avi]?, s.heap[avo]? with
              | some li, some lo =>
                -- tuple(CTxIn.from_txin(txin) for txin in vin): the constructor of a copied element validates
                let ok := li.refs.all fun a =>
                  match s.heap[a]?, absVal s.heap a with
                  | some o, some (.txin i) => !o.isMut || validTxIn i
                  | _, _ => true
                if !ok then (s.skip, .err .valueerr)
                else
                  match mapO (planClone false D s.heap) li.refs, mapO (planClone false D s.heap) lo.refs with
                  | some pi, some po =>
                    let a := allocPlan s.heap (.node false (.tx ver lock)
                      [.node false (.seq .ins) pi, .node false (.seq .outs) po, .ref aw])
                    (s.bind a.1 (some a.2), .created)
                  | _, _ => (s.skip, .badRef)
              | _, _ => (s.skip, .badRef)
            else (s.skip, .err .valueerr)
      | _, _, _ => (s.skip, .badRef)

end BtcVerif.Model.HeapX
