/-
  C11 — Bech32 / segwit addresses: executable mirror of bitcoin/segwit_addr.py (line by line) and of
  bitcoin/bech32.py (CBech32Data.__new__ / from_bytes / __str__).

  Conventions
  * a Python `str` is a `List Char` (code points); `String` wrappers are at the end of the file;
  * Python ints that are never negative on these paths (`ord(x)`, 5-bit values, accumulator) are `Nat`;
    `>>`, `<<`, `&`, `|`, `^` are `>>>`, `<<<`, `&&&`, `|||`, `^^^` on `Nat`;
  * a function that returns `None` / `(None, None)` returns `none`;
  * the places where CPython could raise a non-library exception are explicit `Exc.py` outcomes:
      `CHARSET[d]` with `d ≥ 32`           (IndexError, `bech32_encode`)
      `data[0]` on an empty list            (IndexError, `decode`)         — proved dead in Props/C11
      `[witver] + None`                     (TypeError,  `encode`)         — proved dead in Props/C11
      `str()` of an object whose `__str__` returns None (TypeError, `CBech32Data.__str__`);
      `bytes(witprog)` with an element ≥ 256 (ValueError, `from_bytes`) — dead after `decode`, proved in Props/C11.
  Mathlib-free (linked into btcmodel).
-/
import BtcVerif.Basic.Outcome
import BtcVerif.Spec.Bech32

namespace BtcVerif.Model.Bech32
open BtcVerif

/-- module-level `CHARSET` (the table is tied to /repo by T1) -/
def charset : List Char := Spec.Bech32.charset

/-- the function-local literal `generator` of `bech32_polymod` (tied to /repo by T1) -/
def generator : List Nat := Spec.Bech32.generator

/-! ### bech32_polymod -/

/-- the inner loop `for i in range(5): chk ^= generator[i] if ((top >> i) & 1) else 0`,
    written as a walk over the (five-entry) table with the running index `i` -/
def genXor (top : Nat) : List Nat → Nat → Nat → Nat
  | [], _, chk => chk
  | g :: gs, i, chk => genXor top gs (i + 1) (chk ^^^ (if (top >>> i) &&& 1 = 1 then g else 0))

/-- one iteration of `for value in values:` -/
def polymodStep (chk value : Nat) : Nat :=
  let top := chk >>> 25
  let chk := ((chk &&& 0x1ffffff) <<< 5) ^^^ value
  genXor top generator 0 chk

/-- `bech32_polymod(values)` -/
def polymod (values : List Nat) : Nat := values.foldl polymodStep 1

/-- `bech32_hrp_expand(hrp)` -/
def hrpExpand (hrp : List Char) : List Nat :=
  hrp.map (fun x => x.toNat >>> 5) ++ [0] ++ hrp.map (fun x => x.toNat &&& 31)

/-- `bech32_verify_checksum(hrp, data)` -/
def verifyChecksum (hrp : List Char) (data : List Nat) : Bool :=
  polymod (hrpExpand hrp ++ data) == 1

/-- `bech32_create_checksum(hrp, data)` -/
def createChecksum (hrp : List Char) (data : List Nat) : List Nat :=
  let values := hrpExpand hrp ++ data
  let pm := polymod (values ++ [0, 0, 0, 0, 0, 0]) ^^^ 1
  (List.range 6).map (fun i => (pm >>> (5 * (5 - i))) &&& 31)

/-! ### bech32_encode -/

/-- `CHARSET[d]` for `d ≥ 0`: IndexError when `d ≥ len(CHARSET)` -/
def charsetAt (d : Nat) : Res Char :=
  match charset[d]? with
  | some c => .ok c
  | none => .error indexError

/-- `bech32_encode(hrp, data)` -/
def bech32Encode (hrp : List Char) (data : List Nat) : Res (List Char) := do
  let combined := data ++ createChecksum hrp data
  let cs ← combined.mapM charsetAt
  pure (hrp ++ ['1'] ++ cs)

/-! ### bech32_decode -/

/-- `str.lower()` / `str.upper()`.
    Which code points can matter: `bech32_decode` evaluates `any(ord(x) < 33 or ord(x) > 126 for x in bech)`
    on the ORIGINAL string first and `or` short-circuits, so `.lower()` / `.upper()` are never applied to a
    string containing a code point outside 33..126 — in particular never to U+212A KELVIN
    (`.lower() == 'k'`, its own upper case), U+017F LONG S (`.upper() == 'S'`), U+0130 (`.lower()` is two
    code points), U+0131, ß, the ligatures, fullwidth forms or anything else ≥ 128.  On 33..126 Python's
    Unicode case mapping is the ASCII one.  Hence `Char.toLower` / `Char.toUpper` (ASCII letters only, identity
    elsewhere) mirror the code exactly as far as the code applies them, and no table of special code points
    is needed.  The harness feeds all of the above at every position (`special-*` tags) to check that the
    implementation does refuse them before any case mapping.  `decode`'s `hrp` argument is compared as given
    (no case mapping); `encode`'s only goes through `ord`. -/
def lower (s : List Char) : List Char := s.map Char.toLower
def upper (s : List Char) : List Char := s.map Char.toUpper

/-- `s.rfind(c)` for a one-character needle: `none` stands for Python's `-1` -/
def rfind (s : List Char) (c : Char) : Option Nat :=
  go s 0 none
where
  go : List Char → Nat → Option Nat → Option Nat
    | [], _, last => last
    | x :: xs, i, last => go xs (i + 1) (if x = c then some i else last)

/-- `CHARSET.find(x)` for a one-character `x`, `none` standing for `-1` (i.e. `not (x in CHARSET)`) -/
def charsetFind (x : Char) : Option Nat :=
  let i := charset.idxOf x
  if i < charset.length then some i else none

/-- `bech32_decode(bech)`; `none` is `(None, None)`.
    The test `all(x in CHARSET for x in bech[pos+1:])` followed by `[CHARSET.find(x) …]` is the single
    `mapM charsetFind` (which is `none` exactly when some character is not in CHARSET). -/
def bech32Decode (bech : List Char) : Option (List Char × List Nat) :=
  if bech.any (fun x => x.toNat < 33 || x.toNat > 126) || (lower bech != bech && upper bech != bech) then
    none
  else
    let bech := lower bech
    match rfind bech '1' with
    | none => none                                            -- pos = -1 < 1
    | some pos =>
      if pos < 1 || pos + 7 > bech.length || bech.length > 90 then none
      else
        match (bech.drop (pos + 1)).mapM charsetFind with
        | none => none
        | some data =>
          let hrp := bech.take pos
          if !verifyChecksum hrp data then none
          else some (hrp, data.take (data.length - 6))      -- data[:-6]

/-! ### convertbits -/

/-- `while bits >= tobits: bits -= tobits; ret.append((acc >> bits) & maxv)`.
    With `tobits = 0` CPython does not terminate; `convertbits` therefore carries the explicit
    precondition `0 < tobits` (both call sites use the literals 5 and 8).  Under it each iteration
    removes at least one from `bits`, so `fuel = bits` iterations suffice: `Bech32.drain_exits` proves
    that the loop is always left through its own exit test (`bits < tobits`), never by running out of fuel. -/
def drain (tobits maxv acc : Nat) : (fuel bits : Nat) → List Nat → Nat × List Nat
  | 0, bits, ret => (bits, ret)
  | fuel + 1, bits, ret =>
    if bits ≥ tobits then
      let bits := bits - tobits
      drain tobits maxv acc fuel bits (ret ++ [(acc >>> bits) &&& maxv])
    else (bits, ret)

/-- the `for value in data:` loop and the epilogue of `convertbits` -/
def convertLoop (frombits tobits : Nat) (pad : Bool) (maxv maxAcc : Nat) :
    List Nat → (acc bits : Nat) → (ret : List Nat) → Option (List Nat)
  | [], acc, bits, ret =>
    if pad then
      if bits != 0 then some (ret ++ [(acc <<< (tobits - bits)) &&& maxv]) else some ret
    else if bits ≥ frombits || ((acc <<< (tobits - bits)) &&& maxv) != 0 then none
    else some ret
  | value :: rest, acc, bits, ret =>
    if value >>> frombits != 0 then none                       -- `value < 0` cannot hold for a Nat
    else
      let acc := ((acc <<< frombits) ||| value) &&& maxAcc
      let bits := bits + frombits
      let (bits, ret) := drain tobits maxv acc bits bits ret
      convertLoop frombits tobits pad maxv maxAcc rest acc bits ret

/-- `convertbits(data, frombits, tobits, pad)`; precondition `0 < tobits` (see `drain`) -/
def convertbits (data : List Nat) (frombits tobits : Nat) (pad : Bool := true)
    (_htb : 0 < tobits := by decide) : Option (List Nat) :=
  let maxv := (1 <<< tobits) - 1
  let maxAcc := (1 <<< (frombits + tobits - 1)) - 1
  convertLoop frombits tobits pad maxv maxAcc data 0 0 []

/-! ### decode / encode (segwit addresses) -/

/-- `decode(hrp, addr)`; `.ok none` is `(None, None)` -/
def decodeR (hrp addr : List Char) : Res (Option (Nat × List Nat)) :=
  match bech32Decode addr with
  | none => .ok none                                          -- hrpgot = None ≠ hrp
  | some (hrpgot, data) =>
    if hrpgot != hrp then .ok none
    else
      match convertbits (data.drop 1) 5 8 false with           -- data[1:]
      | none => .ok none
      | some decoded =>
        if decoded.length < 2 || decoded.length > 40 then .ok none
        else
          match data with                                        -- data[0]
          | [] => .error indexError
          | d0 :: _ =>
            if d0 > 16 then .ok none
            else if d0 == 0 && decoded.length != 20 && decoded.length != 32 then .ok none
            else .ok (some (d0, decoded))

/-- `encode(hrp, witver, witprog)` for `witprog : bytes`; `.ok none` is `None` -/
def encodeR (hrp : List Char) (witver : Nat) (witprog : Bytes) : Res (Option (List Char)) :=
  match convertbits (witprog.map UInt8.toNat) 8 5 with
  | none => .error (.py "TypeError")                          -- [witver] + None
  | some conv =>
    match bech32Encode hrp (witver :: conv) with
    | .error e => .error e
    | .ok ret =>
      match decodeR hrp ret with
      | .error e => .error e
      | .ok none => .ok none
      | .ok (some _) => .ok (some ret)

/-- `decode` with the (dead, see `Props/C11.decodeR_ok`) exception branch read as rejection -/
def decode (hrp addr : List Char) : Option (Nat × List Nat) :=
  match decodeR hrp addr with
  | .ok r => r
  | .error _ => none

/-- `encode` restricted to its exception-free domain (`witver < 32`, see `Props/C11.encodeR_ok`) -/
def encode (hrp : List Char) (witver : Nat) (witprog : Bytes) : Option (List Char) :=
  match encodeR hrp witver witprog with
  | .ok r => r
  | .error _ => none

/-! ### bitcoin/bech32.py — CBech32Data under the selected chain's HRP -/

/-- `bytes.__new__(cls, witprog)` for a list of ints: ValueError for an element ≥ 256 -/
def bytesOfInts (l : List Nat) : Res Bytes :=
  if l.all (· < 256) then .ok (l.map UInt8.ofNat) else .error .valueerr

/-- `CBech32Data.from_bytes(witver, witprog)`: the object is the pair (witver, bytes) -/
def fromBytes (witver : Nat) (witprog : List Nat) : Res (Nat × Bytes) :=
  if !(witver ≤ 16) then .error .valueerr                    -- `0 <= witver` holds for a Nat
  else
    match bytesOfInts witprog with                            -- bytes.__new__(cls, witprog)
    | .error e => .error e
    | .ok b => .ok (witver, b)

/-- `CBech32Data.__new__(cls, s)` with `bitcoin.params.BECH32_HRP = hrp` -/
def cbech32New (hrp s : List Char) : Res (Nat × Bytes) :=
  match decodeR hrp s with
  | .error e => .error e
  | .ok none => .error .bech32err
  | .ok (some (witver, data)) => fromBytes witver data

/-- `str(obj)` for `obj = CBech32Data.from_bytes(witver, witprog)` under `BECH32_HRP = hrp`:
    `__str__` returns `encode(...)`; a `None` there makes `str()` raise TypeError -/
def cbech32Str (hrp : List Char) (witver : Nat) (witprog : Bytes) : Res (List Char) :=
  match encodeR hrp witver witprog with
  | .error e => .error e
  | .ok none => .error (.py "TypeError")
  | .ok (some s) => .ok s

/-! ### `String` wrappers -/

def decodeStr (hrp addr : String) : Option (Nat × Bytes) :=
  (decode hrp.toList addr.toList).map (fun (v, p) => (v, p.map UInt8.ofNat))

def encodeStr (hrp : String) (witver : Nat) (witprog : Bytes) : Option String :=
  (encode hrp.toList witver witprog).map String.ofList

def cbech32NewStr (hrp s : String) : Res (Nat × Bytes) := cbech32New hrp.toList s.toList

def cbech32StrStr (hrp : String) (witver : Nat) (witprog : Bytes) : Res String :=
  (cbech32Str hrp.toList witver witprog).map String.ofList

end BtcVerif.Model.Bech32
