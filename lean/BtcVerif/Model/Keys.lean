/-
  C13 / C14 — mirror of the glue python-bitcoinlib itself computes around OpenSSL:

    bitcoin/core/script.py   IsLowDERSignature, CompareBigEndian
    bitcoin/core/key.py      CECKey.sign (low-S normalisation), signature_to_low_s, sign_compact
                             (DER → 32-byte r‖s, recid search), recover, CPubKey.recover_compact
    bitcoin/signature.py     DERSignature.stream_deserialize
    bitcoin/wallet.py        CBitcoinSecret.from_secret_bytes / __init__, CKey
    bitcoin/signmessage.py   BitcoinMessage, SignMessage, VerifyMessage

  OpenSSL's part (EC_POINT_mul, ECDSA_sign/verify, d2i/i2d_ECDSA_SIG, o2i/i2o_ECPublicKey, BN_*) is
  represented by the reference curve `Crypto.Secp256k1` under the contract written next to each use;
  the contract is what the correspondence runs check against the real library.  Mathlib-free.
-/
import BtcVerif.Basic.Outcome
import BtcVerif.Crypto.Sha256
import BtcVerif.Crypto.Ripemd160
import BtcVerif.Crypto.Secp256k1
import BtcVerif.Model.Wire
import BtcVerif.Model.Base58
import BtcVerif.Spec.Keys

namespace BtcVerif.Model.Keys
open BtcVerif BtcVerif.Crypto

/-! ### `CompareBigEndian` / `IsLowDERSignature` (bitcoin/core/script.py) -/

/-- the final loop of `CompareBigEndian`: both lists have the same length here -/
def cmpEqLen : Bytes → Bytes → Int
  | a :: as, b :: bs =>
      let diff : Int := (a.toNat : Int) - (b.toNat : Int)
      if diff ≠ 0 then diff else cmpEqLen as bs
  | _, _ => 0

/-- `CompareBigEndian(c1, c2)`: pop leading elements of the longer list (a non-zero one decides),
    then compare element-wise; the result is the first non-zero difference -/
def compareBigEndian (c1 c2 : Bytes) : Int :=
  if h1 : c1.length > c2.length then
    match c1, h1 with
    | b :: rest, _ => if b.toNat > 0 then 1 else compareBigEndian rest c2
  else if h2 : c2.length > c1.length then
    match c2, h2 with
    | b :: rest, _ => if b.toNat > 0 then -1 else compareBigEndian c1 rest
  else cmpEqLen c1 c2
termination_by c1.length + c2.length

/-- the literal `max_mod_half_order` of `IsLowDERSignature` -/
def maxModHalfOrder : Bytes := [
  0x7f,0xff,0xff,0xff,0xff,0xff,0xff,0xff,
  0xff,0xff,0xff,0xff,0xff,0xff,0xff,0xff,
  0x5d,0x57,0x6e,0x73,0x57,0xa4,0x50,0x1d,
  0xdf,0xe9,0x2f,0x46,0x68,0x1b,0x20,0xa0]

/-- `IsLowDERSignature(sig)`.  `sig[3]` and `sig[5 + length_r]` raise IndexError when out of range;
    `struct.unpack(str(length_s) + 'B', sig[6+length_r : 6+length_r+length_s])` raises struct.error
    when the slice is shorter than `length_s`. -/
def isLowDERSignature (sig : Bytes) : Res Bool :=
  match sig[3]? with
  | none => .error indexError
  | some lengthR =>
    match sig[5 + lengthR.toNat]? with
    | none => .error indexError
    | some lengthS =>
      let sVal := (sig.drop (6 + lengthR.toNat)).take lengthS.toNat
      if sVal.length ≠ lengthS.toNat then .error structError
      else .ok (decide (compareBigEndian sVal [0] > 0) &&
                decide (compareBigEndian sVal maxModHalfOrder ≤ 0))

/-! ### `CECKey.signature_to_low_s`, `CECKey.sign` (bitcoin/core/key.py) -/

/-- The OpenSSL calls `signature_to_low_s` makes, as parameters:
    `d2i` = `d2i_ECDSA_SIG` (`none`: nothing was parsed, the struct keeps its NULL fields),
    `i2d` = `i2d_ECDSA_SIG`, `order` = `EC_GROUP_get_order` of the key's group. -/
structure SigCodec where
  d2i : Bytes → Option (Nat × Nat)
  i2d : Nat → Nat → Bytes
  order : Nat

/-- Contract under which the library is used: strict DER in both directions, the order of secp256k1.
    The correspondence runs check the library against this instance. -/
def SigCodec.reference : SigCodec :=
  { d2i := Secp256k1.derDecodeStrict, i2d := Secp256k1.derEncode, order := Secp256k1.n }

/-- `signature_to_low_s(sig)`, step by step:
      d2i_ECDSA_SIG(&der_sig, &sig, len)            -- on failure der_sig.s stays NULL and the next
                                                     -- BN_cmp dereferences it: modelled as `py:SIGSEGV`
      EC_GROUP_get_order(group, order); BN_rshift1(halforder, order)
      if BN_cmp(der_sig.s, halforder) > 0: BN_sub(der_sig.s, order, der_sig.s)
                                                     -- for s > order the difference is NEGATIVE: i2d then
                                                     -- answers -1 and `create_string_buffer(-1)` raises
                                                     -- ValueError (observed; off the `sign` domain)
      derlen = i2d_ECDSA_SIG(der_sig, 0);  if derlen == 0: return None
      return the `derlen` bytes written by i2d_ECDSA_SIG -/
def signatureToLowSWith (C : SigCodec) (sig : Bytes) : Res (Option Bytes) :=
  match C.d2i sig with
  | none => .error (.py "SIGSEGV")
  | some (r, s) =>
    let halforder := C.order >>> 1
    if s > halforder ∧ s > C.order then .error .valueerr else
    let s := if s > halforder then C.order - s else s
    let der := C.i2d r s
    if der.length = 0 then .ok none else .ok (some der)

def signatureToLowS (sig : Bytes) : Res (Option Bytes) := signatureToLowSWith SigCodec.reference sig

/-- what `CECKey.sign(hash)` does with the output `raw` of `ECDSA_sign`:
    `ValueError` unless the hash has 32 bytes; `raw` if `IsLowDERSignature(raw)`, else
    `signature_to_low_s(raw)` -/
def signFinish (hash : Bytes) (raw : Bytes) : Res (Option Bytes) :=
  if hash.length ≠ 32 then .error .valueerr
  else do
    let low ← isLowDERSignature raw
    if low then pure (some raw) else signatureToLowS raw

/-! ### `DERSignature.stream_deserialize` (bitcoin/signature.py) and the padding of `sign_compact` -/

/-- `DERSignature.deserialize(sig)`: `(r, s)` content octets.  Trailing bytes inside the sequence are
    ignored by the code; bytes after the sequence raise DeserializationExtraDataError (`extra`). -/
def derSigDeserialize (sig : Bytes) : Res (Bytes × Bytes) := do
  let (t0, r0) ← Wire.serRead 1 sig
  if t0 ≠ [0x30] then throw assertionError
  let (rs, after) ← Wire.deBytes r0
  let (t1, r1) ← Wire.serRead 1 rs
  if t1 ≠ [0x02] then throw assertionError
  let (r, r2) ← Wire.deBytes r1
  let (t2, r3) ← Wire.serRead 1 r2
  if t2 ≠ [0x02] then throw assertionError
  let (s, _) ← Wire.deBytes r3
  if after.length ≠ 0 then throw (.py "DeserializationExtraDataError")
  pure (r, s)

/-- `assert len(v) <= 32 or v[0:-32] == b'\x00'` then `((b'\x00' * 32) + v)[-32:]` -/
def pad32 (v : Bytes) : Res Bytes :=
  if v.length ≤ 32 ∨ v.take (v.length - 32) = [0] then
    .ok ((List.replicate 32 (0 : UInt8) ++ v).drop v.length)
  else .error assertionError

/-! ### `CECKey.recover` (bitcoin/core/key.py) — python glue over BN_* / EC_POINT_* -/

/-- Return value of `CECKey.recover(sigR, sigS, msg, msglen, recid, check)` for 32-byte `sigR`,
    `sigS` and a `msg` of any length (a message longer than the group degree is shifted right by
    `8 - (256 & 7) = 8` bits, as coded): `1` and the recovered point, or the failure code (`0`, `-1`).
    Contract for OpenSSL: `BN_*` are integer operations, `BN_mod_inverse` fails exactly when the
    argument has no inverse mod n (here: `r ≡ 0`), `EC_POINT_set_compressed_coordinates_GFp` is
    `liftX`, `EC_POINT_mul(group, Q, a, R, b)` is `a·G + b·R`. -/
def recover (sigR sigS msg : Bytes) (recid : Nat) (check : Bool) : Int × Option Secp256k1.Point :=
  let i := recid / 2
  let r := beNat sigR
  let s := beNat sigS
  let order := Secp256k1.n
  let x := order * i + r
  if x ≥ Secp256k1.p then (0, none) else
  match Secp256k1.liftX x (recid % 2 == 1) with
  | none => (0, none)
  | some R =>
    if check && Secp256k1.mul order R != .inf then (0, none) else
    let e := beNat msg
    let e := if 8 * msg.length > 256 then e >>> 8 else e    -- BN_rshift(e, e, 8 - (n & 7)), n = degree = 256
    let e := (order - e % order) % order                -- BN_mod_sub(e, 0, e, order)
    if r % order = 0 then (-1, none) else               -- BN_mod_inverse fails
    let rr := Secp256k1.invMod (r % order) order
    let sor := s * rr % order
    let eor := e * rr % order
    let Q := Secp256k1.mulAdd2 eor Secp256k1.G sor R
    (1, some Q)

/-- header arithmetic of `recover_compact`: `recid = (sig[0] - 27) & 3`,
    `compressed = (sig[0] - 27) & 4 != 0` (Python's `&` on a possibly negative int: floor semantics) -/
def headerDecode (h : Nat) : Nat × Bool :=
  let d : Int := (h : Int) - 27
  ((d % 4).toNat, decide ((d / 4) % 2 ≠ 0))

/-- `CPubKey.recover_compact(hash, sig)`: `ValueError` unless 65 bytes; header decoded with
    `(sig[0] - 27) & 3` and `(sig[0] - 27) & 4` (Python's `&` on a possibly negative int is the
    two's-complement one: floor semantics); `False` (here `none`) when recovery fails; otherwise the
    serialized key in the form the header asks for. -/
def recoverCompact (hash sig : Bytes) : Res (Option Bytes) :=
  if sig.length ≠ 65 then .error .valueerr else
  match sig with
  | [] => .error .valueerr
  | h :: body =>
    let (recid, compressed) := headerDecode h.toNat
    let sigR := body.take 32
    let sigS := (body.drop 32).take 32
    match recover sigR sigS hash recid false with
    | (1, some Q) => .ok (some (Secp256k1.encode Q compressed))
    | _ => .ok none

/-- `SignMessage`: `meta = 27 + i; if key.is_compressed: meta += 4` -/
def headerByte (recid : Nat) (compressed : Bool) : Nat :=
  let m := 27 + recid
  if compressed then m + 4 else m

/-- the recid search of `sign_compact`: first `i` in 0..3 whose recovered key (compressed form)
    equals the signer's compressed key; `ValueError` when none does -/
def signCompactFinish (hash : Bytes) (lowSig : Bytes) (pubCompressed : Bytes) : Res (Bytes × Nat) := do
  if hash.length ≠ 32 then throw .valueerr
  let (rv, sv) ← derSigDeserialize lowSig
  let r32 ← pad32 rv
  let s32 ← pad32 sv
  let try_ (i : Nat) : Bool :=
    match recover r32 s32 hash i true with
    | (1, some Q) => Secp256k1.encode Q true == pubCompressed
    | _ => false
  match [0, 1, 2, 3].find? try_ with
  | some i => pure (r32 ++ s32, i)
  | none => throw .valueerr

/-! ### WIF payload (bitcoin/wallet.py CBitcoinSecret, CKey) -/

/-- `CBitcoinSecret.from_secret_bytes(secret, compressed)`: payload handed to `from_bytes` under
    `BASE58_PREFIXES['SECRET_KEY']` -/
def wifPayload (secret : Bytes) (compressed : Bool) : Bytes :=
  secret ++ (if compressed then [1] else [])

/-- `CBitcoinSecret.__init__` on decoded `(nVersion, payload)` under the selected chain:
    `CBitcoinSecretError` (a Base58Error) when the version differs; `ValueError` from
    `set_secretbytes` when `payload[0:32]` is not 32 bytes; otherwise the secret and the flag
    `len(self) > 32 and self[32] == 1` -/
def wifParse (chainSecretVersion : Nat) (nVersion : Nat) (payload : Bytes) : Res (Bytes × Bool) :=
  if nVersion ≠ chainSecretVersion then .error .b58err
  else
    let secret := payload.take 32
    if secret.length ≠ 32 then .error .valueerr
    else .ok (secret, decide (payload.length > 32) && payload[32]? == some 1)

/-- `CKey.__init__`: `pub = CPubKey(get_pubkey())` after `set_secretbytes`, `set_compressed`.
    Contract for OpenSSL: `EC_POINT_mul(group, pub, priv, NULL, NULL)` is `priv·G` and
    `i2o_ECPublicKey` is the SEC1 encoding in the selected form. -/
def pubOfSecret (secret : Bytes) (compressed : Bool) : Bytes :=
  Secp256k1.pubkeyOf (beNat secret) compressed

/-- `CPubKey(buf).is_fullyvalid`: `o2i_ECPublicKey` succeeded.  OpenSSL parses every SEC 1 encoding
    of a curve point — and also the one-byte encoding `00` of the point at infinity, which SEC 1 /
    Bitcoin Core do not regard as a public key (observation O15). -/
def isFullyValid (buf : Bytes) : Bool := buf == [0] || (Secp256k1.decode buf).isSome

/-- `CPubKey.is_compressed` / `CKey.is_compressed`: `len(self) == 33` -/
def isCompressed (pub : Bytes) : Bool := pub.length == 33

/-! ### signed messages (bitcoin/signmessage.py) -/

/-- `BitcoinMessage.serialize()`: `BytesSerializer` of magic then of message -/
def msgSerialize (magic msg : Bytes) : Res Bytes := do
  let a ← Wire.serBytes magic
  let b ← Wire.serBytes msg
  pure (a ++ b)

/-- `BitcoinMessage.GetHash()` -/
def msgDigest (magic msg : Bytes) : Res Bytes := do
  let s ← msgSerialize magic msg
  pure (hash256 s)

/-- `BitcoinMessage(message)`: text → UTF-8 bytes, default magic -/
def msgDigestText (text : String) : Res Bytes :=
  msgDigest "Bitcoin Signed Message:\n".toUTF8.toList text.toUTF8.toList

/-- payload of `P2PKHBitcoinAddress.from_pubkey(pubkey)`: Hash160 of the serialized key -/
def p2pkhPayload (pubkey : Bytes) : Bytes := hash160 pubkey

/-- `str(P2PKHBitcoinAddress.from_pubkey(pubkey))` under the selected chain: Base58Check text of the
    chain's PUBKEY_ADDR version byte and Hash160 of the serialized key -/
def p2pkhText (chainPubkeyVersion : Nat) (pubkey : Bytes) : List Char :=
  Model.Base58.str hash256 ⟨UInt8.ofNat chainPubkeyVersion, p2pkhPayload pubkey⟩

/-- `VerifyMessage(address, message, sig)` after base64-decoding; `addrText` is `str(address)` of
    whatever object was passed (a P2PKH, P2SH or segwit address, or any other): the answer is the
    comparison of two texts.  `recover_compact` returning `False` makes `from_pubkey` raise
    TypeError; a recovered key that is not fully valid raises CBitcoinAddressError — "fully valid" in
    OpenSSL's sense, which includes the infinity key `00` (O15). -/
def verifyMessage (chainPubkeyVersion : Nat) (addrText : List Char) (magic msg sig : Bytes) : Res Bool := do
  let h ← msgDigest magic msg
  match ← recoverCompact h sig with
  | none => throw (.py "TypeError")
  | some pk =>
      if isFullyValid pk then pure (decide (p2pkhText chainPubkeyVersion pk = addrText))
      else throw .addrerr

end BtcVerif.Model.Keys
