/-
  C06 / C07 — the CONCRETE environment of the interpreter model: what `_CheckSig` and the hash
  opcodes compute in the library, assembled from the executable primitives.

  * hashes: `Crypto.sha1`, `Crypto.ripemd160`, `Crypto.sha256` (HASH160 / HASH256 are their
    compositions, as in `bitcoin.core.serialize.Hash160 / Hash`);
  * `sigCheck body pubkey scriptCode hashType`: `Model.Sighash.rawSignatureHash` (the model of
    script.py `RawSignatureHash`, C03) of `(scriptCode, txTo, inIdx, hashType)`, then
    `CECKey.set_pubkey` + `CECKey.verify` on the property's signature domain: SEC1 point decoding,
    strict DER decoding, ECDSA verification over secp256k1 (`Crypto.Secp256k1`).

  `_CheckSig` ignores the error indication of `RawSignatureHash` (the HASH_ONE cases) and uses the
  returned digest.  The Python exceptions `RawSignatureHash` can raise are explicit in
  `Model.ScriptEval.checkSig` (malformed subscript, negative `inIdx`) or excluded by the
  transaction being in wire range (`fromTx`, `struct.pack`): on those inputs this function answers
  `false`, a branch the theorems of Props/C06Concrete.lean never reach.
  The driver (Driver/C06.lean) evaluates exactly this term.  Mathlib-free.
-/
import BtcVerif.Model.ScriptEval
import BtcVerif.Model.Sighash
import BtcVerif.Crypto.Sha256
import BtcVerif.Crypto.Sha1
import BtcVerif.Crypto.Ripemd160
import BtcVerif.Crypto.Secp256k1
import BtcVerif.Crypto.Der

namespace BtcVerif.Model.ScriptEval.Real
open BtcVerif BtcVerif.Spec.Script

/-- `key.set_pubkey(pubkey); key.verify(digest, body)` for `body` empty / strictly DER and `pubkey`
    SEC1 or plainly malformed -/
def ecdsaCheck (body pubkey digest : Bytes) : Bool :=
  match Crypto.Secp256k1.decode pubkey, Crypto.Secp256k1.derDecodeStrict body with
  | some P, some (r, s) => Crypto.Secp256k1.verify P (Crypto.Secp256k1.digestNat digest) r s
  | _, _ => false

def realHashes : Hashes :=
  { sha1 := Crypto.sha1, ripemd160 := Crypto.ripemd160, sha256 := Crypto.sha256 }

/-- the part of `_CheckSig` after the hash-type byte has been split off -/
def realSigCheck (tx : Tx) (inIdx : Nat) : SigCheck := fun body pubkey scriptCode hashType =>
  match Model.Sighash.rawSignatureHash scriptCode tx inIdx (hashType : Int) with
  | .ok (digest, _) => ecdsaCheck body pubkey digest
  | .error _ => false

def realEnv (tx : Tx) (inIdx : Nat) : Env :=
  { hashes := realHashes, sigCheck := realSigCheck tx inIdx }

/-- the context of `EvalScript(stack, script, txTo, inIdx, flags)` -/
def realCtx (tx : Tx) (inIdx : Int) : Ctx :=
  { env := realEnv tx inIdx.toNat, inIdx := inIdx, nVin := tx.vin.length, nVout := tx.vout.length }

end BtcVerif.Model.ScriptEval.Real
