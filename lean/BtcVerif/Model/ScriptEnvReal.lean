/-
  C06 / C07 — the CONCRETE environment of the interpreter model: what `_CheckSig` and the hash
  opcodes compute in the library, assembled from the executable primitives.

  * hashes: `Crypto.sha1`, `Crypto.ripemd160`, `Crypto.sha256` (HASH160 / HASH256 are their
    compositions, as in `bitcoin.core.serialize.Hash160 / Hash`);
  * `sigCheck body pubkey scriptCode hashType`: `Model.Sighash.rawSignatureHash` (the model of
    script.py `RawSignatureHash`, C03) of `(scriptCode, txTo, inIdx, hashType)`, then
    `CECKey.set_pubkey` + `CECKey.verify` on the property's signature domain: SEC1 point decoding,
    strict DER decoding, ECDSA verification over secp256k1 (`Crypto.Secp256k1`).

  `_CheckSig` ignores the error indication of `RawSignatureHash` (the HASH_ONE cases) and uses the
  returned digest.  Every Python exception `RawSignatureHash` can raise is an outcome of
  `Ctx.sigHash` and propagates through `Model.ScriptEval.checkSig`: CScriptInvalidError (malformed
  script code), IndexError (negative `inIdx` below −|vin| or, under SIGHASH_SINGLE, below −|vout|:
  known finding D7), ValueError / struct.error (transaction outside wire range).  For
  −|vin| ≤ inIdx < 0 Python raises nothing and hashes for the input counted from the end, with every
  sequence number zeroed under NONE / SINGLE: `rawSignatureHashNeg`.
  The driver (Driver/C06.lean) evaluates exactly this term.  Mathlib-free.
-/
import BtcVerif.Model.ScriptEval
import BtcVerif.Model.Sighash
import BtcVerif.Crypto.Sha256
import BtcVerif.Crypto.Sha1
import BtcVerif.Crypto.Ripemd160
import BtcVerif.Crypto.Secp256k1
import BtcVerif.Crypto.Der

namespace BtcVerif.Model.ScriptEval.Real
open BtcVerif BtcVerif.Spec.Script

/-- `key.set_pubkey(pubkey); key.verify(digest, body)` for `body` empty / strictly DER and `pubkey`
    SEC1 or plainly malformed -/
def ecdsaCheck (body pubkey digest : Bytes) : Bool :=
  match Crypto.Secp256k1.decode pubkey, Crypto.Secp256k1.derDecodeStrict body with
  | some P, some (r, s) => Crypto.Secp256k1.verify P (Crypto.Secp256k1.digestNat digest) r s
  | _, _ => false

def realHashes : Hashes :=
  { sha1 := Crypto.sha1, ripemd160 := Crypto.ripemd160, sha256 := Crypto.sha256 }

/-- `RawSignatureHash(script, txTo, inIdx, hashtype)` for a NEGATIVE `inIdx`, statement by statement.
    `inIdx >= len(txTo.vin)` is false; `txtmp.vin[inIdx]` counts from the end (IndexError below
    −|vin|: known finding D7); `i != inIdx` holds for every `i`, so NONE / SINGLE zero EVERY
    sequence number; under SINGLE `outIdx = inIdx` is negative too: `txtmp.vout[outIdx]` counts from
    the end (IndexError below −|vout|) and `range(outIdx)` is empty, so that output is the only one. -/
def rawSignatureHashNeg (script : Bytes) (txTo : Tx) (inIdx : Int) (hashtype : Int) : Res (Bytes × Bool) := do
  let txtmp ← Model.Sighash.fromTx txTo
  let vin0 := txtmp.vin.map (fun i => { i with scriptSig := [] })
  let sc ← Model.Sighash.findAndDelete script [0xab]
  if (vin0.length : Int) < -inIdx then .error indexError else
  let k := ((vin0.length : Int) + inIdx).toNat
  let signed ← Model.Sighash.pyGetNat vin0 k
  let vin1 := vin0.set k { signed with scriptSig := sc }
  let zeroAll := vin1.map (fun i => { i with nSequence := 0 })
  let pr : List TxIn × List TxOut ←
    if hashtype % 32 = 2 then .ok (zeroAll, [])
    else if hashtype % 32 = 3 then
      (if (txtmp.vout.length : Int) < -inIdx then .error indexError
       else do
        let tmp ← Model.Sighash.pyGetNat txtmp.vout ((txtmp.vout.length : Int) + inIdx).toNat
        .ok (zeroAll, [tmp]))
    else .ok (vin1, txtmp.vout)
  let vin3 ← if (hashtype / 128) % 2 ≠ 0 then (do let tmp ← Model.Sighash.pyGetNat pr.1 k; pure [tmp]) else pure pr.1
  let s ← Model.Wire.serTx { txtmp with vin := vin3, vout := pr.2, wit := [] }
  let h ← Model.Wire.packI 4 hashtype
  pure (Crypto.hash256 (s ++ h), false)

/-- `RawSignatureHash` for any Python int index: C03's model for `inIdx ≥ 0`, the wrap-around
    transcription above otherwise -/
def rawSignatureHashInt (script : Bytes) (txTo : Tx) (inIdx : Int) (hashtype : Int) : Res (Bytes × Bool) :=
  if 0 ≤ inIdx then Model.Sighash.rawSignatureHash script txTo inIdx.toNat hashtype
  else rawSignatureHashNeg script txTo inIdx hashtype

/-- the context of `EvalScript(stack, script, txTo, inIdx, flags)` / `VerifyScript(…, txTo, inIdx, flags)`:
    `_CheckSig` uses the digest and ignores the error indication -/
def realCtx (tx : Tx) (inIdx : Int) : Ctx :=
  { hashes := realHashes
    sigHash := fun script ht => (rawSignatureHashInt script tx inIdx (ht : Int)).map (·.1)
    sigVerify := ecdsaCheck }

/-- the reference's environment for the same transaction and input -/
def realEnv (tx : Tx) (inIdx : Int) : Env := (realCtx tx inIdx).env

end BtcVerif.Model.ScriptEval.Real
