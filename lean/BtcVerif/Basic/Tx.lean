/-
  Value-level data types of transactions, headers and blocks (field values only; Python object
  identity and caching are C09's heap model).  Mathlib-free.
-/
import BtcVerif.Basic.Bytes

namespace BtcVerif

structure OutPoint where
  hash : Bytes
  n : Nat
deriving DecidableEq, Repr

structure TxIn where
  prevout : OutPoint
  scriptSig : Bytes
  nSequence : Nat
deriving DecidableEq, Repr

structure TxOut where
  nValue : Int
  scriptPubKey : Bytes
deriving DecidableEq, Repr

/-- one input's witness stack (`CTxInWitness.scriptWitness.stack`) -/
abbrev WitStack := List Bytes

/-- `wit` = `CTxWitness.vtxinwit` as a list of stacks: `[]` is the witness object with no entries -/
structure Tx where
  nVersion : Int
  vin : List TxIn
  vout : List TxOut
  wit : List WitStack
  nLockTime : Nat
deriving DecidableEq, Repr

structure Header where
  nVersion : Int
  hashPrevBlock : Bytes
  hashMerkleRoot : Bytes
  nTime : Nat
  nBits : Nat
  nNonce : Nat
deriving DecidableEq, Repr

structure Block where
  hdr : Header
  vtx : List Tx
deriving DecidableEq, Repr

/-- MODEL side — mirror of `CTxWitness.is_null`:
    `for n in range(len(self.vtxinwit)): if not self.vtxinwit[n].is_null(): return False` / `return True`
    with `CTxInWitness.is_null = CScriptWitness.is_null = (len(self.stack) == 0)`.
    This is what `Model.Wire.serTx` branches on. -/
def witIsNull (w : List WitStack) : Bool := w.all (·.isEmpty)

/-- SPEC side — BIP144's condition for the extended form, stated independently of the loop above:
    "some witness stack is non-empty".  This is what `Spec.Wire.txBytes` branches on; that the
    model's test agrees with it is the theorem `Tx.hasWitness_eq_not_witIsNull` (not a definition). -/
def Tx.hasWitness (t : Tx) : Bool := t.wit.any (fun s => decide (s ≠ []))

theorem Tx.hasWitness_iff (t : Tx) : t.hasWitness = true ↔ ∃ s ∈ t.wit, s ≠ [] := by
  simp [Tx.hasWitness]

/-- the Python `is_null` loop decides exactly the negation of the wire format's condition -/
theorem Tx.hasWitness_eq_not_witIsNull (t : Tx) : t.hasWitness = !witIsNull t.wit := by
  unfold Tx.hasWitness witIsNull
  induction t.wit with
  | nil => rfl
  | cons s w ih =>
    cases s with
    | nil => simpa using ih
    | cons b bs => simp

/-- the witness-stripped transaction `CTransaction(vin, vout, nLockTime, nVersion)` -/
def Tx.strip (t : Tx) : Tx := { t with wit := [] }

def OutPoint.isNull (o : OutPoint) : Bool := o.hash == List.replicate 32 0 && o.n == 0xffffffff

def Tx.isCoinbase (t : Tx) : Bool :=
  match t.vin with
  | [i] => i.prevout.isNull
  | _ => false

end BtcVerif
