/-
  Value-level data types of transactions, headers and blocks (field values only; Python object
  identity and caching are C09's heap model).  Mathlib-free.
-/
import BtcVerif.Basic.Bytes

namespace BtcVerif

structure OutPoint where
  hash : Bytes
  n : Nat
deriving DecidableEq, Repr

structure TxIn where
  prevout : OutPoint
  scriptSig : Bytes
  nSequence : Nat
deriving DecidableEq, Repr

structure TxOut where
  nValue : Int
  scriptPubKey : Bytes
deriving DecidableEq, Repr

/-- one input's witness stack (`CTxInWitness.scriptWitness.stack`) -/
abbrev WitStack := List Bytes

/-- `wit` = `CTxWitness.vtxinwit` as a list of stacks: `[]` is the witness object with no entries -/
structure Tx where
  nVersion : Int
  vin : List TxIn
  vout : List TxOut
  wit : List WitStack
  nLockTime : Nat
deriving DecidableEq, Repr

structure Header where
  nVersion : Int
  hashPrevBlock : Bytes
  hashMerkleRoot : Bytes
  nTime : Nat
  nBits : Nat
  nNonce : Nat
deriving DecidableEq, Repr

structure Block where
  hdr : Header
  vtx : List Tx
deriving DecidableEq, Repr

/-- `CTxWitness.is_null`: every stack empty (vacuously true for no entries) -/
def witIsNull (w : List WitStack) : Bool := w.all (·.isEmpty)

def Tx.hasWitness (t : Tx) : Bool := !witIsNull t.wit

/-- the witness-stripped transaction `CTransaction(vin, vout, nLockTime, nVersion)` -/
def Tx.strip (t : Tx) : Tx := { t with wit := [] }

def OutPoint.isNull (o : OutPoint) : Bool := o.hash == List.replicate 32 0 && o.n == 0xffffffff

def Tx.isCoinbase (t : Tx) : Bool :=
  match t.vin with
  | [i] => i.prevout.isNull
  | _ => false

end BtcVerif
