/-
  Basic byte-string vocabulary shared by every model.
  Mathlib-free: this file is linked into the `btcmodel` executable.

  Bytes are `List UInt8`.  Integers are little-endian unless the name says `be`.
-/

namespace BtcVerif

abbrev Bytes := List UInt8

/-! ### hex -/

def hexDigit (n : Nat) : Char :=
  if n < 10 then Char.ofNat (48 + n) else Char.ofNat (87 + n)

def hexOfByte (b : UInt8) : List Char :=
  [hexDigit (b.toNat / 16), hexDigit (b.toNat % 16)]

def toHex (bs : Bytes) : String :=
  String.ofList (bs.flatMap hexOfByte)

def hexVal? (c : Char) : Option Nat :=
  if '0' ≤ c ∧ c ≤ '9' then some (c.toNat - 48)
  else if 'a' ≤ c ∧ c ≤ 'f' then some (c.toNat - 87)
  else if 'A' ≤ c ∧ c ≤ 'F' then some (c.toNat - 55)
  else none

def ofHexChars? : List Char → Option Bytes
  | [] => some []
  | [_] => none
  | a :: b :: rest => do
      let x ← hexVal? a
      let y ← hexVal? b
      let r ← ofHexChars? rest
      pure (UInt8.ofNat (16 * x + y) :: r)

def ofHex? (s : String) : Option Bytes := ofHexChars? s.toList

/-! ### little-endian naturals -/

/-- `w` little-endian bytes of `n mod 256^w`. -/
def leBytes : (w : Nat) → (n : Nat) → Bytes
  | 0, _ => []
  | w + 1, n => UInt8.ofNat (n % 256) :: leBytes w (n / 256)

/-- value of a little-endian byte string -/
def leNat : Bytes → Nat
  | [] => 0
  | b :: bs => b.toNat + 256 * leNat bs

/-- big-endian value -/
def beNat (bs : Bytes) : Nat := bs.foldl (fun acc b => acc * 256 + b.toNat) 0

/-- `w` big-endian bytes of `n mod 256^w` -/
def beBytes (w n : Nat) : Bytes := (leBytes w n).reverse

@[simp] theorem leBytes_length (w n : Nat) : (leBytes w n).length = w := by
  induction w generalizing n with
  | zero => rfl
  | succ w ih => simp [leBytes, ih]

theorem leNat_lt (bs : Bytes) : leNat bs < 256 ^ bs.length := by
  induction bs with
  | nil => simp [leNat]
  | cons b bs ih =>
    have hb : b.toNat < 256 := b.toNat_lt
    simp only [leNat, List.length_cons, Nat.pow_succ]
    omega

theorem leNat_leBytes (w n : Nat) : leNat (leBytes w n) = n % 256 ^ w := by
  induction w generalizing n with
  | zero => simp [leBytes, leNat, Nat.mod_one]
  | succ w ih =>
    simp only [leBytes, leNat, ih]
    have h : (UInt8.ofNat (n % 256)).toNat = n % 256 := by
      simp [UInt8.toNat_ofNat']
    rw [h, Nat.pow_succ, Nat.mul_comm (256 ^ w) 256, Nat.mod_mul]

theorem leBytes_leNat (bs : Bytes) : leBytes bs.length (leNat bs) = bs := by
  induction bs with
  | nil => rfl
  | cons b bs ih =>
    have hb : b.toNat < 256 := b.toNat_lt
    simp only [List.length_cons, leBytes, leNat]
    have h1 : (b.toNat + 256 * leNat bs) % 256 = b.toNat := by omega
    have h2 : (b.toNat + 256 * leNat bs) / 256 = leNat bs := by omega
    rw [h1, h2, ih]
    simp

/-- signed little-endian (two's complement) encoding on `w` bytes; the caller guards the range. -/
def leBytesInt (w : Nat) (i : Int) : Bytes :=
  leBytes w (i % (256 ^ w : Nat)).toNat

/-- two's-complement reading of `w = bs.length` little-endian bytes -/
def leInt (bs : Bytes) : Int :=
  let n := leNat bs
  if 2 * n < 256 ^ bs.length then (n : Int) else (n : Int) - (256 ^ bs.length : Nat)

/-! ### decimal helpers for the line protocol -/

def intToString (i : Int) : String := toString i

end BtcVerif
