/-
  Byte length of a natural number (shared by Model.Compact and Spec.Compact).  Mathlib-free.
-/
import BtcVerif.Basic.Bytes

namespace BtcVerif

/-- CPython's `int.bit_length()` for non-negative ints -/
def bitLength (v : Nat) : Nat := if v = 0 then 0 else Nat.log2 v + 1

/-- number of bytes of the minimal big-endian representation; Python `(v.bit_length()+7) >> 3`
    (`Proofs/Compact.lean: nbytes_eq_bitlength` proves `nbytes v = (bitLength v + 7) / 8`) -/
def nbytes (v : Nat) : Nat := if h : v = 0 then 0 else nbytes (v / 256) + 1
decreasing_by omega

end BtcVerif
