/-
  Outcome vocabulary shared by all models: the exception *families* the properties speak about,
  plus `py cls` for any non-library Python exception (IndexError, struct.error, AssertionError, …).
  Mathlib-free.
-/
import BtcVerif.Basic.Bytes

namespace BtcVerif

inductive Exc
  | trunc            -- SerializationTruncationError
  | sererr           -- other SerializationError (MAX_SIZE exceeded)
  | validation       -- ValidationError family (CheckTransactionError, EvalScriptError, …)
  | invalidscript    -- CScriptInvalidError family
  | addrerr          -- CBitcoinAddressError
  | b58err           -- InvalidBase58Error
  | b58checksum      -- Base58ChecksumError
  | bech32err        -- Bech32Error
  | rpcerr           -- JSONRPCError
  | valueerr         -- plain ValueError
  | py (cls : String) -- anything else that would escape
deriving DecidableEq, Repr

def Exc.family : Exc → String
  | .trunc => "trunc" | .sererr => "sererr" | .validation => "validation"
  | .invalidscript => "invalidscript" | .addrerr => "addrerr" | .b58err => "b58err"
  | .b58checksum => "b58checksum" | .bech32err => "bech32err" | .rpcerr => "rpcerr"
  | .valueerr => "valueerr" | .py c => "py:" ++ c

/-- an exception that belongs to the library's documented families (not a stray Python error) -/
def Exc.isLibrary : Exc → Bool
  | .py _ => false
  | _ => true

abbrev Res (α : Type) := Except Exc α

def Res.render (r : Res String) : String :=
  match r with
  | .ok s => s
  | .error e => "err:" ++ e.family

def structError : Exc := .py "error"        -- struct.error's class name is `error`
def indexError : Exc := .py "IndexError"
def assertionError : Exc := .py "AssertionError"

end BtcVerif
