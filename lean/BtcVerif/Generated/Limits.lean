-- GENERATED from the working tree by harness/tables/limits.py on every run; do not edit.
import BtcVerif.Spec.Limits

namespace BtcVerif.Generated
open BtcVerif.Spec

def limits : Limits :=
  { coin := 100000000, maxBlockSize := 1000000, maxBlockWeight := 4000000, maxBlockSigops := 20000,
    witnessCommitMagic := [106, 36, 170, 33, 169, 237], maxSize := 33554432 }

end BtcVerif.Generated
