-- GENERATED from the working tree by harness/tables/chain.py on every run; do not edit.
import BtcVerif.Spec.Chain

namespace BtcVerif.Generated
open BtcVerif.Spec

def chainTable : List ChainParams := [
  { name := "mainnet", messageStart := [249, 190, 180, 217], defaultPort := 8333, rpcPort := 8332,
    pubkeyAddr := 0, scriptAddr := 5, secretKey := 128, bech32Hrp := "bc",
    maxMoney := 2100000000000000, powLimit := 26959946667150639794667015087019630673637144422540572481103610249215,
    subsidyHalvingInterval := 210000,
    genesisHash := "6fe28c0ab6f1b372c1a6a246ae63f74f931e8365e15a089c68d6190000000000" },
  { name := "testnet", messageStart := [11, 17, 9, 7], defaultPort := 18333, rpcPort := 18332,
    pubkeyAddr := 111, scriptAddr := 196, secretKey := 239, bech32Hrp := "tb",
    maxMoney := 2100000000000000, powLimit := 26959946667150639794667015087019630673637144422540572481103610249215,
    subsidyHalvingInterval := 210000,
    genesisHash := "43497fd7f826957108f4a30fd9cec3aeba79972084e90ead01ea330900000000" },
  { name := "signet", messageStart := [10, 3, 207, 64], defaultPort := 38333, rpcPort := 38332,
    pubkeyAddr := 111, scriptAddr := 196, secretKey := 239, bech32Hrp := "tb",
    maxMoney := 2100000000000000, powLimit := 26959946667150639794667015087019630673637144422540572481103610249215,
    subsidyHalvingInterval := 210000,
    genesisHash := "f61eee3b63a380a477a063af32b2bbc97c9ff9f01f2c4225e973988108000000" },
  { name := "regtest", messageStart := [250, 191, 181, 218], defaultPort := 18444, rpcPort := 18443,
    pubkeyAddr := 111, scriptAddr := 196, secretKey := 239, bech32Hrp := "bcrt",
    maxMoney := 2100000000000000, powLimit := 57896044618658097711785492504343953926634992332820282019728792003956564819967,
    subsidyHalvingInterval := 150,
    genesisHash := "06226e46111a0b59caaf126043eb5bbf28c34f3a5e332a1fc7b2b73cf188910f" } ]

end BtcVerif.Generated
