-- GENERATED from the working tree by harness/tables/chain.py on every run; do not edit.
import BtcVerif.Spec.Chain

namespace BtcVerif.Generated
open BtcVerif.Spec

def chainTable : List ChainParams := [
  { name := "mainnet", messageStart := [249, 190, 180, 217],
    pubkeyAddr := 0, scriptAddr := 5, secretKey := 128, bech32Hrp := "bc",
    maxMoney := 2100000000000000, powLimit := 26959946667150639794667015087019630673637144422540572481103610249215 },
  { name := "testnet", messageStart := [11, 17, 9, 7],
    pubkeyAddr := 111, scriptAddr := 196, secretKey := 239, bech32Hrp := "tb",
    maxMoney := 2100000000000000, powLimit := 26959946667150639794667015087019630673637144422540572481103610249215 },
  { name := "signet", messageStart := [10, 3, 207, 64],
    pubkeyAddr := 111, scriptAddr := 196, secretKey := 239, bech32Hrp := "tb",
    maxMoney := 2100000000000000, powLimit := 23931797032512946448355080119003371062739634849393183336097152401145856 },
  { name := "regtest", messageStart := [250, 191, 181, 218],
    pubkeyAddr := 111, scriptAddr := 196, secretKey := 239, bech32Hrp := "bcrt",
    maxMoney := 2100000000000000, powLimit := 57896044618658097711785492504343953926634992332820282019728792003956564819967 } ]

end BtcVerif.Generated
