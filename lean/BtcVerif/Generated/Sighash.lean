-- GENERATED from the working tree by harness/tables/sighash.py on every run; do not edit.
-- evidence only (not part of the obligation): SIGHASH_ALL = 1, SIGVERSION_BASE = 0, SIGVERSION_WITNESS_V0 = 1
import BtcVerif.Spec.Sighash

namespace BtcVerif.Generated
open BtcVerif.Spec.Sighash

def sighashTable : SighashTable :=
  { sighashNone := 2, sighashSingle := 3, sighashAnyoneCanPay := 128, opCodeSeparator := 171,
    hashOne := [1, 0, 0, 0, 0, 0, 0, 0, 0, 0, 0, 0, 0, 0, 0, 0, 0, 0, 0, 0, 0, 0, 0, 0, 0, 0, 0, 0, 0, 0, 0, 0] }

end BtcVerif.Generated
