-- GENERATED from the working tree by harness/tables/sighash.py on every run; do not edit.
import BtcVerif.Spec.Sighash

namespace BtcVerif.Generated
open BtcVerif.Spec.Sighash

def sighashTable : SighashTable :=
  { sighashAll := 1, sighashNone := 2, sighashSingle := 3, sighashAnyoneCanPay := 128,
    sigversionBase := 0, sigversionWitnessV0 := 1, opCodeSeparator := 171,
    hashOne := [1, 0, 0, 0, 0, 0, 0, 0, 0, 0, 0, 0, 0, 0, 0, 0, 0, 0, 0, 0, 0, 0, 0, 0, 0, 0, 0, 0, 0, 0, 0, 0] }

end BtcVerif.Generated
