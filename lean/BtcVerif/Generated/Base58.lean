-- GENERATED from the working tree by harness/tables/base58.py on every run; do not edit.
namespace BtcVerif.Generated

def b58Alphabet : String := "123456789ABCDEFGHJKLMNPQRSTUVWXYZabcdefghijkmnopqrstuvwxyz"

end BtcVerif.Generated
