-- GENERATED from the working tree by harness/tables/messages.py on every run; do not edit.
import BtcVerif.Spec.Messages

namespace BtcVerif.Generated.Messages

/-- `msg_classes`: (command, class name) in order -/
def msgClasses : List (List Nat × String) := [
  ([118, 101, 114, 115, 105, 111, 110], "msg_version"),
  ([118, 101, 114, 97, 99, 107], "msg_verack"),
  ([97, 100, 100, 114], "msg_addr"),
  ([97, 108, 101, 114, 116], "msg_alert"),
  ([105, 110, 118], "msg_inv"),
  ([103, 101, 116, 100, 97, 116, 97], "msg_getdata"),
  ([110, 111, 116, 102, 111, 117, 110, 100], "msg_notfound"),
  ([103, 101, 116, 98, 108, 111, 99, 107, 115], "msg_getblocks"),
  ([103, 101, 116, 104, 101, 97, 100, 101, 114, 115], "msg_getheaders"),
  ([104, 101, 97, 100, 101, 114, 115], "msg_headers"),
  ([116, 120], "msg_tx"),
  ([98, 108, 111, 99, 107], "msg_block"),
  ([103, 101, 116, 97, 100, 100, 114], "msg_getaddr"),
  ([112, 105, 110, 103], "msg_ping"),
  ([112, 111, 110, 103], "msg_pong"),
  ([114, 101, 106, 101, 99, 116], "msg_reject"),
  ([109, 101, 109, 112, 111, 111, 108], "msg_mempool") ]

/-- `messagemap` items in insertion order -/
def messagemap : List (List Nat × String) := [
  ([118, 101, 114, 115, 105, 111, 110], "msg_version"),
  ([118, 101, 114, 97, 99, 107], "msg_verack"),
  ([97, 100, 100, 114], "msg_addr"),
  ([97, 108, 101, 114, 116], "msg_alert"),
  ([105, 110, 118], "msg_inv"),
  ([103, 101, 116, 100, 97, 116, 97], "msg_getdata"),
  ([110, 111, 116, 102, 111, 117, 110, 100], "msg_notfound"),
  ([103, 101, 116, 98, 108, 111, 99, 107, 115], "msg_getblocks"),
  ([103, 101, 116, 104, 101, 97, 100, 101, 114, 115], "msg_getheaders"),
  ([104, 101, 97, 100, 101, 114, 115], "msg_headers"),
  ([116, 120], "msg_tx"),
  ([98, 108, 111, 99, 107], "msg_block"),
  ([103, 101, 116, 97, 100, 100, 114], "msg_getaddr"),
  ([112, 105, 110, 103], "msg_ping"),
  ([112, 111, 110, 103], "msg_pong"),
  ([114, 101, 106, 101, 99, 116], "msg_reject"),
  ([109, 101, 109, 112, 111, 111, 108], "msg_mempool") ]

def protoVersion : Nat := 60002
def caddrTimeVersion : Nat := 31402
def ipv4Compat : List Nat := [0, 0, 0, 0, 0, 0, 0, 0, 0, 0, 255, 255]
def maxSize : Nat := 33554432

end BtcVerif.Generated.Messages
