-- GENERATED from the working tree by harness/tables/messages.py on every run; do not edit.
import BtcVerif.Spec.Messages

namespace BtcVerif.Generated.Messages

/-- the command strings of the message classes / `messagemap` keys of the working tree (sorted) -/
def commands : List (List Nat) := [
  [97, 100, 100, 114],
  [97, 108, 101, 114, 116],
  [98, 108, 111, 99, 107],
  [103, 101, 116, 97, 100, 100, 114],
  [103, 101, 116, 98, 108, 111, 99, 107, 115],
  [103, 101, 116, 100, 97, 116, 97],
  [103, 101, 116, 104, 101, 97, 100, 101, 114, 115],
  [104, 101, 97, 100, 101, 114, 115],
  [105, 110, 118],
  [109, 101, 109, 112, 111, 111, 108],
  [110, 111, 116, 102, 111, 117, 110, 100],
  [112, 105, 110, 103],
  [112, 111, 110, 103],
  [114, 101, 106, 101, 99, 116],
  [116, 120],
  [118, 101, 114, 97, 99, 107],
  [118, 101, 114, 115, 105, 111, 110] ]

-- evidence only (not compared):
--   bitcoin.net.PROTO_VERSION = 60002
--   bitcoin.net.CADDR_TIME_VERSION = 31402
--   bitcoin.net.IPV4_COMPAT = b'\x00\x00\x00\x00\x00\x00\x00\x00\x00\x00\xff\xff'
--   bitcoin.core.serialize.MAX_SIZE = 33554432

end BtcVerif.Generated.Messages
