-- GENERATED from the working tree by harness/tables/bloom.py on every run; do not edit.
namespace BtcVerif.Generated

def bloomConsts : List (String × Nat) :=
  [ ("MAX_BLOOM_FILTER_SIZE", 36000),
    ("MAX_HASH_FUNCS", 50),
    ("UPDATE_NONE", 0),
    ("UPDATE_ALL", 1),
    ("UPDATE_P2PUBKEY_ONLY", 2),
    ("UPDATE_MASK", 3) ]

end BtcVerif.Generated
