-- GENERATED from the working tree by harness/tables/bech32.py on every run; do not edit.
namespace BtcVerif.Generated.Bech32

/-- the character `encode` writes for each data value 0..31 (code points) -/
def charset : List Char := [Char.ofNat 113, Char.ofNat 112, Char.ofNat 122, Char.ofNat 114, Char.ofNat 121, Char.ofNat 57, Char.ofNat 120, Char.ofNat 56, Char.ofNat 103, Char.ofNat 102, Char.ofNat 50, Char.ofNat 116, Char.ofNat 118, Char.ofNat 100, Char.ofNat 119, Char.ofNat 48, Char.ofNat 115, Char.ofNat 51, Char.ofNat 106, Char.ofNat 110, Char.ofNat 53, Char.ofNat 52, Char.ofNat 107, Char.ofNat 104, Char.ofNat 99, Char.ofNat 101, Char.ofNat 54, Char.ofNat 109, Char.ofNat 117, Char.ofNat 97, Char.ofNat 55, Char.ofNat 108]

/-- the generator constants, read off the checksums `encode` appends (see harness/tables/bech32.py) -/
def generator : List Nat := [996825010, 642813549, 513874426, 1027748829, 705979059]

end BtcVerif.Generated.Bech32
