-- GENERATED from the working tree by harness/tables/wire.py on every run; do not edit.
namespace BtcVerif.Generated.Wire

def maxSize : Int := 33554432

end BtcVerif.Generated.Wire
