-- GENERATED from the working tree by harness/tables/rpc.py on every run; do not edit.
namespace BtcVerif.Generated

def rpcBaseClass : String := "JSONRPCError"

def rpcErrorClasses : List (Int × String) :=
  [ (-2, "ForbiddenBySafeModeError"),
    (-5, "InvalidAddressOrKeyError"),
    (-8, "InvalidParameterError"),
    (-25, "VerifyError"),
    (-26, "VerifyRejectedError"),
    (-27, "VerifyAlreadyInChainError"),
    (-28, "InWarmupError") ]

def rpcCoin : Nat := 100000000

end BtcVerif.Generated
