/-
  C09, extended catalogue, part 3: the plans of the model are `GoodX`; typed updates of
  reference slots and lists.
-/
import BtcVerif.Proofs.HeapX2

namespace BtcVerif.Model.Heap
open BtcVerif BtcVerif.Spec.ValueSem BtcVerif.Spec.AliasSem BtcVerif.Model.HeapX

/-! ### value plans -/

theorem mapO_const {α : Type} (f : α → Option Nat) (k : Nat) : ∀ (l : List α), (∀ x ∈ l, f x = some k) →
    mapO f l = some (l.map fun _ => k)
  | [], _ => rfl
  | x :: l, h => by simp [mapO, h x (by simp), mapO_const f k l (fun y hy => h y (by simp [hy]))]

theorem goodX_planOutPoint (h0 : Heap) (m : Bool) (o : OutPoint) : GoodX h0 (planOutPoint m o) := by
  simp [planOutPoint, GoodX, GoodXL, mapO, refKindsOK, refKindsK, Scalars.kind, Scalars.alwaysImm]

theorem goodX_planTxOut (h0 : Heap) (m : Bool) (o : TxOut) : GoodX h0 (planTxOut m o) := by
  simp [planTxOut, GoodX, GoodXL, mapO, refKindsOK, refKindsK, Scalars.kind, Scalars.alwaysImm]

theorem goodX_planTxIn (h0 : Heap) (m : Bool) (i : TxIn) : GoodX h0 (planTxIn m i) := by
  simp [planTxIn, planOutPoint, GoodX, GoodXL, mapO, refKindsOK, refKindsK, Scalars.kind, Scalars.alwaysImm,
    rootFrozenP, rootKindP]

theorem goodX_planIns (h0 : Heap) (m : Bool) (l : List TxIn) : GoodX h0 (planIns m l) := by
  simp only [planIns, GoodX]
  refine ⟨by simp [Scalars.alwaysImm], ?_, ⟨l.map (fun _ => 1), ?_, ?_⟩, ?_⟩
  · intro hm k hk
    obtain ⟨i, _, rfl⟩ := List.mem_map.mp hk
    exact hm
  · exact (mapO_const _ 1 _ (fun p hp => by obtain ⟨i, _, rfl⟩ := List.mem_map.mp hp; rfl)).trans (by simp)
  · simp [refKindsOK, refKindsK, Scalars.kind]
  · rw [goodXL_iff]
    intro p hp
    obtain ⟨i, _, rfl⟩ := List.mem_map.mp hp
    exact goodX_planTxIn h0 m i

theorem goodX_planOuts (h0 : Heap) (m : Bool) (l : List TxOut) : GoodX h0 (planOuts m l) := by
  simp only [planOuts, GoodX]
  refine ⟨by simp [Scalars.alwaysImm], ?_, ⟨l.map (fun _ => 2), ?_, ?_⟩, ?_⟩
  · intro hm k hk
    obtain ⟨i, _, rfl⟩ := List.mem_map.mp hk
    exact hm
  · exact (mapO_const _ 2 _ (fun p hp => by obtain ⟨i, _, rfl⟩ := List.mem_map.mp hp; rfl)).trans (by simp)
  · simp [refKindsOK, refKindsK, Scalars.kind]
  · rw [goodXL_iff]
    intro p hp
    obtain ⟨i, _, rfl⟩ := List.mem_map.mp hp
    exact goodX_planTxOut h0 m i

theorem goodX_inwit (h0 : Heap) (st : WitStack) : GoodX h0 (.node false (.inwit st) []) := by
  refine ⟨fun _ => rfl, fun _ k hk => by simp at hk, ⟨[], rfl, rfl⟩, trivial⟩

/-- a witness object over a tuple of `CTxInWitness` objects -/
theorem goodX_witOver (h0 : Heap) (items : List Plan)
    (hit : ∀ p ∈ items, ∃ st, p = .node false (.inwit st) []) :
    GoodX h0 (.node false .wit [.node false (.seq .stacks) items]) := by
  refine ⟨fun _ => rfl, ?_, ⟨[10], rfl, rfl⟩, ⟨fun _ => rfl, ?_, ⟨items.map (fun _ => 3), ?_, ?_⟩, ?_⟩,
    trivial⟩
  · intro _ k hk
    simp only [List.mem_singleton] at hk
    subst hk; exact rfl
  · intro _ k hk
    obtain ⟨st, rfl⟩ := hit k hk
    exact rfl
  · exact mapO_const _ 3 _ (fun p hp => by obtain ⟨st, rfl⟩ := hit p hp; rfl)
  · show refKindsK 10 _
    simp only [refKindsK]
    intro k hk
    obtain ⟨_, _, rfl⟩ := List.mem_map.mp hk
    rfl
  · rw [goodXL_iff]
    intro p hp
    obtain ⟨st, rfl⟩ := hit p hp
    exact goodX_inwit h0 st

theorem goodX_planWit (h0 : Heap) (w : List WitStack) : GoodX h0 (planWit w) :=
  goodX_witOver h0 _ (fun p hp => by obtain ⟨st, _, rfl⟩ := List.mem_map.mp hp; exact ⟨st, rfl⟩)

/-- `CTxWitness([CTxInWitness() …])`: the constructor freezes the list (`tuple(vtxinwit)`) -/
theorem goodX_defaultWit (h0 : Heap) (n : Nat) :
    GoodX h0 (.node false .wit [.node false (.seq .stacks) (List.replicate n (.node false (.inwit []) []))]) :=
  goodX_witOver h0 _ (fun p hp => ⟨[], List.eq_of_mem_replicate hp⟩)

theorem goodX_planTx {h0 : Heap} (m : Bool) (v : Tx) {wp : Plan} (hw : GoodX h0 wp) (hwf : rootFrozenP h0 wp)
    (hwk : rootKindP h0 wp = some 4) : GoodX h0 (planTx m v wp) := by
  simp only [planTx, GoodX, GoodXL, and_true]
  refine ⟨by simp [Scalars.alwaysImm], ?_, ⟨[8, 9, 4], ?_, by simp [refKindsOK, refKindsK, Scalars.kind]⟩,
    goodX_planIns h0 m v.vin, goodX_planOuts h0 m v.vout, hw⟩
  · intro hm k hk
    simp only [List.mem_cons, List.mem_nil_iff, or_false] at hk
    rcases hk with rfl | rfl | rfl
    · exact hm
    · exact hm
    · exact hwf
  · have e1 : rootKindP h0 (planIns m v.vin) = some 8 := rfl
    have e2 : rootKindP h0 (planOuts m v.vout) = some 9 := rfl
    simp only [mapO, e1, e2, hwk]

/-! ### clones -/

theorem planClone_goodX {h : Heap} (hinv : InvX h) (tm : Bool) : ∀ {f : Nat} {a : Addr} {p : Plan},
    planClone tm f h a = some p → GoodX h p ∧ rootKindP h p = kindAt h a ∧ (tm = false → rootFrozenP h p)
  | 0, _, _, hp => by simp [planClone] at hp
  | f + 1, a, p, hp => by
    simp only [planClone] at hp
    cases ho : h[a]? with
    | none => simp [ho] at hp
    | some o =>
      simp only [ho] at hp
      have hka : kindAt h a = some o.sc.kind := by simp [kindAt, ho]
      split at hp
      · rename_i hcond
        cases hp
        simp only [Bool.and_eq_true, Bool.not_eq_true', Bool.or_eq_true] at hcond
        exact ⟨(List.getElem?_eq_some_iff.mp ho).1, rfl, fun _ => ⟨o, ho, hcond.1.2⟩⟩
      · rename_i hcond
        cases hm : mapO (planClone tm f h) o.refs with
        | none => simp [hm] at hp
        | some plans =>
          simp only [hm, Option.map_some, Option.some.injEq] at hp
          subst hp
          have hkid : ∀ (c : Addr) (pl : Plan), planClone tm f h c = some pl →
              GoodX h pl ∧ rootKindP h pl = kindAt h c ∧ (tm = false → rootFrozenP h pl) :=
            fun c pl hc => planClone_goodX hinv tm hc
          obtain ⟨ks, hks, hok⟩ := hinv.typed a o ho
          refine ⟨?_, by rw [hka]; rfl, fun htm => htm⟩
          simp only [GoodX]
          refine ⟨?_, ?_, ⟨ks, ?_, hok⟩, ?_⟩
          · intro hai
            cases htm : tm with
            | false => rfl
            | true =>
              exfalso
              apply hcond
              have hnr : o.sc.rebuilt = false := by
                cases hr : o.sc.rebuilt with
                | false => rfl
                | true => rw [rebuilt_not_alwaysImm hr] at hai; cases hai
              simp [hnr, hinv.kindOK a o ho hai, hai]
          · intro htm k hk
            obtain ⟨c, _, hc⟩ := mapO_mem hm hk
            exact (hkid c k hc).2.2 htm
          · rw [← hks]
            apply mapO_congr_idx (mapO_length hm)
            intro i pl c hpl hc
            obtain ⟨c', hc', hpc⟩ := mapO_getElem' hm i pl hpl
            rw [hc] at hc'; cases hc'
            exact (hkid c pl hpc).2.1
          · rw [goodXL_iff]
            intro pl hpl
            obtain ⟨c, _, hc⟩ := mapO_mem hm hpl
            exact (hkid c pl hc).1

/-! ### typed updates -/

theorem typed_setSlot {h : Heap} {o : Obj} (ht : TypedObj h o) {i : Nat} {cur y : Addr}
    (hcur : o.refs[i]? = some cur) (hk : kindAt h cur = kindAt h y) :
    TypedObj h { o with refs := o.refs.set i y } := by
  obtain ⟨ks, hks, hok⟩ := ht
  obtain ⟨k, hki, hkc⟩ := mapO_getElem hks i cur hcur
  have hset := mapO_list_set (f := kindAt h) i hks (a' := y) (b' := k) (by rw [← hk]; exact hkc)
  have : ks.set i k = ks := by
    apply List.ext_getElem? ; intro j
    by_cases hij : i = j
    · subst hij
      rw [List.getElem?_set_self (List.getElem?_eq_some_iff.mp hki).1, hki]
    · rw [List.getElem?_set_ne hij]
  rw [this] at hset
  exact ⟨ks, hset, hok⟩

theorem seq_refKinds {sc : Scalars} {ek : Nat} (he : elemKind sc.kind = some ek) (ks : List Nat) :
    refKindsOK sc ks ↔ ∀ k ∈ ks, k = ek := by
  have : (sc.kind = 8 ∧ ek = 1) ∨ (sc.kind = 9 ∧ ek = 2) := by
    generalize sc.kind = n at he
    match n, he with
    | 8, he => simp [elemKind] at he; exact Or.inl ⟨rfl, he.symm⟩
    | 9, he => simp [elemKind] at he; exact Or.inr ⟨rfl, he.symm⟩
  rcases this with ⟨h1, rfl⟩ | ⟨h1, rfl⟩ <;> simp [refKindsOK, h1, refKindsK]

theorem typed_listAppend {h : Heap} {o : Obj} {ek : Nat} (ht : TypedObj h o) (he : elemKind o.sc.kind = some ek)
    {y : Addr} (hy : kindAt h y = some ek) : TypedObj h { o with refs := o.refs ++ [y] } := by
  obtain ⟨ks, hks, hok⟩ := ht
  refine ⟨ks ++ [ek], mapO_append hks (by simp [mapO, hy]), ?_⟩
  rw [seq_refKinds he] at hok ⊢
  intro k hk
  rcases List.mem_append.mp hk with h1 | h1
  · exact hok k h1
  · simpa using h1

theorem typed_listSet {h : Heap} {o : Obj} {ek : Nat} (ht : TypedObj h o) (he : elemKind o.sc.kind = some ek)
    (i : Nat) {y : Addr} (hy : kindAt h y = some ek) : TypedObj h { o with refs := o.refs.set i y } := by
  obtain ⟨ks, hks, hok⟩ := ht
  refine ⟨ks.set i ek, mapO_list_set i hks hy, ?_⟩
  rw [seq_refKinds he] at hok ⊢
  intro k hk
  rcases List.mem_or_eq_of_mem_set hk with h1 | h1
  · exact hok k h1
  · exact h1

theorem typed_listErase {h : Heap} {o : Obj} {ek : Nat} (ht : TypedObj h o) (he : elemKind o.sc.kind = some ek)
    (i : Nat) : TypedObj h { o with refs := o.refs.eraseIdx i } := by
  obtain ⟨ks, hks, hok⟩ := ht
  refine ⟨ks.eraseIdx i, mapO_eraseIdx i hks, ?_⟩
  rw [seq_refKinds he] at hok ⊢
  intro k hk
  exact hok k (List.mem_of_mem_eraseIdx hk)

/-- the parts of a transaction object have the classes of `vin`, `vout`, `wit` -/
theorem txParts_kinds {h : Heap} (ht : TypedRefs h) {a : Addr} {o : Obj} {vi vo w : Addr}
    (hp : txParts h a = some (o, vi, vo, w)) :
    h[a]? = some o ∧ o.sc.kind = 5 ∧ o.refs = [vi, vo, w] ∧ kindAt h vi = some 8 ∧ kindAt h vo = some 9 ∧
      kindAt h w = some 4 := by
  simp only [txParts] at hp
  cases ho : h[a]? with
  | none => simp [ho] at hp
  | some o' =>
    simp only [ho] at hp
    cases hsc : o'.sc <;> simp only [hsc] at hp <;> try (cases hp)
    rename_i ver lock
    match hr : o'.refs, hp with
    | [x, y, z], hp =>
      simp only [Option.some.injEq, Prod.mk.injEq] at hp
      obtain ⟨rfl, rfl, rfl, rfl⟩ := hp
      obtain ⟨ks, hks, hok⟩ := ht a o' ho
      simp only [refKindsOK, hsc, Scalars.kind, refKindsK] at hok
      subst hok
      rw [hr] at hks
      simp only [mapO] at hks
      cases h1 : kindAt h x with
      | none => simp [h1] at hks
      | some k1 =>
        cases h2 : kindAt h y with
        | none => simp [h1, h2] at hks
        | some k2 =>
          cases h3 : kindAt h z with
          | none => simp [h1, h2, h3] at hks
          | some k3 =>
            simp only [h1, h2, h3, Option.some.injEq, List.cons.injEq, and_true] at hks
            obtain ⟨rfl, rfl, rfl⟩ := hks
            exact ⟨rfl, by rw [hsc]; rfl, hr, rfl, rfl, rfl⟩

end BtcVerif.Model.Heap
