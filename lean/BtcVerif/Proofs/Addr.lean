/-
  C12 — helper lemmas, part 1: chain selection, and the parser `CBitcoinAddress(s)`.
-/
import BtcVerif.Model.Addr
import BtcVerif.Props.C10
import BtcVerif.Proofs.Bech32Addr

namespace BtcVerif.AddrProofs
open BtcVerif BtcVerif.Spec
open BtcVerif.Spec.Addr (AddrClass Addr ValidFor selected)
open BtcVerif.Model.Addr

/-! ### chain selection -/

theorem chainByName_mainnet : chainByName? "mainnet" = some mainnet := by decide
theorem chainByName_testnet : chainByName? "testnet" = some testnet := by decide
theorem chainByName_signet : chainByName? "signet" = some signet := by decide
theorem chainByName_regtest : chainByName? "regtest" = some regtest := by decide

theorem chainByName_other {n : String} (h1 : n ≠ "mainnet") (h2 : n ≠ "testnet") (h3 : n ≠ "regtest")
    (h4 : n ≠ "signet") : chainByName? n = none := by
  have e1 : ("mainnet" == n) = false := by simpa using fun h => h1 h.symm
  have e2 : ("testnet" == n) = false := by simpa using fun h => h2 h.symm
  have e3 : ("regtest" == n) = false := by simpa using fun h => h3 h.symm
  have e4 : ("signet" == n) = false := by simpa using fun h => h4 h.symm
  simp [chainByName?, chainTable, List.find?, mainnet, testnet, signet, regtest, e1, e2, e3, e4]

/-- one call: a chain name selects that chain for both globals; any other name raises ValueError and
    changes nothing -/
theorem selectParams_eq (st : ChainState) (n : String) :
    selectParams st n = match chainByName? n with
                        | some q => (⟨q, .full q⟩, none)
                        | none => (st, some .valueerr) := by
  by_cases h1 : n = "mainnet"
  · subst h1; rw [chainByName_mainnet]; rfl
  by_cases h2 : n = "testnet"
  · subst h2; rw [chainByName_testnet]; rfl
  by_cases h3 : n = "regtest"
  · subst h3; rw [chainByName_regtest]; rfl
  by_cases h4 : n = "signet"
  · subst h4; rw [chainByName_signet]; rfl
  rw [chainByName_other h1 h2 h3 h4]
  simp [selectParams, selectCore, h1, h2, h3, h4]

/-- last chain name of a history, `p` if there is none -/
def selFrom (p : ChainParams) (history : List String) : ChainParams :=
  match (history.filterMap chainByName?).getLast? with
  | some q => q
  | none => p

theorem selFrom_cons (p : ChainParams) (n : String) (h : List String) :
    selFrom p (n :: h) = selFrom (match chainByName? n with | some q => q | none => p) h := by
  unfold selFrom
  cases hc : chainByName? n with
  | none => simp [List.filterMap_cons, hc]
  | some q =>
    simp only [List.filterMap_cons, hc, List.getLast?_cons]
    cases (List.filterMap chainByName? h).getLast? <;> simp

theorem foldl_select (p : ChainParams) (history : List String) :
    history.foldl (fun st n => (selectParams st n).1) ⟨p, .full p⟩ =
      ⟨selFrom p history, .full (selFrom p history)⟩ := by
  induction history generalizing p with
  | nil => rfl
  | cons n h ih =>
    rw [List.foldl_cons, selFrom_cons, selectParams_eq]
    cases chainByName? n with
    | none => exact ih p
    | some q => exact ih q

/-- from an arbitrary state: nothing changes until the first chain name; from then on both globals
    are the same full object -/
theorem foldl_select_from (st : ChainState) (history : List String) :
    history.foldl (fun st n => (selectParams st n).1) st =
      if history.filterMap chainByName? = [] then st
      else ⟨selFrom st.params history, .full (selFrom st.params history)⟩ := by
  induction history generalizing st with
  | nil => rfl
  | cons n h ih =>
    rw [List.foldl_cons, selectParams_eq, selFrom_cons]
    cases hc : chainByName? n with
    | none =>
      simp only [List.filterMap_cons, hc]
      exact ih st
    | some q =>
      simp only [List.filterMap_cons, hc, List.cons_ne_nil, if_false]
      exact foldl_select q h

theorem chainByName_mem {n : String} {q : ChainParams} (h : chainByName? n = some q) : q ∈ chainTable := by
  unfold chainByName? at h
  exact List.mem_of_find?_eq_some h

/-! ### the parser -/

theorem map_ofNat_toNat (l : List Nat) (h : ∀ x ∈ l, x < 256) :
    (l.map UInt8.ofNat).map UInt8.toNat = l := by
  rw [List.map_map]
  conv => rhs; rw [← List.map_id l]
  apply List.map_congr_left
  intro x hx
  have := h x hx
  simp [UInt8.toNat_ofNat', Nat.mod_eq_of_lt this]

theorem map_toNat_ofNat (b : Bytes) : (b.map UInt8.toNat).map UInt8.ofNat = b := by
  rw [List.map_map]
  conv => rhs; rw [← List.map_id b]
  apply List.map_congr_left
  intro x _
  simp

theorem bytesOfInts_ok (l : List Nat) (h : ∀ x ∈ l, x < 256) : bytesOfInts l = .ok (l.map UInt8.ofNat) := by
  unfold bytesOfInts
  have : l.all (· < 256) = true := by simpa using h
  simp [this]

/-- `CBech32BitcoinAddress(s)`: an address that `s` validly denotes, Bech32Error when `s` is not a
    segwit address of the chain, CBitcoinAddressError for a witness version other than 0 -/
theorem bech32New_cases (chain : ChainParams) (s : List Char) :
    (∃ a, bech32New chain s = .ok a ∧ (a.cls = .p2wpkh ∨ a.cls = .p2wsh) ∧
        ∀ H, ValidFor H chain a s) ∨
    (bech32New chain s = .error .bech32err ∧ ¬ Bech32.ValidSegwit chain.bech32Hrp.toList s) ∨
    (bech32New chain s = .error .addrerr ∧
        ∃ v p, v ≠ 0 ∧ Bech32.Decodes chain.bech32Hrp.toList s v p) := by
  unfold bech32New
  obtain ⟨r, hr⟩ := BtcVerif.Bech32.decodeR_ok chain.bech32Hrp.toList s
  rw [hr]
  cases r with
  | none =>
    right; left
    refine ⟨rfl, ?_⟩
    rintro ⟨v, p, hd⟩
    have := (BtcVerif.Bech32.decodeR_iff _ _ v p).2 hd
    rw [hr] at this
    cases this
  | some vp =>
    obtain ⟨v, p⟩ := vp
    have hd := (BtcVerif.Bech32.decodeR_iff _ _ v p).1 hr
    by_cases hv : v = 0
    · subst hv
      left
      have hd' := hd
      obtain ⟨_, _, _, _, _, _, _, _, _, _, _, _, hreg, _, _, h0⟩ := hd'
      have hp256 : ∀ x ∈ p, x < 256 := hreg.1
      have hlen := h0 rfl
      simp only [bech32FromBytes, ne_eq, not_true_eq_false, if_false, bytesOfInts_ok p hp256,
        Nat.zero_le, List.length_map]
      rcases hlen with hlen | hlen
      · refine ⟨⟨.p2wpkh, 0, p.map UInt8.ofNat⟩, by simp [hlen], Or.inl rfl, ?_⟩
        intro H
        simp only [ValidFor, List.length_map, hlen, true_and, map_ofNat_toNat p hp256]
        exact hd
      · refine ⟨⟨.p2wsh, 0, p.map UInt8.ofNat⟩, by simp [hlen], Or.inr rfl, ?_⟩
        intro H
        simp only [ValidFor, List.length_map, hlen, true_and, map_ofNat_toNat p hp256]
        exact hd
    · right; right
      exact ⟨by simp [bech32FromBytes, hv], v, p, hv, hd⟩

/-- `CBase58BitcoinAddress(s)`: an address that `s` validly denotes, a Base58Error, or
    CBitcoinAddressError for a version byte that is not one of the chain's -/
theorem base58New_cases (H : Bytes → Bytes) (chain : ChainParams) (s : List Char) :
    (∃ a, base58New H chain s = .ok a ∧ (a.cls = .p2pkh ∨ a.cls = .p2sh) ∧ ValidFor H chain a s) ∨
    base58New H chain s = .error .b58err ∨ base58New H chain s = .error .b58checksum ∨
    base58New H chain s = .error .addrerr := by
  unfold base58New
  rcases C10.check_outcomes H s with ⟨d, hd⟩ | hd | hd
  · rw [hd]
    obtain ⟨v, p⟩ := d
    have hk := (C10.check_accepts_iff H s v p).1 hd
    have hv : v.toNat < 256 := v.toNat_lt
    simp only [classify]
    by_cases h1 : v.toNat = chain.scriptAddr
    · left
      refine ⟨⟨.p2sh, v.toNat, p⟩, by simp [h1], Or.inr rfl, ?_⟩
      simp only [ValidFor, h1, true_and]
      rw [← h1, UInt8.ofNat_toNat]
      exact ⟨hv, hk⟩
    · by_cases h2 : v.toNat = chain.pubkeyAddr
      · left
        refine ⟨⟨.p2pkh, v.toNat, p⟩, by rw [if_neg h1, if_pos h2], Or.inl rfl, ?_⟩
        simp only [ValidFor, h2, true_and]
        rw [← h2, UInt8.ofNat_toNat]
        exact ⟨hv, hk⟩
      · right; right; right
        simp [h1, h2]
  · right; right; left; rw [hd]
  · right; left; rw [hd]

end BtcVerif.AddrProofs
