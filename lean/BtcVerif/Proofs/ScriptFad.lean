/-
  C06 — `FindAndDelete`: the model (script.py, over `raw_iter` operation boundaries) against the
  reference (Core's `do … while (GetOp)` loop), for a pattern that is one push operation.
-/
import BtcVerif.Proofs.ScriptOpEnc

namespace BtcVerif.Model.ScriptEval
open BtcVerif BtcVerif.Spec BtcVerif.Spec.Script BtcVerif.Model.Script

/-! ### the index argument of `raw_iter` only labels the operations -/

theorem rawStep_reindex (i j : Nat) (s : Bytes) :
    rawStep j s = match rawStep i s with
      | none => none
      | some (.err e) => some (.err e)
      | some (.op o rest) => some (.op { o with sopIdx := j } rest) := by
  cases s with
  | nil => simp [rawStep]
  | cons b t =>
    simp only [rawStep]
    split
    · rfl
    · split
      · rfl
      · split <;> rfl

theorem rawIterFrom_tail_indep (i : Nat) (s : Bytes) : ∀ j, (rawIterFrom j s).2 = (rawIterFrom i s).2 := by
  induction i, s using rawIterFrom.induct with
  | case1 i s h =>
    intro j
    have hj : rawStep j s = none := by rw [rawStep_reindex i j s, h]
    rw [rawIterFrom_none h, rawIterFrom_none hj]
  | case2 i s e h =>
    intro j
    have hj : rawStep j s = some (.err e) := by rw [rawStep_reindex i j s, h]
    rw [rawIterFrom_err h, rawIterFrom_err hj]
  | case3 i s o rest h ops e heq ih =>
    intro j
    have hj : rawStep j s = some (.op { o with sopIdx := j } rest) := by rw [rawStep_reindex i j s, h]
    rw [rawIterFrom_op h, rawIterFrom_op hj]
    exact ih _

/-- a pattern that is the encoding of one push operation -/
def PushPat (b : Bytes) : Prop := ∃ opc v, opc ≤ 0x4e ∧ WFEnc opc v ∧ b = encBytes opc true v

theorem PushPat.ne_nil {b : Bytes} (hb : PushPat b) : b ≠ [] := by
  obtain ⟨opc, v, hle, wf, rfl⟩ := hb; simp [encBytes]

/-- if the pattern is a prefix of a suffix that starts an operation, that operation IS the pattern -/
theorem prefix_is_op {b s : Bytes} (hb : PushPat b) (hp : b <+: s) {opc : Nat} {v rest : Bytes}
    (hg : Ref.getOp s = some (opc, v, rest)) : s = b ++ rest := by
  obtain ⟨ob, vb, hle, wf, rfl⟩ := hb
  obtain ⟨Y, rfl⟩ := hp
  have h2 := getOp_encBytes ob vb Y wf
  have hd : decide (ob ≤ 0x4e) = true := by simp [hle]
  rw [hd] at h2
  rw [h2] at hg
  simp only [Option.some.injEq, Prod.mk.injEq] at hg
  rw [hg.2.2]

theorem not_prefix_of_noop {b s : Bytes} (hb : PushPat b) (hg : Ref.getOp s = none) : ¬ b <+: s := by
  intro hp
  obtain ⟨ob, vb, hle, wf, rfl⟩ := hb
  obtain ⟨Y, rfl⟩ := hp
  have h2 := getOp_encBytes ob vb Y wf
  have hd : decide (ob ≤ 0x4e) = true := by simp [hle]
  rw [hd] at h2
  rw [h2] at hg
  cases hg

/-! ### unfolding the reference loop -/

theorem skipMatches_prefix {b s : Bytes} (hne : b ≠ []) (hp : b <+: s) :
    Ref.skipMatches b s = Ref.skipMatches b (s.drop b.length) := by
  rw [Ref.skipMatches]
  have : b ≠ [] ∧ b.isPrefixOf s = true := ⟨hne, List.isPrefixOf_iff_prefix.mpr hp⟩
  rw [dif_pos this]

theorem skipMatches_noprefix {b s : Bytes} (hp : ¬ b <+: s) : Ref.skipMatches b s = s := by
  rw [Ref.skipMatches]
  have : ¬ (b ≠ [] ∧ b.isPrefixOf s = true) := by
    intro h; exact hp (List.isPrefixOf_iff_prefix.mp h.2)
  rw [dif_neg this]

theorem fadLoop_unfold (b s : Bytes) :
    Ref.fadLoop b s =
      match Ref.getOp (Ref.skipMatches b s) with
      | none => Ref.skipMatches b s
      | some (_, _, rest) =>
        (Ref.skipMatches b s).take ((Ref.skipMatches b s).length - rest.length) ++ Ref.fadLoop b rest := by
  rw [Ref.fadLoop]
  split
  · rename_i h; simp [h]
  · rename_i h; simp [h]

/-- the loop only looks at what `skipMatches` leaves -/
theorem fadLoop_congr {b s t : Bytes} (h : Ref.skipMatches b s = Ref.skipMatches b t) :
    Ref.fadLoop b s = Ref.fadLoop b t := by
  rw [fadLoop_unfold b s, fadLoop_unfold b t, h]

/-! ### one operation of the parse against the reference loop -/

theorem fadLoop_nil {b : Bytes} (hb : PushPat b) : Ref.fadLoop b [] = [] := by
  have hp : ¬ b <+: [] := by
    intro h; exact hb.ne_nil (List.prefix_nil.mp h)
  rw [fadLoop_unfold, skipMatches_noprefix hp]
  simp [Ref.getOp]

theorem fadLoop_err {b s : Bytes} (hb : PushPat b) (hg : Ref.getOp s = none) : Ref.fadLoop b s = s := by
  rw [fadLoop_unfold, skipMatches_noprefix (not_prefix_of_noop hb hg), hg]

/-- (R1) the operation at this boundary is the pattern: it is dropped -/
theorem fadLoop_match {b s : Bytes} (hb : PushPat b) (hp : b <+: s) {opc : Nat} {v rest : Bytes}
    (hg : Ref.getOp s = some (opc, v, rest)) : Ref.fadLoop b s = Ref.fadLoop b rest := by
  have hs := prefix_is_op hb hp hg
  apply fadLoop_congr
  rw [skipMatches_prefix hb.ne_nil hp]
  congr 1
  rw [hs, List.drop_left]

/-- (R2) the operation at this boundary is not the pattern: its bytes are kept -/
theorem fadLoop_keep {b s : Bytes} (hp : ¬ b <+: s) {opc : Nat} {v rest : Bytes}
    (hg : Ref.getOp s = some (opc, v, rest)) :
    Ref.fadLoop b s = s.take (s.length - rest.length) ++ Ref.fadLoop b rest := by
  rw [fadLoop_unfold, skipMatches_noprefix hp, hg]

/-! ### the model's fold -/

theorem slice_prefix_iff (script b : Bytes) (idx : Nat) :
    (slice script idx (idx + b.length) == b) = true ↔ b <+: script.drop idx := by
  simp only [slice, Nat.add_sub_cancel_left, beq_iff_eq]
  constructor
  · intro h; rw [← h]; exact List.take_prefix _ _
  · intro h
    obtain ⟨t, ht⟩ := h
    rw [← ht, List.take_left]

/-- what `FindAndDelete` returns from its final loop state -/
def fadFinish (script : Bytes) (acc : FadAcc) : Bytes :=
  if !acc.skip then acc.r ++ script.drop acc.last else acc.r

/-- bytes of the last operation seen, if it is still to be appended -/
def fadPending (script : Bytes) (acc : FadAcc) (idx : Nat) : Bytes :=
  if acc.skip then [] else slice script acc.last idx

/-- the fold of `FindAndDelete` over the operations from position `idx`, started in any loop state,
    finishes with `r ++ pending ++ (reference result on the rest)` -/
theorem fad_fold (script b : Bytes) (hb : PushPat b) (idx : Nat) (s : Bytes) :
    s = script.drop idx → (rawIterFrom idx s).2 = none →
    ∀ acc : FadAcc, acc.last ≤ idx →
      fadFinish script ((rawIterFrom idx s).1.foldl (fadStep script b) acc) =
      acc.r ++ fadPending script acc idx ++ Ref.fadLoop b s := by
  induction idx, s using rawIterFrom.induct with
  | case1 idx s h =>
    intro hs _ acc hlast
    have hnil := rawStep_getOp idx s
    rw [h] at hnil
    subst hnil
    rw [rawIterFrom_none h, fadLoop_nil hb]
    simp only [List.foldl_nil, List.append_nil, fadFinish, fadPending]
    have hlen : script.length ≤ idx := by
      have := congrArg List.length hs
      simp only [List.length_nil, List.length_drop] at this; omega
    cases acc with
    | mk r last skip =>
      cases skip
      · simp only [Bool.not_false, if_true, Bool.false_eq_true, if_false, slice]
        congr 1
        rw [List.take_of_length_le]
        simp only [List.length_drop]
        dsimp only at hlast; omega
      · simp
  | case2 idx s e h =>
    intro _ he
    rw [rawIterFrom_err h] at he
    cases he
  | case3 idx s o rest h ops e heq ih =>
    intro hs he acc hlast
    have hf := rawStep_getOp idx s
    rw [h] at hf
    obtain ⟨hget, hidx, _, _, ⟨pre, hpre, hprene⟩, _⟩ := hf
    rw [rawIterFrom_op h] at he ⊢
    simp only [List.foldl_cons]
    have hlen : s.length - rest.length = pre.length := by rw [hpre]; simp
    have hrest : rest = script.drop (idx + (s.length - rest.length)) := by
      rw [hlen, ← List.drop_drop, ← hs, hpre, List.drop_left]
    -- the state after this operation
    have hstep : fadStep script b acc o =
        ⟨acc.r ++ fadPending script acc idx, idx, decide (b <+: s)⟩ := by
      simp only [fadStep, hidx, fadPending]
      congr 1
      · cases acc.skip <;> simp
      · rw [Bool.eq_iff_iff, slice_prefix_iff, ← hs]; simp
    rw [hstep, ih hrest he ⟨acc.r ++ fadPending script acc idx, idx, decide (b <+: s)⟩ (by dsimp only; omega)]
    -- what is pending after this operation: its own bytes, unless it matched
    have hsl : slice script idx (idx + (s.length - rest.length)) = pre := by
      simp only [slice, Nat.add_sub_cancel_left, ← hs, hlen]
      rw [hpre, List.take_left]
    by_cases hp : b <+: s
    · simp only [fadPending, hp, decide_true, if_true, List.append_nil]
      rw [fadLoop_match hb hp hget]
    · simp only [fadPending, hp, decide_false, Bool.false_eq_true, if_false, hsl]
      rw [fadLoop_keep hp hget, hlen, hpre, List.take_left]
      simp only [List.append_assoc]

/-- `FindAndDelete(script, b)` of the model: CScriptInvalidError when `raw_iter` raises, otherwise
    exactly the reference's result -/
theorem findAndDelete_eq (cap : Captured) (script b : Bytes) (hb : PushPat b) :
    findAndDelete cap script b =
      if (rawIter script).2.isSome then .error (.invalid cap) else .ok (Ref.findAndDelete script b) := by
  have hdef : findAndDelete cap script b =
      match (rawIter script).2 with
      | some _ => .error (.invalid cap)
      | none => .ok (fadFinish script ((rawIter script).1.foldl (fadStep script b) ⟨[], 0, true⟩)) := rfl
  rw [hdef]
  cases he : (rawIter script).2 with
  | some e => simp
  | none =>
    simp only [Option.isSome_none, Bool.false_eq_true, if_false]
    have := fad_fold script b hb 0 script (by simp) he ⟨[], 0, true⟩ (Nat.le_refl _)
    simp only [rawIter] at this ⊢
    rw [this]
    simp [fadPending, Ref.findAndDelete, hb.ne_nil]

/-! ### the pattern `CScript([sig])` -/

theorem pushEnc_pat (d : Bytes) (h : d.length < 2 ^ 32) : PushPat (Ref.pushEnc d) := by
  unfold Ref.pushEnc
  by_cases h1 : d.length < 0x4c
  · refine ⟨d.length, d, by omega, ⟨by omega, fun _ => rfl, by intro h; omega, by intro h; omega⟩, ?_⟩
    simp [h1, encBytes, lenWidth, leBytes]
  · by_cases h2 : d.length ≤ 0xff
    · refine ⟨0x4c, d, by omega, ⟨by omega, by intro h; omega, by intro _ _; simp [lenWidth]; omega,
        by intro h; omega⟩, ?_⟩
      have : d.length % 256 = d.length := Nat.mod_eq_of_lt (by omega)
      simp [h1, h2, encBytes, lenWidth, leBytes, this]
    · by_cases h3 : d.length ≤ 0xffff
      · refine ⟨0x4d, d, by omega, ⟨by omega, by intro h; omega, by intro _ _; simp [lenWidth]; omega,
          by intro h; omega⟩, ?_⟩
        simp [h1, h2, h3, encBytes, lenWidth]
      · refine ⟨0x4e, d, by omega, ⟨by omega, by intro h; omega, by intro _ _; simp [lenWidth]; omega,
          by intro h; omega⟩, ?_⟩
        simp [h1, h2, h3, encBytes, lenWidth]

theorem encodeOpPushdata_eq (d : Bytes) (h : d.length < 2 ^ 32) :
    encodeOpPushdata d = .ok (Ref.pushEnc d) := by
  unfold encodeOpPushdata Ref.pushEnc
  by_cases h1 : d.length < 0x4c
  · simp [h1]
  · by_cases h2 : d.length ≤ 0xff
    · simp [h1, h2]
    · by_cases h3 : d.length ≤ 0xffff
      · simp [h1, h2, h3]
      · have h4 : d.length ≤ 0xffffffff := by omega
        simp [h1, h2, h3, h4]

/-! ### a leading OP_CODESEPARATOR, and parse preservation -/

theorem rawStep_codesep (idx : Nat) (code : Bytes) :
    rawStep idx ((0xab : UInt8) :: code) = some (.op ⟨0xab, none, idx⟩ code) := by
  simp [rawStep]

theorem rawIter_codesep_tail (code : Bytes) : (rawIter ((0xab : UInt8) :: code)).2 = (rawIter code).2 := by
  rw [rawIter, rawIterFrom_op (rawStep_codesep 0 code)]
  exact rawIterFrom_tail_indep 0 code _

/-- the model keeps the separator in front of the subscript; `FindAndDelete` leaves it there -/
theorem fadLoop_codesep {b : Bytes} (hb : PushPat b) (code : Bytes) :
    Ref.fadLoop b ((0xab : UInt8) :: code) = 0xab :: Ref.fadLoop b code := by
  have hp : ¬ b <+: (0xab : UInt8) :: code := by
    obtain ⟨opc, v, hle, wf, rfl⟩ := hb
    intro h
    obtain ⟨t, ht⟩ := h
    simp only [encBytes, if_true, List.cons_append, List.cons.injEq] at ht
    have := congrArg UInt8.toNat ht.1
    rw [u8_toNat_ofNat wf.1] at this
    have h2 : (0xab : UInt8).toNat = 0xab := rfl
    omega
  have hg : Ref.getOp ((0xab : UInt8) :: code) = some (0xab, [], code) := by simp [Ref.getOp]
  rw [fadLoop_keep hp hg]
  simp

/-- deleting whole operations from a script that parses leaves a script that parses -/
theorem fadLoop_parses (b : Bytes) (hb : PushPat b) (idx : Nat) (s : Bytes) :
    (rawIterFrom idx s).2 = none → ∀ j, (rawIterFrom j (Ref.fadLoop b s)).2 = none := by
  induction idx, s using rawIterFrom.induct with
  | case1 idx s h =>
    intro _ j
    have hnil := rawStep_getOp idx s
    rw [h] at hnil
    subst hnil
    rw [fadLoop_nil hb, rawIterFrom_none (by simp [rawStep])]
  | case2 idx s e h =>
    intro he
    rw [rawIterFrom_err h] at he
    cases he
  | case3 idx s o rest h ops e heq ih =>
    intro he j
    rw [rawIterFrom_op h] at he
    have hf := rawStep_getOp idx s
    rw [h] at hf
    obtain ⟨hget, _, _, _, _, _⟩ := hf
    by_cases hp : b <+: s
    · rw [fadLoop_match hb hp hget]; exact ih he j
    · rw [fadLoop_keep hp hget]
      obtain ⟨hs, hwf⟩ := getOp_enc hget
      have hlen : s.length - rest.length = (encBytes o.opcode (decide (o.opcode ≤ 0x4e)) (o.data.getD [])).length := by
        rw [hs]; simp
      have htake : s.take (s.length - rest.length) = encBytes o.opcode (decide (o.opcode ≤ 0x4e)) (o.data.getD []) := by
        rw [hlen, hs, List.take_left]
      rw [htake]
      have hg2 := getOp_encBytes o.opcode (o.data.getD []) (Ref.fadLoop b rest) hwf
      have hf2 := rawStep_getOp j (encBytes o.opcode (decide (o.opcode ≤ 0x4e)) (o.data.getD []) ++ Ref.fadLoop b rest)
      cases hr : rawStep j (encBytes o.opcode (decide (o.opcode ≤ 0x4e)) (o.data.getD []) ++ Ref.fadLoop b rest) with
      | none =>
        rw [hr] at hf2
        rw [hf2] at hg2
        simp [Ref.getOp] at hg2
      | some st =>
        cases st with
        | err e' =>
          rw [hr] at hf2
          rw [hf2.2] at hg2
          cases hg2
        | op o' r' =>
          rw [hr] at hf2
          obtain ⟨hget', _⟩ := hf2
          rw [hg2] at hget'
          simp only [Option.some.injEq, Prod.mk.injEq] at hget'
          obtain ⟨_, _, hr'⟩ := hget'
          rw [rawIterFrom_op hr, ← hr']
          exact ih he _

/-! ### `FindAndDelete` never lengthens the script -/

theorem fadLoop_length_le (b : Bytes) (n : Nat) : ∀ s : Bytes, s.length ≤ n → (Ref.fadLoop b s).length ≤ s.length := by
  induction n with
  | zero =>
    intro s hs
    have : s = [] := List.eq_nil_of_length_eq_zero (by omega)
    subst this
    rw [fadLoop_unfold]
    have hsk : Ref.skipMatches b [] = [] := by
      have := Ref.skipMatches_le b []
      exact List.eq_nil_of_length_eq_zero (by simpa using this)
    rw [hsk]; simp [Ref.getOp]
  | succ n ih =>
    intro s hs
    rw [fadLoop_unfold]
    have hsk := Ref.skipMatches_le b s
    cases hg : Ref.getOp (Ref.skipMatches b s) with
    | none => simpa using hsk
    | some t =>
      obtain ⟨opc, v, rest⟩ := t
      have hlt := Ref.getOp_lt hg
      have := ih rest (by omega)
      simp only [List.length_append, List.length_take]
      omega

theorem ref_findAndDelete_length_le (s b : Bytes) : (Ref.findAndDelete s b).length ≤ s.length := by
  unfold Ref.findAndDelete
  split
  · exact Nat.le_refl _
  · exact fadLoop_length_le b s.length s (Nat.le_refl _)

theorem findAndDelete_length_le {cap : Captured} {script b r : Bytes} (hb : PushPat b)
    (h : findAndDelete cap script b = .ok r) : r.length ≤ script.length := by
  rw [findAndDelete_eq cap script b hb] at h
  split at h
  · cases h
  · simp only [Except.ok.injEq] at h
    rw [← h]; exact ref_findAndDelete_length_le script b

end BtcVerif.Model.ScriptEval
