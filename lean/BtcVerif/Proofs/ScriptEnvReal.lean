/-
  C06 / C07 — facts about the concrete environment (Model/ScriptEnvReal.lean):
  * the legacy signature hash does not see a leading OP_CODESEPARATOR operation of the script code
    (`realEnv_codesepInsensitive`, for every Python int index);
  * every outcome of `RawSignatureHash` for a transaction in wire range, including negative indices
    (`neg_outcome`, `sigHash_real_cases`): CScriptInvalidError for script codes that do not tokenise,
    IndexError exactly for `inIdx < −|vin|` or SINGLE with `inIdx < −|vout|`, a digest otherwise —
    hence `sigHashOK_real`, `raises_real_iff`, `no_raises_real`;
  * the model's `FindAndDelete` (Model/ScriptEval) is the one of C03's model (Model/Sighash).
-/
import BtcVerif.Props.C03
import BtcVerif.Model.ScriptEnvReal
import BtcVerif.Proofs.ScriptEquivSig

namespace BtcVerif.Model.ScriptEval.Real
open BtcVerif BtcVerif.Spec BtcVerif.Spec.Script BtcVerif.Model.Script BtcVerif.Model.ScriptEval

/-- a leading separator operation does not change whether the script code tokenises -/
theorem parses_codesep (sc : Bytes) : Spec.Sighash.parses ((0xab : UInt8) :: sc) ↔ Spec.Sighash.parses sc := by
  rw [← C03.parses_iff, ← C03.parses_iff, rawIter_codesep_tail]

/-- Core's `SerializeScriptCode` drops a leading OP_CODESEPARATOR operation -/
theorem scriptCodeNoSep_codesep (sc : Bytes) :
    Spec.Sighash.scriptCodeNoSep ((0xab : UInt8) :: sc) = Spec.Sighash.scriptCodeNoSep sc := by
  have hg : Spec.Sighash.getOp ((0xab : UInt8) :: sc) = some (0xab, 1) := by
    simp [Spec.Sighash.getOp]
  rw [Spec.Sighash.scriptCodeNoSep]
  split
  · rename_i h; rw [hg] at h; cases h
  · rename_i op n h
    rw [hg] at h
    simp only [Option.some.injEq, Prod.mk.injEq] at h
    obtain ⟨rfl, rfl⟩ := h
    simp [Spec.Sighash.OP_CODESEPARATOR]

/-- `FindAndDelete(scriptCode, CScript([OP_CODESEPARATOR]))` of `RawSignatureHash` gives the same
    result (bytes, or CScriptInvalidError) with and without a leading separator operation:
    from C03 `findAndDelete_codesep` / `findAndDelete_invalid` -/
theorem sighash_fad_codesep (sc : Bytes) :
    Model.Sighash.findAndDelete ((0xab : UInt8) :: sc) [0xab] = Model.Sighash.findAndDelete sc [0xab] := by
  by_cases hp : Spec.Sighash.parses sc
  · rw [C03.findAndDelete_codesep sc hp, C03.findAndDelete_codesep _ ((parses_codesep sc).mpr hp),
      scriptCodeNoSep_codesep]
  · rw [C03.findAndDelete_invalid sc _ hp,
      C03.findAndDelete_invalid _ _ (fun h => hp ((parses_codesep sc).mp h))]

/-- hence the modelled `RawSignatureHash` does not depend on it -/
theorem rawSignatureHash_codesep (sc : Bytes) (tx : Tx) (i : Nat) (ht : Int) :
    Model.Sighash.rawSignatureHash ((0xab : UInt8) :: sc) tx i ht = Model.Sighash.rawSignatureHash sc tx i ht := by
  unfold Model.Sighash.rawSignatureHash
  rw [sighash_fad_codesep]

theorem rawSignatureHashNeg_codesep (sc : Bytes) (tx : Tx) (i : Int) (ht : Int) :
    rawSignatureHashNeg ((0xab : UInt8) :: sc) tx i ht = rawSignatureHashNeg sc tx i ht := by
  unfold rawSignatureHashNeg
  rw [sighash_fad_codesep]

theorem rawSignatureHashInt_codesep (sc : Bytes) (tx : Tx) (i : Int) (ht : Int) :
    rawSignatureHashInt ((0xab : UInt8) :: sc) tx i ht = rawSignatureHashInt sc tx i ht := by
  unfold rawSignatureHashInt
  rw [rawSignatureHash_codesep, rawSignatureHashNeg_codesep]

theorem realEnv_codesepInsensitive (tx : Tx) (inIdx : Int) : CodesepInsensitive (realEnv tx inIdx) := by
  intro body pk sc ht
  simp only [realEnv, realCtx, Ctx.env, rawSignatureHashInt_codesep]

/-! ### what `RawSignatureHash` does for a negative index -/

/-- an input of the scratch copy that serialises -/
def InOK (i : TxIn) : Prop :=
  Spec.Wire.WFOutPoint i.prevout ∧ i.scriptSig.length < 2 ^ 64 ∧ i.nSequence < 2 ^ 32

theorem inOK_ser {i : TxIn} (h : InOK i) : Model.Wire.serTxIn i = .ok (Spec.Wire.txIn i) :=
  SighashProofs.serTxIn_ok h.1 h.2.1 h.2.2

/-- the last two statements of `RawSignatureHash` on a scratch copy whose parts serialise -/
theorem neg_tail (tx : Tx) (hwf : Spec.Sighash.FieldsWF tx) (vin3 : List TxIn) (vout2 : List TxOut) (ht : Nat)
    (hht : ht < 256) (h3 : vin3.length < 2 ^ 64) (h4 : ∀ x ∈ vin3, InOK x)
    (h5 : vout2.length < 2 ^ 64) (h6 : ∀ x ∈ vout2, x ∈ tx.vout) :
    ∃ d, (do
      let s ← Model.Wire.serTx { tx with vin := vin3, vout := vout2, wit := [] }
      let h ← Model.Wire.packI 4 (ht : Int)
      pure (Crypto.hash256 (s ++ h), false) : Res (Bytes × Bool)) = .ok (d, false) := by
  obtain ⟨hv1, hv2, _, _, _, hout, hl⟩ := hwf
  have hs := SighashProofs.scratch_ser tx vin3 vout2 hv1 hv2 hl h3 (fun x hx => inOK_ser (h4 x hx)) h5
    (fun x hx => by
      obtain ⟨a, b, c⟩ := hout x (h6 x hx)
      exact SighashProofs.serTxOut_ok a b c)
  rw [hs, SighashProofs.packI_ht (show ht < 2 ^ 31 by omega)]
  exact ⟨_, rfl⟩

theorem pyGetNat_ok {α} (l : List α) (k : Nat) (h : k < l.length) : Model.Sighash.pyGetNat l k = .ok l[k] := by
  simp [Model.Sighash.pyGetNat, List.getElem?_eq_getElem h]

/-- `RawSignatureHash(script, txTo, inIdx, hashtype)` with `inIdx < 0`, a transaction in wire range
    and a hash-type byte: CScriptInvalidError when the script code does not tokenise; otherwise
    IndexError exactly when `inIdx < −|vin|`, or SIGHASH_SINGLE and `inIdx < −|vout|` (D7); otherwise
    a digest and no error indication -/
theorem neg_outcome (script : Bytes) (tx : Tx) (inIdx : Int) (ht : Nat) (hwf : Spec.Sighash.FieldsWF tx)
    (hsc : script.length < 2 ^ 64) (hht : ht < 256) :
    (¬ Spec.Sighash.parses script → rawSignatureHashNeg script tx inIdx (ht : Int) = .error .invalidscript) ∧
    (Spec.Sighash.parses script →
      ((tx.vin.length : Int) < -inIdx ∨ ((ht : Int) % 32 = 3 ∧ (tx.vout.length : Int) < -inIdx)) →
      rawSignatureHashNeg script tx inIdx (ht : Int) = .error indexError) ∧
    (Spec.Sighash.parses script → inIdx < 0 →
      ¬ ((tx.vin.length : Int) < -inIdx ∨ ((ht : Int) % 32 = 3 ∧ (tx.vout.length : Int) < -inIdx)) →
      ∃ d, rawSignatureHashNeg script tx inIdx (ht : Int) = .ok (d, false)) := by
  have hft := SighashProofs.fromTx_ok tx hwf
  refine ⟨?_, ?_, ?_⟩
  · intro hp
    unfold rawSignatureHashNeg
    rw [hft, C03.findAndDelete_invalid script _ hp]
    rfl
  · intro hp hor
    unfold rawSignatureHashNeg
    rw [hft, C03.findAndDelete_codesep script hp]
    simp only [SighashProofs.bind_ok, List.length_map]
    by_cases h1 : (tx.vin.length : Int) < -inIdx
    · rw [if_pos h1]
    · rw [if_neg h1]
      rcases hor with h | ⟨h3, h4⟩
      · exact absurd h h1
      · have hk : ((tx.vin.length : Int) + inIdx).toNat < (tx.vin.map (fun i => { i with scriptSig := [] })).length := by
          rw [List.length_map]; omega
        rw [pyGetNat_ok _ _ hk]
        simp only [SighashProofs.bind_ok]
        rw [if_neg (by omega), if_pos h3, if_pos h4]
        rfl
  · intro hp hneg hor
    have h1 : ¬ (tx.vin.length : Int) < -inIdx := fun h => hor (Or.inl h)
    unfold rawSignatureHashNeg
    rw [hft, C03.findAndDelete_codesep script hp]
    simp only [SighashProofs.bind_ok, List.length_map]
    rw [if_neg h1]
    have hk : ((tx.vin.length : Int) + inIdx).toNat < (tx.vin.map (fun i => { i with scriptSig := [] })).length := by
      rw [List.length_map]; omega
    rw [pyGetNat_ok _ _ hk]
    obtain ⟨_, _, hvl, hol, hin, _, _⟩ := id hwf
    have hvin0 : ∀ x ∈ tx.vin.map (fun i => ({ i with scriptSig := [] } : TxIn)), InOK x := by
      intro x hx; rw [List.mem_map] at hx; obtain ⟨y, hy, rfl⟩ := hx
      exact ⟨(hin y hy).1, by simp, (hin y hy).2⟩
    have hnl := SighashProofs.noSep_length_le script.length script (le_refl _)
    have hl0 : (tx.vin.map (fun i => ({ i with scriptSig := [] } : TxIn))).length = tx.vin.length := List.length_map _
    generalize tx.vin.map (fun i => ({ i with scriptSig := [] } : TxIn)) = vin0 at hk hvin0 hl0 ⊢
    generalize ((tx.vin.length : Int) + inIdx).toNat = k at hk ⊢
    have hv1 : ∀ x ∈ vin0.set k { vin0[k] with scriptSig := Spec.Sighash.scriptCodeNoSep script }, InOK x := by
      intro x hx
      rcases List.mem_or_eq_of_mem_set hx with h | h
      · exact hvin0 x h
      · subst h
        exact ⟨(hvin0 _ (List.getElem_mem hk)).1, by dsimp only; omega, (hvin0 _ (List.getElem_mem hk)).2.2⟩
    have hl1 : (vin0.set k { vin0[k] with scriptSig := Spec.Sighash.scriptCodeNoSep script }).length = vin0.length :=
      List.length_set
    simp only [SighashProofs.bind_ok]
    generalize vin0.set k { vin0[k] with scriptSig := Spec.Sighash.scriptCodeNoSep script } = vin1 at hv1 hl1 ⊢
    have hk1 : k < vin1.length := by omega
    have hz : ∀ x ∈ vin1.map (fun i => ({ i with nSequence := 0 } : TxIn)), InOK x := by
      intro x hx; rw [List.mem_map] at hx; obtain ⟨y, hy, rfl⟩ := hx
      exact ⟨(hv1 y hy).1, (hv1 y hy).2.1, by simp⟩
    have hlz : (vin1.map (fun i => ({ i with nSequence := 0 } : TxIn))).length = vin1.length := List.length_map _
    generalize vin1.map (fun i => ({ i with nSequence := 0 } : TxIn)) = vz at hz hlz ⊢
    have hkz : k < vz.length := by omega
    by_cases hn : (ht : Int) % 32 = 2
    · simp only [if_pos hn]
      by_cases ha : (ht : Int) / 128 % 2 ≠ 0
      · simp only [if_pos ha, pyGetNat_ok _ _ hkz, SighashProofs.bind_ok, SighashProofs.pure_ok]
        exact neg_tail tx hwf [vz[k]] [] ht hht (by simp) (by simp; exact hz _ (List.getElem_mem hkz)) (by simp) (by simp)
      · simp only [if_neg ha, SighashProofs.bind_ok, SighashProofs.pure_ok]
        exact neg_tail tx hwf vz [] ht hht (by omega) hz (by simp) (by simp)
    · simp only [if_neg hn]
      by_cases hsg : (ht : Int) % 32 = 3
      · have h4 : ¬ (tx.vout.length : Int) < -inIdx := fun h => hor (Or.inr ⟨hsg, h⟩)
        have hko : ((tx.vout.length : Int) + inIdx).toNat < tx.vout.length := by omega
        simp only [if_pos hsg, if_neg h4, pyGetNat_ok _ _ hko, SighashProofs.bind_ok]
        by_cases ha : (ht : Int) / 128 % 2 ≠ 0
        · simp only [if_pos ha, pyGetNat_ok _ _ hkz, SighashProofs.bind_ok, SighashProofs.pure_ok]
          exact neg_tail tx hwf [vz[k]] [_] ht hht (by simp) (by simp; exact hz _ (List.getElem_mem hkz)) (by simp)
            (by simp)
        · simp only [if_neg ha, SighashProofs.bind_ok, SighashProofs.pure_ok]
          exact neg_tail tx hwf vz [_] ht hht (by omega) hz (by simp) (by simp)
      · simp only [if_neg hsg]
        by_cases ha : (ht : Int) / 128 % 2 ≠ 0
        · simp only [if_pos ha, pyGetNat_ok _ _ hk1, SighashProofs.bind_ok, SighashProofs.pure_ok]
          exact neg_tail tx hwf [vin1[k]] tx.vout ht hht (by simp) (by simp; exact hv1 _ (List.getElem_mem hk1)) hol
            (fun x hx => hx)
        · simp only [if_neg ha, SighashProofs.bind_ok, SighashProofs.pure_ok]
          exact neg_tail tx hwf vin1 tx.vout ht hht (by omega) hv1 hol (fun x hx => hx)

/-! ### the outcomes of `Ctx.sigHash` of the concrete context -/

/-- the hash types for which `RawSignatureHash` raises IndexError at a negative index -/
def BadNeg (tx : Tx) (inIdx : Int) (ht : Nat) : Prop :=
  (tx.vin.length : Int) < -inIdx ∨ ((ht : Int) % 32 = 3 ∧ (tx.vout.length : Int) < -inIdx)

/-- indices at which `RawSignatureHash` raises nothing but CScriptInvalidError, whatever the hash type:
    the non-negative ones and the negative ones that wrap around both `vin` and `vout` -/
def IdxOK (tx : Tx) (inIdx : Int) : Prop :=
  0 ≤ inIdx ∨ (-(tx.vin.length : Int) ≤ inIdx ∧ -(tx.vout.length : Int) ≤ inIdx)

theorem sigHash_real (tx : Tx) (inIdx : Int) (script : Bytes) (ht : Nat) :
    (realCtx tx inIdx).sigHash script ht = (rawSignatureHashInt script tx inIdx (ht : Int)).map (·.1) := rfl

/-- all outcomes of the concrete `sigHash` for a transaction in wire range -/
theorem sigHash_real_cases (tx : Tx) (inIdx : Int) (script : Bytes) (ht : Nat) (hwf : Spec.Sighash.FieldsWF tx)
    (hsc : script.length ≤ MAX_SCRIPT_SIZE) (hht : ht < 256) :
    (Spec.Sighash.parses script → (0 ≤ inIdx ∨ ¬ BadNeg tx inIdx ht) →
      ∃ d, (realCtx tx inIdx).sigHash script ht = .ok d) ∧
    (Spec.Sighash.parses script → inIdx < 0 → BadNeg tx inIdx ht →
      (realCtx tx inIdx).sigHash script ht = .error indexError) ∧
    (¬ Spec.Sighash.parses script →
      (∃ d, (realCtx tx inIdx).sigHash script ht = .ok d) ∨
      (realCtx tx inIdx).sigHash script ht = .error .invalidscript) := by
  have hsc' : script.length < 2 ^ 64 := by unfold MAX_SCRIPT_SIZE at hsc; omega
  obtain ⟨n1, n2, n3⟩ := neg_outcome script tx inIdx ht hwf hsc' hht
  rw [sigHash_real]
  unfold rawSignatureHashInt
  refine ⟨?_, ?_, ?_⟩
  · intro hp hor
    by_cases h0 : 0 ≤ inIdx
    · rw [if_pos h0, C03.raw_eq_spec script tx inIdx.toNat ht hp hsc' hwf hht]
      exact ⟨_, rfl⟩
    · rw [if_neg h0]
      obtain ⟨d, hd⟩ := n3 hp (by omega) (by rcases hor with h | h; exact absurd h h0; exact h)
      rw [hd]; exact ⟨_, rfl⟩
  · intro hp hneg hbad
    rw [if_neg (by omega), n2 hp hbad]; rfl
  · intro hp
    by_cases h0 : 0 ≤ inIdx
    · rw [if_pos h0]
      unfold Model.Sighash.rawSignatureHash
      by_cases hge : inIdx.toNat ≥ tx.vin.length
      · rw [if_pos hge]; left; exact ⟨_, rfl⟩
      · rw [if_neg hge, SighashProofs.fromTx_ok tx hwf, C03.findAndDelete_invalid script _ hp]
        right; rfl
    · rw [if_neg h0, n1 hp]; right; rfl

/-- hypothesis `SigHashOK` of `C06.eval_equiv` / `verify_equiv`, discharged -/
theorem sigHashOK_real (tx : Tx) (inIdx : Int) (hwf : Spec.Sighash.FieldsWF tx) (hidx : IdxOK tx inIdx) :
    SigHashOK (realCtx tx inIdx) := by
  intro script ht hlen hht hp
  refine (sigHash_real_cases tx inIdx script ht hwf hlen hht).1 ((C03.parses_iff script).mp hp) ?_
  rcases hidx with h | ⟨h1, h2⟩
  · left; exact h
  · right; unfold BadNeg; omega

/-- which exceptions of `RawSignatureHash` other than CScriptInvalidError reach the interpreter: for a
    transaction in wire range only IndexError, only at a negative index that does not wrap (D7) -/
theorem raises_real_iff (tx : Tx) (inIdx : Int) (hwf : Spec.Sighash.FieldsWF tx) (cls : String) :
    (realCtx tx inIdx).Raises cls ↔
      (cls = "IndexError" ∧ inIdx < 0 ∧ (inIdx < -(tx.vin.length : Int) ∨ inIdx < -(tx.vout.length : Int))) := by
  constructor
  · rintro ⟨script, ht, x, hlen, hht, hx, hne, rfl⟩
    obtain ⟨c1, c2, c3⟩ := sigHash_real_cases tx inIdx script ht hwf hlen hht
    by_cases hp : Spec.Sighash.parses script
    · by_cases hok : 0 ≤ inIdx ∨ ¬ BadNeg tx inIdx ht
      · obtain ⟨d, hd⟩ := c1 hp hok
        rw [hd] at hx; cases hx
      · have hneg : inIdx < 0 := by omega
        have hbad : BadNeg tx inIdx ht := by
          by_contra h; exact hok (Or.inr h)
        rw [c2 hp hneg hbad] at hx
        cases hx
        refine ⟨rfl, hneg, ?_⟩
        unfold BadNeg at hbad; omega
    · rcases c3 hp with ⟨d, hd⟩ | h
      · rw [hd] at hx; cases hx
      · rw [h] at hx; cases hx; exact absurd rfl hne
  · rintro ⟨rfl, hneg, hor⟩
    have hp : Spec.Sighash.parses [] := (C03.parses_iff []).mp (by rw [rawIter, rawIterFrom_none (by rfl)])
    refine ⟨[], 3, indexError, by simp, by omega,
      (sigHash_real_cases tx inIdx [] 3 hwf (by simp) (by omega)).2.1 hp hneg ?_, by simp [indexError], rfl⟩
    unfold BadNeg; omega

theorem no_raises_real (tx : Tx) (inIdx : Int) (hwf : Spec.Sighash.FieldsWF tx) (hidx : IdxOK tx inIdx)
    (cls : String) : ¬ (realCtx tx inIdx).Raises cls := by
  rw [raises_real_iff tx inIdx hwf]
  unfold IdxOK at hidx
  omega

/-! ### the two models of `FindAndDelete` coincide -/

/-- loop states of the two models correspond -/
def accRel (a : FadAcc) (b : Model.Sighash.FadState) : Prop := a.r = b.r ∧ a.last = b.last ∧ a.skip = b.skip

theorem fad_fold_rel (script sig : Bytes) (ops : List RawOp) :
    ∀ (a : FadAcc) (b : Model.Sighash.FadState), accRel a b →
      accRel (ops.foldl (fadStep script sig) a) (ops.foldl (Model.Sighash.fadStep script sig) b) := by
  induction ops with
  | nil => intro a b h; exact h
  | cons o ops ih =>
    intro a b h
    obtain ⟨h1, h2, h3⟩ := h
    apply ih
    refine ⟨?_, rfl, rfl⟩
    simp only [fadStep, Model.Sighash.fadStep, slice, Model.Sighash.pySlice, h1, h2, h3]

/-- `Model.ScriptEval.findAndDelete` (C06/C07) is `Model.Sighash.findAndDelete` (C03): same bytes,
    and CScriptInvalidError on the same scripts (the C06 model attaches the captured state) -/
theorem findAndDelete_models_agree (cap : Captured) (script sig : Bytes) :
    findAndDelete cap script sig =
      match Model.Sighash.findAndDelete script sig with
      | .ok r => .ok r
      | .error _ => .error (.invalid cap) := by
  unfold findAndDelete Model.Sighash.findAndDelete
  have hrel := fad_fold_rel script sig (rawIter script).1 ⟨[], 0, true⟩ ⟨[], 0, true⟩ ⟨rfl, rfl, rfl⟩
  obtain ⟨h1, h2, h3⟩ := hrel
  cases he : (rawIter script).2 with
  | some e => simp only [he]
  | none => simp only [he, h1, h2, h3]

end BtcVerif.Model.ScriptEval.Real
