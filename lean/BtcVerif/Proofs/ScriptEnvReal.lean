/-
  C06 / C07 — facts about the concrete environment (Model/ScriptEnvReal.lean): the legacy signature
  hash does not see a leading OP_CODESEPARATOR operation of the script code, and the model's
  `FindAndDelete` (Model/ScriptEval) is the one of C03's model (Model/Sighash).
-/
import BtcVerif.Props.C03
import BtcVerif.Model.ScriptEnvReal
import BtcVerif.Proofs.ScriptEquivSig

namespace BtcVerif.Model.ScriptEval.Real
open BtcVerif BtcVerif.Spec BtcVerif.Spec.Script BtcVerif.Model.Script BtcVerif.Model.ScriptEval

/-- a leading separator operation does not change whether the script code tokenises -/
theorem parses_codesep (sc : Bytes) : Spec.Sighash.parses ((0xab : UInt8) :: sc) ↔ Spec.Sighash.parses sc := by
  rw [← C03.parses_iff, ← C03.parses_iff, rawIter_codesep_tail]

/-- Core's `SerializeScriptCode` drops a leading OP_CODESEPARATOR operation -/
theorem scriptCodeNoSep_codesep (sc : Bytes) :
    Spec.Sighash.scriptCodeNoSep ((0xab : UInt8) :: sc) = Spec.Sighash.scriptCodeNoSep sc := by
  have hg : Spec.Sighash.getOp ((0xab : UInt8) :: sc) = some (0xab, 1) := by
    simp [Spec.Sighash.getOp]
  rw [Spec.Sighash.scriptCodeNoSep]
  split
  · rename_i h; rw [hg] at h; cases h
  · rename_i op n h
    rw [hg] at h
    simp only [Option.some.injEq, Prod.mk.injEq] at h
    obtain ⟨rfl, rfl⟩ := h
    simp [Spec.Sighash.OP_CODESEPARATOR]

/-- `FindAndDelete(scriptCode, CScript([OP_CODESEPARATOR]))` of `RawSignatureHash` gives the same
    result (bytes, or CScriptInvalidError) with and without a leading separator operation:
    from C03 `findAndDelete_codesep` / `findAndDelete_invalid` -/
theorem sighash_fad_codesep (sc : Bytes) :
    Model.Sighash.findAndDelete ((0xab : UInt8) :: sc) [0xab] = Model.Sighash.findAndDelete sc [0xab] := by
  by_cases hp : Spec.Sighash.parses sc
  · rw [C03.findAndDelete_codesep sc hp, C03.findAndDelete_codesep _ ((parses_codesep sc).mpr hp),
      scriptCodeNoSep_codesep]
  · rw [C03.findAndDelete_invalid sc _ hp,
      C03.findAndDelete_invalid _ _ (fun h => hp ((parses_codesep sc).mp h))]

/-- hence the modelled `RawSignatureHash` does not depend on it -/
theorem rawSignatureHash_codesep (sc : Bytes) (tx : Tx) (i : Nat) (ht : Int) :
    Model.Sighash.rawSignatureHash ((0xab : UInt8) :: sc) tx i ht = Model.Sighash.rawSignatureHash sc tx i ht := by
  unfold Model.Sighash.rawSignatureHash
  rw [sighash_fad_codesep]

theorem realEnv_codesepInsensitive (tx : Tx) (inIdx : Nat) : CodesepInsensitive (realEnv tx inIdx) := by
  intro body pk sc ht
  simp only [realEnv, realSigCheck, rawSignatureHash_codesep]

/-! ### the two models of `FindAndDelete` coincide -/

/-- loop states of the two models correspond -/
def accRel (a : FadAcc) (b : Model.Sighash.FadState) : Prop := a.r = b.r ∧ a.last = b.last ∧ a.skip = b.skip

theorem fad_fold_rel (script sig : Bytes) (ops : List RawOp) :
    ∀ (a : FadAcc) (b : Model.Sighash.FadState), accRel a b →
      accRel (ops.foldl (fadStep script sig) a) (ops.foldl (Model.Sighash.fadStep script sig) b) := by
  induction ops with
  | nil => intro a b h; exact h
  | cons o ops ih =>
    intro a b h
    obtain ⟨h1, h2, h3⟩ := h
    apply ih
    refine ⟨?_, rfl, rfl⟩
    simp only [fadStep, Model.Sighash.fadStep, slice, Model.Sighash.pySlice, h1, h2, h3]

/-- `Model.ScriptEval.findAndDelete` (C06/C07) is `Model.Sighash.findAndDelete` (C03): same bytes,
    and CScriptInvalidError on the same scripts (the C06 model attaches the captured state) -/
theorem findAndDelete_models_agree (cap : Captured) (script sig : Bytes) :
    findAndDelete cap script sig =
      match Model.Sighash.findAndDelete script sig with
      | .ok r => .ok r
      | .error _ => .error (.invalid cap) := by
  unfold findAndDelete Model.Sighash.findAndDelete
  have hrel := fad_fold_rel script sig (rawIter script).1 ⟨[], 0, true⟩ ⟨[], 0, true⟩ ⟨rfl, rfl, rfl⟩
  obtain ⟨h1, h2, h3⟩ := hrel
  cases he : (rawIter script).2 with
  | some e => simp only [he]
  | none => simp only [he, h1, h2, h3]

end BtcVerif.Model.ScriptEval.Real
