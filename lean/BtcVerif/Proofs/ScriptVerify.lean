/-
  C07 — `VerifyScript`: containment of its outcomes and the limits of the captured error states,
  assembled from the `EvalScript` invariants (Proofs/ScriptEvalInv*.lean).
-/
import BtcVerif.Proofs.ScriptEvalInv5

namespace BtcVerif.Model.ScriptEval
open BtcVerif BtcVerif.Spec BtcVerif.Spec.Script BtcVerif.Model.Script

/-- outcome of `VerifyScript` and of its parts: normal return, a ValidationError whose captured
    state (when it is an EvalScriptError) is within the limits, or a foreign exception — only one that
    `RawSignatureHash` raised (D7) or the AssertionError of an inadmissible flag set (D6) -/
def VerOK (c : Ctx) (fl : Flags) {α : Type} : M α → Prop
  | .ok _ => True
  | .error (.eval cap) => Lim 520 cap.stack cap.altstack cap.nOpCount
  | .error .verify => True
  | .error (.invalid _) => False
  | .error (.py cls) => c.Raises cls ∨ (cls = "AssertionError" ∧ fl.admissible = false)

theorem verok_bind {c : Ctx} {fl : Flags} {α β : Type} {x : M α} {f : α → M β}
    (hx : VerOK c fl x) (hf : ∀ a, x = .ok a → VerOK c fl (f a)) : VerOK c fl (x >>= f) := by
  cases x with
  | ok a => exact hf a rfl
  | error e => cases e <;> exact hx

theorem verok_of_evalok {c : Ctx} {fl : Flags} {r : M (List Bytes)} (h : EvalOK c 520 r)
    (hni : ∀ cap, r ≠ .error (.invalid cap)) : VerOK c fl r := by
  cases r with
  | ok s => trivial
  | error e =>
    cases e with
    | eval cap => exact h
    | verify => trivial
    | invalid cap => exact absurd rfl (hni cap)
    | py cls => exact Or.inl h

theorem checkTopTrue_verok {c : Ctx} {fl : Flags} (stack : List Bytes) : VerOK c fl (checkTopTrue stack) := by
  unfold checkTopTrue
  cases stack with
  | nil => simp [VerOK]
  | cons a r =>
    simp only [List.length_cons, Nat.add_one_ne_zero, if_false, getTop?_1, pyIdx, bind, Except.bind]
    split <;> trivial

/-- the first opcode of a P2SH scriptPubKey needs an argument: on an empty stack it fails -/
theorem p2sh_needs_arg (c : Ctx) (fl : Flags) (spk : Bytes) (hp : isP2sh spk = true) :
    ∀ s, evalScript c fl [] spk ≠ .ok s := by
  intro s
  unfold isP2sh at hp
  simp only [Bool.and_eq_true, decide_eq_true_eq] at hp
  obtain ⟨⟨⟨hlen, h0⟩, _⟩, _⟩ := hp
  cases spk with
  | nil => simp at hlen
  | cons b t =>
    simp only [List.getElem?_cons_zero, Option.some.injEq] at h0
    subst h0
    have hstep : rawStep 0 ((0xa9 : UInt8) :: t) = some (.op ⟨0xa9, none, 0⟩ t) := by
      simp [rawStep]
    have hit := rawIterFrom_op hstep
    unfold evalScript evalScriptRaw
    have hsz : ¬ ((0xa9 : UInt8) :: t).length > MAX_SCRIPT_SIZE := by
      rw [hlen]; simp [MAX_SCRIPT_SIZE]
    rw [if_neg hsz]
    simp only [rawIter, hit, loop, bind, Except.bind]
    have : step c fl ((0xa9 : UInt8) :: t) ⟨0xa9, none, 0⟩ ⟨[], [], [], 0, 0⟩ =
        .error (.eval ⟨[], [], 1⟩) := by
      simp [step, disabledOpcodes, countOp, dispatch, checkExec, execOp, binaryNumOps, unaryNumOps, hashTop,
        checkArgs, raiseNamed, MAX_OPS_PER_SCRIPT, St.cap, bind, Except.bind,
        show opcodeName? 169 = some "OP_HASH160" from by decide]
    simp [this]

theorem verifyCleanStack_verok {c : Ctx} {fl : Flags} (stack : List Bytes) :
    VerOK c fl (verifyCleanStack fl stack) := by
  unfold verifyCleanStack
  split_ifs with h1 h2 h3
  · right; exact ⟨rfl, by simp [Flags.admissible, h1]; simpa using h2⟩
  · trivial
  · trivial
  · trivial

theorem elemsLe_nil (B : Nat) : ElemsLe B [] := fun x hx => by simp at hx

theorem verifyP2sh_verok {c : Ctx} {fl : Flags} (hh : HashesOK c.env.hashes) (sig : Bytes) (s1 : List Bytes)
    (hs1 : s1.length ≤ 1000) (he : ElemsLe 520 s1) (hne : s1 ≠ []) :
    VerOK c fl (verifyP2sh c fl sig (some s1)) := by
  unfold verifyP2sh
  split_ifs with hpo
  · trivial
  · cases s1 with
    | nil => exact absurd rfl hne
    | cons x r =>
      simp only [List.length_cons, Nat.add_one_ne_zero, if_false, pop?_cons, pyIdx]
      have hr : r.length ≤ 1000 := by simp only [List.length_cons] at hs1; omega
      have her : ElemsLe 520 r := fun y hy => he y (by simp [hy])
      have e := evalScript_ok (c := c) (B := 520) fl r x hr her (Nat.le_refl _) (by decide) hh
      show VerOK c fl (evalScript c fl r x >>= _)
      refine verok_bind (verok_of_evalok e.1 e.2) (fun s3 _ => ?_)
      exact verok_bind (checkTopTrue_verok s3) (fun _ _ => trivial)

/-- `VerifyScript`: every outcome is a normal return or a validation error with a captured state
    within the limits, except for the two known findings -/
theorem verifyScript_verok {c : Ctx} {fl : Flags} (hh : HashesOK c.env.hashes) (sig spk : Bytes) :
    VerOK c fl (verifyScript c fl sig spk) := by
  unfold verifyScript
  have e1 := evalScript_ok (c := c) (B := 520) fl [] sig (by simp) (elemsLe_nil _) (Nat.le_refl _)
    (by decide) hh
  refine verok_bind (verok_of_evalok e1.1 e1.2) (fun s1 hs1 => ?_)
  have f1 : s1.length ≤ 1000 ∧ ElemsLe 520 s1 := by
    have := e1.1; rw [hs1] at this; exact this
  dsimp only
  have e2 := evalScript_ok (c := c) (B := 520) fl s1 spk f1.1 f1.2 (Nat.le_refl _) (by decide) hh
  refine verok_bind (verok_of_evalok e2.1 e2.2) (fun s2 hs2 => ?_)
  refine verok_bind (checkTopTrue_verok s2) (fun _ _ => ?_)
  by_cases hp : fl.p2sh = true ∧ isP2sh spk = true
  · rw [if_pos hp, if_pos hp.1]
    have hne : s1 ≠ [] := by
      intro h; subst h; exact p2sh_needs_arg c fl spk hp.2 s2 hs2
    exact verok_bind (verifyP2sh_verok hh sig s1 f1.1 f1.2 hne) (fun s3 _ => verifyCleanStack_verok s3)
  · rw [if_neg hp]
    exact verok_bind (x := (.ok s2 : M (List Bytes))) trivial (fun s3 _ => verifyCleanStack_verok s3)

end BtcVerif.Model.ScriptEval
