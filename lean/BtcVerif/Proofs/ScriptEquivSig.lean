/-
  C06 — simulation lemmas for the signature-checking opcodes.
-/
import BtcVerif.Proofs.ScriptFad
import BtcVerif.Proofs.ScriptEquivStep

namespace BtcVerif.Model.ScriptEval
open BtcVerif BtcVerif.Spec BtcVerif.Spec.Script BtcVerif.Model.Script

/-- the signature check does not depend on a leading OP_CODESEPARATOR of the script code (the
    legacy signature hash removes every OP_CODESEPARATOR before hashing: C03) -/
def CodesepInsensitive (env : Env) : Prop :=
  ∀ body pk sc ht, env.sigCheck body pk ((0xab : UInt8) :: sc) ht = env.sigCheck body pk sc ht

/-- `RawSignatureHash` returns a digest for every script code of at most 10 000 bytes that tokenises
    and every hash type byte (it can only raise
    CScriptInvalidError from its `FindAndDelete`) — true of the real one for a transaction in wire
    range and an input index that is non-negative or wraps around `vin` and `vout` (`IdxOK`,
    Props/C06Concrete.lean `sigHashOK_real`) -/
def SigHashOK (c : Ctx) : Prop :=
  ∀ script ht, script.length ≤ MAX_SCRIPT_SIZE → ht < 256 → (rawIter script).2 = none →
    ∃ d, c.sigHash script ht = .ok d

/-- like `Sim`, for arms that call `FindAndDelete`: the model may stop with CScriptInvalidError
    where the reference goes on — only when the script has a malformed push further on -/
def SimT (tailErr : Prop) (code : Bytes) (st : St) (m : M St) (r : Option Ref.State) : Prop :=
  match m with
  | .ok st' => r = some (toRef st' code) ∧ st'.pbegin = st.pbegin ∧ st'.nOpCount ≤ MAX_OPS_PER_SCRIPT
  | .error (.invalid _) => r = none ∨ tailErr
  | .error _ => r = none

@[simp] theorem simT_namedErr (t : Prop) (code : Bytes) (st st' : St) (sop : Nat) (r : Option Ref.State) :
    SimT t code st (.error (namedErr sop st')) r ↔ r = none := by
  unfold namedErr; cases opcodeName? sop <;> simp [SimT]

/-- `_CheckSig` against `CheckECDSASignature`, on corresponding subscripts -/
theorem checkSig_sim (c : Ctx) (cap : Captured) (sig pk script' code' : Bytes) (hsh : SigHashOK c)
    (hcs : CodesepInsensitive c.env) (hrel : script' = code' ∨ script' = (0xab : UInt8) :: code')
    (hparse : (rawIter script').2 = none) (hlen : script'.length ≤ MAX_SCRIPT_SIZE) :
    checkSig c cap sig pk script' = .ok (Ref.checkSig c.env sig pk code') := by
  unfold checkSig Ref.checkSig
  have hsc : ∀ body ht, c.env.sigCheck body pk script' ht = c.env.sigCheck body pk code' ht := by
    intro body ht
    rcases hrel with rfl | rfl
    · rfl
    · exact hcs body pk code' ht
  cases sig with
  | nil => simp
  | cons x r =>
    have hl : (x :: r).getLast? = some ((x :: r).getLast (by simp)) := List.getLast?_eq_some_getLast (by simp)
    simp only [List.length_cons, Nat.add_one_ne_zero, if_false, hl]
    obtain ⟨d, hd⟩ := hsh script' ((x :: r).getLast (by simp)).toNat hlen (UInt8.toNat_lt _) hparse
    rw [← hsc]
    simp only [hd, Ctx.env]

/-- the two model subscripts that correspond to the reference's `scriptCode` -/
theorem subscript_rel (script : Bytes) (pb : Nat) (code b : Bytes) (hb : PushPat b)
    (hcode : CodeRel script pb code) :
    Ref.findAndDelete (script.drop pb) b = Ref.findAndDelete code b ∨
    Ref.findAndDelete (script.drop pb) b = (0xab : UInt8) :: Ref.findAndDelete code b := by
  rcases hcode with ⟨rfl, rfl⟩ | h
  · left; simp
  · right
    rw [h]
    simp only [Ref.findAndDelete, hb.ne_nil, if_false]
    exact fadLoop_codesep hb code

theorem findAndDelete_parses (script b : Bytes) (hb : PushPat b) (h : (rawIter script).2 = none) :
    (rawIter (Ref.findAndDelete script b)).2 = none := by
  simp only [Ref.findAndDelete, hb.ne_nil, if_false]
  exact fadLoop_parses b hb 0 script h 0

section
variable (c : Ctx) (fl : Flags) (script pc code : Bytes) (fExec : Bool) (st : St)

theorem arm_checksig (sop : Nat) (hs : sop = 0xac ∨ sop = 0xad) (hsh : SigHashOK c)
    (hcs : CodesepInsensitive c.env) (hel : ∀ x ∈ st.stack, x.length < 2 ^ 32)
    (hcode : CodeRel script st.pbegin code) (hnop : st.nOpCount ≤ MAX_OPS_PER_SCRIPT)
    (hsl : script.length ≤ MAX_SCRIPT_SIZE) :
    SimT ((rawIter (script.drop st.pbegin)).2.isSome) code st (opCheckSig c script sop st)
      (Ref.execOp c.env fl sop pc fExec (toRef st code)) := by
  obtain ⟨s, al, vf, pb, n⟩ := st
  dsimp only at hel hcode hnop ⊢
  rcases s with _ | ⟨a, _ | ⟨b, rest⟩⟩
  · rcases hs with rfl | rfl <;> simp [opCheckSig, Ref.execOp, toRef, checkArgs, bind, Except.bind]
  · rcases hs with rfl | rfl <;> simp [opCheckSig, Ref.execOp, toRef, checkArgs, bind, Except.bind]
  · have hbl : b.length < 2 ^ 32 := hel b (by simp)
    have hpat := pushEnc_pat b hbl
    have henc := encodeOpPushdata_eq b hbl
    have hfad := findAndDelete_eq (St.cap ⟨a :: b :: rest, al, vf, pb, n⟩) (script.drop pb) (Ref.pushEnc b) hpat
    cases htl : (rawIter (script.drop pb)).2 with
    | some e =>
      simp only [htl, Option.isSome_some, if_true] at hfad
      rcases hs with rfl | rfl <;>
        simp [opCheckSig, henc, hfad, checkArgs, pyIdx, bind, Except.bind, SimT]
    | none =>
      simp only [htl, Option.isSome_none, Bool.false_eq_true, if_false] at hfad
      have hrel := subscript_rel script pb code (Ref.pushEnc b) hpat hcode
      have hparse := findAndDelete_parses (script.drop pb) (Ref.pushEnc b) hpat htl
      have hck := checkSig_sim c (St.cap ⟨a :: b :: rest, al, vf, pb, n⟩) b a
        (Ref.findAndDelete (script.drop pb) (Ref.pushEnc b)) (Ref.findAndDelete code (Ref.pushEnc b)) hsh hcs
        hrel hparse (by have := ref_findAndDelete_length_le (script.drop pb) (Ref.pushEnc b)
                        simp only [List.length_drop] at this; omega)
      cases hres : Ref.checkSig c.env b a (Ref.findAndDelete code (Ref.pushEnc b)) <;>
        rcases hs with rfl | rfl <;>
        simp [opCheckSig, henc, hfad, hck, hres, Ref.execOp, toRef, checkArgs, pyIdx, bind, Except.bind, SimT,
          Ref.boolVch, Ref.vchTrue, Ref.vchFalse, hnop] <;>
        (try (unfold namedErr; split <;> trivial))

end

end BtcVerif.Model.ScriptEval
