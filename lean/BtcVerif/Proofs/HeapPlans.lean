/-
  C09 helper lemmas, part 12: the plans built from plain values (`planTxIn`, `planIns`, `planWit`,
  `planTx`, …): they fit, and the allocated tree decodes to the value with the predicted flags.
-/
import BtcVerif.Proofs.HeapOps3

namespace BtcVerif.Model.Heap
open BtcVerif BtcVerif.Spec.ValueSem

/-- the class condition used for every allocation -/
def KindP (m : Bool) (sc : Scalars) : Prop := sc.alwaysImm = true → m = false

/-- all side conditions of `allocPlan_spec` and of the counting bound at once -/
structure PlanGood (h0 : Heap) (f : Nat) (p : Plan) : Prop where
  fits : Fits h0 f p
  all : PlanAll KindP f p
  imm : ImmPlan h0 f p
  refs : RefsImm h0 f p

/-- what we want to know about the allocated tree -/
def TreeIs (m : Bool) (v : Val) (t : ATree) : Prop := decode t = some v ∧ flagsOK m t

theorem chain_map_decode {α : Type} {R : Plan → Nat → Nat → ATree → Prop} {g : α → Plan} {c : α → Val}
    {m : Bool} (hR : ∀ x lo hi t, R (g x) lo hi t → TreeIs m (c x) t) :
    ∀ {l : List α} {lo hi : Nat} {ts : List ATree}, Chain R (l.map g) lo hi ts →
      mapO decode ts = some (l.map c) ∧ ∀ t ∈ ts, flagsOK m t
  | [], _, _, [], _ => ⟨rfl, by simp⟩
  | [], _, _, _ :: _, h => by simp [Chain] at h
  | _ :: _, _, _, [], h => by simp [Chain] at h
  | x :: l, lo, hi, t :: ts, h => by
    simp only [List.map_cons, Chain] at h
    obtain ⟨mid, h0, hc⟩ := h
    obtain ⟨h1, h2⟩ := hR x lo mid t h0
    obtain ⟨h3, h4⟩ := chain_map_decode hR hc
    refine ⟨by simp [mapO, h1, h3], ?_⟩
    intro t' ht'
    simp only [List.mem_cons] at ht'
    rcases ht' with rfl | ht'
    · exact h2
    · exact h4 t' ht'

/-! ### outpoint, txin, txout -/

theorem good_planOutPoint (h0 : Heap) (m : Bool) (o : OutPoint) (f : Nat) :
    PlanGood h0 (f + 1) (planOutPoint m o) := by
  refine ⟨?_, ?_, ?_, ?_⟩ <;> simp [planOutPoint, Fits, PlanAll, ImmPlan, RefsImm, KindP, Scalars.alwaysImm]

theorem tree_planOutPoint {h0 : Heap} {m : Bool} {o : OutPoint} {f lo hi : Nat} {t : ATree}
    (h : PT h0 (f + 1) (planOutPoint m o) lo hi t) : TreeIs m (.outpoint o) t := by
  cases t with | node a m' sc kids =>
  simp only [planOutPoint, PT] at h
  obtain ⟨_, _, rfl, rfl, hc⟩ := h
  cases kids with
  | nil => exact ⟨by simp [decode_node, mapO, assemble], rfl, trivial⟩
  | cons k ks => simp [Chain] at hc

theorem good_planTxIn (h0 : Heap) (m : Bool) (i : TxIn) (f : Nat) :
    PlanGood h0 (f + 2) (planTxIn m i) := by
  refine ⟨?_, ?_, ?_, ?_⟩ <;>
    simp [planTxIn, planOutPoint, Fits, PlanAll, ImmPlan, RefsImm, KindP, Scalars.alwaysImm, rootImm]

theorem tree_planTxIn {h0 : Heap} {m : Bool} {i : TxIn} {f lo hi : Nat} {t : ATree}
    (h : PT h0 (f + 2) (planTxIn m i) lo hi t) : TreeIs m (.txin i) t := by
  cases t with | node a m' sc kids =>
  simp only [planTxIn, PT] at h
  obtain ⟨_, _, rfl, rfl, hc⟩ := h
  match kids, hc with
  | [k], hc =>
    simp only [Chain] at hc
    obtain ⟨mid, hk, _⟩ := hc
    obtain ⟨hd, hf⟩ := tree_planOutPoint hk
    refine ⟨by simp [decode_node, mapO, hd, assemble], rfl, ?_⟩
    have hsc : k.sc.alwaysImm = false := by
      cases k with | node ak mk sck kk =>
        simp only [planOutPoint, PT] at hk
        obtain ⟨_, _, _, rfl, _⟩ := hk
        rfl
    simp [flagsOKL, hsc, hf]

theorem good_planTxOut (h0 : Heap) (m : Bool) (o : TxOut) (f : Nat) :
    PlanGood h0 (f + 1) (planTxOut m o) := by
  refine ⟨?_, ?_, ?_, ?_⟩ <;> simp [planTxOut, Fits, PlanAll, ImmPlan, RefsImm, KindP, Scalars.alwaysImm]

theorem tree_planTxOut {h0 : Heap} {m : Bool} {o : TxOut} {f lo hi : Nat} {t : ATree}
    (h : PT h0 (f + 1) (planTxOut m o) lo hi t) : TreeIs m (.txout o) t := by
  cases t with | node a m' sc kids =>
  simp only [planTxOut, PT] at h
  obtain ⟨_, _, rfl, rfl, hc⟩ := h
  cases kids with
  | nil => exact ⟨by simp [decode_node, mapO, assemble], rfl, trivial⟩
  | cons k ks => simp [Chain] at hc

/-- the class of the root of an allocated `node` plan -/
theorem PT.root_sc {h0 : Heap} {f lo hi : Nat} {m : Bool} {sc : Scalars} {ps : List Plan} {t : ATree}
    (h : PT h0 f (.node m sc ps) lo hi t) : t.sc = sc ∧ t.isMut = m := by
  cases f with
  | zero => simp [PT] at h
  | succ f =>
    cases t with | node a m' sc' kids =>
      simp only [PT] at h
      exact ⟨h.2.2.2.1, h.2.2.1⟩

/-! ### vin, vout -/

theorem good_planIns (h0 : Heap) (m : Bool) (l : List TxIn) (f : Nat) :
    PlanGood h0 (f + 3) (planIns m l) := by
  refine ⟨?_, ?_, ?_, ?_⟩
  · simp only [planIns, Fits, List.mem_map]
    rintro k ⟨i, _, rfl⟩; exact (good_planTxIn h0 m i f).fits
  · simp only [planIns, PlanAll, List.mem_map]
    refine ⟨by simp [KindP, Scalars.alwaysImm], ?_⟩
    rintro k ⟨i, _, rfl⟩; exact (good_planTxIn h0 m i f).all
  · simp only [planIns, ImmPlan, List.mem_map]
    refine ⟨?_, ?_⟩
    · rintro hm k ⟨i, _, rfl⟩; exact hm
    · rintro k ⟨i, _, rfl⟩; exact (good_planTxIn h0 m i f).imm
  · simp only [planIns, RefsImm, List.mem_map]
    rintro k ⟨i, _, rfl⟩; exact (good_planTxIn h0 m i f).refs

theorem tree_planIns {h0 : Heap} {m : Bool} {l : List TxIn} {f lo hi : Nat} {t : ATree}
    (h : PT h0 (f + 3) (planIns m l) lo hi t) : TreeIs m (.ins l) t := by
  cases t with | node a m' sc kids =>
  simp only [planIns, PT] at h
  obtain ⟨_, _, hm', hsc', hc⟩ := h
  subst m'; subst sc
  obtain ⟨hd, hf⟩ := chain_map_decode (c := Val.txin) (m := m) (fun x lo hi t ht => tree_planTxIn ht) hc
  refine ⟨by simp [decode_node, hd, assemble, mapO_asTxIn_map], rfl, ?_⟩
  apply flagsOKL_iff.mpr
  intro k hk
  have hsc : k.sc.alwaysImm = false := by
    obtain ⟨i, hi, rfl⟩ := List.getElem_of_mem hk
    have hlen := Chain.length_eq hc
    have hi' : i < (l.map (planTxIn m)).length := by omega
    obtain ⟨lo', hi'', hpt⟩ := Chain.get hc i _ _ (List.getElem?_eq_getElem hi') (List.getElem?_eq_getElem hi)
    simp only [List.getElem_map, planTxIn] at hpt
    rw [(PT.root_sc hpt).1]; rfl
  simpa [hsc] using hf k hk

theorem good_planOuts (h0 : Heap) (m : Bool) (l : List TxOut) (f : Nat) :
    PlanGood h0 (f + 2) (planOuts m l) := by
  refine ⟨?_, ?_, ?_, ?_⟩
  · simp only [planOuts, Fits, List.mem_map]
    rintro k ⟨i, _, rfl⟩; exact (good_planTxOut h0 m i f).fits
  · simp only [planOuts, PlanAll, List.mem_map]
    refine ⟨by simp [KindP, Scalars.alwaysImm], ?_⟩
    rintro k ⟨i, _, rfl⟩; exact (good_planTxOut h0 m i f).all
  · simp only [planOuts, ImmPlan, List.mem_map]
    refine ⟨?_, ?_⟩
    · rintro hm k ⟨i, _, rfl⟩; exact hm
    · rintro k ⟨i, _, rfl⟩; exact (good_planTxOut h0 m i f).imm
  · simp only [planOuts, RefsImm, List.mem_map]
    rintro k ⟨i, _, rfl⟩; exact (good_planTxOut h0 m i f).refs

theorem tree_planOuts {h0 : Heap} {m : Bool} {l : List TxOut} {f lo hi : Nat} {t : ATree}
    (h : PT h0 (f + 2) (planOuts m l) lo hi t) : TreeIs m (.outs l) t := by
  cases t with | node a m' sc kids =>
  simp only [planOuts, PT] at h
  obtain ⟨_, _, hm', hsc', hc⟩ := h
  subst m'; subst sc
  obtain ⟨hd, hf⟩ := chain_map_decode (c := Val.txout) (m := m) (fun x lo hi t ht => tree_planTxOut ht) hc
  refine ⟨by simp [decode_node, hd, assemble, mapO_asTxOut_map], rfl, ?_⟩
  apply flagsOKL_iff.mpr
  intro k hk
  have hsc : k.sc.alwaysImm = false := by
    obtain ⟨i, hi, rfl⟩ := List.getElem_of_mem hk
    have hlen := Chain.length_eq hc
    have hi' : i < (l.map (planTxOut m)).length := by omega
    obtain ⟨lo', hi'', hpt⟩ := Chain.get hc i _ _ (List.getElem?_eq_getElem hi') (List.getElem?_eq_getElem hi)
    simp only [List.getElem_map, planTxOut] at hpt
    rw [(PT.root_sc hpt).1]; rfl
  simpa [hsc] using hf k hk

/-! ### witness -/

theorem good_planWit (h0 : Heap) (w : List WitStack) (f : Nat) : PlanGood h0 (f + 3) (planWit w) := by
  refine ⟨?_, ?_, ?_, ?_⟩ <;>
    simp [planWit, Fits, PlanAll, ImmPlan, RefsImm, KindP, rootImm]

theorem tree_planWit {h0 : Heap} {w : List WitStack} {f lo hi : Nat} {t : ATree}
    (h : PT h0 (f + 3) (planWit w) lo hi t) : TreeIs false (.wit w) t := by
  cases t with | node a m' sc kids =>
  simp only [planWit, PT] at h
  obtain ⟨_, _, rfl, rfl, hc⟩ := h
  match kids, hc with
  | [k], hc =>
    simp only [Chain] at hc
    obtain ⟨mid, hk, _⟩ := hc
    cases k with | node ak mk sck kk =>
    simp only [PT] at hk
    obtain ⟨_, _, rfl, rfl, hck⟩ := hk
    have hleaf : ∀ (st : WitStack) (lo hi : Nat) (t : ATree),
        PT h0 (f + 1) ((fun st => Plan.node false (.inwit st) []) st) lo hi t → TreeIs false (.inwit st) t := by
      intro st lo hi t ht
      cases t with | node a m' sc kids =>
      simp only [PT] at ht
      obtain ⟨_, _, rfl, rfl, hc'⟩ := ht
      cases kids with
      | nil => exact ⟨by simp [decode_node, mapO, assemble], rfl, trivial⟩
      | cons k ks => simp [Chain] at hc'
    obtain ⟨hd, hf⟩ := chain_map_decode (c := Val.inwit) (m := false) hleaf hck
    have hdk : decode (.node ak false (.seq .stacks) kk) = some (.stacks w) := by
      simp [decode_node, hd, assemble, mapO_asStack_map]
    refine ⟨by simp [decode_node, mapO, hdk, assemble], rfl, ?_⟩
    simp only [flagsOKL, ATree.sc, Bool.false_and, and_true]
    refine ⟨rfl, flagsOKL_iff.mpr ?_⟩
    intro k hk
    simpa using hf k hk

/-- the default argument `CTxWitness()` as a plan -/
theorem good_refDefaultWit {h0 : Heap} (hd : DefaultsOK h0) (f : Nat) :
    PlanGood h0 (f + 2) (.ref defaultWit) ∧
    ∀ lo hi t, PT h0 (f + 2) (.ref defaultWit) lo hi t → TreeIs false (.wit []) t := by
  obtain ⟨o0, o1, h0', a1, a2, a3, h1', b1, b2, b3⟩ := hd
  have hu0 : unfoldA (f + 1) h0 emptyTuple = some (.node emptyTuple false (.seq .stacks) []) := by
    have := unfoldA_mk (f := f) h0' (kids := []) (by rw [a3]; rfl)
    rw [a1, a2] at this; exact this
  have hu1 : unfoldA (f + 2) h0 defaultWit =
      some (.node defaultWit false .wit [.node emptyTuple false (.seq .stacks) []]) := by
    have := unfoldA_mk (f := f + 1) h1' (kids := [.node emptyTuple false (.seq .stacks) []])
      (by rw [b3]; simp [mapO, hu0])
    rw [b1, b2] at this; exact this
  refine ⟨⟨⟨_, hu1⟩, trivial, trivial, ⟨o1, h1', b1⟩⟩, ?_⟩
  intro lo hi t ht
  simp only [PT] at ht
  rw [hu1] at ht
  obtain ⟨_, ht⟩ := ht
  cases ht
  refine ⟨by simp [decode_node, mapO, assemble], rfl, ?_⟩
  simp [flagsOKL, flagsOK, ATree.sc, Scalars.alwaysImm]

/-! ### transactions -/

theorem good_planTx {h0 : Heap} (m : Bool) (v : Tx) {wp : Plan} {f : Nat} (hw : PlanGood h0 (f + 3) wp)
    (hwi : rootImm h0 wp) : PlanGood h0 (f + 4) (planTx m v wp) := by
  have h1 := good_planIns h0 m v.vin f
  have h2 := good_planOuts h0 m v.vout (f + 1)
  refine ⟨?_, ?_, ?_, ?_⟩
  · simp only [planTx, Fits, List.mem_cons, List.mem_nil_iff, or_false]
    rintro k (rfl | rfl | rfl)
    · exact h1.fits
    · exact h2.fits
    · exact hw.fits
  · simp only [planTx, PlanAll, List.mem_cons, List.mem_nil_iff, or_false]
    refine ⟨by simp [KindP, Scalars.alwaysImm], ?_⟩
    rintro k (rfl | rfl | rfl)
    · exact h1.all
    · exact h2.all
    · exact hw.all
  · simp only [planTx, ImmPlan, List.mem_cons, List.mem_nil_iff, or_false]
    refine ⟨?_, ?_⟩
    · rintro hm k (rfl | rfl | rfl)
      · exact hm
      · exact hm
      · exact hwi
    · rintro k (rfl | rfl | rfl)
      · exact h1.imm
      · exact h2.imm
      · exact hw.imm
  · simp only [planTx, RefsImm, List.mem_cons, List.mem_nil_iff, or_false]
    rintro k (rfl | rfl | rfl)
    · exact h1.refs
    · exact h2.refs
    · exact hw.refs

theorem tree_planTx {h0 : Heap} {m : Bool} {v : Tx} {wp : Plan} {w : List WitStack} {f lo hi : Nat} {t : ATree}
    (hw : ∀ lo hi t, PT h0 (f + 3) wp lo hi t → TreeIs false (.wit w) t)
    (h : PT h0 (f + 4) (planTx m v wp) lo hi t) :
    TreeIs m (.tx { v with wit := w }) t := by
  cases t with | node a m' sc kids =>
  simp only [planTx, PT] at h
  obtain ⟨_, _, rfl, rfl, hc⟩ := h
  match kids, hc with
  | [k1, k2, k3], hc =>
    simp only [Chain] at hc
    obtain ⟨m1, hk1, m2, hk2, m3, hk3, _⟩ := hc
    obtain ⟨d1, f1⟩ := tree_planIns hk1
    obtain ⟨d2, f2⟩ := tree_planOuts hk2
    obtain ⟨d3, f3⟩ := hw _ _ _ hk3
    refine ⟨by simp [decode_node, mapO, d1, d2, d3, assemble], rfl, ?_⟩
    have s1 : k1.sc.alwaysImm = false := by rw [(PT.root_sc hk1).1]; rfl
    have s2 : k2.sc.alwaysImm = false := by rw [(PT.root_sc hk2).1]; rfl
    have s3 : k3.sc.alwaysImm = true := by
      have := (decode_alwaysImm d3).1
      rw [← this]; rfl
    simp [flagsOKL, s1, s2, s3, f1, f2, f3]

end BtcVerif.Model.Heap
