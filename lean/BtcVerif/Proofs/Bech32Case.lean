/-
  C11 helper lemmas, part 8: validity depends on a string only through its lowercase form (given the
  character-range and single-case rules); the all-upper-case rendering of a valid address is valid.
-/
import BtcVerif.Proofs.Bech32Addr

namespace BtcVerif.Bech32
open BtcVerif.Model.Bech32
open BtcVerif.Spec.Bech32 (lowerStr Decodes)

theorem char_eq_of_toNat {a b : Char} (h : a.toNat = b.toNat) : a = b := by
  apply Char.ext
  apply UInt32.toNat_inj.1
  exact h

theorem toLower_toNat (c : Char) : c.toLower.toNat = if c.isUpper then c.toNat + 32 else c.toNat := by
  unfold Char.toLower
  split
  · rename_i h
    have hu : c.isUpper = true := by unfold Char.isUpper; exact decide_eq_true h
    have h2 := (cond_upper c).1 h
    rw [hu, if_pos rfl]
    simp only [Char.toNat] at h2 ⊢
    rw [UInt32.toNat_add]
    have hk : ('a'.val - 'A'.val).toNat = 32 := by decide
    rw [hk]
    omega
  · rename_i h
    have hu : c.isUpper = false := by unfold Char.isUpper; exact decide_eq_false h
    rw [hu]; simp

theorem toUpper_toNat (c : Char) : c.toUpper.toNat = if c.isLower then c.toNat - 32 else c.toNat := by
  unfold Char.toUpper
  split
  · rename_i h
    have h2 := (cond_lower c).1 h
    have hu : c.isLower = true := (isLower_iff c).2 h2
    rw [hu, if_pos rfl]
    simp only [Char.toNat] at h2 ⊢
    rw [UInt32.toNat_add]
    have hk : ('A'.val - 'a'.val).toNat = 4294967264 := by decide
    rw [hk]
    omega
  · rename_i h
    have hu : c.isLower = false := by
      rw [← Bool.not_eq_true, isLower_iff, ← cond_lower]; exact h
    rw [hu]; simp

theorem toUpper_facts (c : Char) (hr : 33 ≤ c.toNat ∧ c.toNat ≤ 126) :
    (33 ≤ c.toUpper.toNat ∧ c.toUpper.toNat ≤ 126) ∧ c.toUpper.isLower = false ∧
      c.toUpper.toLower = c.toLower := by
  have hU := toUpper_toNat c
  by_cases hl : c.isLower = true
  · have hl' := (isLower_iff c).1 hl
    rw [hl, if_pos rfl] at hU
    have hup : c.toUpper.isUpper = true := (isUpper_iff _).2 (by omega)
    have hnl : c.toUpper.isLower = false := by
      rw [← Bool.not_eq_true, isLower_iff]; omega
    have hcu : c.isUpper = false := by
      rw [← Bool.not_eq_true, isUpper_iff]; omega
    refine ⟨by omega, hnl, ?_⟩
    apply char_eq_of_toNat
    rw [toLower_toNat, toLower_toNat, hup, hcu, if_pos rfl]
    simp only [Bool.false_eq_true, if_false]
    omega
  · have hl' : c.isLower = false := by simpa using hl
    rw [hl'] at hU
    simp only [Bool.false_eq_true, if_false] at hU
    have : c.toUpper = c := char_eq_of_toNat hU
    rw [this]
    exact ⟨hr, hl', rfl⟩

/-- validity is a property of the lowercase form, for strings obeying the range and single-case rules -/
theorem Decodes_of_lower_eq (h s s' : List Char) (v : Nat) (p : List Nat) (hd : Decodes h s v p)
    (hr : ∀ c ∈ s', 33 ≤ c.toNat ∧ c.toNat ≤ 126)
    (hc : ¬ ((∃ c ∈ s', c.isLower = true) ∧ (∃ c ∈ s', c.isUpper = true)))
    (hlow : lowerStr s' = lowerStr s) : Decodes h s' v p := by
  obtain ⟨_, _, hl, rest⟩ := hd
  have hlen : s'.length = s.length := by
    have := congrArg List.length hlow
    simpa [lowerStr] using this
  refine ⟨hr, hc, by omega, ?_⟩
  rw [hlow]
  exact rest

theorem upper_decodes (h s : List Char) (v : Nat) (p : List Nat) (hd : Decodes h s v p) :
    Decodes h (upper s) v p := by
  have hr := hd.1
  apply Decodes_of_lower_eq h s (upper s) v p hd
  · intro c hc
    obtain ⟨c0, hc0, rfl⟩ := List.mem_map.1 hc
    exact (toUpper_facts c0 (hr c0 hc0)).1
  · rintro ⟨⟨c, hc, hl⟩, _⟩
    obtain ⟨c0, hc0, rfl⟩ := List.mem_map.1 hc
    rw [(toUpper_facts c0 (hr c0 hc0)).2.1] at hl
    exact absurd hl (by simp)
  · unfold lowerStr upper
    rw [List.map_map]
    apply List.map_congr_left
    intro c hc
    exact (toUpper_facts c (hr c hc)).2.2

end BtcVerif.Bech32
