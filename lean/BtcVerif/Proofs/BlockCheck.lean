/-
  C16 — helper lemmas: each loop of CheckTransaction / CheckBlock against the rule it implements.
-/
import BtcVerif.Model.BlockCheck
import BtcVerif.Spec.BlockCheck
import BtcVerif.Proofs.Merkle
import BtcVerif.Proofs.Compact
import BtcVerif.Props.C17

namespace BtcVerif.BlockCheckProofs
open BtcVerif BtcVerif.Crypto BtcVerif.Model.BlockCheck BtcVerif.Model.Merkle BtcVerif.Model.Wire
open BtcVerif.SerSpec BtcVerif.Spec
open BtcVerif.Spec.Merkle (TxRange BlockRange)

/-! ### A. sigop counting: raw_iter-based count = Core's GetOp-based count -/

open Model.Script in
theorem rawStep_getOp (idx : Nat) (s : Bytes) :
    match rawStep idx s with
    | none => s = []
    | some (.err _) => Spec.BlockCheck.getOp s = none
    | some (.op o rest) => Spec.BlockCheck.getOp s = some (o.opcode, rest) := by
  cases s with
  | nil => simp [rawStep]
  | cons b t =>
    simp only [rawStep, Spec.BlockCheck.getOp]
    by_cases h1 : b.toNat > 0x4e
    · have h2 : ¬ b.toNat < 0x4c := by omega
      have h3 : ¬ b.toNat = 0x4c := by omega
      have h4 : ¬ b.toNat = 0x4d := by omega
      have h5 : ¬ b.toNat = 0x4e := by omega
      simp [h1, h2, h3, h4, h5]
    · simp only [h1, if_false]
      by_cases h2 : b.toNat < 0x4c
      · simp only [h2, if_true]
        by_cases h6 : t.length < b.toNat
        · have : (List.take b.toNat t).length < b.toNat := by simp [List.length_take]; omega
          simp [this, h6]
        · have : ¬ (List.take b.toNat t).length < b.toNat := by simp [List.length_take]; omega
          simp [this, h6]
      · simp only [h2, if_false]
        by_cases h3 : b.toNat = 0x4c
        · simp only [h3, if_true]
          cases t with
          | nil => simp
          | cons l r =>
            simp only
            by_cases h6 : r.length < l.toNat
            · have : (List.take l.toNat r).length < l.toNat := by simp [List.length_take]; omega
              simp [this, h6]
            · have : ¬ (List.take l.toNat r).length < l.toNat := by simp [List.length_take]; omega
              simp [this, h6]
        · simp only [h3, if_false]
          by_cases h4 : b.toNat = 0x4d
          · simp only [h4, if_true]
            match t with
            | [] => simp
            | [_] => simp
            | l0 :: l1 :: r =>
              simp only
              have e : l0.toNat + l1.toNat * 256 = l0.toNat + 256 * l1.toNat := by omega
              rw [e]
              generalize l0.toNat + 256 * l1.toNat = n
              by_cases h6 : r.length < n
              · have : (List.take n r).length < n := by simp [List.length_take]; omega
                simp [this, h6]
              · have : ¬ (List.take n r).length < n := by simp [List.length_take]; omega
                simp [this, h6]
          · have h5 : b.toNat = 0x4e := by omega
            simp only [h4, if_false, h5, if_true]
            match t with
            | [] => simp
            | [_] => simp
            | [_, _] => simp
            | [_, _, _] => simp
            | l0 :: l1 :: l2 :: l3 :: r =>
              simp only
              have e : l0.toNat + l1.toNat * 256 + l2.toNat * 65536 + l3.toNat * 16777216
                  = l0.toNat + 256 * l1.toNat + 65536 * l2.toNat + 16777216 * l3.toNat := by omega
              rw [e]
              generalize l0.toNat + 256 * l1.toNat + 65536 * l2.toNat + 16777216 * l3.toNat = n
              by_cases h6 : r.length < n
              · have : (List.take n r).length < n := by simp [List.length_take]; omega
                simp [this, h6]
              · have : ¬ (List.take n r).length < n := by simp [List.length_take]; omega
                simp [this, h6]

def opWeight (o : Model.Script.RawOp) : Nat :=
  if o.opcode = 0xac ∨ o.opcode = 0xad then 1
  else if o.opcode = 0xae ∨ o.opcode = 0xaf then 20 else 0

theorem sigOps_unfold (s : Bytes) :
    Spec.BlockCheck.sigOps s =
      match Spec.BlockCheck.getOp s with
      | none => 0
      | some (op, rest) => Spec.BlockCheck.opSigOps op + Spec.BlockCheck.sigOps rest := by
  rw [Spec.BlockCheck.sigOps]
  split <;> rename_i h <;> simp [h]

theorem rawIterFrom_unfold (idx : Nat) (s : Bytes) :
    Model.Script.rawIterFrom idx s =
      match Model.Script.rawStep idx s with
      | none => ([], none)
      | some (.err e) => ([], some e)
      | some (.op o rest) =>
        (o :: (Model.Script.rawIterFrom (idx + (s.length - rest.length)) rest).1,
          (Model.Script.rawIterFrom (idx + (s.length - rest.length)) rest).2) := by
  rw [Model.Script.rawIterFrom]
  split <;> rename_i h <;> simp [h]

theorem rawIter_sigOps : ∀ (n : Nat) (s : Bytes) (idx : Nat), s.length = n →
    ((Model.Script.rawIterFrom idx s).1.map opWeight).sum = Spec.BlockCheck.sigOps s := by
  intro n
  induction n using Nat.strongRecOn with
  | _ n ih =>
    intro s idx hn
    have hstep := rawStep_getOp idx s
    rw [rawIterFrom_unfold, sigOps_unfold]
    cases h : Model.Script.rawStep idx s with
    | none =>
      rw [h] at hstep
      simp only at hstep
      subst hstep
      simp [Spec.BlockCheck.getOp]
    | some st =>
      cases st with
      | err e =>
        rw [h] at hstep
        simp only at hstep
        simp [hstep]
      | op o rest =>
        rw [h] at hstep
        simp only at hstep
        have hlt := Model.Script.rawStep_rest_lt h
        have := ih rest.length (by omega) rest (idx + (s.length - rest.length)) rfl
        simp only [hstep, List.map_cons, List.sum_cons, this]
        simp [opWeight, Spec.BlockCheck.opSigOps]

/-- `GetSigOpCount(False)` = Core's inaccurate count, for every byte string -/
theorem sigOpCount_eq (s : Bytes) : sigOpCount s = Spec.BlockCheck.sigOps s := by
  have := rawIter_sigOps s.length s 0 rfl
  unfold sigOpCount Model.Script.rawIter
  exact this

theorem legacySigOpCount_eq (t : Tx) : legacySigOpCount t = Spec.BlockCheck.txSigOps t := by
  simp [legacySigOpCount, Spec.BlockCheck.txSigOps, sigOpCount_eq]

/-! ### B. CheckTransaction -/

/-- an outcome that is acceptance or a validation error (no other exception) -/
def IsVerdict (r : Res Unit) : Prop := r = .ok () ∨ r = .error .validation

theorem valueLoop_verdict (p : ChainParams) : ∀ (outs : List TxOut) (acc : Int),
    IsVerdict (valueLoop p outs acc) := by
  intro outs
  induction outs with
  | nil => intro acc; left; rfl
  | cons o rest ih =>
    intro acc
    unfold valueLoop
    split
    · right; rfl
    · split
      · right; rfl
      · split
        · right; rfl
        · exact ih _

def vals (outs : List TxOut) : List Int := outs.map (·.nValue)

theorem valueLoop_iff (p : ChainParams) : ∀ (outs : List TxOut) (acc : Int),
    valueLoop p outs acc = .ok () ↔
      (∀ o ∈ outs, Spec.BlockCheck.moneyRange p o.nValue) ∧
      (∀ k, 1 ≤ k → k ≤ outs.length → Spec.BlockCheck.moneyRange p (acc + (vals (outs.take k)).sum)) := by
  intro outs
  induction outs with
  | nil =>
    intro acc
    simp only [valueLoop, List.not_mem_nil, false_imp_iff, implies_true, List.length_nil, true_and, true_iff]
    intro k h1 h2; omega
  | cons o rest ih =>
    intro acc
    unfold valueLoop
    by_cases h1 : o.nValue < 0
    · simp only [h1, if_true, reject]
      constructor
      · intro h; cases h
      · intro ⟨h, _⟩
        have := h o (by simp)
        unfold Spec.BlockCheck.moneyRange at this; omega
    · by_cases h2 : o.nValue > (p.maxMoney : Int)
      · simp only [h1, if_false, h2, if_true, reject]
        constructor
        · intro h; cases h
        · intro ⟨h, _⟩
          have := h o (by simp)
          unfold Spec.BlockCheck.moneyRange at this; omega
      · by_cases h3 : moneyRange p (acc + o.nValue) = true
        · simp only [h1, if_false, h2, h3, Bool.not_true, Bool.false_eq_true]
          rw [ih]
          have h3' : Spec.BlockCheck.moneyRange p (acc + o.nValue) := by
            simpa [moneyRange, Spec.BlockCheck.moneyRange] using h3
          constructor
          · intro ⟨ha, hb⟩
            refine ⟨?_, ?_⟩
            · intro o' ho'
              simp only [List.mem_cons] at ho'
              rcases ho' with rfl | ho'
              · unfold Spec.BlockCheck.moneyRange; omega
              · exact ha o' ho'
            · intro k hk1 hk2
              cases k with
              | zero => omega
              | succ k' =>
                by_cases hk0 : k' = 0
                · subst hk0; simpa [vals] using h3'
                · have := hb k' (by omega) (by simpa using hk2)
                  simp only [List.take_succ_cons, vals, List.map_cons, List.sum_cons] at this ⊢
                  rw [← Int.add_assoc]; exact this
          · intro ⟨ha, hb⟩
            refine ⟨fun o' ho' => ha o' (by simp [ho']), ?_⟩
            intro k hk1 hk2
            have := hb (k + 1) (by omega) (by simpa using hk2)
            simp only [List.take_succ_cons, vals, List.map_cons, List.sum_cons] at this ⊢
            rw [Int.add_assoc]; exact this
        · have h3f : moneyRange p (acc + o.nValue) = false := by simpa using h3
          simp only [h1, if_false, h2, h3f, Bool.not_false, if_true, reject]
          constructor
          · intro h; cases h
          · intro ⟨_, hb⟩
            have := hb 1 (by omega) (by simp)
            simp only [List.take_succ_cons, List.take_zero, vals, List.map_cons, List.map_nil,
              List.sum_cons, List.sum_nil, Int.add_zero] at this
            have h3' : ¬ Spec.BlockCheck.moneyRange p (acc + o.nValue) := by
              simpa [moneyRange, Spec.BlockCheck.moneyRange] using h3f
            exact absurd this h3'

/-- byte key of an outpoint (what the `set` of COutPoint hashes and compares) vs the pair (hash, n) -/
theorem outPoint_inj (a b : OutPoint) (ha : Spec.Wire.WFOutPoint a) (hb : Spec.Wire.WFOutPoint b) :
    Spec.Wire.outPoint a = Spec.Wire.outPoint b ↔ (a.hash, a.n) = (b.hash, b.n) := by
  obtain ⟨ha1, ha2⟩ := ha
  obtain ⟨hb1, hb2⟩ := hb
  unfold Spec.Wire.outPoint
  constructor
  · intro h
    have := List.append_inj h (by rw [ha1, hb1])
    obtain ⟨h1, h2⟩ := this
    have h3 := congrArg leNat h2
    rw [leNat_leBytes, leNat_leBytes] at h3
    have : a.n = b.n := by
      rw [Nat.mod_eq_of_lt (by omega), Nat.mod_eq_of_lt (by omega)] at h3; exact h3
    simp [h1, this]
  · intro h
    simp only [Prod.mk.injEq] at h
    rw [h.1, h.2]

def hn (i : TxIn) : Bytes × Nat := (i.prevout.hash, i.prevout.n)
def kb (i : TxIn) : Bytes := Spec.Wire.outPoint i.prevout

theorem dupLoop_verdict : ∀ (ins : List TxIn) (seen : List Bytes),
    (∀ i ∈ ins, Spec.Wire.WFOutPoint i.prevout) → IsVerdict (dupLoop ins seen) := by
  intro ins
  induction ins with
  | nil => intro seen _; left; rfl
  | cons i rest ih =>
    intro seen hwf
    unfold dupLoop
    rw [serOutPoint_ok _ (hwf i (by simp))]
    simp only
    split
    · right; rfl
    · exact ih _ (fun j hj => hwf j (by simp [hj]))

theorem dupLoop_iff : ∀ (ins seenIns : List TxIn),
    (∀ i ∈ ins, Spec.Wire.WFOutPoint i.prevout) → (∀ i ∈ seenIns, Spec.Wire.WFOutPoint i.prevout) →
    (dupLoop ins (seenIns.map kb) = .ok () ↔
      (ins.map hn).Nodup ∧ ∀ i ∈ ins, hn i ∉ seenIns.map hn) := by
  intro ins
  induction ins with
  | nil => intro seenIns _ _; simp [dupLoop]
  | cons i rest ih =>
    intro seenIns hwf hwfs
    have hi := hwf i (by simp)
    unfold dupLoop
    rw [serOutPoint_ok _ hi]
    simp only
    have hmem : Spec.Wire.outPoint i.prevout ∈ seenIns.map kb ↔ hn i ∈ seenIns.map hn := by
      simp only [List.mem_map]
      constructor
      · rintro ⟨j, hj, he⟩
        exact ⟨j, hj, ((outPoint_inj _ _ (hwfs j hj) hi).mp he)⟩
      · rintro ⟨j, hj, he⟩
        exact ⟨j, hj, ((outPoint_inj _ _ (hwfs j hj) hi).mpr he)⟩
    by_cases hin : Spec.Wire.outPoint i.prevout ∈ seenIns.map kb
    · simp only [hin, if_true, reject]
      constructor
      · intro h; cases h
      · intro ⟨_, h⟩
        exact absurd (hmem.mp hin) (h i (by simp))
    · simp only [hin, if_false]
      have := ih (i :: seenIns) (fun j hj => hwf j (by simp [hj]))
        (fun j hj => by
          simp only [List.mem_cons] at hj
          rcases hj with rfl | hj
          · exact hi
          · exact hwfs j hj)
      simp only [List.map_cons] at this
      rw [show Spec.Wire.outPoint i.prevout = kb i from rfl, this]
      have hnot : hn i ∉ seenIns.map hn := fun h => hin (hmem.mpr h)
      simp only [List.map_cons, List.nodup_cons, List.mem_cons, List.mem_map, not_or, not_exists, not_and,
        forall_eq_or_imp]
      constructor
      · intro ⟨hnd, hall⟩
        refine ⟨⟨?_, hnd⟩, ?_, ?_⟩
        · intro j hj he
          exact (hall j hj).1 he
        · intro j hj he
          exact hnot (List.mem_map.mpr ⟨j, hj, he⟩)
        · intro j hj j' hj' he
          exact (hall j hj).2 j' hj' he
      · intro ⟨⟨h1, hnd⟩, _, h3⟩
        refine ⟨hnd, fun j hj => ⟨fun he => h1 j hj he, fun j' hj' he => h3 j hj j' hj' he⟩⟩

theorem nullLoop_verdict : ∀ ins : List TxIn, IsVerdict (nullLoop ins) := by
  intro ins
  induction ins with
  | nil => left; rfl
  | cons i rest ih =>
    unfold nullLoop
    split
    · right; rfl
    · exact ih

theorem nullLoop_iff : ∀ ins : List TxIn,
    nullLoop ins = .ok () ↔ ∀ i ∈ ins, i.prevout.isNull = false := by
  intro ins
  induction ins with
  | nil => simp [nullLoop]
  | cons i rest ih =>
    unfold nullLoop
    by_cases h : i.prevout.isNull = true
    · simp [h, reject]
    · simp only [h, Bool.false_eq_true, if_false]
      rw [ih]
      simp [h]

theorem verdict_decide {r : Res Unit} {P : Prop} [Decidable P] (hv : IsVerdict r)
    (hi : r = .ok () ↔ P) : r = if P then .ok () else .error .validation := by
  by_cases hp : P
  · simp [hp, hi.mpr hp]
  · rcases hv with h | h
    · exact absurd (hi.mp h) hp
    · simp [hp, h]

theorem decide_verdict {r : Res Unit} {P : Prop} [Decidable P]
    (h : r = if P then .ok () else .error .validation) : IsVerdict r ∧ (r = .ok () ↔ P) := by
  by_cases hp : P
  · simp [h, hp, IsVerdict]
  · simp [h, hp, IsVerdict]

/-- `CheckTransaction` decides exactly `Spec.ValidTx`, and rejects with a validation error only -/
theorem checkTx_decide (p : ChainParams) (t : Tx) (h : TxRange t) :
    checkTx p t = if Spec.BlockCheck.ValidTx p t then .ok () else .error .validation := by
  have hwf : ∀ i ∈ t.vin, Spec.Wire.WFOutPoint i.prevout := fun i hi => (h.2.2.2.2.1 i hi).1
  unfold checkTx
  by_cases hv : t.vin.length = 0
  · have : ¬ Spec.BlockCheck.ValidTx p t := fun hh => hh.1 (List.eq_nil_of_length_eq_zero hv)
    simp [hv, this, reject]
  by_cases ho : t.vout.length = 0
  · have : ¬ Spec.BlockCheck.ValidTx p t := fun hh => hh.2.1 (List.eq_nil_of_length_eq_zero ho)
    simp [hv, ho, this, reject]
  have hvin : t.vin ≠ [] := fun hh => hv (by simp [hh])
  have hvout : t.vout ≠ [] := fun hh => ho (by simp [hh])
  simp only [hv, ho, if_false, serTx_strip t h]
  by_cases hsz : (Spec.Wire.txLegacy t).length > maxBlockSize
  · have : ¬ Spec.BlockCheck.ValidTx p t := fun hh => by have := hh.2.2.1; omega
    simp [hsz, this, reject]
  simp only [hsz, if_false]
  -- output values
  have hval := verdict_decide (valueLoop_verdict p t.vout 0) (valueLoop_iff p t.vout 0)
  rw [hval]
  have hvals : ((∀ o ∈ t.vout, Spec.BlockCheck.moneyRange p o.nValue) ∧
      (∀ k, 1 ≤ k → k ≤ t.vout.length → Spec.BlockCheck.moneyRange p (0 + (vals (t.vout.take k)).sum))) ↔
      ((∀ o ∈ t.vout, Spec.BlockCheck.moneyRange p o.nValue) ∧
      (∀ k ∈ List.range (t.vout.length + 1),
        Spec.BlockCheck.moneyRange p ((t.vout.take k).map (·.nValue)).sum)) := by
    constructor
    · intro ⟨ha, hb⟩
      refine ⟨ha, ?_⟩
      intro k hk
      simp only [List.mem_range] at hk
      by_cases hk0 : k = 0
      · subst hk0; simp [Spec.BlockCheck.moneyRange]
      · have := hb k (by omega) (by omega)
        simpa [vals] using this
    · intro ⟨ha, hb⟩
      refine ⟨ha, ?_⟩
      intro k _ hk2
      have := hb k (by simp only [List.mem_range]; omega)
      simpa [vals] using this
  by_cases hP : (∀ o ∈ t.vout, Spec.BlockCheck.moneyRange p o.nValue) ∧
      (∀ k, 1 ≤ k → k ≤ t.vout.length → Spec.BlockCheck.moneyRange p (0 + (vals (t.vout.take k)).sum))
  swap
  · have : ¬ Spec.BlockCheck.ValidTx p t := fun hh => hP (hvals.mpr ⟨hh.2.2.2.1, hh.2.2.2.2.1⟩)
    rw [if_neg hP, if_neg this]
  rw [if_pos hP]
  dsimp only
  have hP' := hvals.mp hP
  -- duplicate inputs
  have hdup := verdict_decide (dupLoop_verdict t.vin [] hwf)
    (by simpa using dupLoop_iff t.vin [] hwf (by simp))
  rw [hdup]
  by_cases hN : (t.vin.map hn).Nodup
  swap
  · have : ¬ Spec.BlockCheck.ValidTx p t := fun hh => hN hh.2.2.2.2.2.1
    rw [if_neg hN, if_neg this]
  rw [if_pos hN]
  dsimp only
  by_cases hcb : t.isCoinbase = true
  · -- coinbase: exactly one input
    simp only [hcb, if_true]
    have hone : ∃ i, t.vin = [i] := by
      unfold Tx.isCoinbase at hcb
      split at hcb
      · rename_i i hi; exact ⟨i, hi⟩
      · cases hcb
    obtain ⟨i, hi⟩ := hone
    simp only [hi, List.getElem?_cons_zero]
    by_cases hlen : 2 ≤ i.scriptSig.length ∧ i.scriptSig.length ≤ 100
    · have : Spec.BlockCheck.ValidTx p t := by
        refine ⟨hvin, hvout, by omega, hP'.1, hP'.2, hN, ?_⟩
        simp only [hcb, if_true, hi, List.mem_singleton, forall_eq]
        exact hlen
      simp [hlen, this]
    · have : ¬ Spec.BlockCheck.ValidTx p t := fun hh => by
        have h7 := hh.2.2.2.2.2.2
        simp only [hcb, if_true, hi, List.mem_singleton, forall_eq] at h7
        exact hlen h7
      simp [hlen, this, reject]
  · have hcb' : t.isCoinbase = false := by simpa using hcb
    simp only [hcb', Bool.false_eq_true, if_false]
    rw [verdict_decide (nullLoop_verdict t.vin) (nullLoop_iff t.vin)]
    by_cases hnull : ∀ i ∈ t.vin, i.prevout.isNull = false
    · have : Spec.BlockCheck.ValidTx p t := by
        refine ⟨hvin, hvout, by omega, hP'.1, hP'.2, hN, ?_⟩
        simp only [hcb', Bool.false_eq_true, if_false]
        exact hnull
      rw [if_pos hnull, if_pos this]
    · have : ¬ Spec.BlockCheck.ValidTx p t := fun hh => by
        have h7 := hh.2.2.2.2.2.2
        simp only [hcb', Bool.false_eq_true, if_false] at h7
        exact hnull h7
      rw [if_neg hnull, if_neg this]

end BtcVerif.BlockCheckProofs
