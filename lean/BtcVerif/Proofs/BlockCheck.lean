/-
  C16 — helper lemmas: each loop of CheckTransaction / CheckBlock against the rule it implements.
-/
import BtcVerif.Model.BlockCheck
import BtcVerif.Spec.BlockCheck
import BtcVerif.Proofs.Merkle
import BtcVerif.Proofs.Compact
import BtcVerif.Props.C17

namespace BtcVerif.BlockCheckProofs
open BtcVerif BtcVerif.Crypto BtcVerif.Model.BlockCheck BtcVerif.Model.Merkle BtcVerif.Model.Wire
open BtcVerif.SerSpec BtcVerif.Spec
open BtcVerif.Spec.Merkle (TxRange BlockRange)

/-! ### A. sigop counting: raw_iter-based count = Core's GetOp-based count -/

open Model.Script in
theorem rawStep_getOp (idx : Nat) (s : Bytes) :
    match rawStep idx s with
    | none => s = []
    | some (.err _) => Spec.BlockCheck.getOp s = none
    | some (.op o rest) => Spec.BlockCheck.getOp s = some (o.opcode, rest) := by
  cases s with
  | nil => simp [rawStep]
  | cons b t =>
    simp only [rawStep, Spec.BlockCheck.getOp]
    by_cases h1 : b.toNat > 0x4e
    · have h2 : ¬ b.toNat < 0x4c := by omega
      have h3 : ¬ b.toNat = 0x4c := by omega
      have h4 : ¬ b.toNat = 0x4d := by omega
      have h5 : ¬ b.toNat = 0x4e := by omega
      simp [h1, h2, h3, h4, h5]
    · simp only [h1, if_false]
      by_cases h2 : b.toNat < 0x4c
      · simp only [h2, if_true]
        by_cases h6 : t.length < b.toNat
        · have : (List.take b.toNat t).length < b.toNat := by simp [List.length_take]; omega
          simp [this, h6]
        · have : ¬ (List.take b.toNat t).length < b.toNat := by simp [List.length_take]; omega
          simp [this, h6]
      · simp only [h2, if_false]
        by_cases h3 : b.toNat = 0x4c
        · simp only [h3, if_true]
          cases t with
          | nil => simp
          | cons l r =>
            simp only
            by_cases h6 : r.length < l.toNat
            · have : (List.take l.toNat r).length < l.toNat := by simp [List.length_take]; omega
              simp [this, h6]
            · have : ¬ (List.take l.toNat r).length < l.toNat := by simp [List.length_take]; omega
              simp [this, h6]
        · simp only [h3, if_false]
          by_cases h4 : b.toNat = 0x4d
          · simp only [h4, if_true]
            match t with
            | [] => simp
            | [_] => simp
            | l0 :: l1 :: r =>
              simp only
              have e : l0.toNat + l1.toNat * 256 = l0.toNat + 256 * l1.toNat := by omega
              rw [e]
              generalize l0.toNat + 256 * l1.toNat = n
              by_cases h6 : r.length < n
              · have : (List.take n r).length < n := by simp [List.length_take]; omega
                simp [this, h6]
              · have : ¬ (List.take n r).length < n := by simp [List.length_take]; omega
                simp [this, h6]
          · have h5 : b.toNat = 0x4e := by omega
            simp only [h4, if_false, h5, if_true]
            match t with
            | [] => simp
            | [_] => simp
            | [_, _] => simp
            | [_, _, _] => simp
            | l0 :: l1 :: l2 :: l3 :: r =>
              simp only
              have e : l0.toNat + l1.toNat * 256 + l2.toNat * 65536 + l3.toNat * 16777216
                  = l0.toNat + 256 * l1.toNat + 65536 * l2.toNat + 16777216 * l3.toNat := by omega
              rw [e]
              generalize l0.toNat + 256 * l1.toNat + 65536 * l2.toNat + 16777216 * l3.toNat = n
              by_cases h6 : r.length < n
              · have : (List.take n r).length < n := by simp [List.length_take]; omega
                simp [this, h6]
              · have : ¬ (List.take n r).length < n := by simp [List.length_take]; omega
                simp [this, h6]

def opWeight (o : Model.Script.RawOp) : Nat :=
  if o.opcode = 0xac ∨ o.opcode = 0xad then 1
  else if o.opcode = 0xae ∨ o.opcode = 0xaf then 20 else 0

theorem sigOps_unfold (s : Bytes) :
    Spec.BlockCheck.sigOps s =
      match Spec.BlockCheck.getOp s with
      | none => 0
      | some (op, rest) => Spec.BlockCheck.opSigOps op + Spec.BlockCheck.sigOps rest := by
  rw [Spec.BlockCheck.sigOps]
  split <;> rename_i h <;> simp [h]

theorem rawIterFrom_unfold (idx : Nat) (s : Bytes) :
    Model.Script.rawIterFrom idx s =
      match Model.Script.rawStep idx s with
      | none => ([], none)
      | some (.err e) => ([], some e)
      | some (.op o rest) =>
        (o :: (Model.Script.rawIterFrom (idx + (s.length - rest.length)) rest).1,
          (Model.Script.rawIterFrom (idx + (s.length - rest.length)) rest).2) := by
  rw [Model.Script.rawIterFrom]
  split <;> rename_i h <;> simp [h]

theorem rawIter_sigOps : ∀ (n : Nat) (s : Bytes) (idx : Nat), s.length = n →
    ((Model.Script.rawIterFrom idx s).1.map opWeight).sum = Spec.BlockCheck.sigOps s := by
  intro n
  induction n using Nat.strongRecOn with
  | _ n ih =>
    intro s idx hn
    have hstep := rawStep_getOp idx s
    rw [rawIterFrom_unfold, sigOps_unfold]
    cases h : Model.Script.rawStep idx s with
    | none =>
      rw [h] at hstep
      simp only at hstep
      subst hstep
      simp [Spec.BlockCheck.getOp]
    | some st =>
      cases st with
      | err e =>
        rw [h] at hstep
        simp only at hstep
        simp [hstep]
      | op o rest =>
        rw [h] at hstep
        simp only at hstep
        have hlt := Model.Script.rawStep_rest_lt h
        have := ih rest.length (by omega) rest (idx + (s.length - rest.length)) rfl
        simp only [hstep, List.map_cons, List.sum_cons, this]
        simp [opWeight, Spec.BlockCheck.opSigOps]

/-- `GetSigOpCount(False)` = Core's inaccurate count, for every byte string -/
theorem sigOpCount_eq (s : Bytes) : sigOpCount s = Spec.BlockCheck.sigOps s := by
  have := rawIter_sigOps s.length s 0 rfl
  unfold sigOpCount Model.Script.rawIter
  exact this

theorem legacySigOpCount_eq (t : Tx) : legacySigOpCount t = Spec.BlockCheck.txSigOps t := by
  simp [legacySigOpCount, Spec.BlockCheck.txSigOps, sigOpCount_eq]

/-! ### the rules restated over the Python-mirroring helpers of Basic/Tx (proof-side only)

  `Spec.BlockCheck` characterises a coinbase and the null outpoint on the fields.  The model calls
  `Tx.isCoinbase` / `OutPoint.isNull` (mirrors of `is_coinbase()` / `is_null()`).  The loops are proved
  against the `…B` restatements below; `validTx_iff` / `validBlock_iff` show they are the Spec's. -/

theorem isNull_iff (o : OutPoint) : o.isNull = true ↔ Spec.BlockCheck.NullOutPoint o := by
  unfold OutPoint.isNull Spec.BlockCheck.NullOutPoint Spec.Merkle.zero32
  simp

theorem isCoinbase_iff (t : Tx) : t.isCoinbase = true ↔ Spec.BlockCheck.IsCoinbase t := by
  unfold Tx.isCoinbase Spec.BlockCheck.IsCoinbase
  rcases t.vin with _ | ⟨i, _ | ⟨j, r⟩⟩
  · simp
  · exact isNull_iff _
  · simp

def ValidTxB (p : ChainParams) (t : Tx) : Prop :=
  t.vin ≠ [] ∧ t.vout ≠ [] ∧
  (Spec.Wire.txLegacy t).length ≤ maxBlockSize ∧
  (∀ o ∈ t.vout, Spec.BlockCheck.moneyRange p o.nValue) ∧
  (∀ k ∈ List.range (t.vout.length + 1), Spec.BlockCheck.moneyRange p ((t.vout.take k).map (·.nValue)).sum) ∧
  (t.vin.map (fun i => (i.prevout.hash, i.prevout.n))).Nodup ∧
  (if t.isCoinbase then ∀ i ∈ t.vin, 2 ≤ i.scriptSig.length ∧ i.scriptSig.length ≤ 100
   else ∀ i ∈ t.vin, i.prevout.isNull = false)

instance (p : ChainParams) (t : Tx) : Decidable (ValidTxB p t) := by
  unfold ValidTxB; exact inferInstance

theorem validTx_iff (p : ChainParams) (t : Tx) : Spec.BlockCheck.ValidTx p t ↔ ValidTxB p t := by
  unfold Spec.BlockCheck.ValidTx ValidTxB
  have hnull : ∀ i : TxIn, (¬ Spec.BlockCheck.NullOutPoint i.prevout) ↔ i.prevout.isNull = false := by
    intro i; rw [← isNull_iff]; simp
  by_cases hc : t.isCoinbase = true
  · have hc' := (isCoinbase_iff t).mp hc
    simp only [hc, hc', if_true]
  · have hc' : ¬ Spec.BlockCheck.IsCoinbase t := fun h => hc ((isCoinbase_iff t).mpr h)
    simp only [hc, hc', if_false, hnull, Bool.false_eq_true]

def CoinbaseFirstOnlyB : List Tx → Prop
  | [] => False
  | cb :: rest => cb.isCoinbase = true ∧ ∀ t ∈ rest, t.isCoinbase = false

instance (vtx : List Tx) : Decidable (CoinbaseFirstOnlyB vtx) := by
  unfold CoinbaseFirstOnlyB; split <;> exact inferInstance

theorem coinbaseFirstOnly_iff (vtx : List Tx) :
    Spec.BlockCheck.CoinbaseFirstOnly vtx ↔ CoinbaseFirstOnlyB vtx := by
  cases vtx with
  | nil => simp [Spec.BlockCheck.CoinbaseFirstOnly, CoinbaseFirstOnlyB]
  | cons cb rest =>
    simp only [Spec.BlockCheck.CoinbaseFirstOnly, CoinbaseFirstOnlyB, ← isCoinbase_iff]
    simp

def ValidBlockB (p : ChainParams) (now : Int) (fPoW fMerkle : Bool) (b : Block) : Prop :=
  (fPoW = true → Spec.powValid p.powLimit (hash256 (Spec.Wire.header b.hdr)) b.hdr.nBits) ∧
  (b.hdr.nTime : Int) ≤ now + 7200 ∧
  b.vtx ≠ [] ∧
  (Spec.Merkle.blockStripped b).length ≤ maxBlockSize ∧
  Spec.Merkle.blockWeight b ≤ maxBlockWeight ∧
  CoinbaseFirstOnlyB b.vtx ∧
  (∀ t ∈ b.vtx, ValidTxB p t) ∧
  (b.vtx.map Spec.Merkle.txid).Nodup ∧
  (b.vtx.map Spec.BlockCheck.txSigOps).sum ≤ maxBlockSigops ∧
  (fMerkle = true →
    Spec.Merkle.merkleRoot b.vtx = some b.hdr.hashMerkleRoot ∧
    ((∃ t ∈ b.vtx, t.hasWitness = true) → Spec.BlockCheck.CommitmentOk b.vtx))

instance (p : ChainParams) (now : Int) (f g : Bool) (b : Block) : Decidable (ValidBlockB p now f g b) := by
  unfold ValidBlockB; exact inferInstance

theorem validBlock_iff (p : ChainParams) (now : Int) (f g : Bool) (b : Block) :
    Spec.BlockCheck.ValidBlock p now f g b ↔ ValidBlockB p now f g b := by
  unfold Spec.BlockCheck.ValidBlock ValidBlockB
  simp only [coinbaseFirstOnly_iff, validTx_iff]

theorem ite_iff {α : Type} {P Q : Prop} [Decidable P] [Decidable Q] (h : P ↔ Q) (a b : α) :
    (if P then a else b) = (if Q then a else b) := by
  by_cases hp : P
  · rw [if_pos hp, if_pos (h.mp hp)]
  · rw [if_neg hp, if_neg (fun hq => hp (h.mpr hq))]

/-! ### B. CheckTransaction -/

/-- an outcome that is acceptance or a validation error (no other exception) -/
def IsVerdict (r : Res Unit) : Prop := r = .ok () ∨ r = .error .validation

theorem valueLoop_verdict (p : ChainParams) : ∀ (outs : List TxOut) (acc : Int),
    IsVerdict (valueLoop p outs acc) := by
  intro outs
  induction outs with
  | nil => intro acc; left; rfl
  | cons o rest ih =>
    intro acc
    unfold valueLoop
    split
    · right; rfl
    · split
      · right; rfl
      · split
        · right; rfl
        · exact ih _

def vals (outs : List TxOut) : List Int := outs.map (·.nValue)

theorem valueLoop_iff (p : ChainParams) : ∀ (outs : List TxOut) (acc : Int),
    valueLoop p outs acc = .ok () ↔
      (∀ o ∈ outs, Spec.BlockCheck.moneyRange p o.nValue) ∧
      (∀ k, 1 ≤ k → k ≤ outs.length → Spec.BlockCheck.moneyRange p (acc + (vals (outs.take k)).sum)) := by
  intro outs
  induction outs with
  | nil =>
    intro acc
    simp only [valueLoop, List.not_mem_nil, false_imp_iff, implies_true, List.length_nil, true_and, true_iff]
    intro k h1 h2; omega
  | cons o rest ih =>
    intro acc
    unfold valueLoop
    by_cases h1 : o.nValue < 0
    · simp only [h1, if_true, reject]
      constructor
      · intro h; cases h
      · intro ⟨h, _⟩
        have := h o (by simp)
        unfold Spec.BlockCheck.moneyRange at this; omega
    · by_cases h2 : o.nValue > (p.maxMoney : Int)
      · simp only [h1, if_false, h2, if_true, reject]
        constructor
        · intro h; cases h
        · intro ⟨h, _⟩
          have := h o (by simp)
          unfold Spec.BlockCheck.moneyRange at this; omega
      · by_cases h3 : moneyRange p (acc + o.nValue) = true
        · simp only [h1, if_false, h2, h3, Bool.not_true, Bool.false_eq_true]
          rw [ih]
          have h3' : Spec.BlockCheck.moneyRange p (acc + o.nValue) := by
            simpa [moneyRange, Spec.BlockCheck.moneyRange] using h3
          constructor
          · intro ⟨ha, hb⟩
            refine ⟨?_, ?_⟩
            · intro o' ho'
              simp only [List.mem_cons] at ho'
              rcases ho' with rfl | ho'
              · unfold Spec.BlockCheck.moneyRange; omega
              · exact ha o' ho'
            · intro k hk1 hk2
              cases k with
              | zero => omega
              | succ k' =>
                by_cases hk0 : k' = 0
                · subst hk0; simpa [vals] using h3'
                · have := hb k' (by omega) (by simpa using hk2)
                  simp only [List.take_succ_cons, vals, List.map_cons, List.sum_cons] at this ⊢
                  rw [← Int.add_assoc]; exact this
          · intro ⟨ha, hb⟩
            refine ⟨fun o' ho' => ha o' (by simp [ho']), ?_⟩
            intro k hk1 hk2
            have := hb (k + 1) (by omega) (by simpa using hk2)
            simp only [List.take_succ_cons, vals, List.map_cons, List.sum_cons] at this ⊢
            rw [Int.add_assoc]; exact this
        · have h3f : moneyRange p (acc + o.nValue) = false := by simpa using h3
          simp only [h1, if_false, h2, h3f, Bool.not_false, if_true, reject]
          constructor
          · intro h; cases h
          · intro ⟨_, hb⟩
            have := hb 1 (by omega) (by simp)
            simp only [List.take_succ_cons, List.take_zero, vals, List.map_cons, List.map_nil,
              List.sum_cons, List.sum_nil, Int.add_zero] at this
            have h3' : ¬ Spec.BlockCheck.moneyRange p (acc + o.nValue) := by
              simpa [moneyRange, Spec.BlockCheck.moneyRange] using h3f
            exact absurd this h3'

/-- byte key of an outpoint (what the `set` of COutPoint hashes and compares) vs the pair (hash, n) -/
theorem outPoint_inj (a b : OutPoint) (ha : Spec.Wire.WFOutPoint a) (hb : Spec.Wire.WFOutPoint b) :
    Spec.Wire.outPoint a = Spec.Wire.outPoint b ↔ (a.hash, a.n) = (b.hash, b.n) := by
  obtain ⟨ha1, ha2⟩ := ha
  obtain ⟨hb1, hb2⟩ := hb
  unfold Spec.Wire.outPoint
  constructor
  · intro h
    have := List.append_inj h (by rw [ha1, hb1])
    obtain ⟨h1, h2⟩ := this
    have h3 := congrArg leNat h2
    rw [leNat_leBytes, leNat_leBytes] at h3
    have : a.n = b.n := by
      rw [Nat.mod_eq_of_lt (by omega), Nat.mod_eq_of_lt (by omega)] at h3; exact h3
    simp [h1, this]
  · intro h
    simp only [Prod.mk.injEq] at h
    rw [h.1, h.2]

def hn (i : TxIn) : Bytes × Nat := (i.prevout.hash, i.prevout.n)
def kb (i : TxIn) : Bytes := Spec.Wire.outPoint i.prevout

theorem dupLoop_verdict : ∀ (ins : List TxIn) (seen : List Bytes),
    (∀ i ∈ ins, Spec.Wire.WFOutPoint i.prevout) → IsVerdict (dupLoop ins seen) := by
  intro ins
  induction ins with
  | nil => intro seen _; left; rfl
  | cons i rest ih =>
    intro seen hwf
    unfold dupLoop
    rw [serOutPoint_ok _ (hwf i (by simp))]
    simp only
    split
    · right; rfl
    · exact ih _ (fun j hj => hwf j (by simp [hj]))

theorem dupLoop_iff : ∀ (ins seenIns : List TxIn),
    (∀ i ∈ ins, Spec.Wire.WFOutPoint i.prevout) → (∀ i ∈ seenIns, Spec.Wire.WFOutPoint i.prevout) →
    (dupLoop ins (seenIns.map kb) = .ok () ↔
      (ins.map hn).Nodup ∧ ∀ i ∈ ins, hn i ∉ seenIns.map hn) := by
  intro ins
  induction ins with
  | nil => intro seenIns _ _; simp [dupLoop]
  | cons i rest ih =>
    intro seenIns hwf hwfs
    have hi := hwf i (by simp)
    unfold dupLoop
    rw [serOutPoint_ok _ hi]
    simp only
    have hmem : Spec.Wire.outPoint i.prevout ∈ seenIns.map kb ↔ hn i ∈ seenIns.map hn := by
      simp only [List.mem_map]
      constructor
      · rintro ⟨j, hj, he⟩
        exact ⟨j, hj, ((outPoint_inj _ _ (hwfs j hj) hi).mp he)⟩
      · rintro ⟨j, hj, he⟩
        exact ⟨j, hj, ((outPoint_inj _ _ (hwfs j hj) hi).mpr he)⟩
    by_cases hin : Spec.Wire.outPoint i.prevout ∈ seenIns.map kb
    · simp only [hin, if_true, reject]
      constructor
      · intro h; cases h
      · intro ⟨_, h⟩
        exact absurd (hmem.mp hin) (h i (by simp))
    · simp only [hin, if_false]
      have := ih (i :: seenIns) (fun j hj => hwf j (by simp [hj]))
        (fun j hj => by
          simp only [List.mem_cons] at hj
          rcases hj with rfl | hj
          · exact hi
          · exact hwfs j hj)
      simp only [List.map_cons] at this
      rw [show Spec.Wire.outPoint i.prevout = kb i from rfl, this]
      have hnot : hn i ∉ seenIns.map hn := fun h => hin (hmem.mpr h)
      simp only [List.map_cons, List.nodup_cons, List.mem_cons, List.mem_map, not_or, not_exists, not_and,
        forall_eq_or_imp]
      constructor
      · intro ⟨hnd, hall⟩
        refine ⟨⟨?_, hnd⟩, ?_, ?_⟩
        · intro j hj he
          exact (hall j hj).1 he
        · intro j hj he
          exact hnot (List.mem_map.mpr ⟨j, hj, he⟩)
        · intro j hj j' hj' he
          exact (hall j hj).2 j' hj' he
      · intro ⟨⟨h1, hnd⟩, _, h3⟩
        refine ⟨hnd, fun j hj => ⟨fun he => h1 j hj he, fun j' hj' he => h3 j hj j' hj' he⟩⟩

theorem nullLoop_verdict : ∀ ins : List TxIn, IsVerdict (nullLoop ins) := by
  intro ins
  induction ins with
  | nil => left; rfl
  | cons i rest ih =>
    unfold nullLoop
    split
    · right; rfl
    · exact ih

theorem nullLoop_iff : ∀ ins : List TxIn,
    nullLoop ins = .ok () ↔ ∀ i ∈ ins, i.prevout.isNull = false := by
  intro ins
  induction ins with
  | nil => simp [nullLoop]
  | cons i rest ih =>
    unfold nullLoop
    by_cases h : i.prevout.isNull = true
    · simp [h, reject]
    · simp only [h, Bool.false_eq_true, if_false]
      rw [ih]
      simp [h]

theorem verdict_decide {r : Res Unit} {P : Prop} [Decidable P] (hv : IsVerdict r)
    (hi : r = .ok () ↔ P) : r = if P then .ok () else .error .validation := by
  by_cases hp : P
  · simp [hp, hi.mpr hp]
  · rcases hv with h | h
    · exact absurd (hi.mp h) hp
    · simp [hp, h]

theorem decide_verdict {r : Res Unit} {P : Prop} [Decidable P]
    (h : r = if P then .ok () else .error .validation) : IsVerdict r ∧ (r = .ok () ↔ P) := by
  by_cases hp : P
  · simp [h, hp, IsVerdict]
  · simp [h, hp, IsVerdict]

/-- `CheckTransaction` decides exactly `Spec.ValidTx`, and rejects with a validation error only -/
theorem checkTx_decideB (p : ChainParams) (t : Tx) (h : TxRange t) :
    checkTx p t = if ValidTxB p t then .ok () else .error .validation := by
  have hwf : ∀ i ∈ t.vin, Spec.Wire.WFOutPoint i.prevout := fun i hi => (h.2.2.2.2.1 i hi).1
  unfold checkTx
  by_cases hv : t.vin.length = 0
  · have : ¬ ValidTxB p t := fun hh => hh.1 (List.eq_nil_of_length_eq_zero hv)
    simp [hv, this, reject]
  by_cases ho : t.vout.length = 0
  · have : ¬ ValidTxB p t := fun hh => hh.2.1 (List.eq_nil_of_length_eq_zero ho)
    simp [hv, ho, this, reject]
  have hvin : t.vin ≠ [] := fun hh => hv (by simp [hh])
  have hvout : t.vout ≠ [] := fun hh => ho (by simp [hh])
  simp only [hv, ho, if_false, MerkleProofs.ctorValid_of_range t h, Bool.not_true, Bool.false_eq_true,
    serTx_strip t h]
  by_cases hsz : (Spec.Wire.txLegacy t).length > maxBlockSize
  · have : ¬ ValidTxB p t := fun hh => by have := hh.2.2.1; omega
    simp [hsz, this, reject]
  simp only [hsz, if_false]
  -- output values
  have hval := verdict_decide (valueLoop_verdict p t.vout 0) (valueLoop_iff p t.vout 0)
  rw [hval]
  have hvals : ((∀ o ∈ t.vout, Spec.BlockCheck.moneyRange p o.nValue) ∧
      (∀ k, 1 ≤ k → k ≤ t.vout.length → Spec.BlockCheck.moneyRange p (0 + (vals (t.vout.take k)).sum))) ↔
      ((∀ o ∈ t.vout, Spec.BlockCheck.moneyRange p o.nValue) ∧
      (∀ k ∈ List.range (t.vout.length + 1),
        Spec.BlockCheck.moneyRange p ((t.vout.take k).map (·.nValue)).sum)) := by
    constructor
    · intro ⟨ha, hb⟩
      refine ⟨ha, ?_⟩
      intro k hk
      simp only [List.mem_range] at hk
      by_cases hk0 : k = 0
      · subst hk0; simp [Spec.BlockCheck.moneyRange]
      · have := hb k (by omega) (by omega)
        simpa [vals] using this
    · intro ⟨ha, hb⟩
      refine ⟨ha, ?_⟩
      intro k _ hk2
      have := hb k (by simp only [List.mem_range]; omega)
      simpa [vals] using this
  by_cases hP : (∀ o ∈ t.vout, Spec.BlockCheck.moneyRange p o.nValue) ∧
      (∀ k, 1 ≤ k → k ≤ t.vout.length → Spec.BlockCheck.moneyRange p (0 + (vals (t.vout.take k)).sum))
  swap
  · have : ¬ ValidTxB p t := fun hh => hP (hvals.mpr ⟨hh.2.2.2.1, hh.2.2.2.2.1⟩)
    rw [if_neg hP, if_neg this]
  rw [if_pos hP]
  dsimp only
  have hP' := hvals.mp hP
  -- duplicate inputs
  have hdup := verdict_decide (dupLoop_verdict t.vin [] hwf)
    (by simpa using dupLoop_iff t.vin [] hwf (by simp))
  rw [hdup]
  by_cases hN : (t.vin.map hn).Nodup
  swap
  · have : ¬ ValidTxB p t := fun hh => hN hh.2.2.2.2.2.1
    rw [if_neg hN, if_neg this]
  rw [if_pos hN]
  dsimp only
  by_cases hcb : t.isCoinbase = true
  · -- coinbase: exactly one input
    simp only [hcb, if_true]
    have hone : ∃ i, t.vin = [i] := by
      unfold Tx.isCoinbase at hcb
      split at hcb
      · rename_i i hi; exact ⟨i, hi⟩
      · cases hcb
    obtain ⟨i, hi⟩ := hone
    simp only [hi, List.getElem?_cons_zero]
    by_cases hlen : 2 ≤ i.scriptSig.length ∧ i.scriptSig.length ≤ 100
    · have : ValidTxB p t := by
        refine ⟨hvin, hvout, by omega, hP'.1, hP'.2, hN, ?_⟩
        simp only [hcb, if_true, hi, List.mem_singleton, forall_eq]
        exact hlen
      simp [hlen, this]
    · have : ¬ ValidTxB p t := fun hh => by
        have h7 := hh.2.2.2.2.2.2
        simp only [hcb, if_true, hi, List.mem_singleton, forall_eq] at h7
        exact hlen h7
      simp [hlen, this, reject]
  · have hcb' : t.isCoinbase = false := by simpa using hcb
    simp only [hcb', Bool.false_eq_true, if_false]
    rw [verdict_decide (nullLoop_verdict t.vin) (nullLoop_iff t.vin)]
    by_cases hnull : ∀ i ∈ t.vin, i.prevout.isNull = false
    · have : ValidTxB p t := by
        refine ⟨hvin, hvout, by omega, hP'.1, hP'.2, hN, ?_⟩
        simp only [hcb', Bool.false_eq_true, if_false]
        exact hnull
      rw [if_pos hnull, if_pos this]
    · have : ¬ ValidTxB p t := fun hh => by
        have h7 := hh.2.2.2.2.2.2
        simp only [hcb', Bool.false_eq_true, if_false] at h7
        exact hnull h7
      rw [if_neg hnull, if_neg this]

/-! ### C. get_witness_commitment_index -/

def spk (o : TxOut) : Bytes := o.scriptPubKey

def fetch (l : List TxOut) (o : Option Nat) : Option Bytes := o.bind (fun i => l[i]?.map spk)

theorem commitLoop_bound : ∀ (outs : List TxOut) (idx : Nat) (pos : Option Nat) (i : Nat),
    (∀ j, pos = some j → j < idx) → commitLoop outs idx pos = some i → i < idx + outs.length := by
  intro outs
  induction outs with
  | nil => intro idx pos i hp h; simp only [commitLoop] at h; have := hp i h; simp; omega
  | cons o rest ih =>
    intro idx pos i hp h
    unfold commitLoop at h
    split at h
    · have := ih (idx + 1) (some idx) i (by intro j hj; cases hj; omega) h
      simp; omega
    · have := ih (idx + 1) pos i (by intro j hj; have := hp j hj; omega) h
      simp; omega

theorem commitLoop_fetch : ∀ (outs pre : List TxOut) (pos : Option Nat),
    fetch (pre ++ outs) (commitLoop outs pre.length pos) =
      (((outs.map spk).filter Spec.BlockCheck.isCommitScript).getLast?).or (fetch (pre ++ outs) pos) := by
  intro outs
  induction outs with
  | nil => intro pre pos; simp [commitLoop]
  | cons o rest ih =>
    intro pre pos
    unfold commitLoop
    have hl : (pre ++ [o]).length = pre.length + 1 := by simp
    have happ : pre ++ o :: rest = (pre ++ [o]) ++ rest := by simp
    by_cases hc : Spec.BlockCheck.isCommitScript o.scriptPubKey = true
    · have hc' : (decide (o.scriptPubKey.length ≥ 38) && (o.scriptPubKey.take 6 == witnessCommitMagic)) = true := by
        simpa [Spec.BlockCheck.isCommitScript] using hc
      simp only [hc', if_true]
      rw [happ, ← hl, ih (pre ++ [o]) (some pre.length)]
      have hf : fetch (pre ++ [o] ++ rest) (some pre.length) = some (spk o) := by
        simp [fetch, spk]
      rw [hf]
      simp only [List.map_cons, List.filter_cons, spk, hc, if_true, List.getLast?_cons]
      cases (List.filter Spec.BlockCheck.isCommitScript (List.map spk rest)).getLast? <;> simp [spk]
    · have hc' : (decide (o.scriptPubKey.length ≥ 38) && (o.scriptPubKey.take 6 == witnessCommitMagic)) = false := by
        simpa [Spec.BlockCheck.isCommitScript] using hc
      simp only [hc', Bool.false_eq_true, if_false]
      rw [happ, ← hl, ih (pre ++ [o]) pos]
      simp [List.filter_cons, spk, hc]

/-- the index found is that of the last output whose script has the commitment form -/
theorem commitLoop_result (cb : Tx) :
    match commitLoop cb.vout 0 none with
    | none => Spec.BlockCheck.commitScript? cb = none
    | some i => ∃ o, cb.vout[i]? = some o ∧ Spec.BlockCheck.commitScript? cb = some o.scriptPubKey ∧
        38 ≤ o.scriptPubKey.length := by
  have hf := commitLoop_fetch cb.vout [] none
  simp only [List.nil_append, List.length_nil, fetch, Option.bind_none, Option.or_none] at hf
  cases h : commitLoop cb.vout 0 none with
  | none =>
    rw [h] at hf
    simp only [Option.bind_none] at hf
    simp only
    unfold Spec.BlockCheck.commitScript?
    exact hf.symm
  | some i =>
    rw [h] at hf
    simp only
    have hb := commitLoop_bound cb.vout 0 none i (by intro j hj; cases hj) h
    have hlt : i < cb.vout.length := by omega
    refine ⟨cb.vout[i], by simp [hlt], ?_, ?_⟩
    · unfold Spec.BlockCheck.commitScript?
      show ((cb.vout.map spk).filter Spec.BlockCheck.isCommitScript).getLast? = _
      rw [← hf]
      simp [hlt, spk]
    · have hmem : (cb.vout[i]).scriptPubKey ∈ (cb.vout.map spk).filter Spec.BlockCheck.isCommitScript := by
        apply List.mem_of_getLast?
        rw [← hf]; simp [hlt, spk]
      have := (List.mem_filter.mp hmem).2
      simp only [Spec.BlockCheck.isCommitScript, Bool.and_eq_true, decide_eq_true_eq] at this
      exact this.1

/-! ### D. the witness-commitment part of CheckBlock -/

theorem decide_of_cases {r : Res Unit} {P : Prop} [Decidable P] (h1 : P → r = .ok ())
    (h2 : ¬ P → r = .error .validation) : r = if P then .ok () else .error .validation := by
  by_cases hp : P
  · rw [if_pos hp]; exact h1 hp
  · rw [if_neg hp]; exact h2 hp

theorem commitmentOk_iff (cb : Tx) (rest : List Tx) :
    Spec.BlockCheck.CommitmentOk (cb :: rest) ↔
      ∃ nonce tail, cb.wit = [nonce] :: tail ∧ nonce.length = 32 ∧
        ∃ s r, Spec.BlockCheck.commitScript? cb = some s ∧ Spec.Merkle.witnessRoot (cb :: rest) = some r ∧
          (s.drop 6).take 32 = hash256 (r ++ nonce) := by
  unfold Spec.BlockCheck.CommitmentOk
  simp only
  split
  · rename_i nonce tail hw
    constructor
    · intro ⟨h32, hm⟩
      split at hm
      · rename_i s r hs hr
        exact ⟨nonce, tail, hw, h32, s, r, hs, hr, hm⟩
      · exact absurd hm id
    · rintro ⟨nonce', tail', hw', h32, s, r, hs, hr, hm⟩
      rw [hw] at hw'
      simp only [List.cons.injEq, and_true] at hw'
      obtain ⟨hn, _⟩ := hw'
      subst hn
      refine ⟨h32, ?_⟩
      rw [hs, hr]
      exact hm
  · rename_i hno
    constructor
    · intro h; exact absurd h id
    · rintro ⟨nonce, tail, hw, _⟩
      exact absurd hw (hno nonce tail)

theorem checkCommitment_decide (cb : Tx) (rest : List Tx) (wtree : List Bytes) (root : Bytes)
    (hl : lastOf wtree = .ok root) (hr : Spec.Merkle.witnessRoot (cb :: rest) = some root) :
    checkCommitment (cb :: rest) wtree =
      if Spec.BlockCheck.CommitmentOk (cb :: rest) then .ok () else .error .validation := by
  apply decide_of_cases
  · intro hok
    obtain ⟨nonce, tail, hw, h32, s, r, hs, hr', hm⟩ := (commitmentOk_iff cb rest).mp hok
    rw [hr] at hr'
    have : r = root := (Option.some.inj hr').symm
    subst this
    have hres := commitLoop_result cb
    unfold checkCommitment
    simp only [hl, List.getElem?_cons_zero, hw, List.length_singleton, ne_eq, not_true_eq_false, if_false,
      h32]
    unfold witnessCommitmentIndex
    simp only [List.length_cons, Nat.add_one_ne_zero, if_false, List.getElem?_cons_zero]
    cases hci : commitLoop cb.vout 0 none with
    | none =>
      rw [hci] at hres
      simp only at hres
      rw [hres] at hs
      cases hs
    | some i =>
      rw [hci] at hres
      simp only at hres
      obtain ⟨o, ho, hs', h38⟩ := hres
      rw [hs'] at hs
      have : o.scriptPubKey = s := Option.some.inj hs
      subst this
      have h38' : 6 + 32 ≤ o.scriptPubKey.length := by omega
      simp [ho, h38', hm]
  · intro hno
    have hno' := fun h => hno ((commitmentOk_iff cb rest).mpr h)
    have hres := commitLoop_result cb
    unfold checkCommitment
    simp only [hl, List.getElem?_cons_zero]
    match hw : cb.wit with
    | [] => simp [reject]
    | [] :: _ => simp [reject]
    | (a :: b :: _) :: _ => simp [reject]
    | [nonce] :: tail =>
      simp only [List.getElem?_cons_zero, List.length_singleton, ne_eq, not_true_eq_false, if_false]
      by_cases h32 : nonce.length = 32
      swap
      · simp [h32, reject]
      simp only [h32, not_true_eq_false, if_false]
      unfold witnessCommitmentIndex
      simp only [List.length_cons, Nat.add_one_ne_zero, if_false, List.getElem?_cons_zero]
      cases hci : commitLoop cb.vout 0 none with
      | none => simp [reject]
      | some i =>
        rw [hci] at hres
        simp only at hres
        obtain ⟨o, ho, hs, h38⟩ := hres
        have h38' : 6 + 32 ≤ o.scriptPubKey.length := by omega
        have hne : (o.scriptPubKey.drop 6).take 32 ≠ hash256 (root ++ nonce) := fun hm =>
          hno' ⟨nonce, tail, hw, h32, o.scriptPubKey, root, hs, hr, hm⟩
        simp [ho, h38', hne, reject]

/-! ### E. the per-transaction loop of CheckBlock -/

/-- what the loop, started at position `i` with txid set `seen` and count `sig`, accepts -/
def LoopOk (p : ChainParams) (txs : List Tx) (i : Nat) (seen : List Bytes) (sig : Nat) : Prop :=
  (∀ k t, txs[k]? = some t → 0 < i + k → t.isCoinbase = false) ∧
  (∀ t ∈ txs, ValidTxB p t) ∧
  (txs.map Spec.Merkle.txid).Nodup ∧
  (∀ t ∈ txs, Spec.Merkle.txid t ∉ seen) ∧
  sig + (txs.map Spec.BlockCheck.txSigOps).sum ≤ maxBlockSigops

theorem txLoop_spec (p : ChainParams) : ∀ (txs : List Tx) (i : Nat) (seen : List Bytes) (sig : Nat),
    (∀ t ∈ txs, TxRange t) → sig ≤ maxBlockSigops →
    IsVerdict (txLoop p txs i seen sig) ∧ (txLoop p txs i seen sig = .ok () ↔ LoopOk p txs i seen sig) := by
  intro txs
  induction txs with
  | nil =>
    intro i seen sig _ hsig
    refine ⟨Or.inl rfl, ?_⟩
    simp only [txLoop, true_iff]
    exact ⟨by intro k t h; simp at h, by simp, by simp, by simp, by simpa using hsig⟩
  | cons t rest ih =>
    intro i seen sig hr hsig
    have hrt := hr t (by simp)
    have hrr : ∀ t' ∈ rest, TxRange t' := fun t' h' => hr t' (by simp [h'])
    unfold txLoop
    by_cases hcb : (decide (i > 0) && t.isCoinbase) = true
    · simp only [hcb, if_true, reject]
      refine ⟨Or.inr rfl, ?_⟩
      constructor
      · intro h; cases h
      · intro ⟨h1, _⟩
        simp only [Bool.and_eq_true, decide_eq_true_eq] at hcb
        have := h1 0 t (by simp) (by omega)
        rw [this] at hcb; exact absurd hcb.2 (by simp)
    · have hcb' : (decide (i > 0) && t.isCoinbase) = false := by simpa using hcb
      simp only [hcb', Bool.false_eq_true, if_false]
      rw [checkTx_decideB p t hrt]
      by_cases hvt : ValidTxB p t
      swap
      · rw [if_neg hvt]
        refine ⟨Or.inr rfl, ?_⟩
        constructor
        · intro h; cases h
        · intro ⟨_, h2, _⟩; exact absurd (h2 t (by simp)) hvt
      rw [if_pos hvt]
      simp only [MerkleProofs.getTxid_ok t hrt, legacySigOpCount_eq]
      by_cases hseen : Spec.Merkle.txid t ∈ seen
      · simp only [hseen, if_true, reject]
        refine ⟨Or.inr rfl, ?_⟩
        constructor
        · intro h; cases h
        · intro ⟨_, _, _, h4, _⟩; exact absurd hseen (h4 t (by simp))
      simp only [hseen, if_false]
      by_cases hover : sig + Spec.BlockCheck.txSigOps t > maxBlockSigops
      · simp only [hover, if_true, reject]
        refine ⟨Or.inr rfl, ?_⟩
        constructor
        · intro h; cases h
        · intro ⟨_, _, _, _, h5⟩
          simp only [List.map_cons, List.sum_cons] at h5; omega
      simp only [hover, if_false]
      obtain ⟨hv, hi⟩ := ih (i + 1) (Spec.Merkle.txid t :: seen) (sig + Spec.BlockCheck.txSigOps t) hrr (by omega)
      refine ⟨hv, ?_⟩
      rw [hi]
      unfold LoopOk
      simp only [Bool.and_eq_false_iff, decide_eq_false_iff_not] at hcb'
      constructor
      · intro ⟨h1, h2, h3, h4, h5⟩
        refine ⟨?_, ?_, ?_, ?_, ?_⟩
        · intro k t' hk hpos
          cases k with
          | zero =>
            simp only [List.getElem?_cons_zero, Option.some.injEq] at hk
            subst hk
            rcases hcb' with h | h
            · omega
            · exact h
          | succ k' =>
            simp only [List.getElem?_cons_succ] at hk
            exact h1 k' t' hk (by omega)
        · intro t' ht'
          simp only [List.mem_cons] at ht'
          rcases ht' with rfl | ht'
          · exact hvt
          · exact h2 t' ht'
        · simp only [List.map_cons, List.nodup_cons]
          refine ⟨?_, h3⟩
          intro hmem
          simp only [List.mem_map] at hmem
          obtain ⟨t', ht', he⟩ := hmem
          exact (h4 t' ht') (by simp [he])
        · intro t' ht'
          simp only [List.mem_cons] at ht'
          rcases ht' with rfl | ht'
          · exact hseen
          · intro hm; exact (h4 t' ht') (by simp [hm])
        · simp only [List.map_cons, List.sum_cons]; omega
      · intro ⟨h1, h2, h3, h4, h5⟩
        simp only [List.map_cons, List.nodup_cons, List.sum_cons] at h3 h5
        refine ⟨?_, ?_, h3.2, ?_, by omega⟩
        · intro k t' hk _
          exact h1 (k + 1) t' (by simpa using hk) (by omega)
        · intro t' ht'; exact h2 t' (by simp [ht'])
        · intro t' ht' hm
          simp only [List.mem_cons] at hm
          rcases hm with hm | hm
          · exact h3.1 (List.mem_map.mpr ⟨t', ht', hm⟩)
          · exact (h4 t' (by simp [ht'])) hm

/-! ### F. CheckBlockHeader -/

theorem checkBlockHeader_decide (p : ChainParams) (hlim : p.powLimit < 2 ^ 256)
    (hH : ∀ x : Bytes, (hash256 x).length = 32) (h : Header) (hh : Spec.Wire.WFHeader h)
    (fPoW : Bool) (now : Int) :
    checkBlockHeader p h fPoW now =
      if Spec.BlockCheck.ValidHeader p now fPoW h then .ok () else .error .validation := by
  have hbits : h.nBits < 2 ^ 32 := hh.2.2.2.2.2.1
  have hpow := C17.pow_iff p.powLimit hlim (hash256 (Spec.Wire.header h)) (hH _) h.nBits hbits
  have e : now + 2 * 60 * 60 = now + 7200 := by omega
  unfold checkBlockHeader
  rw [e]
  apply decide_of_cases
  · intro ⟨h1, h2⟩
    have ht : ¬ ((h.nTime : Int) > now + 7200) := by omega
    cases fPoW with
    | false => simp only [Bool.false_eq_true, if_false, ht]
    | true =>
      have hp := hpow.mpr (h1 rfl)
      simp only [if_true, serHeader_ok h hh, checkPoW, hp, ht, if_false]
  · intro hno
    cases fPoW with
    | false =>
      have ht : (h.nTime : Int) > now + 7200 := by
        by_cases hc : (h.nTime : Int) > now + 7200
        · exact hc
        · exact absurd ⟨(fun hf => by cases hf), (by omega)⟩ hno
      simp only [Bool.false_eq_true, if_false, ht, if_true, reject]
    | true =>
      simp only [if_true, serHeader_ok h hh, checkPoW]
      cases hc : Model.checkPoW p.powLimit (hash256 (Spec.Wire.header h)) h.nBits with
      | errPow => simp only [reject]
      | pyStructError =>
        have h32 : 32 ≤ (hash256 (Spec.Wire.header h)).length := by rw [hH]
        rcases C17.pow_reject_is_validation p.powLimit _ h32 h.nBits with h' | h' <;>
          simp [hc] at h'
      | ok =>
        have hv := hpow.mp hc
        have ht : (h.nTime : Int) > now + 7200 := by
          by_cases hc' : (h.nTime : Int) > now + 7200
          · exact hc'
          · exact absurd ⟨fun _ => hv, by omega⟩ hno
        simp only [ht, if_true, reject]

/-! ### G. CheckBlock -/

theorem lastOf_ok_ne_nil {tree : List Bytes} {r : Bytes} (h : lastOf tree = .ok r) : tree.length ≠ 0 := by
  cases tree with
  | nil => simp [lastOf] at h
  | cons _ _ => simp

theorem checkBlock_decideB (p : ChainParams) (hlim : p.powLimit < 2 ^ 256)
    (hH : ∀ x : Bytes, (hash256 x).length = 32) (b : Block) (hb : BlockRange b)
    (fPoW fMerkle : Bool) (now : Int) :
    checkBlock p b fPoW fMerkle now =
      if ValidBlockB p now fPoW fMerkle b then .ok () else .error .validation := by
  have hwfh := hb.1
  have hrt := hb.2.2
  unfold checkBlock checkBlockWith
  have hgh : getHeader b.hdr = .ok b.hdr := by simp [getHeader, hwfh.2.2.1, hwfh.2.2.2.1]
  rw [hgh]; dsimp only
  rw [checkBlockHeader_decide p hlim hH b.hdr hwfh fPoW now]
  by_cases hhdr : Spec.BlockCheck.ValidHeader p now fPoW b.hdr
  swap
  · have : ¬ ValidBlockB p now fPoW fMerkle b := fun hv => hhdr ⟨hv.1, hv.2.1⟩
    rw [if_neg hhdr, if_neg this]
  rw [if_pos hhdr]; dsimp only
  by_cases hlen : b.vtx.length = 0
  · have : ¬ ValidBlockB p now fPoW fMerkle b :=
      fun hv => hv.2.2.1 (List.eq_nil_of_length_eq_zero hlen)
    rw [if_pos hlen, if_neg this]; rfl
  rw [if_neg hlen, serBlock_false b hb]; dsimp only
  have hne : b.vtx ≠ [] := fun h => hlen (by simp [h])
  by_cases hsz : (Spec.Wire.header b.hdr ++ Spec.Wire.vec Spec.Wire.txLegacy b.vtx).length > maxBlockSize
  · have : ¬ ValidBlockB p now fPoW fMerkle b := fun hv => by
      have := hv.2.2.2.1; unfold Spec.Merkle.blockStripped at this; omega
    rw [if_pos hsz, if_neg this]; rfl
  rw [if_neg hsz, MerkleProofs.getWeight_ok b hb]; dsimp only
  by_cases hwt : Spec.Merkle.blockWeight b > maxBlockWeight
  · have : ¬ ValidBlockB p now fPoW fMerkle b := fun hv => by
      have := hv.2.2.2.2.1; omega
    rw [if_pos hwt, if_neg this]; rfl
  rw [if_neg hwt]
  obtain ⟨cb, rest, hvtx⟩ : ∃ cb rest, b.vtx = cb :: rest := by
    cases hq : b.vtx with
    | nil => exact absurd hq hne
    | cons cb rest => exact ⟨cb, rest, rfl⟩
  simp only [hvtx, List.getElem?_cons_zero]
  by_cases hcb : cb.isCoinbase = true
  swap
  · have : ¬ ValidBlockB p now fPoW fMerkle b := fun hv => by
      have := hv.2.2.2.2.2.1; rw [hvtx] at this; exact hcb this.1
    have hcb' : cb.isCoinbase = false := by simpa using hcb
    simp only [hcb', Bool.not_false, if_true]
    rw [if_neg this]; rfl
  simp only [hcb, Bool.not_true, Bool.false_eq_true, if_false]
  have hrt' : ∀ t ∈ cb :: rest, TxRange t := by rw [← hvtx]; exact hrt
  obtain ⟨hlv, hli⟩ := txLoop_spec p (cb :: rest) 0 [] 0 hrt' (by simp)
  by_cases hloop : LoopOk p (cb :: rest) 0 [] 0
  swap
  · have hrej : txLoop p (cb :: rest) 0 [] 0 = .error .validation := by
      rcases hlv with h | h
      · exact absurd (hli.mp h) hloop
      · exact h
    have : ¬ ValidBlockB p now fPoW fMerkle b := fun hv => by
      apply hloop
      obtain ⟨_, _, _, _, _, h6, h7, h8, h9, _⟩ := hv
      rw [hvtx] at h6 h7 h8 h9
      refine ⟨?_, h7, h8, by simp, by simpa using h9⟩
      intro k t hk hpos
      cases k with
      | zero => omega
      | succ k' =>
        simp only [List.getElem?_cons_succ] at hk
        exact h6.2 t (List.mem_of_getElem? hk)
    rw [hrej, if_neg this]
  rw [hli.mpr hloop]; dsimp only
  obtain ⟨hl1, hl2, hl3, _, hl5⟩ := hloop
  have hcbf : CoinbaseFirstOnlyB b.vtx := by
    rw [hvtx]
    refine ⟨hcb, ?_⟩
    intro t ht
    obtain ⟨k, hk⟩ := List.getElem?_of_mem ht
    exact hl1 (k + 1) t (by simpa using hk) (by omega)
  have hbase : (fPoW = true → Spec.powValid p.powLimit (hash256 (Spec.Wire.header b.hdr)) b.hdr.nBits) ∧
      (b.hdr.nTime : Int) ≤ now + 7200 ∧ b.vtx ≠ [] ∧
      (Spec.Merkle.blockStripped b).length ≤ maxBlockSize ∧ Spec.Merkle.blockWeight b ≤ maxBlockWeight ∧
      CoinbaseFirstOnlyB b.vtx ∧ (∀ t ∈ b.vtx, ValidTxB p t) ∧
      (b.vtx.map Spec.Merkle.txid).Nodup ∧ (b.vtx.map Spec.BlockCheck.txSigOps).sum ≤ maxBlockSigops := by
    refine ⟨hhdr.1, hhdr.2, hne, by unfold Spec.Merkle.blockStripped; omega, by omega, hcbf, ?_, ?_, ?_⟩
    · rw [hvtx]; exact hl2
    · rw [hvtx]; exact hl3
    · rw [hvtx]; simpa using hl5
  obtain ⟨b1, b2, b3, b4, b5, b6, b7, b8, b9⟩ := hbase
  cases fMerkle with
  | false =>
    have : ValidBlockB p now fPoW false b :=
      ⟨b1, b2, b3, b4, b5, b6, b7, b8, b9, fun h => by cases h⟩
    simp only [Bool.false_eq_true, if_false]
    rw [if_pos this]
  | true =>
    simp only [if_true]
    have hrt'' : ∀ t ∈ cb :: rest, TxRange t := hrt'
    obtain ⟨_, r, _, _, hcm, hsm⟩ := MerkleProofs.calcMerkleRoot_spec (cb :: rest) (by simp) hrt''
    rw [hcm]; dsimp only
    by_cases hroot : b.hdr.hashMerkleRoot ≠ r
    · have : ¬ ValidBlockB p now fPoW true b := fun hv => by
        have := (hv.2.2.2.2.2.2.2.2.2 rfl).1
        rw [hvtx, hsm] at this
        exact hroot (Option.some.inj this).symm
      rw [if_pos hroot, if_neg this]; rfl
    rw [if_neg hroot]
    have hroot' : Spec.Merkle.merkleRoot b.vtx = some b.hdr.hashMerkleRoot := by
      rw [hvtx, hsm]; simp only [ne_eq, not_not] at hroot; rw [hroot]
    obtain ⟨hnone, hsome⟩ := MerkleProofs.buildWitnessTree_spec (cb :: rest) hrt''
    cases hany : (cb :: rest).any (·.hasWitness) with
    | false =>
      rw [hnone hany]
      have : ValidBlockB p now fPoW true b := by
        refine ⟨b1, b2, b3, b4, b5, b6, b7, b8, b9, fun _ => ⟨hroot', ?_⟩⟩
        rintro ⟨t, ht, hw⟩
        rw [hvtx] at ht
        have := List.any_eq_false.mp hany t ht
        simp [hw] at this
      simp only [Option.getD_none, List.length_nil, ne_eq, not_true_eq_false, if_false]
      rw [if_pos this]
    | true =>
      obtain ⟨tree, wr, hbt, hlast, hwr⟩ := hsome hany
      rw [hbt]
      simp only [Option.getD_some, ne_eq, lastOf_ok_ne_nil hlast, not_false_eq_true, if_true]
      rw [checkCommitment_decide cb rest tree wr hlast hwr]
      have hex : ∃ t ∈ b.vtx, t.hasWitness = true := by
        rw [hvtx]; exact List.any_eq_true.mp hany
      by_cases hcm' : Spec.BlockCheck.CommitmentOk (cb :: rest)
      · have : ValidBlockB p now fPoW true b :=
          ⟨b1, b2, b3, b4, b5, b6, b7, b8, b9, fun _ => ⟨hroot', fun _ => by rw [hvtx]; exact hcm'⟩⟩
        rw [if_pos hcm', if_pos this]
      · have : ¬ ValidBlockB p now fPoW true b := fun hv => by
          have := (hv.2.2.2.2.2.2.2.2.2 rfl).2 hex
          rw [hvtx] at this
          exact hcm' this
        rw [if_neg hcm', if_neg this]

/-! ### the same two decisions against the Spec's own formulation -/

theorem checkTx_decide (p : ChainParams) (t : Tx) (h : TxRange t) :
    checkTx p t = if Spec.BlockCheck.ValidTx p t then .ok () else .error .validation := by
  rw [checkTx_decideB p t h]
  exact (ite_iff (validTx_iff p t) _ _).symm

theorem checkBlock_decide (p : ChainParams) (hlim : p.powLimit < 2 ^ 256)
    (hH : ∀ x : Bytes, (hash256 x).length = 32) (b : Block) (hb : BlockRange b)
    (fPoW fMerkle : Bool) (now : Int) :
    checkBlock p b fPoW fMerkle now =
      if Spec.BlockCheck.ValidBlock p now fPoW fMerkle b then .ok () else .error .validation := by
  have h := checkBlock_decideB p hlim hH b hb fPoW fMerkle now
  rw [h]
  by_cases hv : ValidBlockB p now fPoW fMerkle b
  · rw [if_pos hv, if_pos ((validBlock_iff p now fPoW fMerkle b).mpr hv)]
  · rw [if_neg hv, if_neg (fun hq => hv ((validBlock_iff p now fPoW fMerkle b).mp hq))]

end BtcVerif.BlockCheckProofs
