/-
  C06 — simulation between the model of scripteval.py and the reference interpreter: vocabulary,
  `_CastToBool`, and the correspondence between `raw_iter` and `CScript::GetOp`.
-/
import BtcVerif.Proofs.ScriptEvalBasic
import BtcVerif.Spec.ScriptRef

namespace BtcVerif.Model.ScriptEval
open BtcVerif BtcVerif.Spec BtcVerif.Spec.Script BtcVerif.Model.Script

/-- the reference state that corresponds to a model state; `code` is `[pbegincodehash, pend)` -/
def toRef (st : St) (code : Bytes) : Ref.State := ⟨st.stack, st.alt, st.vfExec, code, st.nOpCount⟩

/-- one opcode arm: the model succeeds exactly when the reference does, with corresponding
    states (and an unchanged `pbegincodehash`); any model error ↔ the reference returns false -/
def Sim (code : Bytes) (st : St) (m : M St) (r : Option Ref.State) : Prop :=
  match m with
  | .ok st' => r = some (toRef st' code) ∧ st'.pbegin = st.pbegin ∧ st'.nOpCount = st.nOpCount
  | .error _ => r = none

/-- the exception `raiseNamed` raises (EvalScriptError, or KeyError if the opcode had no name) -/
def namedErr (sop : Nat) (st : St) : Err :=
  match opcodeName? sop with
  | none => .py "KeyError"
  | some _ => .eval st.cap

@[simp] theorem raiseNamed_eq {α} (sop : Nat) (st : St) :
    (raiseNamed sop st : M α) = .error (namedErr sop st) := by
  unfold raiseNamed namedErr; cases opcodeName? sop <;> rfl

@[simp] theorem raise_eq {α} (st : St) : (raise st : M α) = .error (.eval st.cap) := rfl

/-! ### `_CastToBool` = `CastToBool` -/

theorem castToBoolFrom_eq (len i : Nat) (s : Bytes) (h : i + s.length = len) :
    castToBoolFrom len i s = Ref.castToBool s := by
  induction s generalizing i with
  | nil => rfl
  | cons b r ih =>
    cases r with
    | nil =>
      simp only [List.length_cons, List.length_nil] at h
      simp only [castToBoolFrom, Ref.castToBool]
      have hi : i = len - 1 := by omega
      by_cases hb : b.toNat = 0
      · simp [hb]
      · by_cases h8 : b.toNat = 0x80
        · simp [h8, hi]
        · simp [hb, h8]
    | cons b2 r2 =>
      simp only [List.length_cons] at h
      rw [castToBoolFrom, Ref.castToBool]
      · by_cases hb : b.toNat = 0
        · simp only [hb, ne_eq, not_true_eq_false, if_false, decide_false, Bool.false_or]
          exact ih (i + 1) (by simp only [List.length_cons]; omega)
        · have hi : ¬ (i = len - 1) := by omega
          simp [hb, hi]
      · simp

theorem castToBool_eq (s : Bytes) : castToBool s = Ref.castToBool s :=
  castToBoolFrom_eq s.length 0 s (by omega)

end BtcVerif.Model.ScriptEval
