/-
  C09 helper lemmas, part 22: simulation of `CBlock(…, vtx=[…])`.
-/
import BtcVerif.Proofs.HeapBlock

namespace BtcVerif.Model.Heap
open BtcVerif BtcVerif.Spec.ValueSem

/-- the name denotes a transaction, on both sides -/
def TxAt (h : Heap) (a : Addr) (e : Entry) (t : Tx) : Prop :=
  ∃ ta, unfoldA D h a = some ta ∧ decode ta = some (.tx t) ∧ ta.isMut = e.isMut ∧ e.val = .tx t

theorem mapO_cons_some {α β : Type} {f : α → Option β} {a : α} {as : List α} {b : β} {bs : List β}
    (h1 : f a = some b) (h2 : mapO f as = some bs) : mapO f (a :: as) = some (b :: bs) := by
  simp [mapO, h1, h2]

theorem mapO_cons_none_left {α β : Type} {f : α → Option β} {a : α} {as : List α} (h1 : f a = none) :
    mapO f (a :: as) = none := by simp [mapO, h1]

theorem mapO_cons_none_right {α β : Type} {f : α → Option β} {a : α} {as : List α}
    (h2 : mapO f as = none) : mapO f (a :: as) = none := by
  simp only [mapO]; cases f a <;> simp [h2]

/-- looking up the transactions of the block -/
theorem txs_sim {s : St} {sp : Store} (hinv : Inv s) (hrel : Rel s sp) : ∀ (txs : List Nat),
    (mapO (lookupTx sp) txs = none ∧
      (mapO s.root txs = none ∨ ∃ addrs, mapO s.root txs = some addrs ∧ mapO (entryAt s.heap) addrs = none)) ∨
    (∃ addrs es, mapO s.root txs = some addrs ∧ mapO (entryAt s.heap) addrs = some es ∧
      mapO (lookupTx sp) txs = some es ∧ addrs.length = es.length ∧
      ∀ (i : Nat) (a : Addr) (et : Entry × Tx), addrs[i]? = some a → es[i]? = some et → TxAt s.heap a et.1 et.2)
  | [] => Or.inr ⟨[], [], rfl, rfl, rfl, rfl, fun i a et h => by simp at h⟩
  | r :: rs => by
    have ih := txs_sim hinv hrel rs
    rcases root_tx_sim hinv hrel r with ⟨h1, h2⟩ | ⟨a, e, ta, h1, h2, hu, hd, hm, _, habs⟩
    · left
      exact ⟨mapO_cons_none_left (by simp [lookupTx, h2]), Or.inl (mapO_cons_none_left h1)⟩
    · have hu' := hu
      rw [D_eq] at hu'
      obtain ⟨o, kids, ho, _, hta⟩ := unfoldA_succ hu'
      have hom : o.isMut = e.isMut := by rw [← hm, hta]; rfl
      cases hval : e.val with
      | tx tv =>
        have hent : entryAt s.heap a = some (e, tv) := by
          simp only [entryAt, ho, habs, hval]
          cases e with | mk em ev => simp only at hval hom; subst hval; rw [hom]
        have hlk : lookupTx sp r = some (e, tv) := by simp [lookupTx, h2, hval]
        rcases ih with ⟨i1, i2⟩ | ⟨addrs, es, i1, i2, i3, i4, i5⟩
        · left
          refine ⟨mapO_cons_none_right i1, ?_⟩
          rcases i2 with i2 | ⟨addrs, i2, i3⟩
          · exact Or.inl (mapO_cons_none_right i2)
          · exact Or.inr ⟨a :: addrs, mapO_cons_some h1 i2, mapO_cons_none_right i3⟩
        · right
          refine ⟨a :: addrs, (e, tv) :: es, mapO_cons_some h1 i1, mapO_cons_some hent i2,
            mapO_cons_some hlk i3, by simp [i4], ?_⟩
          intro i a' et ha' het
          cases i with
          | zero =>
            simp at ha' het; subst ha'; subst het
            exact ⟨ta, hu, by rw [← hval]; exact hd, hm, hval⟩
          | succ i => simp at ha' het; exact i5 i a' et ha' het
      | _ =>
        left
        have hent : entryAt s.heap a = none := by simp [entryAt, ho, habs, hval]
        have hlk : lookupTx sp r = none := by simp [lookupTx, h2, hval]
        refine ⟨mapO_cons_none_left hlk, ?_⟩
        cases hr : mapO s.root rs with
        | none => exact Or.inl (mapO_cons_none_right hr)
        | some addrs => exact Or.inr ⟨a :: addrs, mapO_cons_some h1 hr, mapO_cons_none_left hent⟩

theorem newBlockVal_ok {hdr : Header} {es : List (Entry × Tx)} {b : Block} (h : newBlockVal hdr es = .ok b) :
    b.vtx = es.map (·.2) := by
  simp only [newBlockVal] at h
  cases hh : newBlockHdr hdr es with
  | error x => simp [hh] at h
  | ok hd => simp [hh] at h; rw [← h]

/-- the tuple of snapshots allocated for the block -/
theorem chain_clones {h1 : Heap} (hic : ImmClosed h1) (hk : KindOK h1) :
    ∀ {addrs : List Addr} {plans : List Plan} {es : List (Entry × Tx)} {lo hi : Nat} {kids : List ATree},
      mapO (planClone false txFuel h1) addrs = some plans →
      addrs.length = es.length →
      (∀ (i : Nat) (a : Addr) (et : Entry × Tx), addrs[i]? = some a → es[i]? = some et →
        ∃ ta, unfoldA txFuel h1 a = some ta ∧ decode ta = some (.tx et.2)) →
      Chain (PT h1 txFuel) plans lo hi kids →
      mapO decode kids = some ((es.map (·.2)).map .tx) ∧ ∀ k ∈ kids, flagsOK false k := by
  intro addrs plans es lo hi kids hp hlen hta hch
  have hl1 := mapO_length hp
  have hl2 := Chain.length_eq hch
  have hpoint : ∀ (i : Nat) (k : ATree), kids[i]? = some k →
      ∃ et, es[i]? = some et ∧ decode k = some (.tx et.2) ∧ flagsOK false k := by
    intro i k hki
    have hi : i < kids.length := (List.getElem?_eq_some_iff.mp hki).1
    have hia : i < addrs.length := by omega
    have hie : i < es.length := by omega
    obtain ⟨ta, hu, hd⟩ := hta i addrs[i] es[i] (List.getElem?_eq_getElem hia) (List.getElem?_eq_getElem hie)
    obtain ⟨pl, hpl, hpc⟩ := mapO_getElem hp i addrs[i] (List.getElem?_eq_getElem hia)
    obtain ⟨lo', hi', hpt⟩ := Chain.get hch i pl k hpl hki
    obtain ⟨hdk, _, hfl⟩ := clone_tree hic hk false hu hpc hpt
    exact ⟨es[i], List.getElem?_eq_getElem hie, by rw [hdk]; exact hd, by simpa using hfl⟩
  constructor
  · rw [show some ((es.map (·.2)).map Val.tx) = mapO (fun et : Entry × Tx => some (Val.tx et.2)) es from by
      clear hta hpoint hlen
      induction es with
      | nil => rfl
      | cons e es ih => simp [mapO, ← ih]]
    apply mapO_congr_idx (by omega)
    intro i k et hk' het
    obtain ⟨et', het', hd, _⟩ := hpoint i k hk'
    rw [het] at het'; cases het'
    exact hd
  · intro k hk'
    obtain ⟨i, hi, rfl⟩ := List.getElem_of_mem hk'
    obtain ⟨_, _, _, hfl⟩ := hpoint i kids[i] (List.getElem?_eq_getElem hi)
    exact hfl

theorem sim_newBlock {s : St} {sp : Store} (hinv : Inv s) (hrel : Rel s sp) (hdr : Header) (txs : List Nat) :
    Sim s sp (.newBlock hdr txs) := by
  simp only [Sim, step, Spec.ValueSem.step]
  rcases txs_sim hinv hrel txs with ⟨i1, i2⟩ | ⟨addrs, es, i1, i2, i3, i4, i5⟩
  · rw [i1]
    rcases i2 with i2 | ⟨addrs, i2, i3⟩
    · rw [i2]; exact ⟨inv_skip hinv, rel_skip hrel, rfl⟩
    · rw [i2]; simp only [i3]; exact ⟨inv_skip hinv, rel_skip hrel, trivial⟩
  · rw [i1, i3]
    simp only [i2]
    cases hb : newBlockVal hdr es with
    | error x => exact ⟨inv_skip hinv, rel_skip hrel, rfl⟩
    | ok b =>
      simp only []
      have hvtx := newBlockVal_ok hb
      -- the cache fills
      have hsame := fillHashes_ok hinv addrs
      generalize fillHashes s.heap addrs = h1 at hsame
      have hinv1 : Inv { s with heap := h1 } := hsame.inv
      -- the transactions in the heap after the fills, with the fuel of their depth
      have hta : ∀ (i : Nat) (a : Addr) (et : Entry × Tx), addrs[i]? = some a → es[i]? = some et →
          ∃ ta, unfoldA txFuel h1 a = some ta ∧ decode ta = some (.tx et.2) := by
        intro i a et ha het
        obtain ⟨ta, hu, hd, _, _⟩ := i5 i a et ha het
        have hdep := decode_depth ta _ hd
        exact ⟨ta, unfoldA_lower txFuel (hsame.unf a ta hu) (by simp [vdepth] at hdep; simp [txFuel]; omega), hd⟩
      obtain ⟨plans, hplans⟩ := mapO_some_of_forall (f := planClone false txFuel h1) (l := addrs) (by
        intro a ha
        obtain ⟨i, hi, rfl⟩ := List.getElem_of_mem ha
        have hie : i < es.length := by omega
        obtain ⟨ta, hu, _⟩ := hta i addrs[i] es[i] (List.getElem?_eq_getElem hi) (List.getElem?_eq_getElem hie)
        exact planClone_some false hu)
      simp only [hplans]
      -- the plan of the block is good
      have hpl : ∀ pl ∈ plans, PlanGood h1 txFuel pl ∧ rootImm h1 pl := by
        intro pl hpl
        obtain ⟨i, hi, rfl⟩ := List.getElem_of_mem hpl
        obtain ⟨a, hai, hpa⟩ := mapO_getElem' hplans i plans[i] (List.getElem?_eq_getElem hi)
        have hia : i < addrs.length := (List.getElem?_eq_some_iff.mp hai).1
        have hie : i < es.length := by omega
        obtain ⟨ta, hu, _⟩ := hta i a es[i] hai (List.getElem?_eq_getElem hie)
        obtain ⟨g1, g2, g3, g4, g5⟩ := planClone_ok hinv1.kindOK false hu hpa
        exact ⟨⟨g1, g4, g3, g2⟩, g5 rfl⟩
      have hgood : PlanGood h1 D (.node false (.block b.hdr) [.node false (.seq .txs) plans]) := by
        have hD : D = txFuel + 2 := rfl
        rw [hD]
        refine ⟨?_, ?_, ?_, ?_⟩
        · simp only [Fits, List.mem_singleton, forall_eq]
          exact fun pl hpl' => (hpl pl hpl').1.fits
        · simp only [PlanAll, List.mem_singleton, forall_eq]
          exact ⟨fun _ => rfl, fun _ => rfl, fun pl hpl' => (hpl pl hpl').1.all⟩
        · simp only [ImmPlan, List.mem_singleton, forall_eq, rootImm, true_and, forall_const]
          exact ⟨fun pl hpl' => (hpl pl hpl').2, fun pl hpl' => (hpl pl hpl').1.imm⟩
        · simp only [RefsImm, List.mem_singleton, forall_eq]
          exact fun pl hpl' => (hpl pl hpl').1.refs
      obtain ⟨ee, t', he, hnew, hic, ht', hpt, hcnt⟩ := alloc_good (s := { s with heap := h1 }) hinv1 hgood
      -- shape and value of the allocated tree
      have hD : D = txFuel + 2 := rfl
      rw [hD] at hpt
      cases t' with | node a' m' sc' kids' =>
      simp only [PT] at hpt
      obtain ⟨_, _, rfl, rfl, hch⟩ := hpt
      match kids', hch with
      | [ks], hch =>
        simp only [Chain] at hch
        obtain ⟨mid, hks, _⟩ := hch
        cases ks with | node as ms scs kk =>
        simp only [PT] at hks
        obtain ⟨_, _, rfl, rfl, hchk⟩ := hks
        obtain ⟨hdk, hflk⟩ := chain_clones hinv1.immClosed hinv1.kindOK hplans i4 hta hchk
        have hdec : decode (.node a' false (.block b.hdr) [.node as false (.seq .txs) kk]) = some (.block b) := by
          have h1d : decode (.node as false (.seq .txs) kk) = some (.txs (es.map (·.2))) := by
            rw [decode_node, hdk]; simp only [Option.bind_some, assemble, mapO_asTx_map, Option.map_some]
          rw [decode_node]
          simp only [mapO, h1d, Option.bind_some, assemble, ← hvtx]
        have hfl : flagsOK false (.node a' false (.block b.hdr) [.node as false (.seq .txs) kk]) := by
          refine ⟨rfl, ?_, trivial⟩
          refine ⟨rfl, flagsOKL_iff.mpr ?_⟩
          intro k hk
          simpa using hflk k hk
        -- Inv and Rel of the new state
        have hinv2 := inv_ext (s := { s with heap := h1 }) hinv1 he hnew hic (some _) (by
          intro a ha; cases ha
          exact ⟨_, _, ht', hdec, hfl, hcnt⟩)
        refine ⟨hinv2, ?_, trivial⟩
        have hrel1 : Rel { s with heap := h1 } sp := by
          refine ⟨hrel.1, ?_⟩
          intro r
          have := hrel.2 r
          show RelAt h1 (s.root r) _
          cases hr : s.root r <;> cases her : (sp[r]?).join <;> simp only [hr, her, RelAt] at this ⊢
          obtain ⟨t, hu, hd, hm⟩ := this
          exact ⟨t, hsame.unf _ t hu, hd, hm⟩
        exact rel_ext (s := { s with heap := h1 }) hrel1 he ⟨_, ht', hdec, rfl⟩

end BtcVerif.Model.Heap
