/-
  Helper lemmas for the independent characterisations of C08's predicates and counters:
  GetScriptOp on an explicit operation encoding, scripts as concatenations of operations,
  compositionality of parse / sigop counting.
-/
import BtcVerif.Proofs.C08Shape

set_option linter.unusedSimpArgs false

namespace BtcVerif
open BtcVerif.Spec.Script BtcVerif.Model.Script

theorem getOp_valid {s : Bytes} {o : Nat} {d rest : Bytes} (hg : getOp s = some (o, d, rest)) :
    ValidOp o d := by
  obtain ⟨_, ho, hd⟩ := getOp_enc hg
  refine ⟨ho, ?_⟩
  by_cases h1 : o > 0x4e
  · simp only [h1, if_true]; exact hd h1
  · obtain ⟨l1, l2, _⟩ := getOp_push_len hg (by omega)
    simp only [h1, if_false]
    by_cases h2 : o < 0x4c
    · simp only [h2, if_true]; exact l1 h2
    · simp only [h2, if_false]; exact l2 (by omega)

/-- GetScriptOp reads back any valid operation encoding, whatever follows it -/
theorem getOp_opEnc {o : Nat} {d : Bytes} (hv : ValidOp o d) (rest : Bytes) :
    getOp (opEnc o d ++ rest) = some (o, d, rest) := by
  obtain ⟨ho, hd⟩ := hv
  unfold opEnc
  by_cases h1 : o > 0x4e
  · simp only [h1, if_true] at hd ⊢
    subst hd
    simp [getOp, Nat.mod_eq_of_lt ho, show 78 < o by omega]
  · simp only [h1, if_false] at hd ⊢
    have hl : (leBytes (lenBytes o) d.length).length = lenBytes o := leBytes_length _ _
    have hds : declaredSize o (leBytes (lenBytes o) d.length ++ (d ++ rest)) = d.length := by
      unfold declaredSize
      by_cases h2 : o < 0x4c
      · simp only [h2, if_true] at hd ⊢; exact hd.symm
      · simp only [h2, if_false] at hd ⊢
        rw [List.take_left' hl, leNat_leBytes, Nat.mod_eq_of_lt hd]
    simp only [List.cons_append, List.append_assoc, getOp, u8_ofNat_toNat o ho, h1, if_false, hds,
      List.drop_left' hl, List.length_append, hl]
    rw [if_neg (by omega), if_neg (by omega)]
    simp

theorem opEnc_ne_nil (o : Nat) (d : Bytes) : opEnc o d ≠ [] := by
  unfold opEnc; split <;> simp

theorem parse_of_getOp {s : Bytes} {o : Nat} {d rest : Bytes} (hg : getOp s = some (o, d, rest)) :
    parse s = ((o, d) :: (parse rest).1, (parse rest).2) := by
  rcases s with _ | ⟨b, t⟩
  · simp [getOp] at hg
  · rw [parse_cons, hg]

theorem parse_of_getOp_none {s : Bytes} (hs : s ≠ []) (hg : getOp s = none) : parse s = ([], false) := by
  rcases s with _ | ⟨b, t⟩
  · exact absurd rfl hs
  · rw [parse_cons, hg]

/-- GetScriptOp does not look past the operation it reads -/
theorem getOp_append {s : Bytes} {o : Nat} {d r : Bytes} (hg : getOp s = some (o, d, r)) (x : Bytes) :
    getOp (s ++ x) = some (o, d, r ++ x) := by
  obtain ⟨hs, _, _⟩ := getOp_enc hg
  rw [hs, List.append_assoc]
  exact getOp_opEnc (getOp_valid hg) _

/-- a script parses completely into `ops` exactly when it is the concatenation of the encodings of
    the valid operations `ops` -/
theorem parse_iff (ops : List (Nat × Bytes)) : ∀ s : Bytes,
    parse s = (ops, true) ↔ (∀ p ∈ ops, ValidOp p.1 p.2) ∧ s = encOps ops := by
  induction ops with
  | nil =>
    intro s
    constructor
    · intro h
      rcases s with _ | ⟨b, t⟩
      · simp [encOps]
      · rw [parse_cons] at h
        rcases hg : getOp (b :: t) with _ | ⟨o, d, rest⟩ <;> rw [hg] at h <;> simp at h
    · rintro ⟨_, h⟩
      simp only [encOps, List.map_nil, List.flatten_nil] at h
      subst h; exact parse_nil
  | cons p ops ih =>
    intro s
    obtain ⟨o, d⟩ := p
    constructor
    · intro h
      rcases s with _ | ⟨b, t⟩
      · rw [parse_nil] at h; simp at h
      · rw [parse_cons] at h
        rcases hg : getOp (b :: t) with _ | ⟨o', d', rest⟩
        · rw [hg] at h; simp at h
        · rw [hg] at h
          simp only [Prod.mk.injEq, List.cons.injEq] at h
          obtain ⟨⟨⟨rfl, rfl⟩, hops⟩, hok⟩ := h
          have hrest : parse rest = (ops, true) := by rw [← hops, ← hok]
          obtain ⟨hv, hr⟩ := (ih rest).mp hrest
          obtain ⟨hs, _, _⟩ := getOp_enc hg
          refine ⟨?_, ?_⟩
          · intro p hp
            simp only [List.mem_cons] at hp
            rcases hp with rfl | hp
            · exact getOp_valid hg
            · exact hv p hp
          · rw [hs, hr]; simp [encOps]
    · rintro ⟨hv, hs⟩
      have hv0 : ValidOp o d := hv (o, d) (by simp)
      have hse : s = opEnc o d ++ encOps ops := by rw [hs]; simp [encOps]
      have hg := getOp_opEnc hv0 (encOps ops)
      rw [← hse] at hg
      have hrest := (ih (encOps ops)).mpr ⟨fun p hp => hv p (by simp [hp]), rfl⟩
      rw [parse_of_getOp hg, hrest]

/-- every operation GetScriptOp reads is a valid operation -/
theorem parse_ops_valid (s : Bytes) : ∀ p ∈ (parse s).1, ValidOp p.1 p.2 := by
  generalize hn : s.length = n
  induction n using Nat.strongRecOn generalizing s with
  | _ n ih =>
    rcases s with _ | ⟨x, t⟩
    · simp [parse_nil]
    · rw [parse_cons]
      rcases hg : getOp (x :: t) with _ | ⟨o, d, rest⟩
      · simp
      · intro p hp
        simp only [List.mem_cons] at hp
        rcases hp with rfl | hp
        · exact getOp_valid hg
        · have hlt := getOp_rest_lt hg
          exact ih rest.length (by omega) rest rfl p hp

/-- parsing is compositional over a complete prefix -/
theorem parse_append (a b : Bytes) (ha : (parse a).2 = true) :
    parse (a ++ b) = ((parse a).1 ++ (parse b).1, (parse b).2) := by
  generalize hn : a.length = n
  induction n using Nat.strongRecOn generalizing a with
  | _ n ih =>
    rcases a with _ | ⟨x, t⟩
    · simp [parse_nil]
    · rw [parse_cons] at ha
      rcases hg : getOp (x :: t) with _ | ⟨o, d, rest⟩
      · rw [hg] at ha; simp at ha
      · rw [hg] at ha; simp only at ha
        have hlt := getOp_rest_lt hg
        have := ih rest.length (by omega) rest ha rfl
        rw [parse_of_getOp (getOp_append hg b), this, parse_of_getOp hg]
        simp

theorem truncated_getOp_none {r : Bytes} (h : TruncatedPush r) : getOp r = none := by
  obtain ⟨b, t, rfl, hb, ht⟩ := h
  simp only [getOp, show ¬ b.toNat > 0x4e by omega, if_false]
  rcases ht with ht | ht
  · simp [ht]
  · by_cases hw : t.length < lenBytes b.toNat
    · simp [hw]
    · simp only [hw, if_false, List.length_drop, ht, if_true]

/-- a complete prefix followed by a truncated push parses to the prefix's operations, incomplete -/
theorem parse_append_truncated (a b : Bytes) (ha : (parse a).2 = true) (hb : TruncatedPush b) :
    parse (a ++ b) = ((parse a).1, false) := by
  have hne : b ≠ [] := by obtain ⟨x, t, rfl, _⟩ := hb; simp
  rw [parse_append a b ha, parse_of_getOp_none hne (truncated_getOp_none hb)]
  simp

/-! ### signature-operation counting is compositional -/

theorem sigOpsFrom_append (acc : Bool) (l1 l2 : List (Nat × Bytes)) : ∀ last,
    sigOpsFrom acc last (l1 ++ l2) =
      sigOpsFrom acc last l1 + sigOpsFrom acc (lastOpcodeFrom last l1) l2 := by
  induction l1 with
  | nil => intro last; simp [sigOpsFrom, lastOpcodeFrom]
  | cons p r ih =>
    intro last
    obtain ⟨o, d⟩ := p
    simp only [List.cons_append, sigOpsFrom, lastOpcodeFrom, ih o]
    omega

/-- the remembered opcode only matters when the next operation is CHECKMULTISIG(VERIFY) in accurate mode -/
theorem sigOpsFrom_last_irrelevant (acc : Bool) (l : List (Nat × Bytes)) (last last' : Nat)
    (h : acc = false ∨ ∀ p, l.head? = some p → p.1 ≠ 0xae ∧ p.1 ≠ 0xaf) :
    sigOpsFrom acc last l = sigOpsFrom acc last' l := by
  rcases l with _ | ⟨⟨o, d⟩, r⟩
  · simp [sigOpsFrom]
  · simp only [sigOpsFrom]
    rcases h with h | h
    · subst h; simp
    · have := h (o, d) (by simp)
      simp [this.1, this.2]

/-! ### fixed shapes -/

theorem shape2 (s : Bytes) (a b : UInt8) (n : Nat) :
    (decide (s.length = n + 2) && decide (s.take 2 = [a, b])) = true ↔
      ∃ h : Bytes, h.length = n ∧ s = [a, b] ++ h := by
  constructor
  · intro h
    simp only [Bool.and_eq_true, decide_eq_true_eq] at h
    refine ⟨s.drop 2, by simp [h.1], ?_⟩
    have := List.take_append_drop 2 s
    rw [h.2] at this; exact this.symm
  · rintro ⟨h, hl, rfl⟩; simp [hl]

theorem shape3 (s : Bytes) (a b c : UInt8) (n : Nat) :
    (decide (s.length = n + 3) && decide (s.take 3 = [a, b, c])) = true ↔
      ∃ h : Bytes, h.length = n ∧ s = [a, b, c] ++ h := by
  constructor
  · intro h
    simp only [Bool.and_eq_true, decide_eq_true_eq] at h
    refine ⟨s.drop 3, by simp [h.1], ?_⟩
    have := List.take_append_drop 3 s
    rw [h.2] at this; exact this.symm
  · rintro ⟨h, hl, rfl⟩; simp [hl]

theorem isP2sh_shape (s : Bytes) :
    isP2sh s = true ↔ ∃ h : Bytes, h.length = 20 ∧ s = [0xa9, 0x14] ++ h ++ [0x87] := by
  constructor
  · intro h
    rcases s with _ | ⟨a, _ | ⟨b, t⟩⟩
    · simp [isP2sh] at h
    · simp [isP2sh] at h
    · simp only [isP2sh, List.length_cons, Bool.and_eq_true, decide_eq_true_eq, List.getElem?_cons_zero,
        List.getElem?_cons_succ, Option.some.injEq] at h
      obtain ⟨⟨⟨hl, ha⟩, hb⟩, h22⟩ := h
      have hl' : t.length = 21 := by omega
      have hdl : (t.drop 20).length = 1 := by simp [hl']
      rcases hdr : t.drop 20 with _ | ⟨x, _ | ⟨y, r⟩⟩
      · rw [hdr] at hdl; simp at hdl
      · have hx : (t.drop 20)[0]? = t[20]? := by rw [List.getElem?_drop]
        rw [hdr, h22] at hx
        simp only [List.getElem?_cons_zero, Option.some.injEq] at hx
        refine ⟨t.take 20, by simp [hl'], ?_⟩
        have := List.take_append_drop 20 t
        rw [hdr, hx] at this
        rw [ha, hb]; simp [this]
      · rw [hdr] at hdl; simp at hdl
  · rintro ⟨h, hl, rfl⟩
    simp [isP2sh, hl, List.getElem?_append_right]

/-- witness programs: version opcode OP_0/OP_1..OP_16, then one direct push of 2..40 bytes, nothing else -/
theorem isWitnessProgram_shape (s : Bytes) :
    (isWitnessProgram s).isSome = true ↔
      ∃ v : Nat, ∃ prog : Bytes, v ≤ 16 ∧ 2 ≤ prog.length ∧ prog.length ≤ 40 ∧
        s = [UInt8.ofNat (opN v), UInt8.ofNat prog.length] ++ prog := by
  constructor
  · intro h
    unfold isWitnessProgram at h
    by_cases hsz : s.length < 4 ∨ s.length > 42
    · simp [hsz] at h
    · simp only [hsz, if_false] at h
      rcases s with _ | ⟨a, _ | ⟨l, prog⟩⟩
      · simp at h
      · simp at h
      · simp only [List.length_cons] at hsz h
        by_cases c1 : (a.toNat ≠ 0 ∧ (a.toNat < 0x51 ∨ a.toNat > 0x60))
        · simp [c1] at h
        · simp only [c1, if_false] at h
          by_cases c2 : l.toNat + 2 = prog.length + 1 + 1
          · refine ⟨decodeOPN a.toNat, prog, ?_, by omega, by omega, ?_⟩
            · unfold decodeOPN; split <;> omega
            · have ea : a = UInt8.ofNat (opN (decodeOPN a.toNat)) := by
                apply u8_eq_of_toNat
                unfold opN decodeOPN
                by_cases hz : a.toNat = 0
                · simp [hz]
                · have : ¬ a.toNat - 80 = 0 := by omega
                  simp only [hz, this, if_false]
                  rw [u8_ofNat_toNat _ (by omega)]; omega
              have el : l = UInt8.ofNat prog.length := by
                apply u8_eq_of_toNat; rw [u8_ofNat_toNat _ (by omega)]; omega
              rw [← ea, ← el]; rfl
          · simp [c2] at h; omega
  · rintro ⟨v, prog, hv, h2, h40, rfl⟩
    have hl : (UInt8.ofNat prog.length).toNat = prog.length := u8_ofNat_toNat _ (by omega)
    have ho : (UInt8.ofNat (opN v)).toNat = opN v := u8_ofNat_toNat _ (by unfold opN; split <;> omega)
    unfold isWitnessProgram
    simp only [List.cons_append, List.nil_append, List.length_cons, hl, ho]
    rw [if_neg (by omega), if_neg (by unfold opN; split <;> omega)]
    simp

/-! ### sigop laws at the reference level -/

theorem parse_single {o : Nat} {d : Bytes} (hv : ValidOp o d) : parse (opEnc o d) = ([(o, d)], true) := by
  apply (parse_iff [(o, d)] _).mpr
  refine ⟨by simpa using hv, by simp [encOps]⟩

theorem parse_head_opcode (x : UInt8) (t : Bytes) (p : Nat × Bytes)
    (h : (parse (x :: t)).1.head? = some p) : p.1 = x.toNat := by
  rw [parse_cons] at h
  rcases hg : getOp (x :: t) with _ | ⟨o, d, rest⟩
  · rw [hg] at h; simp at h
  · rw [hg] at h
    simp only [List.head?_cons, Option.some.injEq] at h
    subst h
    simp only [getOp] at hg
    split at hg
    · simp at hg; exact hg.1.symm
    · split at hg
      · simp at hg
      · split at hg
        · simp at hg
        · simp at hg; exact hg.1.symm

theorem sigOpCount_append (acc : Bool) (a b : Bytes) (ha : (parse a).2 = true) :
    sigOpCount acc (a ++ b) =
      sigOpCount acc a + sigOpsFrom acc (lastOpcodeFrom 0xff (parse a).1) (parse b).1 := by
  unfold sigOpCount
  rw [parse_append a b ha, sigOpsFrom_append]

theorem sigOpCount_append_add (acc : Bool) (a b : Bytes) (ha : (parse a).2 = true)
    (h : acc = false ∨ ∀ x, b.head? = some x → x.toNat ≠ 0xae ∧ x.toNat ≠ 0xaf) :
    sigOpCount acc (a ++ b) = sigOpCount acc a + sigOpCount acc b := by
  rw [sigOpCount_append acc a b ha]
  congr 1
  unfold sigOpCount
  apply sigOpsFrom_last_irrelevant
  rcases h with h | h
  · exact Or.inl h
  · right
    intro p hp
    rcases b with _ | ⟨x, t⟩
    · rw [parse_nil] at hp; simp at hp
    · rw [parse_head_opcode x t p hp]; exact h x rfl

theorem sigOpCount_truncated (acc : Bool) (a b : Bytes) (ha : (parse a).2 = true) (hb : TruncatedPush b) :
    sigOpCount acc (a ++ b) = sigOpCount acc a := by
  unfold sigOpCount
  rw [parse_append_truncated a b ha hb]

theorem sigOpCount_single (acc : Bool) {o : Nat} {d : Bytes} (hv : ValidOp o d) :
    sigOpCount acc (opEnc o d) =
      if o = 0xac ∨ o = 0xad then 1 else if o = 0xae ∨ o = 0xaf then 20 else 0 := by
  unfold sigOpCount
  rw [parse_single hv]
  simp [sigOpsFrom]

theorem sigOpCount_opn_multisig (k m : Nat) (hk : 1 ≤ k ∧ k ≤ 16) (hm : m = 0xae ∨ m = 0xaf) :
    sigOpCount true [UInt8.ofNat (0x50 + k), UInt8.ofNat m] = k := by
  have hv1 : ValidOp (0x50 + k) [] := ⟨by omega, by simp; omega⟩
  have hv2 : ValidOp m [] := ⟨by omega, by rcases hm with rfl | rfl <;> simp⟩
  have hp : parse [UInt8.ofNat (0x50 + k), UInt8.ofNat m] = ([(0x50 + k, []), (m, [])], true) := by
    apply (parse_iff _ _).mpr
    refine ⟨?_, ?_⟩
    · intro p hp; simp at hp; rcases hp with rfl | rfl <;> assumption
    · have c1 : 0x50 + k > 0x4e := by omega
      have c2 : m > 0x4e := by omega
      simp [encOps, opEnc, c1, c2]
  unfold sigOpCount
  rw [hp]
  have c3 : ¬ (0x50 + k = 0xac ∨ 0x50 + k = 0xad) := by omega
  have c4 : ¬ (0x50 + k = 0xae ∨ 0x50 + k = 0xaf) := by omega
  have c5 : ¬ (m = 0xac ∨ m = 0xad) := by omega
  simp only [sigOpsFrom, c3, c4, c5, hm, if_false, if_true, decodeOPN]
  have c6 : 0x51 ≤ 0x50 + k ∧ 0x50 + k ≤ 0x60 := by omega
  simp [c6] <;> omega

theorem encOps_snoc (ops : List (Nat × Bytes)) (p : Nat × Bytes) :
    encOps (ops ++ [p]) = encOps ops ++ opEnc p.1 p.2 := by
  simp [encOps]

theorem parse_encOps {ops : List (Nat × Bytes)} (hv : ∀ q ∈ ops, ValidOp q.1 q.2) :
    parse (encOps ops) = (ops, true) := (parse_iff ops _).mpr ⟨hv, rfl⟩

theorem lastOpcodeFrom_snoc (l : Nat) (ops : List (Nat × Bytes)) (p : Nat × Bytes) :
    lastOpcodeFrom l (ops ++ [p]) = p.1 := by
  induction ops generalizing l with
  | nil => obtain ⟨o, d⟩ := p; rfl
  | cons q r ih => obtain ⟨o, d⟩ := q; simp only [List.cons_append, lastOpcodeFrom, ih]

/-- appending one operation to a complete script adds exactly its weight given the opcode before it -/
theorem sigOpCount_snoc (acc : Bool) (ops : List (Nat × Bytes)) (o : Nat) (d : Bytes)
    (hv : ∀ q ∈ ops, ValidOp q.1 q.2) (ho : ValidOp o d) :
    sigOpCount acc (encOps ops ++ opEnc o d) =
      sigOpCount acc (encOps ops) + sigWeight acc (ops.getLast?.map (·.1)) o := by
  have hp : (parse (encOps ops)).2 = true := by rw [parse_encOps hv]
  rw [sigOpCount_append acc _ _ hp, parse_encOps hv, parse_single ho]
  congr 1
  simp only [sigOpsFrom, Nat.add_zero, sigWeight]
  rcases List.eq_nil_or_concat ops with rfl | ⟨r, q, rfl⟩
  · simp [lastOpcodeFrom]
  · simp only [List.concat_eq_append, lastOpcodeFrom_snoc, List.getLast?_append, List.getLast?_singleton,
      Option.some_or, Option.map_some, decodeOPN]
    by_cases h1 : o = 0xac ∨ o = 0xad
    · simp [h1]
    · by_cases h2 : o = 0xae ∨ o = 0xaf
      · simp only [h1, h2, if_false, if_true]
        by_cases h3 : acc = true ∧ 0x51 ≤ q.1 ∧ q.1 ≤ 0x60
        · have : ¬ q.1 = 0 := by omega
          simp [h3, this]
        · simp [h3]
      · simp [h1, h2]

/-! ### canonical pushes, per operation -/

theorem oneSmallByte_iff (d : Bytes) : oneSmallByte d = true ↔ ∃ x : UInt8, d = [x] ∧ x.toNat ≤ 16 := by
  rcases d with _ | ⟨x, _ | ⟨y, r⟩⟩ <;> simp [oneSmallByte]

/-- a push passes HasCanonicalPushes iff it is the builder's (shortest) encoding of its payload and
    the payload is not a single byte 0..16 (which OP_n expresses) -/
theorem canonicalPush_iff {o : Nat} {d : Bytes} (hv : ValidOp o d) :
    canonicalPush (o, d) = true ↔
      (o ≤ 0x4e → pushEncode d = some (opEnc o d) ∧ ¬ ∃ x : UInt8, d = [x] ∧ x.toNat ≤ 16) := by
  obtain ⟨ho, hd⟩ := hv
  rw [← oneSmallByte_iff]
  unfold canonicalPush
  by_cases h1 : o > 0x4e
  · have : ¬ o ≤ 0x4e := by omega
    by_cases h2 : o > 0x60
    · simp [h2, this]
    · have n1 : ¬ o < 0x4c := by omega
      have n2 : ¬ o = 0x4c := by omega
      have n3 : ¬ o = 0x4d := by omega
      have n4 : ¬ o = 0x4e := by omega
      simp [h2, this, n1, n2, n3, n4]
  · simp only [h1, if_false] at hd
    have h60 : ¬ o > 0x60 := by omega
    have hle : o ≤ 0x4e := by omega
    simp only [h60, if_false, hle, true_implies]
    by_cases h2 : o < 0x4c
    · simp only [h2, if_true] at hd
      have n2 : ¬ o = 0x4c := by omega
      have n3 : ¬ o = 0x4d := by omega
      have n4 : ¬ o = 0x4e := by omega
      have hpe : pushEncode d = some (opEnc o d) := by
        simp [pushEncode, opEnc, hd, h2, h1, lenBytes, leBytes]
      simp only [h2, n2, n3, n4, true_and, false_and, if_false, hpe, true_and]
      by_cases hs : oneSmallByte d = true
      · have : o > 0 := by
          obtain ⟨x, hx, _⟩ := (oneSmallByte_iff d).mp hs
          rw [hx] at hd; simp at hd; omega
        simp [hs, this]
      · simp [hs]
    · simp only [h2, if_false] at hd
      have hns : ∀ n, n ≥ 0x4c → d.length = n → oneSmallByte d = false := by
        intro n hn hl
        rcases d with _ | ⟨x, _ | ⟨y, r⟩⟩ <;> simp [oneSmallByte] at hl ⊢ <;> omega
      simp only [h2, false_and, if_false]
      by_cases h4 : o = 0x4c
      · subst h4
        simp only [lenBytes] at hd
        simp only [true_and, show ¬ (0x4c = 0x4d) by omega, show ¬ (0x4c = 0x4e) by omega, false_and, if_false]
        by_cases hl : d.length < 0x4c
        · have hne : pushEncode d ≠ some (opEnc 0x4c d) := by
            intro hc
            have := congrArg (Option.map List.length) hc
            simp [pushEncode, opEnc, hl, lenBytes] at this
          simp [hl, hne]
        · have hpe : pushEncode d = some (opEnc 0x4c d) := by
            have : d.length ≤ 0xff := by simp at hd; omega
            simp [pushEncode, opEnc, hl, this, lenBytes, leBytes, Nat.mod_eq_of_lt (show d.length < 256 by omega)]
          simp [hl, hpe, hns d.length (by omega) rfl]
      · by_cases h5 : o = 0x4d
        · subst h5
          simp only [lenBytes] at hd
          simp only [show ¬ (0x4d = 0x4c) by omega, show ¬ (0x4d = 0x4e) by omega, false_and, if_false, true_and]
          by_cases hl : d.length ≤ 0xff
          · have hne : pushEncode d ≠ some (opEnc 0x4d d) := by
              intro hc
              have := congrArg (Option.map List.length) hc
              by_cases h76 : d.length < 0x4c <;> simp [pushEncode, opEnc, hl, h76, lenBytes] at this <;> omega
            simp [hl, hne]
          · have hpe : pushEncode d = some (opEnc 0x4d d) := by
              have a1 : ¬ d.length < 0x4c := by omega
              have a2 : d.length ≤ 0xffff := by simp at hd; omega
              simp [pushEncode, opEnc, hl, a1, a2, lenBytes]
            simp [hl, hpe, hns d.length (by omega) rfl]
        · have h6 : o = 0x4e := by omega
          subst h6
          simp only [lenBytes] at hd
          simp only [show ¬ (0x4e = 0x4c) by omega, show ¬ (0x4e = 0x4d) by omega, false_and, if_false, true_and]
          by_cases hl : d.length ≤ 0xffff
          · have hne : pushEncode d ≠ some (opEnc 0x4e d) := by
              intro hc
              have := congrArg (Option.map List.length) hc
              by_cases h76 : d.length < 0x4c <;> by_cases hff : d.length ≤ 0xff <;>
                simp [pushEncode, opEnc, hl, h76, hff, lenBytes] at this <;> omega
            simp [hl, hne]
          · have hpe : pushEncode d = some (opEnc 0x4e d) := by
              have a1 : ¬ d.length < 0x4c := by omega
              have a2 : ¬ d.length ≤ 0xff := by omega
              have a3 : d.length ≤ 0xffffffff := by simp at hd; omega
              simp [pushEncode, opEnc, hl, a1, a2, a3, lenBytes]
            simp [hl, hpe, hns d.length (by omega) rfl]

end BtcVerif
