/-
  C06 — `VerifyScript`: model against reference.
-/
import BtcVerif.Proofs.ScriptEquivLoop

namespace BtcVerif.Model.ScriptEval
open BtcVerif BtcVerif.Spec BtcVerif.Spec.Script BtcVerif.Model.Script

theorem isP2sh_eq (s : Bytes) : isP2sh s = Ref.isPayToScriptHash s := rfl

theorem ref_isPushOnly_nil : Ref.isPushOnly [] = true := by rw [Ref.isPushOnly]; simp

theorem ref_isPushOnly_fail (s : Bytes) (hne : s ≠ []) (h : Ref.getOp s = none) : Ref.isPushOnly s = false := by
  rw [Ref.isPushOnly]; simp only [hne, if_false]; split <;> simp_all

theorem ref_isPushOnly_op (s : Bytes) (hne : s ≠ []) {opc : Nat} {v rest : Bytes}
    (h : Ref.getOp s = some (opc, v, rest)) :
    Ref.isPushOnly s = if opc > 0x60 then false else Ref.isPushOnly rest := by
  rw [Ref.isPushOnly]; simp only [hne, if_false]
  split
  · simp_all
  · rename_i h'
    rw [h] at h'
    simp only [Option.some.injEq, Prod.mk.injEq] at h'
    obtain ⟨rfl, rfl, rfl⟩ := h'
    rfl

theorem isPushOnly_from (idx : Nat) (s : Bytes) :
    (if (rawIterFrom idx s).1.any (fun o => o.opcode > 0x60) then false else (rawIterFrom idx s).2.isNone) =
      Ref.isPushOnly s := by
  induction idx, s using rawIterFrom.induct with
  | case1 idx s h =>
    have hs := rawStep_getOp idx s
    rw [h] at hs
    subst hs
    rw [rawIterFrom_none h, ref_isPushOnly_nil]; simp
  | case2 idx s e h =>
    have hs := rawStep_getOp idx s
    rw [h] at hs
    rw [rawIterFrom_err h, ref_isPushOnly_fail s hs.1 hs.2]
    simp
  | case3 idx s o rest h ops e heq ih =>
    have hs := rawStep_getOp idx s
    rw [h] at hs
    obtain ⟨hget, _, _, _, ⟨pre, hpre, hprene⟩, _⟩ := hs
    have hne : s ≠ [] := by rw [hpre]; simp [hprene]
    rw [rawIterFrom_op h, ref_isPushOnly_op s hne hget]
    simp only [List.any_cons]
    by_cases h60 : o.opcode > 0x60
    · simp [h60]
    · simp only [h60, decide_false, Bool.false_or, if_false]
      exact ih

theorem isPushOnly_eq (s : Bytes) : isPushOnly s = Ref.isPushOnly s := by
  unfold isPushOnly rawIter
  exact isPushOnly_from 0 s

/-- outcome of `VerifyScript` on both sides -/
def VerSim (m : M Unit) (r : Bool) : Prop :=
  match m with
  | .ok _ => r = true
  | .error _ => r = false

/-- coverage hypothesis of the partial theorem: none of the scripts that get evaluated contains an
    opcode of a class whose simulation lemma is missing -/
def ScriptCovered (script : Bytes) : Prop := ∀ o ∈ (rawIter script).1, o.opcode ∉ uncoveredOps

theorem checkTopTrue_sim (stack : List Bytes) :
    match checkTopTrue stack with
    | .ok _ => ∃ top rest, stack = top :: rest ∧ Ref.castToBool top = true
    | .error _ => stack = [] ∨ ∃ top rest, stack = top :: rest ∧ Ref.castToBool top = false := by
  unfold checkTopTrue
  cases stack with
  | nil => simp
  | cons top rest =>
    simp only [List.length_cons, Nat.add_one_ne_zero, if_false, getTop?_1, pyIdx, bind, Except.bind,
      castToBool_eq]
    cases hcb : Ref.castToBool top <;> simp [hcb]

theorem verifyScript_sim (c : Ctx) (fl : Flags) (sig spk : Bytes) (hf : fl.admissible = true)
    (hsig : ScriptCovered sig) (hspk : ScriptCovered spk)
    (hredeem : ∀ s1 x r, evalScript c fl [] sig = .ok s1 → s1 = x :: r → ScriptCovered x) :
    VerSim (verifyScript c fl sig spk) (Ref.verifyScript c.env fl sig spk) := by
  unfold verifyScript Ref.verifyScript
  have hadm : ¬ (¬ fl.admissible = true) := by simp [hf]
  rw [if_neg hadm]
  have h1 := evalScript_sim c fl [] sig hsig
  cases hm1 : evalScript c fl [] sig with
  | error e => rw [hm1] at h1; simp [h1, VerSim, bind, Except.bind]
  | ok s1 =>
    rw [hm1] at h1
    simp only [h1, bind, Except.bind]
    have h2 := evalScript_sim c fl s1 spk hspk
    cases hm2 : evalScript c fl s1 spk with
    | error e => rw [hm2] at h2; simp [h2, VerSim]
    | ok s2 =>
      rw [hm2] at h2
      simp only [h2]
      have ht := checkTopTrue_sim s2
      cases hc : checkTopTrue s2 with
      | error e =>
        rw [hc] at ht
        rcases ht with rfl | ⟨top, rest, rfl, hcb⟩
        · simp [VerSim]
        · simp [VerSim, hcb]
      | ok u =>
        rw [hc] at ht
        obtain ⟨top, rest, rfl, hcb⟩ := ht
        simp only [hcb, not_true_eq_false, if_false]
        -- the P2SH block
        by_cases hp : fl.p2sh = true ∧ isP2sh spk = true
        · have hp' : fl.p2sh = true ∧ Ref.isPayToScriptHash spk = true := hp
          rw [if_pos hp, if_pos hp', if_pos hp.1]
          unfold verifyP2sh
          rw [isPushOnly_eq]
          by_cases hpo : Ref.isPushOnly sig = true
          · simp only [hpo, Bool.not_true, Bool.false_eq_true, if_false, not_true_eq_false]
            cases s1 with
            | nil => simp [VerSim]
            | cons x r =>
              simp only [List.length_cons, Nat.add_one_ne_zero, if_false, pop?_cons, pyIdx, bind, Except.bind]
              have h3 := evalScript_sim c fl r x (hredeem _ x r hm1 rfl)
              cases hm3 : evalScript c fl r x with
              | error e => rw [hm3] at h3; simp [h3, VerSim]
              | ok s3 =>
                rw [hm3] at h3
                simp only [h3]
                have ht3 := checkTopTrue_sim s3
                cases hc3 : checkTopTrue s3 with
                | error e =>
                  rw [hc3] at ht3
                  rcases ht3 with rfl | ⟨top3, rest3, rfl, hcb3⟩
                  · simp [VerSim]
                  · simp [VerSim, hcb3]
                | ok u3 =>
                  rw [hc3] at ht3
                  obtain ⟨top3, rest3, rfl, hcb3⟩ := ht3
                  simp only [hcb3, if_true]
                  unfold verifyCleanStack
                  by_cases hcs : fl.cleanStack = true
                  · simp only [hcs, if_true, hp.1, Bool.not_true, Bool.false_eq_true, if_false]
                    cases rest3 <;> simp [VerSim]
                  · simp [hcs, VerSim]
          · simp [hpo, VerSim]
        · have hp' : ¬ (fl.p2sh = true ∧ Ref.isPayToScriptHash spk = true) := hp
          rw [if_neg hp, if_neg hp']
          simp only [bind, Except.bind]
          unfold verifyCleanStack
          by_cases hcs : fl.cleanStack = true
          · have hp2 : fl.p2sh = true := by
              simp only [Flags.admissible, hcs, Bool.not_true, Bool.false_or] at hf; exact hf
            simp only [hcs, if_true, hp2, Bool.not_true, Bool.false_eq_true, if_false]
            cases rest <;> simp [VerSim]
          · simp [hcs, VerSim]

end BtcVerif.Model.ScriptEval
