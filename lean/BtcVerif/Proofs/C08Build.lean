/-
  Helper lemmas for C08's builder: `__coerce_instance` / `CScript(iterable)` against the
  reference builder, and reading a built script back.
-/
import BtcVerif.Proofs.C08Pred

set_option linter.unusedSimpArgs false

namespace BtcVerif
open BtcVerif.Spec.Script BtcVerif.Model.Script

/-! ### building -/

theorem encodeOpPushdata_eq (d : Bytes) :
    encodeOpPushdata d = match pushEncode d with
      | some b => .ok b
      | none => .error .valueerr := by
  unfold encodeOpPushdata pushEncode
  by_cases h1 : d.length < 0x4c
  · simp [h1]
  · by_cases h2 : d.length ≤ 0xff
    · simp [h1, h2]
    · by_cases h3 : d.length ≤ 0xffff
      · simp [h1, h2, h3]
      · by_cases h4 : d.length ≤ 0xffffffff <;> simp [h1, h2, h3, h4]

theorem pushEncode_none_iff (d : Bytes) : pushEncode d = none ↔ d.length ≥ 2 ^ 32 := by
  unfold pushEncode
  by_cases h1 : d.length < 0x4c
  · simp [h1]; omega
  · by_cases h2 : d.length ≤ 0xff
    · simp [h1, h2]; omega
    · by_cases h3 : d.length ≤ 0xffff
      · simp [h1, h2, h3]; omega
      · by_cases h4 : d.length ≤ 0xffffffff <;> simp [h1, h2, h3, h4] <;> omega

/-- the error `__coerce_instance` raises for a token the reference builder cannot encode -/
def coerceErr : Token → Exc
  | .int z => if (numEncode z).length < 2 ^ 32 then .valueerr else structError
  | _ => .valueerr

theorem coerceInstance_eq (t : Token) :
    coerceInstance t =
      if t = .other then .ok none
      else match tokenBytes t with
        | some b => .ok (some b)
        | none => .error (coerceErr t) := by
  rcases t with n | z | d | b | u | _
  · by_cases h : n < 256 <;> simp [coerceInstance, tokenBytes, coerceErr, h]
  · unfold coerceInstance tokenBytes
    simp only [reduceCtorEq, if_false]
    by_cases h0 : z = 0
    · subst h0; simp [encodeOpN]
    · by_cases h1 : 1 ≤ z ∧ z ≤ 16
      · have h1' : 0 ≤ z ∧ z ≤ 16 := by omega
        simp only [h0, h1, h1', and_self, if_true, if_false, encodeOpN, not_true_eq_false]
        congr 4; omega
      · have h1' : ¬ (0 ≤ z ∧ z ≤ 16) := by omega
        simp only [h0, h1, h1', if_false]
        by_cases h2 : z = -1
        · simp [h2]
        · simp only [h2, if_false, bn2vch_eq]
          by_cases h3 : (numEncode z).length < 2 ^ 32
          · simp only [h3, if_true, encodeOpPushdata_eq, coerceErr]
            rcases pushEncode (numEncode z) with _ | e <;> rfl
          · have : pushEncode (numEncode z) = none := (pushEncode_none_iff _).mpr (by omega)
            simp only [h3, if_false, this, coerceErr]
  · simp only [coerceInstance, tokenBytes, encodeOpPushdata_eq, coerceErr, reduceCtorEq, if_false]
    rcases pushEncode d with _ | e <;> rfl
  · rcases b <;> simp [coerceInstance, tokenBytes, encodeOpN]
  · simp [coerceInstance, tokenBytes]
  · simp [coerceInstance]

/-- exhausting the generator and joining, against the reference builder -/
theorem coerceAll_spec (ts : List Token) :
    (∀ l, coerceAll ts = .ok l → (joinBytes l).toOption = Spec.Script.build ts) ∧
    (∀ e, coerceAll ts = .error e → Spec.Script.build ts = none) := by
  induction ts with
  | nil =>
    constructor
    · intro l h; simp only [coerceAll, Except.ok.injEq] at h; subst h; rfl
    · intro e h; simp [coerceAll] at h
  | cons t ts ih =>
    obtain ⟨ih1, ih2⟩ := ih
    simp only [coerceAll, coerceInstance_eq, Spec.Script.build]
    by_cases ho : t = .other
    · subst ho
      simp only [if_true, tokenBytes]
      rcases hr : coerceAll ts with e | lr
      · exact ⟨fun l h => by simp at h, fun e' _ => by first | rfl | trivial | simp⟩
      · refine ⟨fun l h => ?_, fun e' h => by simp at h⟩
        simp only [Except.ok.injEq] at h; subst h
        simp [joinBytes, Except.toOption]
    · simp only [ho, if_false]
      rcases ht : tokenBytes t with _ | a
      · exact ⟨fun l h => by simp at h, fun e' _ => by first | rfl | trivial | simp⟩
      · simp only
        rcases hr : coerceAll ts with e | lr
        · have := ih2 e hr
          exact ⟨fun l h => by simp at h, fun e' _ => by rw [this]⟩
        · have := ih1 lr hr
          refine ⟨fun l h => ?_, fun e' h => by simp at h⟩
          simp only [Except.ok.injEq] at h; subst h
          simp only [joinBytes]
          rcases hj : joinBytes lr with e | x
          · rw [hj] at this; simp [Except.toOption] at this ⊢; rw [← this]
          · rw [hj] at this; simp [Except.toOption] at this ⊢; rw [← this]

theorem build_toOption (ts : List Token) : (Model.Script.build ts).toOption = Spec.Script.build ts := by
  obtain ⟨h1, h2⟩ := coerceAll_spec ts
  unfold Model.Script.build
  rcases hc : coerceAll ts with e | l
  · simp [Except.toOption, h2 e hc]
  · exact h1 l hc

theorem build_ok_iff (ts : List Token) (b : Bytes) :
    Model.Script.build ts = .ok b ↔ Spec.Script.build ts = some b := by
  rw [← build_toOption]
  rcases Model.Script.build ts with e | r <;> simp [Except.toOption]

theorem specBuild_append (a b : List Token) :
    Spec.Script.build (a ++ b) =
      match Spec.Script.build a, Spec.Script.build b with
      | some x, some y => some (x ++ y)
      | _, _ => none := by
  induction a with
  | nil => rcases h : Spec.Script.build b <;> simp [Spec.Script.build, h]
  | cons t a ih =>
    simp only [List.cons_append, Spec.Script.build, ih]
    rcases tokenBytes t with _ | x <;> rcases Spec.Script.build a with _ | y <;>
      rcases Spec.Script.build b with _ | z <;> simp

/-! ### reading back -/

theorem u8_toNat_ofNat_lt {n : Nat} (h : n < 256) : (UInt8.ofNat n).toNat = n := u8_ofNat_toNat n h

theorem leNat_leBytes_of_lt {w n : Nat} (h : n < 256 ^ w) : leNat (leBytes w n) = n := by
  rw [leNat_leBytes, Nat.mod_eq_of_lt h]

/-- GetScriptOp on a freshly encoded push returns the payload and the untouched remainder -/
theorem getOp_pushEncode {d e : Bytes} (h : pushEncode d = some e) (rest : Bytes) :
    ∃ o, getOp (e ++ rest) = some (o, d, rest) ∧ o ≤ 0x4e ∧ (o = 0 ↔ d = []) := by
  unfold pushEncode at h
  by_cases h1 : d.length < 0x4c
  · simp only [h1, if_true, Option.some.injEq] at h
    subst h
    refine ⟨d.length, ?_, by omega, by simp⟩
    simp [getOp, u8_toNat_ofNat_lt (show d.length < 256 by omega), lenBytes, declaredSize, h1,
      show ¬ (78 < d.length) by omega]
  · simp only [h1, if_false] at h
    by_cases h2 : d.length ≤ 0xff
    · simp only [h2, if_true, Option.some.injEq] at h
      subst h
      refine ⟨0x4c, ?_, by omega, ?_⟩
      · simp [getOp, lenBytes, declaredSize, leNat, u8_toNat_ofNat_lt (show d.length < 256 by omega)]
      · constructor
        · intro h; omega
        · intro h; subst h; simp at h1
    · simp only [h2, if_false] at h
      by_cases h3 : d.length ≤ 0xffff
      · simp only [h3, if_true, Option.some.injEq] at h
        subst h
        refine ⟨0x4d, ?_, by omega, ?_⟩
        · have hl : (leBytes 2 d.length).length = 2 := leBytes_length _ _
          simp only [getOp, List.cons_append, List.append_assoc]
          simp only [show (0x4d : UInt8).toNat = 0x4d from rfl, lenBytes, declaredSize]
          simp only [show ¬ (77 > 78) by omega, show ¬ (77 < 76) by omega, show ¬ (77 = 76) by omega, if_false,
            if_true, List.take_left' hl, List.drop_left' hl, leNat_leBytes_of_lt (show d.length < 256 ^ 2 by omega)]
          simp
        · constructor
          · intro h; omega
          · intro h; subst h; simp at h1
      · simp only [h3, if_false] at h
        by_cases h4 : d.length ≤ 0xffffffff
        · simp only [h4, if_true, Option.some.injEq] at h
          subst h
          refine ⟨0x4e, ?_, by omega, ?_⟩
          · have hl : (leBytes 4 d.length).length = 4 := leBytes_length _ _
            simp only [getOp, List.cons_append, List.append_assoc]
            simp only [show (0x4e : UInt8).toNat = 0x4e from rfl, lenBytes, declaredSize]
            simp only [show ¬ (78 > 78) by omega, show ¬ (78 < 76) by omega, show ¬ (78 = 76) by omega,
              show ¬ (78 = 77) by omega, if_false,
              if_true, List.take_left' hl, List.drop_left' hl,
              leNat_leBytes_of_lt (show d.length < 256 ^ 4 by omega)]
            simp
          · constructor
            · intro h; omega
            · intro h; subst h; simp at h1
        · simp [h4] at h

theorem rawIterFrom_of_getOp {s : Bytes} {o : Nat} {d rest : Bytes} (hg : getOp s = some (o, d, rest))
    (idx : Nat) :
    rawIterFrom idx s =
      (⟨o, if o > 0x4e then none else some d, idx⟩ :: (rawIterFrom (idx + (s.length - rest.length)) rest).1,
        (rawIterFrom (idx + (s.length - rest.length)) rest).2) := by
  rcases s with _ | ⟨b, t⟩
  · simp [getOp] at hg
  · rw [rawIterFrom_cons, hg]

theorem numEncode_ne_nil {z : Int} (h : z ≠ 0) : numEncode z ≠ [] := by
  intro hc
  have := numEncode_length z
  rw [hc] at this
  have h2 : numLen z.natAbs = 0 := by simpa using this.symm
  rw [numLen_eq_zero_iff] at h2; omega

/-- reading one built token back -/
theorem readback_token (t : Token) (a : Bytes) (h : tokenBytes t = some a) (hd : Token.inDomain t)
    (idx : Nat) (rest : Bytes) :
    ∃ idx', (rawIterFrom idx (a ++ rest)).1.map cookTok =
        canonTok t :: (rawIterFrom idx' rest).1.map cookTok ∧
      (rawIterFrom idx (a ++ rest)).2 = (rawIterFrom idx' rest).2 := by
  -- it suffices to exhibit the operation GetScriptOp reads and the token it cooks to
  suffices hs : ∃ o d, getOp (a ++ rest) = some (o, d, rest) ∧
      cookTok ⟨o, if o > 0x4e then none else some d, idx⟩ = canonTok t by
    obtain ⟨o, d, hg, hc⟩ := hs
    refine ⟨idx + ((a ++ rest).length - rest.length), ?_, ?_⟩
    · rw [rawIterFrom_of_getOp hg]; simp only [List.map_cons, hc]
    · rw [rawIterFrom_of_getOp hg]
  rcases t with n | z | d | b | u | _
  · -- opcode
    simp only [Token.inDomain] at hd
    simp only [tokenBytes] at h
    by_cases hn : n < 256
    · simp only [hn, if_true, Option.some.injEq] at h
      subst h
      refine ⟨n, [], ?_, ?_⟩
      · simp [getOp, u8_toNat_ofNat_lt hn, show 78 < n by omega]
      · simp only [cookTok, canonTok, show n > 0x4e by omega, if_true, show ¬ n = 0 by omega, if_false]
    · simp [hn] at h
  · -- integer
    simp only [tokenBytes] at h
    by_cases h0 : z = 0
    · subst h0
      simp only [if_true, Option.some.injEq] at h
      subst h
      refine ⟨0, [], ?_, ?_⟩
      · simp [getOp, lenBytes, declaredSize]
      · simp [cookTok, canonTok]
    · simp only [h0, if_false] at h
      by_cases h1 : 1 ≤ z ∧ z ≤ 16
      · simp only [h1, and_self, if_true, Option.some.injEq] at h
        subst h
        have hz : 0x50 + z.toNat < 256 := by omega
        refine ⟨0x50 + z.toNat, [], ?_, ?_⟩
        · simp [getOp, u8_toNat_ofNat_lt hz, Nat.mod_eq_of_lt hz, show 78 < 0x50 + z.toNat by omega]
        · have c1 : 0x50 + z.toNat > 0x4e := by omega
          have c2 : ¬ 0x50 + z.toNat = 0 := by omega
          have c3 : 0x51 ≤ 0x50 + z.toNat ∧ 0x50 + z.toNat ≤ 0x60 := by omega
          have c4 : 0 ≤ z ∧ z ≤ 16 := by omega
          simp only [cookTok, canonTok, c1, c2, c3, c4, and_self, if_true, if_false, Nat.add_sub_cancel_left]
          congr 1; omega
      · simp only [h1, if_false] at h
        have c4 : ¬ (0 ≤ z ∧ z ≤ 16) := by omega
        by_cases h2 : z = -1
        · simp only [h2, if_true, Option.some.injEq] at h
          subst h
          refine ⟨0x4f, [], ?_, ?_⟩
          · simp [getOp]
          · subst h2; simp [cookTok, canonTok]
        · simp only [h2, if_false] at h
          obtain ⟨o, hg, ho, hz⟩ := getOp_pushEncode h rest
          refine ⟨o, numEncode z, hg, ?_⟩
          have : ¬ o = 0 := fun hc => numEncode_ne_nil h0 (hz.mp hc)
          simp only [cookTok, canonTok, this, show ¬ o > 0x4e by omega, if_false, c4, h2]
  · -- bytes
    simp only [tokenBytes] at h
    obtain ⟨o, hg, ho, hz⟩ := getOp_pushEncode h rest
    refine ⟨o, d, hg, ?_⟩
    by_cases hd0 : d = []
    · have : o = 0 := hz.mpr hd0
      simp [cookTok, canonTok, this, hd0]
    · have : ¬ o = 0 := fun hc => hd0 (hz.mp hc)
      simp only [cookTok, canonTok, this, show ¬ o > 0x4e by omega, if_false, hd0]
  · -- bool
    simp only [tokenBytes, Option.some.injEq] at h
    subst h
    rcases b
    · refine ⟨0, [], ?_, ?_⟩
      · simp [getOp, lenBytes, declaredSize]
      · simp [cookTok, canonTok]
    · refine ⟨0x51, [], ?_, ?_⟩
      · simp [getOp]
      · simp [cookTok, canonTok]
  · exact absurd hd (by simp [Token.inDomain])
  · simp [tokenBytes] at h

/-- reading a built script back: the canonical tokens, and no error -/
theorem readback (ts : List Token) : ∀ (s : Bytes) (idx : Nat), Spec.Script.build ts = some s →
    (∀ t ∈ ts, Token.inDomain t) →
    (rawIterFrom idx s).1.map cookTok = canon ts ∧ (rawIterFrom idx s).2 = none := by
  induction ts with
  | nil =>
    intro s idx h _
    simp only [Spec.Script.build, Option.some.injEq] at h
    subst h; simp [rawIterFrom_nil, canon]
  | cons t ts ih =>
    intro s idx h hd
    simp only [Spec.Script.build] at h
    rcases ha : tokenBytes t with _ | a
    · simp [ha] at h
    · rcases hr : Spec.Script.build ts with _ | r
      · simp [ha, hr] at h
      · simp only [ha, hr, Option.some.injEq] at h
        subst h
        obtain ⟨idx', e1, e2⟩ := readback_token t a ha (hd t (by simp)) idx r
        obtain ⟨i1, i2⟩ := ih r idx' hr (fun x hx => hd x (by simp [hx]))
        refine ⟨?_, by rw [e2, i2]⟩
        rw [e1, i1]; simp [canon]

/-- rebuilding from the canonical token gives the same bytes -/
theorem tokenBytes_canonTok (t : Token) (hd : Token.inDomain t) : tokenBytes (canonTok t) = tokenBytes t := by
  rcases t with n | z | d | b | u | _
  · simp only [Token.inDomain] at hd
    by_cases h : 0x51 ≤ n ∧ n ≤ 0x60
    · have h1 : n < 256 := by omega
      have h2 : ¬ ((n - 0x50 : Nat) : Int) = 0 := by omega
      have h3 : 1 ≤ ((n - 0x50 : Nat) : Int) ∧ ((n - 0x50 : Nat) : Int) ≤ 16 := by omega
      simp only [canonTok, h, and_self, if_true, tokenBytes, h1, h2, h3, if_false]
      congr 3; omega
    · simp only [canonTok, h, if_false]
  · by_cases h : 0 ≤ z ∧ z ≤ 16
    · simp only [canonTok, h, and_self, if_true]
    · simp only [canonTok, h, if_false]
      by_cases h2 : z = -1
      · subst h2; simp [tokenBytes]
      · have h0 : ¬ z = 0 := by omega
        have h1 : ¬ (1 ≤ z ∧ z ≤ 16) := by omega
        simp only [h2, if_false, tokenBytes, h0, h1]
  · by_cases h : d = []
    · subst h; simp [canonTok, tokenBytes, pushEncode]
    · simp only [canonTok, h, if_false]
  · rcases b <;> simp [canonTok, tokenBytes]
  · rfl
  · rfl

theorem build_canon (ts : List Token) (hd : ∀ t ∈ ts, Token.inDomain t) :
    Spec.Script.build (canon ts) = Spec.Script.build ts := by
  induction ts with
  | nil => rfl
  | cons t ts ih =>
    simp only [canon, List.map_cons, Spec.Script.build, tokenBytes_canonTok t (hd t (by simp))]
    have := ih (fun x hx => hd x (by simp [hx]))
    simp only [canon] at this
    rw [this]

/-! ### shortest push -/

theorem getOp_push_len {s : Bytes} {o : Nat} {d rest : Bytes} (hg : getOp s = some (o, d, rest))
    (ho : o ≤ 0x4e) :
    (o < 0x4c → d.length = o) ∧ (o ≥ 0x4c → d.length < 256 ^ lenBytes o) ∧
      s.length = 1 + lenBytes o + d.length + rest.length := by
  obtain ⟨hs, _, _⟩ := getOp_enc hg
  have hlen : s.length = 1 + lenBytes o + d.length + rest.length := by
    rw [hs]; simp [opEnc, show ¬ o > 0x4e by omega]; omega
  refine ⟨?_, ?_, hlen⟩
  all_goals
    rcases s with _ | ⟨b, t⟩
    · simp [getOp] at hg
    · simp only [getOp] at hg
      by_cases h1 : b.toNat > 0x4e
      · simp only [h1, if_true, Option.some.injEq, Prod.mk.injEq] at hg; omega
      · simp only [h1, if_false] at hg
        split at hg
        · simp at hg
        · rename_i hw
          split at hg
          · simp at hg
          · rename_i hn
            simp only [Option.some.injEq, Prod.mk.injEq] at hg
            obtain ⟨rfl, rfl, rfl⟩ := hg
            have hdl : ((t.drop (lenBytes b.toNat)).take (declaredSize b.toNat t)).length =
                declaredSize b.toNat t := by
              rw [List.length_take]; omega
            intro hc
            rw [hdl]; unfold declaredSize
            first
              | (simp only [hc, if_true])
              | (have : ¬ b.toNat < 0x4c := by omega
                 simp only [this, if_false]
                 have hl : (t.take (lenBytes b.toNat)).length = lenBytes b.toNat := by
                   rw [List.length_take]; omega
                 have := leNat_lt (t.take (lenBytes b.toNat))
                 rw [hl] at this; exact this)

theorem pushEncode_length {d e : Bytes} (h : pushEncode d = some e) :
    e.length = 1 + (if d.length < 0x4c then 0 else if d.length ≤ 0xff then 1
                    else if d.length ≤ 0xffff then 2 else 4) + d.length := by
  unfold pushEncode at h
  by_cases h1 : d.length < 0x4c
  · simp only [h1, if_true, Option.some.injEq] at h; subst h; simp [h1]; omega
  · by_cases h2 : d.length ≤ 0xff
    · simp only [h1, h2, if_true, if_false, Option.some.injEq] at h; subst h; simp [h1, h2]; omega
    · by_cases h3 : d.length ≤ 0xffff
      · simp only [h1, h2, h3, if_true, if_false, Option.some.injEq] at h; subst h; simp [h1, h2, h3]; omega
      · by_cases h4 : d.length ≤ 0xffffffff
        · simp only [h1, h2, h3, h4, if_true, if_false, Option.some.injEq] at h
          subst h; simp [h1, h2, h3]; omega
        · simp [h1, h2, h3, h4] at h

/-- no encoding of a single push of `d` is shorter than the one the builder emits -/
theorem pushEncode_shortest {d e s : Bytes} {o : Nat} (h : pushEncode d = some e)
    (hg : getOp s = some (o, d, [])) (ho : o ≤ 0x4e) : e.length ≤ s.length := by
  obtain ⟨l1, l2, l3⟩ := getOp_push_len hg ho
  rw [pushEncode_length h, l3]
  simp only [List.length_nil, Nat.add_zero]
  unfold lenBytes at *
  by_cases c1 : o < 0x4c
  · have := l1 c1
    simp only [c1, if_true]; rw [if_pos (by omega)]
  · have l2' := l2 (by omega)
    simp only [c1, if_false] at l2' ⊢
    by_cases c2 : o = 0x4c
    · simp only [c2, if_true] at l2' ⊢
      split <;> (try split) <;> (try split) <;> omega
    · simp only [c2, if_false] at l2' ⊢
      by_cases c3 : o = 0x4d
      · simp only [c3, if_true] at l2' ⊢
        split <;> (try split) <;> (try split) <;> omega
      · simp only [c3, if_false] at l2' ⊢
        split <;> (try split) <;> (try split) <;> omega

end BtcVerif
