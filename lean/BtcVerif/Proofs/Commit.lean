/-
  C05 — helper lemmas for the commitment table (Props/C05.lean states the property theorems).

  Part A: two transactions that agree on every committed part have the same legacy signature hash
          (no hypothesis on the transactions at all).
  Part B: the hashed message is the wire encoding of a "signature view" transaction `sigTx`; the wire
          encoding is injective on well-formed transactions (corollary of C01's round trip
          `dec_deTx`), and equal views agree on every committed part.
  Part C: the syntactic table over edits: an `Uncommitted` edit leaves every committed part alone.
-/
import BtcVerif.Spec.Commit
import BtcVerif.Proofs.SighashLegacy
import BtcVerif.Proofs.Wire

namespace BtcVerif.CommitProofs
open BtcVerif BtcVerif.Spec.Sighash BtcVerif.Spec.Commit BtcVerif.Spec.Wire

/-! ### reading parts -/

theorem optBytes_inj {a b : Option Bytes} (h : optBytes a = optBytes b) : a = b := by
  cases a <;> cases b <;> simp_all [optBytes]
theorem optNat_inj {a b : Option Nat} (h : optNat a = optNat b) : a = b := by
  cases a <;> cases b <;> simp_all [optNat]
theorem optInt_inj {a b : Option Int} (h : optInt a = optInt b) : a = b := by
  cases a <;> cases b <;> simp_all [optInt]

theorem outpoint_opt_eq {a b : Option TxIn} (h1 : a.map (·.prevout.hash) = b.map (·.prevout.hash))
    (h2 : a.map (·.prevout.n) = b.map (·.prevout.n)) : a.map (·.prevout) = b.map (·.prevout) := by
  rcases a with _ | ⟨⟨ha, na⟩, sa, qa⟩ <;> rcases b with _ | ⟨⟨hb, nb⟩, sb, qb⟩ <;> simp_all

theorem txout_opt_eq {a b : Option TxOut} (h1 : a.map (·.nValue) = b.map (·.nValue))
    (h2 : a.map (·.scriptPubKey) = b.map (·.scriptPubKey)) : a = b := by
  rcases a with _ | ⟨va, sa⟩ <;> rcases b with _ | ⟨vb, sb⟩ <;> simp_all

theorem isSome_getElem?_iff {α} {l : List α} {k : Nat} : l[k]?.isSome = true ↔ k < l.length := by
  rw [Option.isSome_iff_ne_none, Ne, List.getElem?_eq_none_iff]; omega

section agree
variable {ht i : Nat} {t t' : Tx} (H : Agree ht i t t')
include H

theorem agree_version : t'.nVersion = t.nVersion := by
  have := H .version rfl
  simpa [Part.get] using this

theorem agree_lockTime : t'.nLockTime = t.nLockTime := by
  have := H .lockTime rfl
  simpa [Part.get] using this

theorem agree_prevout (k : Nat) (hk : k = i ∨ isAnyoneCanPay ht = false) :
    t'.vin[k]?.map (·.prevout) = t.vin[k]?.map (·.prevout) := by
  have hc : (k == i || !isAnyoneCanPay ht) = true := by
    rcases hk with rfl | h
    · simp
    · simp [h]
  exact outpoint_opt_eq (optBytes_inj (H (.prevHash k) hc)) (optNat_inj (H (.prevN k) hc))

theorem agree_sequence (k : Nat) (hk : k = i ∨ (isAnyoneCanPay ht = false ∧ isAll ht = true)) :
    t'.vin[k]?.map (·.nSequence) = t.vin[k]?.map (·.nSequence) := by
  have hc : (k == i || (!isAnyoneCanPay ht && isAll ht)) = true := by
    rcases hk with rfl | ⟨h1, h2⟩
    · simp
    · simp [h1, h2]
  exact optNat_inj (H (.sequence k) hc)

theorem agree_output (k : Nat) (hk : isAll ht = true ∨ (isSingle ht = true ∧ k = i)) :
    t'.vout[k]? = t.vout[k]? := by
  have hc : (isAll ht || (isSingle ht && k == i)) = true := by
    rcases hk with h | ⟨h1, rfl⟩
    · simp [h]
    · simp [h1]
  exact txout_opt_eq (optInt_inj (H (.value k) hc)) (optBytes_inj (H (.spk k) hc))

theorem agree_vout (hall : isAll ht = true) : t'.vout = t.vout :=
  List.ext_getElem? fun k => agree_output H k (Or.inl hall)

theorem agree_vin_some : (t'.vin[i]?).isSome = (t.vin[i]?).isSome := by
  have := congrArg Option.isSome (agree_prevout H i (Or.inl rfl))
  simpa using this

theorem agree_vin_lt : i < t'.vin.length ↔ i < t.vin.length := by
  have := agree_vin_some H
  rw [← isSome_getElem?_iff, ← isSome_getElem?_iff, this]

theorem agree_vout_lt (hs : isSingle ht = true) : i < t'.vout.length ↔ i < t.vout.length := by
  have := congrArg Option.isSome (agree_output H i (Or.inr ⟨hs, rfl⟩))
  rw [← isSome_getElem?_iff, ← isSome_getElem?_iff, this]

end agree

/-! ### Part A: agreement on the committed parts ⇒ same hashed message, same digest -/

theorem isAll_iff (ht : Nat) : isAll ht = true ↔ isNone ht = false ∧ isSingle ht = false := by
  unfold isAll; cases isNone ht <;> cases isSingle ht <;> simp

/-- the serialised input depends on the outpoint and on the sequence number where it is not masked -/
theorem legacyInput_congr (sc : Bytes) (i ht k : Nat) (x x' : TxIn) (hp : x'.prevout = x.prevout)
    (hq : k = i ∨ isAll ht = true → x'.nSequence = x.nSequence) :
    legacyInput sc i ht k x' = legacyInput sc i ht k x := by
  unfold legacyInput
  rw [hp]
  congr 1
  by_cases hm : k ≠ i ∧ (isSingle ht = true ∨ isNone ht = true)
  · rw [if_pos hm, if_pos hm]
  · rw [if_neg hm, if_neg hm, hq]
    by_cases hk : k = i
    · exact Or.inl hk
    · right
      rw [isAll_iff]
      have : ¬ (isSingle ht = true ∨ isNone ht = true) := fun h => hm ⟨hk, h⟩
      cases h1 : isNone ht <;> cases h2 : isSingle ht <;> simp_all

theorem opt_input_congr (sc : Bytes) (i ht k : Nat) (a b : Option TxIn)
    (hp : a.map (·.prevout) = b.map (·.prevout))
    (hq : k = i ∨ isAll ht = true → a.map (·.nSequence) = b.map (·.nSequence)) :
    a.map (legacyInput sc i ht k) = b.map (legacyInput sc i ht k) := by
  rcases a with _ | x' <;> rcases b with _ | x
  · rfl
  · simp at hp
  · simp at hp
  · simp only [Option.map_some, Option.some.injEq] at hp hq ⊢
    exact legacyInput_congr sc i ht k x x' hp hq

theorem ins_eq {ht i : Nat} {t t' : Tx} (H : Agree ht i t t') (sc : Bytes) :
    (if isAnyoneCanPay ht then t'.vin[i]?.toList.map (legacyInput sc i ht i)
     else t'.vin.mapIdx (legacyInput sc i ht)) =
    (if isAnyoneCanPay ht then t.vin[i]?.toList.map (legacyInput sc i ht i)
     else t.vin.mapIdx (legacyInput sc i ht)) := by
  cases hacp : isAnyoneCanPay ht
  · simp only [Bool.false_eq_true, if_false]
    apply List.ext_getElem?
    intro k
    rw [List.getElem?_mapIdx, List.getElem?_mapIdx]
    apply opt_input_congr
    · exact agree_prevout H k (Or.inr hacp)
    · intro hk
      apply agree_sequence H k
      rcases hk with hk | hk
      · exact Or.inl hk
      · exact Or.inr ⟨hacp, hk⟩
  · simp only [if_true]
    have := opt_input_congr sc i ht i _ _ (agree_prevout H i (Or.inl rfl))
      (fun _ => agree_sequence H i (Or.inl rfl))
    rw [← Option.toList_map, ← Option.toList_map, this]

theorem outs_eq {ht i : Nat} {t t' : Tx} (H : Agree ht i t t')
    (hr : isSingle ht = true → i < t.vout.length) :
    let nOut := fun (t : Tx) => if isNone ht then 0 else if isSingle ht then i + 1 else t.vout.length
    nOut t' = nOut t ∧
    (t'.vout.take (nOut t')).mapIdx (legacyOutput i ht) = (t.vout.take (nOut t)).mapIdx (legacyOutput i ht) := by
  intro nOut
  cases hn : isNone ht
  · cases hs : isSingle ht
    · have hall : isAll ht = true := (isAll_iff ht).2 ⟨hn, hs⟩
      simp only [nOut, hn, hs, Bool.false_eq_true, if_false]
      rw [agree_vout H hall]
      exact ⟨rfl, rfl⟩
    · simp only [nOut, hn, hs, Bool.false_eq_true, if_false, if_true, true_and]
      have hi := hr hs
      have hi' := (agree_vout_lt H hs).2 hi
      apply List.ext_getElem?
      intro k
      rw [List.getElem?_mapIdx, List.getElem?_mapIdx, List.getElem?_take, List.getElem?_take]
      by_cases hk : k < i + 1
      · rw [if_pos hk, if_pos hk]
        by_cases hki : k = i
        · subst hki
          rw [agree_output H k (Or.inr ⟨hs, rfl⟩)]
        · have h1 : k < t.vout.length := by omega
          have h2 : k < t'.vout.length := by omega
          rw [List.getElem?_eq_getElem h1, List.getElem?_eq_getElem h2]
          simp only [Option.map_some, Option.some.injEq]
          unfold legacyOutput
          rw [if_pos ⟨hs, hki⟩, if_pos ⟨hs, hki⟩]
      · rw [if_neg hk, if_neg hk]
  · simp [nOut, hn]

/-- Part A at the level of the hashed message (both transactions in the regular case) -/
theorem preimage_eq_of_agree {ht i : Nat} {t t' : Tx} (H : Agree ht i t t') (sc : Bytes)
    (hr : isSingle ht = true → i < t.vout.length) :
    legacyPreimage sc t' i ht = legacyPreimage sc t i ht := by
  unfold legacyPreimage legacyTxBytes
  obtain ⟨h1, h2⟩ := outs_eq H hr
  simp only at h1 h2
  simp only []
  rw [h2, h1, ins_eq H sc, agree_version H, agree_lockTime H]

/-- Part A: same digest *and* same error indication, for all transactions, indices and hash types -/
theorem sighash_eq_of_agree {ht i : Nat} {t t' : Tx} (H : Agree ht i t t') (sc : Bytes) :
    legacySighash sc t' i ht = legacySighash sc t i ht := by
  unfold legacySighash
  by_cases h1 : i ≥ t.vin.length
  · have h1' : i ≥ t'.vin.length := by
      have := agree_vin_lt H; omega
    rw [if_pos h1, if_pos h1']
  · have h1' : ¬ i ≥ t'.vin.length := by
      have := agree_vin_lt H; omega
    rw [if_neg h1, if_neg h1']
    by_cases h2 : isSingle ht = true ∧ i ≥ t.vout.length
    · have h2' : isSingle ht = true ∧ i ≥ t'.vout.length := by
        refine ⟨h2.1, ?_⟩
        have := agree_vout_lt H h2.1; omega
      rw [if_pos h2, if_pos h2']
    · have h2' : ¬ (isSingle ht = true ∧ i ≥ t'.vout.length) := by
        intro h
        have := agree_vout_lt H h.1
        exact h2 ⟨h.1, by omega⟩
      rw [if_neg h2, if_neg h2', preimage_eq_of_agree H sc]
      intro hs
      have : ¬ i ≥ t.vout.length := fun h => h2 ⟨hs, h⟩
      omega

/-! ### Part B: the hashed message is a wire encoding; injectivity; equal views agree -/

/-- input `k` as the signature hash serialises it -/
def sigIn (sc : Bytes) (i ht k : Nat) (x : TxIn) : TxIn :=
  { prevout := x.prevout
    scriptSig := if k = i then scriptCodeNoSep sc else []
    nSequence := if k ≠ i ∧ (isSingle ht = true ∨ isNone ht = true) then 0 else x.nSequence }

def blankOut : TxOut := { nValue := -1, scriptPubKey := [] }

def sigOut (i ht k : Nat) (o : TxOut) : TxOut := if isSingle ht = true ∧ k ≠ i then blankOut else o

def nOut (ht i : Nat) (t : Tx) : Nat := if isNone ht then 0 else if isSingle ht then i + 1 else t.vout.length

/-- the "signature view": the transaction whose legacy wire encoding is the hashed message
    (without the trailing hash type) -/
def sigTx (sc : Bytes) (t : Tx) (i ht : Nat) : Tx :=
  { nVersion := t.nVersion
    vin := if isAnyoneCanPay ht then t.vin[i]?.toList.map (sigIn sc i ht i) else t.vin.mapIdx (sigIn sc i ht)
    vout := (t.vout.take (nOut ht i t)).mapIdx (sigOut i ht)
    wit := []
    nLockTime := t.nLockTime }

theorem map_mapIdx' {α β γ} (f : Nat → α → β) (g : β → γ) (l : List α) :
    (l.mapIdx f).map g = l.mapIdx (fun i a => g (f i a)) := by
  apply List.ext_getElem?
  intro k
  simp [List.getElem?_mapIdx]
  rfl

theorem txIn_sigIn (sc : Bytes) (i ht k : Nat) (x : TxIn) : txIn (sigIn sc i ht k x) = legacyInput sc i ht k x := by
  unfold txIn sigIn legacyInput
  simp only
  by_cases hk : k = i
  · simp [hk]
  · by_cases hm : isSingle ht = true ∨ isNone ht = true
    · simp [hk, hm, varBytes]
    · simp [hk, hm, varBytes]

theorem txOut_sigOut (i ht k : Nat) (o : TxOut) : txOut (sigOut i ht k o) = legacyOutput i ht k o := by
  unfold sigOut legacyOutput blankOut
  split <;> rfl

theorem nOut_le {ht i : Nat} {t : Tx} (hr : Regular ht i t) : nOut ht i t ≤ t.vout.length := by
  unfold nOut
  cases hn : isNone ht
  · cases hs : isSingle ht
    · simp
    · have := hr.2 hs
      simp; omega
  · simp

theorem legacyTxBytes_eq_txLegacy (sc : Bytes) (t : Tx) (i ht : Nat) (hr : Regular ht i t) :
    legacyTxBytes sc t i ht = txLegacy (sigTx sc t i ht) := by
  have hlen : ((t.vout.take (nOut ht i t)).mapIdx (sigOut i ht)).length = nOut ht i t := by
    rw [List.length_mapIdx, List.length_take]
    have := nOut_le hr
    omega
  unfold legacyTxBytes txLegacy vec sigTx
  simp only [hlen]
  have hin : ((if isAnyoneCanPay ht = true then t.vin[i]?.toList.map (sigIn sc i ht i)
                else t.vin.mapIdx (sigIn sc i ht)).map txIn) =
      (if isAnyoneCanPay ht = true then t.vin[i]?.toList.map (legacyInput sc i ht i)
       else t.vin.mapIdx (legacyInput sc i ht)) := by
    split
    · rw [List.map_map]
      congr 1
      funext x
      exact txIn_sigIn sc i ht i x
    · rw [map_mapIdx']
      congr 1
      funext k x
      exact txIn_sigIn sc i ht k x
  have hout : ((t.vout.take (nOut ht i t)).mapIdx (sigOut i ht)).map txOut =
      (t.vout.take (nOut ht i t)).mapIdx (legacyOutput i ht) := by
    rw [map_mapIdx']
    congr 1
    funext k o
    exact txOut_sigOut i ht k o
  rw [hin, hout]
  have hl : (if isAnyoneCanPay ht = true then t.vin[i]?.toList.map (sigIn sc i ht i)
              else t.vin.mapIdx (sigIn sc i ht)).length =
      (if isAnyoneCanPay ht = true then t.vin[i]?.toList.map (legacyInput sc i ht i)
       else t.vin.mapIdx (legacyInput sc i ht)).length := by
    rw [← hin, List.length_map]
  rw [hl]
  simp only [nOut, List.append_assoc]

theorem mem_mapIdx_elim {α β} {f : Nat → α → β} {l : List α} {b : β} (h : b ∈ l.mapIdx f) :
    ∃ k a, a ∈ l ∧ b = f k a := by
  obtain ⟨k, hk, rfl⟩ := List.getElem_of_mem h
  rw [List.length_mapIdx] at hk
  refine ⟨k, l[k], List.getElem_mem hk, ?_⟩
  simp

theorem wf_sigIn {sc : Bytes} {i ht k : Nat} {x : TxIn} (hsc : sc.length ≤ maxSize)
    (hx : WFOutPoint x.prevout ∧ x.nSequence < 2 ^ 32) : WFTxIn (sigIn sc i ht k x) := by
  refine ⟨hx.1, ?_, ?_⟩
  · unfold sigIn
    simp only
    split
    · have := SighashProofs.noSep_length_le sc.length sc (Nat.le_refl _)
      omega
    · simp
  · unfold sigIn
    simp only
    split
    · omega
    · exact hx.2

theorem wf_sigTx {sc : Bytes} {t : Tx} {i ht : Nat} (hsc : sc.length ≤ maxSize) (wf : WFc t)
    (hr : Regular ht i t) : WFTx (sigTx sc t i ht) := by
  obtain ⟨hv1, hv2, hni, hno, hin, hout, hlock⟩ := wf
  have hi := hr.1
  refine ⟨hv1, hv2, ?_, ?_, ?_, ?_, ?_, Or.inl rfl, ?_, hlock⟩
  · unfold sigTx
    simp only
    split
    · rw [List.getElem?_eq_getElem hi]; simp
    · rw [List.length_mapIdx]; omega
  · unfold sigTx
    simp only
    split
    · rw [List.getElem?_eq_getElem hi]; simp
    · rw [List.length_mapIdx]; omega
  · unfold sigTx
    simp only
    rw [List.length_mapIdx, List.length_take]
    omega
  · intro x hx
    unfold sigTx at hx
    simp only at hx
    split at hx
    · rw [List.getElem?_eq_getElem hi] at hx
      simp only [Option.toList_some, List.map_cons, List.map_nil, List.mem_singleton] at hx
      subst hx
      exact wf_sigIn hsc (hin _ (List.getElem_mem hi))
    · obtain ⟨k, a, ha, rfl⟩ := mem_mapIdx_elim hx
      exact wf_sigIn hsc (hin a ha)
  · intro o ho
    unfold sigTx at ho
    simp only at ho
    obtain ⟨k, a, ha, rfl⟩ := mem_mapIdx_elim ho
    unfold sigOut
    split
    · refine ⟨by decide, by decide, ?_⟩
      simp [blankOut]
    · exact hout a (List.mem_of_mem_take ha)
  · intro s hs
    simp [sigTx] at hs

/-- the legacy wire encoding is injective on well-formed transactions without witness — a
    corollary of C01's round trip (`Codec.dec_deTx`: deserialising the encoding returns the value) -/
theorem txLegacy_inj {a b : Tx} (wa : WFTx a) (wb : WFTx b) (ha : a.wit = []) (hb : b.wit = [])
    (h : txLegacy a = txLegacy b) : a = b := by
  have key : ∀ c : Tx, WFTx c → c.wit = [] → Model.Wire.deTx (txLegacy c) = .ok (c, []) := by
    intro c wc hc
    have hcc : ({ c with wit := [] } : Tx) = c := by cases c; simp_all
    have h1 : txBytes c = txLegacy c := by
      have := Codec.txBytes_strip c
      rwa [hcc] at this
    have h2 : normTx c = c := by
      have hw : c.hasWitness = false := by
        have := Codec.hasWitness_strip c
        rwa [hcc] at this
      rw [Codec.normTx_of_not_hasWitness hw, hcc]
    have := (Codec.dec_deTx c wc).1 []
    rwa [h1, h2, List.append_nil] at this
  have h1 := key a wa ha
  have h2 := key b wb hb
  rw [h] at h1
  rw [h1] at h2
  injection h2 with h2
  exact (Prod.mk.inj h2).1

/-- equal hashed messages ⇒ equal signature views (both transactions regular and in wire range) -/
theorem sigTx_eq_of_preimage_eq {sc : Bytes} {t t' : Tx} {i ht : Nat} (hsc : sc.length ≤ maxSize)
    (wf : WFc t) (wf' : WFc t') (hr : Regular ht i t) (hr' : Regular ht i t')
    (h : legacyPreimage sc t' i ht = legacyPreimage sc t i ht) : sigTx sc t' i ht = sigTx sc t i ht := by
  unfold legacyPreimage at h
  have h4 : (leBytes 4 ht).length = (leBytes 4 ht).length := rfl
  have := (List.append_inj' h h4).1
  rw [legacyTxBytes_eq_txLegacy sc t i ht hr, legacyTxBytes_eq_txLegacy sc t' i ht hr'] at this
  exact txLegacy_inj (wf_sigTx hsc wf' hr') (wf_sigTx hsc wf hr) rfl rfl this

theorem opt_sigIn {sc : Bytes} {i ht k : Nat} {a b : Option TxIn}
    (h : a.map (sigIn sc i ht k) = b.map (sigIn sc i ht k)) :
    a.map (·.prevout) = b.map (·.prevout) ∧
    (k = i ∨ isAll ht = true → a.map (·.nSequence) = b.map (·.nSequence)) := by
  rcases a with _ | x' <;> rcases b with _ | x
  · exact ⟨rfl, fun _ => rfl⟩
  · simp at h
  · simp at h
  · simp only [Option.map_some, Option.some.injEq] at h ⊢
    have hp : x'.prevout = x.prevout := by
      have h' := congrArg TxIn.prevout h
      exact h'
    refine ⟨hp, fun hk => ?_⟩
    have hq := congrArg TxIn.nSequence h
    simp only [sigIn] at hq
    have hm : ¬ (k ≠ i ∧ (isSingle ht = true ∨ isNone ht = true)) := by
      rintro ⟨h1, h2⟩
      rcases hk with hk | hk
      · exact h1 hk
      · rw [isAll_iff] at hk
        rcases h2 with h2 | h2 <;> simp_all
    rwa [if_neg hm, if_neg hm] at hq

theorem toList_inj {α} {a b : Option α} (h : a.toList = b.toList) : a = b := by
  cases a <;> cases b <;> simp_all

theorem sigOut_self (i ht : Nat) (o : TxOut) : sigOut i ht i o = o := by
  unfold sigOut; simp

theorem sigOut_all {i ht : Nat} (hall : isAll ht = true) (k : Nat) (o : TxOut) : sigOut i ht k o = o := by
  unfold sigOut
  rw [isAll_iff] at hall
  simp [hall.2]

/-- equal signature views agree on every committed part -/
theorem agree_of_sigTx_eq {sc : Bytes} {t t' : Tx} {i ht : Nat} (hr : Regular ht i t) (hr' : Regular ht i t')
    (h : sigTx sc t' i ht = sigTx sc t i ht) : Agree ht i t t' := by
  have hver : t'.nVersion = t.nVersion := by
    have h' := congrArg Tx.nVersion h
    exact h'
  have hlock : t'.nLockTime = t.nLockTime := by
    have h' := congrArg Tx.nLockTime h
    exact h'
  have hvin := congrArg Tx.vin h
  have hvout := congrArg Tx.vout h
  simp only [sigTx] at hvin hvout
  -- inputs: what the view keeps of position k
  have hin : ∀ k, (k = i ∨ isAnyoneCanPay ht = false) →
      t'.vin[k]?.map (sigIn sc i ht k) = t.vin[k]?.map (sigIn sc i ht k) := by
    intro k hk
    cases hacp : isAnyoneCanPay ht
    · rw [hacp] at hvin
      simp only [Bool.false_eq_true, if_false] at hvin
      have := congrArg (·[k]?) hvin
      simpa [List.getElem?_mapIdx] using this
    · rw [hacp] at hvin
      simp only [if_true] at hvin
      rcases hk with rfl | hk
      · rw [← Option.toList_map, ← Option.toList_map] at hvin
        exact toList_inj hvin
      · rw [hacp] at hk; cases hk
  have hlen : isAnyoneCanPay ht = false → t'.vin.length = t.vin.length := by
    intro hacp
    rw [hacp] at hvin
    simp only [Bool.false_eq_true, if_false] at hvin
    have := congrArg List.length hvin
    simpa using this
  -- outputs
  have hout : ∀ k, (isAll ht = true ∨ (isSingle ht = true ∧ k = i)) → t'.vout[k]? = t.vout[k]? := by
    intro k hk
    have := congrArg (·[k]?) hvout
    simp only [List.getElem?_mapIdx, List.getElem?_take] at this
    rcases hk with hall | ⟨hs, rfl⟩
    · have hn := (isAll_iff ht).1 hall
      simp only [nOut, hn.1, hn.2, Bool.false_eq_true, if_false] at this
      have e : ∀ (l : List TxOut), Option.map (sigOut i ht k) (if k < l.length then l[k]? else none) = l[k]? := by
        intro l
        split
        · cases l[k]? <;> simp [sigOut_all hall]
        · rename_i hk
          rw [List.getElem?_eq_none (by omega)]; rfl
      rwa [e, e] at this
    · have hn : isNone ht = false := by
        cases hh : isNone ht
        · rfl
        · exact absurd ⟨hh, hs⟩ (SighashProofs.not_none_and_single ht)
      simp only [nOut, hn, hs, Bool.false_eq_true, if_false, if_true, Nat.lt_succ_self] at this
      have e : ∀ (o : Option TxOut), Option.map (sigOut k ht k) o = o := by
        intro o; cases o <;> simp [sigOut_self]
      rwa [e, e] at this
  have houtlen : isAll ht = true → t'.vout.length = t.vout.length := by
    intro hall
    have : t'.vout = t.vout := List.ext_getElem? fun k => hout k (Or.inl hall)
    rw [this]
  intro p hc
  cases p with
  | version => simp [Part.get, hver]
  | lockTime => simp [Part.get, hlock]
  | witness => simp [committed] at hc
  | scriptSig k => simp [committed] at hc
  | inCount =>
    simp only [committed, Bool.not_eq_true'] at hc
    simp [Part.get, hlen hc]
  | outCount =>
    simp only [committed] at hc
    simp [Part.get, houtlen hc]
  | prevHash k =>
    simp only [committed, Bool.or_eq_true, beq_iff_eq, Bool.not_eq_true'] at hc
    have := (opt_sigIn (hin k hc)).1
    simp only [Part.get]
    congr 1
    have := congrArg (Option.map (·.hash)) this
    simpa [Option.map_map, Function.comp_def] using this
  | prevN k =>
    simp only [committed, Bool.or_eq_true, beq_iff_eq, Bool.not_eq_true'] at hc
    have := (opt_sigIn (hin k hc)).1
    simp only [Part.get]
    congr 1
    have := congrArg (Option.map (·.n)) this
    simpa [Option.map_map, Function.comp_def] using this
  | sequence k =>
    simp only [committed, Bool.or_eq_true, beq_iff_eq, Bool.and_eq_true, Bool.not_eq_true'] at hc
    simp only [Part.get]
    congr 1
    rcases hc with hk | ⟨hacp, hall⟩
    · exact (opt_sigIn (hin k (Or.inl hk))).2 (Or.inl hk)
    · exact (opt_sigIn (hin k (Or.inr hacp))).2 (Or.inr hall)
  | value k =>
    simp only [committed, Bool.or_eq_true, Bool.and_eq_true, beq_iff_eq] at hc
    simp only [Part.get]
    rw [hout k hc]
  | spk k =>
    simp only [committed, Bool.or_eq_true, Bool.and_eq_true, beq_iff_eq] at hc
    simp only [Part.get]
    rw [hout k hc]

/-! ### Part C: the table over edits -/

theorem swapAt_self {α} (xs : List α) (k : Nat) : swapAt xs k k = xs := by
  unfold swapAt
  cases h : xs[k]? with
  | none => rfl
  | some a =>
    simp only
    obtain ⟨hk, rfl⟩ := List.getElem?_eq_some_iff.1 h
    simp

theorem getElem?_swapAt_ne {α} (xs : List α) (k l j : Nat) (h1 : j ≠ k) (h2 : j ≠ l) :
    (swapAt xs k l)[j]? = xs[j]? := by
  unfold swapAt
  split
  · rw [List.getElem?_set, List.getElem?_set]
    rw [if_neg (Ne.symm h2), if_neg (Ne.symm h1)]
  · rfl

theorem length_swapAt {α} (xs : List α) (k l : Nat) : (swapAt xs k l).length = xs.length := by
  unfold swapAt
  split <;> simp

theorem modify_map_other {α β} (l : List α) (k j : Nat) (f : α → α) (g : α → β) (h : ∀ x, g (f x) = g x) :
    (l.modify k f)[j]?.map g = l[j]?.map g := by
  rw [List.getElem?_modify]
  cases l[j]? with
  | none => rfl
  | some a => simp only [Option.map_some, Functor.map]; split <;> simp [h]

theorem modify_ne {α} (l : List α) (k j : Nat) (f : α → α) (h : k ≠ j) :
    (l.modify k f)[j]? = l[j]? := by
  rw [List.getElem?_modify]
  cases l[j]? with
  | none => rfl
  | some a => simp [h]

theorem getElem?_swapAt_of {α} (xs : List α) (k l j : Nat) (h : k = l ∨ (j ≠ k ∧ j ≠ l)) :
    (swapAt xs k l)[j]? = xs[j]? := by
  rcases h with rfl | ⟨h1, h2⟩
  · rw [swapAt_self]
  · exact getElem?_swapAt_ne xs k l j h1 h2

theorem map_congr_arg {α β γ} (w : Option β → γ) (g : α → β) {a b : Option α} (h : a = b) :
    w (a.map g) = w (b.map g) := by rw [h]

theorem length_pyInsert {α} (l : List α) (k : Nat) (x : α) : (pyInsert l k x).length = l.length + 1 := by
  unfold pyInsert
  rw [List.length_insertIdx, if_pos (Nat.min_le_right _ _)]

theorem getElem?_pyInsert_lt {α} (l : List α) (k j : Nat) (x : α) (h : j < k ∧ (k ≤ l.length ∨ j < l.length)) :
    (pyInsert l k x)[j]? = l[j]? := by
  unfold pyInsert
  rw [List.getElem?_insertIdx, if_pos (by omega)]

theorem uncommitted_agree (ht i : Nat) (e : Edit) (t : Tx) (h : Committed ht i e = false)
    (hsafe : insertSafe i e t = true) : Agree ht i t (apply e t) := by
  intro p hc
  cases e <;> cases p <;> simp only [apply, Part.get, List.length_modify] <;> try rfl
  all_goals first
    | (simp_all [Committed, committed, List.getElem?_eraseIdx, length_swapAt, length_pyInsert]; done)
    | (apply map_congr_arg; apply getElem?_pyInsert_lt
       cases hacp : isAnyoneCanPay ht <;> cases hall : isAll ht <;> cases hs : isSingle ht <;>
            simp_all [Committed, committed, insertSafe] <;> omega)
    | (apply congrArg; exact modify_map_other _ _ _ _ _ (fun _ => rfl))
    | (apply map_congr_arg; apply modify_ne; intro hkk; subst hkk; simp_all [Committed, committed]; done)
    | (apply map_congr_arg; apply getElem?_swapAt_of
       cases hacp : isAnyoneCanPay ht <;> cases hall : isAll ht <;> cases hs : isSingle ht <;>
            simp_all [Committed, committed] <;> omega)

/-- only `Committed` edits can change a committed part -/
theorem committed_of_changes {ht i : Nat} {e : Edit} {t : Tx} (h : changes ht i e t)
    (hsafe : insertSafe i e t = true) : Committed ht i e = true := by
  cases hC : Committed ht i e
  · obtain ⟨p, hp, hne⟩ := h
    exact absurd (uncommitted_agree ht i e t hC hsafe p hp) hne
  · rfl

theorem modify_ne_self {α} {l : List α} {k : Nat} {f : α → α} (h : l.modify k f ≠ l) :
    ∃ x, l[k]? = some x ∧ f x ≠ x := by
  cases hk : l[k]? with
  | none =>
    exfalso; apply h
    apply List.ext_getElem?
    intro j
    rw [List.getElem?_modify]
    cases hj : l[j]? with
    | none => rfl
    | some a =>
      have : k ≠ j := by rintro rfl; rw [hk] at hj; cases hj
      simp [this]
  | some x =>
    refine ⟨x, rfl, fun hfx => h ?_⟩
    apply List.ext_getElem?
    intro j
    rw [List.getElem?_modify]
    cases hj : l[j]? with
    | none => rfl
    | some a =>
      by_cases hkj : k = j
      · subst hkj
        rw [hk] at hj
        cases hj
        simp [hfx]
      · simp [hkj]

theorem getElem?_modify_self {α} {l : List α} {k : Nat} {f : α → α} {x : α} (h : l[k]? = some x) :
    (l.modify k f)[k]? = some (f x) := by
  rw [List.getElem?_modify, h]; simp

/-- a `Committed` field edit that changes the transaction at all changes a committed part -/
theorem changes_of_field_edit {ht i : Nat} {e : Edit} {t : Tx} (hC : Committed ht i e = true)
    (hf : isFieldSet e = true) (hne : apply e t ≠ t) : changes ht i e t := by
  have tx_ne_vin : ∀ {v : List TxIn}, ({ t with vin := v } : Tx) ≠ t → v ≠ t.vin := by
    intro v h hv; apply h; subst hv; rfl
  have tx_ne_vout : ∀ {v : List TxOut}, ({ t with vout := v } : Tx) ≠ t → v ≠ t.vout := by
    intro v h hv; apply h; subst hv; rfl
  cases e with
  | setPrevHash k hh =>
    obtain ⟨x, hx, hfx⟩ := modify_ne_self (tx_ne_vin hne)
    refine ⟨.prevHash k, hC, ?_⟩
    simp only [apply, Part.get, getElem?_modify_self hx, hx, Option.map_some, optBytes, ne_eq, PVal.bytes.injEq]
    intro h; apply hfx; rw [h]
  | setPrevN k n =>
    obtain ⟨x, hx, hfx⟩ := modify_ne_self (tx_ne_vin hne)
    refine ⟨.prevN k, hC, ?_⟩
    simp only [apply, Part.get, getElem?_modify_self hx, hx, Option.map_some, optNat, ne_eq, PVal.nat.injEq]
    intro h; apply hfx; rw [h]
  | setSequence k q =>
    obtain ⟨x, hx, hfx⟩ := modify_ne_self (tx_ne_vin hne)
    refine ⟨.sequence k, hC, ?_⟩
    simp only [apply, Part.get, getElem?_modify_self hx, hx, Option.map_some, optNat, ne_eq, PVal.nat.injEq]
    intro h; apply hfx; rw [h]
  | setValue k v =>
    obtain ⟨x, hx, hfx⟩ := modify_ne_self (tx_ne_vout hne)
    refine ⟨.value k, hC, ?_⟩
    simp only [apply, Part.get, getElem?_modify_self hx, hx, Option.map_some, optInt, ne_eq, PVal.int.injEq]
    intro h; apply hfx; rw [h]
  | setSpk k s =>
    obtain ⟨x, hx, hfx⟩ := modify_ne_self (tx_ne_vout hne)
    refine ⟨.spk k, hC, ?_⟩
    simp only [apply, Part.get, getElem?_modify_self hx, hx, Option.map_some, optBytes, ne_eq, PVal.bytes.injEq]
    intro h; apply hfx; rw [h]
  | setLockTime n =>
    refine ⟨.lockTime, rfl, ?_⟩
    simp only [apply, Part.get, ne_eq, PVal.nat.injEq]
    intro h; apply hne; simp only [apply]; rw [h]
  | setVersion v =>
    refine ⟨.version, rfl, ?_⟩
    simp only [apply, Part.get, ne_eq, PVal.int.injEq]
    intro h; apply hne; simp only [apply]; rw [h]
  | _ => simp [isFieldSet] at hf

/-- inserting an input / output (anywhere: beyond the end it is appended) or removing one at an
    existing position changes the committed count
    (no ANYONECANPAY for inputs; mode ALL for outputs) -/
theorem changes_of_count_edit {ht i : Nat} {t : Tx} :
    (∀ k x, isAnyoneCanPay ht = false → changes ht i (.insertInput k x) t) ∧
    (∀ k, isAnyoneCanPay ht = false → k < t.vin.length → changes ht i (.removeInput k) t) ∧
    (∀ k o, isAll ht = true → changes ht i (.insertOutput k o) t) ∧
    (∀ k, isAll ht = true → k < t.vout.length → changes ht i (.removeOutput k) t) := by
  refine ⟨?_, ?_, ?_, ?_⟩
  · intro k x h
    refine ⟨.inCount, by simp [committed, h], ?_⟩
    simp [apply, Part.get, length_pyInsert]
  · intro k h hk
    refine ⟨.inCount, by simp [committed, h], ?_⟩
    simp [apply, Part.get, List.length_eraseIdx, hk]; omega
  · intro k o h
    refine ⟨.outCount, by simp [committed, h], ?_⟩
    simp [apply, Part.get, length_pyInsert]
  · intro k h hk
    refine ⟨.outCount, by simp [committed, h], ?_⟩
    simp [apply, Part.get, List.length_eraseIdx, hk]; omega

/-! ### the executable comparison `changedParts` decides `Agree` -/

theorem mem_allParts (n : Nat) (p : Part) :
    p ∈ allParts n ↔
      match p with
      | .prevHash k | .prevN k | .scriptSig k | .sequence k | .value k | .spk k => k < n
      | _ => True := by
  cases p <;> simp [allParts, List.mem_flatMap, List.mem_range]

theorem changedParts_nil_iff (ht i : Nat) (t t' : Tx) : changedParts ht i t t' = [] ↔ Agree ht i t t' := by
  unfold changedParts Agree
  rw [List.filter_eq_nil_iff]
  constructor
  · intro h p hc
    by_cases hp : p ∈ allParts (max (max t.vin.length t'.vin.length) (max t.vout.length t'.vout.length))
    · have := h p hp
      simpa [hc] using this
    · rw [mem_allParts] at hp
      cases p <;> simp only [not_true_eq_false] at hp <;>
        simp only [Part.get] <;>
        rw [List.getElem?_eq_none (by omega), List.getElem?_eq_none (by omega)]
  · intro h p _
    by_cases hc : committed ht i p = true
    · simp [h p hc]
    · simp [hc]

end BtcVerif.CommitProofs
