/-
  C05 — the template verdicts for the CONCRETE environment of the library model
  (`Model.ScriptEval.Real.realCtx`: `Model.Sighash.rawSignatureHash` + SEC1 / strict DER / ECDSA of
  Crypto/*, the executable hashes).  The bridge is C03's `raw_eq` (Model sighash = Spec sighash),
  whose side conditions — the script code tokenises, is shorter than 2^64 bytes, the transaction is
  in wire range, the hash type is one byte — are discharged here for every template script code.
-/
import BtcVerif.Proofs.C05Templates
import BtcVerif.Proofs.SighashLegacy
import BtcVerif.Proofs.CryptoLen
import BtcVerif.Model.ScriptEnvReal

namespace BtcVerif.C05T
open BtcVerif BtcVerif.Spec BtcVerif.Spec.Script BtcVerif.Model.Script BtcVerif.Model.ScriptEval
open BtcVerif.Spec.Templates BtcVerif.Model.ScriptEval.Real BtcVerif.Spec.Sighash

/-! ### the template script codes tokenise -/

theorem parses_of_rawIter {s : Bytes} (h : (rawIter s).2 = none) : parses s :=
  (SighashProofs.parses_iff_rawIter s).1 h

theorem parses_p2pk (key : Bytes) (hk : key.length < 0x4c) : parses (p2pkScript key) :=
  parses_of_rawIter (by rw [rawIter_p2pk key hk])

theorem parses_p2pkh (h : Bytes) (hh : h.length < 0x4c) : parses (p2pkhScript h) :=
  parses_of_rawIter (by rw [rawIter_p2pkh h hh])

theorem parses_multisig (m : Nat) (keys : List Bytes) (hk : ∀ k ∈ keys, k.length < 0x4c) :
    parses (multisigScript m keys) :=
  parses_of_rawIter (by rw [rawIter_multisig m keys hk])

theorem multisig_length_le (m : Nat) (keys : List Bytes) (hk : ∀ k ∈ keys, k.length < 0x4c) :
    (multisigScript m keys).length ≤ 0x4c * keys.length + 5 := by
  have hL := pushAll_length_le keys hk
  have hp1 := numPush_length_le m
  have hp2 := numPush_length_le keys.length
  simp only [multisigScript, List.length_append, List.length_singleton]; omega

/-! ### the signature check of the library model is ECDSA over the reference digest -/

/-- `RawSignatureHash` as modelled (C03) returns the reference digest — for every script code that
    tokenises, every transaction in wire range and every index ≥ 0 -/
theorem real_sigHash (tx : Tx) (i : Nat) (sc : Bytes) (ht : Nat) (hp : parses sc)
    (hsc : sc.length < 2 ^ 64) (hwf : FieldsWF tx) (hht : ht < 256) :
    (realCtx tx (i : Int)).sigHash sc ht = .ok (legacySighash sc tx i ht).1 := by
  show (rawSignatureHashInt sc tx (i : Int) (ht : Int)).map (·.1) = _
  unfold rawSignatureHashInt
  rw [if_pos (Int.natCast_nonneg i), Int.toNat_natCast,
    SighashProofs.raw_eq sc tx i ht hp hsc hwf (SighashProofs.htRel_cast ht) (SighashProofs.packI_ht (by omega))]
  rfl

theorem realCtx_env (tx : Tx) (i : Nat) : (realCtx tx (i : Int)).env = realEnv tx (i : Int) := rfl

/-- (was `0 ≤ inIdx` before the C06/C07 audit round 1) for a transaction in wire range and an index ≥ 0
    the modelled `RawSignatureHash` raises nothing on script codes that tokenise -/
theorem realCtx_sigTotal (tx : Tx) (i : Nat) (hwf : FieldsWF tx) : (realCtx tx (i : Int)).SigTotal :=
  ⟨fun sc ht hlen hht hp =>
    ⟨_, real_sigHash tx i sc ht (parses_of_rawIter hp) (by unfold MAX_SCRIPT_SIZE at hlen; omega) hwf hht⟩⟩

theorem real_sigCheck (tx : Tx) (i : Nat) (body key sc : Bytes) (ht : Nat) (hp : parses sc)
    (hsc : sc.length < 2 ^ 64) (hwf : FieldsWF tx) (hht : ht < 256) :
    (realCtx tx (i : Int)).env.sigCheck body key sc ht =
      (txEnv realHashes ecdsaCheck tx i).sigCheck body key sc ht := by
  simp only [Ctx.env, real_sigHash tx i sc ht hp hsc hwf hht]
  rfl

theorem real_chkSig (tx : Tx) (i : Nat) (sc sig key : Bytes) (hp : parses sc) (hsc : sc.length < 2 ^ 64)
    (hwf : FieldsWF tx) :
    chkSig (realCtx tx (i : Int)).env sc sig key = chkSig (txEnv realHashes ecdsaCheck tx i) sc sig key := by
  unfold chkSig
  cases sig.getLast? with
  | none => rfl
  | some ht => exact real_sigCheck tx i _ key sc _ hp hsc hwf ht.toNat_lt

theorem real_hash160_length (tx : Tx) (i : Int) (x : Bytes) : ((realCtx tx i).env.hashes.hash160 x).length = 20 :=
  Crypto.ripemd160_length _

theorem realHashes_hash160_length (x : Bytes) : (realHashes.hash160 x).length = 20 := Crypto.ripemd160_length _

end BtcVerif.C05T
