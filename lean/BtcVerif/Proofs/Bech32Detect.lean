/-
  C11 helper lemmas, part 5: two valid addresses of the same length under the same prefix differ by an
  error pattern whose syndrome is zero and whose weight is the number of differing characters.
-/
import BtcVerif.Proofs.Bech32Addr

namespace BtcVerif.Bech32
open BtcVerif.Model.Bech32
open BtcVerif.Spec.Bech32 (charOf? dataChars? lowerStr Regroup Decodes ValidSegwit checksumValid)

/-- number of positions at which two strings (of the same length) differ -/
def hamming {α : Type} [DecidableEq α] : List α → List α → Nat
  | a :: as, b :: bs => (if a = b then 0 else 1) + hamming as bs
  | _, _ => 0

theorem hamming_append_left {α : Type} [DecidableEq α] (p a b : List α) :
    hamming (p ++ a) (p ++ b) = hamming a b := by
  induction p with
  | nil => rfl
  | cons x p ih => simp [hamming, ih]

theorem hamming_self {α : Type} [DecidableEq α] (a : List α) : hamming a a = 0 := by
  induction a with
  | nil => rfl
  | cons x a ih => simp [hamming, ih]

theorem hamming_chars (D D' : List Nat) (cs cs' : List Char) (h : dataChars? D = some cs)
    (h' : dataChars? D' = some cs') : hamming cs cs' = hamming D D' := by
  induction D generalizing D' cs cs' with
  | nil =>
    unfold dataChars? at h
    rw [mapM_nil_some] at h
    subst h
    simp [hamming]
  | cons d D ih =>
    unfold dataChars? at h
    rw [mapM_cons_some] at h
    obtain ⟨c, cs1, hc, hcs1, rfl⟩ := h
    cases D' with
    | nil =>
      unfold dataChars? at h'
      rw [mapM_nil_some] at h'
      subst h'
      simp [hamming]
    | cons d' D' =>
      unfold dataChars? at h'
      rw [mapM_cons_some] at h'
      obtain ⟨c', cs1', hc', hcs1', rfl⟩ := h'
      simp only [hamming]
      rw [ih D' cs1 cs1' hcs1 hcs1']
      congr 1
      by_cases hd : d = d'
      · subst hd
        rw [hc] at hc'
        simp only [Option.some.injEq] at hc'
        simp [hc']
      · have : c ≠ c' := by
          intro hcc
          subst hcc
          have h1 := (charsetFind_iff c d).2 hc
          have h2 := (charsetFind_iff c d').2 hc'
          rw [h1] at h2
          exact hd (Option.some.inj h2)
        simp [hd, this]

theorem weight_xorList (D D' : List Nat) (hl : D.length = D'.length) :
    weight (xorList D D') = hamming D D' := by
  induction D generalizing D' with
  | nil => cases D' <;> simp [xorList, weight, hamming]
  | cons d D ih =>
    cases D' with
    | nil => simp at hl
    | cons d' D' =>
      simp only [xorList, weight, hamming]
      rw [ih D' (by simpa using hl)]
      congr 1
      by_cases hd : d = d'
      · subst hd; simp
      · have : d ^^^ d' ≠ 0 := fun h => hd (xor_eq_zero h)
        simp [hd, this]

theorem xorList_facts (D D' : List Nat) (hl : D.length = D'.length) (h : ∀ v ∈ D, v < 32)
    (h' : ∀ v ∈ D', v < 32) : (xorList D D').length = D.length ∧ ∀ v ∈ xorList D D', v < 32 := by
  induction D generalizing D' with
  | nil => cases D' <;> simp [xorList]
  | cons d D ih =>
    cases D' with
    | nil => simp at hl
    | cons d' D' =>
      obtain ⟨i1, i2⟩ := ih D' (by simpa using hl) (fun v hv => h v (by simp [hv]))
        (fun v hv => h' v (by simp [hv]))
      refine ⟨by simp [xorList, i1], ?_⟩
      intro v hv
      simp only [xorList, List.mem_cons] at hv
      rcases hv with rfl | hv
      · exact Nat.xor_lt_two_pow (n := 5) (h d (by simp)) (h' d' (by simp))
      · exact i2 v hv

/-- two valid addresses of the same length under the same prefix differ by a zero-syndrome pattern -/
theorem valid_pair_syndrome (h s s' : List Char) (hs : ValidSegwit h s) (hs' : ValidSegwit h s')
    (hl : s'.length = s.length) :
    ∃ E : List Nat, (∀ v ∈ E, v < 32) ∧ E.length ≤ 88 ∧
      weight E = hamming (lowerStr s) (lowerStr s') ∧ run 0 E = 0 := by
  obtain ⟨v, p, _, _, hlen, hne, rest, ck, cs, _, hdc, hlow, hpm, _⟩ := hs
  obtain ⟨v', p', _, _, _, _, rest', ck', cs', _, hdc', hlow', hpm', _⟩ := hs'
  set D := v :: rest ++ ck
  set D' := v' :: rest' ++ ck'
  have hf := dataChars_facts _ _ hdc
  have hf' := dataChars_facts _ _ hdc'
  have hsl : (lowerStr s).length = s.length := by simp [lowerStr]
  have hsl' : (lowerStr s').length = s'.length := by simp [lowerStr]
  have hcl : cs.length = cs'.length := by
    rw [hlow] at hsl; rw [hlow'] at hsl'
    simp only [List.length_append, List.length_cons] at hsl hsl'
    omega
  have hDl : D.length = D'.length := by rw [← hf.1, ← hf'.1, hcl]
  have hD88 : D.length ≤ 88 := by
    rw [hlow] at hsl
    simp only [List.length_append, List.length_cons] at hsl
    have : 0 < h.length := List.length_pos_iff.2 hne
    rw [← hf.1]; omega
  obtain ⟨hEl, hE32⟩ := xorList_facts D D' hDl hf.2.1 hf'.2.1
  refine ⟨xorList D D', hE32, by omega, ?_, ?_⟩
  · rw [weight_xorList D D' hDl, hlow, hlow', hamming_append_left]
    simp only [hamming, if_true, Nat.zero_add]
    exact (hamming_chars D D' cs cs' hdc hdc').symm
  · unfold checksumValid at hpm hpm'
    rw [← polymod_eq_spec, ← hrpExpand_eq_spec, polymod_eq_run, run_append] at hpm hpm'
    have := run_xor (run 1 (hrpExpand h)) (run 1 (hrpExpand h)) D D' hDl
    rw [Nat.xor_self] at this
    rw [this, hpm, hpm', Nat.xor_self]

/-- `detects_le2`, on the predicate -/
theorem valid_hamming_gt2 (h s s' : List Char) (hs : ValidSegwit h s) (hs' : ValidSegwit h s')
    (hl : s'.length = s.length) :
    hamming (lowerStr s) (lowerStr s') ≠ 1 ∧ hamming (lowerStr s) (lowerStr s') ≠ 2 := by
  obtain ⟨E, hE, hEl, hw, hrun⟩ := valid_pair_syndrome h s s' hs hs' hl
  constructor
  · intro h1
    exact syndrome_ne_zero_le2 E hE (by omega) (Or.inl (by omega)) hrun
  · intro h2
    exact syndrome_ne_zero_le2 E hE (by omega) (Or.inr (by omega)) hrun

/-! ### substitutions -/

/-- apply character substitutions `(position, new character)` one after the other (positions beyond
    the end change nothing, as a substitution cannot lengthen a string) -/
def substitute (s : List Char) (subs : List (Nat × Char)) : List Char :=
  subs.foldl (fun s pc => s.set pc.1 pc.2) s

theorem substitute_length (s : List Char) (subs : List (Nat × Char)) :
    (substitute s subs).length = s.length := by
  induction subs generalizing s with
  | nil => rfl
  | cons pc subs ih => simp [substitute, List.foldl_cons] at ih ⊢; rw [ih]; simp

theorem hamming_set_le {α : Type} [DecidableEq α] (a b : List α) (i : Nat) (x : α) :
    hamming a (b.set i x) ≤ hamming a b + 1 := by
  induction a generalizing b i with
  | nil => simp [hamming]
  | cons y a ih =>
    cases b with
    | nil => simp [hamming]
    | cons z b =>
      cases i with
      | zero =>
        simp only [List.set_cons_zero, hamming]
        split <;> split <;> omega
      | succ i =>
        simp only [List.set_cons_succ, hamming]
        have := ih b i
        omega

theorem lowerStr_set (s : List Char) (i : Nat) (c : Char) :
    lowerStr (s.set i c) = (lowerStr s).set i c.toLower := by
  unfold lowerStr
  exact List.map_set

theorem hamming_substitute_le (s : List Char) (subs : List (Nat × Char)) :
    hamming (lowerStr s) (lowerStr (substitute s subs)) ≤ subs.length := by
  suffices h : ∀ t : List Char, hamming (lowerStr s) (lowerStr (substitute t subs))
      ≤ hamming (lowerStr s) (lowerStr t) + subs.length by
    have := h s
    rw [hamming_self] at this
    omega
  induction subs with
  | nil => intro t; simp [substitute]
  | cons pc subs ih =>
    intro t
    have h1 := ih (t.set pc.1 pc.2)
    have h2 := hamming_set_le (lowerStr s) (lowerStr t) pc.1 pc.2.toLower
    rw [← lowerStr_set] at h2
    simp only [substitute, List.foldl_cons, List.length_cons] at h1 ⊢
    omega

theorem hamming_eq_zero {α : Type} [DecidableEq α] (a b : List α) (hl : a.length = b.length)
    (h : hamming a b = 0) : a = b := by
  induction a generalizing b with
  | nil => cases b with
    | nil => rfl
    | cons _ _ => simp at hl
  | cons x a ih =>
    cases b with
    | nil => simp at hl
    | cons y b =>
      simp only [hamming] at h
      by_cases hxy : x = y
      · subst hxy
        simp only [if_true, Nat.zero_add] at h
        rw [ih b (by simpa using hl) h]
      · simp [hxy] at h

end BtcVerif.Bech32
