/-
  C15/C16 — helper lemmas: on fields in wire range the serialisers of `Model.Wire` succeed and
  produce the byte strings of `Spec.Wire` (the part of C01's `ser_eq_spec` these properties use).
-/
import BtcVerif.Model.Wire
import BtcVerif.Spec.Wire
import BtcVerif.Spec.Merkle

namespace BtcVerif.SerSpec
open BtcVerif BtcVerif.Model.Wire BtcVerif.Spec.Merkle

theorem mapM_ok {α β : Type} (f : α → Res β) (g : α → β) (xs : List α)
    (h : ∀ x ∈ xs, f x = .ok (g x)) : xs.mapM f = .ok (xs.map g) := by
  induction xs with
  | nil => rfl
  | cons x xs ih =>
    have hx := h x (by simp)
    have hxs := ih (fun y hy => h y (by simp [hy]))
    simp [List.mapM_cons, hx, hxs, bind, Except.bind, pure, Except.pure]

theorem packU_ok (w n : Nat) (h : n < 256 ^ w) : packU w n = .ok (leBytes w n) := by
  simp [packU, h]

theorem packI_ok (w : Nat) (i : Int) (h : -(2 ^ (8 * w - 1) : Int) ≤ i ∧ i < (2 ^ (8 * w - 1) : Int)) :
    packI w i = .ok (leBytesInt w i) := by
  simp [packI, h]

theorem serVarInt_ok (n : Nat) (h : n < 2 ^ 64) : serVarInt n = .ok (Spec.Wire.compactSize n) := by
  unfold serVarInt Spec.Wire.compactSize
  by_cases h1 : n < 0xfd
  · simp [h1]
  · by_cases h2 : n ≤ 0xffff
    · simp [h1, h2, packU_ok 2 n (by omega), Except.map]
    · by_cases h3 : n ≤ 0xffffffff
      · simp [h1, h2, h3, packU_ok 4 n (by omega), Except.map]
      · simp [h1, h2, h3, packU_ok 8 n (by omega), Except.map]

theorem serBytes_ok (b : Bytes) (h : b.length < 2 ^ 64) : serBytes b = .ok (Spec.Wire.varBytes b) := by
  simp [serBytes, Spec.Wire.varBytes, serVarInt_ok _ h, bind, Except.bind, pure, Except.pure]

theorem serVector_ok {α : Type} (ser : α → Res Bytes) (enc : α → Bytes) (xs : List α)
    (hl : xs.length < 2 ^ 64) (h : ∀ x ∈ xs, ser x = .ok (enc x)) :
    serVector ser xs = .ok (Spec.Wire.vec enc xs) := by
  simp [serVector, Spec.Wire.vec, serVarInt_ok _ hl, mapM_ok ser enc xs h, bind, Except.bind, pure,
    Except.pure]

theorem maxSize_lt : Spec.Wire.maxSize < 2 ^ 64 := by decide

theorem serOutPoint_ok (o : OutPoint) (h : Spec.Wire.WFOutPoint o) :
    serOutPoint o = .ok (Spec.Wire.outPoint o) := by
  obtain ⟨h1, h2⟩ := h
  simp [serOutPoint, Spec.Wire.outPoint, h1, packU_ok 4 o.n (by omega), bind, Except.bind, pure,
    Except.pure]

theorem serTxIn_ok (i : TxIn) (h : Spec.Wire.WFTxIn i) : serTxIn i = .ok (Spec.Wire.txIn i) := by
  obtain ⟨h1, h2, h3⟩ := h
  have := maxSize_lt
  simp [serTxIn, Spec.Wire.txIn, serOutPoint_ok _ h1, serBytes_ok i.scriptSig (by omega),
    packU_ok 4 i.nSequence (by omega), bind, Except.bind, pure, Except.pure]

theorem serTxOut_ok (o : TxOut) (h : Spec.Wire.WFTxOut o) : serTxOut o = .ok (Spec.Wire.txOut o) := by
  obtain ⟨h1, h2, h3⟩ := h
  have := maxSize_lt
  simp [serTxOut, Spec.Wire.txOut, packI_ok 8 o.nValue (by simpa using ⟨h1, h2⟩),
    serBytes_ok o.scriptPubKey (by omega), bind, Except.bind, pure, Except.pure]

theorem serWitStack_ok (s : WitStack) (h : Spec.Wire.WFWitStack s) :
    serWitStack s = .ok (Spec.Wire.witStack s) := by
  obtain ⟨h1, h2⟩ := h
  have := maxSize_lt
  exact serVector_ok serBytes Spec.Wire.varBytes s h1
    (fun b hb => serBytes_ok b (by have := h2 b hb; omega))

theorem serWitness_ok (w : List WitStack) (h : ∀ s ∈ w, Spec.Wire.WFWitStack s) :
    serWitness w = .ok (w.map Spec.Wire.witStack).flatten := by
  simp [serWitness, mapM_ok serWitStack Spec.Wire.witStack w (fun s hs => serWitStack_ok s (h s hs)),
    bind, Except.bind, pure, Except.pure]

/-- `stream_serialize(include_witness=False)`: the legacy encoding -/
theorem serTx_false (t : Tx) (h : TxRange t) : serTx t false = .ok (Spec.Wire.txLegacy t) := by
  obtain ⟨h1, h2, h3, h4, h5, h6, _, _, h9⟩ := h
  simp [serTx, Spec.Wire.txLegacy, packI_ok 4 t.nVersion (by simpa using ⟨h1, h2⟩),
    serVector_ok serTxIn Spec.Wire.txIn t.vin h3 (fun i hi => serTxIn_ok i (h5 i hi)),
    serVector_ok serTxOut Spec.Wire.txOut t.vout h4 (fun o ho => serTxOut_ok o (h6 o ho)),
    packU_ok 4 t.nLockTime (by omega), bind, Except.bind, pure, Except.pure, List.append_assoc]

/-- `stream_serialize()`: BIP144 form exactly when some witness stack is non-empty -/
theorem serTx_true (t : Tx) (h : TxRange t) : serTx t true = .ok (Spec.Wire.txBytes t) := by
  obtain ⟨h1, h2, h3, h4, h5, h6, h7, h8, h9⟩ := h
  by_cases hw : witIsNull t.wit = true
  · simp [serTx, Spec.Wire.txBytes, Tx.hasWitness_eq_not_witIsNull, hw, Spec.Wire.txLegacy,
      packI_ok 4 t.nVersion (by simpa using ⟨h1, h2⟩),
      serVector_ok serTxIn Spec.Wire.txIn t.vin h3 (fun i hi => serTxIn_ok i (h5 i hi)),
      serVector_ok serTxOut Spec.Wire.txOut t.vout h4 (fun o ho => serTxOut_ok o (h6 o ho)),
      packU_ok 4 t.nLockTime (by omega), bind, Except.bind, pure, Except.pure, List.append_assoc]
  · have hw' : witIsNull t.wit = false := by simpa using hw
    have h7' : ¬ (t.wit.length > t.vin.length) := by omega
    simp [serTx, Spec.Wire.txBytes, Tx.hasWitness_eq_not_witIsNull, hw', Spec.Wire.txExtended, h7',
      packI_ok 4 t.nVersion (by simpa using ⟨h1, h2⟩),
      serVector_ok serTxIn Spec.Wire.txIn t.vin h3 (fun i hi => serTxIn_ok i (h5 i hi)),
      serVector_ok serTxOut Spec.Wire.txOut t.vout h4 (fun o ho => serTxOut_ok o (h6 o ho)),
      serWitness_ok t.wit h8,
      packU_ok 4 t.nLockTime (by omega), bind, Except.bind, pure, Except.pure, List.append_assoc]

theorem strip_range (t : Tx) (h : TxRange t) : TxRange t.strip := by
  obtain ⟨h1, h2, h3, h4, h5, h6, _, _, h9⟩ := h
  exact ⟨h1, h2, h3, h4, h5, h6, by simp [Tx.strip], by simp [Tx.strip], h9⟩

/-- `CTransaction(vin, vout, nLockTime, nVersion).serialize()` -/
theorem serTx_strip (t : Tx) (h : TxRange t) : serTx t.strip true = .ok (Spec.Wire.txLegacy t) := by
  rw [serTx_true _ (strip_range t h)]
  simp [Spec.Wire.txBytes, Tx.hasWitness_eq_not_witIsNull, Tx.strip, witIsNull, Spec.Wire.txLegacy]

theorem serHeader_ok (h : Header) (hh : Spec.Wire.WFHeader h) : serHeader h = .ok (Spec.Wire.header h) := by
  obtain ⟨h1, h2, h3, h4, h5, h6, h7⟩ := hh
  simp [serHeader, Spec.Wire.header, packI_ok 4 h.nVersion (by simpa using ⟨h1, h2⟩), h3, h4,
    packU_ok 4 h.nTime (by omega), packU_ok 4 h.nBits (by omega), packU_ok 4 h.nNonce (by omega),
    bind, Except.bind, pure, Except.pure, List.append_assoc]

theorem serBlock_true (b : Block) (h : BlockRange b) : serBlock b true = .ok (Spec.Wire.block b) := by
  obtain ⟨h1, h2, h3⟩ := h
  simp [serBlock, Spec.Wire.block, serHeader_ok _ h1,
    serVector_ok (serTx · true) Spec.Wire.txBytes b.vtx h2 (fun t ht => serTx_true t (h3 t ht)),
    bind, Except.bind, pure, Except.pure]

theorem serBlock_false (b : Block) (h : BlockRange b) :
    serBlock b false = .ok (Spec.Wire.header b.hdr ++ Spec.Wire.vec Spec.Wire.txLegacy b.vtx) := by
  obtain ⟨h1, h2, h3⟩ := h
  simp [serBlock, serHeader_ok _ h1,
    serVector_ok (serTx · false) Spec.Wire.txLegacy b.vtx h2 (fun t ht => serTx_false t (h3 t ht)),
    bind, Except.bind, pure, Except.pure]

end BtcVerif.SerSpec
