/-
  C12 — helper lemmas, part 3: text forms.  A Base58Check address text of one of the four chains
  starts with '1', '3', 'm', 'n' or '2' and is therefore never a segwit address of any chain; text
  round trips of the prescribed addresses.
-/
import BtcVerif.Proofs.AddrStd

namespace BtcVerif.AddrProofs
open BtcVerif BtcVerif.Spec
open BtcVerif.Spec.Addr (AddrClass Addr ValidFor stdScript prescribedAddr prescribedVer prescribedText)
open BtcVerif.Spec.Base58 (numeral58 digitChar enc checkEnc leadingZeros)
open BtcVerif.Model.Addr
open BtcVerif.Base58Proofs

/-! ### the leading character of a base-58 numeral -/

theorem beNat_append (b c : Bytes) : beNat (b ++ c) = beNat b * 256 ^ c.length + beNat c := by
  induction c using List.reverseRecOn with
  | nil => simp [beNat_nil]
  | append_singleton t x ih =>
    rw [← List.append_assoc, beNat_append_singleton, ih, beNat_append_singleton]
    simp only [List.length_append, List.length_singleton, Nat.pow_succ]
    ring

theorem beNat_lt (b : Bytes) : beNat b < 256 ^ b.length := by
  induction b using List.reverseRecOn with
  | nil => simp [beNat_nil]
  | append_singleton t x ih =>
    rw [beNat_append_singleton]
    have hx : x.toNat < 256 := x.toNat_lt
    simp only [List.length_append, List.length_singleton, Nat.pow_succ]
    omega

theorem numeral58_head_range (k : Nat) : ∀ (lo hi N : Nat), 1 ≤ lo → hi ≤ 58 →
    lo * 58 ^ k ≤ N → N < hi * 58 ^ k →
    ∃ d, lo ≤ d ∧ d < hi ∧ (numeral58 N).head? = some (digitChar d) := by
  induction k with
  | zero =>
    intro lo hi N hlo hhi h1 h2
    simp only [Nat.pow_zero, Nat.mul_one] at h1 h2
    refine ⟨N, h1, h2, ?_⟩
    have hN : N ≠ 0 := by omega
    have hq : N / 58 = 0 := by omega
    rw [numeral58_pos hN, hq, numeral58_zero]
    rfl
  | succ k ih =>
    intro lo hi N hlo hhi h1 h2
    have hpos : 0 < 58 ^ (k + 1) := Nat.pow_pos (by decide)
    have hN : N ≠ 0 := by
      have : 1 * 58 ^ (k + 1) ≤ lo * 58 ^ (k + 1) := Nat.mul_le_mul_right _ hlo
      omega
    have h1' : lo * 58 ^ k ≤ N / 58 := by
      rw [Nat.le_div_iff_mul_le (by decide)]
      rw [Nat.pow_succ, ← Nat.mul_assoc] at h1; exact h1
    have h2' : N / 58 < hi * 58 ^ k := by
      rw [Nat.div_lt_iff_lt_mul (by decide)]
      rw [Nat.pow_succ, ← Nat.mul_assoc] at h2; exact h2
    obtain ⟨d, hd1, hd2, hd⟩ := ih lo hi (N / 58) hlo hhi h1' h2'
    refine ⟨d, hd1, hd2, ?_⟩
    rw [numeral58_pos hN]
    have hne : numeral58 (N / 58) ≠ [] := by
      intro h0; rw [h0] at hd; simp at hd
    rw [head?_append_ne_nil _ _ hne, hd]

theorem leadingZeros_cons_ne (v : UInt8) (rest : Bytes) (hv : v ≠ 0) : leadingZeros (v :: rest) = 0 := by
  simp [leadingZeros, List.takeWhile_cons, hv]

/-- a leading character that no bech32 prefix of the four chains starts with (in either case) -/
def NotBechHead (s : List Char) : Prop :=
  ∃ c, s.head? = some c ∧ c.toLower ≠ 'b' ∧ c.toLower ≠ 't'

theorem enc_head_of_range (v : UInt8) (rest : Bytes) (hv : v ≠ 0) (k lo hi : Nat) (hlo : 1 ≤ lo)
    (hhi : hi ≤ 58) (h1 : lo * 58 ^ k ≤ v.toNat * 256 ^ rest.length)
    (h2 : (v.toNat + 1) * 256 ^ rest.length ≤ hi * 58 ^ k) :
    ∃ d, lo ≤ d ∧ d < hi ∧ (enc (v :: rest)).head? = some (digitChar d) := by
  have hN : beNat (v :: rest) = v.toNat * 256 ^ rest.length + beNat rest := by
    have := beNat_append [v] rest
    simpa [beNat] using this
  have hlt := beNat_lt rest
  unfold enc
  rw [leadingZeros_cons_ne v rest hv, List.replicate_zero, List.nil_append]
  apply numeral58_head_range k lo hi _ hlo hhi
  · omega
  · have : (v.toNat + 1) * 256 ^ rest.length = v.toNat * 256 ^ rest.length + 256 ^ rest.length := by ring
    omega

/-- the Base58Check text of a 20-byte payload under one of the four chains' version bytes does not
    start like a segwit address -/
theorem b58text_head (v : UInt8) (rest : Bytes) (hr : rest.length = 24)
    (hv : v = 0 ∨ v = 5 ∨ v = 111 ∨ v = 196) : NotBechHead (enc (v :: rest)) := by
  rcases hv with rfl | rfl | rfl | rfl
  · refine ⟨'1', ?_, by decide, by decide⟩
    have : leadingZeros ((0 : UInt8) :: rest) = leadingZeros rest + 1 := by
      simp [leadingZeros, List.takeWhile_cons]
    simp [enc, this, List.replicate_succ]
  · obtain ⟨d, hd1, hd2, hd⟩ := enc_head_of_range 5 rest (by decide) 33 2 3 (by decide) (by decide)
      (by rw [hr]; decide) (by rw [hr]; decide)
    have : d = 2 := by omega
    subst this
    exact ⟨_, hd, by decide, by decide⟩
  · obtain ⟨d, hd1, hd2, hd⟩ := enc_head_of_range 111 rest (by decide) 33 44 46 (by decide) (by decide)
      (by rw [hr]; decide) (by rw [hr]; decide)
    have : d = 44 ∨ d = 45 := by omega
    rcases this with rfl | rfl
    · exact ⟨_, hd, by decide, by decide⟩
    · exact ⟨_, hd, by decide, by decide⟩
  · obtain ⟨d, hd1, hd2, hd⟩ := enc_head_of_range 196 rest (by decide) 34 1 2 (by decide) (by decide)
      (by rw [hr]; decide) (by rw [hr]; decide)
    have : d = 1 := by omega
    subst this
    exact ⟨_, hd, by decide, by decide⟩

/-! ### such a text is refused by the bech32 reader of every chain -/

theorem hrp_head (chain : ChainParams) (hc : chain ∈ chainTable) :
    chain.bech32Hrp.toList.head? = some 'b' ∨ chain.bech32Hrp.toList.head? = some 't' := by
  simp only [chainTable, List.mem_cons, List.not_mem_nil, or_false] at hc
  rcases hc with rfl | rfl | rfl | rfl <;> decide

theorem not_decodes_of_head (chain : ChainParams) (hc : chain ∈ chainTable) (s : List Char)
    (hs : NotBechHead s) (v : Nat) (p : List Nat) : ¬ Bech32.Decodes chain.bech32Hrp.toList s v p := by
  intro hd
  obtain ⟨_, _, _, hne, rest, ck, dchars, _, _, hlow, _⟩ := hd
  obtain ⟨c, hc1, hb, ht⟩ := hs
  have h1 : (Bech32.lowerStr s).head? = some c.toLower := by
    cases s with
    | nil => simp at hc1
    | cons x xs =>
      simp only [List.head?_cons, Option.some.injEq] at hc1
      subst hc1
      simp [Bech32.lowerStr]
  have h2 : (chain.bech32Hrp.toList ++ '1' :: dchars).head? = chain.bech32Hrp.toList.head? :=
    head?_append_ne_nil _ _ hne
  rw [hlow, h2] at h1
  rcases hrp_head chain hc with h | h <;> rw [h] at h1 <;> simp only [Option.some.injEq] at h1
  · exact hb h1.symm
  · exact ht h1.symm

theorem bech32New_refuses (chain : ChainParams) (hc : chain ∈ chainTable) (s : List Char)
    (hs : NotBechHead s) : bech32New chain s = .error .bech32err := by
  rcases bech32New_cases chain s with ⟨a, _, hcls, hv⟩ | ⟨h, _⟩ | ⟨_, v, p, _, hd⟩
  · exfalso
    have := hv (fun _ => [])
    rcases hcls with h | h <;> simp only [ValidFor, h] at this <;>
      exact not_decodes_of_head chain hc s hs _ _ this.2.2
  · exact h
  · exact absurd hd (not_decodes_of_head chain hc s hs v p)

/-! ### Base58Check texts through the parser -/

theorem str_eq_checkEnc (H : Bytes → Bytes) (v : UInt8) (p : Bytes) :
    Model.Base58.str H ⟨v, p⟩ = checkEnc H v p := by
  simp [Model.Base58.str, checkEnc, C10.encode_eq_spec]

theorem new_checkEnc (H : Bytes → Bytes) (hH : ∀ x, 4 ≤ (H x).length) (v : UInt8) (p : Bytes) :
    Model.Base58.new H (checkEnc H v p) = .ok ⟨v, p⟩ := by
  obtain ⟨d, _, hd, h⟩ := C10.check_roundtrip H hH v p
  subst hd
  rw [str_eq_checkEnc] at h
  exact h

theorem checkEnc_head (H : Bytes → Bytes) (hH : ∀ x, 4 ≤ (H x).length) (v : UInt8) (p : Bytes)
    (hp : p.length = 20) (hv : v = 0 ∨ v = 5 ∨ v = 111 ∨ v = 196) : NotBechHead (checkEnc H v p) := by
  unfold checkEnc
  rw [List.cons_append]
  apply b58text_head v _ _ hv
  have := hH (v :: p)
  simp only [List.length_append, List.length_take, hp]
  omega

/-- the version bytes that occur in the chain table -/
theorem chain_versions (chain : ChainParams) (hc : chain ∈ chainTable) :
    (chain.pubkeyAddr = 0 ∨ chain.pubkeyAddr = 111) ∧ (chain.scriptAddr = 5 ∨ chain.scriptAddr = 196) ∧
    chain.pubkeyAddr ≠ chain.scriptAddr := by
  simp only [chainTable, List.mem_cons, List.not_mem_nil, or_false] at hc
  rcases hc with rfl | rfl | rfl | rfl <;> decide

theorem tableVersion_cases (chain : ChainParams) (hc : chain ∈ chainTable) (t : AddrClass)
    (ht : t = .p2pkh ∨ t = .p2sh) :
    let v := UInt8.ofNat (prescribedVer chain t)
    (v = 0 ∨ v = 5 ∨ v = 111 ∨ v = 196) ∧ v.toNat = prescribedVer chain t := by
  obtain ⟨h1, h2, _⟩ := chain_versions chain hc
  rcases ht with rfl | rfl <;> simp only [prescribedVer]
  · rcases h1 with h | h <;> rw [h] <;> decide
  · rcases h2 with h | h <;> rw [h] <;> decide

/-- parsing, under chain `B`, the Base58Check text of version `v` (one of the table's version bytes)
    and a 20-byte payload: the bech32 reader refuses, the base58 reader decides by the version byte -/
theorem parse_checkEnc (H : Bytes → Bytes) (hH : ∀ x, 4 ≤ (H x).length) (B : ChainParams)
    (hB : B ∈ chainTable) (v : UInt8) (p : Bytes) (hp : p.length = 20)
    (hv : v = 0 ∨ v = 5 ∨ v = 111 ∨ v = 196) :
    parse H B (checkEnc H v p) =
      match classify B ⟨v, p⟩ with
      | .ok a => .ok a
      | .error e => .error e := by
  unfold parse
  rw [bech32New_refuses B hB _ (checkEnc_head H hH v p hp hv)]
  simp only [base58New, new_checkEnc H hH]
  cases hcl : classify B ⟨v, p⟩ with
  | ok a => rfl
  | error e =>
    have : e = .addrerr := by
      unfold classify at hcl
      split at hcl
      · cases hcl
      · split at hcl
        · cases hcl
        · cases hcl; rfl
    subst this
    rfl

/-! ### segwit texts through the parser -/

theorem hrp_valid (chain : ChainParams) (hc : chain ∈ chainTable) :
    Bech32.validHrp chain.bech32Hrp.toList ∧ chain.bech32Hrp.toList.length ≤ 4 := by
  simp only [chainTable, List.mem_cons, List.not_mem_nil, or_false] at hc
  rcases hc with rfl | rfl | rfl | rfl <;>
    exact ⟨⟨by decide, by decide, by decide⟩, by decide⟩

theorem parse_of_decodes0 (H : Bytes → Bytes) (chain : ChainParams) (s : List Char) (payload : Bytes)
    (hd : Bech32.Decodes chain.bech32Hrp.toList s 0 (payload.map UInt8.toNat)) (a : Addr)
    (ha : bech32FromBytes 0 (payload.map UInt8.toNat) = .ok a) : parse H chain s = .ok a := by
  have := (BtcVerif.Bech32.decodeR_iff _ _ _ _).2 hd
  unfold parse bech32New
  rw [this]
  simp only [ha]

theorem segwit_text_roundtrip (H : Bytes → Bytes) (chain : ChainParams) (hc : chain ∈ chainTable)
    (t : AddrClass) (ht : t = .p2wpkh ∨ t = .p2wsh) (payload : Bytes) (hlen : payload.length = t.payloadLen) :
    ∃ text, toText H chain (prescribedAddr chain t payload) = .ok text ∧
      prescribedText H chain t payload = some text ∧
      parse H chain text = .ok (prescribedAddr chain t payload) := by
  obtain ⟨hh, hl4⟩ := hrp_valid chain hc
  have hp : payload.length = 20 ∨ payload.length = 32 := by
    rcases ht with rfl | rfl <;> simp [AddrClass.payloadLen] at hlen <;> omega
  have hlen90 : chain.bech32Hrp.toList.length + 1 + (1 + (8 * payload.length + 4) / 5 + 6) ≤ 90 := by
    rcases hp with h | h <;> rw [h] <;> omega
  obtain ⟨a, h1, h2, h3, _⟩ := BtcVerif.Bech32.encode_spec chain.bech32Hrp.toList 0 payload hh
    (by omega) (by omega) (by omega) (fun _ => hp) hlen90
  refine ⟨a, ?_, ?_, ?_⟩
  · rcases ht with rfl | rfl <;>
      simp [toText, prescribedAddr, prescribedVer, Model.Bech32.cbech32Str, h1]
  · rcases ht with rfl | rfl <;> simp [prescribedText, h2]
  · apply parse_of_decodes0 H chain a payload h3
    rcases ht with rfl | rfl
    · simp only [AddrClass.payloadLen] at hlen
      rw [bech32FromBytes_20 payload hlen]; rfl
    · simp only [AddrClass.payloadLen] at hlen
      rw [bech32FromBytes_32 payload hlen]; rfl

/-- two different prefixes of the table cannot both be the prefix of one lower-cased string -/
theorem hrp_conflict (A B : ChainParams) (hA : A ∈ chainTable) (hB : B ∈ chainTable)
    (hne : A.bech32Hrp ≠ B.bech32Hrp) (d d' : List Char)
    (h : A.bech32Hrp.toList ++ '1' :: d = B.bech32Hrp.toList ++ '1' :: d') : False := by
  simp only [chainTable, List.mem_cons, List.not_mem_nil, or_false] at hA hB
  rcases hA with rfl | rfl | rfl | rfl <;> rcases hB with rfl | rfl | rfl | rfl <;>
    first
    | exact hne rfl
    | (have e1 : mainnet.bech32Hrp.toList = ['b', 'c'] := by decide
       have e2 : testnet.bech32Hrp.toList = ['t', 'b'] := by decide
       have e3 : signet.bech32Hrp.toList = ['t', 'b'] := by decide
       have e4 : regtest.bech32Hrp.toList = ['b', 'c', 'r', 't'] := by decide
       simp only [e1, e2, e3, e4, List.cons_append, List.nil_append, List.cons.injEq] at h
       obtain ⟨h1, _, h3, _⟩ := h
       first
       | exact absurd h1 (by decide)
       | exact absurd h3 (by decide))

theorem bech32New_other_chain (A B : ChainParams) (hA : A ∈ chainTable) (hB : B ∈ chainTable)
    (hne : A.bech32Hrp ≠ B.bech32Hrp) (s : List Char) (v : Nat) (p : List Nat)
    (hd : Bech32.Decodes A.bech32Hrp.toList s v p) : bech32New B s = .error .bech32err := by
  have hno : ∀ v' p', ¬ Bech32.Decodes B.bech32Hrp.toList s v' p' := by
    intro v' p' hd'
    obtain ⟨_, _, _, _, _, _, d, _, _, hl, _⟩ := hd
    obtain ⟨_, _, _, _, _, _, d', _, _, hl', _⟩ := hd'
    rw [hl] at hl'
    exact hrp_conflict A B hA hB hne d d' hl'
  rcases bech32New_cases B s with ⟨a, _, hcls, hv⟩ | ⟨h, _⟩ | ⟨_, v', p', _, hd'⟩
  · exfalso
    have := hv (fun _ => [])
    rcases hcls with h | h <;> simp only [ValidFor, h] at this <;> exact hno _ _ this.2.2
  · exact h
  · exact absurd hd' (hno v' p')

end BtcVerif.AddrProofs
