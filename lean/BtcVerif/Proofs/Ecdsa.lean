/-
  ECDSA stated abstractly (SEC 1 §4.1) over any additive commutative group `E` that is a module over
  the prime field `ZMod q` (a group of exponent q: every element is killed by q), with a base point
  `g` and a conversion function `f : E → ZMod q` ("x-coordinate mod n") that is even: `f (−P) = f P`.
  Pure group algebra; nothing here is specific to secp256k1.  That the Jacobian formulas of
  Crypto/Secp256k1.lean implement such a group is NOT proved (trusted base, cross-checked by T2).
-/
import Mathlib.Algebra.Field.ZMod
import Mathlib.Algebra.Module.Basic
import Mathlib.Tactic.FieldSimp
import Mathlib.Tactic.Ring

namespace BtcVerif.Ecdsa

variable {q : ℕ} [Fact q.Prime] {E : Type} [AddCommGroup E] [Module (ZMod q) E]

/-- the data ECDSA needs from the curve -/
structure Params (q : ℕ) (E : Type) [AddCommGroup E] where
  g : E
  f : E → ZMod q
  f_neg : ∀ P, f (-P) = f P

/-- the point the verifier computes: `(e/s)·G + (r/s)·Q` -/
def verifyPoint (C : Params q E) (Q : E) (e r s : ZMod q) : E := (e * s⁻¹) • C.g + (r * s⁻¹) • Q

/-- SEC 1 §4.1.4 (scalars already reduced into the field, so "in [1, n−1]" reads "≠ 0") -/
def Verify (C : Params q E) (Q : E) (e r s : ZMod q) : Prop :=
  r ≠ 0 ∧ s ≠ 0 ∧ verifyPoint C Q e r s ≠ 0 ∧ C.f (verifyPoint C Q e r s) = r

/-- SEC 1 §4.1.3 with secret `d`, digest `e`, nonce `k` -/
def signR (C : Params q E) (k : ZMod q) : ZMod q := C.f (k • C.g)
def signS (C : Params q E) (d e k : ZMod q) : ZMod q := k⁻¹ * (e + signR C k * d)

/-- SEC 1 §4.1.6 / Bitcoin Core: `Q = r⁻¹ (s·R − e·G)`, written as python-bitcoinlib computes it -/
def recoverPoint (C : Params q E) (R : E) (e r s : ZMod q) : E := ((-e) * r⁻¹) • C.g + (s * r⁻¹) • R

theorem verifyPoint_sign (C : Params q E) (d e k : ZMod q) (hs : signS C d e k ≠ 0) :
    verifyPoint C (d • C.g) e (signR C k) (signS C d e k) = k • C.g := by
  have hk : k ≠ 0 := by
    intro h; apply hs; simp [signS, h]
  have hne : e + signR C k * d ≠ 0 := by
    intro h; apply hs; simp [signS, h]
  unfold verifyPoint
  rw [smul_smul, ← add_smul]
  congr 1
  unfold signS
  field_simp

/-- `verify_sign`: every signature produced by the signing equation (with R ≠ ∞, r ≠ 0, s ≠ 0, as the
    signer checks) satisfies the verification equation for the key `d·G` -/
theorem verify_sign (C : Params q E) (d e k : ZMod q) (hR : k • C.g ≠ 0) (hr : signR C k ≠ 0)
    (hs : signS C d e k ≠ 0) : Verify C (d • C.g) e (signR C k) (signS C d e k) := by
  refine ⟨hr, hs, ?_, ?_⟩
  · rw [verifyPoint_sign C d e k hs]; exact hR
  · rw [verifyPoint_sign C d e k hs]; rfl

theorem verifyPoint_neg (C : Params q E) (Q : E) (e r s : ZMod q) :
    verifyPoint C Q e r (-s) = -verifyPoint C Q e r s := by
  unfold verifyPoint
  rw [inv_neg, mul_neg, mul_neg, neg_smul, neg_smul, neg_add]

/-- `verify_lowS_twin`: `(r, s)` verifies iff `(r, n − s)` does — which is why the library may (and
    does) normalise to the low representative without invalidating a signature -/
theorem verify_lowS_twin (C : Params q E) (Q : E) (e r s : ZMod q) :
    Verify C Q e r s ↔ Verify C Q e r (-s) := by
  unfold Verify
  rw [verifyPoint_neg, C.f_neg, neg_ne_zero, neg_ne_zero]

/-- `recover_correct`: from a signature made with nonce point `R = k·G`, the recovery formula returns
    the signer's public key -/
theorem recover_correct (C : Params q E) (d e k : ZMod q) (hk : k ≠ 0) (hr : signR C k ≠ 0) :
    recoverPoint C (k • C.g) e (signR C k) (signS C d e k) = d • C.g := by
  unfold recoverPoint
  rw [smul_smul, ← add_smul]
  congr 1
  unfold signS
  field_simp
  ring

/-- the recovered key is one under which the signature verifies (for any candidate `R` with
    `f R = r`, whether or not it was the signer's): recovery and verification are inverse -/
theorem verify_recovered (C : Params q E) (R : E) (e r s : ZMod q) (hr : r ≠ 0) (hs : s ≠ 0)
    (hR : R ≠ 0) (hf : C.f R = r) : Verify C (recoverPoint C R e r s) e r s := by
  have hp : verifyPoint C (recoverPoint C R e r s) e r s = R := by
    unfold verifyPoint recoverPoint
    rw [smul_add, smul_smul, smul_smul, ← add_assoc, ← add_smul]
    have h1 : e * s⁻¹ + r * s⁻¹ * (-e * r⁻¹) = 0 := by field_simp; ring
    have h2 : r * s⁻¹ * (s * r⁻¹) = 1 := by field_simp
    rw [h1, h2, zero_smul, zero_add, one_smul]
  exact ⟨hr, hs, by rw [hp]; exact hR, by rw [hp]; exact hf⟩

/-- for a fixed signature `(r, s)` and candidate point `R`, recovery is injective in the digest:
    different digests (as residues mod q) recover different keys -/
theorem recoverPoint_injective_digest (C : Params q E) (R : E) (e e' r s : ZMod q) (hg : C.g ≠ 0) (hr : r ≠ 0)
    (h : recoverPoint C R e r s = recoverPoint C R e' r s) : e = e' := by
  unfold recoverPoint at h
  have h1 : ((-e) * r⁻¹) • C.g = ((-e') * r⁻¹) • C.g := add_right_cancel h
  have h2 : ((-e) * r⁻¹ - (-e') * r⁻¹) • C.g = 0 := by rw [sub_smul, h1, sub_self]
  by_cases h3 : (-e) * r⁻¹ - (-e') * r⁻¹ = 0
  · have hri : r⁻¹ ≠ 0 := inv_ne_zero hr
    have h4 : (e' - e) * r⁻¹ = 0 := by rw [← h3]; ring
    rcases mul_eq_zero.mp h4 with h5 | h5
    · exact (sub_eq_zero.mp h5).symm
    · exact absurd h5 hri
  · exfalso
    apply hg
    have : C.g = ((-e) * r⁻¹ - (-e') * r⁻¹)⁻¹ • (((-e) * r⁻¹ - (-e') * r⁻¹) • C.g) := by
      rw [smul_smul, inv_mul_cancel₀ h3, one_smul]
    rw [this, h2, smul_zero]

end BtcVerif.Ecdsa
