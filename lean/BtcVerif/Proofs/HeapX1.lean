/-
  C09, extended catalogue (audit F4), part 1: an invariant that survives user-made aliasing.

  With reference arguments two names may legitimately share mutable objects, so separation is no
  longer a state invariant.  What remains true of every reachable heap is heap-wide and local:
    (i')  `ImmClosedX`  an immutable object refers to immutable objects only (no exception: the
                        constructors of the immutable classes freeze what they are given, D23);
    (ii)  `CacheOK`     filled caches of immutable objects are correct;
          `KindOKX`     classes without a mutable variant are immutable;
          `TypedRefs`   every reference slot holds an object of the class the slot is for
                        (so object graphs are acyclic, at most 6 deep, and always serialisable);
          `DefaultsOK`  the shared default objects are intact.
-/
import BtcVerif.Proofs.HeapAll
import BtcVerif.Model.HeapX

namespace BtcVerif.Model.Heap
open BtcVerif BtcVerif.Spec.ValueSem BtcVerif.Model.HeapX

/-- immutable (kept as a name: audit 2 / D23 removed the former exception for the list behind a default witness) -/
def Frozen (o : Obj) : Prop := o.isMut = false

def ImmClosedX (h : Heap) : Prop :=
  ∀ (a : Addr) (o : Obj), h[a]? = some o → o.isMut = false →
    ∀ c ∈ o.refs, ∃ oc : Obj, h[c]? = some oc ∧ Frozen oc

def KindOKX (h : Heap) : Prop :=
  ∀ (a : Addr) (o : Obj), h[a]? = some o → o.sc.alwaysImm = true → o.isMut = false

/-- the classes the reference slots of an object of class number `k` hold -/
def refKindsK : Nat → List Nat → Prop
  | 0, ks => ks = []
  | 1, ks => ks = [0]
  | 2, ks => ks = []
  | 3, ks => ks = []
  | 4, ks => ks = [10]
  | 5, ks => ks = [8, 9, 4]
  | 6, ks => ks = []
  | 7, ks => ks = [11]
  | 8, ks => ∀ k ∈ ks, k = 1
  | 9, ks => ∀ k ∈ ks, k = 2
  | 10, ks => ∀ k ∈ ks, k = 3
  | 11, ks => ∀ k ∈ ks, k = 5
  | _, _ => False

def refKindsOK (sc : Scalars) (ks : List Nat) : Prop := refKindsK sc.kind ks

def TypedObj (h : Heap) (o : Obj) : Prop := ∃ ks, mapO (kindAt h) o.refs = some ks ∧ refKindsOK o.sc ks

def TypedRefs (h : Heap) : Prop := ∀ (a : Addr) (o : Obj), h[a]? = some o → TypedObj h o

structure InvX (h : Heap) : Prop where
  immClosed : ImmClosedX h
  kindOK : KindOKX h
  cacheOK : CacheOK h
  typed : TypedRefs h
  defaults : DefaultsOK h

theorem refKindsOK_of_kind {a b : Scalars} (h : a.kind = b.kind) (ks : List Nat) : refKindsOK a ks ↔ refKindsOK b ks := by
  simp only [refKindsOK, h]

theorem kindAt_some {h : Heap} {a : Addr} {k : Nat} (hk : kindAt h a = some k) :
    ∃ o : Obj, h[a]? = some o ∧ o.sc.kind = k := by
  simp only [kindAt, Option.map_eq_some_iff] at hk
  exact hk

/-- a child of a typed object exists; its class is the one listed for its slot -/
theorem typed_child {h : Heap} {o : Obj} (ht : TypedObj h o) {c : Addr} (hc : c ∈ o.refs) :
    ∃ (oc : Obj) (ks : List Nat), h[c]? = some oc ∧ refKindsOK o.sc ks ∧ oc.sc.kind ∈ ks := by
  obtain ⟨ks, hks, hok⟩ := ht
  obtain ⟨k, hk, hkc⟩ := mapO_mem' hks hc
  obtain ⟨oc, hoc, hsc⟩ := kindAt_some hkc
  exact ⟨oc, ks, hoc, hok, by rw [hsc]; exact hk⟩

/-- (i') everything reachable from an immutable object is immutable -/
theorem imm_reachX {h : Heap} (hic : ImmClosedX h) (hk : KindOKX h) (ht : TypedRefs h) :
    ∀ {f : Nat} {a : Addr} {t : ATree}, unfoldA f h a = some t → (∀ o : Obj, h[a]? = some o → Frozen o) →
      ∀ x ∈ addrs t, ∃ ox : Obj, h[x]? = some ox ∧ Frozen ox
  | 0, _, _, hu, _ => by simp [unfoldA] at hu
  | f + 1, a, t, hu, hfa => by
    obtain ⟨o, kids, ho, hkids, rfl⟩ := unfoldA_succ hu
    intro x hx
    simp only [addrs, List.mem_cons] at hx
    rcases hx with rfl | hx
    · exact ⟨o, ho, hfa o ho⟩
    · obtain ⟨k, hk', hxk⟩ := mem_addrsL.mp hx
      obtain ⟨c, hc, huc⟩ := mapO_mem hkids hk'
      have hfc : ∀ oc : Obj, h[c]? = some oc → Frozen oc := by
        intro oc hoc
        obtain ⟨oc', hoc', hfr⟩ := hic a o ho (hfa o ho) c hc
        rw [hoc] at hoc'; cases hoc'; exact hfr
      exact imm_reachX hic hk ht huc hfc x hxk

/-- a write to a mutable object is not seen from immutable objects -/
theorem unfoldA_set_frameX {h : Heap} (hic : ImmClosedX h) (hk : KindOKX h) (ht : TypedRefs h)
    {x : Addr} {ox o' : Obj} (hox : h[x]? = some ox) (hmx : ox.isMut = true)
    {f : Nat} {a : Addr} {t : ATree} (hu : unfoldA f h a = some t) (hfa : ∀ o : Obj, h[a]? = some o → Frozen o) :
    unfoldA f (h.set x o') a = some t := by
  apply unfoldA_set_frame hu
  intro hmem
  obtain ⟨ox', hox', hfr⟩ := imm_reachX hic hk ht hu hfa x hmem
  rw [hox] at hox'; cases hox'
  rw [hfr] at hmx; cases hmx

theorem kindAt_set_same {h : Heap} {x : Addr} {ox o' : Obj} (hox : h[x]? = some ox)
    (hk : o'.sc.kind = ox.sc.kind) (c : Addr) : kindAt (h.set x o') c = kindAt h c := by
  simp only [kindAt]
  by_cases hcx : c = x
  · subst hcx
    rw [List.getElem?_set_self (List.getElem?_eq_some_iff.mp hox).1, hox]
    simp [hk]
  · rw [List.getElem?_set_ne (fun e => hcx e.symm)]

theorem typedObj_congr {h h' : Heap} (hk : ∀ c, kindAt h' c = kindAt h c) {o : Obj} (ht : TypedObj h o) :
    TypedObj h' o := by
  obtain ⟨ks, hks, hok⟩ := ht
  exact ⟨ks, by rw [← hks]; exact mapO_congr_idx rfl (fun i a b ha hb => by rw [ha] at hb; cases hb; exact hk a), hok⟩

/-- **write**: a mutable object `x` is overwritten by a mutable
    object of the same class, with the same cache slots and well-typed references -/
theorem invx_write {h : Heap} (hinv : InvX h) {x : Addr} {ox o' : Obj} (hox : h[x]? = some ox)
    (hmx : ox.isMut = true) (hm' : o'.isMut = true) (hk' : o'.sc.kind = ox.sc.kind)
    (ht' : TypedObj h o') : InvX (h.set x o') := by
  have hxl := (List.getElem?_eq_some_iff.mp hox).1
  have hself : (h.set x o')[x]? = some o' := by simp [List.getElem?_set_self hxl]
  have hkinds := kindAt_set_same (o' := o') hox hk'
  refine ⟨?_, ?_, ?_, ?_, ?_⟩
  · intro a oa hoa hm c hc
    by_cases hax : a = x
    · subst hax; rw [hself] at hoa; cases hoa; rw [hm'] at hm; cases hm
    · rw [List.getElem?_set_ne (fun e => hax e.symm)] at hoa
      obtain ⟨oc, hoc, hfr⟩ := hinv.immClosed a oa hoa hm c hc
      have hcx : c ≠ x := by
        intro e; subst e
        rw [hox] at hoc; cases hoc
        rw [hfr] at hmx; cases hmx
      exact ⟨oc, by rw [List.getElem?_set_ne (fun e => hcx e.symm)]; exact hoc, hfr⟩
  · intro a oa hoa hai
    by_cases hax : a = x
    · subst hax; rw [hself] at hoa; cases hoa
      have := hinv.kindOK a ox hox (by rw [← (kind_alwaysImm hk').1]; exact hai)
      rw [hmx] at this; cases this
    · rw [List.getElem?_set_ne (fun e => hax e.symm)] at hoa
      exact hinv.kindOK a oa hoa hai
  · intro a oa hoa hm
    by_cases hax : a = x
    · subst hax; rw [hself] at hoa; cases hoa; rw [hm'] at hm; cases hm
    · rw [List.getElem?_set_ne (fun e => hax e.symm)] at hoa
      obtain ⟨c1, c2⟩ := hinv.cacheOK a oa hoa hm
      have hkeep : ∀ v, absVal h a = some v → absVal (h.set x o') a = some v := by
        intro v hv
        simp only [absVal] at hv ⊢
        cases hu : unfoldA D h a with
        | none => simp [hu] at hv
        | some ta =>
          rw [unfoldA_set_frameX hinv.immClosed hinv.kindOK hinv.typed hox hmx hu
            (fun o ho => by rw [hoa] at ho; cases ho; exact hm)]
          simpa [hu] using hv
      constructor
      · intro c hc; obtain ⟨v, hv, hi⟩ := c1 c hc; exact ⟨v, hkeep v hv, hi⟩
      · intro c hc; obtain ⟨v, hv, hi⟩ := c2 c hc; exact ⟨v, hkeep v hv, hi⟩
  · intro a oa hoa
    by_cases hax : a = x
    · subst hax; rw [hself] at hoa; cases hoa
      exact typedObj_congr hkinds ht'
    · rw [List.getElem?_set_ne (fun e => hax e.symm)] at hoa
      exact typedObj_congr hkinds (hinv.typed a oa hoa)
  · apply defaults_set hinv.defaults
    intro o2 ho2 hm2
    rw [hox] at ho2; cases ho2
    rw [hmx] at hm2; cases hm2

/-- **extension**: fresh objects with empty caches are appended -/
theorem invx_ext {h : Heap} (hinv : InvX h) {e : Heap}
    (hnew : ∀ o ∈ e, o.cHash = none ∧ o.cPy = none)
    (hic : ImmClosedX (h ++ e)) (hk : KindOKX (h ++ e)) (ht : TypedRefs (h ++ e)) : InvX (h ++ e) := by
  refine ⟨hic, hk, ?_, ht, defaults_ext e hinv.defaults⟩
  intro a o ho hm
  by_cases ha : a < h.length
  · rw [List.getElem?_append_left ha] at ho
    obtain ⟨c1, c2⟩ := hinv.cacheOK a o ho hm
    constructor
    · intro c hc; obtain ⟨v, hv, hi⟩ := c1 c hc; exact ⟨v, absVal_ext e hv, hi⟩
    · intro c hc; obtain ⟨v, hv, hi⟩ := c2 c hc; exact ⟨v, absVal_ext e hv, hi⟩
  · rw [List.getElem?_append_right (Nat.not_lt.mp ha)] at ho
    obtain ⟨h1, h2⟩ := hnew o (List.mem_of_getElem? ho)
    constructor
    · intro c hc; rw [h1] at hc; cases hc
    · intro c hc; rw [h2] at hc; cases hc

/-- **cache fill** -/
theorem invx_same {h : Heap} (hinv : InvX h) {x : Addr} {o o' : Obj} (hox : h[x]? = some o)
    (h1 : o'.isMut = o.isMut) (h2 : o'.sc = o.sc) (h3 : o'.refs = o.refs)
    (hc : o.isMut = false →
      (∀ c, o'.cHash = some c → ∃ v, absVal h x = some v ∧ identOf v = .ok c) ∧
      (∀ c, o'.cPy = some c → ∃ v, absVal h x = some v ∧ pyHashOf v = .ok c)) :
    InvX (h.set x o') := by
  have hxl := (List.getElem?_eq_some_iff.mp hox).1
  have hself : (h.set x o')[x]? = some o' := by simp [List.getElem?_set_self hxl]
  have hkinds := kindAt_set_same (o' := o') hox (by rw [h2])
  have hget : ∀ (c : Addr) (oc : Obj), h[c]? = some oc →
      ∃ oc' : Obj, (h.set x o')[c]? = some oc' ∧ oc'.isMut = oc.isMut ∧ oc'.sc = oc.sc ∧ oc'.refs = oc.refs := by
    intro c oc hoc
    by_cases hcx : c = x
    · subst hcx; rw [hox] at hoc; cases hoc; exact ⟨o', hself, h1, h2, h3⟩
    · exact ⟨oc, by rw [List.getElem?_set_ne (fun e => hcx e.symm)]; exact hoc, rfl, rfl, rfl⟩
  have hback : ∀ (a : Addr) (oa : Obj), (h.set x o')[a]? = some oa →
      ∃ ob : Obj, h[a]? = some ob ∧ oa.isMut = ob.isMut ∧ oa.sc = ob.sc ∧ oa.refs = ob.refs := by
    intro a oa hoa
    by_cases hax : a = x
    · subst hax; rw [hself] at hoa; cases hoa; exact ⟨o, hox, h1, h2, h3⟩
    · rw [List.getElem?_set_ne (fun e => hax e.symm)] at hoa; exact ⟨oa, hoa, rfl, rfl, rfl⟩
  refine ⟨?_, ?_, ?_, ?_, ?_⟩
  · intro a oa hoa hm c hc
    obtain ⟨ob, hob, e1, _, e3⟩ := hback a oa hoa
    obtain ⟨oc, hoc, hfr⟩ := hinv.immClosed a ob hob (by rw [← e1]; exact hm) c (by rw [← e3]; exact hc)
    obtain ⟨oc', hoc', f1, f2, _⟩ := hget c oc hoc
    exact ⟨oc', hoc', by unfold Frozen at hfr ⊢; rw [f1]; exact hfr⟩
  · intro a oa hoa hai
    obtain ⟨ob, hob, e1, e2, _⟩ := hback a oa hoa
    rw [e1]; exact hinv.kindOK a ob hob (by rw [← e2]; exact hai)
  · intro a oa hoa hm
    have keep : ∀ v, absVal h a = some v → absVal (h.set x o') a = some v :=
      fun v hv => absVal_set_same hox h1 h2 h3 hv
    by_cases hax : a = x
    · subst hax; rw [hself] at hoa; cases hoa
      rw [h1] at hm
      obtain ⟨c1, c2⟩ := hc hm
      constructor
      · intro c hcc; obtain ⟨v, hv, hi⟩ := c1 c hcc; exact ⟨v, keep v hv, hi⟩
      · intro c hcc; obtain ⟨v, hv, hi⟩ := c2 c hcc; exact ⟨v, keep v hv, hi⟩
    · rw [List.getElem?_set_ne (fun e => hax e.symm)] at hoa
      obtain ⟨c1, c2⟩ := hinv.cacheOK a oa hoa hm
      constructor
      · intro c hcc; obtain ⟨v, hv, hi⟩ := c1 c hcc; exact ⟨v, keep v hv, hi⟩
      · intro c hcc; obtain ⟨v, hv, hi⟩ := c2 c hcc; exact ⟨v, keep v hv, hi⟩
  · intro a oa hoa
    obtain ⟨ob, hob, _, e2, e3⟩ := hback a oa hoa
    obtain ⟨ks, hks, hok⟩ := hinv.typed a ob hob
    exact typedObj_congr hkinds ⟨ks, by rw [e3]; exact hks, by rw [e2]; exact hok⟩
  · apply defaults_set hinv.defaults
    intro o2 ho2 hm2
    rw [hox] at ho2; cases ho2
    exact ⟨by rw [h1]; exact hm2, h2, h3⟩

/-! ### transitions: the invariant afterwards, and frozen objects keep their slots -/

def KeepImm (h h' : Heap) : Prop :=
  ∀ (a : Addr) (o : Obj), h[a]? = some o → Frozen o →
    ∃ o' : Obj, h'[a]? = some o' ∧ o'.isMut = o.isMut ∧ o'.sc = o.sc ∧ o'.refs = o.refs

structure TrX (h h' : Heap) : Prop where
  inv : InvX h'
  keep : KeepImm h h'

theorem TrX.refl {h : Heap} (hinv : InvX h) : TrX h h := ⟨hinv, fun _ o ho _ => ⟨o, ho, rfl, rfl, rfl⟩⟩

theorem TrX.trans {h h1 h2 : Heap} (t1 : TrX h h1) (t2 : TrX h1 h2) : TrX h h2 := by
  refine ⟨t2.inv, ?_⟩
  intro a o ho hf
  obtain ⟨o1, ho1, e1, e2, e3⟩ := t1.keep a o ho hf
  obtain ⟨o2, ho2, f1, f2, f3⟩ := t2.keep a o1 ho1 (by unfold Frozen at hf ⊢; rw [e1]; exact hf)
  exact ⟨o2, ho2, by rw [f1, e1], by rw [f2, e2], by rw [f3, e3]⟩

theorem trx_write {h : Heap} (hinv : InvX h) {x : Addr} {ox o' : Obj} (hox : h[x]? = some ox)
    (hmx : ox.isMut = true) (hm' : o'.isMut = true) (hk' : o'.sc.kind = ox.sc.kind)
    (ht' : TypedObj h o') : TrX h (h.set x o') := by
  refine ⟨invx_write hinv hox hmx hm' hk' ht', ?_⟩
  intro a o ho hf
  have hax : a ≠ x := by
    intro e; subst e
    rw [hox] at ho; cases ho
    rw [hf] at hmx; cases hmx
  exact ⟨o, by rw [List.getElem?_set_ne (fun e => hax e.symm)]; exact ho, rfl, rfl, rfl⟩

theorem trx_ext {h : Heap} (hinv : InvX h) {e : Heap}
    (hnew : ∀ o ∈ e, o.cHash = none ∧ o.cPy = none)
    (hic : ImmClosedX (h ++ e)) (hk : KindOKX (h ++ e)) (ht : TypedRefs (h ++ e)) : TrX h (h ++ e) :=
  ⟨invx_ext hinv hnew hic hk ht, fun _ o ho _ => ⟨o, getElem?_append_of_some e ho, rfl, rfl, rfl⟩⟩

theorem trx_same {h : Heap} (hinv : InvX h) {x : Addr} {o o' : Obj} (hox : h[x]? = some o)
    (h1 : o'.isMut = o.isMut) (h2 : o'.sc = o.sc) (h3 : o'.refs = o.refs)
    (hc : o.isMut = false →
      (∀ c, o'.cHash = some c → ∃ v, absVal h x = some v ∧ identOf v = .ok c) ∧
      (∀ c, o'.cPy = some c → ∃ v, absVal h x = some v ∧ pyHashOf v = .ok c)) :
    TrX h (h.set x o') := by
  refine ⟨invx_same hinv hox h1 h2 h3 hc, ?_⟩
  intro a oa hoa _
  by_cases hax : a = x
  · subst hax
    rw [hox] at hoa; cases hoa
    exact ⟨o', by simp [List.getElem?_set_self (List.getElem?_eq_some_iff.mp hox).1], h1, h2, h3⟩
  · exact ⟨oa, by rw [List.getElem?_set_ne (fun e => hax e.symm)]; exact hoa, rfl, rfl, rfl⟩

/-- frozen objects keep their value when they keep their slots -/
theorem unfoldA_keep {h h' : Heap} (hic : ImmClosedX h) (hk : KindOKX h) (ht : TypedRefs h) (hkeep : KeepImm h h') :
    ∀ {f : Nat} {a : Addr} {t : ATree}, unfoldA f h a = some t → (∀ o : Obj, h[a]? = some o → Frozen o) →
      unfoldA f h' a = some t
  | 0, _, _, hu, _ => by simp [unfoldA] at hu
  | f + 1, a, t, hu, hfa => by
    obtain ⟨o, kids, ho, hkids, rfl⟩ := unfoldA_succ hu
    obtain ⟨o', ho', e1, e2, e3⟩ := hkeep a o ho (hfa o ho)
    have := unfoldA_mk (f := f) ho' (kids := kids) (by
      rw [e3]
      apply mapO_congr_some _ hkids
      intro c hc b hb
      have hfc : ∀ oc : Obj, h[c]? = some oc → Frozen oc := by
        intro oc hoc
        obtain ⟨oc', hoc', hfr⟩ := hic a o ho (hfa o ho) c hc
        rw [hoc] at hoc'; cases hoc'; exact hfr
      exact unfoldA_keep hic hk ht hkeep hb hfc)
    rw [e1, e2] at this; exact this

end BtcVerif.Model.Heap
