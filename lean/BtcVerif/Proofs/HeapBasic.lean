/-
  C09 helper lemmas, part 1: trees, `mapO`, and the frame lemmas of `unfoldA`
  (heap extension, fuel, writes outside the unfolded region, cache writes).
-/
import BtcVerif.Model.Heap

namespace BtcVerif.Model.Heap
open BtcVerif BtcVerif.Spec.ValueSem

/-! ### mapO -/

theorem mapO_congr_some {α β : Type} {f g : α → Option β} :
    ∀ {l : List α} {bs : List β}, (∀ a ∈ l, ∀ b, f a = some b → g a = some b) →
      mapO f l = some bs → mapO g l = some bs
  | [], _, _, h => by simpa [mapO] using h
  | a :: as, bs, hfg, h => by
    simp only [mapO] at h ⊢
    cases hfa : f a with
    | none => simp [hfa] at h
    | some b =>
      simp only [hfa] at h
      cases hm : mapO f as with
      | none => simp [hm] at h
      | some bs' =>
        simp only [hm] at h
        have h1 := hfg a (by simp) b hfa
        have h2 := mapO_congr_some (fun a' ha' => hfg a' (by simp [ha'])) hm
        simp [h1, h2, h]

theorem mapO_length {α β : Type} {f : α → Option β} :
    ∀ {l : List α} {bs : List β}, mapO f l = some bs → bs.length = l.length
  | [], _, h => by simp [mapO] at h; simp [← h]
  | a :: as, bs, h => by
    simp only [mapO] at h
    cases hfa : f a with
    | none => simp [hfa] at h
    | some b =>
      simp only [hfa] at h
      cases hm : mapO f as with
      | none => simp [hm] at h
      | some bs' =>
        simp only [hm, Option.some.injEq] at h
        subst h
        simp [mapO_length hm]

theorem mapO_getElem {α β : Type} {f : α → Option β} :
    ∀ {l : List α} {bs : List β}, mapO f l = some bs → ∀ (i : Nat) (a : α), l[i]? = some a →
      ∃ b, bs[i]? = some b ∧ f a = some b
  | [], _, _, i, a, hi => by simp at hi
  | a0 :: as, bs, h, i, a, hi => by
    simp only [mapO] at h
    cases hfa : f a0 with
    | none => simp [hfa] at h
    | some b =>
      simp only [hfa] at h
      cases hm : mapO f as with
      | none => simp [hm] at h
      | some bs' =>
        simp only [hm, Option.some.injEq] at h
        subst h
        cases i with
        | zero => simp at hi; subst hi; exact ⟨b, by simp, hfa⟩
        | succ i =>
          simp at hi
          obtain ⟨b', hb', hf'⟩ := mapO_getElem hm i a hi
          exact ⟨b', by simpa using hb', hf'⟩

theorem mapO_getElem' {α β : Type} {f : α → Option β} {l : List α} {bs : List β}
    (h : mapO f l = some bs) (i : Nat) (b : β) (hb : bs[i]? = some b) :
    ∃ a, l[i]? = some a ∧ f a = some b := by
  have hl := mapO_length h
  have hi : i < l.length := by
    have := (List.getElem?_eq_some_iff.mp hb).1; omega
  obtain ⟨b', hb', hf⟩ := mapO_getElem h i l[i] (List.getElem?_eq_getElem hi)
  rw [hb] at hb'
  cases hb'
  exact ⟨l[i], List.getElem?_eq_getElem hi, hf⟩

theorem mapO_mem {α β : Type} {f : α → Option β} {l : List α} {bs : List β}
    (h : mapO f l = some bs) {b : β} (hb : b ∈ bs) : ∃ a ∈ l, f a = some b := by
  obtain ⟨i, hi, rfl⟩ := List.getElem_of_mem hb
  obtain ⟨a, ha, hf⟩ := mapO_getElem' h i _ (List.getElem?_eq_getElem hi)
  exact ⟨a, List.mem_of_getElem? ha, hf⟩

theorem mapO_mem' {α β : Type} {f : α → Option β} {l : List α} {bs : List β}
    (h : mapO f l = some bs) {a : α} (ha : a ∈ l) : ∃ b ∈ bs, f a = some b := by
  obtain ⟨i, hi, rfl⟩ := List.getElem_of_mem ha
  obtain ⟨b, hb, hf⟩ := mapO_getElem h i _ (List.getElem?_eq_getElem hi)
  exact ⟨b, List.mem_of_getElem? hb, hf⟩

theorem mapO_append {α β : Type} {f : α → Option β} :
    ∀ {l1 l2 : List α} {b1 b2 : List β}, mapO f l1 = some b1 → mapO f l2 = some b2 →
      mapO f (l1 ++ l2) = some (b1 ++ b2)
  | [], _, _, _, h1, h2 => by simp [mapO] at h1; simp [← h1, h2]
  | a :: as, l2, b1, b2, h1, h2 => by
    simp only [mapO] at h1
    cases hfa : f a with
    | none => simp [hfa] at h1
    | some b =>
      simp only [hfa] at h1
      cases hm : mapO f as with
      | none => simp [hm] at h1
      | some bs' =>
        simp only [hm, Option.some.injEq] at h1
        subst h1
        simp [mapO, hfa, mapO_append hm h2]

/-- changing the function at one position -/
theorem mapO_set {α β : Type} {f g : α → Option β} :
    ∀ {l : List α} {bs : List β} (i : Nat) (a : α) (b' : β), mapO f l = some bs → l[i]? = some a →
      g a = some b' → (∀ j a', j ≠ i → l[j]? = some a' → g a' = f a') →
      mapO g l = some (bs.set i b')
  | [], _, i, a, _, _, hi, _, _ => by simp at hi
  | a0 :: as, bs, i, a, b', h, hi, hg, hother => by
    simp only [mapO] at h
    cases hfa : f a0 with
    | none => simp [hfa] at h
    | some b =>
      simp only [hfa] at h
      cases hm : mapO f as with
      | none => simp [hm] at h
      | some bs' =>
        simp only [hm, Option.some.injEq] at h
        subst h
        cases i with
        | zero =>
          simp at hi; subst hi
          have : mapO g as = some bs' := by
            apply mapO_congr_some _ hm
            intro a' ha' b hb
            obtain ⟨j, hj, rfl⟩ := List.getElem_of_mem ha'
            rw [hother (j + 1) as[j] (by omega) (by simp [hj])]; exact hb
          simp [mapO, hg, this]
        | succ i =>
          simp at hi
          have h0 : g a0 = some b := by rw [hother 0 a0 (by omega) (by simp)]; exact hfa
          have := mapO_set (f := f) (g := g) i a b' hm hi hg
            (fun j a' hj ha' => hother (j + 1) a' (by omega) (by simpa using ha'))
          simp [mapO, h0, this]

/-! ### trees -/

namespace ATree
def addr : ATree → Addr | .node a _ _ _ => a
def isMut : ATree → Bool | .node _ m _ _ => m
def sc : ATree → Scalars | .node _ _ s _ => s
def kids : ATree → List ATree | .node _ _ _ k => k
end ATree

mutual
/-- every address in the tree -/
def addrs : ATree → List Addr
  | .node a _ _ kids => a :: addrsL kids
def addrsL : List ATree → List Addr
  | [] => []
  | t :: ts => addrs t ++ addrsL ts
end

mutual
/-- occurrences of `x` in the mutable top part of the tree (descent stops at immutable objects) -/
def cnt (x : Addr) : ATree → Nat
  | .node a m _ kids => if m then (if a = x then 1 else 0) + cntL x kids else 0
def cntL (x : Addr) : List ATree → Nat
  | [] => 0
  | t :: ts => cnt x t + cntL x ts
end

/-- the subtree at a path of child indices -/
def sub : ATree → List Nat → Option ATree
  | t, [] => some t
  | .node _ _ _ kids, i :: p =>
    match kids[i]? with
    | none => none
    | some k => sub k p

def replaceAt : ATree → List Nat → ATree → ATree
  | _, [], new => new
  | .node a m sc kids, i :: p, new =>
    match kids[i]? with
    | none => .node a m sc kids
    | some k => .node a m sc (kids.set i (replaceAt k p new))

theorem mem_addrsL {x : Addr} : ∀ {ts : List ATree}, x ∈ addrsL ts ↔ ∃ t ∈ ts, x ∈ addrs t
  | [] => by simp [addrsL]
  | t :: ts => by simp [addrsL, mem_addrsL (ts := ts)]

theorem cntL_eq_zero {x : Addr} : ∀ {ts : List ATree}, cntL x ts = 0 ↔ ∀ t ∈ ts, cnt x t = 0
  | [] => by simp [cntL]
  | t :: ts => by simp [cntL, cntL_eq_zero (ts := ts)]

theorem cntL_set {x : Addr} : ∀ {ts : List ATree} {i : Nat} {k k' : ATree}, ts[i]? = some k →
    cntL x (ts.set i k') + cnt x k = cntL x ts + cnt x k'
  | [], i, _, _, h => by simp at h
  | t :: ts, 0, k, k', h => by simp at h; subst h; simp [cntL]; omega
  | t :: ts, i + 1, k, k', h => by
    simp at h
    have := cntL_set (x := x) (k' := k') h
    simp [cntL]; omega

theorem cntL_append {x : Addr} : ∀ {a b : List ATree}, cntL x (a ++ b) = cntL x a + cntL x b
  | [], b => by simp [cntL]
  | t :: ts, b => by simp [cntL, cntL_append (a := ts)]; omega

theorem cntL_le_of_getElem {x : Addr} : ∀ {ts : List ATree} {i : Nat} {k : ATree}, ts[i]? = some k →
    cnt x k ≤ cntL x ts
  | [], i, _, h => by simp at h
  | t :: ts, 0, k, h => by simp at h; subst h; simp [cntL]
  | t :: ts, i + 1, k, h => by
    simp at h
    have := cntL_le_of_getElem (x := x) h
    simp [cntL]; omega

theorem cntL_eraseIdx {x : Addr} : ∀ {ts : List ATree} {i : Nat} {k : ATree}, ts[i]? = some k →
    cntL x (ts.eraseIdx i) + cnt x k = cntL x ts
  | [], i, _, h => by simp at h
  | t :: ts, 0, k, h => by simp at h; subst h; simp [cntL]; omega
  | t :: ts, i + 1, k, h => by
    simp at h
    have := cntL_eraseIdx (x := x) h
    simp [cntL]; omega

/-! ### unfoldA: shape of the result -/

theorem unfoldA_succ {f : Nat} {h : Heap} {a : Addr} {t : ATree} (hu : unfoldA (f + 1) h a = some t) :
    ∃ o kids, h[a]? = some o ∧ mapO (unfoldA f h) o.refs = some kids ∧ t = .node a o.isMut o.sc kids := by
  simp only [unfoldA] at hu
  cases ho : h[a]? with
  | none => simp [ho] at hu
  | some o =>
    simp only [ho] at hu
    cases hm : mapO (unfoldA f h) o.refs with
    | none => simp [hm] at hu
    | some kids => simp [hm] at hu; exact ⟨o, kids, rfl, hm, hu.symm⟩

theorem unfoldA_mk {f : Nat} {h : Heap} {a : Addr} {o : Obj} {kids : List ATree}
    (ho : h[a]? = some o) (hk : mapO (unfoldA f h) o.refs = some kids) :
    unfoldA (f + 1) h a = some (.node a o.isMut o.sc kids) := by
  simp [unfoldA, ho, hk]

theorem unfoldA_addr {f : Nat} {h : Heap} {a : Addr} {t : ATree} (hu : unfoldA f h a = some t) :
    t.addr = a := by
  cases f with
  | zero => simp [unfoldA] at hu
  | succ f => obtain ⟨o, kids, _, _, rfl⟩ := unfoldA_succ hu; rfl

/-- heap extension does not change what is already there -/
theorem unfoldA_ext {h : Heap} (e : Heap) : ∀ {f : Nat} {a : Addr} {t : ATree},
    unfoldA f h a = some t → unfoldA f (h ++ e) a = some t
  | 0, _, _, hu => by simp [unfoldA] at hu
  | f + 1, a, t, hu => by
    obtain ⟨o, kids, ho, hk, rfl⟩ := unfoldA_succ hu
    have ho' : (h ++ e)[a]? = some o := by
      rw [List.getElem?_append_left (List.getElem?_eq_some_iff.mp ho).1]; exact ho
    exact unfoldA_mk ho' (mapO_congr_some (fun c _ b hb => unfoldA_ext e hb) hk)

/-- more fuel does not change the result -/
theorem unfoldA_fuel {h : Heap} : ∀ {f : Nat} {a : Addr} {t : ATree},
    unfoldA f h a = some t → unfoldA (f + 1) h a = some t
  | 0, _, _, hu => by simp [unfoldA] at hu
  | f + 1, a, t, hu => by
    obtain ⟨o, kids, ho, hk, rfl⟩ := unfoldA_succ hu
    exact unfoldA_mk ho (mapO_congr_some (fun c _ b hb => unfoldA_fuel hb) hk)

theorem unfoldA_fuel_le {h : Heap} {f g : Nat} {a : Addr} {t : ATree} (hfg : f ≤ g)
    (hu : unfoldA f h a = some t) : unfoldA g h a = some t := by
  induction hfg with
  | refl => exact hu
  | step _ ih => exact unfoldA_fuel ih

/-- every address of the unfolding is a valid address -/
theorem addrs_lt {h : Heap} : ∀ {f : Nat} {a : Addr} {t : ATree},
    unfoldA f h a = some t → ∀ x ∈ addrs t, x < h.length
  | 0, _, _, hu => by simp [unfoldA] at hu
  | f + 1, a, t, hu => by
    obtain ⟨o, kids, ho, hk, rfl⟩ := unfoldA_succ hu
    intro x hx
    simp only [addrs, List.mem_cons] at hx
    rcases hx with rfl | hx
    · exact (List.getElem?_eq_some_iff.mp ho).1
    · obtain ⟨t, ht, hxt⟩ := mem_addrsL.mp hx
      obtain ⟨c, _, hc⟩ := mapO_mem hk ht
      exact addrs_lt hc x hxt

/-- a write outside the unfolded region is not seen -/
theorem unfoldA_set_frame {h : Heap} {x : Addr} {o' : Obj} : ∀ {f : Nat} {a : Addr} {t : ATree},
    unfoldA f h a = some t → x ∉ addrs t → unfoldA f (h.set x o') a = some t
  | 0, _, _, hu, _ => by simp [unfoldA] at hu
  | f + 1, a, t, hu, hx => by
    obtain ⟨o, kids, ho, hk, rfl⟩ := unfoldA_succ hu
    simp only [addrs, List.mem_cons, not_or] at hx
    have ho' : (h.set x o')[a]? = some o := by
      rw [List.getElem?_set_ne hx.1]; exact ho
    refine unfoldA_mk ho' ?_
    apply mapO_congr_some _ hk
    intro c hc b hb
    obtain ⟨b', hb', hcb⟩ := mapO_mem' hk hc
    rw [hb] at hcb; cases hcb
    exact unfoldA_set_frame hb (fun hxb => hx.2 (mem_addrsL.mpr ⟨b, hb', hxb⟩))

/-- a write that keeps flag, class, values and references (a cache fill) is not seen -/
theorem unfoldA_set_same {h : Heap} {x : Addr} {o o' : Obj} (hox : h[x]? = some o)
    (h1 : o'.isMut = o.isMut) (h2 : o'.sc = o.sc) (h3 : o'.refs = o.refs) :
    ∀ {f : Nat} {a : Addr} {t : ATree}, unfoldA f h a = some t → unfoldA f (h.set x o') a = some t
  | 0, _, _, hu => by simp [unfoldA] at hu
  | f + 1, a, t, hu => by
    obtain ⟨oa, kids, ho, hk, rfl⟩ := unfoldA_succ hu
    have hk' := mapO_congr_some (g := unfoldA f (h.set x o'))
      (fun c _ b hb => unfoldA_set_same hox h1 h2 h3 hb) hk
    by_cases hax : a = x
    · subst hax
      rw [hox] at ho; cases ho
      have ho' : (h.set a o')[a]? = some o' := by
        simp [List.getElem?_set_self (List.getElem?_eq_some_iff.mp hox).1]
      have := unfoldA_mk (f := f) ho' (by rw [h3]; exact hk')
      rw [h1, h2] at this; exact this
    · have ho' : (h.set x o')[a]? = some oa := by
        rw [List.getElem?_set_ne (fun e => hax e.symm)]; exact ho
      exact unfoldA_mk ho' hk'

end BtcVerif.Model.Heap
