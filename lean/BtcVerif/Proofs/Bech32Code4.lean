/-
  C11 helper lemmas, part 6: error patterns of weight 3 and 4.

  A pattern of weight `w` is followed from its first error: the state after the first error is a 5-bit
  value `x`; each later error xors a 5-bit value into `Tᵐ` of the state.  A pattern of weight 2 that
  starts in state `c` has syndrome zero only if some `Tᵐ c` is a *normalised 2-pattern syndrome*
  `Tᵍ v ^^^ y`; `check3`/`check4` verify by exhaustive computation (meet in the middle: ≈ 85 k table
  entries, ≈ 3.7 M look-ups) that this never happens within 89 positions.  The computation itself
  (`check3 = true`, `check4 = true`) is NOT proved here: it is the content of Props/C11Native.lean.
-/
import BtcVerif.Proofs.Bech32Code
import Std.Data.HashSet

namespace BtcVerif.Bech32
open BtcVerif.Model.Bech32

/-- `s` is a 30-bit state that is neither a 5-bit value nor a normalised 2-pattern syndrome -/
def Good (s : Nat) : Prop :=
  32 ≤ s ∧ ∀ g v y, 1 ≤ g → g ≤ 88 → 1 ≤ v → v < 32 → 1 ≤ y → y < 32 → s ≠ T^[g] v ^^^ y

theorem xor_eq_right {a b y : Nat} (h : a ^^^ b = y) : a = b ^^^ y := by
  rw [← h, ← Nat.xor_assoc, Nat.xor_comm b a, Nat.xor_assoc, Nat.xor_self, Nat.xor_zero]

/-- weight 2 from a state whose orbit avoids 5-bit values and normalised 2-pattern syndromes -/
theorem run_ne_zero_w2 (E : List Nat) (c : Nat) (hc : c < 2 ^ 30) (hE : ∀ v ∈ E, v < 32)
    (hw : weight E = 2) (hlen : E.length ≤ 88)
    (horb : ∀ m, 1 ≤ m → m ≤ E.length → Good (T^[m] c)) : run c E ≠ 0 := by
  induction E generalizing c with
  | nil => simp [weight] at hw
  | cons v E ih =>
    rw [run_cons]
    have hE' : ∀ x ∈ E, x < 32 := fun x hx => hE x (by simp [hx])
    have hl : E.length ≤ 87 := by simpa using hlen
    by_cases hv : v = 0
    · subst hv
      rw [Nat.xor_zero]
      apply ih (T c) (T_lt _) hE' (by simpa [weight] using hw) (by omega)
      intro m hm1 hm2
      have := horb (m + 1) (by omega) (by simp; omega)
      rwa [Function.iterate_succ_apply] at this
    · have hv32 : v < 32 := hE v (by simp)
      have hw' : weight E = 1 := by simp [weight, hv] at hw; omega
      apply run_ne_zero_w1 E _ hE' hw'
      intro g hg1 hg2
      rw [iter_linear, ← Function.iterate_succ_apply]
      apply Nat.le_of_not_lt
      intro hlt
      have hG := horb (g + 1) (by omega) (by simp; omega)
      have heq := xor_eq_right (y := T^[g.succ] c ^^^ T^[g] v) rfl
      by_cases hy : T^[g.succ] c ^^^ T^[g] v = 0
      · rw [hy, Nat.xor_zero, Function.iterate_succ_apply] at heq
        have hTc : T c = v := iter_injective g (T_lt _) (by omega) heq
        have h1 := (horb 1 (by omega) (by simp)).1
        simp only [Function.iterate_one] at h1
        omega
      · exact hG.2 g v _ hg1 (by omega) (by omega) hv32 (by omega) hlt heq

/-- weight 3 -/
theorem run_ne_zero_w3 (E : List Nat) (c : Nat) (hc : c < 2 ^ 30) (hE : ∀ v ∈ E, v < 32)
    (hw : weight E = 3) (hlen : E.length ≤ 88)
    (horb : ∀ m, 1 ≤ m → m ≤ E.length → ∀ x, 1 ≤ x → x < 32 →
      ∀ m', 1 ≤ m' → m' ≤ E.length - m → Good (T^[m'] (T^[m] c ^^^ x))) : run c E ≠ 0 := by
  induction E generalizing c with
  | nil => simp [weight] at hw
  | cons v E ih =>
    rw [run_cons]
    have hE' : ∀ x ∈ E, x < 32 := fun x hx => hE x (by simp [hx])
    have hl : E.length ≤ 87 := by simpa using hlen
    by_cases hv : v = 0
    · subst hv
      rw [Nat.xor_zero]
      apply ih (T c) (T_lt _) hE' (by simpa [weight] using hw) (by omega)
      intro m hm1 hm2 x hx1 hx2 m' hm'1 hm'2
      have := horb (m + 1) (by omega) (by simp; omega) x hx1 hx2 m' hm'1 (by simp; omega)
      rwa [Function.iterate_succ_apply] at this
    · have hv32 : v < 32 := hE v (by simp)
      have hw' : weight E = 2 := by simp [weight, hv] at hw; omega
      apply run_ne_zero_w2 E _ (xor_lt30 (T_lt _) (by omega)) hE' hw' (by omega)
      intro m' hm'1 hm'2
      have := horb 1 (by omega) (by simp) v (by omega) hv32 m' hm'1 (by simp; omega)
      simpa using this

/-! ### the exhaustive check -/

/-- `[T c, T² c, …, Tⁿ c]` -/
def orbit : Nat → Nat → List Nat
  | 0, _ => []
  | n + 1, c => T c :: orbit n (T c)

theorem mem_orbit (n c s : Nat) : s ∈ orbit n c ↔ ∃ m, 1 ≤ m ∧ m ≤ n ∧ s = T^[m] c := by
  induction n generalizing c with
  | zero => simp [orbit]; intro m h1 h2; omega
  | succ n ih =>
    simp only [orbit, List.mem_cons, ih]
    constructor
    · rintro (rfl | ⟨m, h1, h2, rfl⟩)
      · exact ⟨1, by omega, by omega, rfl⟩
      · exact ⟨m + 1, by omega, by omega, by rw [Function.iterate_succ_apply]⟩
    · rintro ⟨m, h1, h2, rfl⟩
      by_cases hm : m = 1
      · subst hm; left; rfl
      · right
        refine ⟨m - 1, by omega, by omega, ?_⟩
        rw [← Function.iterate_succ_apply, show (m - 1).succ = m by omega]

/-- all normalised 2-pattern syndromes `Tᵍ v ^^^ y`, `1 ≤ g ≤ 88`, `v, y ∈ 1..31` -/
def twoList : List Nat :=
  (List.range 31).flatMap fun i => (orbit 88 (i + 1)).flatMap fun s => (List.range 31).map fun j => s ^^^ (j + 1)

theorem mem_twoList (g v y : Nat) (hg1 : 1 ≤ g) (hg : g ≤ 88) (hv1 : 1 ≤ v) (hv : v < 32) (hy1 : 1 ≤ y)
    (hy : y < 32) : T^[g] v ^^^ y ∈ twoList := by
  unfold twoList
  simp only [List.mem_flatMap, List.mem_range, List.mem_map]
  refine ⟨v - 1, by omega, T^[g] v, ?_, y - 1, by omega, ?_⟩
  · rw [show v - 1 + 1 = v by omega, mem_orbit]; exact ⟨g, hg1, hg, rfl⟩
  · rw [show y - 1 + 1 = y by omega]

def twoSet : Std.HashSet Nat := Std.HashSet.ofList twoList

def goodB (s : Nat) : Bool := decide (32 ≤ s) && !twoSet.contains s

theorem goodB_sound (s : Nat) (h : goodB s = true) : Good s := by
  unfold goodB at h
  simp only [Bool.and_eq_true, decide_eq_true_eq, Bool.not_eq_true'] at h
  refine ⟨h.1, ?_⟩
  intro g v y hg1 hg hv1 hv hy1 hy heq
  have hm := mem_twoList g v y hg1 hg hv1 hv hy1 hy
  rw [← heq] at hm
  have : twoSet.contains s = true := by
    unfold twoSet
    rw [Std.HashSet.contains_ofList]
    exact List.contains_iff_mem.2 hm
  rw [this] at h
  exact absurd h.2 (by simp)

/-- like `orbitAll`, the predicate also receives the number of steps that remain -/
def orbitAllN (p : Nat → Nat → Bool) : Nat → Nat → Bool
  | 0, _ => true
  | n + 1, c => p n (T c) && orbitAllN p n (T c)

theorem orbitAllN_spec (p : Nat → Nat → Bool) (n c : Nat) (h : orbitAllN p n c = true) :
    ∀ m, 1 ≤ m → m ≤ n → p (n - m) (T^[m] c) = true := by
  induction n generalizing c with
  | zero => intro m h1 h2; omega
  | succ n ih =>
    simp only [orbitAllN, Bool.and_eq_true] at h
    intro m h1 h2
    by_cases hm : m = 1
    · subst hm; simpa using h.1
    · have := ih (T c) h.2 (m - 1) (by omega) (by omega)
      rw [← Function.iterate_succ_apply, show (m - 1).succ = m by omega,
        show n - (m - 1) = n + 1 - m by omega] at this
      exact this

/-- weight 3: the orbit of every first error value avoids the table -/
def check3 : Bool :=
  (List.range 31).all fun i => orbitAll goodB 88 (i + 1)

/-- weight 4: after the second error (value `j+1`, `m` steps after the first) the remaining orbit
    avoids the table -/
def check4 : Bool :=
  (List.range 31).all fun i =>
    orbitAllN (fun rem s => (List.range 31).all fun j => orbitAll goodB rem (s ^^^ (j + 1))) 88 (i + 1)

theorem check3_sound (h : check3 = true) (x : Nat) (hx1 : 1 ≤ x) (hx : x < 32) (m : Nat) (hm1 : 1 ≤ m)
    (hm : m ≤ 88) : Good (T^[m] x) := by
  unfold check3 at h
  rw [List.all_eq_true] at h
  have := orbitAll_spec _ _ _ (h (x - 1) (by simp; omega)) m hm1 hm
  rw [show x - 1 + 1 = x by omega] at this
  exact goodB_sound _ this

theorem check4_sound (h : check4 = true) (x : Nat) (hx1 : 1 ≤ x) (hx : x < 32) (m : Nat) (hm1 : 1 ≤ m)
    (hm : m ≤ 88) (x2 : Nat) (hx21 : 1 ≤ x2) (hx2 : x2 < 32) (m' : Nat) (hm'1 : 1 ≤ m') (hm' : m' ≤ 88 - m) :
    Good (T^[m'] (T^[m] x ^^^ x2)) := by
  unfold check4 at h
  rw [List.all_eq_true] at h
  have h1 := orbitAllN_spec _ _ _ (h (x - 1) (by simp; omega)) m hm1 hm
  rw [show x - 1 + 1 = x by omega] at h1
  rw [List.all_eq_true] at h1
  have h2 := orbitAll_spec _ _ _ (h1 (x2 - 1) (by simp; omega)) m' hm'1 hm'
  rw [show x2 - 1 + 1 = x2 by omega] at h2
  exact goodB_sound _ h2

/-- every error pattern of weight 3 or 4 and length ≤ 89 has a non-zero syndrome, *given* the two
    exhaustive checks -/
theorem syndrome_ne_zero_34 (h3 : check3 = true) (h4 : check4 = true) (E : List Nat)
    (hE : ∀ v ∈ E, v < 32) (hlen : E.length ≤ 89) (hw : weight E = 3 ∨ weight E = 4) : run 0 E ≠ 0 := by
  induction E with
  | nil => simp [weight] at hw
  | cons v E ih =>
    rw [run_cons, T_zero, Nat.zero_xor]
    have hE' : ∀ x ∈ E, x < 32 := fun x hx => hE x (by simp [hx])
    have hl : E.length ≤ 88 := by simpa using hlen
    by_cases hv : v = 0
    · subst hv
      exact ih hE' (by omega) (by simpa [weight] using hw)
    · have hv32 : v < 32 := hE v (by simp)
      simp only [weight, hv, if_false] at hw
      rcases hw with hw | hw
      · exact run_ne_zero_w2 E v (by omega) hE' (by omega) hl
          (fun m h1 h2 => check3_sound h3 v (by omega) hv32 m h1 (by omega))
      · exact run_ne_zero_w3 E v (by omega) hE' (by omega) hl
          (fun m h1 h2 x hx1 hx2 m' hm'1 hm'2 =>
            check4_sound h4 v (by omega) hv32 m h1 (by omega) x hx1 hx2 m' hm'1 (by omega))

end BtcVerif.Bech32
