/-
  C09, extended catalogue, part 2: `allocPlan` and the local parts of `InvX`.
-/
import BtcVerif.Proofs.HeapX1

namespace BtcVerif.Model.Heap
open BtcVerif BtcVerif.Spec.ValueSem BtcVerif.Model.HeapX

def rootKindP (h0 : Heap) : Plan → Option Nat
  | .ref a => kindAt h0 a
  | .node _ sc _ => some sc.kind

def rootFrozenP (h0 : Heap) : Plan → Prop
  | .ref a => ∃ o : Obj, h0[a]? = some o ∧ Frozen o
  | .node m _ _ => m = false

mutual
/-- a plan whose allocation keeps closure of immutability, classes and typing -/
def GoodX (h0 : Heap) : Plan → Prop
  | .ref a => a < h0.length
  | .node m sc kids =>
      (sc.alwaysImm = true → m = false) ∧
      (m = false → ∀ k ∈ kids, rootFrozenP h0 k) ∧
      (∃ ks, mapO (rootKindP h0) kids = some ks ∧ refKindsOK sc ks) ∧
      GoodXL h0 kids
def GoodXL (h0 : Heap) : List Plan → Prop
  | [] => True
  | p :: ps => GoodX h0 p ∧ GoodXL h0 ps
end

theorem goodXL_iff {h0 : Heap} : ∀ {ps : List Plan}, GoodXL h0 ps ↔ ∀ p ∈ ps, GoodX h0 p
  | [] => by simp [GoodXL]
  | p :: ps => by simp [GoodXL, goodXL_iff (ps := ps)]

theorem kindAt_append {h : Heap} (e : Heap) {c : Addr} (hc : c < h.length) : kindAt (h ++ e) c = kindAt h c := by
  simp [kindAt, List.getElem?_append_left hc]

theorem kindAt_append_some {h : Heap} (e : Heap) {c : Addr} {k : Nat} (hk : kindAt h c = some k) :
    kindAt (h ++ e) c = some k := by
  obtain ⟨o, ho, _⟩ := kindAt_some hk
  rw [kindAt_append e (List.getElem?_eq_some_iff.mp ho).1]; exact hk

theorem typedObj_append {h : Heap} (e : Heap) {o : Obj} (ht : TypedObj h o) : TypedObj (h ++ e) o := by
  obtain ⟨ks, hks, hok⟩ := ht
  exact ⟨ks, mapO_congr_some (fun c _ k hk => kindAt_append_some e hk) hks, hok⟩

theorem typedRefs_append_one {h : Heap} {o : Obj} (ht : TypedRefs h) (ho : TypedObj (h ++ [o]) o) :
    TypedRefs (h ++ [o]) := by
  intro a oa hoa
  by_cases ha : a < h.length
  · rw [List.getElem?_append_left ha] at hoa
    exact typedObj_append [o] (ht a oa hoa)
  · have hlen : a < h.length + 1 := by simpa using (List.getElem?_eq_some_iff.mp hoa).1
    have : a = h.length := Nat.le_antisymm (Nat.lt_succ_iff.mp hlen) (Nat.not_lt.mp ha)
    subst this
    simp at hoa; subst hoa; exact ho

theorem immClosedX_append_one {h : Heap} {o : Obj} (hic : ImmClosedX h)
    (ho : o.isMut = false → ∀ c ∈ o.refs, ∃ oc : Obj, h[c]? = some oc ∧ Frozen oc) : ImmClosedX (h ++ [o]) := by
  intro a oa hoa hm c hc
  by_cases ha : a < h.length
  · rw [List.getElem?_append_left ha] at hoa
    obtain ⟨oc, hoc, hfr⟩ := hic a oa hoa hm c hc
    exact ⟨oc, getElem?_append_of_some [o] hoc, hfr⟩
  · have hlen : a < h.length + 1 := by simpa using (List.getElem?_eq_some_iff.mp hoa).1
    have : a = h.length := Nat.le_antisymm (Nat.lt_succ_iff.mp hlen) (Nat.not_lt.mp ha)
    subst this
    simp at hoa; subst hoa
    obtain ⟨oc, hoc, hfr⟩ := ho hm c hc
    exact ⟨oc, getElem?_append_of_some _ hoc, hfr⟩

theorem kindOKX_append_one {h : Heap} {o : Obj} (hk : KindOKX h)
    (ho : o.sc.alwaysImm = true → o.isMut = false) : KindOKX (h ++ [o]) := by
  intro a oa hoa hai
  by_cases ha : a < h.length
  · rw [List.getElem?_append_left ha] at hoa; exact hk a oa hoa hai
  · have hlen : a < h.length + 1 := by simpa using (List.getElem?_eq_some_iff.mp hoa).1
    have : a = h.length := Nat.le_antisymm (Nat.lt_succ_iff.mp hlen) (Nat.not_lt.mp ha)
    subst this
    simp at hoa; subst hoa; exact ho hai

structure ResX (h0 h : Heap) (p : Plan) (r : Heap × Addr) : Prop where
  ext : ∃ e, r.1 = h ++ e ∧ ∀ o ∈ e, o.cHash = none ∧ o.cPy = none
  imm : ImmClosedX h → ImmClosedX r.1
  kind : KindOKX h → KindOKX r.1
  typed : TypedRefs h → TypedRefs r.1
  rkind : ∀ k, rootKindP h0 p = some k → kindAt r.1 r.2 = some k
  rfrozen : rootFrozenP h0 p → ∃ o : Obj, r.1[r.2]? = some o ∧ Frozen o

structure ResXL (h0 h : Heap) (ps : List Plan) (r : Heap × List Addr) : Prop where
  ext : ∃ e, r.1 = h ++ e ∧ ∀ o ∈ e, o.cHash = none ∧ o.cPy = none
  imm : ImmClosedX h → ImmClosedX r.1
  kind : KindOKX h → KindOKX r.1
  typed : TypedRefs h → TypedRefs r.1
  rkinds : ∀ ks, mapO (rootKindP h0) ps = some ks → mapO (kindAt r.1) r.2 = some ks
  rfrozen : ∀ (i : Nat) (p : Plan) (a : Addr), ps[i]? = some p → r.2[i]? = some a → rootFrozenP h0 p →
    ∃ o : Obj, r.1[a]? = some o ∧ Frozen o
  len : r.2.length = ps.length

mutual
theorem allocPlanX_spec (h0 : Heap) : ∀ (p : Plan) (h : Heap), (∃ e0, h = h0 ++ e0) → GoodX h0 p →
    ResX h0 h p (allocPlan h p)
  | .ref a, h, hpre, hg => by
    obtain ⟨e0, rfl⟩ := hpre
    simp only [GoodX] at hg
    refine ⟨⟨[], by simp [allocPlan], by simp⟩, fun x => by simpa [allocPlan] using x,
      fun x => by simpa [allocPlan] using x, fun x => by simpa [allocPlan] using x, ?_, ?_⟩
    · intro k hk
      simp only [rootKindP] at hk
      simpa [allocPlan] using kindAt_append_some e0 hk
    · rintro ⟨o, ho, hf⟩
      exact ⟨o, by simpa [allocPlan] using getElem?_append_of_some e0 ho, hf⟩
  | .node m sc kids, h, hpre, hg => by
    simp only [GoodX] at hg
    obtain ⟨gk, gi, ⟨ks, hks, hok⟩, gl⟩ := hg
    have IH := allocPlansX_spec h0 kids h hpre gl
    obtain ⟨e, he, hcache⟩ := IH.ext
    simp only [allocPlan]
    generalize hr : allocPlans h kids = r at *
    obtain ⟨h1, as⟩ := r
    simp only at he IH ⊢
    let onew : Obj := { isMut := m, sc := sc, refs := as }
    have hnew : (h1 ++ [onew])[h1.length]? = some onew := by simp
    have hkinds1 : mapO (kindAt h1) as = some ks := IH.rkinds ks hks
    have hkinds : mapO (kindAt (h1 ++ [onew])) as = some ks :=
      mapO_congr_some (fun c _ k hk => kindAt_append_some [onew] hk) hkinds1
    refine ⟨⟨e ++ [onew], by simp [he, onew], ?_⟩, ?_, ?_, ?_, ?_, ?_⟩
    · intro o ho
      simp only [List.mem_append, List.mem_singleton] at ho
      rcases ho with ho | rfl
      · exact hcache o ho
      · exact ⟨rfl, rfl⟩
    · intro hic
      apply immClosedX_append_one (IH.imm hic)
      intro hm c hc
      obtain ⟨i, hi, rfl⟩ := List.getElem_of_mem hc
      simp only [onew] at hi
      have hi' : i < kids.length := by rw [← IH.len]; exact hi
      exact IH.rfrozen i kids[i] as[i] (List.getElem?_eq_getElem hi') (List.getElem?_eq_getElem hi)
        (gi (by simpa [onew] using hm) kids[i] (List.getElem_mem hi'))
    · intro hk
      exact kindOKX_append_one (IH.kind hk) gk
    · intro ht
      exact typedRefs_append_one (IH.typed ht) ⟨ks, hkinds, hok⟩
    · intro k hk
      simp only [rootKindP, Option.some.injEq] at hk
      simp [kindAt, onew, hk]
    · intro hf
      exact ⟨onew, hnew, hf⟩
theorem allocPlansX_spec (h0 : Heap) : ∀ (ps : List Plan) (h : Heap), (∃ e0, h = h0 ++ e0) → GoodXL h0 ps →
    ResXL h0 h ps (allocPlans h ps)
  | [], h, _, _ => by
    refine ⟨⟨[], by simp [allocPlans], by simp⟩, fun x => by simpa [allocPlans] using x,
      fun x => by simpa [allocPlans] using x, fun x => by simpa [allocPlans] using x, ?_, ?_, by simp [allocPlans]⟩
    · intro ks hks; simp [mapO] at hks; subst hks; simp [allocPlans, mapO]
    · intro i p a hp; simp at hp
  | p :: ps, h, hpre, hg => by
    simp only [GoodXL] at hg
    have IH1 := allocPlanX_spec h0 p h hpre hg.1
    obtain ⟨e1, he1, hc1⟩ := IH1.ext
    have hpre1 : ∃ e0, (allocPlan h p).1 = h0 ++ e0 := by
      obtain ⟨e0, rfl⟩ := hpre
      exact ⟨e0 ++ e1, by rw [he1]; simp⟩
    have IH2 := allocPlansX_spec h0 ps (allocPlan h p).1 hpre1 hg.2
    obtain ⟨e2, he2, hc2⟩ := IH2.ext
    simp only [allocPlans]
    refine ⟨⟨e1 ++ e2, by rw [he2, he1]; simp, ?_⟩, fun x => IH2.imm (IH1.imm x), fun x => IH2.kind (IH1.kind x),
      fun x => IH2.typed (IH1.typed x), ?_, ?_, by simp [IH2.len]⟩
    · intro o ho
      rcases List.mem_append.mp ho with h1 | h1
      · exact hc1 o h1
      · exact hc2 o h1
    · intro ks hks
      simp only [mapO] at hks
      cases hk1 : rootKindP h0 p with
      | none => simp [hk1] at hks
      | some k =>
        cases hk2 : mapO (rootKindP h0) ps with
        | none => simp [hk1, hk2] at hks
        | some ks' =>
          simp only [hk1, hk2, Option.some.injEq] at hks
          subst hks
          have a1 := IH1.rkind k hk1
          have a2 := IH2.rkinds ks' hk2
          have a1' : kindAt (allocPlans (allocPlan h p).1 ps).1 (allocPlan h p).2 = some k := by
            rw [he2]; exact kindAt_append_some e2 a1
          simp [mapO, a1', a2]
    · intro i q a hq ha hri
      cases i with
      | zero =>
        simp at hq ha; subst hq; subst ha
        obtain ⟨o, ho, hf⟩ := IH1.rfrozen hri
        exact ⟨o, by rw [he2]; exact getElem?_append_of_some e2 ho, hf⟩
      | succ i =>
        simp at hq ha
        exact IH2.rfrozen i q a hq ha hri
end

/-- allocation of a good plan on a heap satisfying `InvX` -/
theorem invx_alloc {h : Heap} (hinv : InvX h) {p : Plan} (hg : GoodX h p) :
    InvX (allocPlan h p).1 ∧ (∃ e, (allocPlan h p).1 = h ++ e) ∧
      (∀ k, rootKindP h p = some k → kindAt (allocPlan h p).1 (allocPlan h p).2 = some k) := by
  have hres := allocPlanX_spec h p h ⟨[], by simp⟩ hg
  obtain ⟨e, he, hnew⟩ := hres.ext
  refine ⟨?_, ⟨e, he⟩, hres.rkind⟩
  rw [he]
  exact invx_ext hinv hnew (by rw [← he]; exact hres.imm hinv.immClosed) (by rw [← he]; exact hres.kind hinv.kindOK)
    (by rw [← he]; exact hres.typed hinv.typed)

theorem trx_alloc {h : Heap} (hinv : InvX h) {p : Plan} (hg : GoodX h p) :
    TrX h (allocPlan h p).1 ∧ (∃ e, (allocPlan h p).1 = h ++ e) ∧
      (∀ k, rootKindP h p = some k → kindAt (allocPlan h p).1 (allocPlan h p).2 = some k) := by
  obtain ⟨hi, ⟨e, he⟩, hk⟩ := invx_alloc hinv hg
  refine ⟨⟨hi, ?_⟩, ⟨e, he⟩, hk⟩
  intro a o ho _
  exact ⟨o, by rw [he]; exact getElem?_append_of_some e ho, rfl, rfl, rfl⟩

end BtcVerif.Model.Heap
