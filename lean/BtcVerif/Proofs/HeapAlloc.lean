/-
  C09 helper lemmas, part 3: what `allocPlan` does.
-/
import BtcVerif.Proofs.HeapPath

namespace BtcVerif.Model.Heap
open BtcVerif BtcVerif.Spec.ValueSem

/-- kids allocated one after the other: their address ranges `[lo,mid) [mid,…) … hi` are adjacent -/
def Chain (R : Plan → Nat → Nat → ATree → Prop) : List Plan → Nat → Nat → List ATree → Prop
  | [], lo, hi, [] => lo = hi
  | p :: ps, lo, hi, t :: ts => ∃ mid, R p lo mid t ∧ Chain R ps mid hi ts
  | _, _, _, _ => False

/-- `t` is the tree built for plan `p` at the fresh addresses `[lo,hi)`; references keep the tree
    they have in the base heap `h0` -/
def PT (h0 : Heap) : Nat → Plan → Nat → Nat → ATree → Prop
  | f, .ref a, lo, hi, t => lo = hi ∧ unfoldA f h0 a = some t
  | 0, .node _ _ _, _, _, _ => False
  | f + 1, .node m sc kids, lo, hi, .node a' m' sc' kids' =>
      a' + 1 = hi ∧ lo ≤ a' ∧ m' = m ∧ sc' = sc ∧ Chain (PT h0 f) kids lo a' kids'

/-- the references of the plan unfold in the base heap and the plan is at most `f` deep -/
def Fits (h0 : Heap) : Nat → Plan → Prop
  | f, .ref a => ∃ t, unfoldA f h0 a = some t
  | 0, .node _ _ _ => False
  | f + 1, .node _ _ kids => ∀ k ∈ kids, Fits h0 f k

def PlanAll (P : Bool → Scalars → Prop) : Nat → Plan → Prop
  | _, .ref _ => True
  | 0, .node _ _ _ => False
  | f + 1, .node m sc kids => P m sc ∧ ∀ k ∈ kids, PlanAll P f k

def rootImm (h0 : Heap) : Plan → Prop
  | .ref a => ∃ o : Obj, h0[a]? = some o ∧ o.isMut = false
  | .node m _ _ => m = false

/-- immutable nodes of the plan get immutable kids -/
def ImmPlan (h0 : Heap) : Nat → Plan → Prop
  | _, .ref _ => True
  | 0, .node _ _ _ => False
  | f + 1, .node m _ kids => (m = false → ∀ k ∈ kids, rootImm h0 k) ∧ ∀ k ∈ kids, ImmPlan h0 f k

theorem immClosed_append_one {h : Heap} {o : Obj} (hic : ImmClosed h)
    (ho : o.isMut = false → ∀ c ∈ o.refs, ∃ oc : Obj, h[c]? = some oc ∧ oc.isMut = false) :
    ImmClosed (h ++ [o]) := by
  intro a oa hoa hm c hc
  by_cases ha : a < h.length
  · rw [List.getElem?_append_left ha] at hoa
    obtain ⟨oc, hoc, hmc⟩ := hic a oa hoa hm c hc
    exact ⟨oc, by rw [List.getElem?_append_left (List.getElem?_eq_some_iff.mp hoc).1]; exact hoc, hmc⟩
  · have hlen : a < h.length + 1 := by simpa using (List.getElem?_eq_some_iff.mp hoa).1
    have : a = h.length := Nat.le_antisymm (Nat.lt_succ_iff.mp hlen) (Nat.not_lt.mp ha)
    subst this
    simp at hoa
    subst hoa
    obtain ⟨oc, hoc, hmc⟩ := ho hm c hc
    exact ⟨oc, by rw [List.getElem?_append_left (List.getElem?_eq_some_iff.mp hoc).1]; exact hoc, hmc⟩

structure Res (h0 h : Heap) (P : Bool → Scalars → Prop) (f : Nat) (p : Plan) (r : Heap × Addr) : Prop where
  ext : ∃ e, r.1 = h ++ e ∧ ∀ o ∈ e, o.cHash = none ∧ o.cPy = none ∧ P o.isMut o.sc
  tree : ∃ t, unfoldA f r.1 r.2 = some t ∧ PT h0 f p h.length r.1.length t
  imm : ImmClosed h → ImmClosed r.1
  root : rootImm h0 p → ∃ o : Obj, r.1[r.2]? = some o ∧ o.isMut = false

structure ResL (h0 h : Heap) (P : Bool → Scalars → Prop) (f : Nat) (ps : List Plan)
    (r : Heap × List Addr) : Prop where
  ext : ∃ e, r.1 = h ++ e ∧ ∀ o ∈ e, o.cHash = none ∧ o.cPy = none ∧ P o.isMut o.sc
  trees : ∃ ts, mapO (unfoldA f r.1) r.2 = some ts ∧ Chain (PT h0 f) ps h.length r.1.length ts
  imm : ImmClosed h → ImmClosed r.1
  roots : ∀ (i : Nat) (p : Plan) (a : Addr), ps[i]? = some p → r.2[i]? = some a → rootImm h0 p →
    ∃ o : Obj, r.1[a]? = some o ∧ o.isMut = false

theorem getElem?_append_of_some {α : Type} {l : List α} {i : Nat} {x : α} (e : List α)
    (h : l[i]? = some x) : (l ++ e)[i]? = some x := by
  rw [List.getElem?_append_left (List.getElem?_eq_some_iff.mp h).1]; exact h

mutual
theorem allocPlan_spec (h0 : Heap) (P : Bool → Scalars → Prop) :
    ∀ (p : Plan) (f : Nat) (h : Heap), (∃ e0, h = h0 ++ e0) → Fits h0 f p → PlanAll P f p →
      ImmPlan h0 f p → Res h0 h P f p (allocPlan h p)
  | .ref a, f, h, hpre, hfit, _, _ => by
    obtain ⟨e0, rfl⟩ := hpre
    obtain ⟨t, ht⟩ : ∃ t, unfoldA f h0 a = some t := by cases f <;> simpa [Fits] using hfit
    refine ⟨⟨[], by simp [allocPlan], by simp⟩, ⟨t, ?_, ?_⟩, fun hic => by simpa [allocPlan] using hic, ?_⟩
    · simpa [allocPlan] using unfoldA_ext e0 ht
    · cases f <;> simp [PT, allocPlan, ht]
    · rintro ⟨o, ho, hm⟩
      exact ⟨o, by simpa [allocPlan] using getElem?_append_of_some e0 ho, hm⟩
  | .node m sc kids, 0, h, _, hfit, _, _ => by simp [Fits] at hfit
  | .node m sc kids, f + 1, h, hpre, hfit, hall, himm => by
    simp only [Fits] at hfit
    simp only [PlanAll] at hall
    simp only [ImmPlan] at himm
    have IH := allocPlans_spec h0 P kids f h hpre hfit hall.2 himm.2
    obtain ⟨e, he, hcache⟩ := IH.ext
    obtain ⟨ts, hts, hchain⟩ := IH.trees
    simp only [allocPlan]
    generalize hr : allocPlans h kids = r at *
    obtain ⟨h1, as⟩ := r
    simp only at he hts hchain ⊢
    let onew : Obj := { isMut := m, sc := sc, refs := as }
    have hnew : (h1 ++ [onew])[h1.length]? = some onew := by simp
    refine ⟨⟨e ++ [onew], by simp [he, onew], ?_⟩, ⟨.node h1.length m sc ts, ?_, ?_⟩, ?_, ?_⟩
    · intro o ho
      simp only [List.mem_append, List.mem_singleton] at ho
      rcases ho with ho | rfl
      · exact hcache o ho
      · exact ⟨rfl, rfl, hall.1⟩
    · have := unfoldA_mk (f := f) hnew
        (mapO_congr_some (g := unfoldA f (h1 ++ [onew])) (fun c _ b hb => unfoldA_ext [onew] hb) hts)
      simpa [onew] using this
    · simp only [PT, List.length_append, List.length_singleton, true_and]
      have hle : h.length ≤ h1.length := by rw [he]; simp
      exact ⟨hle, hchain⟩
    · intro hic
      apply immClosed_append_one (IH.imm hic)
      intro hm c hc
      obtain ⟨i, hi, rfl⟩ := List.getElem_of_mem hc
      simp only at hi
      have hlen : kids.length = as.length := by
        have := mapO_length hts
        -- Chain gives equal lengths of plans and trees
        have hcl : ∀ (ps : List Plan) (lo hi : Nat) (ts : List ATree), Chain (PT h0 f) ps lo hi ts →
            ps.length = ts.length := by
          intro ps
          induction ps with
          | nil => intro lo hi ts hc; cases ts <;> simp [Chain] at hc ⊢
          | cons p ps ih =>
            intro lo hi ts hc
            cases ts with
            | nil => simp [Chain] at hc
            | cons t ts => obtain ⟨mid, _, hc'⟩ := hc; simp [ih mid hi ts hc']
        rw [hcl _ _ _ _ hchain]; exact this
      have hi' : i < kids.length := by omega
      exact IH.roots i kids[i] (as[i]) (List.getElem?_eq_getElem hi') (List.getElem?_eq_getElem hi)
        (himm.1 (by simpa [onew] using hm) kids[i] (List.getElem_mem hi'))
    · intro hm
      exact ⟨onew, hnew, hm⟩
theorem allocPlans_spec (h0 : Heap) (P : Bool → Scalars → Prop) :
    ∀ (ps : List Plan) (f : Nat) (h : Heap), (∃ e0, h = h0 ++ e0) → (∀ k ∈ ps, Fits h0 f k) →
      (∀ k ∈ ps, PlanAll P f k) → (∀ k ∈ ps, ImmPlan h0 f k) → ResL h0 h P f ps (allocPlans h ps)
  | [], f, h, _, _, _, _ => by
    refine ⟨⟨[], by simp [allocPlans], by simp⟩, ⟨[], by simp [allocPlans, mapO], by simp [allocPlans, Chain]⟩,
      fun hic => by simpa [allocPlans] using hic, ?_⟩
    intro i p a hp; simp at hp
  | p :: ps, f, h, hpre, hfit, hall, himm => by
    have IH1 := allocPlan_spec h0 P p f h hpre (hfit p (by simp)) (hall p (by simp)) (himm p (by simp))
    obtain ⟨e1, he1, hc1⟩ := IH1.ext
    have hpre1 : ∃ e0, (allocPlan h p).1 = h0 ++ e0 := by
      obtain ⟨e0, rfl⟩ := hpre
      exact ⟨e0 ++ e1, by rw [he1]; simp⟩
    have IH2 := allocPlans_spec h0 P ps f (allocPlan h p).1 hpre1 (fun k hk => hfit k (by simp [hk]))
      (fun k hk => hall k (by simp [hk])) (fun k hk => himm k (by simp [hk]))
    obtain ⟨e2, he2, hc2⟩ := IH2.ext
    obtain ⟨t, ht, hpt⟩ := IH1.tree
    obtain ⟨ts, hts, hch⟩ := IH2.trees
    simp only [allocPlans]
    refine ⟨⟨e1 ++ e2, by rw [he2, he1]; simp, ?_⟩, ⟨t :: ts, ?_, ?_⟩, fun hic => IH2.imm (IH1.imm hic), ?_⟩
    · intro o ho
      simp only [List.mem_append] at ho
      rcases ho with ho | ho
      · exact hc1 o ho
      · exact hc2 o ho
    · have ht' : unfoldA f (allocPlans (allocPlan h p).1 ps).1 (allocPlan h p).2 = some t := by
        rw [he2]; exact unfoldA_ext e2 ht
      simp [mapO, ht', hts]
    · exact ⟨(allocPlan h p).1.length, hpt, hch⟩
    · intro i q a hq ha hri
      cases i with
      | zero =>
        simp at hq ha; subst hq; subst ha
        obtain ⟨o, ho, hm⟩ := IH1.root hri
        exact ⟨o, by rw [he2]; exact getElem?_append_of_some e2 ho, hm⟩
      | succ i =>
        simp at hq ha
        exact IH2.roots i q a hq ha hri
end

end BtcVerif.Model.Heap
