/-
  C15 — helper lemmas: the `while size > 1` loop of build_merkle_tree_from_txids against the
  recursive reference definition.  `hash256` is never unfolded.
-/
import BtcVerif.Model.Merkle
import BtcVerif.Spec.Merkle
import BtcVerif.Proofs.SerSpec

namespace BtcVerif.MerkleProofs
open BtcVerif BtcVerif.Crypto BtcVerif.Model.Merkle BtcVerif.Model.Wire BtcVerif.SerSpec
open BtcVerif.Spec.Merkle (TxRange BlockRange)

theorem levelLoop_done {j size i : Nat} (tree : List Bytes) (h : size ≤ i) :
    levelLoop j size i tree = .ok tree := by
  unfold levelLoop
  simp [Nat.not_lt.mpr h]

/-- element `k` of the middle segment -/
theorem getElem?_mid (pre level acc : List Bytes) (k : Nat) (hk : k < level.length) :
    (pre ++ level ++ acc)[pre.length + k]? = level[k]? := by
  rw [List.append_assoc, List.getElem?_append_right (by omega)]
  simp only [Nat.add_sub_cancel_left]
  rw [List.getElem?_append_left hk]

theorem getElem?_of_drop {l : List Bytes} {i : Nat} {a : Bytes} {r : List Bytes}
    (h : l.drop i = a :: r) : l[i]? = some a := by
  have : (l.drop i)[0]? = some a := by rw [h]; rfl
  simpa [List.getElem?_drop] using this

/-- loop invariant of the inner `for`: with the slice `[j, j+size)` holding the current level
    and `acc` the nodes appended so far, the loop appends the pairing of the rest of the level -/
theorem levelLoop_spec (pre level : List Bytes) :
    ∀ (d : List Bytes) (i : Nat) (acc : List Bytes), level.drop i = d →
      levelLoop pre.length level.length i (pre ++ level ++ acc)
        = .ok (pre ++ level ++ (acc ++ Spec.Merkle.pairUp d)) := by
  intro d
  induction d using Spec.Merkle.pairUp.induct with
  | case1 =>
    intro i acc hd
    have hi : level.length ≤ i := by
      have := congrArg List.length hd
      simp at this; omega
    rw [levelLoop_done _ hi]; simp [Spec.Merkle.pairUp]
  | case2 a =>
    intro i acc hd
    have hlen : level.length - i = 1 := by
      have := congrArg List.length hd
      simpa using this
    have hi : i < level.length := by omega
    have ha : level[i]? = some a := getElem?_of_drop hd
    unfold levelLoop
    have hmin : min (i + 1) (level.length - 1) = i := by omega
    simp only [hi, if_true, hmin, getElem?_mid pre level acc i hi, ha]
    rw [levelLoop_done _ (by omega)]
    simp [Spec.Merkle.pairUp]
  | case3 a b rest ih =>
    intro i acc hd
    have hlen : level.length - i = rest.length + 2 := by
      have := congrArg List.length hd
      simpa using this
    have hi : i < level.length := by omega
    have hi1 : i + 1 < level.length := by omega
    have ha : level[i]? = some a := getElem?_of_drop hd
    have hd1 : level.drop (i + 1) = b :: rest := by
      have : level.drop (i + 1) = (level.drop i).drop 1 := by rw [List.drop_drop]
      rw [this, hd]; rfl
    have hb : level[i + 1]? = some b := getElem?_of_drop hd1
    have hd2 : level.drop (i + 2) = rest := by
      have : level.drop (i + 2) = (level.drop i).drop 2 := by rw [List.drop_drop]
      rw [this, hd]; rfl
    unfold levelLoop
    have hmin : min (i + 1) (level.length - 1) = i + 1 := by omega
    simp only [hi, if_true, hmin, getElem?_mid pre level acc i hi, ha]
    rw [show pre.length + (i + 1) = pre.length + (i + 1) from rfl,
      getElem?_mid pre level acc (i + 1) hi1, hb]
    simp only
    have := ih (i + 2) (acc ++ [hash256 (a ++ b)]) hd2
    rw [show pre ++ level ++ acc ++ [hash256 (a ++ b)] = pre ++ level ++ (acc ++ [hash256 (a ++ b)]) by
      simp [List.append_assoc]]
    rw [this]
    simp [Spec.Merkle.pairUp, List.append_assoc]

theorem root_pairUp (l : List Bytes) (h : 2 ≤ l.length) :
    Spec.Merkle.root l = Spec.Merkle.root (Spec.Merkle.pairUp l) := by
  match l, h with
  | a :: b :: rest, _ => rw [Spec.Merkle.root]

/-- loop invariant of the outer `while`: the slice `[j, j+size)` is the current level; the last
    element of the finished tree is the root of that level -/
theorem treeLoop_spec : ∀ (n : Nat) (pre level : List Bytes), level.length = n → 1 ≤ n →
    ∃ tree, treeLoop pre.length level.length (pre ++ level) = .ok tree ∧
      tree.getLast? = Spec.Merkle.root level := by
  intro n
  induction n using Nat.strongRecOn with
  | _ n ih =>
    intro pre level hn h1
    by_cases h2 : n = 1
    · subst h2
      match level, hn with
      | [h], _ =>
        refine ⟨pre ++ [h], ?_, ?_⟩
        · unfold treeLoop; simp
        · simp [Spec.Merkle.root]
    · have hgt : level.length > 1 := by omega
      unfold treeLoop
      simp only [hgt, if_true]
      have hl := levelLoop_spec pre level level 0 [] (by simp)
      simp only [List.append_nil, List.nil_append] at hl
      rw [hl]
      simp only
      have hlen : (Spec.Merkle.pairUp level).length = (level.length + 1) / 2 := Spec.Merkle.pairUp_length level
      have := ih ((level.length + 1) / 2) (by omega) (pre ++ level) (Spec.Merkle.pairUp level) hlen (by omega)
      obtain ⟨tree, ht, hr⟩ := this
      refine ⟨tree, ?_, ?_⟩
      · rw [← ht, hlen]; simp
      · rw [hr, root_pairUp level (by omega)]

theorem buildTree_spec (hs : List Bytes) (hne : hs ≠ []) :
    ∃ tree, buildTreeFromTxids hs = .ok tree ∧ tree.getLast? = Spec.Merkle.root hs := by
  have h1 : 1 ≤ hs.length := by
    cases hs with
    | nil => exact absurd rfl hne
    | cons _ _ => simp
  have := treeLoop_spec hs.length [] hs rfl h1
  simpa [buildTreeFromTxids] using this

theorem root_isSome : ∀ (n : Nat) (hs : List Bytes), hs.length = n → hs ≠ [] →
    ∃ r, Spec.Merkle.root hs = some r := by
  intro n
  induction n using Nat.strongRecOn with
  | _ n ih =>
    intro hs hn hne
    match hs, hne with
    | [h], _ => exact ⟨h, by simp [Spec.Merkle.root]⟩
    | a :: b :: rest, _ =>
      rw [Spec.Merkle.root]
      have hl := Spec.Merkle.pairUp_length (a :: b :: rest)
      have hne' : Spec.Merkle.pairUp (a :: b :: rest) ≠ [] := by simp [Spec.Merkle.pairUp]
      exact ih _ (by rw [hl, ← hn]; simp; omega) _ rfl hne'

/-- `build_merkle_tree_from_txids(hs)[-1]` -/
theorem root_spec (hs : List Bytes) (hne : hs ≠ []) :
    ∃ tree r, buildTreeFromTxids hs = .ok tree ∧ lastOf tree = .ok r ∧ Spec.Merkle.root hs = some r := by
  obtain ⟨tree, ht, hl⟩ := buildTree_spec hs hne
  obtain ⟨r, hr⟩ := root_isSome _ hs rfl hne
  exact ⟨tree, r, ht, by simp [lastOf, hl, hr], hr⟩

theorem compactSize_ne_nil (n : Nat) : Spec.Wire.compactSize n ≠ [] := by
  unfold Spec.Wire.compactSize; split
  · simp
  · split
    · simp
    · split <;> simp

theorem witStack_ne_nil (s : WitStack) : Spec.Wire.witStack s ≠ [] := by
  simp [Spec.Wire.witStack, Spec.Wire.vec, compactSize_ne_nil]

/-- fields in wire range pass the validating constructor -/
theorem ctorValid_of_range (t : Tx) (h : TxRange t) : ctorValid t = true := by
  obtain ⟨_, _, _, _, h5, _, _, _, h9⟩ := h
  unfold ctorValid
  simp only [Bool.and_eq_true, decide_eq_true_eq, List.all_eq_true, beq_iff_eq]
  refine ⟨by omega, ?_⟩
  intro i hi
  obtain ⟨⟨h1, h2⟩, _, h3⟩ := h5 i hi
  exact ⟨⟨h1, by omega⟩, by omega⟩

theorem mapM_ok_inv {α β : Type} (f : α → Res β) : ∀ (xs : List α) (ys : List β),
    xs.mapM f = .ok ys → ∀ x ∈ xs, ∃ y, f x = .ok y := by
  intro xs
  induction xs with
  | nil => intro ys _ x hx; simp at hx
  | cons a r ih =>
    intro ys h x hx
    rw [List.mapM_cons] at h
    cases ha : f a with
    | error e => simp [ha, bind, Except.bind] at h
    | ok b =>
      cases hr : r.mapM f with
      | error e => simp [ha, hr, bind, Except.bind] at h
      | ok bs =>
        simp only [List.mem_cons] at hx
        rcases hx with rfl | hx
        · exact ⟨b, ha⟩
        · exact ih bs hr x hx

theorem bind_ok_inv {α β : Type} {x : Res α} {f : α → Res β} {b : β} (h : (x >>= f) = .ok b) :
    ∃ a, x = .ok a ∧ f a = .ok b := by
  cases x with
  | error e => cases h
  | ok a => exact ⟨a, rfl, h⟩

/-- a transaction whose (stripped) serialisation exists passes the validating constructor: the
    serialiser's own `struct.pack` ranges and 32-byte assert are at least as strict -/
theorem ctorValid_of_ser (t : Tx) (inc : Bool) (s : Bytes) (h : serTx t inc = .ok s) : ctorValid t = true := by
  have key : (∃ v, serVector serTxIn t.vin = .ok v) ∧ (∃ l, packU 4 t.nLockTime = .ok l) := by
    unfold serTx at h
    obtain ⟨ver, _, h⟩ := bind_ok_inv h
    dsimp only at h
    split at h
    · split at h
      · obtain ⟨_, hthrow, _⟩ := bind_ok_inv h
        cases hthrow
      · obtain ⟨vin, hvin, h⟩ := bind_ok_inv h
        obtain ⟨vout, _, h⟩ := bind_ok_inv h
        obtain ⟨w, _, h⟩ := bind_ok_inv h
        obtain ⟨body, _, h⟩ := bind_ok_inv h
        obtain ⟨l, hl, _⟩ := bind_ok_inv h
        exact ⟨⟨vin, hvin⟩, ⟨l, hl⟩⟩
    · obtain ⟨vin, hvin, h⟩ := bind_ok_inv h
      obtain ⟨vout, _, h⟩ := bind_ok_inv h
      obtain ⟨body, _, h⟩ := bind_ok_inv h
      obtain ⟨l, hl, _⟩ := bind_ok_inv h
      exact ⟨⟨vin, hvin⟩, ⟨l, hl⟩⟩
  obtain ⟨⟨v, hv⟩, ⟨l, hl⟩⟩ := key
  have hl' : t.nLockTime < 256 ^ 4 := by
    unfold packU at hl
    by_cases hc : t.nLockTime < 256 ^ 4
    · exact hc
    · simp [hc] at hl
  have hins : ∀ i ∈ t.vin, ∃ y, serTxIn i = .ok y := by
    unfold serVector at hv
    cases hc : serVarInt t.vin.length with
    | error e => simp [hc, bind, Except.bind] at hv
    | ok c =>
      cases hm : t.vin.mapM serTxIn with
      | error e => simp [hc, hm, bind, Except.bind] at hv
      | ok ys => exact mapM_ok_inv serTxIn t.vin ys hm
  unfold ctorValid
  simp only [Bool.and_eq_true, decide_eq_true_eq, List.all_eq_true, beq_iff_eq]
  refine ⟨by omega, ?_⟩
  intro i hi
  obtain ⟨y, hy⟩ := hins i hi
  unfold serTxIn at hy
  cases ho : serOutPoint i.prevout with
  | error e => simp [ho, bind, Except.bind] at hy
  | ok o =>
    cases hb : serBytes i.scriptSig with
    | error e => simp [ho, hb, bind, Except.bind] at hy
    | ok b =>
      cases hq : packU 4 i.nSequence with
      | error e => simp [ho, hb, hq, bind, Except.bind] at hy
      | ok q =>
        have hq' : i.nSequence < 256 ^ 4 := by
          unfold packU at hq
          by_cases hc : i.nSequence < 256 ^ 4
          · exact hc
          · simp [hc] at hq
        unfold serOutPoint at ho
        by_cases hlen : i.prevout.hash.length = 32
        · cases hn : packU 4 i.prevout.n with
          | error e => simp [hlen, hn, bind, Except.bind] at ho
          | ok n =>
            have hn' : i.prevout.n < 256 ^ 4 := by
              unfold packU at hn
              by_cases hc : i.prevout.n < 256 ^ 4
              · exact hc
              · simp [hc] at hn
            exact ⟨⟨hlen, by omega⟩, by omega⟩
        · simp [hlen, throw, throwThe, MonadExceptOf.throw, bind, Except.bind] at ho

/-- `GetTxid` -/
theorem getTxid_ok (t : Tx) (h : TxRange t) : getTxid t = .ok (Spec.Merkle.txid t) := by
  have hw := serWitness_ok t.wit h.2.2.2.2.2.2.2.1
  unfold getTxid
  rw [hw]
  by_cases hnil : (t.wit.map Spec.Wire.witStack).flatten = []
  · have hwit : t.wit = [] := by
      cases hq : t.wit with
      | nil => rfl
      | cons s r =>
        rw [hq] at hnil
        simp at hnil
        exact absurd (hnil.1) (witStack_ne_nil s)
    simp only [hnil, ne_eq, not_true_eq_false, if_false]
    rw [serTx_true t h]
    simp [Spec.Wire.txBytes, Tx.hasWitness_eq_not_witIsNull, hwit, witIsNull, Spec.Merkle.txid, Except.map]
  · simp only [ne_eq, hnil, not_false_eq_true, if_true, ctorValid_of_range t h]
    rw [serTx_strip t h]
    simp [Spec.Merkle.txid, Except.map]

/-- `GetHash` of a transaction -/
theorem getHash_ok (t : Tx) (h : TxRange t) : getHash t = .ok (Spec.Merkle.wtxid t) := by
  simp [getHash, serTx_true t h, Spec.Merkle.wtxid, Except.map]

theorem calcMerkleRoot_spec (vtx : List Tx) (hne : vtx ≠ []) (hr : ∀ t ∈ vtx, TxRange t) :
    ∃ tree r, buildTreeFromTxs vtx = .ok tree ∧ lastOf tree = .ok r ∧
      calcMerkleRoot vtx = .ok r ∧ Spec.Merkle.merkleRoot vtx = some r := by
  have hm := mapM_ok getTxid Spec.Merkle.txid vtx (fun t ht => getTxid_ok t (hr t ht))
  have hne' : vtx.map Spec.Merkle.txid ≠ [] := by simpa using hne
  obtain ⟨tree, r, ht, hl, hs⟩ := root_spec _ hne'
  have hlen : vtx.length ≠ 0 := by
    cases vtx with
    | nil => exact absurd rfl hne
    | cons _ _ => simp
  have hb : buildTreeFromTxs vtx = .ok tree := by simp [buildTreeFromTxs, hm, ht]
  exact ⟨tree, r, hb, hl, by simp [calcMerkleRoot, hlen, hb, hl], hs⟩

/-- the model's `has_witness` loop (`not wit.is_null()`) decides the wire format's "some stack is
    non-empty" -/
theorem any_hasWitness (vtx : List Tx) :
    vtx.any (fun t => !witIsNull t.wit) = vtx.any (·.hasWitness) := by
  congr 1; funext t; exact (Tx.hasWitness_eq_not_witIsNull t).symm

/-- `build_witness_merkle_tree_from_txs`: NoWitnessData exactly when no transaction has witness
    data; otherwise a non-empty tree whose last node is the BIP141 witness root -/
theorem buildWitnessTree_spec (vtx : List Tx) (hr : ∀ t ∈ vtx, TxRange t) :
    (vtx.any (·.hasWitness) = false → buildWitnessTree vtx = .ok none) ∧
    (vtx.any (·.hasWitness) = true →
      ∃ tree r, buildWitnessTree vtx = .ok (some tree) ∧ lastOf tree = .ok r ∧
        Spec.Merkle.witnessRoot vtx = some r) := by
  have hm := mapM_ok getHash Spec.Merkle.wtxid vtx (fun t ht => getHash_ok t (hr t ht))
  constructor
  · intro hw
    rw [← any_hasWitness] at hw
    simp [buildWitnessTree, hm, hw]
  · intro hw
    rw [← any_hasWitness] at hw
    match vtx, hw, hm with
    | cb :: rest, hw, hm =>
      obtain ⟨tree, r, ht, hl, hs⟩ := root_spec (zero32 :: rest.map Spec.Merkle.wtxid) (by simp)
      refine ⟨tree, r, ?_, hl, ?_⟩
      · simp [buildWitnessTree, hm, hw, ht, Except.map]
      · simpa [Spec.Merkle.witnessRoot, Spec.Merkle.zero32, zero32] using hs

theorem getWeight_ok (b : Block) (h : BlockRange b) : getWeight b = .ok (Spec.Merkle.blockWeight b) := by
  simp [getWeight, serBlock_false b h, serBlock_true b h, Spec.Merkle.blockWeight,
    Spec.Merkle.blockStripped, Except.map]
  omega

end BtcVerif.MerkleProofs
