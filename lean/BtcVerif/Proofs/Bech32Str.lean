/-
  C11 helper lemmas, part 3: strings.  `bech32_decode` accepts exactly the strings whose lowercase form
  is `hrp ++ "1" ++ characters of (data ++ checksum)` with a valid checksum (plus the character-range,
  single-case and length rules).
-/
import BtcVerif.Proofs.Bech32Code
import BtcVerif.Proofs.Bech32Bits

namespace BtcVerif.Bech32
open BtcVerif.Model.Bech32
open BtcVerif.Spec.Bech32 (charOf? dataChars? lowerStr)

/-! ### ASCII case -/

theorem cond_upper (c : Char) : (c.val ≥ 'A'.val ∧ c.val ≤ 'Z'.val) ↔ (65 ≤ c.toNat ∧ c.toNat ≤ 90) := by
  simp only [ge_iff_le, UInt32.le_iff_toNat_le, Char.toNat]
  exact Iff.rfl
theorem cond_lower (c : Char) : ('a'.val ≤ c.val ∧ c.val ≤ 'z'.val) ↔ (97 ≤ c.toNat ∧ c.toNat ≤ 122) := by
  simp only [UInt32.le_iff_toNat_le, Char.toNat]
  exact Iff.rfl
theorem isUpper_iff (c : Char) : c.isUpper = true ↔ (65 ≤ c.toNat ∧ c.toNat ≤ 90) := by
  unfold Char.isUpper
  rw [decide_eq_true_iff, cond_upper]
theorem isLower_iff (c : Char) : c.isLower = true ↔ (97 ≤ c.toNat ∧ c.toNat ≤ 122) := by
  unfold Char.isLower
  rw [Bool.and_eq_true, decide_eq_true_iff, decide_eq_true_iff]
  exact cond_lower c

theorem toLower_eq_self_iff (c : Char) : c.toLower = c ↔ c.isUpper = false := by
  unfold Char.toLower
  split
  · rename_i h
    have hu : c.isUpper = true := by unfold Char.isUpper; exact decide_eq_true h
    rw [hu]
    simp only [Bool.true_eq_false, iff_false]
    intro he
    have h2 := (cond_upper c).1 h
    have := congrArg Char.toNat he
    simp only [Char.toNat] at this h2
    rw [UInt32.toNat_add] at this
    have hk : ('a'.val - 'A'.val).toNat = 32 := by decide
    rw [hk] at this
    omega
  · rename_i h
    have hu : c.isUpper = false := by unfold Char.isUpper; exact decide_eq_false h
    simp [hu]

theorem toUpper_eq_self_iff (c : Char) : c.toUpper = c ↔ c.isLower = false := by
  unfold Char.toUpper
  split
  · rename_i h
    have hu : c.isLower = true := (isLower_iff c).2 ((cond_lower c).1 h)
    rw [hu]
    simp only [Bool.true_eq_false, iff_false]
    intro he
    have h2 := (cond_lower c).1 h
    have := congrArg Char.toNat he
    simp only [Char.toNat] at this h2
    rw [UInt32.toNat_add] at this
    have hk : ('A'.val - 'a'.val).toNat = 4294967264 := by decide
    rw [hk] at this
    omega
  · rename_i h
    have hu : c.isLower = false := by
      rw [← Bool.not_eq_true, isLower_iff, ← cond_lower]; exact h
    simp [hu]

/-! ### `mapM` in `Option` -/

theorem mapM_cons_some {α β} (f : α → Option β) (a : α) (l : List α) (r : List β) :
    (a :: l).mapM f = some r ↔ ∃ b bs, f a = some b ∧ l.mapM f = some bs ∧ r = b :: bs := by
  rw [List.mapM_cons]
  cases hfa : f a with
  | none => simp
  | some b =>
    cases hl : l.mapM f with
    | none => simp
    | some bs =>
      simp only [Option.pure_def, Option.bind_eq_bind, Option.bind_some, Option.some.injEq]
      constructor
      · intro h; exact ⟨b, bs, rfl, rfl, h.symm⟩
      · rintro ⟨b', bs', h1, h2, h3⟩; subst h1 h2; exact h3.symm

theorem mapM_nil_some {α β} (f : α → Option β) (r : List β) :
    ([] : List α).mapM f = some r ↔ r = [] := by
  rw [List.mapM_nil]; simp [eq_comm]

theorem mapM_swap {α β} (f : α → Option β) (g : β → Option α)
    (hfg : ∀ a b, f a = some b ↔ g b = some a) (l : List α) (r : List β) :
    l.mapM f = some r ↔ r.mapM g = some l := by
  induction l generalizing r with
  | nil =>
    rw [mapM_nil_some]
    cases r with
    | nil => simp
    | cons b r => rw [mapM_cons_some]; simp
  | cons a l ih =>
    rw [mapM_cons_some]
    cases r with
    | nil => rw [mapM_nil_some]; simp
    | cons b r =>
      rw [mapM_cons_some]
      constructor
      · rintro ⟨b', bs, h1, h2, h3⟩
        simp only [List.cons.injEq] at h3
        obtain ⟨rfl, rfl⟩ := h3
        exact ⟨a, l, (hfg _ _).1 h1, (ih _).1 h2, rfl⟩
      · rintro ⟨a', as, h1, h2, h3⟩
        simp only [List.cons.injEq] at h3
        obtain ⟨rfl, rfl⟩ := h3
        exact ⟨b, r, (hfg _ _).2 h1, (ih _).2 h2, rfl⟩

theorem mapM_length {α β} (f : α → Option β) (l : List α) (r : List β) (h : l.mapM f = some r) :
    r.length = l.length := by
  induction l generalizing r with
  | nil => rw [mapM_nil_some] at h; subst h; rfl
  | cons a l ih =>
    rw [mapM_cons_some] at h
    obtain ⟨b, bs, _, h2, rfl⟩ := h
    simp [ih bs h2]

theorem mapM_mem {α β} (f : α → Option β) (l : List α) (r : List β) (h : l.mapM f = some r) :
    ∀ b ∈ r, ∃ a ∈ l, f a = some b := by
  induction l generalizing r with
  | nil => rw [mapM_nil_some] at h; subst h; simp
  | cons a l ih =>
    rw [mapM_cons_some] at h
    obtain ⟨b, bs, h1, h2, rfl⟩ := h
    intro x hx
    simp only [List.mem_cons] at hx
    rcases hx with rfl | hx
    · exact ⟨a, by simp, h1⟩
    · obtain ⟨a', ha', hf⟩ := ih bs h2 x hx
      exact ⟨a', by simp [ha'], hf⟩

theorem mapM_mem' {α β} (f : α → Option β) (l : List α) (r : List β) (h : l.mapM f = some r) :
    ∀ a ∈ l, ∃ b ∈ r, f a = some b := by
  induction l generalizing r with
  | nil => simp
  | cons a l ih =>
    rw [mapM_cons_some] at h
    obtain ⟨b, bs, h1, h2, rfl⟩ := h
    intro x hx
    simp only [List.mem_cons] at hx
    rcases hx with rfl | hx
    · exact ⟨b, by simp, h1⟩
    · obtain ⟨b', hb', hf⟩ := ih bs h2 x hx
      exact ⟨b', by simp [hb'], hf⟩

/-! ### rfind -/

theorem rfind_go_spec (c : Char) (xs : List Char) : ∀ (i : Nat) (last : Option Nat),
    (c ∉ xs → rfind.go c xs i last = last) ∧
    (∀ a b, xs = a ++ c :: b → c ∉ b → rfind.go c xs i last = some (i + a.length)) := by
  induction xs with
  | nil =>
    intro i last
    refine ⟨fun _ => rfl, ?_⟩
    intro a b h; simp at h
  | cons x xs ih =>
    intro i last
    constructor
    · intro hc
      simp only [List.mem_cons, not_or] at hc
      simp only [rfind.go]
      rw [if_neg (fun h => hc.1 h.symm)]
      exact (ih (i + 1) last).1 hc.2
    · intro a b h hb
      simp only [rfind.go]
      cases a with
      | nil =>
        simp only [List.nil_append, List.cons.injEq] at h
        obtain ⟨rfl, rfl⟩ := h
        simp only [if_true, List.length_nil, Nat.add_zero]
        exact (ih (i + 1) (some i)).1 hb
      | cons y a =>
        simp only [List.cons_append, List.cons.injEq] at h
        obtain ⟨rfl, rfl⟩ := h
        rw [(ih (i + 1) _).2 a b rfl hb]
        simp only [List.length_cons]; congr 1; omega

theorem exists_last_occ (c : Char) (s : List Char) (h : c ∈ s) : ∃ a b, s = a ++ c :: b ∧ c ∉ b := by
  induction s with
  | nil => simp at h
  | cons x s ih =>
    by_cases hs : c ∈ s
    · obtain ⟨a, b, rfl, hb⟩ := ih hs
      exact ⟨x :: a, b, rfl, hb⟩
    · simp only [List.mem_cons] at h
      rcases h with rfl | h
      · exact ⟨[], s, rfl, hs⟩
      · exact absurd h hs

theorem rfind_eq_none (c : Char) (s : List Char) (h : c ∉ s) : rfind s c = none :=
  (rfind_go_spec c s 0 none).1 h

theorem rfind_eq_some (c : Char) (a b : List Char) (hb : c ∉ b) : rfind (a ++ c :: b) c = some a.length := by
  have := (rfind_go_spec c (a ++ c :: b) 0 none).2 a b rfl hb
  simpa [rfind] using this

theorem rfind_some_iff (c : Char) (s : List Char) (pos : Nat) :
    rfind s c = some pos ↔ ∃ a b, s = a ++ c :: b ∧ c ∉ b ∧ a.length = pos := by
  constructor
  · intro h
    by_cases hc : c ∈ s
    · obtain ⟨a, b, rfl, hb⟩ := exists_last_occ c s hc
      rw [rfind_eq_some c a b hb] at h
      exact ⟨a, b, rfl, hb, by simpa using h⟩
    · rw [rfind_eq_none c s hc] at h; simp at h
  · rintro ⟨a, b, rfl, hb, rfl⟩
    exact rfind_eq_some c a b hb

/-! ### the data alphabet -/

theorem charsetFind_charOf : ∀ d < 32, ∀ c, charOf? d = some c → charsetFind c = some d := by
  intro d hd c h
  have h32 : d = 0 ∨ d = 1 ∨ d = 2 ∨ d = 3 ∨ d = 4 ∨ d = 5 ∨ d = 6 ∨ d = 7 ∨ d = 8 ∨ d = 9 ∨ d = 10 ∨
      d = 11 ∨ d = 12 ∨ d = 13 ∨ d = 14 ∨ d = 15 ∨ d = 16 ∨ d = 17 ∨ d = 18 ∨ d = 19 ∨ d = 20 ∨ d = 21 ∨
      d = 22 ∨ d = 23 ∨ d = 24 ∨ d = 25 ∨ d = 26 ∨ d = 27 ∨ d = 28 ∨ d = 29 ∨ d = 30 ∨ d = 31 := by omega
  rcases h32 with rfl | rfl | rfl | rfl | rfl | rfl | rfl | rfl | rfl | rfl | rfl | rfl | rfl | rfl | rfl | rfl |
    rfl | rfl | rfl | rfl | rfl | rfl | rfl | rfl | rfl | rfl | rfl | rfl | rfl | rfl | rfl | rfl <;>
  · have hc : c = _ := (Option.some.inj h).symm
    subst hc
    decide

theorem charOf_lt (d : Nat) (c : Char) (h : charOf? d = some c) : d < 32 := by
  unfold charOf? at h
  have := (List.getElem?_eq_some_iff.1 h).1
  simpa [Spec.Bech32.charset] using this

theorem charsetFind_iff (c : Char) (d : Nat) : charsetFind c = some d ↔ charOf? d = some c := by
  constructor
  · intro h
    unfold charsetFind at h
    simp only [] at h
    split at h
    · rename_i hlt
      simp only [Option.some.injEq] at h
      subst h
      unfold charOf?
      change charset[List.idxOf c charset]? = some c
      rw [List.getElem?_eq_getElem hlt]
      congr 1
      exact List.getElem_idxOf hlt
    · simp at h
  · intro h
    exact charsetFind_charOf d (charOf_lt d c h) c h

theorem mapM_charsetFind_iff (cs : List Char) (ds : List Nat) :
    cs.mapM charsetFind = some ds ↔ dataChars? ds = some cs :=
  mapM_swap charsetFind charOf? charsetFind_iff cs ds

/-- facts about a character of the data alphabet: printable, lower case (or a digit), not the separator -/
theorem charOf_facts : ∀ d < 32, ∀ c, charOf? d = some c →
    33 ≤ c.toNat ∧ c.toNat ≤ 126 ∧ c.isUpper = false ∧ c ≠ '1' := by
  intro d hd c h
  have h32 : d = 0 ∨ d = 1 ∨ d = 2 ∨ d = 3 ∨ d = 4 ∨ d = 5 ∨ d = 6 ∨ d = 7 ∨ d = 8 ∨ d = 9 ∨ d = 10 ∨
      d = 11 ∨ d = 12 ∨ d = 13 ∨ d = 14 ∨ d = 15 ∨ d = 16 ∨ d = 17 ∨ d = 18 ∨ d = 19 ∨ d = 20 ∨ d = 21 ∨
      d = 22 ∨ d = 23 ∨ d = 24 ∨ d = 25 ∨ d = 26 ∨ d = 27 ∨ d = 28 ∨ d = 29 ∨ d = 30 ∨ d = 31 := by omega
  rcases h32 with rfl | rfl | rfl | rfl | rfl | rfl | rfl | rfl | rfl | rfl | rfl | rfl | rfl | rfl | rfl | rfl |
    rfl | rfl | rfl | rfl | rfl | rfl | rfl | rfl | rfl | rfl | rfl | rfl | rfl | rfl | rfl | rfl <;>
  · have hc : c = _ := (Option.some.inj h).symm
    subst hc
    decide

theorem dataChars_facts (ds : List Nat) (cs : List Char) (h : dataChars? ds = some cs) :
    cs.length = ds.length ∧ (∀ d ∈ ds, d < 32) ∧
    ∀ c ∈ cs, 33 ≤ c.toNat ∧ c.toNat ≤ 126 ∧ c.isUpper = false ∧ c ≠ '1' := by
  refine ⟨mapM_length _ _ _ h, ?_, ?_⟩
  · intro d hd
    obtain ⟨c, _, hc⟩ := mapM_mem' _ _ _ h d hd
    exact charOf_lt d c hc
  · intro c hc
    obtain ⟨d, _, hd⟩ := mapM_mem _ _ _ h c hc
    exact charOf_facts d (charOf_lt d c hd) c hd

/-! ### the first test of `bech32_decode` -/

theorem map_eq_self_iff {α} (f : α → α) (s : List α) : s.map f = s ↔ ∀ c ∈ s, f c = c := by
  induction s with
  | nil => simp
  | cons x s ih => simp [ih]

theorem lower_ne_iff (s : List Char) : (lower s != s) = true ↔ ∃ c ∈ s, c.isUpper = true := by
  rw [bne_iff_ne, ne_eq, lower, map_eq_self_iff]
  simp only [toLower_eq_self_iff, not_forall, Bool.not_eq_false]
  constructor
  · rintro ⟨c, hc, h⟩; exact ⟨c, hc, h⟩
  · rintro ⟨c, hc, h⟩; exact ⟨c, hc, h⟩

theorem upper_ne_iff (s : List Char) : (upper s != s) = true ↔ ∃ c ∈ s, c.isLower = true := by
  rw [bne_iff_ne, ne_eq, upper, map_eq_self_iff]
  simp only [toUpper_eq_self_iff, not_forall, Bool.not_eq_false]
  constructor
  · rintro ⟨c, hc, h⟩; exact ⟨c, hc, h⟩
  · rintro ⟨c, hc, h⟩; exact ⟨c, hc, h⟩

/-- the guard `any(ord(x) < 33 or ord(x) > 126 …) or (bech.lower() != bech and bech.upper() != bech)` -/
theorem guard_false_iff (s : List Char) :
    (s.any (fun x => decide (x.toNat < 33) || decide (x.toNat > 126)) || (lower s != s && upper s != s)) = false ↔
      (∀ c ∈ s, 33 ≤ c.toNat ∧ c.toNat ≤ 126) ∧
      ¬ ((∃ c ∈ s, c.isLower = true) ∧ (∃ c ∈ s, c.isUpper = true)) := by
  rw [Bool.or_eq_false_iff]
  apply and_congr
  · rw [← Bool.not_eq_true, List.any_eq_true]
    simp only [Bool.or_eq_true, decide_eq_true_eq, not_exists, not_and, not_or]
    constructor
    · intro h c hc; have := h c hc; omega
    · intro h c hc; have := h c hc; omega
  · rw [← Bool.not_eq_true, Bool.and_eq_true, lower_ne_iff, upper_ne_iff, and_comm]

/-! ### `bech32_decode` -/

theorem verifyChecksum_iff (hp : List Char) (data : List Nat) :
    verifyChecksum hp data = true ↔ polymod (hrpExpand hp ++ data) = 1 := by
  simp [verifyChecksum]

/-- `bech32_decode(s) = (hp, d)` exactly when `s` passes the character-range, single-case and length
    rules and its lowercase form is `hp ++ "1" ++ chars(d ++ ck)` for a six-value `ck` making the
    checksum valid; `hp` is not empty -/
theorem bech32Decode_iff (s hp : List Char) (d : List Nat) :
    bech32Decode s = some (hp, d) ↔
      (∀ c ∈ s, 33 ≤ c.toNat ∧ c.toNat ≤ 126) ∧
      ¬ ((∃ c ∈ s, c.isLower = true) ∧ (∃ c ∈ s, c.isUpper = true)) ∧
      s.length ≤ 90 ∧ hp ≠ [] ∧
      ∃ ck dchars, ck.length = 6 ∧ dataChars? (d ++ ck) = some dchars ∧
        lowerStr s = hp ++ '1' :: dchars ∧ polymod (hrpExpand hp ++ (d ++ ck)) = 1 := by
  have hlen : (lower s).length = s.length := by simp [lower]
  have hlow : lower s = lowerStr s := rfl
  constructor
  · intro h
    unfold bech32Decode at h
    split at h
    · simp at h
    · rename_i hg
      have hg' := (guard_false_iff s).1 (by simpa using hg)
      simp only [] at h
      split at h
      · simp at h
      · rename_i pos hpos
        obtain ⟨a, b, hab, hb, hapos⟩ := (rfind_some_iff _ _ _).1 hpos
        split at h
        · simp at h
        · rename_i hc
          simp only [Bool.or_eq_true, decide_eq_true_eq, not_or, Nat.not_lt] at hc
          split at h
          · simp at h
          · rename_i data hdata
            split at h
            · simp at h
            · rename_i hv
              simp only [Bool.not_eq_true', Bool.not_eq_false] at hv
              simp only [Option.some.injEq, Prod.mk.injEq] at h
              obtain ⟨h1, h2⟩ := h
              have htake : (lower s).take pos = a := by rw [hab, ← hapos]; simp
              have hdrop : (lower s).drop (pos + 1) = b := by
                rw [hab, ← hapos]; simp
              rw [hdrop] at hdata
              rw [htake] at h1 hv
              subst h1
              have hdl : data.length = b.length := mapM_length _ _ _ hdata
              have hsl : s.length = a.length + 1 + b.length := by
                rw [← hlen, hab]; simp; omega
              refine ⟨hg'.1, hg'.2, by omega, ?_, data.drop (data.length - 6), b, ?_, ?_, ?_, ?_⟩
              · intro ha; subst ha; simp at hapos; omega
              · simp; omega
              · rw [← h2, List.take_append_drop]; exact (mapM_charsetFind_iff _ _).1 hdata
              · rw [← hlow, hab]
              · rw [← h2, List.take_append_drop]; exact (verifyChecksum_iff _ _).1 hv
  · rintro ⟨hr, hcase, hl, hne, ck, dchars, hck, hdc, hs, hpm⟩
    have hfacts := dataChars_facts _ _ hdc
    have h1 : '1' ∉ dchars := fun hm => (hfacts.2.2 _ hm).2.2.2 rfl
    unfold bech32Decode
    have hg := (guard_false_iff s).2 ⟨hr, hcase⟩
    rw [if_neg (by simpa using hg)]
    simp only []
    rw [hlow, hs, rfind_eq_some '1' hp dchars h1]
    simp only []
    have hdl : dchars.length = d.length + 6 := by rw [hfacts.1]; simp [hck]
    have hsl : s.length = hp.length + 1 + dchars.length := by
      rw [← hlen, hlow, hs]; simp; omega
    have hpos : 0 < hp.length := List.length_pos_iff.2 hne
    have hcond : ¬ ((decide (hp.length < 1) || decide (hp.length + 7 > (hp ++ '1' :: dchars).length)
        || decide ((hp ++ '1' :: dchars).length > 90)) = true) := by
      simp only [Bool.or_eq_true, decide_eq_true_eq, not_or, Nat.not_lt, List.length_append,
        List.length_cons]
      omega
    rw [if_neg hcond]
    have hdrop : (hp ++ '1' :: dchars).drop (hp.length + 1) = dchars := by simp
    have htake : (hp ++ '1' :: dchars).take hp.length = hp := by simp
    rw [hdrop, (mapM_charsetFind_iff _ _).2 hdc]
    simp only [htake]
    have hv : verifyChecksum hp (d ++ ck) = true := (verifyChecksum_iff _ _).2 hpm
    rw [hv]
    simp [hck]

end BtcVerif.Bech32
