/-
  C18 — helper lemmas for Props/C18.lean.

  Part 1 duplicates, locally, the generic codec lemmas a colleague proves in Proofs/Codec.lean
  (round trip with an arbitrary rest for `ser_read`, fixed-width ints, CompactSize, var-bytes,
  count-prefixed vectors; serialiser = Spec bytes under the field ranges).  Marked DUP below.
-/
import BtcVerif.Model.Messages
import BtcVerif.Proofs.CryptoLen
import BtcVerif.Spec.Chain
import Mathlib.Tactic.IntervalCases
import Mathlib.Tactic.NormNum

namespace BtcVerif
open Model.Wire Spec.Wire

/-! ### the `Res` monad -/

@[simp] theorem Res.ok_bind {α β} (x : α) (f : α → Res β) : (Except.ok x >>= f) = f x := rfl
@[simp] theorem Res.error_bind {α β} (e : Exc) (f : α → Res β) :
    ((Except.error e : Res α) >>= f) = .error e := rfl
@[simp] theorem Res.pure_eq {α} (x : α) : (pure x : Res α) = .ok x := rfl
@[simp] theorem Res.map_ok {α β} (f : α → β) (x : α) : (f <$> (Except.ok x : Res α)) = .ok (f x) := rfl
@[simp] theorem Res.emap_ok {α β} (f : α → β) (x : α) : Except.map f (Except.ok x : Res α) = .ok (f x) := rfl
@[simp] theorem Res.throw_eq {α} (e : Exc) : (throw e : Res α) = .error e := rfl

/-! ### DUP (Proofs/Codec.lean): primitive parsers on `enc ++ rest` -/

theorem serRead_append' (n : Nat) (a rest : Bytes) (hn : a.length = n) (h : n ≤ MAX_SIZE) :
    serRead n (a ++ rest) = .ok (a, rest) := by
  subst hn
  unfold serRead
  have h1 : ¬ a.length > MAX_SIZE := by omega
  simp [h1]

theorem readU_append (w n : Nat) (rest : Bytes) (hw : w ≤ MAX_SIZE) (hn : n < 256 ^ w) :
    readU w (leBytes w n ++ rest) = .ok (n, rest) := by
  unfold readU
  rw [serRead_append' w (leBytes w n) rest (leBytes_length w n) hw]
  simp [leNat_leBytes, Nat.mod_eq_of_lt hn]

@[simp] theorem leBytesInt_length (w : Nat) (i : Int) : (leBytesInt w i).length = w := by
  simp [leBytesInt]

theorem leInt_leBytesInt4 (i : Int) (h1 : -(2 ^ 31 : Int) ≤ i) (h2 : i < 2 ^ 31) :
    leInt (leBytesInt 4 i) = i := by
  unfold leInt leBytesInt
  simp only [leBytes_length, leNat_leBytes]
  have hp : (256 ^ 4 : Nat) = 4294967296 := by norm_num
  rw [hp]
  omega

theorem leInt_leBytesInt8 (i : Int) (h1 : -(2 ^ 63 : Int) ≤ i) (h2 : i < 2 ^ 63) :
    leInt (leBytesInt 8 i) = i := by
  unfold leInt leBytesInt
  simp only [leBytes_length, leNat_leBytes]
  have hp : (256 ^ 8 : Nat) = 18446744073709551616 := by norm_num
  rw [hp]
  omega

theorem readI4_append (i : Int) (rest : Bytes) (h1 : -(2 ^ 31 : Int) ≤ i) (h2 : i < 2 ^ 31) :
    readI 4 (leBytesInt 4 i ++ rest) = .ok (i, rest) := by
  unfold readI
  rw [serRead_append' 4 _ rest (leBytesInt_length 4 i) (by decide)]
  simp [leInt_leBytesInt4 i h1 h2]

theorem readI8_append (i : Int) (rest : Bytes) (h1 : -(2 ^ 63 : Int) ≤ i) (h2 : i < 2 ^ 63) :
    readI 8 (leBytesInt 8 i ++ rest) = .ok (i, rest) := by
  unfold readI
  rw [serRead_append' 8 _ rest (leBytesInt_length 8 i) (by decide)]
  simp [leInt_leBytesInt8 i h1 h2]

theorem deVarInt_append (n : Nat) (rest : Bytes) (h : n < 2 ^ 64) :
    deVarInt (compactSize n ++ rest) = .ok (n, rest) := by
  unfold deVarInt compactSize
  by_cases h1 : n < 0xfd
  · rw [if_pos h1, serRead_append' 1 [UInt8.ofNat n] rest rfl (by decide)]
    have : (UInt8.ofNat n).toNat = n := by
      simp [UInt8.toNat_ofNat']; omega
    simp [leNat, this, h1]
  · rw [if_neg h1]
    by_cases h2 : n ≤ 0xffff
    · rw [if_pos h2]
      show (do let (b, r) ← serRead 1 ([0xfd] ++ (leBytes 2 n ++ rest)); _) = _
      rw [serRead_append' 1 [0xfd] _ rfl (by decide)]
      simp [leNat]
      exact readU_append 2 n rest (by decide) (by norm_num; omega)
    · rw [if_neg h2]
      by_cases h3 : n ≤ 0xffffffff
      · rw [if_pos h3]
        show (do let (b, r) ← serRead 1 ([0xfe] ++ (leBytes 4 n ++ rest)); _) = _
        rw [serRead_append' 1 [0xfe] _ rfl (by decide)]
        simp [leNat]
        exact readU_append 4 n rest (by decide) (by norm_num; omega)
      · rw [if_neg h3]
        show (do let (b, r) ← serRead 1 ([0xff] ++ (leBytes 8 n ++ rest)); _) = _
        rw [serRead_append' 1 [0xff] _ rfl (by decide)]
        simp [leNat]
        exact readU_append 8 n rest (by decide) (by norm_num; omega)

theorem maxSize_lt : maxSize < 2 ^ 64 := by decide
theorem MAX_SIZE_eq : MAX_SIZE = maxSize := rfl

theorem deBytes_append (b rest : Bytes) (h : b.length ≤ maxSize) :
    deBytes (varBytes b ++ rest) = .ok (b, rest) := by
  unfold deBytes varBytes
  have := maxSize_lt
  rw [List.append_assoc, deVarInt_append _ _ (by omega)]
  simp [serRead_append' b.length b rest rfl h]

theorem deRepeat_append {α} (p : Parser α) (enc : α → Bytes) (xs : List α) (rest : Bytes)
    (h : ∀ x ∈ xs, ∀ r, p (enc x ++ r) = .ok (x, r)) :
    deRepeat p xs.length ((xs.map enc).flatten ++ rest) = .ok (xs, rest) := by
  induction xs with
  | nil => simp [deRepeat]
  | cons x xs ih =>
    simp only [List.length_cons, List.map_cons, List.flatten_cons, List.append_assoc, deRepeat]
    rw [h x (by simp)]
    simp only [Res.ok_bind]
    rw [ih (fun y hy => h y (by simp [hy]))]
    simp

theorem deVector_append {α} (p : Parser α) (enc : α → Bytes) (xs : List α) (rest : Bytes)
    (hl : xs.length < 2 ^ 64) (h : ∀ x ∈ xs, ∀ r, p (enc x ++ r) = .ok (x, r)) :
    deVector p (vec enc xs ++ rest) = .ok (xs, rest) := by
  unfold deVector vec
  rw [List.append_assoc, deVarInt_append _ _ hl]
  simp only [Res.ok_bind]
  exact deRepeat_append p enc xs rest h

/-! ### DUP (Proofs/Codec.lean): serialisers produce the Spec bytes -/

theorem packU_ok (w n : Nat) (h : n < 256 ^ w) : packU w n = .ok (leBytes w n) := by
  simp [packU, h]

theorem packI4_ok (i : Int) (h1 : -(2 ^ 31 : Int) ≤ i) (h2 : i < 2 ^ 31) :
    packI 4 i = .ok (leBytesInt 4 i) := by
  unfold packI
  have : -(2 ^ (8 * 4 - 1) : Int) ≤ i ∧ i < (2 ^ (8 * 4 - 1) : Int) := by
    constructor <;> norm_num <;> omega
  rw [if_pos this]

theorem packI8_ok (i : Int) (h1 : -(2 ^ 63 : Int) ≤ i) (h2 : i < 2 ^ 63) :
    packI 8 i = .ok (leBytesInt 8 i) := by
  unfold packI
  have : -(2 ^ (8 * 8 - 1) : Int) ≤ i ∧ i < (2 ^ (8 * 8 - 1) : Int) := by
    constructor <;> norm_num <;> omega
  rw [if_pos this]

theorem serVarInt_ok (n : Nat) (h : n < 2 ^ 64) : serVarInt n = .ok (compactSize n) := by
  unfold serVarInt compactSize
  by_cases h1 : n < 0xfd
  · simp [h1]
  · by_cases h2 : n ≤ 0xffff
    · simp [h1, h2, packU_ok 2 n (by norm_num; omega)]
    · by_cases h3 : n ≤ 0xffffffff
      · simp [h1, h2, h3, packU_ok 4 n (by norm_num; omega)]
      · simp [h1, h2, h3, packU_ok 8 n (by norm_num; omega)]

theorem serBytes_ok (b : Bytes) (h : b.length < 2 ^ 64) : serBytes b = .ok (varBytes b) := by
  simp [serBytes, varBytes, serVarInt_ok _ h]

theorem mapM_ok {α} (ser : α → Res Bytes) (enc : α → Bytes) (xs : List α)
    (h : ∀ x ∈ xs, ser x = .ok (enc x)) : xs.mapM ser = .ok (xs.map enc) := by
  induction xs with
  | nil => rfl
  | cons x xs ih =>
    rw [List.mapM_cons, h x (by simp), ih (fun y hy => h y (by simp [hy]))]
    rfl

theorem serVector_ok {α} (ser : α → Res Bytes) (enc : α → Bytes) (xs : List α)
    (hl : xs.length < 2 ^ 64) (h : ∀ x ∈ xs, ser x = .ok (enc x)) :
    serVector ser xs = .ok (vec enc xs) := by
  simp [serVector, vec, serVarInt_ok _ hl, mapM_ok ser enc xs h]

end BtcVerif

/-! ## C18 proper -/

namespace BtcVerif
open Model.Wire Spec.Wire Model.Msg Spec.Msg

/-- applying SHA-256 twice (as the Python does, through two `hashlib` objects) is SHA-256d -/
theorem sha256_sha256 (p : Bytes) : Crypto.sha256 (Crypto.sha256 p) = Crypto.hash256 p := by
  simp [Crypto.sha256, Crypto.hash256]

/-- the model's `h[:4]` of two chained SHA-256 calls is the Spec's checksum -/
theorem checksum_eq (p : Bytes) : Model.Msg.checksum p = Spec.Msg.checksum p := by
  simp [Model.Msg.checksum, Spec.Msg.checksum, sha256_sha256]

/-- SHA-256d digests have 32 bytes (Proofs/CryptoLen.lean), so the checksum field has 4 -/
theorem checksumLen : ChecksumLen := by
  intro p
  simp [Spec.Msg.checksum, Crypto.hash256_length]

/-- the model's own command constants are the Spec's -/
theorem command_eq (m : Msg) : Model.Msg.command m = Spec.Msg.command m := by
  cases m <;> (simp only [Model.Msg.command, Spec.Msg.command]; decide)

/-! ### frame level -/

theorem readPos_append (n : Nat) (a rest : Bytes) (hn : a.length = n) (h : n ≤ MAX_SIZE) :
    readPos n (a ++ rest) = (.ok a, rest) := by
  subst hn
  unfold readPos
  have h1 : ¬ a.length > MAX_SIZE := by omega
  simp [h1]

theorem takeWhile_commandField (c : Bytes) (hz : ∀ b ∈ c, b ≠ 0) (k : Nat) :
    (c ++ List.replicate k (0 : UInt8)).takeWhile (· ≠ 0) = c := by
  induction c with
  | nil => cases k <;> simp [List.replicate]
  | cons b c ih =>
    have hb : b ≠ 0 := hz b (by simp)
    have ih' := ih (fun x hx => hz x (by simp [hx]))
    rw [List.cons_append, List.takeWhile_cons, decide_eq_true hb]
    simp only [if_true]
    rw [ih']

/-- for a name of at most 12 bytes, "name then NULs up to 12" is what the Python builds:
    `command + b"\x00" * (12 - len(command))` -/
theorem commandField_eq (c : Bytes) (h : c.length ≤ 12) :
    commandField c = c ++ List.replicate (12 - c.length) 0 := by
  unfold commandField
  rw [List.take_append, List.take_of_length_le h, List.take_replicate]
  congr 2
  omega

theorem commandField_length (c : Bytes) (h : c.length ≤ 12) : (commandField c).length = 12 := by
  simp [commandField_eq c h]; omega

/-- the 24 header bytes split back into their four fields -/
theorem header_fields (a b c d : Bytes) (ha : a.length = 4) (hb : b.length = 12) (hc : c.length = 4)
    (hd : d.length = 4) :
    (a ++ b ++ c ++ d).take 4 = a ∧ ((a ++ b ++ c ++ d).drop 4).take 12 = b ∧
    ((a ++ b ++ c ++ d).drop 16).take 4 = c ∧ ((a ++ b ++ c ++ d).drop 20).take 4 = d := by
  refine ⟨?_, ?_, ?_, ?_⟩
  · simp only [List.append_assoc]; exact List.take_left' ha
  · simp only [List.append_assoc]; rw [List.drop_left' ha]; exact List.take_left' hb
  · have : (a ++ b).length = 16 := by simp [ha, hb]
    rw [show a ++ b ++ c ++ d = (a ++ b) ++ (c ++ d) by simp, List.drop_left' this]
    exact List.take_left' hc
  · have : (a ++ b ++ c).length = 20 := by simp [ha, hb, hc]
    rw [List.drop_left' this]
    rw [← hd]; exact List.take_length

/-- outcome of the dispatch on the command once header and checksum are accepted -/
def dispatch (pv : Nat) (command msg rest : Bytes) : Res (Option Msg) × Bytes :=
  match msgDeser pv command with
  | some p =>
      (match p msg with
       | .ok (m, _) => (.ok (some m), rest)
       | .error e => (.error e, rest))
  | none => (.ok none, rest)

theorem streamDeserialize_short (magic : Bytes) (pv : Nat) (s : Bytes) (h : s.length < 24) :
    streamDeserialize magic pv s = (.error .trunc, []) := by
  unfold streamDeserialize readPos
  have : ¬ 24 > MAX_SIZE := by decide
  simp [this, h]

/-- `stream_deserialize` on a stream holding at least the 24 header bytes, as a decision list -/
theorem streamDeserialize_unfold (magic : Bytes) (pv : Nat) (s : Bytes) (h : 24 ≤ s.length) :
    streamDeserialize magic pv s =
      if s.take 4 ≠ magic then (.error .valueerr, s.drop 24)
      else if declaredLen s > MAX_SIZE then (.error .sererr, s.drop 24)
      else if s.length - 24 < declaredLen s then (.error .trunc, [])
      else if (s.drop 20).take 4 ≠ Model.Msg.checksum ((s.drop 24).take (declaredLen s)) then
        (.error .valueerr, s.drop (24 + declaredLen s))
      else dispatch pv (((s.drop 4).take 12).takeWhile (· ≠ 0)) ((s.drop 24).take (declaredLen s))
        (s.drop (24 + declaredLen s)) := by
  unfold streamDeserialize
  have h0 : ¬ 24 > MAX_SIZE := by decide
  have h1 : ¬ s.length < 24 := by omega
  have hr : readPos 24 s = (.ok (s.take 24), s.drop 24) := by simp [readPos, h0, h1]
  rw [hr]
  have t1 : (s.take 24).take 4 = s.take 4 := by simp [List.take_take]
  have t2 : ((s.take 24).drop 4).take 12 = (s.drop 4).take 12 := by
    simp [List.drop_take, List.take_take]
  have t3 : ((s.take 24).drop 16).take 4 = (s.drop 16).take 4 := by
    simp [List.drop_take, List.take_take]
  have t4 : ((s.take 24).drop 20).take 4 = (s.drop 20).take 4 := by
    simp [List.drop_take, List.take_take]
  simp only [t1, t2, t3, t4]
  by_cases hm : s.take 4 ≠ magic
  · simp [hm]
  · simp only [hm, if_false]
    unfold declaredLen
    generalize leNat ((s.drop 16).take 4) = n
    unfold readPos
    by_cases hn : n > MAX_SIZE
    · simp [hn]
    · simp only [hn, if_false, List.length_drop]
      by_cases ht : s.length - 24 < n
      · simp [ht]
      · simp only [ht, if_false, List.drop_drop]
        by_cases hc : (s.drop 20).take 4 ≠ Model.Msg.checksum ((s.drop 24).take n)
        · simp [hc]
        · simp only [hc, if_false]
          rfl

/-- header fields of `hdr ++ body` where `hdr` is a 24-byte header built from its four fields -/
theorem stream_fields (a b c d body : Bytes) (ha : a.length = 4) (hb : b.length = 12)
    (hc : c.length = 4) (hd : d.length = 4) :
    let s := a ++ b ++ c ++ d ++ body
    24 ≤ s.length ∧ s.take 4 = a ∧ (s.drop 4).take 12 = b ∧ declaredLen s = leNat c ∧
    (s.drop 20).take 4 = d ∧ s.drop 24 = body := by
  intro s
  have hl : (a ++ b ++ c ++ d).length = 24 := by simp [ha, hb, hc, hd]
  obtain ⟨f1, f2, f3, f4⟩ := header_fields a b c d ha hb hc hd
  have e : ∀ k, k ≤ 24 → ∀ j, k + j ≤ 24 → (s.drop k).take j = ((a ++ b ++ c ++ d).drop k).take j := by
    intro k hk j hj
    show ((a ++ b ++ c ++ d ++ body).drop k).take j = _
    rw [List.drop_append_of_le_length (by omega), List.take_append_of_le_length (by simp; omega)]
  refine ⟨by simp [s, ha, hb, hc, hd]; omega, ?_, ?_, ?_, ?_, ?_⟩
  · have := e 0 (by omega) 4 (by omega)
    rw [List.drop_zero, List.drop_zero, f1] at this
    exact this
  · rw [e 4 (by omega) 12 (by omega), f2]
  · unfold declaredLen; rw [e 16 (by omega) 4 (by omega), f3]
  · rw [e 20 (by omega) 4 (by omega), f4]
  · exact List.drop_left' hl

/-- what `stream_deserialize` does on a well-formed header followed by its payload -/
theorem streamDeserialize_frame (hck : ChecksumLen) (magic : Bytes) (pv : Nat) (cmd payload rest : Bytes)
    (hm : magic.length = 4) (hc : cmd.length ≤ 12) (hz : ∀ b ∈ cmd, b ≠ 0)
    (hp : payload.length ≤ MAX_SIZE) :
    streamDeserialize magic pv (Spec.Msg.frame magic cmd payload ++ rest) = dispatch pv cmd payload rest := by
  have hk : (Spec.Msg.checksum payload).length = 4 := hck payload
  have hcf := commandField_length cmd hc
  have hp32 : payload.length < 256 ^ 4 := by
    have : MAX_SIZE < 256 ^ 4 := by decide
    omega
  obtain ⟨g0, g1, g2, g3, g4, g5⟩ := stream_fields magic (commandField cmd) (leBytes 4 payload.length)
    (Spec.Msg.checksum payload) (payload ++ rest) hm hcf (leBytes_length _ _) hk
  have hs : Spec.Msg.frame magic cmd payload ++ rest =
      magic ++ commandField cmd ++ leBytes 4 payload.length ++ Spec.Msg.checksum payload ++ (payload ++ rest) := by
    simp [Spec.Msg.frame]
  rw [hs, streamDeserialize_unfold _ _ _ g0, g1, g2, g3, g4, g5]
  rw [leNat_leBytes, Nat.mod_eq_of_lt hp32]
  have h1 : ¬ payload.length > MAX_SIZE := by omega
  have h2 : ¬ (magic ++ commandField cmd ++ leBytes 4 payload.length ++ Spec.Msg.checksum payload ++
      (payload ++ rest)).length - 24 < payload.length := by
    simp [hm, hcf, hk]; omega
  have h3 : (payload ++ rest).take payload.length = payload := List.take_left' rfl
  have h4 : (magic ++ commandField cmd ++ leBytes 4 payload.length ++ Spec.Msg.checksum payload ++
      (payload ++ rest)).drop (24 + payload.length) = rest := by
    rw [← List.drop_drop, g5, List.drop_left' rfl]
  simp only [ne_eq, not_true_eq_false, if_false, h1, h2, h3, h4, checksum_eq]
  rw [commandField_eq cmd hc, takeWhile_commandField cmd hz]

/-! ### payload structures -/

theorem beNat_beBytes2 (n : Nat) (h : n < 2 ^ 16) : beNat (beBytes 2 n) = n := by
  simp [beBytes, leBytes, beNat, UInt8.toNat_ofNat']
  omega

theorem caddr_eq : CADDR_TIME_VERSION = caddrTimeVersion := rfl

theorem serAddr_ok (wt : Bool) (a : NetAddr) (h : WFAddr a) :
    serAddr wt a = .ok (netAddr (!wt) a) := by
  obtain ⟨h1, h2, h3, h4, h5⟩ := h
  unfold serAddr netAddr packBE2
  rw [packU_ok 8 _ (by norm_num; omega), if_pos (show a.port < 256 ^ 2 by norm_num; omega), caddr_eq]
  cases wt
  · by_cases hp : a.protover ≥ caddrTimeVersion
    · simp [hp, packU_ok 4 _ (show a.nTime < 256 ^ 4 by norm_num; omega)]
    · simp [hp]
  · simp

/-- an address entry read under the protocol version it was written for -/
theorem deAddr_append (wt : Bool) (a : NetAddr) (rest : Bytes) (h : WFAddr a)
    (ht : wt = true → a.nTime = 0) :
    deAddr a.protover wt (netAddr (!wt) a ++ rest) = .ok (a, rest) := by
  obtain ⟨h1, h2, h3, h4, h5⟩ := h
  have tailOK : ∀ t : Nat, t = a.nTime →
      (do let (sv, r) ← readU 8 (leBytes 8 a.nServices ++ (a.ip ++ (beBytes 2 a.port ++ rest)))
          let (ip, r) ← serRead 16 r
          let (pb, r) ← serRead 2 r
          pure (({ protover := a.protover, nTime := t, nServices := sv, ip := ip, port := beNat pb } : NetAddr), r))
        = .ok (a, rest) := by
    intro t ht'
    rw [readU_append 8 _ _ (by decide) (by norm_num; omega)]
    simp only [Res.ok_bind]
    rw [serRead_append' 16 _ _ h4 (by decide)]
    simp only [Res.ok_bind]
    rw [serRead_append' 2 (beBytes 2 a.port) rest (by simp [beBytes]) (by decide)]
    simp only [Res.ok_bind, Res.pure_eq, beNat_beBytes2 _ h5, ht']
  unfold deAddr netAddr
  rw [caddr_eq]
  cases wt
  · by_cases hp : a.protover ≥ caddrTimeVersion
    · simp only [hp, Bool.not_false, Bool.and_true, decide_true, if_true, List.append_assoc, Bool.true_and]
      rw [readU_append 4 _ _ (by decide) (by norm_num; omega)]
      simp only [Res.ok_bind]
      exact tailOK _ rfl
    · have h0 : a.nTime = 0 := h2 (by omega)
      simp only [hp, Bool.not_false, Bool.and_true, decide_false, Bool.false_eq_true, if_false,
        List.nil_append, List.append_assoc, Res.pure_eq, Res.ok_bind, Bool.true_and]
      exact tailOK 0 h0.symm
  · have ht0 := ht rfl
    simp only [Bool.not_true, Bool.and_false, Bool.false_eq_true, if_false, List.nil_append,
      List.append_assoc, Res.pure_eq, Res.ok_bind, Bool.false_and]
    exact tailOK 0 ht0.symm

theorem serInv_ok (i : Inv) (h : WFInv i) : serInv i = .ok (invEntry i) := by
  obtain ⟨h1, h2, _⟩ := h
  simp [serInv, invEntry, packI4_ok _ h1 h2]

theorem deInv_append (i : Inv) (rest : Bytes) (h : WFInv i) :
    deInv (invEntry i ++ rest) = .ok (i, rest) := by
  obtain ⟨h1, h2, h3⟩ := h
  unfold deInv invEntry
  rw [List.append_assoc, readI4_append _ _ h1 h2]
  simp only [Res.ok_bind]
  rw [serRead_append' 32 _ _ h3 (by decide)]
  rfl

theorem serUint256Vector_ok (hs : List Bytes) (hl : hs.length < 2 ^ 64) (h : ∀ x ∈ hs, x.length = 32) :
    serUint256Vector hs = .ok (vec id hs) := by
  unfold serUint256Vector vec
  rw [serVarInt_ok _ hl, mapM_ok _ id hs (fun x hx => by simp [h x hx])]
  rfl

theorem deUint256Vector_append (hs : List Bytes) (rest : Bytes) (hl : hs.length < 2 ^ 64)
    (h : ∀ x ∈ hs, x.length = 32) :
    deUint256Vector (vec id hs ++ rest) = .ok (hs, rest) := by
  unfold deUint256Vector vec
  rw [List.append_assoc, deVarInt_append _ _ hl]
  simp only [Res.ok_bind]
  exact deRepeat_append (serRead 32) id hs rest
    (fun x hx r => serRead_append' 32 x r (h x hx) (by decide))

theorem serLocatorMsg_ok (l : Locator) (stop : Bytes) (h : WFLocator l) :
    serLocatorMsg l stop = .ok (locatorPayload l stop) := by
  obtain ⟨h1, h2, h3, h4⟩ := h
  simp [serLocatorMsg, serLocator, locatorPayload, packI4_ok _ h1 h2, serUint256Vector_ok _ h3 h4]

theorem deLocatorMsg_append (mk : Locator → Bytes → Msg) (l : Locator) (stop rest : Bytes)
    (h : WFLocator l) (hs : stop.length = 32) :
    deLocatorMsg mk (locatorPayload l stop ++ rest) = .ok (mk l stop, rest) := by
  obtain ⟨h1, h2, h3, h4⟩ := h
  unfold deLocatorMsg deLocator locatorPayload
  simp only [List.append_assoc]
  rw [readI4_append _ _ h1 h2]
  simp only [Res.ok_bind]
  rw [deUint256Vector_append _ _ h3 h4]
  simp only [Res.ok_bind, Res.pure_eq]
  rw [serRead_append' 32 _ _ hs (by decide)]
  rfl

/-- DUP (C01): header serialiser = Spec bytes -/
theorem serHeader_ok (h : Header) (hw : WFHeader h) : serHeader h = .ok (Spec.Wire.header h) := by
  obtain ⟨h1, h2, h3, h4, h5, h6, h7⟩ := hw
  simp [serHeader, Spec.Wire.header, packI4_ok _ h1 h2, h3, h4,
    packU_ok 4 _ (show h.nTime < 256 ^ 4 by norm_num; omega),
    packU_ok 4 _ (show h.nBits < 256 ^ 4 by norm_num; omega),
    packU_ok 4 _ (show h.nNonce < 256 ^ 4 by norm_num; omega)]

/-- DUP (C01): header round trip -/
theorem deHeader_append (h : Header) (rest : Bytes) (hw : WFHeader h) :
    deHeader (Spec.Wire.header h ++ rest) = .ok (h, rest) := by
  obtain ⟨h1, h2, h3, h4, h5, h6, h7⟩ := hw
  unfold deHeader Spec.Wire.header
  simp only [List.append_assoc]
  rw [readI4_append _ _ h1 h2]
  simp only [Res.ok_bind]
  rw [serRead_append' 32 _ _ h3 (by decide)]
  simp only [Res.ok_bind]
  rw [serRead_append' 32 _ _ h4 (by decide)]
  simp only [Res.ok_bind]
  rw [readU_append 4 _ _ (by decide) (by norm_num; omega)]
  simp only [Res.ok_bind]
  rw [readU_append 4 _ _ (by decide) (by norm_num; omega)]
  simp only [Res.ok_bind]
  rw [readU_append 4 _ _ (by decide) (by norm_num; omega)]
  rfl

theorem serHeaderEntry_ok (h : Header) (hw : WFHeader h) : serHeaderEntry h = .ok (headerEntry h) := by
  simp [serHeaderEntry, headerEntry, serHeader_ok h hw, serVarInt_ok 0 (by decide)]

theorem deHeaderEntry_append (h : Header) (rest : Bytes) (hw : WFHeader h) :
    deHeaderEntry (headerEntry h ++ rest) = .ok (h, rest) := by
  unfold deHeaderEntry headerEntry
  rw [List.append_assoc, deHeader_append _ _ hw]
  simp only [Res.ok_bind]
  rw [deVarInt_append 0 rest (by decide)]
  rfl

theorem optWF_iff {α} (P : α → Prop) (o : Option α) : optWF P o ↔ ∃ x, o = some x ∧ P x := by
  cases o <;> simp [optWF]

theorem serVersion_ok (v : VersionMsg) (h : WFVersion v) : serVersion v = .ok (versionPayload v) := by
  obtain ⟨h1, h2, h3, h4, h5, ⟨h6, _⟩, g106, g209, g70001⟩ := h
  have := maxSize_lt
  unfold serVersion versionPayload
  rw [packI4_ok _ h1 h2, packU_ok 8 _ (show v.nServices < 256 ^ 8 by norm_num; omega), packI8_ok _ h4 h5,
    serAddr_ok true _ h6]
  simp only [Res.ok_bind]
  by_cases c1 : v.nVersion ≥ 106
  · rw [if_pos c1] at g106
    obtain ⟨g7, g8, g9⟩ := g106
    obtain ⟨fr, hfr, hfw, _⟩ := (optWF_iff _ _).mp g7
    obtain ⟨n, hn, hn2⟩ := (optWF_iff _ _).mp g8
    obtain ⟨s, hs, hs2⟩ := (optWF_iff _ _).mp g9
    rw [hfr, hn, hs]
    by_cases c2 : v.nVersion ≥ 209
    · rw [if_pos c2] at g209
      obtain ⟨ht, hh, hh1, hh2⟩ := (optWF_iff _ _).mp g209
      rw [hh]
      by_cases c3 : v.nVersion ≥ 70001
      · rw [if_pos c3] at g70001
        simp [c1, c2, c3, optBytes, serAddr_ok true _ hfw, packU_ok 8 _ (show n < 256 ^ 8 by norm_num; omega),
          serVarStr, serBytes_ok s (by omega), packI4_ok _ hh1 hh2,
          packU_ok 1 _ (show v.fRelay < 256 ^ 1 by norm_num; omega)]
      · simp [c1, c2, c3, optBytes, serAddr_ok true _ hfw, packU_ok 8 _ (show n < 256 ^ 8 by norm_num; omega),
          serVarStr, serBytes_ok s (by omega), packI4_ok _ hh1 hh2]
    · have c3 : ¬ v.nVersion ≥ 70001 := by omega
      simp [c1, c2, c3, optBytes, serAddr_ok true _ hfw, packU_ok 8 _ (show n < 256 ^ 8 by norm_num; omega),
        serVarStr, serBytes_ok s (by omega)]
  · have c2 : ¬ v.nVersion ≥ 209 := by omega
    have c3 : ¬ v.nVersion ≥ 70001 := by omega
    simp [c1, c2, c3]

theorem optAll_some {α} (P : α → Prop) (o : Option α) (x : α) (h : optAll P o) (hx : o = some x) : P x := by
  subst hx; exact h

theorem deVersion_append (pv : Nat) (v : VersionMsg) (rest : Bytes) (h : WFVersion v)
    (hpv : AddrProto pv (.version v)) :
    deVersion pv (versionPayload v ++ rest) = .ok (.version v, rest) := by
  obtain ⟨h1, h2, h3, h4, h5, h6, g106, g209, g70001⟩ := h
  obtain ⟨hpTo, hpFrom⟩ := hpv
  subst hpTo
  unfold deVersion versionPayload
  simp only [List.append_assoc]
  rw [readI4_append _ _ h1 h2]
  simp only [Res.ok_bind]
  rw [readU_append 8 _ _ (by decide) (by norm_num; omega)]
  simp only [Res.ok_bind]
  rw [readI8_append _ _ h4 h5]
  simp only [Res.ok_bind]
  rw [show netAddr false v.addrTo = netAddr (!true) v.addrTo from rfl,
    deAddr_append true _ _ h6.1 (fun _ => h6.2)]
  simp only [Res.ok_bind]
  by_cases c1 : v.nVersion ≥ 106
  · rw [if_pos c1] at g106
    obtain ⟨g7, g8, g9⟩ := g106
    obtain ⟨fr, hfr, hfw, hft⟩ := (optWF_iff _ _).mp g7
    obtain ⟨n, hn, hn2⟩ := (optWF_iff _ _).mp g8
    obtain ⟨s, hs, hs2⟩ := (optWF_iff _ _).mp g9
    rw [hfr, hn, hs]
    simp only [c1, if_true, optBytes, List.append_assoc]
    have hpf : fr.protover = v.addrTo.protover := optAll_some _ _ fr hpFrom hfr
    rw [show netAddr false fr = netAddr (!true) fr from rfl, ← hpf, deAddr_append true _ _ hfw (fun _ => hft)]
    simp only [Res.ok_bind]
    rw [readU_append 8 _ _ (by decide) (by norm_num; omega)]
    simp only [Res.ok_bind]
    rw [deBytes_append _ _ hs2]
    simp only [Res.ok_bind]
    by_cases c2 : v.nVersion ≥ 209
    · rw [if_pos c2] at g209
      obtain ⟨ht, hh, hh1, hh2⟩ := (optWF_iff _ _).mp g209
      rw [hh]
      simp only [c2, if_true, optBytes, List.append_assoc]
      rw [readI4_append _ _ hh1 hh2]
      simp only [Res.ok_bind, Res.pure_eq]
      by_cases c3 : v.nVersion ≥ 70001
      · rw [if_pos c3] at g70001
        simp only [c3, if_true]
        rw [readU_append 1 _ _ (by decide) (by norm_num; omega)]
        simp only [Res.ok_bind]
        cases v; simp_all
      · rw [if_neg c3] at g70001
        simp only [c3, if_false, List.nil_append, Res.pure_eq, Res.ok_bind]
        cases v; simp_all
    · rw [if_neg c2] at g209
      have c3 : ¬ v.nVersion ≥ 70001 := by omega
      rw [if_neg c3] at g70001
      simp only [c2, c3, if_false, List.nil_append, List.append_nil, Res.pure_eq, Res.ok_bind]
      cases v; simp_all
  · rw [if_neg c1] at g106
    have c2 : ¬ v.nVersion ≥ 209 := by omega
    have c3 : ¬ v.nVersion ≥ 70001 := by omega
    rw [if_neg c2] at g209
    rw [if_neg c3] at g70001
    obtain ⟨g7, g8, g9⟩ := g106
    simp only [c1, c2, c3, if_false, List.nil_append, List.append_nil, Res.pure_eq, Res.ok_bind]
    cases v; simp_all

theorem deAlert_append (m s rest : Bytes) (hm : m.length ≤ maxSize) (hs : s.length ≤ maxSize) :
    deAlert (varBytes m ++ varBytes s ++ rest) = .ok (.alert m s, rest) := by
  unfold deAlert
  rw [List.append_assoc, deBytes_append _ _ hm]
  simp only [Res.ok_bind]
  rw [deBytes_append _ _ hs]
  rfl

theorem deReject_append (m c r rest : Bytes) (hm : m.length ≤ maxSize) (hc : c.length = 1)
    (hr : r.length ≤ maxSize) :
    deReject (varBytes m ++ c ++ varBytes r ++ rest) = .ok (.reject m c r, rest) := by
  unfold deReject
  simp only [List.append_assoc]
  rw [deBytes_append _ _ hm]
  simp only [Res.ok_bind]
  rw [serRead_append' 1 _ _ hc (by decide)]
  simp only [Res.ok_bind]
  rw [deBytes_append _ _ hr]
  rfl

theorem mapP_ok {α β} (f : α → β) (p : Parser α) (s : Bytes) (x : α) (r : Bytes)
    (h : p s = .ok (x, r)) : mapP f p s = .ok (f x, r) := by
  simp [mapP, h]

/-! ### DUP (C01): transactions and blocks -/

theorem deRepeat_append_map {α} (p : Parser α) (enc : α → Bytes) (g : α → α) (xs : List α) (rest : Bytes)
    (h : ∀ x ∈ xs, ∀ r, p (enc x ++ r) = .ok (g x, r)) :
    deRepeat p xs.length ((xs.map enc).flatten ++ rest) = .ok (xs.map g, rest) := by
  induction xs with
  | nil => simp [deRepeat]
  | cons x xs ih =>
    simp only [List.length_cons, List.map_cons, List.flatten_cons, List.append_assoc, deRepeat]
    rw [h x (by simp)]
    simp only [Res.ok_bind]
    rw [ih (fun y hy => h y (by simp [hy]))]
    simp

theorem deVector_append_map {α} (p : Parser α) (enc : α → Bytes) (g : α → α) (xs : List α) (rest : Bytes)
    (hl : xs.length < 2 ^ 64) (h : ∀ x ∈ xs, ∀ r, p (enc x ++ r) = .ok (g x, r)) :
    deVector p (vec enc xs ++ rest) = .ok (xs.map g, rest) := by
  unfold deVector vec
  rw [List.append_assoc, deVarInt_append _ _ hl]
  simp only [Res.ok_bind]
  exact deRepeat_append_map p enc g xs rest h

theorem serTxIn_ok (i : TxIn) (h : WFTxIn i) : serTxIn i = .ok (txIn i) := by
  obtain ⟨⟨h1, h2⟩, h3, h4⟩ := h
  have := maxSize_lt
  simp [serTxIn, txIn, serOutPoint, outPoint, h1, packU_ok 4 _ (show i.prevout.n < 256 ^ 4 by norm_num; omega),
    serBytes_ok _ (show i.scriptSig.length < 2 ^ 64 by omega),
    packU_ok 4 _ (show i.nSequence < 256 ^ 4 by norm_num; omega)]

theorem deTxIn_append (i : TxIn) (rest : Bytes) (h : WFTxIn i) :
    deTxIn (txIn i ++ rest) = .ok (i, rest) := by
  obtain ⟨⟨h1, h2⟩, h3, h4⟩ := h
  unfold deTxIn deOutPoint txIn outPoint
  simp only [List.append_assoc]
  rw [serRead_append' 32 _ _ h1 (by decide)]
  simp only [Res.ok_bind]
  rw [readU_append 4 _ _ (by decide) (by norm_num; omega)]
  simp only [Res.ok_bind, Res.pure_eq]
  rw [deBytes_append _ _ h3]
  simp only [Res.ok_bind]
  rw [readU_append 4 _ _ (by decide) (by norm_num; omega)]
  rfl

theorem serTxOut_ok (o : TxOut) (h : WFTxOut o) : serTxOut o = .ok (txOut o) := by
  obtain ⟨h1, h2, h3⟩ := h
  have := maxSize_lt
  simp [serTxOut, txOut, packI8_ok _ h1 h2, serBytes_ok _ (show o.scriptPubKey.length < 2 ^ 64 by omega)]

theorem deTxOut_append (o : TxOut) (rest : Bytes) (h : WFTxOut o) :
    deTxOut (txOut o ++ rest) = .ok (o, rest) := by
  obtain ⟨h1, h2, h3⟩ := h
  unfold deTxOut txOut
  simp only [List.append_assoc]
  rw [readI8_append _ _ h1 h2]
  simp only [Res.ok_bind]
  rw [deBytes_append _ _ h3]
  rfl

theorem serWitStack_ok (s : WitStack) (h : WFWitStack s) : serWitStack s = .ok (witStack s) := by
  obtain ⟨h1, h2⟩ := h
  have := maxSize_lt
  exact serVector_ok serBytes varBytes s h1 (fun b hb => serBytes_ok b (by have := h2 b hb; omega))

theorem deWitStack_append (s : WitStack) (rest : Bytes) (h : WFWitStack s) :
    deWitStack (witStack s ++ rest) = .ok (s, rest) := by
  obtain ⟨h1, h2⟩ := h
  exact deVector_append deBytes varBytes s rest h1 (fun b hb r => deBytes_append b r (h2 b hb))

theorem readU1_cons (b : UInt8) (tl : Bytes) : readU 1 (b :: tl) = .ok (b.toNat, tl) := by
  have := serRead_append' 1 [b] tl rfl (by decide)
  simp only [List.singleton_append] at this
  simp [readU, this, leNat]

/-- a non-empty input vector starts with a non-zero count byte and has a second byte -/
theorem vec_txIn_head (vin : List TxIn) (rest : Bytes) (h1 : 1 ≤ vin.length) (h2 : vin.length < 2 ^ 64)
    (hw : ∀ i ∈ vin, WFTxIn i) :
    ∃ b0 b1 tl, vec txIn vin ++ rest = b0 :: b1 :: tl ∧ b0.toNat ≠ 0 := by
  unfold vec compactSize
  by_cases c1 : vin.length < 0xfd
  · rw [if_pos c1]
    cases vin with
    | nil => simp at h1
    | cons i is =>
      obtain ⟨⟨hh, _⟩, _, _⟩ := hw i (by simp)
      have : ∃ x xs, i.prevout.hash = x :: xs := by
        cases hq : i.prevout.hash with
        | nil => rw [hq] at hh; simp at hh
        | cons x xs => exact ⟨x, xs, rfl⟩
      obtain ⟨x, xs, hx⟩ := this
      refine ⟨UInt8.ofNat (i :: is).length, x, ?_, ?_, ?_⟩
      · exact xs ++ leBytes 4 i.prevout.n ++ varBytes i.scriptSig ++ leBytes 4 i.nSequence ++
          (is.map txIn).flatten ++ rest
      · simp [txIn, outPoint, hx]
      · simp only [UInt8.toNat_ofNat']
        simp at c1 ⊢
        omega
  · rw [if_neg c1]
    by_cases c2 : vin.length ≤ 0xffff
    · rw [if_pos c2]
      exact ⟨0xfd, UInt8.ofNat (vin.length % 256), leBytes 1 (vin.length / 256) ++ ((vin.map txIn).flatten ++ rest),
        by simp [leBytes], by decide⟩
    · rw [if_neg c2]
      by_cases c3 : vin.length ≤ 0xffffffff
      · rw [if_pos c3]
        exact ⟨0xfe, UInt8.ofNat (vin.length % 256), leBytes 3 (vin.length / 256) ++ ((vin.map txIn).flatten ++ rest),
          by simp [leBytes], by decide⟩
      · rw [if_neg c3]
        exact ⟨0xff, UInt8.ofNat (vin.length % 256), leBytes 7 (vin.length / 256) ++ ((vin.map txIn).flatten ++ rest),
          by simp [leBytes], by decide⟩


theorem serWitness_ok (w : List WitStack) (h : ∀ s ∈ w, WFWitStack s) :
    serWitness w = .ok ((w.map witStack).flatten) := by
  simp [serWitness, mapM_ok serWitStack witStack w (fun s hs => serWitStack_ok s (h s hs))]

theorem hasWitness_iff (t : Tx) : t.hasWitness = !witIsNull t.wit := Tx.hasWitness_eq_not_witIsNull t

theorem serTx_ok (t : Tx) (h : WFTx t) : serTx t = .ok (txBytes t) := by
  obtain ⟨h1, h2, h3, h4, h5, h6, h7, h8, h9, h10⟩ := h
  have hvin := serVector_ok serTxIn txIn t.vin h4 (fun i hi => serTxIn_ok i (h6 i hi))
  have hvout := serVector_ok serTxOut txOut t.vout h5 (fun o ho => serTxOut_ok o (h7 o ho))
  unfold serTx txBytes
  rw [packI4_ok _ h1 h2, packU_ok 4 _ (show t.nLockTime < 256 ^ 4 by norm_num; omega)]
  by_cases hw : t.hasWitness = true
  · have hn : witIsNull t.wit = false := by
      rw [hasWitness_iff] at hw; simpa using hw
    have hlen : ¬ t.wit.length > t.vin.length := by
      rcases h8 with h | h
      · rw [h]; simp
      · omega
    simp [hw, hn, hlen, hvin, hvout, serWitness_ok _ h9, txExtended]
  · have hn : witIsNull t.wit = true := by
      rw [hasWitness_iff] at hw; simpa using hw
    simp [hw, hn, hvin, hvout, txLegacy]

theorem deTx_append (t : Tx) (rest : Bytes) (h : WFTx t) :
    deTx (txBytes t ++ rest) = .ok (normTx t, rest) := by
  obtain ⟨h1, h2, h3, h4, h5, h6, h7, h8, h9, h10⟩ := h
  have hvin : ∀ r, deVector deTxIn (vec txIn t.vin ++ r) = .ok (t.vin, r) :=
    fun r => deVector_append deTxIn txIn t.vin r h4 (fun i hi r => deTxIn_append i r (h6 i hi))
  have hvout : ∀ r, deVector deTxOut (vec txOut t.vout ++ r) = .ok (t.vout, r) :=
    fun r => deVector_append deTxOut txOut t.vout r h5 (fun o ho r => deTxOut_append o r (h7 o ho))
  unfold deTx txBytes normTx
  by_cases hw : t.hasWitness = true
  · have hwl : t.wit.length = t.vin.length := by
      rcases h8 with h | h
      · simp [Tx.hasWitness, witIsNull, h] at hw
      · exact h
    simp only [hw, if_true, txExtended, List.append_assoc]
    rw [readI4_append _ _ h1 h2]
    simp only [Res.ok_bind, List.cons_append, List.nil_append, readU1_cons]
    simp only [show ((0 : UInt8).toNat = 0 ∧ (1 : UInt8).toNat = 1) from by decide]
    rw [hvin]
    simp only [Res.ok_bind]
    rw [hvout]
    simp only [Res.ok_bind]
    rw [← hwl, deRepeat_append deWitStack witStack t.wit _ (fun s hs r => deWitStack_append s r (h9 s hs))]
    simp only [Res.ok_bind]
    rw [readU_append 4 _ _ (by decide) (by norm_num; omega)]
    rfl
  · simp only [hw, if_false, txLegacy, List.append_assoc, Bool.false_eq_true]
    rw [readI4_append _ _ h1 h2]
    simp only [Res.ok_bind]
    obtain ⟨b0, b1, tl, hb, hb0⟩ := vec_txIn_head t.vin (vec txOut t.vout ++ (leBytes 4 t.nLockTime ++ rest)) h3 h4 h6
    have hm : ¬ (b0.toNat = 0 ∧ b1.toNat = 1) := by intro h; exact hb0 h.1
    rw [show readU 1 (vec txIn t.vin ++ (vec txOut t.vout ++ (leBytes 4 t.nLockTime ++ rest))) = .ok (b0.toNat, b1 :: tl)
      by rw [hb]; exact readU1_cons b0 (b1 :: tl)]
    simp only [Res.ok_bind, readU1_cons, hm, if_false]
    rw [hvin]
    simp only [Res.ok_bind]
    rw [hvout]
    simp only [Res.ok_bind]
    rw [readU_append 4 _ _ (by decide) (by norm_num; omega)]
    rfl

theorem serTx_normTx (t : Tx) : serTx (normTx t) = serTx t := by
  unfold normTx
  by_cases hw : t.hasWitness = true
  · simp [hw]
  · have hn : witIsNull t.wit = true := by
      rw [hasWitness_iff] at hw; simpa using hw
    have hn0 : witIsNull ([] : List WitStack) = true := rfl
    simp only [hw, Bool.false_eq_true, if_false]
    unfold serTx
    simp only [hn, hn0, Bool.not_true, Bool.and_false, Bool.false_eq_true, if_false]

theorem serBlock_ok (b : Block) (h : WFBlock b) : serBlock b = .ok (Spec.Wire.block b) := by
  obtain ⟨h1, h2, h3⟩ := h
  simp [serBlock, Spec.Wire.block, serHeader_ok _ h1,
    serVector_ok (serTx · true) txBytes b.vtx h2 (fun t ht => serTx_ok t (h3 t ht))]

theorem deBlock_append (b : Block) (rest : Bytes) (h : WFBlock b) :
    deBlock (Spec.Wire.block b ++ rest) = .ok ({ b with vtx := b.vtx.map normTx }, rest) := by
  obtain ⟨h1, h2, h3⟩ := h
  unfold deBlock Spec.Wire.block
  rw [List.append_assoc, deHeader_append _ _ h1]
  simp only [Res.ok_bind]
  rw [deVector_append_map deTx txBytes normTx b.vtx rest h2 (fun t ht r => deTx_append t r (h3 t ht))]
  rfl

/-! ### every message type: `msg_ser` gives the Spec payload, `msg_deser` inverts it -/

theorem msgSer_ok (m : Msg) (h : WFMsg m) : msgSer m = .ok (payload m) := by
  have hms := maxSize_lt
  cases m with
  | version v => exact serVersion_ok v h
  | verack => rfl
  | addr as => exact serVector_ok (serAddr false) (netAddr true) as h.1 (fun a ha => serAddr_ok false a (h.2 a ha))
  | alert m s =>
      obtain ⟨h1, h2⟩ := h
      simp [msgSer, payload, serVarStr, serBytes_ok m (by omega), serBytes_ok s (by omega)]
  | inv l => exact serVector_ok serInv invEntry l h.1 (fun i hi => serInv_ok i (h.2 i hi))
  | getdata l => exact serVector_ok serInv invEntry l h.1 (fun i hi => serInv_ok i (h.2 i hi))
  | notfound l => exact serVector_ok serInv invEntry l h.1 (fun i hi => serInv_ok i (h.2 i hi))
  | getblocks loc stop => exact serLocatorMsg_ok loc stop h.1
  | getheaders loc stop => exact serLocatorMsg_ok loc stop h.1
  | headers hs =>
      exact serVector_ok serHeaderEntry headerEntry hs h.1 (fun x hx => serHeaderEntry_ok x (h.2 x hx))
  | tx t => exact serTx_ok t h
  | block b => exact serBlock_ok b h
  | getaddr => rfl
  | ping n => exact packU_ok 8 n (by norm_num; exact h)
  | pong n => exact packU_ok 8 n (by norm_num; exact h)
  | reject m c r =>
      obtain ⟨h1, h2, h3⟩ := h
      simp [msgSer, serReject, payload, serVarStr, serBytes_ok m (by omega), serBytes_ok r (by omega), h2]
  | mempool => rfl

/-- the `messagemap` entry of each type parses the Spec payload back, whatever follows it -/
theorem payload_parse (pv : Nat) (m : Msg) (h : WFMsg m) (hpv : AddrProto pv m) :
    ∃ p, msgDeser pv (Spec.Msg.command m) = some p ∧ ∀ rest, p (payload m ++ rest) = .ok (norm m, rest) := by
  cases m with
  | version v => exact ⟨_, rfl, fun rest => deVersion_append pv v rest h hpv⟩
  | verack => exact ⟨_, rfl, fun rest => rfl⟩
  | addr as =>
      exact ⟨_, rfl, fun rest => mapP_ok _ _ _ _ _
        (deVector_append (deAddr pv false) (netAddr true) as rest h.1
          (fun a ha r => by
            have := deAddr_append false a r (h.2 a ha) (fun hh => by cases hh)
            rw [hpv a ha] at this
            exact this))⟩
  | alert m s => exact ⟨_, rfl, fun rest => deAlert_append m s rest h.1 h.2⟩
  | inv l =>
      exact ⟨_, rfl, fun rest => mapP_ok _ _ _ _ _
        (deVector_append deInv invEntry l rest h.1 (fun i hi r => deInv_append i r (h.2 i hi)))⟩
  | getdata l =>
      exact ⟨_, rfl, fun rest => mapP_ok _ _ _ _ _
        (deVector_append deInv invEntry l rest h.1 (fun i hi r => deInv_append i r (h.2 i hi)))⟩
  | notfound l =>
      exact ⟨_, rfl, fun rest => mapP_ok _ _ _ _ _
        (deVector_append deInv invEntry l rest h.1 (fun i hi r => deInv_append i r (h.2 i hi)))⟩
  | getblocks loc stop => exact ⟨_, rfl, fun rest => deLocatorMsg_append _ loc stop rest h.1 h.2⟩
  | getheaders loc stop => exact ⟨_, rfl, fun rest => deLocatorMsg_append _ loc stop rest h.1 h.2⟩
  | headers hs =>
      exact ⟨_, rfl, fun rest => mapP_ok _ _ _ _ _
        (deVector_append deHeaderEntry headerEntry hs rest h.1
          (fun x hx r => deHeaderEntry_append x r (h.2 x hx)))⟩
  | tx t => exact ⟨_, rfl, fun rest => mapP_ok _ _ _ _ _ (deTx_append t rest h)⟩
  | block b => exact ⟨_, rfl, fun rest => mapP_ok _ _ _ _ _ (deBlock_append b rest h)⟩
  | getaddr => exact ⟨_, rfl, fun rest => rfl⟩
  | ping n => exact ⟨_, rfl, fun rest => mapP_ok _ _ _ _ _ (readU_append 8 n rest (by decide) (by norm_num; exact h))⟩
  | pong n => exact ⟨_, rfl, fun rest => mapP_ok _ _ _ _ _ (readU_append 8 n rest (by decide) (by norm_num; exact h))⟩
  | reject m c r => exact ⟨_, rfl, fun rest => deReject_append m c r rest h.1 h.2.1 h.2.2⟩
  | mempool => exact ⟨_, rfl, fun rest => rfl⟩

theorem command_props (m : Msg) : (Spec.Msg.command m).length ≤ 12 ∧ ∀ b ∈ Spec.Msg.command m, b ≠ 0 := by
  cases m <;> (simp only [Spec.Msg.command]; decide)

theorem msgSer_norm (m : Msg) : msgSer (norm m) = msgSer m := by
  cases m with
  | tx t => exact serTx_normTx t
  | block b =>
      simp only [norm, msgSer, serBlock, serVector, List.length_map]
      have : (b.vtx.map normTx).mapM (fun x => serTx x true) = b.vtx.mapM (fun x => serTx x true) := by
        induction b.vtx with
        | nil => rfl
        | cons t ts ih => simp only [List.map_cons, List.mapM_cons, serTx_normTx, ih]
      rw [this]
  | _ => rfl

theorem command_norm (m : Msg) : Model.Msg.command (norm m) = Model.Msg.command m := by
  cases m <;> rfl

end BtcVerif

namespace BtcVerif
open Model.Msg
theorem dispatch_snd (pv : Nat) (c m r : Bytes) : (dispatch pv c m r).2 = r := by
  unfold dispatch
  cases msgDeser pv c with
  | none => rfl
  | some p =>
    simp only
    cases p m with
    | ok x => rfl
    | error e => rfl
end BtcVerif

namespace BtcVerif
open Model.Wire Model.Msg

/-- whatever `stream_deserialize` returns came from a frame that passes every header test, and
    exactly that frame was consumed -/
theorem streamDeserialize_ok_valid (magic : Bytes) (pv : Nat) (s : Bytes) (m : Option Msg) (r : Bytes)
    (h : streamDeserialize magic pv s = (.ok m, r)) :
    24 ≤ s.length ∧ s.take 4 = magic ∧ declaredLen s ≤ MAX_SIZE ∧ 24 + declaredLen s ≤ s.length ∧
    (s.drop 20).take 4 = Model.Msg.checksum ((s.drop 24).take (declaredLen s)) ∧
    r = s.drop (24 + declaredLen s) := by
  by_cases hs : s.length < 24
  · rw [streamDeserialize_short magic pv s hs] at h; simp at h
  · rw [streamDeserialize_unfold magic pv s (by omega)] at h
    by_cases c1 : s.take 4 ≠ magic
    · rw [if_pos c1] at h; simp at h
    · rw [if_neg c1] at h
      by_cases c2 : declaredLen s > MAX_SIZE
      · rw [if_pos c2] at h; simp at h
      · rw [if_neg c2] at h
        by_cases c3 : s.length - 24 < declaredLen s
        · rw [if_pos c3] at h; simp at h
        · rw [if_neg c3] at h
          by_cases c4 : (s.drop 20).take 4 ≠ Model.Msg.checksum ((s.drop 24).take (declaredLen s))
          · rw [if_pos c4] at h; simp at h
          · rw [if_neg c4] at h
            have hr : r = s.drop (24 + declaredLen s) := by
              have := congrArg Prod.snd h
              rw [dispatch_snd] at this
              exact this.symm
            exact ⟨by omega, by simpa using c1, by omega, by omega, by simpa using c4, hr⟩

theorem streamDeserialize_ok_shorter (magic : Bytes) (pv : Nat) (s : Bytes) (m : Option Msg) (r : Bytes)
    (h : streamDeserialize magic pv s = (.ok m, r)) : r.length < s.length := by
  obtain ⟨h1, _, _, h4, _, h6⟩ := streamDeserialize_ok_valid magic pv s m r h
  rw [h6, List.length_drop]
  omega

/-- enough fuel is enough: the loop's result does not depend on the fuel once it covers the stream -/
theorem parseAllAux_fuel (magic : Bytes) (pv : Nat) : ∀ (f1 f2 : Nat) (s : Bytes), s.length ≤ f1 → s.length ≤ f2 →
    parseAllAux magic pv f1 s = parseAllAux magic pv f2 s := by
  intro f1
  induction f1 with
  | zero =>
    intro f2 s h1 _
    have hs : s = [] := List.eq_nil_of_length_eq_zero (by omega)
    subst hs
    cases f2 <;> simp [parseAllAux]
  | succ f1 ih =>
    intro f2 s h1 h2
    cases f2 with
    | zero =>
      have hs : s = [] := List.eq_nil_of_length_eq_zero (by omega)
      subst hs
      simp [parseAllAux]
    | succ f2 =>
      simp only [parseAllAux]
      by_cases he : s.isEmpty = true
      · simp [he]
      · simp only [he, Bool.false_eq_true, if_false]
        cases hsd : streamDeserialize magic pv s with
        | mk out r =>
          cases out with
          | error e => rfl
          | ok m =>
            have := streamDeserialize_ok_shorter magic pv s m r hsd
            simp only
            rw [ih f2 r (by omega) (by omega)]

end BtcVerif

namespace BtcVerif
open Model.Wire Model.Msg

/-- `parseAll` is the projection of the position-recording loop the driver prints -/
theorem parseAllAux_eq_trace (magic : Bytes) (pv : Nat) : ∀ (fuel : Nat) (s : Bytes),
    parseAllAux magic pv fuel s =
      ((parseTraceAux magic pv fuel s).1.map Prod.fst, (parseTraceAux magic pv fuel s).2.map Prod.fst) := by
  intro fuel
  induction fuel with
  | zero => intro s; rfl
  | succ fuel ih =>
    intro s
    simp only [parseAllAux, parseTraceAux]
    by_cases he : s.isEmpty = true
    · simp [he]
    · simp only [he, Bool.false_eq_true, if_false]
      cases hsd : streamDeserialize magic pv s with
      | mk out r =>
        cases out with
        | error e => rfl
        | ok m =>
          simp only
          rw [ih r]
          simp

theorem frameAccepted_iff (magic s : Bytes) :
    frameAccepted magic s = true ↔
      (24 ≤ s.length ∧ s.take 4 = magic ∧ declaredLen s ≤ MAX_SIZE ∧ 24 + declaredLen s ≤ s.length ∧
       (s.drop 20).take 4 = Model.Msg.checksum ((s.drop 24).take (declaredLen s))) := by
  simp [frameAccepted, and_assoc]

/-- an accepted frame goes to the dispatch on its command; everything else is a frame-level error -/
theorem accepted_dispatch (magic : Bytes) (pv : Nat) (s : Bytes) (h : frameAccepted magic s = true) :
    streamDeserialize magic pv s =
      dispatch pv (((s.drop 4).take 12).takeWhile (· ≠ 0)) ((s.drop 24).take (declaredLen s))
        (s.drop (24 + declaredLen s)) := by
  obtain ⟨h1, h2, h3, h4, h5⟩ := (frameAccepted_iff magic s).mp h
  rw [streamDeserialize_unfold magic pv s h1]
  have c2 : ¬ declaredLen s > MAX_SIZE := by omega
  have c3 : ¬ s.length - 24 < declaredLen s := by omega
  simp [h2, c2, c3, h5]

theorem not_accepted_error (magic : Bytes) (pv : Nat) (s : Bytes) (h : frameAccepted magic s = false) :
    ∃ e r, streamDeserialize magic pv s = (.error e, r) ∧ (e = .trunc ∨ e = .valueerr ∨ e = .sererr) := by
  by_cases hs : s.length < 24
  · exact ⟨.trunc, [], streamDeserialize_short magic pv s hs, Or.inl rfl⟩
  · rw [streamDeserialize_unfold magic pv s (by omega)]
    by_cases c1 : s.take 4 ≠ magic
    · exact ⟨.valueerr, _, by rw [if_pos c1], Or.inr (Or.inl rfl)⟩
    · rw [if_neg c1]
      by_cases c2 : declaredLen s > MAX_SIZE
      · exact ⟨.sererr, _, by rw [if_pos c2], Or.inr (Or.inr rfl)⟩
      · rw [if_neg c2]
        by_cases c3 : s.length - 24 < declaredLen s
        · exact ⟨.trunc, _, by rw [if_pos c3], Or.inl rfl⟩
        · rw [if_neg c3]
          by_cases c4 : (s.drop 20).take 4 ≠ Model.Msg.checksum ((s.drop 24).take (declaredLen s))
          · exact ⟨.valueerr, _, by rw [if_pos c4], Or.inr (Or.inl rfl)⟩
          · exfalso
            have : frameAccepted magic s = true :=
              (frameAccepted_iff magic s).mpr ⟨by omega, by simpa using c1, by omega, by omega, by simpa using c4⟩
            rw [h] at this
            exact absurd this (by decide)

end BtcVerif

namespace BtcVerif
open Model.Wire Model.Msg

theorem parseTraceAux_fuel (magic : Bytes) (pv : Nat) : ∀ (f1 f2 : Nat) (s : Bytes), s.length ≤ f1 → s.length ≤ f2 →
    parseTraceAux magic pv f1 s = parseTraceAux magic pv f2 s := by
  intro f1
  induction f1 with
  | zero =>
    intro f2 s h1 _
    have hs : s = [] := List.eq_nil_of_length_eq_zero (by omega)
    subst hs
    cases f2 <;> simp [parseTraceAux]
  | succ f1 ih =>
    intro f2 s h1 h2
    cases f2 with
    | zero =>
      have hs : s = [] := List.eq_nil_of_length_eq_zero (by omega)
      subst hs
      simp [parseTraceAux]
    | succ f2 =>
      simp only [parseTraceAux]
      by_cases he : s.isEmpty = true
      · simp [he]
      · simp only [he, Bool.false_eq_true, if_false]
        cases hsd : streamDeserialize magic pv s with
        | mk out r =>
          cases out with
          | error e => rfl
          | ok m =>
            have := streamDeserialize_ok_shorter magic pv s m r hsd
            simp only
            rw [ih f2 r (by omega) (by omega)]

theorem streamTrace_norm (magic : Bytes) (m : Msg) (ms : List Msg) (tail : Bytes) :
    Spec.Msg.streamTrace magic (m :: ms) tail =
      (some (Spec.Msg.norm m), (ms.map (Spec.Msg.frameMsg magic)).flatten ++ tail) ::
        Spec.Msg.streamTrace magic ms tail := by
  cases m <;> rfl

end BtcVerif
