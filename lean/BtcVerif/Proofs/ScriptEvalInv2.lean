/-
  C07 — invariants of the interpreter model, continued: numeric arms, hashes, PICK / ROLL.
-/
import BtcVerif.Proofs.ScriptEvalInv

namespace BtcVerif.Model.ScriptEval
open BtcVerif BtcVerif.Spec BtcVerif.Spec.Script BtcVerif.Model.Script

/-- `_CastToBigNum` on an element below 2³² bytes: raises EvalScriptError for more than 4 bytes,
    otherwise returns a value below 2³² in magnitude -/
theorem castToBigNum_spec (s : Bytes) (st : St) (hs : s.length < 2 ^ 32) :
    (castToBigNum s st = .error (.eval st.cap)) ∨
    ∃ v : Int, castToBigNum s st = .ok v ∧ -(2 ^ 32) < v ∧ v < 2 ^ 32 := by
  obtain ⟨v, hv, h1, h2⟩ := vch2bn_spec s hs
  unfold castToBigNum
  simp only [hv, bind, Except.bind]
  by_cases hl : s.length > MAX_NUM_SIZE
  · left; simp [hl, raise]
  · right
    refine ⟨v, by simp [hl], ?_, ?_⟩
    · have : 256 ^ s.length ≤ 256 ^ 4 := Nat.pow_le_pow_right (by omega) (by simp [MAX_NUM_SIZE] at hl; omega)
      omega
    · have : 256 ^ s.length ≤ 256 ^ 4 := Nat.pow_le_pow_right (by omega) (by simp [MAX_NUM_SIZE] at hl; omega)
      omega

theorem unaryVal_spec {sop : Nat} (hm : sop ∈ unaryNumOps) (bn : Int) (h1 : -(2 ^ 32) < bn) (h2 : bn < 2 ^ 32) :
    ∃ r : Int, unaryVal sop bn = .ok r ∧ -(2 ^ 40) < r ∧ r < 2 ^ 40 := by
  simp only [unaryNumOps, List.mem_cons, List.mem_nil_iff, or_false] at hm
  rcases hm with rfl | rfl | rfl | rfl | rfl | rfl <;> simp [unaryVal] <;> (try split) <;> omega

theorem b2i_bounds (b : Bool) : -(2 ^ 40 : Int) < b2i b ∧ b2i b < 2 ^ 40 := by
  cases b <;> simp [b2i]

theorem binaryVal_spec {sop : Nat} (hm : sop ∈ binaryNumOps) (hne : sop ≠ 0x9d) (bn1 bn2 : Int)
    (h1 : -(2 ^ 32) < bn1) (h2 : bn1 < 2 ^ 32) (h3 : -(2 ^ 32) < bn2) (h4 : bn2 < 2 ^ 32) :
    ∃ r : Int, binaryVal sop bn1 bn2 = .ok r ∧ -(2 ^ 40) < r ∧ r < 2 ^ 40 := by
  simp only [binaryNumOps, List.mem_cons, List.mem_nil_iff, or_false] at hm
  rcases hm with rfl | rfl | rfl | rfl | rfl | rfl | rfl | rfl | rfl | rfl | rfl | rfl | rfl
  all_goals first
    | (exfalso; exact hne rfl)
    | (simp [binaryVal]; first
        | omega
        | exact b2i_bounds _
        | (split <;> omega)
        | (constructor <;> split <;> omega))

section arms
variable {c : Ctx} {B : Nat} {st : St} {sop : Nat}

theorem push_num_good (h : Pre B st) (hB : 520 ≤ B) (v : Int) (h1 : -(2 ^ 40) < v) (h2 : v < 2 ^ 40)
    (hsz : st.stack.length + st.alt.length ≤ 1002) :
    Good c B (do let b ← bn2vch v; .ok { st with stack := b :: st.stack }) := by
  obtain ⟨b, hb, hl⟩ := bn2vch_small v h1 h2
  obtain ⟨_, p2, p3, p4⟩ := h
  simp only [hb, bind, Except.bind, Good, Lim, ElemsLe, List.length_cons, List.mem_cons]
  refine ⟨⟨by omega, by omega, ?_, p4⟩, p2⟩
  rintro x (rfl | hx)
  · omega
  · exact p3 x hx

theorem opSmallInt_good (h : Pre B st) (hB : 520 ≤ B) (hs : sop ≤ 0x60) : Good c B (opSmallInt sop st) := by
  unfold opSmallInt
  exact push_num_good h hB _ (by omega) (by omega) (by have := h.1; omega)

theorem opDepth_good (h : Pre B st) (hB : 520 ≤ B) : Good c B (opDepth st) := by
  unfold opDepth
  have := h.1
  exact push_num_good h hB _ (by omega) (by omega) (by omega)

theorem opSize_good (h : Pre B st) (hn : Named sop) (hB : 520 ≤ B) (hB2 : B < 2 ^ 32) :
    Good c B (opSize sop st) := by
  unfold opSize
  obtain ⟨s, al, vf, pb, n⟩ := st
  rcases s with _ | ⟨a, rest⟩
  · arm_simp hn; lim_finish
  · have ha : a.length ≤ B := h.2.2.1 a (by simp)
    have := push_num_good (c := c) h hB (a.length : Int) (by omega) (by omega) (by have := h.1; simp at this ⊢; omega)
    obtain ⟨nm, hnm⟩ := Option.isSome_iff_exists.mp hn
    simpa [checkArgs, pyIdx, bind, Except.bind] using this

theorem hashTop_good (f : Bytes → Bytes) (hf : ∀ x, (f x).length ≤ 520) (h : Pre B st) (hn : Named sop)
    (hB : 520 ≤ B) : Good c B (hashTop sop f st) := by
  unfold hashTop
  obtain ⟨s, al, vf, pb, n⟩ := st
  have := hf
  rcases s with _ | ⟨a, rest⟩ <;> arm_simp hn
  · lim_finish
  · have := hf a
    lim_finish

theorem unaryOp_good (h : Pre B st) (hn : Named sop) (hm : sop ∈ unaryNumOps) (hB : 520 ≤ B) (hB2 : B < 2 ^ 32) :
    Good c B (unaryOp sop st) := by
  unfold unaryOp
  obtain ⟨s, al, vf, pb, n⟩ := st
  rcases s with _ | ⟨a, rest⟩
  · arm_simp hn; lim_finish
  · have ha : a.length ≤ B := h.2.2.1 a (by simp)
    rcases castToBigNum_spec a ⟨a :: rest, al, vf, pb, n⟩ (by omega) with hc | ⟨v, hc, hv1, hv2⟩
    · simp [hc, pyIdx, bind, Except.bind, Good, St.cap]; exact h.lim
    · obtain ⟨r, hr, hr1, hr2⟩ := unaryVal_spec hm v hv1 hv2
      have hpre : Pre B ⟨rest, al, vf, pb, n⟩ := by
        obtain ⟨p1, p2, p3, p4⟩ := h
        refine ⟨by simp at p1 ⊢; omega, p2, fun x hx => p3 x (by simp [hx]), p4⟩
      have := push_num_good (c := c) hpre hB r hr1 hr2 (by have := h.1; simp at this ⊢; omega)
      simpa [hc, hr, pyIdx, bind, Except.bind] using this

theorem binOp_good (h : Pre B st) (hn : Named sop) (hm : sop ∈ binaryNumOps) (hB : 520 ≤ B) (hB2 : B < 2 ^ 32) :
    Good c B (binOp sop st) := by
  unfold binOp
  obtain ⟨s, al, vf, pb, n⟩ := st
  rcases s with _ | ⟨a, _ | ⟨b, rest⟩⟩
  · arm_simp hn; lim_finish
  · arm_simp hn; lim_finish
  · have ha : a.length ≤ B := h.2.2.1 a (by simp)
    have hb : b.length ≤ B := h.2.2.1 b (by simp)
    rcases castToBigNum_spec a ⟨a :: b :: rest, al, vf, pb, n⟩ (by omega) with hc | ⟨v2, hc, hv1, hv2⟩
    · simp [hc, pyIdx, bind, Except.bind, Good, St.cap]; exact h.lim
    rcases castToBigNum_spec b ⟨a :: b :: rest, al, vf, pb, n⟩ (by omega) with hd | ⟨v1, hd, hw1, hw2⟩
    · simp [hc, hd, pyIdx, bind, Except.bind, Good, St.cap]; exact h.lim
    have hpre : Pre B ⟨rest, al, vf, pb, n⟩ := by
      obtain ⟨p1, p2, p3, p4⟩ := h
      refine ⟨by simp at p1 ⊢; omega, p2, fun x hx => p3 x (by simp [hx]), p4⟩
    by_cases h9d : sop = 0x9d
    · subst h9d
      by_cases heq : v1 = v2
      · simp [hc, hd, heq, pyIdx, bind, Except.bind, Good]
        exact ⟨hpre.lim, hpre.2.1⟩
      · have := good_raiseNamed (c := c) hn h
        simpa [hc, hd, heq, pyIdx, bind, Except.bind] using this
    · obtain ⟨r, hr, hr1, hr2⟩ := binaryVal_spec hm h9d v1 v2 hw1 hw2 hv1 hv2
      have := push_num_good (c := c) hpre hB r hr1 hr2 (by have := h.1; simp at this ⊢; omega)
      simpa [hc, hd, hr, h9d, pyIdx, bind, Except.bind] using this

theorem opWithin_good (h : Pre B st) (hn : Named sop) (hB : 520 ≤ B) (hB2 : B < 2 ^ 32) :
    Good c B (opWithin sop st) := by
  unfold opWithin
  obtain ⟨s, al, vf, pb, n⟩ := st
  rcases s with _ | ⟨a, _ | ⟨b, _ | ⟨d, rest⟩⟩⟩
  · arm_simp hn; lim_finish
  · arm_simp hn; lim_finish
  · arm_simp hn; lim_finish
  · have ha : a.length ≤ B := h.2.2.1 a (by simp)
    have hb : b.length ≤ B := h.2.2.1 b (by simp)
    have hd' : d.length ≤ B := h.2.2.1 d (by simp)
    rcases castToBigNum_spec a ⟨a :: b :: d :: rest, al, vf, pb, n⟩ (by omega) with hc | ⟨v3, hc, _, _⟩
    · simp [checkArgs, hc, pyIdx, bind, Except.bind, Good, St.cap]; exact h.lim
    rcases castToBigNum_spec b ⟨a :: b :: d :: rest, al, vf, pb, n⟩ (by omega) with he | ⟨v2, he, _, _⟩
    · simp [checkArgs, hc, he, pyIdx, bind, Except.bind, Good, St.cap]; exact h.lim
    rcases castToBigNum_spec d ⟨a :: b :: d :: rest, al, vf, pb, n⟩ (by omega) with hf | ⟨v1, hf, _, _⟩
    · simp [checkArgs, hc, he, hf, pyIdx, bind, Except.bind, Good, St.cap]; exact h.lim
    obtain ⟨p1, p2, p3, p4⟩ := h
    simp [checkArgs, hc, he, hf, pyIdx, bind, Except.bind, Good, Lim, ElemsLe] at *
    refine ⟨⟨by omega, by omega, ⟨?_, fun x hx => p3.2.2.2 x hx⟩, p4⟩, p2⟩
    split <;> simp <;> omega

end arms

end BtcVerif.Model.ScriptEval
