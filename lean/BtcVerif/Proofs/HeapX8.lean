/-
  C09, extended catalogue, part 8: `RawSignatureHash` as a whole; every operation of the extended
  catalogue preserves `InvX`.
-/
import BtcVerif.Proofs.HeapX7

namespace BtcVerif.Model.Heap
open BtcVerif BtcVerif.Spec.ValueSem BtcVerif.Spec.AliasSem BtcVerif.Model.HeapX

theorem surgery_ext {h h1 h' : Heap} {c : Addr} {sub : Bytes} {inIdx ht : Nat} {d : Option (BtcVerif.Res Bytes)}
    (c0 : SCtx h h1 h1)
    (hC : ∀ (oc : Obj) (vinL voutL w : Addr) (lo : Obj), txParts h1 c = some (oc, vinL, voutL, w) →
      h1[vinL]? = some lo → ClonedX h h1 c vinL voutL lo.refs)
    (hs : surgery h1 c sub inIdx ht = some (h', d)) : SCtx h h1 h' := by
  simp only [surgery] at hs
  cases hp : txParts h1 c with
  | none => simp [hp] at hs
  | some pr =>
    obtain ⟨oc, vinL, voutL, w⟩ := pr
    simp only [hp] at hs
    cases hlo : h1[vinL]? with
    | none => simp [hlo] at hs
    | some lo =>
      simp only [hlo] at hs
      have C := hC oc vinL voutL w lo hp hlo
      cases hsc : sigScripts h1 lo.refs sub inIdx with
      | none => simp [hsc] at hs
      | some pr3 =>
        obtain ⟨h3, xi⟩ := pr3
        simp only [hsc] at hs
        obtain ⟨c3, hxi⟩ := sigScripts_ext c0 C.items hsc
        cases hvo : h3[voutL]? with
        | none => simp [hvo] at hs
        | some vo =>
          simp only [hvo] at hs
          -- the tail common to the branches that do not return early
          have tail : ∀ h8, SCtx h h1 h8 →
              (match (if ht / 128 % 2 = 1 then sigAnyone h8 c xi else some h8) with
                | none => none
                | some h10 =>
                  match sigWit h10 c with
                  | none => none
                  | some h12 => some (h12, some (sigDigest h12 c ht))) = some (h', d) → SCtx h h1 h' := by
            intro h8 c8 ht'
            by_cases hacp : ht / 128 % 2 = 1
            · simp only [hacp, if_true] at ht'
              cases ha : sigAnyone h8 c xi with
              | none => simp [ha] at ht'
              | some h10 =>
                simp only [ha] at ht'
                cases hw : sigWit h10 c with
                | none => simp [hw] at ht'
                | some h12 =>
                  simp only [hw, Option.some.injEq, Prod.mk.injEq] at ht'
                  rw [← ht'.1]
                  exact sigWit_ext C (sigAnyone_ext C c8 hxi ha) hw
            · simp only [hacp, if_false] at ht'
              cases hw : sigWit h8 c with
              | none => simp [hw] at ht'
              | some h12 =>
                simp only [hw, Option.some.injEq, Prod.mk.injEq] at ht'
                rw [← ht'.1]
                exact sigWit_ext C c8 hw
          by_cases h2 : ht % 32 = 2
          · rw [if_pos h2] at hs
            cases hn : sigNone h3 c lo.refs inIdx with
            | none => simp [hn] at hs
            | some h8 =>
              simp only [hn, Option.map_some] at hs
              exact tail h8 (sigNone_ext C c3 hn) hs
          · by_cases h3' : ht % 32 = 3
            · rw [if_neg h2, if_pos h3'] at hs
              cases hout : vo.refs[inIdx]? with
              | none =>
                simp only [hout, Option.some.injEq, Prod.mk.injEq] at hs
                rw [← hs.1]; exact c3
              | some tmp =>
                simp only [hout] at hs
                have htmp : kindAt h3 tmp = some 2 := by
                  have hkvo : vo.sc.kind = 9 := by
                    have := kindAt_of_same c3 C.kvout
                    simpa [kindAt, hvo] using this
                  obtain ⟨ks, hks, hok⟩ := c3.inv.typed voutL vo hvo
                  simp only [refKindsOK, hkvo, refKindsK] at hok
                  obtain ⟨k, hk1, hk2⟩ := mapO_mem' hks (List.mem_of_getElem? hout)
                  rw [hk2, hok k hk1]
                cases hsg : sigSingle h3 c lo.refs inIdx tmp with
                | none => simp [hsg] at hs
                | some h8 =>
                  simp only [hsg, Option.map_some] at hs
                  exact tail h8 (sigSingle_ext C c3 htmp hsg) hs
            · rw [if_neg h2, if_neg h3'] at hs
              exact tail h3 c3 hs

theorem allocPlan_node_root (h : Heap) (m : Bool) (sc : Scalars) (kids : List Plan) :
    (allocPlan h (.node m sc kids)).1[(allocPlan h (.node m sc kids)).2]? =
      some { isMut := m, sc := sc, refs := (allocPlans h kids).2 } := by
  simp [allocPlan]

theorem planClone_true_node {h : Heap} {f : Nat} {a : Addr} {o : Obj} {p : Plan} (ho : h[a]? = some o)
    (hai : o.sc.alwaysImm = false) (hp : planClone true (f + 1) h a = some p) :
    ∃ kids, p = .node true o.sc kids := by
  simp only [planClone, ho, hai, Bool.not_true, Bool.or_self, Bool.and_false, Bool.false_eq_true, if_false] at hp
  cases hm : mapO (planClone true f h) o.refs with
  | none => simp [hm] at hp
  | some plans => simp [hm] at hp; exact ⟨plans, hp.symm⟩

/-- `RawSignatureHash(script, tx, inIdx, hashtype)` on any transaction object of a heap satisfying `InvX`:
    the heap only grows, and the invariant is kept -/
theorem rawSigHash_ext {h h' : Heap} (hinv : InvX h) {a : Addr} {sub : Bytes} {inIdx ht : Nat}
    {d : BtcVerif.Res Bytes} (hr : rawSigHash h a sub inIdx ht = some (h', d)) :
    InvX h' ∧ ∃ e, h' = h ++ e := by
  have self : InvX h ∧ ∃ e, h = h ++ e := ⟨hinv, [], by simp⟩
  simp only [rawSigHash] at hr
  cases habs : absVal h a with
  | none => simp [habs] at hr
  | some v =>
    cases v with
    | tx tv =>
      simp only [habs] at hr
      by_cases h1 : inIdx ≥ tv.vin.length
      · simp only [h1, if_true, Option.some.injEq, Prod.mk.injEq] at hr
        rw [← hr.1]; exact self
      · simp only [h1, if_false] at hr
        cases hv : validTx tv with
        | false =>
          simp only [hv, Bool.not_false, if_true, Option.some.injEq, Prod.mk.injEq] at hr
          rw [← hr.1]; exact self
        | true =>
          simp only [hv, Bool.not_true, Bool.false_eq_true, if_false, Option.bind_eq_bind] at hr
          cases hp : planClone true D h a with
          | none => simp [hp] at hr
          | some p =>
            simp only [hp, Option.bind_some] at hr
            cases hsu : surgery (allocPlan h p).1 (allocPlan h p).2 sub inIdx ht with
            | none => simp [hsu] at hr
            | some pr =>
              obtain ⟨hh, dd⟩ := pr
              simp only [hsu, Option.bind_some, pure, Option.some.injEq, Prod.mk.injEq] at hr
              rw [← hr.1]
              -- the source is a transaction object
              simp only [absVal] at habs
              cases hu : unfoldA D h a with
              | none => simp [hu] at habs
              | some ta =>
                simp only [hu, Option.bind_some] at habs
                have hu8 := hu
                rw [D_eq] at hu8
                obtain ⟨o, kidsa, ho, _, hta⟩ := unfoldA_succ hu8
                have hko : o.sc.kind = 5 := by
                  have := decode_kind habs; rw [hta] at this; exact this.symm
                have hai : o.sc.alwaysImm = false := by
                  cases hs : o.sc <;> simp [hs, Scalars.kind] at hko <;> try rfl
                  rename_i k; cases k <;> simp at hko
                obtain ⟨pk, rfl⟩ := planClone_true_node (f := 7) ho hai (by rw [← D_eq]; exact hp)
                obtain ⟨hi1, ⟨e, he⟩, t', ht', hfresh⟩ := copy_fresh hinv hu hp
                generalize hh1 : (allocPlan h (.node true o.sc pk)).1 = h1 at *
                generalize hcc : (allocPlan h (.node true o.sc pk)).2 = c at *
                have hroot : h1[c]? = some { isMut := true, sc := o.sc, refs := (allocPlans h pk).2 } := by
                  rw [← hh1, ← hcc]; exact allocPlan_node_root h true o.sc pk
                have hcaddr : c ∈ addrs t' := by
                  have := unfoldA_addr ht'
                  cases t' with | node a' m' sc' k' =>
                    simp only [ATree.addr] at this; subst this; simp [addrs]
                have hcfresh : h.length ≤ c := hfresh c _ hcaddr hroot rfl
                have c0 : SCtx h h1 h1 := ⟨⟨e, he⟩, hi1, fun x o1 ho1 => ⟨o1, ho1, rfl, rfl⟩⟩
                have res := surgery_ext (d := dd) c0 (by
                  intro oc vinL voutL w lo hpp hlo
                  obtain ⟨hoc, hk5, hrefs, k1, k2, k3⟩ := txParts_kinds hi1.typed hpp
                  have hklo : lo.sc.kind = 8 := by simpa [kindAt, hlo] using k1
                  obtain ⟨ks, hks, hok⟩ := hi1.typed vinL lo hlo
                  simp only [refKindsOK, hklo, refKindsK] at hok
                  have hik : ∀ x ∈ lo.refs, kindAt h1 x = some 1 := by
                    intro x hx
                    obtain ⟨k, hk1, hk2⟩ := mapO_mem' hks hx
                    rw [hk2, hok k hk1]
                  -- the inputs of the copy occur in its unfolding
                  have hmem : ∀ x ∈ lo.refs, x ∈ addrs t' := by
                    intro x hx
                    have ht8 := ht'
                    rw [D_eq] at ht8
                    obtain ⟨oc', kids, hoc', hkids, rfl⟩ := unfoldA_succ ht8
                    rw [hoc] at hoc'; cases hoc'
                    rw [hrefs] at hkids
                    obtain ⟨tin, htin1, htin2⟩ := mapO_mem' hkids (a := vinL) (by simp)
                    obtain ⟨lo', items, hlo', hitems, rfl⟩ := unfoldA_succ htin2
                    rw [hlo] at hlo'; cases hlo'
                    obtain ⟨tx, htx1, htx2⟩ := mapO_mem' hitems hx
                    have hax : x ∈ addrs tx := by
                      have := unfoldA_addr htx2
                      cases tx with | node a' m' sc' k' =>
                        simp only [ATree.addr] at this; subst this; simp [addrs]
                    simp only [addrs, List.mem_cons]
                    right
                    exact mem_addrsL.mpr ⟨_, htin1, by
                      simp only [addrs, List.mem_cons]; right; exact mem_addrsL.mpr ⟨tx, htx1, hax⟩⟩
                  refine ⟨hcfresh, ⟨_, hroot, rfl, hko⟩, k1, k2, ?_, hik, by rw [he]; simp⟩
                  intro x hx
                  obtain ⟨ox, hox, _⟩ := kindAt_some (hik x hx)
                  exact ⟨ox, hox, fun hmx => hfresh x ox (hmem x hx) hox hmx⟩) hsu
                exact ⟨res.inv, res.pre⟩
    | _ => simp [habs] at hr

theorem rawSigHashes_ext {h : Heap} (hinv : InvX h) {a : Addr} {inIdx : Nat} :
    ∀ (calls : List (Bytes × Nat)) {hh h' : Heap}, InvX hh → (∃ e, hh = h ++ e) →
      rawSigHashes hh a inIdx calls = some h' → InvX h' ∧ ∃ e, h' = h ++ e
  | [], hh, h', hi, he, hr => by simp [rawSigHashes] at hr; subst hr; exact ⟨hi, he⟩
  | (sub, ht) :: cs, hh, h', hi, ⟨e, he⟩, hr => by
    simp only [rawSigHashes] at hr
    cases h1 : rawSigHash hh a sub inIdx ht with
    | none => simp [h1] at hr
    | some pr =>
      obtain ⟨h2, d⟩ := pr
      simp only [h1] at hr
      obtain ⟨i2, e2, he2⟩ := rawSigHash_ext hi h1
      exact rawSigHashes_ext hinv cs i2 ⟨e ++ e2, by rw [he2, he]; simp⟩ hr

theorem trx_of_ext {h h' : Heap} (r : InvX h' ∧ ∃ e, h' = h ++ e) : TrX h h' := by
  obtain ⟨hi, e, rfl⟩ := r
  exact ⟨hi, fun _ o ho _ => ⟨o, getElem?_append_of_some e ho, rfl, rfl, rfl⟩⟩

/-- **every operation of the extended catalogue** preserves `InvX` and leaves the slots of every
    immutable object as they are -/
theorem trx_step {s : St} (hinv : InvX s.heap) (op : OpX) : TrX s.heap (HeapX.stepX s op).1.heap := by
  cases op with
  | base b =>
    show TrX s.heap (Model.Heap.step s b).1.heap
    cases b with
    | sighash r sb i ht =>
      simp only [Model.Heap.step]
      (repeat' split) <;> first
        | (rename_i hr; exact trx_of_ext (rawSigHash_ext hinv hr))
        | exact TrX.refl hinv
    | verify r i cs =>
      simp only [Model.Heap.step]
      (repeat' split) <;> first
        | (rename_i hr; exact trx_of_ext (rawSigHashes_ext hinv cs hinv ⟨[], by simp⟩ hr))
        | exact TrX.refl hinv
    | newBlock hd t => exact invx_base_core hinv _ (Or.inr ⟨hd, t, rfl⟩)
    | newTx v => exact invx_base_core hinv _ (Or.inl rfl)
    | newCTx v => exact invx_base_core hinv _ (Or.inl rfl)
    | newHeader v => exact invx_base_core hinv _ (Or.inl rfl)
    | snapshot t => exact invx_base_core hinv _ (Or.inl rfl)
    | mutCopy t => exact invx_base_core hinv _ (Or.inl rfl)
    | assign t f => exact invx_base_core hinv _ (Or.inl rfl)
    | delAttr t => exact invx_base_core hinv _ (Or.inl rfl)
    | setVin r l => exact invx_base_core hinv _ (Or.inl rfl)
    | setVout r l => exact invx_base_core hinv _ (Or.inl rfl)
    | appendIn r v => exact invx_base_core hinv _ (Or.inl rfl)
    | replaceIn r i v => exact invx_base_core hinv _ (Or.inl rfl)
    | removeIn r i => exact invx_base_core hinv _ (Or.inl rfl)
    | appendOut r v => exact invx_base_core hinv _ (Or.inl rfl)
    | replaceOut r i v => exact invx_base_core hinv _ (Or.inl rfl)
    | removeOut r i => exact invx_base_core hinv _ (Or.inl rfl)
    | setWit r w => exact invx_base_core hinv _ (Or.inl rfl)
    | ser t => exact invx_base_core hinv _ (Or.inl rfl)
    | getHash t => exact invx_base_core hinv _ (Or.inl rfl)
    | txid t => exact invx_base_core hinv _ (Or.inl rfl)
    | pyHash t => exact invx_base_core hinv _ (Or.inl rfl)
    | eq a b => exact invx_base_core hinv _ (Or.inl rfl)
    | sighashW r i ht => exact invx_base_core hinv _ (Or.inl rfl)
  | assignRef t k src => exact invx_newOps hinv _ (fun b hb => by cases hb)
  | setPrevout t v => exact invx_newOps hinv _ (fun b hb => by cases hb)
  | appendRef l src => exact invx_newOps hinv _ (fun b hb => by cases hb)
  | replaceRef l i src => exact invx_newOps hinv _ (fun b hb => by cases hb)
  | newTxFrom vi vo lock ver w => exact invx_newOps hinv _ (fun b hb => by cases hb)
  | newTxDefault v => exact invx_newOps hinv _ (fun b hb => by cases hb)
  | newTxInFrom pr sc q => exact invx_newOps hinv _ (fun b hb => by cases hb)
  | newCTxInFrom pr sc q => exact invx_newOps hinv _ (fun b hb => by cases hb)
  | witListEdit t i st => exact invx_newOps hinv _ (fun b hb => by cases hb)
  | stackEdit t j b => exact invx_newOps hinv _ (fun b hb => by cases hb)
  | newHeaderFrom t => exact invx_newOps hinv _ (fun b hb => by cases hb)
  | newBlockFrom t txs => exact invx_newOps hinv _ (fun b hb => by cases hb)

theorem invx_step {s : St} (hinv : InvX s.heap) (op : OpX) : InvX (HeapX.stepX s op).1.heap :=
  (trx_step hinv op).inv

theorem invx_init : InvX Model.Heap.init.heap := by
  have hi := inv_init'
  have h0 : Model.Heap.init.heap[emptyTuple]? = some { isMut := false, sc := .seq .stacks, refs := [] } := rfl
  have h1 : Model.Heap.init.heap[defaultWit]? = some { isMut := false, sc := .wit, refs := [emptyTuple] } := rfl
  refine ⟨?_, ?_, hi.cacheOK, ?_, hi.defaults⟩
  · intro a o ho hm c hc
    obtain ⟨oc, hoc, hmc⟩ := hi.immClosed a o ho hm c hc
    exact ⟨oc, hoc, hmc⟩
  · intro a o ho hai
    exact hi.kindOK a o ho hai
  · intro a o ho
    match a, ho with
    | 0, ho => simp [Model.Heap.init] at ho; subst ho; exact ⟨[], rfl, by simp [refKindsOK, refKindsK, Scalars.kind]⟩
    | 1, ho =>
      simp [Model.Heap.init] at ho; subst ho
      exact ⟨[10], by simp [mapO, kindAt, Model.Heap.init, emptyTuple, Scalars.kind], rfl⟩
    | a + 2, ho => simp [Model.Heap.init] at ho

theorem trx_run (ops : List OpX) : ∀ {s : St}, InvX s.heap → TrX s.heap (HeapX.runX s ops).1.heap := by
  induction ops with
  | nil => intro s h; exact TrX.refl h
  | cons op ops ih =>
    intro s h
    simp only [HeapX.runX]
    exact (trx_step h op).trans (ih (invx_step h op))

theorem invx_run (ops : List OpX) {s : St} (h : InvX s.heap) : InvX (HeapX.runX s ops).1.heap := (trx_run ops h).inv

end BtcVerif.Model.Heap
