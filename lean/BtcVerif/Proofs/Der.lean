/-
  Lemmas about big-endian naturals and the strict DER signature codec of Crypto/Der.lean.
-/
import BtcVerif.Crypto.Der

namespace BtcVerif
open BtcVerif.Crypto.Secp256k1

/-! ### big-endian value -/

theorem foldl_be (bs : Bytes) (a : Nat) :
    bs.foldl (fun acc b => acc * 256 + b.toNat) a = a * 256 ^ bs.length + beNat bs := by
  induction bs generalizing a with
  | nil => simp [beNat]
  | cons b bs ih =>
    simp only [List.foldl_cons, beNat, List.length_cons]
    rw [ih, ih (0 * 256 + b.toNat)]
    simp [Nat.pow_succ, Nat.add_mul, Nat.mul_assoc, Nat.mul_comm 256, Nat.add_assoc]

theorem beNat_nil : beNat [] = 0 := rfl

theorem beNat_cons (b : UInt8) (bs : Bytes) : beNat (b :: bs) = b.toNat * 256 ^ bs.length + beNat bs := by
  have := foldl_be bs (0 * 256 + b.toNat)
  simpa [beNat] using this

theorem beNat_snoc (bs : Bytes) (b : UInt8) : beNat (bs ++ [b]) = beNat bs * 256 + b.toNat := by
  simp [beNat, List.foldl_append]

theorem beNat_lt (bs : Bytes) : beNat bs < 256 ^ bs.length := by
  induction bs with
  | nil => simp [beNat]
  | cons b bs ih =>
    rw [beNat_cons]
    have hb : b.toNat < 256 := b.toNat_lt
    simp only [List.length_cons, Nat.pow_succ]
    have : b.toNat * 256 ^ bs.length + 256 ^ bs.length ≤ 256 * 256 ^ bs.length := by
      have := Nat.mul_le_mul_right (256 ^ bs.length) (show b.toNat + 1 ≤ 256 by omega)
      simpa [Nat.add_mul] using this
    omega

theorem beNat_zero_cons (bs : Bytes) : beNat (0 :: bs) = beNat bs := by
  rw [beNat_cons]; simp

theorem beNat_pos_of_head {b : UInt8} {bs : Bytes} (hb : b.toNat ≠ 0) : 256 ^ bs.length ≤ beNat (b :: bs) := by
  rw [beNat_cons]
  have : 1 * 256 ^ bs.length ≤ b.toNat * 256 ^ bs.length := Nat.mul_le_mul_right _ (by omega)
  omega

theorem toNat_ofNat_lt {k : Nat} (h : k < 256) : (UInt8.ofNat k).toNat = k := by
  simp [UInt8.toNat_ofNat']; omega

theorem ofNat_toNat (b : UInt8) : UInt8.ofNat b.toNat = b := by simp

/-! ### minimal big-endian representation -/

theorem beMin_zero : beMin 0 = [] := by rw [beMin]; simp

theorem beMin_pos {v : Nat} (h : v ≠ 0) : beMin v = beMin (v / 256) ++ [UInt8.ofNat (v % 256)] := by
  rw [beMin]; simp [h]

theorem beNat_beMin (v : Nat) : beNat (beMin v) = v := by
  induction v using Nat.strongRecOn with
  | _ v ih =>
    by_cases h : v = 0
    · subst h; simp [beMin_zero, beNat]
    · rw [beMin_pos h, beNat_snoc, ih (v / 256) (by omega), toNat_ofNat_lt (by omega)]
      omega

theorem beMin_length_le (k v : Nat) (h : v < 256 ^ k) : (beMin v).length ≤ k := by
  induction k generalizing v with
  | zero => have : v = 0 := by simpa using h
            subst this; simp [beMin_zero]
  | succ k ih =>
    by_cases h0 : v = 0
    · subst h0; simp [beMin_zero]
    · rw [beMin_pos h0]
      have : v / 256 < 256 ^ k := by
        rw [Nat.pow_succ] at h; omega
      have := ih (v / 256) this
      simp; omega

theorem beMin_ne_nil {v : Nat} (h : v ≠ 0) : beMin v ≠ [] := by
  rw [beMin_pos h]; simp

/-- the minimal representation has no leading zero byte -/
theorem beMin_head_ne_zero (v : Nat) : ∀ b bs, beMin v = b :: bs → b.toNat ≠ 0 := by
  induction v using Nat.strongRecOn with
  | _ v ih =>
    intro b bs hv
    by_cases h : v = 0
    · subst h; simp [beMin_zero] at hv
    · rw [beMin_pos h] at hv
      by_cases hq : v / 256 = 0
      · rw [hq, beMin_zero] at hv
        simp at hv
        rw [← hv.1, toNat_ofNat_lt (by omega)]
        omega
      · cases hm : beMin (v / 256) with
        | nil => exact absurd hm (beMin_ne_nil hq)
        | cons c cs =>
          rw [hm] at hv
          simp at hv
          rw [← hv.1]
          exact ih (v / 256) (by omega) c cs hm

/-- a byte string without leading zero is the minimal representation of its value -/
theorem beMin_beNat_rev (rev : Bytes) :
    (∀ b bs, rev.reverse = b :: bs → b.toNat ≠ 0) → beMin (beNat rev.reverse) = rev.reverse := by
  induction rev with
  | nil => intro _; simp [beNat, beMin_zero]
  | cons x xs ih =>
    intro hhead
    simp only [List.reverse_cons]
    rw [beNat_snoc]
    have hx : x.toNat < 256 := x.toNat_lt
    by_cases hxs : xs = []
    · subst hxs
      simp only [List.reverse_nil, beNat_nil, Nat.zero_mul, Nat.zero_add, List.nil_append]
      have hx0 : x.toNat ≠ 0 := hhead x [] (by simp)
      rw [beMin_pos hx0]
      have : x.toNat / 256 = 0 := by omega
      rw [this, beMin_zero]
      have : x.toNat % 256 = x.toNat := by omega
      simp [this]
    · have hne : xs.reverse ≠ [] := by simpa using hxs
      cases hr : xs.reverse with
      | nil => exact absurd hr hne
      | cons c cs =>
        have hc : c.toNat ≠ 0 := hhead c (cs ++ [x]) (by simp [hr])
        have hpos : beNat (c :: cs) ≥ 1 := by
          have := beNat_pos_of_head (bs := cs) hc
          have : 256 ^ cs.length ≥ 1 := Nat.pow_pos (by omega)
          omega
        have hv : beNat (c :: cs) * 256 + x.toNat ≠ 0 := by omega
        rw [beMin_pos hv]
        have h1 : (beNat (c :: cs) * 256 + x.toNat) / 256 = beNat (c :: cs) := by omega
        have h2 : (beNat (c :: cs) * 256 + x.toNat) % 256 = x.toNat := by omega
        rw [h1, h2]
        have ih' := ih (by
          intro b bs hb
          rw [hr] at hb
          exact hhead b (bs ++ [x]) (by simp [hr, hb]))
        rw [hr] at ih'
        rw [ih']
        simp

theorem beMin_beNat (bs : Bytes) (h : ∀ b t, bs = b :: t → b.toNat ≠ 0) : beMin (beNat bs) = bs := by
  have := beMin_beNat_rev bs.reverse (by simpa using h)
  simpa using this

/-! ### DER INTEGER content octets -/

theorem derIntBody_cases (v : Nat) :
    (beMin v = [] ∧ derIntBody v = [0]) ∨
    (∃ b bs, beMin v = b :: bs ∧ b.toNat ≥ 128 ∧ derIntBody v = 0 :: b :: bs) ∨
    (∃ b bs, beMin v = b :: bs ∧ b.toNat < 128 ∧ b.toNat ≠ 0 ∧ derIntBody v = b :: bs) := by
  unfold derIntBody
  cases h : beMin v with
  | nil => left; simp
  | cons b bs =>
    right
    have hb := beMin_head_ne_zero v b bs h
    by_cases h128 : b.toNat ≥ 128
    · left; exact ⟨b, bs, rfl, h128, by simp [h128]⟩
    · right; exact ⟨b, bs, rfl, by omega, hb, by simp [h128]⟩

theorem beNat_derIntBody (v : Nat) : beNat (derIntBody v) = v := by
  have hv := beNat_beMin v
  rcases derIntBody_cases v with ⟨h, e⟩ | ⟨b, bs, h, _, e⟩ | ⟨b, bs, h, _, _, e⟩
  · rw [e]; rw [h] at hv; simp [beNat] at hv ⊢; omega
  · rw [e, beNat_zero_cons, ← h, hv]
  · rw [e, ← h, hv]

theorem derIntBodyOk_derIntBody (v : Nat) : derIntBodyOk (derIntBody v) = true := by
  rcases derIntBody_cases v with ⟨_, e⟩ | ⟨b, bs, _, h128, e⟩ | ⟨b, bs, _, h128, h0, e⟩
  · rw [e]; simp [derIntBodyOk]
  · rw [e]; simp [derIntBodyOk]; omega
  · rw [e]
    cases bs with
    | nil => simp [derIntBodyOk, h128]
    | cons c cs => simp [derIntBodyOk, h128, h0]

theorem derIntBody_length_pos (v : Nat) : 1 ≤ (derIntBody v).length := by
  rcases derIntBody_cases v with ⟨_, e⟩ | ⟨b, bs, _, _, e⟩ | ⟨b, bs, _, _, _, e⟩ <;> rw [e] <;> simp

theorem derIntBody_length_le (k v : Nat) (h : v < 256 ^ k) : (derIntBody v).length ≤ k + 1 := by
  have hl := beMin_length_le k v h
  rcases derIntBody_cases v with ⟨_, e⟩ | ⟨b, bs, hm, _, e⟩ | ⟨b, bs, hm, _, _, e⟩
  · rw [e]; simp
  · rw [e]; rw [hm] at hl; simp at hl ⊢; omega
  · rw [e]; rw [hm] at hl; simp at hl ⊢; omega

/-- canonical content octets are the encoding of their value -/
theorem derIntBody_beNat (body : Bytes) (h : derIntBodyOk body = true) : derIntBody (beNat body) = body := by
  match body, h with
  | [b], h =>
    simp [derIntBodyOk] at h
    by_cases hb : b.toNat = 0
    · have : b = 0 := by
        have := ofNat_toNat b; rw [hb] at this; exact this.symm
      subst this
      simp [beNat, derIntBody, beMin_zero]
    · have hm : beMin (beNat [b]) = [b] := beMin_beNat [b] (by intro c t hc; simp at hc; rw [← hc.1]; exact hb)
      unfold derIntBody
      rw [hm]; simp; omega
  | b :: c :: t, h =>
    simp [derIntBodyOk] at h
    obtain ⟨hb, hpad⟩ := h
    by_cases hb0 : b.toNat = 0
    · have hbz : b = 0 := by
        have := ofNat_toNat b; rw [hb0] at this; exact this.symm
      subst hbz
      have hc : c.toNat ≥ 128 := by
        rcases hpad with h | h
        · exact absurd rfl h
        · exact h
      rw [beNat_zero_cons]
      have hm : beMin (beNat (c :: t)) = c :: t :=
        beMin_beNat (c :: t) (by intro d u hd; simp at hd; rw [← hd.1]; omega)
      unfold derIntBody
      rw [hm]; simp [hc]
    · have hm : beMin (beNat (b :: c :: t)) = b :: c :: t :=
        beMin_beNat _ (by intro d u hd; simp at hd; rw [← hd.1]; exact hb0)
      unfold derIntBody
      rw [hm]; simp; omega

/-! ### element and signature round trips -/

theorem derDecodeInt_derInt (v : Nat) (rest : Bytes) (hl : (derIntBody v).length < 128) :
    derDecodeInt (derInt v ++ rest) = some (v, rest) := by
  unfold derInt
  simp only [List.cons_append]
  unfold derDecodeInt
  have hlen : (UInt8.ofNat (derIntBody v).length).toNat = (derIntBody v).length := toNat_ofNat_lt (by omega)
  simp only [hlen]
  have h2 : (2 : UInt8).toNat = 2 := rfl
  simp [h2, hl, derIntBodyOk_derIntBody, beNat_derIntBody]

theorem derDecodeInt_inv (x : Bytes) (v : Nat) (rest : Bytes) (h : derDecodeInt x = some (v, rest)) :
    x = derInt v ++ rest ∧ (derIntBody v).length < 128 := by
  match x, h with
  | tag :: l :: rest0, h =>
    unfold derDecodeInt at h
    by_cases h1 : tag.toNat ≠ 2
    · simp [h1] at h
    · by_cases h2 : l.toNat ≥ 128
      · simp [h1, h2] at h
      · by_cases h3 : rest0.length < l.toNat
        · simp [h1, h2, h3] at h
        · by_cases h4 : derIntBodyOk (rest0.take l.toNat) = true
          · simp only [h1, h2, h3, h4, if_false, if_true] at h
            simp at h
            obtain ⟨hv, hr⟩ := h
            have hb := derIntBody_beNat _ h4
            rw [hv] at hb
            have htag : tag = 2 := by
              have := ofNat_toNat tag
              have h1' : tag.toNat = 2 := by omega
              rw [h1'] at this; exact this.symm
            have hlen : (rest0.take l.toNat).length = l.toNat := by simp; omega
            constructor
            · show tag :: l :: rest0 = (2 :: UInt8.ofNat (derIntBody v).length :: derIntBody v) ++ rest
              rw [hb, hlen, ofNat_toNat, htag, ← hr]
              simp
            · rw [hb, hlen]; omega
          · simp [h1, h2, h3, h4] at h

/-- `der_roundtrip`, general form: decoding the encoding gives the pair back whenever the content
    fits the one-byte sequence length -/
theorem derDecodeStrict_derEncode_of_len (r s : Nat)
    (hl : (derIntBody r).length + (derIntBody s).length ≤ 123) :
    derDecodeStrict (derEncode r s) = some (r, s) := by
  unfold derEncode
  have hclen : (derInt r ++ derInt s).length = (derIntBody r).length + (derIntBody s).length + 4 := by
    simp [derInt]; omega
  unfold derDecodeStrict
  have hL : (UInt8.ofNat (derInt r ++ derInt s).length).toNat = (derInt r ++ derInt s).length :=
    toNat_ofNat_lt (by omega)
  have h30 : (0x30 : UInt8).toNat = 0x30 := rfl
  simp only [hL, h30]
  rw [derDecodeInt_derInt r (derInt s) (by omega)]
  have := derDecodeInt_derInt s [] (by omega)
  rw [List.append_nil] at this
  simp [this]
  rw [List.length_append] at hclen
  omega

theorem derDecodeStrict_inv (sig : Bytes) (r s : Nat) (h : derDecodeStrict sig = some (r, s)) :
    sig = derEncode r s ∧ (derIntBody r).length + (derIntBody s).length ≤ 123 := by
  match sig, h with
  | tag :: l :: rest, h =>
    unfold derDecodeStrict at h
    by_cases h1 : tag.toNat ≠ 0x30
    · simp [h1] at h
    · by_cases h2 : l.toNat ≥ 128
      · simp [h1, h2] at h
      · by_cases h3 : rest.length ≠ l.toNat
        · simp [h1, h2, h3] at h
        · simp only [h1, h2, h3, if_false] at h
          cases hd1 : derDecodeInt rest with
          | none => simp [hd1] at h
          | some p1 =>
            obtain ⟨r', rest'⟩ := p1
            simp only [hd1] at h
            cases hd2 : derDecodeInt rest' with
            | none => simp [hd2] at h
            | some p2 =>
              obtain ⟨s', rest''⟩ := p2
              simp only [hd2] at h
              cases rest'' with
              | cons a b => simp at h
              | nil =>
                simp at h
                obtain ⟨hr, hs⟩ := h
                subst hr; subst hs
                obtain ⟨e1, l1⟩ := derDecodeInt_inv _ _ _ hd1
                obtain ⟨e2, l2⟩ := derDecodeInt_inv _ _ _ hd2
                rw [List.append_nil] at e2
                have htag : tag = 0x30 := by
                  have := ofNat_toNat tag
                  have h1' : tag.toNat = 0x30 := by omega
                  rw [h1'] at this; exact this.symm
                have hrest : rest = derInt r' ++ derInt s' := by rw [e1, e2]
                have hlen : rest.length = (derIntBody r').length + (derIntBody s').length + 4 := by
                  rw [hrest]; simp [derInt]; omega
                constructor
                · show tag :: l :: rest = 0x30 :: UInt8.ofNat (derInt r' ++ derInt s').length :: (derInt r' ++ derInt s')
                  rw [← hrest, htag]
                  have : rest.length = l.toNat := by omega
                  rw [this, ofNat_toNat]
                · omega

end BtcVerif
