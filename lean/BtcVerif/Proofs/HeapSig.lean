/-
  C09 helper lemmas, part 18: the footprint of `RawSignatureHash` — every primitive of the surgery
  is an allocation or a write to a *fresh* mutable object; such steps extend the heap and keep the
  heap-wide parts of the invariant.  The surgery also never gets stuck on a cloned transaction.
-/
import BtcVerif.Proofs.HeapSim

namespace BtcVerif.Model.Heap
open BtcVerif BtcVerif.Spec.ValueSem

/-- one primitive of the surgery, relative to the heap `h` the caller sees -/
inductive Step (h : Heap) : Heap → Heap → Prop
  | alloc (hh : Heap) (o : Obj) (c1 : o.cHash = none) (c2 : o.cPy = none)
      (ck : o.sc.alwaysImm = true → o.isMut = false)
      (ci : o.isMut = false → ∀ c ∈ o.refs, ∃ oc : Obj, hh[c]? = some oc ∧ oc.isMut = false) :
      Step h hh (hh ++ [o])
  | write (hh : Heap) (x : Addr) (ox o' : Obj) (hx : h.length ≤ x) (hox : hh[x]? = some ox)
      (hm : ox.isMut = true) (hm' : o'.isMut = true) (c1 : o'.cHash = ox.cHash) (c2 : o'.cPy = ox.cPy)
      (hk : o'.sc.kind = ox.sc.kind) (hr : ox.sc.isSeq = false → o'.refs.length = ox.refs.length) :
      Step h hh (hh.set x o')

inductive Steps (h : Heap) : Heap → Heap → Prop
  | refl (hh : Heap) : Steps h hh hh
  | tail {a b c : Heap} : Steps h a b → Step h b c → Steps h a c

theorem Steps.trans {h a b c : Heap} (h1 : Steps h a b) (h2 : Steps h b c) : Steps h a c := by
  induction h2 with
  | refl => exact h1
  | tail _ st ih => exact .tail ih st

theorem Steps.one {h a b : Heap} (st : Step h a b) : Steps h a b := .tail (.refl a) st

def aiOfKind (k : Nat) : Bool := k == 3 || k == 4 || k == 6 || k == 7 || k == 10 || k == 11
def seqOfKind (k : Nat) : Bool := decide (8 ≤ k)

theorem alwaysImm_of_kind (sc : Scalars) : sc.alwaysImm = aiOfKind sc.kind ∧ sc.isSeq = seqOfKind sc.kind := by
  cases sc with
  | seq k => cases k <;> exact ⟨rfl, rfl⟩
  | _ => exact ⟨rfl, rfl⟩

/-- the class decides `alwaysImm` and `isSeq` -/
theorem kind_alwaysImm {a b : Scalars} (h : a.kind = b.kind) : a.alwaysImm = b.alwaysImm ∧ a.isSeq = b.isSeq := by
  rw [(alwaysImm_of_kind a).1, (alwaysImm_of_kind a).2, (alwaysImm_of_kind b).1, (alwaysImm_of_kind b).2, h]
  exact ⟨rfl, rfl⟩

/-- what the caller's heap looks like from a later heap of the surgery -/
structure Good (h hh : Heap) : Prop where
  ext : ∃ e, hh = h ++ e ∧ ∀ o ∈ e, o.cHash = none ∧ o.cPy = none ∧ (o.sc.alwaysImm = true → o.isMut = false)
  imm : ImmClosed hh

theorem step_good {h hh hh' : Heap} (g : Good h hh) (st : Step h hh hh') : Good h hh' := by
  obtain ⟨⟨e, rfl, he⟩, hic⟩ := g
  cases st with
  | alloc o c1 c2 ck ci =>
    refine ⟨⟨e ++ [o], by simp, ?_⟩, immClosed_append_one hic ci⟩
    intro o' ho'
    simp only [List.mem_append, List.mem_singleton] at ho'
    rcases ho' with h1 | rfl
    · exact he o' h1
    · exact ⟨c1, c2, ck⟩
  | write x ox o' hx hox hm hm' c1 c2 hk hr =>
    have hxe : (h ++ e)[x]? = e[x - h.length]? := List.getElem?_append_right hx
    have hoe : e[x - h.length]? = some ox := by rw [← hxe]; exact hox
    refine ⟨⟨e.set (x - h.length) o', ?_, ?_⟩, immClosed_set_mut hic hox hm hm'⟩
    · rw [List.set_append_right _ _ hx]
    · intro o2 ho2
      rcases List.mem_or_eq_of_mem_set ho2 with h1 | rfl
      · exact he o2 h1
      · obtain ⟨a1, a2, a3⟩ := he ox (List.mem_of_getElem? hoe)
        refine ⟨by rw [c1]; exact a1, by rw [c2]; exact a2, ?_⟩
        intro hai
        rw [(kind_alwaysImm hk).1] at hai
        have := a3 hai
        rw [hm] at this; cases this

theorem steps_good {h hh hh' : Heap} (g : Good h hh) (st : Steps h hh hh') : Good h hh' := by
  induction st with
  | refl => exact g
  | tail _ s ih => exact step_good ih s

/-- class, mutability and (for non-sequences) number of references of an object -/
def ObjIs (hh : Heap) (x : Addr) (k : Nat) (n : Nat) : Prop :=
  ∃ o : Obj, hh[x]? = some o ∧ o.isMut = true ∧ o.sc.kind = k ∧ (o.sc.isSeq = false → o.refs.length = n)

theorem step_objIs {h hh hh' : Heap} (st : Step h hh hh') {x : Addr} {k n : Nat} (ho : ObjIs hh x k n) :
    ObjIs hh' x k n := by
  obtain ⟨o, hox, hm, hk, hr⟩ := ho
  cases st with
  | alloc o2 => exact ⟨o, getElem?_append_of_some [o2] hox, hm, hk, hr⟩
  | write y oy o' hy hoy hmy hm' c1 c2 hky hry =>
    by_cases hxy : x = y
    · subst hxy
      rw [hox] at hoy; cases hoy
      refine ⟨o', by simp [List.getElem?_set_self (List.getElem?_eq_some_iff.mp hox).1], hm', by rw [hky, hk], ?_⟩
      intro hs
      have hs' : o.sc.isSeq = false := by rw [← (kind_alwaysImm hky).2]; exact hs
      rw [hry hs', hr hs']
    · exact ⟨o, by rw [List.getElem?_set_ne (fun e => hxy e.symm)]; exact hox, hm, hk, hr⟩

theorem steps_objIs {h hh hh' : Heap} (st : Steps h hh hh') {x : Addr} {k n : Nat} (ho : ObjIs hh x k n) :
    ObjIs hh' x k n := by
  induction st with
  | refl => exact ho
  | tail _ s ih => exact step_objIs s ih

theorem step_len {h hh hh' : Heap} (st : Step h hh hh') : hh.length ≤ hh'.length := by
  cases st with
  | alloc o => simp
  | write => simp

theorem steps_len {h hh hh' : Heap} (st : Steps h hh hh') : hh.length ≤ hh'.length := by
  induction st with
  | refl => exact Nat.le_refl _
  | tail _ s ih => exact Nat.le_trans ih (step_len s)

/-! ### the primitives succeed and are steps -/

theorem kind_txin {sc : Scalars} : sc.kind = 1 → ∃ s q, sc = .txin s q := by
  cases sc with
  | txin s q => intro _; exact ⟨s, q, rfl⟩
  | seq k => cases k <;> simp [Scalars.kind]
  | _ => simp [Scalars.kind]

/-- `txin.scriptSig = b` / `txin.nSequence = k` on a fresh mutable input -/
theorem assign_txin_ok {h hh : Heap} {x : Addr} {n : Nat} (hx : h.length ≤ x) (ho : ObjIs hh x 1 n)
    (f : Field) (hf : (∃ b, f = .scriptSig b) ∨ (∃ k, f = .nSequence k)) :
    ∃ hh', assignAt hh x f = some (.ok hh') ∧ Step h hh hh' := by
  obtain ⟨o, hox, hm, hk, hr⟩ := ho
  obtain ⟨sg, q, hsc⟩ := kind_txin hk
  rcases hf with ⟨b, rfl⟩ | ⟨k, rfl⟩
  · refine ⟨hh.set x { o with sc := .txin b q }, by simp [assignAt, hox, hm, hsc, applySc], ?_⟩
    exact .write hh x o _ hx hox hm hm rfl rfl (by rw [hsc]; rfl) (fun _ => rfl)
  · refine ⟨hh.set x { o with sc := .txin sg k }, by simp [assignAt, hox, hm, hsc, applySc], ?_⟩
    exact .write hh x o _ hx hox hm hm rfl rfl (by rw [hsc]; rfl) (fun _ => rfl)

theorem foldAssign_ok {h : Heap} (b : Bytes) : ∀ (xs : List Addr) (hh : Heap),
    (∀ x ∈ xs, h.length ≤ x ∧ ∃ n, ObjIs hh x 1 n) →
    ∃ hh', foldAssign (.scriptSig b) hh xs = some hh' ∧ Steps h hh hh'
  | [], hh, _ => ⟨hh, rfl, .refl hh⟩
  | x :: xs, hh, hall => by
    obtain ⟨hx, n, ho⟩ := hall x (by simp)
    obtain ⟨hh1, h1, st1⟩ := assign_txin_ok hx ho (.scriptSig b) (Or.inl ⟨b, rfl⟩)
    obtain ⟨hh2, h2, st2⟩ := foldAssign_ok b xs hh1 (fun y hy => by
      obtain ⟨hy1, n', hy2⟩ := hall y (by simp [hy])
      exact ⟨hy1, n', step_objIs st1 hy2⟩)
    exact ⟨hh2, by simp [foldAssign, h1, h2], (Steps.one st1).trans st2⟩

theorem zeroSeqs_ok {h : Heap} (inIdx : Nat) : ∀ (xs : List Addr) (hh : Heap) (k : Nat),
    (∀ x ∈ xs, h.length ≤ x ∧ ∃ n, ObjIs hh x 1 n) →
    ∃ hh', zeroSeqs inIdx hh xs k = some hh' ∧ Steps h hh hh'
  | [], hh, _, _ => ⟨hh, rfl, .refl hh⟩
  | x :: xs, hh, k, hall => by
    by_cases hk : k = inIdx
    · obtain ⟨hh2, h2, st2⟩ := zeroSeqs_ok inIdx xs hh (k + 1) (fun y hy => hall y (by simp [hy]))
      have hz : zeroSeqs inIdx hh (x :: xs) k = zeroSeqs inIdx hh xs (k + 1) := by
        simp only [zeroSeqs, if_pos hk]
      exact ⟨hh2, by rw [hz]; exact h2, st2⟩
    · obtain ⟨hx, n, ho⟩ := hall x (by simp)
      obtain ⟨hh1, h1, st1⟩ := assign_txin_ok hx ho (.nSequence 0) (Or.inr ⟨0, rfl⟩)
      obtain ⟨hh2, h2, st2⟩ := zeroSeqs_ok inIdx xs hh1 (k + 1) (fun y hy => by
        obtain ⟨hy1, n', hy2⟩ := hall y (by simp [hy])
        exact ⟨hy1, n', step_objIs st1 hy2⟩)
      have hz : zeroSeqs inIdx hh (x :: xs) k = zeroSeqs inIdx hh1 xs (k + 1) := by
        simp only [zeroSeqs, if_neg hk, h1]
      exact ⟨hh2, by rw [hz]; exact h2, (Steps.one st1).trans st2⟩

/-- `obj.<ref i> = c` on a fresh mutable non-sequence object with `n` references -/
theorem setRef_ok {h hh : Heap} {x : Addr} {k n : Nat} (hx : h.length ≤ x) (ho : ObjIs hh x k n)
    (hns : ∀ sc : Scalars, sc.kind = k → sc.isSeq = false) {i : Nat} (hi : i < n) (c : Addr) :
    ∃ hh', setRef hh x i c = some hh' ∧ Step h hh hh' := by
  obtain ⟨o, hox, hm, hk, hr⟩ := ho
  have hlen := hr (hns o.sc hk)
  refine ⟨hh.set x { o with refs := o.refs.set i c }, by simp [setRef, hox, hlen, hi], ?_⟩
  exact .write hh x o _ hx hox hm hm rfl rfl rfl (fun _ => by simp)

/-- a write to a fresh mutable list object -/
theorem setList_step {h hh : Heap} {x : Addr} {o : Obj} (hx : h.length ≤ x) (hox : hh[x]? = some o)
    (hm : o.isMut = true) (hs : o.sc.isSeq = true) (items : List Addr) :
    Step h hh (hh.set x { o with refs := items }) :=
  .write hh x o _ hx hox hm hm rfl rfl rfl (fun hn => by rw [hs] at hn; cases hn)

theorem kind_seq_of {sc : Scalars} {k : Nat} (hk : sc.kind = k) (h8 : k = 8 ∨ k = 9) : sc.isSeq = true := by
  cases sc with
  | seq _ => rfl
  | _ => rcases h8 with rfl | rfl <;> simp [Scalars.kind] at hk

def blankObj : Obj := { isMut := false, sc := .txout (-1) [], refs := [] }

theorem appendBlanks_succ (hh : Heap) (l : Addr) (n : Nat) :
    appendBlanks hh l (n + 1) =
      match (hh ++ [blankObj])[l]? with
      | some o => appendBlanks ((hh ++ [blankObj]).set l { o with refs := o.refs ++ [hh.length] }) l n
      | none => none := rfl

theorem appendBlanks_ok {h : Heap} {l : Addr} (hl : h.length ≤ l) : ∀ (n : Nat) (hh : Heap),
    (∃ m, ObjIs hh l 9 m) → ∃ hh', appendBlanks hh l n = some hh' ∧ Steps h hh hh'
  | 0, hh, _ => ⟨hh, rfl, .refl hh⟩
  | n + 1, hh, ⟨m, ho⟩ => by
    have st1 : Step h hh (hh ++ [blankObj]) :=
      .alloc hh blankObj rfl rfl (fun _ => rfl) (fun _ c hc => by simp [blankObj] at hc)
    have ho1 := step_objIs st1 ho
    obtain ⟨o, hox, hm, hk, _⟩ := ho1
    have st2 := setList_step (h := h) hl hox hm (kind_seq_of hk (Or.inr rfl)) (o.refs ++ [hh.length])
    have ho2 : ∃ m', ObjIs ((hh ++ [blankObj]).set l { o with refs := o.refs ++ [hh.length] }) l 9 m' :=
      ⟨m, step_objIs st2 ⟨o, hox, hm, hk, fun hn => by rw [kind_seq_of hk (Or.inr rfl)] at hn; cases hn⟩⟩
    obtain ⟨hh3, h3, st3⟩ := appendBlanks_ok hl n _ ho2
    refine ⟨hh3, ?_, ((Steps.one st1).trans (Steps.one st2)).trans st3⟩
    rw [appendBlanks_succ, hox]
    exact h3

end BtcVerif.Model.Heap
