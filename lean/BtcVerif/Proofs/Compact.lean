import BtcVerif.Model.Compact
import BtcVerif.Spec.Compact
import Mathlib.Tactic.IntervalCases

namespace BtcVerif

theorem nbytes_zero : nbytes 0 = 0 := by unfold nbytes; simp

theorem nbytes_pos {v : Nat} (h : v ≠ 0) : nbytes v = nbytes (v / 256) + 1 := by
  rw [nbytes]; simp [h]

theorem nbytes_bounds (v : Nat) (h : v ≠ 0) : 256 ^ (nbytes v - 1) ≤ v ∧ v < 256 ^ nbytes v := by
  induction v using Nat.strongRecOn with
  | _ v ih =>
    rw [nbytes_pos h]
    by_cases hq : v / 256 = 0
    · have : v < 256 := by omega
      simp [hq, nbytes_zero]; omega
    · have := ih (v / 256) (by omega) hq
      obtain ⟨h1, h2⟩ := this
      have hnb : nbytes (v / 256) ≥ 1 := by rw [nbytes_pos hq]; omega
      constructor
      · have : nbytes (v / 256) + 1 - 1 = (nbytes (v/256) - 1) + 1 := by omega
        rw [this, Nat.pow_succ]; omega
      · rw [Nat.pow_succ]; omega

theorem nbytes_lt_of_lt {v k : Nat} (h : v < 256 ^ k) : nbytes v ≤ k := by
  by_cases hv : v = 0
  · simp [hv, nbytes_zero]
  · have := (nbytes_bounds v hv).1
    rcases Nat.lt_or_ge k (nbytes v) with hc | hc
    · have : 256 ^ k ≤ 256 ^ (nbytes v - 1) := Nat.pow_le_pow_right (by omega) (by omega)
      omega
    · exact hc

theorem nbytes_ge_of_ge {v k : Nat} (h : 256 ^ k ≤ v) : k + 1 ≤ nbytes v := by
  have hv : v ≠ 0 := by have := Nat.pow_pos (n := k) (show 0 < 256 by omega); omega
  have := (nbytes_bounds v hv).2
  rcases Nat.lt_or_ge (nbytes v) (k + 1) with hc | hc
  · have : 256 ^ nbytes v ≤ 256 ^ k := Nat.pow_le_pow_right (by omega) (by omega)
    omega
  · exact hc

theorem nbytes_eq {v k : Nat} (h1 : 256 ^ k ≤ v) (h2 : v < 256 ^ (k+1)) : nbytes v = k + 1 := by
  have := nbytes_lt_of_lt h2; have := nbytes_ge_of_ge h1; omega

theorem pow8 (k : Nat) : 2 ^ (8 * k) = 256 ^ k := by rw [Nat.pow_mul]

theorem ovf_iff (w s : Nat) (hw : w < 2 ^ 23) (hs3 : 3 < s) :
    (w ≠ 0 ∧ (s > 34 ∨ (w > 0xff ∧ s > 33) ∨ (w > 0xffff ∧ s > 32))) ↔
      2 ^ 256 ≤ w * 2 ^ (8 * (s - 3)) := by
  rcases Nat.lt_or_ge s 33 with h | h
  · -- s ≤ 32: never overflows
    have : w * 2 ^ (8 * (s - 3)) < 2 ^ 256 := by
      calc w * 2 ^ (8 * (s - 3)) < 2 ^ 23 * 2 ^ (8 * (s - 3)) :=
            Nat.mul_lt_mul_of_pos_right hw (Nat.pow_pos (by omega))
        _ = 2 ^ (23 + 8 * (s - 3)) := by rw [Nat.pow_add]
        _ ≤ 2 ^ 256 := Nat.pow_le_pow_right (by omega) (by omega)
    constructor
    · intro ⟨_, h'⟩; omega
    · intro h'; omega
  · rcases Nat.lt_or_ge s 35 with h35 | h35
    · have hs : s = 33 ∨ s = 34 := by omega
      rcases hs with rfl | rfl
      · simp only [show 8 * (33 - 3) = 240 by rfl]; constructor
        · intro ⟨_, h'⟩; omega
        · intro h'; omega
      · simp only [show 8 * (34 - 3) = 248 by rfl]; constructor
        · intro ⟨_, h'⟩; omega
        · intro h'; omega
    · constructor
      · intro ⟨h0, _⟩
        calc 2 ^ 256 ≤ 2 ^ (8 * (s - 3)) := Nat.pow_le_pow_right (by omega) (by omega)
          _ ≤ w * 2 ^ (8 * (s - 3)) := Nat.le_mul_of_pos_left _ (Nat.pos_of_ne_zero h0)
      · intro h'
        refine ⟨?_, Or.inl (by omega)⟩
        intro h0; subst h0; simp at h'

theorem nbytes_le32 (v : Nat) (hv : v < 2 ^ 256) : nbytes v ≤ 32 :=
  nbytes_lt_of_lt (by simpa using hv)

theorem fromCompact_mk (m e : Nat) (hm : m < 2 ^ 24) (he : e < 256) :
    Model.fromCompact (m + e * 2 ^ 24) =
      if e ≤ 3 then m / 2 ^ (8 * (3 - e)) else m * 2 ^ (8 * (e - 3)) := by
  unfold Model.fromCompact
  have h1 : (m + e * 2 ^ 24) / 2 ^ 24 % 256 = e := by omega
  have h2 : (m + e * 2 ^ 24) % 2 ^ 24 = m := by omega
  simp only [h1, h2]

theorem toCompact_mk (v nb : Nat) (hnb : nbytes v = nb) :
    Model.toCompact v =
      let compact := if nb ≤ 3 then (v % 2 ^ 24) * 2 ^ (8 * (3 - nb))
                     else (v / 2 ^ (8 * (nb - 3))) % 2 ^ 24
      if (compact / 2 ^ 23) % 2 = 1 then (compact / 2 ^ 8) + (nb + 1) * 2 ^ 24
      else compact + nb * 2 ^ 24 := by
  unfold Model.toCompact; rw [hnb]

theorem canonical_mk (m e : Nat) (hm : m < 2 ^ 24) (he : e < 256)
    (h : 1 ≤ e ∧ 0x8000 ≤ m ∧ m < 0x800000 ∧ m % 256 ^ (3 - e) = 0) :
    Spec.canonical (m + e * 2 ^ 24) := by
  right
  have h1 : (m + e * 2 ^ 24) / 2 ^ 24 = e := by omega
  have h2 : (m + e * 2 ^ 24) % 2 ^ 24 = m := by omega
  simp only [h1, h2]
  omega

theorem nbytes_eq_bitlength (v : Nat) : nbytes v = (bitLength v + 7) / 8 := by
  unfold bitLength
  by_cases h0 : v = 0
  · subst h0; simp [nbytes_zero]
  · simp only [h0, if_false]
    obtain ⟨h1, h2⟩ := nbytes_bounds v h0
    have hpos : 1 ≤ nbytes v := by rw [nbytes_pos h0]; omega
    generalize nbytes v = nb at *
    have e1 : (256:Nat) ^ (nb - 1) = 2 ^ (8 * (nb - 1)) := by rw [Nat.pow_mul]
    have e2 : (256:Nat) ^ nb = 2 ^ (8 * nb) := by rw [Nat.pow_mul]
    rw [e1] at h1; rw [e2] at h2
    have hl : Nat.log2 v < 8 * nb := (Nat.log2_lt h0).mpr h2
    have hg : 8 * (nb - 1) ≤ Nat.log2 v := (Nat.le_log2 h0).mpr h1
    omega

end BtcVerif
