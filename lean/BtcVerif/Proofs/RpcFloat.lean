/-
  C19, send side (PARTIAL): the arithmetic argument that the shortest round-tripping decimal numeral of
  the double nearest to a / 10^8 denotes exactly a / 10^8, for amounts in the money range.  binary64
  and float.__repr__ enter only through the hypotheses of `repr_denotes_amount`.
-/
import BtcVerif.Proofs.Rpc
import Mathlib.Tactic.Linarith
import Mathlib.Tactic.Ring
import Mathlib.Tactic.FieldSimp
import Mathlib.Tactic.NormNum
import Mathlib.Tactic.Positivity
import Mathlib.Algebra.Order.Field.Basic

namespace BtcVerif.Rpc
open BtcVerif Model.Rpc

/-- value of the decimal numeral with significand `m` and exponent `p` -/
def decVal (m : ℕ) (p : ℤ) : ℚ := (m : ℚ) * (10 : ℚ) ^ p

/-- strip trailing zeros: `a = mD · 10^t` with `mD` not divisible by ten -/
theorem exists_strip (a : ℕ) (ha : 0 < a) : ∃ mD t : ℕ, a = mD * 10 ^ t ∧ mD % 10 ≠ 0 := by
  induction a using Nat.strongRecOn with
  | _ a ih =>
    by_cases h : a % 10 = 0
    · obtain ⟨mD, t, h1, h2⟩ := ih (a / 10) (by omega) (by omega)
      refine ⟨mD, t + 1, ?_, h2⟩
      rw [pow_succ, ← mul_assoc, ← h1]; omega
    · exact ⟨a, 0, by simp, h⟩

theorem spacing_nat (r a d : ℕ) (hd : 0 < d)
    (h : |(r : ℚ) / d - (a : ℚ) / d| ≤ max ((r : ℚ) / d) ((a : ℚ) / d) / 2 ^ 52) :
    (a ≤ r → (r - a) * 2 ^ 52 ≤ r) ∧ (r ≤ a → (a - r) * 2 ^ 52 ≤ a) := by
  have hdq : (0 : ℚ) < d := by exact_mod_cast hd
  constructor
  · intro hle
    have h1 : (a : ℚ) / d ≤ (r : ℚ) / d := by
      apply div_le_div_of_nonneg_right _ hdq.le; exact_mod_cast hle
    rw [max_eq_left h1, abs_of_nonneg (by linarith)] at h
    have h2 : ((r : ℚ) - a) * 2 ^ 52 ≤ r := by
      have : ((r : ℚ) / d - (a : ℚ) / d) = ((r : ℚ) - a) / d := by ring
      rw [this, div_le_div_iff₀ hdq (by positivity), div_mul_cancel₀ _ hdq.ne'] at h
      exact h
    have h4 : (((r - a : ℕ) : ℚ)) = (r : ℚ) - a := by rw [Nat.cast_sub hle]
    have : (((r - a) * 2 ^ 52 : ℕ) : ℚ) ≤ (r : ℚ) := by
      rw [Nat.cast_mul, h4]; exact_mod_cast h2
    exact_mod_cast this
  · intro hle
    have h1 : (r : ℚ) / d ≤ (a : ℚ) / d := by
      apply div_le_div_of_nonneg_right _ hdq.le; exact_mod_cast hle
    rw [max_eq_right h1, abs_of_nonpos (by linarith)] at h
    have h2 : ((a : ℚ) - r) * 2 ^ 52 ≤ a := by
      have : -((r : ℚ) / d - (a : ℚ) / d) = ((a : ℚ) - r) / d := by ring
      rw [this, div_le_div_iff₀ hdq (by positivity), div_mul_cancel₀ _ hdq.ne'] at h
      exact h
    have h4 : (((a - r : ℕ) : ℚ)) = (a : ℚ) - r := by rw [Nat.cast_sub hle]
    have : (((a - r) * 2 ^ 52 : ℕ) : ℚ) ≤ (a : ℚ) := by
      rw [Nat.cast_mul, h4]; exact_mod_cast h2
    exact_mod_cast this

theorem decVal_ge (m j : ℕ) : decVal m ((j : ℤ) - 8) = ((m * 10 ^ j : ℕ) : ℚ) / ((10 ^ 8 : ℕ) : ℚ) := by
  unfold decVal
  rw [zpow_sub₀ (by norm_num : (10 : ℚ) ≠ 0), zpow_natCast]
  push_cast
  ring

theorem decVal_lt (m j : ℕ) : decVal m (-8 - (j : ℤ)) = (m : ℚ) / ((10 ^ (8 + j) : ℕ) : ℚ) := by
  unfold decVal
  rw [show (-8 - (j : ℤ)) = -((8 + j : ℕ) : ℤ) by push_cast; ring, zpow_neg, zpow_natCast]
  push_cast
  ring

theorem amount_lt (a j : ℕ) : (a : ℚ) / 10 ^ 8 = ((a * 10 ^ j : ℕ) : ℚ) / ((10 ^ (8 + j) : ℕ) : ℚ) := by
  push_cast
  rw [pow_add]
  field_simp

theorem amount_ge (a : ℕ) : (a : ℚ) / 10 ^ 8 = (a : ℚ) / ((10 ^ 8 : ℕ) : ℚ) := by push_cast; rfl

/-- PARTIAL, send side.  `rn` stands for "the binary64 nearest to"; its only assumed property is the
    spacing of doubles *in the money range*: if `y ∈ [10^-8, 21·10^6]` (normal doubles, exponents
    -27 … 24, far from subnormals and overflow) and a positive real `x` has the same nearest double as
    `y`, then they differ by at most 2^-52 of the larger — both lie in the rounding interval of one
    normal double `q`, whose width is at most `ulp(q) ≤ q · 2^-52` (absolutely: at most 2^-28).  The emitted numeral `m · 10^p` (normalised: `m` not divisible by ten) is assumed to parse
    back to the double that was formatted (`hrt`) and to be a shortest such numeral (`hshort`) — the
    contract of `float.__repr__`.  Then the numeral denotes exactly `a / 10^8`, for every amount in
    the money range. -/
theorem repr_denotes_amount
    (rn : ℚ → ℚ)
    (hspacing : ∀ x y : ℚ, 0 < x → (1 : ℚ) / 10 ^ 8 ≤ y → y ≤ 21 * 10 ^ 6 → rn x = rn y →
      |x - y| ≤ max x y / 2 ^ 52)
    (a : ℕ) (ha : 0 < a) (ha2 : a ≤ 21 * 10 ^ 14)
    (m : ℕ) (p : ℤ) (hm : m % 10 ≠ 0)
    (hrt : rn (decVal m p) = rn ((a : ℚ) / 10 ^ 8))
    (hshort : ∀ (m' : ℕ) (p' : ℤ), m' % 10 ≠ 0 → rn (decVal m' p') = rn ((a : ℚ) / 10 ^ 8) →
      ndigits m ≤ ndigits m') :
    decVal m p = (a : ℚ) / 10 ^ 8 := by
  have hmpos : 0 < m := by omega
  have hxpos : 0 < decVal m p := by
    unfold decVal
    have : (0 : ℚ) < m := by exact_mod_cast hmpos
    exact mul_pos this (zpow_pos (by norm_num) _)
  have hypos : (0 : ℚ) < (a : ℚ) / 10 ^ 8 := by
    have : (0 : ℚ) < a := by exact_mod_cast ha
    positivity
  have hylo : (1 : ℚ) / 10 ^ 8 ≤ (a : ℚ) / 10 ^ 8 := by
    apply div_le_div_of_nonneg_right _ (by positivity)
    exact_mod_cast ha
  have hyhi : (a : ℚ) / 10 ^ 8 ≤ 21 * 10 ^ 6 := by
    rw [div_le_iff₀ (by positivity)]
    have : (a : ℚ) ≤ 21 * 10 ^ 14 := by exact_mod_cast ha2
    linarith
  have hsp := hspacing _ _ hxpos hylo hyhi hrt
  by_cases hp : -8 ≤ p
  · -- the numeral is on the satoshi grid
    obtain ⟨j, hj⟩ : ∃ j : ℕ, p = (j : ℤ) - 8 := ⟨(p + 8).toNat, by omega⟩
    rw [hj, decVal_ge, amount_ge] at hsp ⊢
    obtain ⟨h1, h2⟩ := spacing_nat (m * 10 ^ j) a (10 ^ 8) (by positivity) hsp
    have : m * 10 ^ j = a := by
      rcases Nat.lt_trichotomy (m * 10 ^ j) a with h | h | h
      · have := h2 (by omega); omega
      · exact h
      · have := h1 (by omega); omega
    rw [this]
  · -- finer than the satoshi grid: impossible for a shortest numeral
    exfalso
    obtain ⟨j, hj, hj1⟩ : ∃ j : ℕ, p = -8 - (j : ℤ) ∧ 1 ≤ j := ⟨(-8 - p).toNat, by omega, by omega⟩
    obtain ⟨mD, t, hat, hmD⟩ := exists_strip a ha
    -- the eight-decimal numeral of the amount is a candidate, so `m` has no more digits than `mD`
    have hD : decVal mD ((t : ℤ) - 8) = (a : ℚ) / 10 ^ 8 := by
      rw [decVal_ge, amount_ge, hat]
    have hs := hshort mD ((t : ℤ) - 8) hmD (by rw [hD])
    rw [hj, decVal_lt, amount_lt a j] at hsp
    obtain ⟨h1, h2⟩ := spacing_nat m (a * 10 ^ j) (10 ^ (8 + j)) (by positivity) hsp
    have hmDpos : 0 < mD := by omega
    have hmlt : m < 10 ^ ndigits mD := Nat.lt_of_lt_of_le (ndigits_lt m) (Nat.pow_le_pow_right (by omega) hs)
    have hmDge := ndigits_ge mD (by omega)
    have hmDlt := ndigits_lt mD
    have hs16 : ndigits mD ≤ 16 := by
      apply ndigits_le_of_lt _ 16 _ (by omega)
      have : mD ≤ a := by rw [hat]; exact Nat.le_mul_of_pos_right _ (by positivity)
      omega
    obtain ⟨s, hs'⟩ : ∃ s, ndigits mD = s := ⟨_, rfl⟩
    rw [hs'] at hmlt hmDge hmDlt hs16
    have hspos : 1 ≤ s := by rw [← hs']; exact ndigits_pos mD
    -- A = a·10^j = mD·10^(t+j) ≥ 10^s > m
    have hA : a * 10 ^ j = mD * 10 ^ (t + j) := by rw [hat, mul_assoc, ← pow_add]
    have hAge : 10 ^ s ≤ a * 10 ^ j := by
      rw [hA]
      calc 10 ^ s = 10 ^ (s - 1) * 10 ^ 1 := by rw [← pow_add]; congr 1; omega
        _ ≤ mD * 10 ^ (t + j) := Nat.mul_le_mul hmDge (Nat.pow_le_pow_right (by omega) (by omega))
    have hP16 : 10 ^ s ≤ 10 ^ 16 := Nat.pow_le_pow_right (by omega) hs16
    have hPmod : 10 ^ s % 10 = 0 := by
      obtain ⟨s', rfl⟩ : ∃ s', s = s' + 1 := ⟨s - 1, by omega⟩
      rw [pow_succ]; omega
    have hAmod : (a * 10 ^ j) % 10 = 0 := by
      obtain ⟨j', rfl⟩ : ∃ j', j = j' + 1 := ⟨j - 1, by omega⟩
      rw [pow_succ, ← mul_assoc]; omega
    have hineq := h2 (by omega)
    -- so A = 10^s
    have hAeq : a * 10 ^ j = 10 ^ s := by
      generalize a * 10 ^ j = A at *
      generalize 10 ^ s = P at *
      omega
    rw [hAeq] at hineq
    -- then mD = 1 and s = 1, and a one-digit m below 10 is not within 2^-52 of 10
    by_cases hs1 : s = 1
    · subst hs1
      omega
    · have h10 : 10 ^ (s - 1) * 10 ^ (t + j) ≤ 10 ^ (s - 1) * 10 ^ 1 := by
        rw [← pow_add (10) (s - 1) 1, show s - 1 + 1 = s by omega, ← hAeq, hA]
        exact Nat.mul_le_mul_right _ hmDge
      have htj : t + j ≤ 1 := by
        by_contra hcon
        have : 10 ^ 2 ≤ 10 ^ (t + j) := Nat.pow_le_pow_right (by omega) (by omega)
        have hpp : 0 < 10 ^ (s - 1) := by positivity
        nlinarith
      have htj1 : t + j = 1 := by omega
      rw [htj1] at hA
      have : mD * 10 = 10 ^ (s - 1) * 10 := by
        rw [← pow_succ, show s - 1 + 1 = s by omega, ← hAeq, hA]; ring
      have hmDeq : mD = 10 ^ (s - 1) := by omega
      obtain ⟨s', rfl⟩ : ∃ s', s = s' + 2 := ⟨s - 2, by omega⟩
      rw [show s' + 2 - 1 = s' + 1 by omega, pow_succ] at hmDeq
      omega
/-- the rational reading of a numeral and the integer reading used by `Spec.Rpc.denotesSat` (and
    executed by `Model.Rpc.satoshisDenoted` on the emitted text) agree -/
theorem decVal_iff_denotes (m : ℕ) (p : ℤ) (a : ℕ) :
    decVal m p = (a : ℚ) / 10 ^ 8 ↔ Spec.Rpc.denotesSat false m p (a : ℤ) := by
  unfold Spec.Rpc.denotesSat
  simp only [Int.natAbs_natCast, Bool.false_eq_true, imp_false, not_lt, Int.natCast_nonneg, implies_true,
    and_true]
  by_cases hp : 0 ≤ p + 8
  · rw [if_pos hp]
    obtain ⟨j, hj⟩ : ∃ j : ℕ, p = (j : ℤ) - 8 := ⟨(p + 8).toNat, by omega⟩
    have hjn : (p + 8).toNat = j := by omega
    rw [hjn, hj, decVal_ge, amount_ge]
    constructor
    · intro h
      have h10 : ((10 ^ 8 : ℕ) : ℚ) ≠ 0 := by positivity
      have := (div_left_inj' h10).mp h
      exact_mod_cast this
    · intro h; rw [h]
  · rw [if_neg hp]
    obtain ⟨j, hj⟩ : ∃ j : ℕ, p = -8 - (j : ℤ) := ⟨(-8 - p).toNat, by omega⟩
    have hjn : (-(p + 8)).toNat = j := by omega
    rw [hjn, hj, decVal_lt, amount_lt a j]
    constructor
    · intro h
      have h10 : ((10 ^ (8 + j) : ℕ) : ℚ) ≠ 0 := by positivity
      have := (div_left_inj' h10).mp h
      exact_mod_cast this
    · intro h; rw [h]

end BtcVerif.Rpc
