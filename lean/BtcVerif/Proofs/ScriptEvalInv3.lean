/-
  C07 — invariants of the interpreter model, continued: PICK / ROLL, signature checks.
-/
import BtcVerif.Proofs.ScriptEvalInv2
import BtcVerif.Proofs.ScriptFad

namespace BtcVerif.Model.ScriptEval
open BtcVerif BtcVerif.Spec BtcVerif.Spec.Script BtcVerif.Model.Script

theorem findAndDelete_cases (cap : Captured) (script sig : Bytes) :
    (∃ r, findAndDelete cap script sig = .ok r) ∨ findAndDelete cap script sig = .error (.invalid cap) := by
  unfold findAndDelete
  simp only
  split
  · right; rfl
  · left; exact ⟨_, rfl⟩

theorem encodeOpPushdata_ok (d : Bytes) (h : d.length < 2 ^ 32) : ∃ e, encodeOpPushdata d = .ok e := by
  unfold encodeOpPushdata
  split_ifs
  · exact ⟨_, rfl⟩
  · exact ⟨_, rfl⟩
  · exact ⟨_, rfl⟩
  · exact ⟨_, rfl⟩
  · omega

/-- `_CheckSig`: a bool, a CScriptInvalidError, or an exception that `RawSignatureHash` raised -/
theorem checkSig_cases (c : Ctx) (cap : Captured) (sig pubkey script : Bytes)
    (hlen : script.length ≤ MAX_SCRIPT_SIZE) :
    (∃ b, checkSig c cap sig pubkey script = .ok b) ∨
    checkSig c cap sig pubkey script = .error (.invalid cap) ∨
    (∃ cls, checkSig c cap sig pubkey script = .error (.py cls) ∧ c.Raises cls) := by
  unfold checkSig
  by_cases h0 : sig.length = 0
  · left; simp [h0]
  · simp only [h0, if_false]
    cases hl : sig.getLast? with
    | none =>
      rw [List.getLast?_eq_none_iff] at hl
      subst hl; simp at h0
    | some ht =>
      simp only
      cases hh : c.sigHash script ht.toNat with
      | ok d => left; exact ⟨_, rfl⟩
      | error x =>
        by_cases hx : x = .invalidscript
        · subst hx; right; left; rfl
        · right; right
          refine ⟨excClass x, ?_, script, ht.toNat, x, hlen, ht.toNat_lt, hh, hx, rfl⟩
          cases x <;> first | rfl | exact absurd rfl hx

section arms
variable {c : Ctx} {B : Nat} {st : St} {sop : Nat}

theorem pre_tail {a : Bytes} {rest al : List Bytes} {vf : List Bool} {pb n : Nat}
    (h : Pre B ⟨a :: rest, al, vf, pb, n⟩) : Pre B ⟨rest, al, vf, pb, n⟩ := by
  obtain ⟨p1, p2, p3, p4⟩ := h
  exact ⟨by simp at p1 ⊢; omega, p2, fun x hx => p3 x (by simp [hx]), p4⟩

theorem opPickRoll_good (h : Pre B st) (hn : Named sop) (hB2 : B < 2 ^ 32) : Good c B (opPickRoll sop st) := by
  unfold opPickRoll
  obtain ⟨s, al, vf, pb, n⟩ := st
  rcases s with _ | ⟨a, _ | ⟨b, rest⟩⟩
  · arm_simp hn; lim_finish
  · arm_simp hn; lim_finish
  · have ha : a.length ≤ B := h.2.2.1 a (by simp)
    have hp := pre_tail h
    rcases castToBigNum_spec a ⟨b :: rest, al, vf, pb, n⟩ (by omega) with hc | ⟨v, hc, _, _⟩
    · simp [checkArgs, hc, pyIdx, bind, Except.bind, Good, St.cap]; exact hp.lim
    · obtain ⟨nm, hnm⟩ := Option.isSome_iff_exists.mp hn
      simp only [checkArgs, List.length_cons, len_lt_2, if_false, pop?_cons, pyIdx, hc, bind, Except.bind]
      have hrange : ∀ (hr : ¬(v < 0 ∨ v ≥ ((rest.length + 1 : Nat) : Int))),
          ∃ x, getTop? (b :: rest) (v + 1) = some x ∧ x.length ≤ B := by
        intro hr
        obtain ⟨x, hx, hxm, _⟩ := getTop?_pos (b :: rest) (v + 1) (by omega)
          (by simp only [List.length_cons]; omega)
        exact ⟨x, hx, hp.2.2.1 x hxm⟩
      obtain ⟨p1, p2, p3, p4⟩ := hp
      dsimp only at p1 p2 p3 p4
      simp only [List.length_cons] at p1
      by_cases hr : (v < 0 ∨ v ≥ ((rest.length + 1 : Nat) : Int))
      · rw [if_pos hr]
        simp only [raiseNamed, hnm, Good, St.cap, Lim, List.length_cons]; exact ⟨by omega, by omega, p3, p4⟩
      · rw [if_neg hr]
        obtain ⟨x, hx, hxl⟩ := hrange hr
        by_cases hroll : sop = 0x7a
        · have hdel := delTop?_pos (b :: rest) (v + 1) (by omega) (by simp only [List.length_cons]; omega)
          have hlen : ((b :: rest).eraseIdx (v + 1 - 1).toNat).length = (b :: rest).length - 1 := by
            rw [List.length_eraseIdx]; simp only [List.length_cons]; split <;> omega
          simp only [hx, hdel, hroll, if_true, Good, Lim, ElemsLe]
          refine ⟨⟨?_, by omega, ?_, p4⟩, p2⟩
          · simp only [List.length_cons] at hlen ⊢; omega
          · intro y hy
            rcases List.mem_cons.mp hy with rfl | hy
            · exact hxl
            · exact p3 y (List.mem_of_mem_eraseIdx hy)
        · simp only [hx, hroll, if_false, Good, Lim, ElemsLe]
          refine ⟨⟨?_, by omega, ?_, p4⟩, p2⟩
          · simp only [List.length_cons]; omega
          · intro y hy
            rcases List.mem_cons.mp hy with rfl | hy
            · exact hxl
            · exact p3 y hy

theorem opCheckSig_good (script : Bytes) (hlen : script.length ≤ MAX_SCRIPT_SIZE) (h : Pre B st) (hn : Named sop)
    (hB : 520 ≤ B) (hB2 : B < 2 ^ 32) :
    Good c B (opCheckSig c script sop st) := by
  unfold opCheckSig
  obtain ⟨s, al, vf, pb, n⟩ := st
  rcases s with _ | ⟨a, _ | ⟨b, rest⟩⟩
  · arm_simp hn; lim_finish
  · arm_simp hn; lim_finish
  · have hb : b.length ≤ B := h.2.2.1 b (by simp)
    have he := encodeOpPushdata_eq b (by omega)
    have hpat := pushEnc_pat b (by omega)
    obtain ⟨nm, hnm⟩ := Option.isSome_iff_exists.mp hn
    have hl := h.lim
    have hp := pre_tail (pre_tail h)
    simp only [checkArgs, List.length_cons, len_lt_2, if_false, getTop?_1, getTop?_2, pyIdx, bind, Except.bind, he]
    rcases findAndDelete_cases (St.cap ⟨a :: b :: rest, al, vf, pb, n⟩) (List.drop pb script) (Ref.pushEnc b) with ⟨r, hf⟩ | hf
    · simp only [hf]
      have hrl : r.length ≤ MAX_SCRIPT_SIZE := by
        have := findAndDelete_length_le hpat hf
        simp only [List.length_drop] at this; omega
      rcases checkSig_cases c (St.cap ⟨a :: b :: rest, al, vf, pb, n⟩) b a r hrl with ⟨ok, hk⟩ | hk | ⟨cls, hk, hneg⟩
      · simp only [hk, pop?_cons]
        obtain ⟨q1, q2, q3, q4⟩ := hp
        dsimp only at q1 q2 q3 q4
        cases ok <;> by_cases had : sop = 0xad <;>
          simp [had, raiseNamed, hnm, Good, Lim, ElemsLe, St.cap] <;>
          first
            | exact hl
            | exact ⟨⟨by omega, by omega, q3, q4⟩, q2⟩
            | exact ⟨⟨by omega, by omega, ⟨by omega, q3⟩, q4⟩, q2⟩
      · simp only [hk]; exact hl
      · simp only [hk]; exact hneg
    · simp only [hf]; exact hl

end arms

end BtcVerif.Model.ScriptEval
