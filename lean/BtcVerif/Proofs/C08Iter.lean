/-
  Helper lemmas for C08's tokeniser: `rawStep` against Core's GetScriptOp (`Spec.Script.getOp`),
  the partition induced by raw iteration, `rawIter` against `Spec.Script.parse`.
-/
import BtcVerif.Proofs.C08Num

set_option linter.unusedSimpArgs false

namespace BtcVerif
open BtcVerif.Spec.Script BtcVerif.Model.Script

theorem u8_ofNat_toNat_self (b : UInt8) : UInt8.ofNat b.toNat = b := by
  apply u8_eq_of_toNat; rw [u8_ofNat_toNat _ b.toNat_lt]

theorem take_eq_self_of_length_lt {α} (r : List α) {n : Nat} (h : r.length < n) : r.take n = r :=
  List.take_of_length_le (by omega)

theorem take_length_lt_iff {α} (r : List α) (n : Nat) : (r.take n).length < n ↔ r.length < n := by
  simp

/-- one step of raw_iter is GetScriptOp (with the data of non-push opcodes reported as None) -/
theorem rawStep_cons (idx : Nat) (b : UInt8) (t : Bytes) :
    rawStep idx (b :: t) =
      match getOp (b :: t) with
      | some (o, d, rest) => some (.op ⟨o, if o > 0x4e then none else some d, idx⟩ rest)
      | none => some (.err (truncErr b t)) := by
  by_cases h1 : b.toNat > 0x4e
  · simp [rawStep, getOp, h1]
  · by_cases h2 : b.toNat < 0x4c
    · by_cases h3 : t.length < b.toNat
      · simp [rawStep, getOp, truncErr, lenBytes, declaredSize, h1, h2, h3, take_length_lt_iff,
          take_eq_self_of_length_lt t h3]
      · simp [rawStep, getOp, truncErr, lenBytes, declaredSize, h1, h2, h3, take_length_lt_iff]
    · by_cases h4 : b.toNat = 0x4c
      · rcases t with _ | ⟨l0, r⟩
        · simp [rawStep, getOp, truncErr, lenBytes, declaredSize, h4]
        · by_cases h3 : r.length < l0.toNat
          · simp [rawStep, getOp, truncErr, lenBytes, declaredSize, h4, leNat, h3, take_length_lt_iff,
              take_eq_self_of_length_lt r h3]
          · simp [rawStep, getOp, truncErr, lenBytes, declaredSize, h4, leNat, h3, take_length_lt_iff]
      · by_cases h5 : b.toNat = 0x4d
        · rcases t with _ | ⟨l0, _ | ⟨l1, r⟩⟩
          · simp [rawStep, getOp, truncErr, lenBytes, declaredSize, h5]
          · simp [rawStep, getOp, truncErr, lenBytes, declaredSize, h5]
          · have e : l0.toNat + l1.toNat * 256 = l0.toNat + 256 * l1.toNat := by omega
            have hL : ¬ (r.length + 1 + 1 < 2) := by omega
            by_cases h3 : r.length < l0.toNat + 256 * l1.toNat
            · simp [rawStep, getOp, truncErr, lenBytes, declaredSize, h5, leNat, e, h3, hL, take_length_lt_iff,
                take_eq_self_of_length_lt r h3]
            · simp [rawStep, getOp, truncErr, lenBytes, declaredSize, h5, leNat, e, h3, hL, take_length_lt_iff]
        · have h6 : b.toNat = 0x4e := by omega
          rcases t with _ | ⟨l0, _ | ⟨l1, _ | ⟨l2, _ | ⟨l3, r⟩⟩⟩⟩
          · simp [rawStep, getOp, truncErr, lenBytes, declaredSize, h6]
          · simp [rawStep, getOp, truncErr, lenBytes, declaredSize, h6]
          · simp [rawStep, getOp, truncErr, lenBytes, declaredSize, h6]
          · simp [rawStep, getOp, truncErr, lenBytes, declaredSize, h6]
          · have e : l0.toNat + l1.toNat * 256 + l2.toNat * 65536 + l3.toNat * 16777216 =
                l0.toNat + 256 * (l1.toNat + 256 * (l2.toNat + 256 * l3.toNat)) := by omega
            have hL : ¬ (r.length + 1 + 1 + 1 + 1 < 4) := by omega
            by_cases h3 : r.length < l0.toNat + 256 * (l1.toNat + 256 * (l2.toNat + 256 * l3.toNat))
            · simp [rawStep, getOp, truncErr, lenBytes, declaredSize, h6, leNat, e, h3, hL, take_length_lt_iff,
                take_eq_self_of_length_lt r h3]
            · simp [rawStep, getOp, truncErr, lenBytes, declaredSize, h6, leNat, e, h3, hL, take_length_lt_iff]

/-- what GetScriptOp consumed is exactly the encoding of the operation it returned -/
theorem getOp_enc {s : Bytes} {o : Nat} {d rest : Bytes} (h : getOp s = some (o, d, rest)) :
    s = opEnc o d ++ rest ∧ o < 256 ∧ (o > 0x4e → d = []) := by
  rcases s with _ | ⟨b, t⟩
  · simp [getOp] at h
  · simp only [getOp] at h
    by_cases h1 : b.toNat > 0x4e
    · simp only [h1, if_true, Option.some.injEq, Prod.mk.injEq] at h
      obtain ⟨rfl, rfl, rfl⟩ := h
      refine ⟨by simp [opEnc, h1, u8_ofNat_toNat_self], b.toNat_lt, fun _ => rfl⟩
    · simp only [h1, if_false] at h
      split at h
      · simp at h
      · rename_i hw
        split at h
        · simp at h
        · rename_i hn
          simp only [Option.some.injEq, Prod.mk.injEq] at h
          obtain ⟨rfl, rfl, rfl⟩ := h
          refine ⟨?_, b.toNat_lt, fun hc => absurd hc h1⟩
          have hdl : ((t.drop (lenBytes b.toNat)).take (declaredSize b.toNat t)).length = declaredSize b.toNat t := by
            rw [List.length_take]; omega
          simp only [opEnc, h1, if_false, hdl, u8_ofNat_toNat_self, List.cons_append, List.append_assoc,
            List.take_append_drop]
          congr 1
          have hlen : leBytes (lenBytes b.toNat) (declaredSize b.toNat t) = t.take (lenBytes b.toNat) := by
            unfold declaredSize
            by_cases h2 : b.toNat < 0x4c
            · simp [h2, lenBytes, leBytes]
            · simp only [h2, if_false]
              have hl : (t.take (lenBytes b.toNat)).length = lenBytes b.toNat := by
                rw [List.length_take]; omega
              have := leBytes_leNat (t.take (lenBytes b.toNat))
              rw [hl] at this; exact this
          rw [hlen, List.take_append_drop]

/-- where GetScriptOp fails on a non-empty string, the string starts with a truncated push -/
theorem getOp_none_trunc {b : UInt8} {t : Bytes} (h : getOp (b :: t) = none) : TruncatedPush (b :: t) := by
  simp only [getOp] at h
  by_cases h1 : b.toNat > 0x4e
  · simp [h1] at h
  · simp only [h1, if_false] at h
    refine ⟨b, t, rfl, by omega, ?_⟩
    split at h
    · left; assumption
    · split at h
      · right; rename_i hn; simpa using hn
      · simp at h

/-! ### unfolding the generator -/

theorem rawIterFrom_nil (idx : Nat) : rawIterFrom idx [] = ([], none) := by
  rw [rawIterFrom]; simp [rawStep]

theorem rawIterFrom_op {idx : Nat} {s : Bytes} {o : RawOp} {rest : Bytes}
    (h : rawStep idx s = some (.op o rest)) :
    rawIterFrom idx s =
      (o :: (rawIterFrom (idx + (s.length - rest.length)) rest).1,
       (rawIterFrom (idx + (s.length - rest.length)) rest).2) := by
  rw [rawIterFrom]
  split
  · rename_i h'; rw [h] at h'; simp at h'
  · rename_i h'; rw [h] at h'; simp at h'
  · rename_i o' rest' h'
    rw [h] at h'
    simp only [Option.some.injEq, Step.op.injEq] at h'
    obtain ⟨rfl, rfl⟩ := h'
    rfl

theorem rawIterFrom_err {idx : Nat} {s : Bytes} {e : IterErr} (h : rawStep idx s = some (.err e)) :
    rawIterFrom idx s = ([], some e) := by
  rw [rawIterFrom]
  split
  · rename_i h'; rw [h] at h'; simp at h'
  · rename_i h'; rw [h] at h'
    simp only [Option.some.injEq, Step.err.injEq] at h'
    rw [h']
  · rename_i h'; rw [h] at h'; simp at h'

/-- the generator in terms of GetScriptOp -/
theorem rawIterFrom_cons (idx : Nat) (b : UInt8) (t : Bytes) :
    rawIterFrom idx (b :: t) =
      match getOp (b :: t) with
      | some (o, d, rest) =>
          (⟨o, if o > 0x4e then none else some d, idx⟩ ::
              (rawIterFrom (idx + ((b :: t).length - rest.length)) rest).1,
            (rawIterFrom (idx + ((b :: t).length - rest.length)) rest).2)
      | none => ([], some (truncErr b t)) := by
  have h := rawStep_cons idx b t
  rcases hg : getOp (b :: t) with _ | ⟨o, d, rest⟩
  · rw [hg] at h; simp only at h ⊢
    exact rawIterFrom_err h
  · rw [hg] at h; simp only at h ⊢
    exact rawIterFrom_op h

theorem parse_nil : parse [] = ([], true) := by
  rw [parse]; simp

theorem parse_cons (b : UInt8) (t : Bytes) :
    parse (b :: t) =
      match getOp (b :: t) with
      | some (o, d, rest) => ((o, d) :: (parse rest).1, (parse rest).2)
      | none => ([], false) := by
  rw [parse]
  simp only [List.cons_ne_nil, if_false]
  split <;> rename_i h <;> simp [h]

theorem rawIterFrom_parse (n : Nat) : ∀ (idx : Nat) (s : Bytes), s.length ≤ n →
    (rawIterFrom idx s).1.map RawOp.pair = (parse s).1 ∧
    ((rawIterFrom idx s).2.isNone = (parse s).2) ∧
    (∀ o ∈ (rawIterFrom idx s).1, o.wf) := by
  induction n with
  | zero =>
    intro idx s hs
    have : s = [] := by simpa using hs
    subst this; simp [rawIterFrom_nil, parse_nil]
  | succ n ih =>
    intro idx s hs
    rcases s with _ | ⟨b, t⟩
    · simp [rawIterFrom_nil, parse_nil]
    · rw [rawIterFrom_cons, parse_cons]
      rcases hg : getOp (b :: t) with _ | ⟨o, d, rest⟩
      · simp
      · have hlt := getOp_rest_lt hg
        obtain ⟨_, ho, hd⟩ := getOp_enc hg
        obtain ⟨i1, i2, i3⟩ := ih (idx + ((b :: t).length - rest.length)) rest (by simp at hlt hs; omega)
        refine ⟨?_, i2, ?_⟩
        · simp only [List.map_cons, i1]
          congr 1
          by_cases h : o > 0x4e
          · simp [RawOp.pair, h, hd h]
          · simp [RawOp.pair, h]
        · intro x hx
          simp only [List.mem_cons] at hx
          rcases hx with rfl | hx
          · refine ⟨ho, ?_⟩
            by_cases h : o > 0x4e
            · simp [h]
            · simp [h]; omega
          · exact i3 x hx

theorem rawIter_parse (s : Bytes) :
    (rawIter s).1.map RawOp.pair = (parse s).1 ∧ ((rawIter s).2.isNone = (parse s).2) ∧
      (∀ o ∈ (rawIter s).1, o.wf) :=
  rawIterFrom_parse s.length 0 s (Nat.le_refl _)

theorem rawIterFrom_partition (n : Nat) : ∀ (idx : Nat) (s : Bytes), s.length ≤ n →
    ∃ rest, s = ((rawIterFrom idx s).1.map RawOp.enc).flatten ++ rest ∧
      ((rawIterFrom idx s).2 = none → rest = []) ∧
      (∀ e, (rawIterFrom idx s).2 = some e →
        ∃ b t, rest = b :: t ∧ e = truncErr b t ∧ TruncatedPush rest) ∧
      (∀ i (h : i < (rawIterFrom idx s).1.length),
        ((rawIterFrom idx s).1[i]).sopIdx =
          idx + (((rawIterFrom idx s).1.take i).map RawOp.enc).flatten.length) := by
  induction n with
  | zero =>
    intro idx s hs
    have : s = [] := by simpa using hs
    subst this
    exact ⟨[], by simp [rawIterFrom_nil]⟩
  | succ n ih =>
    intro idx s hs
    rcases s with _ | ⟨b, t⟩
    · exact ⟨[], by simp [rawIterFrom_nil]⟩
    · rw [rawIterFrom_cons]
      rcases hg : getOp (b :: t) with _ | ⟨o, d, rest'⟩
      · refine ⟨b :: t, by simp, by simp, fun e he => ⟨b, t, rfl, ?_, getOp_none_trunc hg⟩, by simp⟩
        simpa using he.symm
      · have hlt := getOp_rest_lt hg
        obtain ⟨hs', _, hd⟩ := getOp_enc hg
        have henc : RawOp.enc ⟨o, if o > 0x4e then none else some d, idx⟩ = opEnc o d := by
          by_cases h : o > 0x4e
          · simp [RawOp.enc, h, hd h]
          · simp [RawOp.enc, h]
        have hidx : idx + ((b :: t).length - rest'.length) = idx + (opEnc o d).length := by
          have := congrArg List.length hs'
          rw [List.length_append] at this; omega
        dsimp only
        rw [hidx]
        obtain ⟨rest, i1, i2, i3, i4⟩ := ih (idx + (opEnc o d).length) rest' (by simp at hlt hs; omega)
        refine ⟨rest, ?_, i2, i3, ?_⟩
        · simp only [List.map_cons, List.flatten_cons, henc, List.append_assoc]
          rw [← i1]; exact hs'
        · intro i hi
          rcases i with _ | i
          · simp
          · simp only [List.getElem_cons_succ, List.take_succ_cons, List.map_cons, List.flatten_cons,
              List.length_append, henc]
            rw [i4 i (by simpa using hi)]; omega

end BtcVerif
