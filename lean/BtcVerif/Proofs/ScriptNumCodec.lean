/-
  C06 — the model's number codec (`_bignum.bn2vch / vch2bn` through the MPI route) equals the
  reference `CScriptNum` (`serialize` / `set_vch`).
-/
import BtcVerif.Proofs.ScriptEquivBasic
import Mathlib.Tactic.ByContra

namespace BtcVerif.Model.ScriptEval
open BtcVerif BtcVerif.Spec BtcVerif.Spec.Script BtcVerif.Model.Script

/-! ### decoding -/

theorem beNat_append_singleton (x : Bytes) (y : UInt8) : beNat (x ++ [y]) = beNat x * 256 + y.toNat := by
  simp [beNat, List.foldl_append]

theorem beNat_reverse (l : Bytes) : beNat l.reverse = leNat l := by
  induction l with
  | nil => rfl
  | cons b bs ih =>
    rw [List.reverse_cons, beNat_append_singleton, ih]
    simp only [leNat]; omega

theorem leNat_append_singleton (x : Bytes) (y : UInt8) :
    leNat (x ++ [y]) = leNat x + 256 ^ x.length * y.toNat := by
  induction x with
  | nil => simp [leNat]
  | cons b bs ih =>
    simp only [List.cons_append, leNat, ih, List.length_cons, Nat.pow_succ]
    rw [Nat.mul_add, Nat.mul_comm (256 ^ bs.length) 256, Nat.mul_assoc, Nat.add_assoc]

theorem vch2bn_eq (s : Bytes) (h : s.length < 2 ^ 32) : vch2bn s = .ok (Ref.scriptNumDecode s) := by
  unfold vch2bn Ref.scriptNumDecode
  have h' : ¬ s.length ≥ 2 ^ 32 := by omega
  simp only [h', if_false]
  cases hr : s.reverse with
  | nil =>
    have : s = [] := by simpa using hr
    subst this; rfl
  | cons t r =>
    have hs : s = r.reverse ++ [t] := by
      have := congrArg List.reverse hr
      simpa using this
    have hlast : s.getLast? = some t := by rw [hs]; simp
    have hlen : s.length - 1 = r.length := by rw [hs]; simp
    have hle : leNat s = leNat r.reverse + 256 ^ r.length * t.toNat := by
      rw [hs, leNat_append_singleton]; simp
    simp only [hlast, hlen]
    by_cases ht : t.toNat ≥ 0x80
    · simp only [ht, if_true]
      congr 2
      have h1 : beNat (UInt8.ofNat (t.toNat - 0x80) :: r) = leNat (r.reverse ++ [UInt8.ofNat (t.toNat - 0x80)]) := by
        rw [← beNat_reverse]; simp
      rw [h1, leNat_append_singleton, hle]
      have h2 : (UInt8.ofNat (t.toNat - 0x80)).toNat = t.toNat - 0x80 := by
        have := t.toNat_lt
        rw [UInt8.toNat_ofNat']; omega
      rw [h2]
      simp only [List.length_reverse]
      have : 256 ^ r.length * t.toNat = 256 ^ r.length * (t.toNat - 128) + 128 * 256 ^ r.length := by
        have ht' : t.toNat = (t.toNat - 128) + 128 := by omega
        conv => lhs; rw [ht']
        rw [Nat.mul_add, Nat.mul_comm (256 ^ r.length) 128]
      omega
    · simp only [ht, if_false]
      congr 2
      have h1 : beNat (t :: r) = leNat (r.reverse ++ [t]) := by rw [← beNat_reverse]; simp
      rw [h1, hs]

/-- `_CastToBigNum` against `CScriptNum(vch, false, 4)` -/
theorem castToBigNum_eq (s : Bytes) (st : St) :
    match Ref.scriptNum? s with
    | none => ∃ e, castToBigNum s st = .error e
    | some v => castToBigNum s st = .ok v := by
  unfold Ref.scriptNum? castToBigNum
  by_cases hl : s.length > MAX_NUM_SIZE
  · simp only [hl, if_true]
    by_cases h32 : s.length < 2 ^ 32
    · rw [vch2bn_eq s h32]; exact ⟨_, rfl⟩
    · refine ⟨.py "error", ?_⟩
      have : s.length ≥ 2 ^ 32 := by omega
      simp [vch2bn, this, bind, Except.bind]
  · simp only [hl, if_false]
    have h32 : s.length < 2 ^ 32 := by simp only [MAX_NUM_SIZE] at hl; omega
    rw [vch2bn_eq s h32]; rfl

/-! ### encoding -/

theorem lt_two_pow_bitLength (n : Nat) : n < 2 ^ bitLength n := by
  induction n using Nat.strongRecOn with
  | _ n ih =>
    by_cases h0 : n = 0
    · subst h0; simp [bitLength_zero]
    · rw [bitLength_pos h0, Nat.pow_succ]
      have := ih (n / 2) (by omega)
      omega

theorem bitLength_half (n : Nat) : bitLength (n / 2) = bitLength n - 1 := by
  by_cases h0 : n = 0
  · subst h0; simp [bitLength_zero]
  · rw [bitLength_pos h0]; omega

theorem bitLength_div256 (n : Nat) : bitLength (n / 256) = bitLength n - 8 := by
  have h : n / 256 = n / 2 / 2 / 2 / 2 / 2 / 2 / 2 / 2 := by
    simp only [Nat.div_div_eq_div_mul]
  rw [h]
  simp only [bitLength_half]
  omega

theorem bitLength_ge_of_ge {n k : Nat} (h : 2 ^ k ≤ n) : k + 1 ≤ bitLength n := by
  have := lt_two_pow_bitLength n
  by_contra hc
  have hle : bitLength n ≤ k := by omega
  have : 2 ^ bitLength n ≤ 2 ^ k := Nat.pow_le_pow_right (by omega) hle
  omega

theorem bnBytes_succ {n : Nat} (h : n ≠ 0) : bnBytes n false = bnBytes (n / 256) false + 1 := by
  have hp := bitLength_pos h
  simp only [bnBytes, bitLength_div256]
  simp
  omega

theorem bnBytes_zero : bnBytes 0 false = 0 := by simp [bnBytes, bitLength_zero]

theorem leMinimal_zero : Ref.leMinimal 0 = [] := by rw [Ref.leMinimal]; simp

theorem leMinimal_pos {n : Nat} (h : n ≠ 0) :
    Ref.leMinimal n = UInt8.ofNat (n % 256) :: Ref.leMinimal (n / 256) := by
  rw [Ref.leMinimal]; simp [h]

theorem leMinimal_eq (n : Nat) : Ref.leMinimal n = leBytes (bnBytes n false) n := by
  induction n using Nat.strongRecOn with
  | _ n ih =>
    by_cases h0 : n = 0
    · subst h0; simp [leMinimal_zero, bnBytes_zero, leBytes]
    · rw [leMinimal_pos h0, bnBytes_succ h0, leBytes, ih (n / 256) (by omega)]

theorem leBytes_eq_map (w n : Nat) :
    leBytes w n = (List.range w).map (fun j => UInt8.ofNat (n / 256 ^ j % 256)) := by
  induction w generalizing n with
  | zero => rfl
  | succ w ih =>
    rw [leBytes, List.range_succ_eq_map, List.map_cons, List.map_map, ih]
    congr 1
    · simp
    · apply List.map_congr_left
      intro j _
      simp only [Function.comp, Nat.pow_succ, Nat.div_div_eq_div_mul, Nat.mul_comm]

theorem bn2bin_reverse (n : Nat) : (bn2bin n).reverse = Ref.leMinimal n := by
  rw [leMinimal_eq, leBytes_eq_map, bn2bin, ← List.map_reverse, List.reverse_reverse]

/-- the top byte of the minimal encoding has its high bit set exactly when the bit length is a
    multiple of 8 (`have_ext` of `bn2mpi`) -/
theorem haveExt_spec (n : Nat) (h : n ≠ 0) :
    ∃ last, (Ref.leMinimal n).getLast? = some last ∧ (bitLength n % 8 = 0 ↔ last.toNat ≥ 0x80) := by
  induction n using Nat.strongRecOn with
  | _ n ih =>
    by_cases hlt : n < 256
    · have hq : n / 256 = 0 := by omega
      rw [leMinimal_pos h, hq, leMinimal_zero]
      refine ⟨UInt8.ofNat (n % 256), rfl, ?_⟩
      have hv : (UInt8.ofNat (n % 256)).toNat = n := by rw [UInt8.toNat_ofNat']; omega
      rw [hv]
      have hpos := bitLength_pos h
      have hle8 : bitLength n ≤ 8 := bitLength_le (by omega : n < 2 ^ 8)
      constructor
      · intro hm
        by_contra hc
        have : bitLength n ≤ 7 := bitLength_le (by omega : n < 2 ^ 7)
        omega
      · intro hge
        have := bitLength_ge_of_ge (by omega : 2 ^ 7 ≤ n)
        omega
    · have hq : n / 256 ≠ 0 := by omega
      obtain ⟨last, hl, hiff⟩ := ih (n / 256) (by omega) hq
      rw [leMinimal_pos h]
      refine ⟨last, ?_, ?_⟩
      · cases hm : Ref.leMinimal (n / 256) with
        | nil => rw [hm] at hl; simp at hl
        | cons x r => rw [hm] at hl; simpa [List.getLast?_cons_cons] using hl
      · rw [← hiff, bitLength_div256]
        have := bitLength_ge_of_ge (by omega : 2 ^ 8 ≤ n)
        omega

theorem bn2vch_eq (v : Int) : bn2vch v = .ok (Ref.scriptNumSer v) := by
  unfold bn2vch bn2mpiBody Ref.scriptNumSer
  by_cases hz : v = 0
  · subst hz
    simp [bitLength_zero, bn2bin, bnBytes, bind, Except.bind]
  · have hne : v.natAbs ≠ 0 := by omega
    obtain ⟨last, hlast, hiff⟩ := haveExt_spec v.natAbs hne
    have hbl : bitLength v.natAbs > 0 := by have := bitLength_pos hne; omega
    have hrev := bn2bin_reverse v.natAbs
    simp only [hz, if_false, hlast]
    by_cases hneg : v < 0
    · by_cases hext : bitLength v.natAbs % 8 = 0
      · have hge := hiff.mp hext
        simp [hneg, hbl, hext, hge, bind, Except.bind, hrev]
      · have hge : ¬ last.toNat ≥ 0x80 := fun h => hext (hiff.mpr h)
        cases hb : bn2bin v.natAbs with
        | nil =>
          have : Ref.leMinimal v.natAbs = [] := by rw [← hrev, hb]; rfl
          rw [this] at hlast; simp at hlast
        | cons x r =>
          have hm : Ref.leMinimal v.natAbs = r.reverse ++ [x] := by rw [← hrev, hb]; simp
          have hx : last = x := by rw [hm] at hlast; simpa using hlast.symm
          subst hx
          have hx128 : last.toNat % 128 = last.toNat := by omega
          simp [hneg, hbl, hext, hge, bind, Except.bind, hm, hx128]
    · by_cases hext : bitLength v.natAbs % 8 = 0
      · have hge := hiff.mp hext
        simp [hneg, hbl, hext, hge, bind, Except.bind, hrev]
      · have hge : ¬ last.toNat ≥ 0x80 := fun h => hext (hiff.mpr h)
        simp [hneg, hbl, hext, hge, bind, Except.bind, hrev]

end BtcVerif.Model.ScriptEval
