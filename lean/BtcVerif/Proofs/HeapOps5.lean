/-
  C09 helper lemmas, part 14: transaction roots; edits of `tx.vin`.
-/
import BtcVerif.Proofs.HeapOps4

namespace BtcVerif.Model.Heap
open BtcVerif BtcVerif.Spec.ValueSem

/-- what a name denotes, as far as the transaction edits care -/
inductive TxRoot (s : St) (sp : Store) (r : Nat) : Prop
  | none (h1 : s.root r = none) (h2 : (sp[r]?).join = none)
  | other (a : Addr) (e : Entry) (h1 : s.root r = some a) (h2 : (sp[r]?).join = some e)
      (h3 : txParts s.heap a = none) (h4 : lookupTx sp r = none)
  | tx (a : Addr) (e : Entry) (tv : Tx) (o : Obj) (vi vo w : Addr)
      (h1 : s.root r = some a) (h2 : (sp[r]?).join = some e) (hval : e.val = .tx tv)
      (h3 : txParts s.heap a = some (o, vi, vo, w)) (h4 : lookupTx sp r = some (e, tv))
      (ho : s.heap[a]? = some o) (hm : o.isMut = e.isMut)
      (t0 : s.target ⟨r, []⟩ = some a) (t1 : s.target ⟨r, [0]⟩ = some vi) (t2 : s.target ⟨r, [1]⟩ = some vo)

theorem kind_tx {sc : Scalars} : sc.kind = 5 → ∃ ver lock, sc = .tx ver lock := by
  cases sc with
  | tx ver lock => intro _; exact ⟨ver, lock, rfl⟩
  | seq k => cases k <;> simp [Scalars.kind]
  | _ => simp [Scalars.kind]

theorem kind_ins {sc : Scalars} : sc.kind = 8 → sc = .seq .ins := by
  cases sc with
  | seq k => cases k <;> simp [Scalars.kind]
  | _ => simp [Scalars.kind]

theorem kind_outs {sc : Scalars} : sc.kind = 9 → sc = .seq .outs := by
  cases sc with
  | seq k => cases k <;> simp [Scalars.kind]
  | _ => simp [Scalars.kind]

theorem txParts_none_of_kind {h : Heap} {a : Addr} {o : Obj} (ho : h[a]? = some o) (hk : o.sc.kind ≠ 5) :
    txParts h a = none := by
  simp only [txParts, ho]
  cases hsc : o.sc <;> first | rfl | (exfalso; apply hk; rw [hsc]; rfl)

theorem assemble_tx_inv {ver : Int} {lock : Nat} {vs : List Val} {v : Val}
    (h : assemble (.tx ver lock) vs = some v) :
    ∃ vin vout w, vs = [.ins vin, .outs vout, .wit w] := by
  match vs, h with
  | [.ins vin, .outs vout, .wit w], _ => exact ⟨vin, vout, w, rfl⟩

theorem txRoot {s : St} {sp : Store} (hinv : Inv s) (hrel : Rel s sp) (r : Nat) : TxRoot s sp r := by
  rcases root_tx_sim hinv hrel r with ⟨h1, h2⟩ | ⟨a, e, t, h1, h2, hu, hd, hm, _, _⟩
  · exact .none h1 h2
  · have hu' := hu
    rw [D_eq] at hu'
    obtain ⟨o, kids, ho, hk, rfl⟩ := unfoldA_succ hu'
    obtain ⟨vs, hvs, hasm⟩ := decode_inv hd
    have hkind := assemble_kind hasm
    have hlen := mapO_length hk
    have hlen2 := mapO_length hvs
    by_cases hk5 : o.sc.kind = 5
    · obtain ⟨ver, lock, hsc⟩ := kind_tx hk5
      rw [hsc] at hasm
      obtain ⟨vin, vout, wv, rfl⟩ := assemble_tx_inv hasm
      simp only [assemble, Option.some.injEq] at hasm
      have hval : e.val = .tx { nVersion := ver, vin := vin, vout := vout, wit := wv, nLockTime := lock } :=
        hasm.symm
      simp at hlen2
      have h3 : o.refs.length = 3 := by omega
      match hr : o.refs, h3 with
      | [vi, vo, w], _ =>
        have hal : a < s.heap.length := (List.getElem?_eq_some_iff.mp ho).1
        have hkid : ∀ (i : Nat) (c : Addr), o.refs[i]? = some c → c < s.heap.length := by
          intro i c hc
          obtain ⟨k, _, huc⟩ := mapO_getElem hk i c hc
          obtain ⟨oc, _, hoc, _, _⟩ := unfoldA_succ huc
          exact (List.getElem?_eq_some_iff.mp hoc).1
        refine .tx a e _ o vi vo w h1 h2 hval ?_ ?_ ho hm ?_ ?_ ?_
        · simp [txParts, ho, hsc, hr]
        · simp [lookupTx, h2, hval]
        · simp [St.target, h1, resolve, hal]
        · have := hkid 0 vi (by rw [hr]; rfl)
          simp [St.target, h1, resolve, ho, hr, this]
        · have := hkid 1 vo (by rw [hr]; rfl)
          simp [St.target, h1, resolve, ho, hr, this]
    · refine .other a e h1 h2 (txParts_none_of_kind ho hk5) ?_
      simp only [lookupTx, h2]
      cases hval : e.val <;> first | rfl | (exfalso; apply hk5; rw [← hkind, hval]; rfl)

/-- the three ways an edit of a transaction root is a no-op on both sides -/
theorem sim_noTx {s : St} {sp : Store} (hinv : Inv s) (hrel : Rel s sp) :
    Inv s.skip ∧ Rel s.skip (Spec.ValueSem.bind sp none) := ⟨inv_skip hinv, rel_skip hrel⟩

/-- the list `tx.vin` of a transaction root, as a target -/
structure VinInfo (s : St) (sp : Store) (r : Nat) (e : Entry) (tv : Tx) (vi : Addr) where
  I : TInfo s sp ⟨r, [0]⟩ vi
  kids : List ATree
  he : I.e = e
  hsc : I.o.sc = .seq .ins
  hmut : I.o.isMut = e.isMut
  htx : I.tx = .node vi I.o.isMut (.seq .ins) kids
  hkids : mapO (unfoldA I.g s.heap) I.o.refs = some kids
  hdec : mapO decode kids = some (tv.vin.map .txin)
  hg : I.g = 4 + 2
  hfl : I.o.isMut = true → flagsOKL true kids

theorem vinInfo {s : St} {sp : Store} (hinv : Inv s) (hrel : Rel s sp) {r : Nat} {e : Entry} {tv : Tx}
    {vi : Addr} (h2 : (sp[r]?).join = some e) (hval : e.val = .tx tv) (t1 : s.target ⟨r, [0]⟩ = some vi) :
    Nonempty (VinInfo s sp r e tv vi) := by
  obtain ⟨I⟩ := target_some hinv hrel t1
  have he : I.e = e := by have := I.hentry; simp only at this; rw [h2] at this; cases this; rfl
  have hlook := I.hlook
  simp only [lookup, I.hentry, Option.bind_eq_bind, Option.bind_some, he, hval, Val.getM, Val.child] at hlook
  simp only [Val.alwaysImm, Bool.not_false, Bool.and_true, Option.some.injEq, Prod.mk.injEq] at hlook
  obtain ⟨hm, hvx⟩ := hlook
  obtain ⟨o, kids, ho, hk, htx⟩ := unfoldA_succ I.hux
  rw [I.ho] at ho; cases ho
  have hdx := I.hdx
  rw [htx, ← hvx] at hdx
  obtain ⟨vs, hvs, hasm⟩ := decode_inv hdx
  have hkind := assemble_kind hasm
  have hsc : I.o.sc = .seq .ins := by
    exact kind_ins hkind.symm
  rw [hsc] at hasm htx
  simp only [assemble, Option.map_eq_some_iff] at hasm
  obtain ⟨l, hl, hle⟩ := hasm
  cases hle
  have hvs' : vs = tv.vin.map .txin := mapO_asTxIn hl
  refine ⟨{ I := I, kids := kids, he := he, hsc := hsc, hmut := by rw [← I.hom, ← hm], htx := htx,
            hkids := hk, hdec := by rw [← hvs']; exact hvs, hg := ?_, hfl := ?_ }⟩
  · have := I.hD
    simp only [D, List.length_cons, List.length_nil] at this
    omega
  · intro hmu
    have := I.hfx
    rw [htx, hmu] at this
    exact this.2

theorem put_vin (tv : Tx) (l : List TxIn) :
    (Val.tx tv).put [0] (.ins l) = some (.tx { tv with vin := l }) := by
  simp [Val.put, Val.child, Val.putChild]

theorem flagsOKL_append {m : Bool} {a b : List ATree} (ha : flagsOKL m a) (hb : flagsOKL m b) :
    flagsOKL m (a ++ b) := by
  rw [flagsOKL_iff] at ha hb ⊢
  intro k hk
  rcases List.mem_append.mp hk with h | h
  · exact ha k h
  · exact hb k h

theorem flagsOKL_eraseIdx {m : Bool} {a : List ATree} (i : Nat) (ha : flagsOKL m a) :
    flagsOKL m (a.eraseIdx i) := by
  rw [flagsOKL_iff] at ha ⊢
  intro k hk
  exact ha k (List.mem_of_mem_eraseIdx hk)

theorem mapO_eraseIdx {α β : Type} {f : α → Option β} :
    ∀ {l : List α} {bs : List β} (i : Nat), mapO f l = some bs → mapO f (l.eraseIdx i) = some (bs.eraseIdx i)
  | [], _, i, h => by simp [mapO] at h; subst h; simp [mapO]
  | a :: as, bs, i, h => by
    simp only [mapO] at h
    cases hfa : f a with
    | none => simp [hfa] at h
    | some b =>
      simp only [hfa] at h
      cases hm : mapO f as with
      | none => simp [hm] at h
      | some bs' =>
        simp only [hm, Option.some.injEq] at h
        subst h
        cases i with
        | zero => simp [hm]
        | succ i => simp [mapO, hfa, mapO_eraseIdx i hm]

theorem mapO_ext_heap {h : Heap} (e : Heap) {g : Nat} {refs : List Addr} {kids : List ATree}
    (hk : mapO (unfoldA g h) refs = some kids) : mapO (unfoldA g (h ++ e)) refs = some kids :=
  mapO_congr_some (fun _ _ _ hb => unfoldA_ext e hb) hk

/-- `tx.vin.append(CMutableTxIn(…))` -/
theorem sim_appendIn {s : St} {sp : Store} (hinv : Inv s) (hrel : Rel s sp) (r : Nat) (v : TxIn) :
    Sim s sp (.appendIn r v) := by
  simp only [Sim, step, Spec.ValueSem.step, withTx, editList]
  cases txRoot hinv hrel r with
  | none h1 h2 => simp only [h1, lookupTx, h2]; exact ⟨inv_skip hinv, rel_skip hrel, by simp⟩
  | other a e h1 h2 h3 h4 => simp only [h1, h3, h4, h2]; exact ⟨inv_skip hinv, rel_skip hrel, by simp⟩
  | tx a e tv o vi vo w h1 h2 hval h3 h4 ho hm t0 t1 t2 =>
    obtain ⟨V⟩ := vinInfo hinv hrel h2 hval t1
    simp only [h1, h3, h4, V.I.ho, V.hmut, Bool.not_true, Bool.false_eq_true, if_false]
    cases hmu : e.isMut with
    | false => exact ⟨inv_skip hinv, rel_skip hrel, by simp⟩
    | true =>
      simp only [Bool.not_true, Bool.false_eq_true, if_false]
      cases hv : validTxIn v with
      | false => exact ⟨inv_skip hinv, rel_skip hrel, by simp⟩
      | true =>
        simp only [Bool.not_true, Bool.false_eq_true, if_false, if_true]
        have hom : V.I.o.isMut = true := by rw [V.hmut, hmu]
        have hgood : PlanGood s.heap V.I.g (planTxIn true v) := by rw [V.hg]; exact good_planTxIn s.heap true v 4
        obtain ⟨ee, tc, he, hnew, hic, htc, hpt, hcnt⟩ := alloc_good hinv hgood
        rw [V.hg] at hpt
        obtain ⟨hdc, hfc⟩ := tree_planTxIn hpt
        have hsc : tc.sc.alwaysImm = false := by rw [(PT.root_sc hpt).1]; rfl
        have htx' : V.I.tx = .node vi true V.I.o.sc V.kids := by rw [V.htx, hom, V.hsc]
        have hk' : mapO (unfoldA V.I.g (allocPlan s.heap (planTxIn true v)).1)
            (V.I.o.refs ++ [(allocPlan s.heap (planTxIn true v)).2]) = some (V.kids ++ [tc]) := by
          rw [he]
          apply mapO_append (mapO_ext_heap ee V.hkids)
          rw [← he]; simp [mapO, htc]
        have hres := mutate_kids hinv hrel V.I hom htx' he hnew hic hk'
          (by intro y; rw [cntL_append]; simp only [cntL, Nat.add_zero]; have := hcnt y; omega)
          (flagsOKL_append (V.hfl hom) (by simp [flagsOKL, hsc, hfc]))
          (w := .ins (tv.vin ++ [v])) (v' := .tx { tv with vin := tv.vin ++ [v] })
          (by
            rw [V.hsc, decode_node, mapO_append V.hdec (b2 := [.txin v]) (by simp [mapO, hdc])]
            have hmap : tv.vin.map Val.txin ++ [Val.txin v] = (tv.vin ++ [v]).map Val.txin := by simp
            simp only [Option.bind_some, assemble, hmap, mapO_asTxIn_map, Option.map_some])
          (by rw [V.he, hval]; exact put_vin tv _)
        obtain ⟨k1, k2⟩ := hres
        rw [V.he] at k2
        exact ⟨k1, by simpa [hmu] using k2, trivial⟩

theorem map_eraseIdx' {α β : Type} (f : α → β) : ∀ (l : List α) (i : Nat),
    (l.map f).eraseIdx i = (l.eraseIdx i).map f
  | [], _ => rfl
  | _ :: _, 0 => rfl
  | a :: l, i + 1 => by simp [map_eraseIdx' f l i]

theorem cntL_eraseIdx_le {y : Addr} (ts : List ATree) (i : Nat) : cntL y (ts.eraseIdx i) ≤ cntL y ts := by
  cases hk : ts[i]? with
  | none =>
    rw [List.eraseIdx_of_length_le (List.getElem?_eq_none_iff.mp hk)]
    exact Nat.le_refl _
  | some k => have := cntL_eraseIdx (x := y) hk; omega

/-- `tx.vin[i] = CMutableTxIn(…)` -/
theorem sim_replaceIn {s : St} {sp : Store} (hinv : Inv s) (hrel : Rel s sp) (r i : Nat) (v : TxIn) :
    Sim s sp (.replaceIn r i v) := by
  simp only [Sim, step, Spec.ValueSem.step, withTx, editList]
  cases txRoot hinv hrel r with
  | none h1 h2 => simp only [h1, lookupTx, h2]; exact ⟨inv_skip hinv, rel_skip hrel, by simp⟩
  | other a e h1 h2 h3 h4 => simp only [h1, h3, h4, h2]; exact ⟨inv_skip hinv, rel_skip hrel, by simp⟩
  | tx a e tv o vi vo w h1 h2 hval h3 h4 ho hm t0 t1 t2 =>
    obtain ⟨V⟩ := vinInfo hinv hrel h2 hval t1
    simp only [h1, h3, h4, V.I.ho, V.hmut]
    cases hv : validTxIn v with
    | false => exact ⟨inv_skip hinv, rel_skip hrel, by simp⟩
    | true =>
      simp only [Bool.not_true, Bool.false_eq_true, if_false]
      cases hmu : e.isMut with
      | false => exact ⟨inv_skip hinv, rel_skip hrel, by simp⟩
      | true =>
        simp only [Bool.not_true, Bool.false_eq_true, if_false]
        have hom : V.I.o.isMut = true := by rw [V.hmut, hmu]
        have hl1 := mapO_length V.hkids
        have hl2 := mapO_length V.hdec
        have hlen : V.I.o.refs.length = tv.vin.length := by simp at hl2; omega
        rw [hlen]
        by_cases hi : i < tv.vin.length
        · simp only [hi, if_true]
          have hgood : PlanGood s.heap V.I.g (planTxIn true v) := by
            rw [V.hg]; exact good_planTxIn s.heap true v 4
          obtain ⟨ee, tc, he, hnew, hic, htc, hpt, hcnt⟩ := alloc_good hinv hgood
          rw [V.hg] at hpt
          obtain ⟨hdc, hfc⟩ := tree_planTxIn hpt
          have hsc : tc.sc.alwaysImm = false := by rw [(PT.root_sc hpt).1]; rfl
          have htx' : V.I.tx = .node vi true V.I.o.sc V.kids := by rw [V.htx, hom, V.hsc]
          have hk' : mapO (unfoldA V.I.g (allocPlan s.heap (planTxIn true v)).1)
              (V.I.o.refs.set i (allocPlan s.heap (planTxIn true v)).2) = some (V.kids.set i tc) := by
            apply mapO_list_set i _ htc
            rw [he]; exact mapO_ext_heap ee V.hkids
          have hki : i < V.kids.length := by omega
          have hres := mutate_kids hinv hrel V.I hom htx' he hnew hic hk'
            (by
              intro y
              have := cntL_set (x := y) (k' := tc) (List.getElem?_eq_getElem hki)
              have := hcnt y
              omega)
            (flagsOKL_set (V.hfl hom) (by simp [hsc, hfc]))
            (w := .ins (tv.vin.set i v)) (v' := .tx { tv with vin := tv.vin.set i v })
            (by
              rw [V.hsc, decode_node, mapO_list_set i V.hdec hdc]
              simp only [Option.bind_some, assemble, ← List.map_set, mapO_asTxIn_map, Option.map_some])
            (by rw [V.he, hval]; exact put_vin tv _)
          obtain ⟨k1, k2⟩ := hres
          rw [V.he] at k2
          exact ⟨k1, by simpa [hmu] using k2, trivial⟩
        · simp only [hi, if_false]
          exact ⟨inv_skip hinv, rel_skip hrel, trivial⟩

/-- `del tx.vin[i]` -/
theorem sim_removeIn {s : St} {sp : Store} (hinv : Inv s) (hrel : Rel s sp) (r i : Nat) :
    Sim s sp (.removeIn r i) := by
  simp only [Sim, step, Spec.ValueSem.step, withTx, editList, withList]
  cases txRoot hinv hrel r with
  | none h1 h2 => simp only [h1, lookupTx, h2]; exact ⟨inv_skip hinv, rel_skip hrel, by simp⟩
  | other a e h1 h2 h3 h4 => simp only [h1, h3, h4, h2]; exact ⟨inv_skip hinv, rel_skip hrel, by simp⟩
  | tx a e tv o vi vo w h1 h2 hval h3 h4 ho hm t0 t1 t2 =>
    obtain ⟨V⟩ := vinInfo hinv hrel h2 hval t1
    simp only [h1, h3, h4, V.I.ho, V.hmut, Bool.not_true, Bool.false_eq_true, if_false]
    cases hmu : e.isMut with
    | false => exact ⟨inv_skip hinv, rel_skip hrel, by simp⟩
    | true =>
      simp only [Bool.not_true, Bool.false_eq_true, if_false]
      have hom : V.I.o.isMut = true := by rw [V.hmut, hmu]
      have hl1 := mapO_length V.hkids
      have hl2 := mapO_length V.hdec
      have hlen : V.I.o.refs.length = tv.vin.length := by simp at hl2; omega
      rw [hlen]
      by_cases hi : i < tv.vin.length
      · simp only [hi, if_true]
        have htx' : V.I.tx = .node vi true V.I.o.sc V.kids := by rw [V.htx, hom, V.hsc]
        have hres := mutate_kids hinv hrel V.I hom htx' (h1 := s.heap) (e := []) (by simp) (by simp)
          hinv.immClosed (mapO_eraseIdx i V.hkids)
          (by intro y; have := cntL_eraseIdx_le (y := y) V.kids i; omega)
          (flagsOKL_eraseIdx i (V.hfl hom))
          (w := .ins (tv.vin.eraseIdx i)) (v' := .tx { tv with vin := tv.vin.eraseIdx i })
          (by
            rw [V.hsc, decode_node, mapO_eraseIdx i V.hdec]
            simp only [Option.bind_some, assemble, map_eraseIdx', mapO_asTxIn_map, Option.map_some])
          (by rw [V.he, hval]; exact put_vin tv _)
        obtain ⟨k1, k2⟩ := hres
        rw [V.he] at k2
        exact ⟨by simpa [hom] using k1, by simpa [hmu, hom] using k2, trivial⟩
      · simp only [hi, if_false]
        exact ⟨inv_skip hinv, rel_skip hrel, trivial⟩

end BtcVerif.Model.Heap
