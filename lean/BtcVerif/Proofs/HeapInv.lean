/-
  C09 helper lemmas, part 6: the invariant and its preservation by the generic kinds of step
  (no heap change; heap extension binding a new name; cache fill).
-/
import BtcVerif.Proofs.HeapVal

namespace BtcVerif.Model.Heap
open BtcVerif BtcVerif.Spec.ValueSem

/-! ### resolve vs. sub -/

theorem resolve_sub {h : Heap} : ∀ {p : List Nat} {f : Nat} {a : Addr} {t : ATree},
    unfoldA f h a = some t → resolve h a p = (sub t p).map ATree.addr
  | [], f, a, t, hu => by
    cases f with
    | zero => simp [unfoldA] at hu
    | succ f =>
      obtain ⟨o, kids, ho, _, rfl⟩ := unfoldA_succ hu
      simp [resolve, sub, ATree.addr, (List.getElem?_eq_some_iff.mp ho).1]
  | i :: p, 0, a, t, hu => by simp [unfoldA] at hu
  | i :: p, f + 1, a, t, hu => by
    obtain ⟨o, kids, ho, hk, rfl⟩ := unfoldA_succ hu
    simp only [resolve, ho, sub, Option.bind_eq_bind, Option.bind_some]
    cases hc : o.refs[i]? with
    | none =>
      have : kids[i]? = none := by
        have := mapO_length hk
        rw [List.getElem?_eq_none_iff] at hc ⊢; omega
      simp [this]
    | some c =>
      obtain ⟨k, hki, huc⟩ := mapO_getElem hk i c hc
      simp only [Option.bind_some, hki]
      exact resolve_sub huc

/-! ### counting -/

mutual
theorem cnt_zero_of_not_mem (y : Addr) : ∀ (t : ATree), y ∉ addrs t → cnt y t = 0
  | .node a m sc kids, h => by
    simp only [addrs, List.mem_cons, not_or] at h
    simp only [cnt]
    have := cntL_zero_of_not_mem y kids h.2
    have hay : a ≠ y := fun e => h.1 e.symm
    cases m <;> simp [this, hay]
theorem cntL_zero_of_not_mem (y : Addr) : ∀ (ts : List ATree), y ∉ addrsL ts → cntL y ts = 0
  | [], _ => rfl
  | t :: ts, h => by
    simp only [addrsL, List.mem_append, not_or] at h
    simp [cntL, cnt_zero_of_not_mem y t h.1, cntL_zero_of_not_mem y ts h.2]
end

def cntAt (h : Heap) (y : Addr) (a : Addr) : Nat :=
  match unfoldA D h a with
  | some t => cnt y t
  | none => 0

def nameCnt (h : Heap) (y : Addr) : Option Addr → Nat
  | some a => cntAt h y a
  | none => 0

/-- occurrences of `y` in the mutable parts of all named roots -/
def total (h : Heap) (names : List (Option Addr)) (y : Addr) : Nat := (names.map (nameCnt h y)).sum

theorem total_append (h : Heap) (n1 n2 : List (Option Addr)) (y : Addr) :
    total h (n1 ++ n2) y = total h n1 y + total h n2 y := by
  simp [total, List.sum_append]

theorem total_congr {h h' : Heap} {y : Addr} : ∀ {names : List (Option Addr)},
    (∀ a, some a ∈ names → cntAt h' y a = cntAt h y a) → total h' names y = total h names y
  | names, hc => by
    unfold total
    congr 1
    apply List.map_congr_left
    intro n hn
    cases n with
    | none => rfl
    | some a => exact hc a hn

theorem nameCnt_le_total {h : Heap} {y : Addr} : ∀ {names : List (Option Addr)} {r : Nat} {n : Option Addr},
    names[r]? = some n → nameCnt h y n ≤ total h names y
  | [], r, n, hr => by simp at hr
  | n0 :: ns, 0, n, hr => by simp at hr; subst hr; simp [total]
  | n0 :: ns, r + 1, n, hr => by
    simp at hr
    have := nameCnt_le_total (h := h) (y := y) hr
    simp only [total, List.map_cons, List.sum_cons] at this ⊢
    omega

theorem total_two {h : Heap} {y : Addr} : ∀ {names : List (Option Addr)} {r r' : Nat} {n n' : Option Addr},
    r ≠ r' → names[r]? = some n → names[r']? = some n' → nameCnt h y n + nameCnt h y n' ≤ total h names y
  | [], r, _, _, _, _, hr, _ => by simp at hr
  | n0 :: ns, 0, 0, _, _, hrr, _, _ => by simp at hrr
  | n0 :: ns, 0, r' + 1, n, n', _, hr, hr' => by
    simp at hr hr'; subst hr
    have := nameCnt_le_total (h := h) (y := y) hr'
    simp only [total, List.map_cons, List.sum_cons] at this ⊢; omega
  | n0 :: ns, r + 1, 0, n, n', _, hr, hr' => by
    simp at hr hr'; subst hr'
    have := nameCnt_le_total (h := h) (y := y) hr
    simp only [total, List.map_cons, List.sum_cons] at this ⊢; omega
  | n0 :: ns, r + 1, r' + 1, n, n', hrr, hr, hr' => by
    simp at hr hr'
    have := total_two (h := h) (y := y) (by omega : r ≠ r') hr hr'
    simp only [total, List.map_cons, List.sum_cons] at this ⊢; omega

/-- replacing the contribution of the one name `r` -/
theorem total_update {h h' : Heap} {y : Addr} : ∀ {names : List (Option Addr)} {r : Nat} {n : Option Addr},
    names[r]? = some n →
    (∀ (r' : Nat) (n' : Option Addr), r' ≠ r → names[r']? = some n' → nameCnt h' y n' = nameCnt h y n') →
    total h' names y + nameCnt h y n = total h names y + nameCnt h' y n
  | [], r, n, hr, _ => by simp at hr
  | n0 :: ns, 0, n, hr, ho => by
    simp at hr; subst hr
    have : total h' ns y = total h ns y := by
      simp only [total]
      congr 1
      apply List.map_congr_left
      intro n' hn'
      obtain ⟨j, hj, rfl⟩ := List.getElem_of_mem hn'
      exact ho (j + 1) ns[j] (by omega) (by simp [hj])
    simp only [total, List.map_cons, List.sum_cons] at this ⊢; omega
  | n0 :: ns, r + 1, n, hr, ho => by
    simp at hr
    have h0 := ho 0 n0 (by omega) (by simp)
    have := total_update (h := h) (h' := h') (y := y) hr
      (fun r' n' hr' hn' => ho (r' + 1) n' (by omega) (by simpa using hn'))
    simp only [total, List.map_cons, List.sum_cons] at this ⊢; omega

/-! ### the invariant -/

/-- (ii) every filled cache slot of an immutable object holds the identifier recomputed from the
    current serialisation -/
def CacheOK (h : Heap) : Prop :=
  ∀ (a : Addr) (o : Obj), h[a]? = some o → o.isMut = false →
    (∀ c, o.cHash = some c → ∃ v, absVal h a = some v ∧ identOf v = .ok c) ∧
    (∀ c, o.cPy = some c → ∃ v, absVal h a = some v ∧ pyHashOf v = .ok c)

/-- (iii) no mutable object is reachable from two named roots (nor twice from one) -/
def Sep (s : St) : Prop := ∀ y, total s.heap s.names y ≤ 1

/-- a named root unfolds to a well-typed object graph whose mutability flags are the ones the
    value level predicts -/
def RootOK (h : Heap) (a : Addr) : Prop :=
  ∃ t v, unfoldA D h a = some t ∧ decode t = some v ∧ flagsOK t.isMut t

/-- the shared default objects (`()` and the default argument `CTxWitness()`) are where the
    constructors expect them -/
def DefaultsOK (h : Heap) : Prop :=
  ∃ o0 o1 : Obj, h[emptyTuple]? = some o0 ∧ o0.isMut = false ∧ o0.sc = .seq .stacks ∧ o0.refs = [] ∧
    h[defaultWit]? = some o1 ∧ o1.isMut = false ∧ o1.sc = .wit ∧ o1.refs = [emptyTuple]

theorem defaults_ext {h : Heap} (e : Heap) (hd : DefaultsOK h) : DefaultsOK (h ++ e) := by
  obtain ⟨o0, o1, h0, a1, a2, a3, h1, b1, b2, b3⟩ := hd
  exact ⟨o0, o1, getElem?_append_of_some e h0, a1, a2, a3, getElem?_append_of_some e h1, b1, b2, b3⟩

/-- a write keeps the defaults if it keeps flag, class and references of immutable objects -/
theorem defaults_set {h : Heap} {x : Addr} {o' : Obj} (hd : DefaultsOK h)
    (hk : ∀ o : Obj, h[x]? = some o → o.isMut = false → o'.isMut = false ∧ o'.sc = o.sc ∧ o'.refs = o.refs) :
    DefaultsOK (h.set x o') := by
  obtain ⟨o0, o1, h0, a1, a2, a3, h1, b1, b2, b3⟩ := hd
  have key : ∀ (c : Addr) (oc : Obj), h[c]? = some oc → oc.isMut = false →
      ∃ oc' : Obj, (h.set x o')[c]? = some oc' ∧ oc'.isMut = false ∧ oc'.sc = oc.sc ∧ oc'.refs = oc.refs := by
    intro c oc hoc hm
    by_cases hcx : c = x
    · subst hcx
      obtain ⟨k1, k2, k3⟩ := hk oc hoc hm
      exact ⟨o', by simp [List.getElem?_set_self (List.getElem?_eq_some_iff.mp hoc).1], k1, k2, k3⟩
    · exact ⟨oc, by rw [List.getElem?_set_ne (fun e => hcx e.symm)]; exact hoc, hm, rfl, rfl⟩
  obtain ⟨p0, q0, q1, q2, q3⟩ := key _ o0 h0 a1
  obtain ⟨p1, r0, r1, r2, r3⟩ := key _ o1 h1 b1
  exact ⟨p0, p1, q0, q1, by rw [q2, a2], by rw [q3, a3], r0, r1, by rw [r2, b2], by rw [r3, b3]⟩

structure Inv (s : St) : Prop where
  immClosed : ImmClosed s.heap
  kindOK : KindOK s.heap
  cacheOK : CacheOK s.heap
  sep : Sep s
  roots : ∀ r a, s.root r = some a → RootOK s.heap a
  defaults : DefaultsOK s.heap

theorem Inv.mk' {h : Heap} {names : List (Option Addr)} (h1 : ImmClosed h) (h2 : KindOK h) (h3 : CacheOK h)
    (h4 : ∀ y, total h names y ≤ 1) (h5 : ∀ (r : Nat) (a : Addr), (names[r]?).join = some a → RootOK h a)
    (h6 : DefaultsOK h) : Inv ⟨h, names⟩ := ⟨h1, h2, h3, h4, h5, h6⟩

theorem join_append_one {names : List (Option Addr)} {n : Option Addr} {r : Nat} {a : Addr}
    (h : ((names ++ [n])[r]?).join = some a) :
    (names[r]?).join = some a ∨ (r = names.length ∧ n = some a) := by
  by_cases h1 : r < names.length
  · left; rwa [List.getElem?_append_left h1] at h
  · right
    by_cases h2 : r = names.length
    · subst h2; simp at h; exact ⟨rfl, h⟩
    · have : (names ++ [n])[r]? = none := by
        apply List.getElem?_eq_none_iff.mpr; simp; omega
      simp [this] at h

theorem total_snoc (h : Heap) (names : List (Option Addr)) (n : Option Addr) (y : Addr) :
    total h (names ++ [n]) y = total h names y + nameCnt h y n := by
  simp [total, List.sum_append]

theorem root_bind (s : St) (h : Heap) (n : Option Addr) (r : Nat) :
    (s.bind h n).root r = if r < s.names.length then s.root r else if r = s.names.length then n else none := by
  simp only [St.root, St.bind]
  by_cases h1 : r < s.names.length
  · simp [h1, List.getElem?_append_left h1]
  · by_cases h2 : r = s.names.length
    · subst h2; simp
    · have : ¬ r < (s.names ++ [n]).length := by simp; omega
      simp [h1, h2, List.getElem?_eq_none_iff.mpr (Nat.not_lt.mp this)]

theorem root_lt {s : St} {r : Nat} {a : Addr} (h : s.root r = some a) : r < s.names.length := by
  simp only [St.root] at h
  cases hr : s.names[r]? with
  | none => simp [hr] at h
  | some n => exact (List.getElem?_eq_some_iff.mp hr).1

theorem root_mem {s : St} {r : Nat} {a : Addr} (h : s.root r = some a) : s.names[r]? = some (some a) := by
  simp only [St.root] at h
  cases hr : s.names[r]? with
  | none => simp [hr] at h
  | some n => simp [hr] at h; rw [h]

theorem mem_root {s : St} {a : Addr} (h : some a ∈ s.names) : ∃ r, s.root r = some a := by
  obtain ⟨r, hr, he⟩ := List.getElem_of_mem h
  exact ⟨r, by simp [St.root, List.getElem?_eq_getElem hr, he]⟩

theorem absVal_ext {h : Heap} (e : Heap) {a : Addr} {v : Val} (hv : absVal h a = some v) :
    absVal (h ++ e) a = some v := by
  simp only [absVal] at hv ⊢
  cases hu : unfoldA D h a with
  | none => simp [hu] at hv
  | some t => rw [unfoldA_ext e hu]; simpa [hu] using hv

theorem cntAt_ext {h : Heap} (e : Heap) {a : Addr} {y : Addr} (hr : RootOK h a) :
    cntAt (h ++ e) y a = cntAt h y a := by
  obtain ⟨t, _, hu, _⟩ := hr
  simp [cntAt, hu, unfoldA_ext e hu]

theorem rootOK_ext {h : Heap} (e : Heap) {a : Addr} (hr : RootOK h a) : RootOK (h ++ e) a := by
  obtain ⟨t, v, hu, hd, hf⟩ := hr
  exact ⟨t, v, unfoldA_ext e hu, hd, hf⟩

/-- an address beyond the old heap does not occur in an old root -/
theorem cntAt_fresh {h : Heap} {a y : Addr} (hy : h.length ≤ y) : cntAt h y a = 0 := by
  simp only [cntAt]
  cases hu : unfoldA D h a with
  | none => rfl
  | some t =>
    apply cnt_zero_of_not_mem
    intro hm
    have hlt : y < h.length := addrs_lt hu y hm
    exact absurd hlt (Nat.not_lt.mpr hy)

theorem total_fresh {h : Heap} {y : Addr} (hy : h.length ≤ y) : ∀ (names : List (Option Addr)), total h names y = 0
  | [] => rfl
  | n :: ns => by
    have := total_fresh hy ns
    simp only [total, List.map_cons, List.sum_cons] at this ⊢
    cases n <;> simp [nameCnt, cntAt_fresh hy, this]

/-- a step that changes nothing and binds no name -/
theorem inv_skip {s : St} (hinv : Inv s) : Inv s.skip := by
  apply Inv.mk' hinv.immClosed hinv.kindOK hinv.cacheOK
  · intro y
    rw [total_snoc]
    simpa [nameCnt] using hinv.sep y
  · intro r a hr
    rcases join_append_one hr with h1 | ⟨_, h1⟩
    · exact hinv.roots r a h1
    · cases h1
  · exact hinv.defaults

/-- **heap extension**: new objects are appended (empty caches, classes respected, immutability
    closed) and possibly a name is bound to a root whose mutable part is fresh -/
theorem inv_ext {s : St} (hinv : Inv s) {h' e : Heap} (he : h' = s.heap ++ e)
    (hnew : ∀ o ∈ e, o.cHash = none ∧ o.cPy = none ∧ (o.sc.alwaysImm = true → o.isMut = false))
    (hic : ImmClosed h') (n : Option Addr)
    (hn : ∀ a, n = some a → ∃ t v, unfoldA D h' a = some t ∧ decode t = some v ∧ flagsOK t.isMut t ∧
      ∀ y, cnt y t ≤ (if s.heap.length ≤ y then 1 else 0)) :
    Inv (s.bind h' n) := by
  subst he
  have hobj : ∀ (a : Addr) (o : Obj), (s.heap ++ e)[a]? = some o → s.heap[a]? = some o ∨ o ∈ e := by
    intro a o ho
    by_cases ha : a < s.heap.length
    · left; rwa [List.getElem?_append_left ha] at ho
    · right
      rw [List.getElem?_append_right (Nat.not_lt.mp ha)] at ho
      exact List.mem_of_getElem? ho
  apply Inv.mk' hic
  · intro a o ho hai
    rcases hobj a o ho with h1 | h1
    · exact hinv.kindOK a o h1 hai
    · exact (hnew o h1).2.2 hai
  · intro a o ho hm
    rcases hobj a o ho with h1 | h1
    · obtain ⟨c1, c2⟩ := hinv.cacheOK a o h1 hm
      constructor
      · intro c hc
        obtain ⟨v, hv, hi⟩ := c1 c hc; exact ⟨v, absVal_ext e hv, hi⟩
      · intro c hc
        obtain ⟨v, hv, hi⟩ := c2 c hc; exact ⟨v, absVal_ext e hv, hi⟩
    · obtain ⟨h1', h2', _⟩ := hnew o h1
      constructor
      · intro c hc; rw [h1'] at hc; cases hc
      · intro c hc; rw [h2'] at hc; cases hc
  · intro y
    rw [total_snoc]
    have hold : total (s.heap ++ e) s.names y = total s.heap s.names y := by
      apply total_congr
      intro a ha
      obtain ⟨r, hr⟩ := mem_root ha
      exact cntAt_ext e (hinv.roots r a hr)
    rw [hold]
    have hsep := hinv.sep y
    cases n with
    | none => simpa [nameCnt] using hsep
    | some a =>
      obtain ⟨t, v, hu, _, _, hc⟩ := hn a rfl
      have hcy := hc y
      have hnc : nameCnt (s.heap ++ e) y (some a) = cnt y t := by simp [nameCnt, cntAt, hu]
      rw [hnc]
      by_cases hy : s.heap.length ≤ y
      · rw [total_fresh hy s.names]; rw [if_pos hy] at hcy; omega
      · rw [if_neg hy] at hcy; omega
  · intro r a hr
    rcases join_append_one hr with h1 | ⟨_, h1⟩
    · exact rootOK_ext e (hinv.roots r a h1)
    · obtain ⟨t, v, hu, hd, hf, _⟩ := hn a h1
      exact ⟨t, v, hu, hd, hf⟩
  · exact defaults_ext e hinv.defaults

theorem immClosed_set_same {h : Heap} {x : Addr} {o o' : Obj} (hic : ImmClosed h) (hox : h[x]? = some o)
    (h1 : o'.isMut = o.isMut) (h3 : o'.refs = o.refs) : ImmClosed (h.set x o') := by
  have hget : ∀ (c : Addr) (oc : Obj), h[c]? = some oc → oc.isMut = false →
      ∃ oc' : Obj, (h.set x o')[c]? = some oc' ∧ oc'.isMut = false := by
    intro c oc hoc hmc
    by_cases hcx : c = x
    · subst hcx
      rw [hox] at hoc; cases hoc
      exact ⟨o', by simp [List.getElem?_set_self (List.getElem?_eq_some_iff.mp hox).1], by rw [h1]; exact hmc⟩
    · exact ⟨oc, by rw [List.getElem?_set_ne (fun e => hcx e.symm)]; exact hoc, hmc⟩
  intro a oa hoa hm c hc
  by_cases hax : a = x
  · subst hax
    have : oa = o' := by
      simpa [List.getElem?_set_self (List.getElem?_eq_some_iff.mp hox).1] using hoa.symm
    subst this
    rw [h3] at hc; rw [h1] at hm
    obtain ⟨oc, hoc, hmc⟩ := hic a o hox hm c hc
    exact hget c oc hoc hmc
  · rw [List.getElem?_set_ne (fun e => hax e.symm)] at hoa
    obtain ⟨oc, hoc, hmc⟩ := hic a oa hoa hm c hc
    exact hget c oc hoc hmc

theorem absVal_set_same {h : Heap} {x : Addr} {o o' : Obj} (hox : h[x]? = some o)
    (h1 : o'.isMut = o.isMut) (h2 : o'.sc = o.sc) (h3 : o'.refs = o.refs) {a : Addr} {v : Val}
    (hv : absVal h a = some v) : absVal (h.set x o') a = some v := by
  simp only [absVal] at hv ⊢
  cases hu : unfoldA D h a with
  | none => simp [hu] at hv
  | some t => rw [unfoldA_set_same hox h1 h2 h3 hu]; simpa [hu] using hv

/-- **cache fill** (or any write that keeps flag, class, values and references) -/
theorem inv_set_same {s : St} (hinv : Inv s) {x : Addr} {o o' : Obj} (hox : s.heap[x]? = some o)
    (h1 : o'.isMut = o.isMut) (h2 : o'.sc = o.sc) (h3 : o'.refs = o.refs)
    (hc : o.isMut = false →
      (∀ c, o'.cHash = some c → ∃ v, absVal s.heap x = some v ∧ identOf v = .ok c) ∧
      (∀ c, o'.cPy = some c → ∃ v, absVal s.heap x = some v ∧ pyHashOf v = .ok c)) :
    Inv (s.bind (s.heap.set x o') none) := by
  have hxl := (List.getElem?_eq_some_iff.mp hox).1
  have hself : (s.heap.set x o')[x]? = some o' := by simp [List.getElem?_set_self hxl]
  apply Inv.mk' (immClosed_set_same hinv.immClosed hox h1 h3)
  · intro a oa hoa hai
    by_cases hax : a = x
    · subst hax
      rw [hself] at hoa; cases hoa
      rw [h1]; rw [h2] at hai; exact hinv.kindOK a o hox hai
    · rw [List.getElem?_set_ne (fun e => hax e.symm)] at hoa
      exact hinv.kindOK a oa hoa hai
  · intro a oa hoa hm
    by_cases hax : a = x
    · subst hax
      rw [hself] at hoa; cases hoa
      rw [h1] at hm
      obtain ⟨c1, c2⟩ := hc hm
      constructor
      · intro c hcc
        obtain ⟨v, hv, hi⟩ := c1 c hcc; exact ⟨v, absVal_set_same hox h1 h2 h3 hv, hi⟩
      · intro c hcc
        obtain ⟨v, hv, hi⟩ := c2 c hcc; exact ⟨v, absVal_set_same hox h1 h2 h3 hv, hi⟩
    · rw [List.getElem?_set_ne (fun e => hax e.symm)] at hoa
      obtain ⟨c1, c2⟩ := hinv.cacheOK a oa hoa hm
      constructor
      · intro c hcc
        obtain ⟨v, hv, hi⟩ := c1 c hcc; exact ⟨v, absVal_set_same hox h1 h2 h3 hv, hi⟩
      · intro c hcc
        obtain ⟨v, hv, hi⟩ := c2 c hcc; exact ⟨v, absVal_set_same hox h1 h2 h3 hv, hi⟩
  · intro y
    rw [total_snoc]
    have hold : total (s.heap.set x o') s.names y = total s.heap s.names y := by
      apply total_congr
      intro a ha
      obtain ⟨r, hr⟩ := mem_root ha
      obtain ⟨t, _, hu, _⟩ := hinv.roots r a hr
      simp only [cntAt, hu, unfoldA_set_same hox h1 h2 h3 hu]
    rw [hold]
    simpa [nameCnt] using hinv.sep y
  · intro r a hr
    rcases join_append_one hr with h1' | ⟨_, h1'⟩
    · obtain ⟨t, v, hu, hd, hf⟩ := hinv.roots r a h1'
      exact ⟨t, v, unfoldA_set_same hox h1 h2 h3 hu, hd, hf⟩
    · cases h1'
  · apply defaults_set hinv.defaults
    intro o2 ho2 hm2
    rw [hox] at ho2; cases ho2
    exact ⟨by rw [h1]; exact hm2, h2, h3⟩

end BtcVerif.Model.Heap
