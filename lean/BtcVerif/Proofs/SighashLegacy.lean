/-
  Helper lemmas for C03, part 3: serialisation of the scratch transaction, the list surgery of
  RawSignatureHash in closed form, and `rawSignatureHash = Spec.legacySighash`.
-/
import BtcVerif.Proofs.SighashScript
namespace BtcVerif.SighashProofs
open BtcVerif Model.Wire Spec.Wire Spec.Sighash Model.Sighash Model.Script

/-! ### serialisation of in-range inputs / vectors / a witness-less transaction -/

theorem serTxIn_ok {i : TxIn} (h1 : WFOutPoint i.prevout) (h2 : i.scriptSig.length < 2 ^ 64)
    (h3 : i.nSequence < 2 ^ 32) : serTxIn i = .ok (txIn i) := by
  simp only [serTxIn, serOutPoint_ok h1, serBytes_ok h2, packU_ok (show i.nSequence < 256 ^ 4 by omega),
    bind_ok, pure_ok, txIn]

theorem serVector_ok {α} (ser : α → Res Bytes) (enc : α → Bytes) (xs : List α) (hlen : xs.length < 2 ^ 64)
    (h : ∀ x ∈ xs, ser x = .ok (enc x)) : serVector ser xs = .ok (vec enc xs) := by
  simp only [serVector, serVarInt_ok hlen, mapM_ok ser enc xs h, bind_ok, pure_ok, vec]

theorem serTx_legacy_ok (t : Tx) (hw : t.wit = [])
    (hv1 : -(2 ^ 31 : Int) ≤ t.nVersion) (hv2 : t.nVersion < 2 ^ 31)
    (hin : serVector serTxIn t.vin = .ok (vec txIn t.vin))
    (hout : serVector serTxOut t.vout = .ok (vec txOut t.vout))
    (hl : t.nLockTime < 2 ^ 32) : serTx t = .ok (txLegacy t) := by
  have hver : packI 4 t.nVersion = .ok (leBytesInt 4 t.nVersion) :=
    packI_ok (by simpa using hv1) (by simpa using hv2)
  have hn : witIsNull t.wit = true := by rw [hw]; rfl
  simp only [serTx, hver, hn, hin, hout, packU_ok (show t.nLockTime < 256 ^ 4 by omega), bind_ok, pure_ok,
    txLegacy, Bool.not_true, Bool.and_false, List.append_assoc]
  rfl

theorem noSep_length_le (n : Nat) : ∀ (s : Bytes), s.length ≤ n → (scriptCodeNoSep s).length ≤ s.length := by
  induction n with
  | zero =>
    intro s hn
    have : s = [] := List.length_eq_zero_iff.mp (by omega)
    subst this
    rw [scriptCodeNoSep_eq]; simp [getOp_nil]
  | succ n ih =>
    intro s hn
    rw [scriptCodeNoSep_eq]
    cases hg : getOp s with
    | none => simp
    | some p =>
      obtain ⟨op, k⟩ := p
      have hb := getOp_bounds hg
      have := ih (s.drop k) (by simp only [List.length_drop]; omega)
      simp only [List.length_append]
      have h1 : (if op = OP_CODESEPARATOR then ([] : Bytes) else s.take k).length ≤ k := by
        split <;> simp; omega
      simp only [List.length_drop] at this
      omega


/-! ### the list surgery of RawSignatureHash in closed form -/

/-- input number `k` of the scratch transaction after blanking, FindAndDelete and sequence zeroing -/
def finalIn (code : Bytes) (i ht k : Nat) (inp : TxIn) : TxIn :=
  { prevout := inp.prevout
    scriptSig := if k = i then code else []
    nSequence := if k ≠ i ∧ (isSingle ht ∨ isNone ht) then 0 else inp.nSequence }

/-- … before the sequence zeroing -/
def blankedIn (code : Bytes) (i k : Nat) (inp : TxIn) : TxIn :=
  { prevout := inp.prevout, scriptSig := if k = i then code else [], nSequence := inp.nSequence }

theorem varBytes_nil : varBytes [] = compactSize 0 := by simp [varBytes]

theorem txIn_finalIn (sc : Bytes) (i ht k : Nat) (inp : TxIn) :
    txIn (finalIn (scriptCodeNoSep sc) i ht k inp) = legacyInput sc i ht k inp := by
  unfold txIn finalIn legacyInput
  by_cases hk : k = i
  · simp [hk]
  · simp [hk, varBytes_nil]
    split <;> rfl

theorem vin1_eq (vin : List TxIn) (i : Nat) (code : Bytes) (inp : TxIn) (h : vin[i]? = some inp) :
    (vin.map (fun x => { x with scriptSig := [] })).set i
        { ({ inp with scriptSig := [] } : TxIn) with scriptSig := code }
      = vin.mapIdx (blankedIn code i) := by
  apply List.ext_getElem?
  intro k
  rw [List.getElem?_set, List.getElem?_mapIdx, List.getElem?_map, List.length_map]
  have hlt : i < vin.length := by
    rcases List.getElem?_eq_some_iff.mp h with ⟨h', _⟩; exact h'
  by_cases hk : i = k
  · subst hk
    rw [h]
    simp [hlt, blankedIn]
  · have hk' : ¬ k = i := fun hh => hk hh.symm
    simp only [hk, if_false]
    cases vin[k]? with
    | none => rfl
    | some x => simp [blankedIn, hk']

theorem zeroOtherSeq_blanked (vin : List TxIn) (i ht : Nat) (code : Bytes) (h : isSingle ht = true ∨ isNone ht = true) :
    zeroOtherSeq (vin.mapIdx (blankedIn code i)) i = vin.mapIdx (finalIn code i ht) := by
  unfold zeroOtherSeq
  rw [List.mapIdx_mapIdx]
  apply List.ext_getElem?
  intro k
  rw [List.getElem?_mapIdx, List.getElem?_mapIdx]
  cases vin[k]? with
  | none => rfl
  | some x =>
    simp only [Option.map_some, Function.comp, blankedIn, finalIn]
    by_cases hk : k = i
    · simp [hk]
    · simp [hk, h]

theorem blanked_eq_final (vin : List TxIn) (i ht : Nat) (code : Bytes) (h1 : isSingle ht = false) (h2 : isNone ht = false) :
    vin.mapIdx (blankedIn code i) = vin.mapIdx (finalIn code i ht) := by
  apply List.ext_getElem?
  intro k
  rw [List.getElem?_mapIdx, List.getElem?_mapIdx]
  cases vin[k]? with
  | none => rfl
  | some x => simp [blankedIn, finalIn, h1, h2]


theorem finalIn_ser_ok (vin : List TxIn) (code : Bytes) (i ht : Nat)
    (hin : ∀ x ∈ vin, WFOutPoint x.prevout ∧ x.nSequence < 2 ^ 32) (hc : code.length < 2 ^ 64) :
    ∀ x ∈ vin.mapIdx (finalIn code i ht), serTxIn x = .ok (txIn x) := by
  intro x hx
  obtain ⟨k, hk⟩ := List.mem_iff_getElem?.mp hx
  rw [List.getElem?_mapIdx] at hk
  cases hv : vin[k]? with
  | none => rw [hv] at hk; simp at hk
  | some inp =>
    rw [hv] at hk
    simp only [Option.map_some, Option.some.injEq] at hk
    subst hk
    have hm := hin inp (List.mem_of_getElem? hv)
    apply serTxIn_ok
    · exact hm.1
    · simp only [finalIn]; split
      · exact hc
      · simp
    · simp only [finalIn]; split
      · omega
      · exact hm.2

theorem map_txIn_final (vin : List TxIn) (sc : Bytes) (i ht : Nat) :
    (vin.mapIdx (finalIn (scriptCodeNoSep sc) i ht)).map txIn = vin.mapIdx (legacyInput sc i ht) := by
  apply List.ext_getElem?
  intro k
  rw [List.getElem?_map, List.getElem?_mapIdx, List.getElem?_mapIdx]
  cases vin[k]? with
  | none => rfl
  | some x => simp [txIn_finalIn]

/-! ### outputs -/

theorem outs_all (vout : List TxOut) (i ht : Nat) (h1 : isSingle ht = false) :
    (vout.take vout.length).mapIdx (legacyOutput i ht) = vout.map txOut := by
  rw [List.take_length]
  apply List.ext_getElem?
  intro k
  rw [List.getElem?_mapIdx, List.getElem?_map]
  cases vout[k]? with
  | none => rfl
  | some x => simp [legacyOutput, h1]

theorem outs_single (vout : List TxOut) (i ht : Nat) (o : TxOut) (h1 : isSingle ht = true) (ho : vout[i]? = some o) :
    (vout.take (i + 1)).mapIdx (legacyOutput i ht) = (List.replicate i blankTxOut ++ [o]).map txOut := by
  have hlt : i < vout.length := by
    rcases List.getElem?_eq_some_iff.mp ho with ⟨h', _⟩; exact h'
  apply List.ext_getElem?
  intro k
  rw [List.getElem?_mapIdx, List.getElem?_map, List.getElem?_take, List.getElem?_append, List.getElem?_replicate,
    List.length_replicate]
  by_cases hk : k < i
  · have hk1 : k < i + 1 := by omega
    have hk2 : k < vout.length := by omega
    have hne : k ≠ i := by omega
    simp only [hk, hk1, if_true, List.getElem?_eq_getElem hk2, Option.map_some, legacyOutput, h1, hne]
    simp [blankTxOut, hne]
  · by_cases hki : k = i
    · subst hki
      simp [ho, legacyOutput]
    · have : ¬ k < i + 1 := by omega
      have h3 : ([o] : List TxOut)[k - i]? = none := by
        apply List.getElem?_eq_none_iff.mpr; simp; omega
      simp [this, hk, h3]


/-! ### RawSignatureHash = the spec -/

theorem hashOne_eq : HASH_ONE = hashOne := by decide

theorem fromTx_ok (tx : Tx) (hwf : FieldsWF tx) : fromTx tx = .ok tx := by
  obtain ⟨_, _, _, _, hin, _, hl⟩ := hwf
  unfold fromTx
  have h1 : tx.vin.all fromTxInOk = true := by
    rw [List.all_eq_true]; intro x hx
    obtain ⟨⟨a, b⟩, c⟩ := hin x hx
    simp only [fromTxInOk, a, Bool.and_eq_true, decide_eq_true_eq]
    exact ⟨⟨trivial, by omega⟩, by omega⟩
  have h2 : decide (tx.nLockTime ≤ 0xffffffff) = true := by rw [decide_eq_true_eq]; omega
  rw [h1, h2]; rfl

theorem scratch_ser (tx : Tx) (vin3 : List TxIn) (vout2 : List TxOut)
    (hv1 : -(2 ^ 31 : Int) ≤ tx.nVersion) (hv2 : tx.nVersion < 2 ^ 31) (hl : tx.nLockTime < 2 ^ 32)
    (h3 : vin3.length < 2 ^ 64) (h4 : ∀ x ∈ vin3, serTxIn x = .ok (txIn x))
    (h5 : vout2.length < 2 ^ 64) (h6 : ∀ x ∈ vout2, serTxOut x = .ok (txOut x)) :
    serTx { tx with vin := vin3, vout := vout2, wit := [] }
      = .ok (leBytesInt 4 tx.nVersion ++ vec txIn vin3 ++ vec txOut vout2 ++ leBytes 4 tx.nLockTime) :=
  serTx_legacy_ok _ rfl hv1 hv2 (serVector_ok _ _ _ h3 h4) (serVector_ok _ _ _ h5 h6) hl

/-- the part of RawSignatureHash after the output pruning, for the pruned output list `vout2` -/
theorem raw_tail (sc : Bytes) (tx : Tx) (i ht : Nat) (inp : TxIn) (vout2 : List TxOut)
    (hwf : FieldsWF tx) (hinp : tx.vin[i]? = some inp) (hc : (scriptCodeNoSep sc).length < 2 ^ 64)
    (hlen : vout2.length = (if isNone ht then 0 else if isSingle ht then i + 1 else tx.vout.length))
    (hmap : vout2.map txOut = (tx.vout.take vout2.length).mapIdx (legacyOutput i ht))
    (hser : ∀ x ∈ vout2, serTxOut x = .ok (txOut x)) (hl : vout2.length < 2 ^ 64)
    {h : Int} (hr : HtRel h ht) :
    ∃ vin3 s, pruneInputs (tx.vin.mapIdx (finalIn (scriptCodeNoSep sc) i ht)) i h = .ok vin3 ∧
      serTx { tx with vin := vin3, vout := vout2, wit := [] } = .ok s ∧
      s = legacyTxBytes sc tx i ht := by
  obtain ⟨hv1, hv2, hvl, _, hin, _, hlock⟩ := hwf
  have hF := finalIn_ser_ok tx.vin (scriptCodeNoSep sc) i ht hin hc
  have hFi : (tx.vin.mapIdx (finalIn (scriptCodeNoSep sc) i ht))[i]? = some (finalIn (scriptCodeNoSep sc) i ht i inp) := by
    rw [List.getElem?_mapIdx, hinp]; rfl
  by_cases ha : isAnyoneCanPay ht = true
  · refine ⟨[finalIn (scriptCodeNoSep sc) i ht i inp], _, ?_, scratch_ser tx _ vout2 hv1 hv2 hlock (by simp) ?_ hl hser, ?_⟩
    · have : (h / 128 % 2 ≠ 0) := (ht_acp_iff hr).mpr ha
      simp only [pruneInputs]
      rw [if_pos this]
      simp only [pyGetNat, hFi, bind_ok, pure_ok]
    · intro x hx
      simp only [List.mem_singleton] at hx
      subst hx
      exact hF _ (List.mem_of_getElem? hFi)
    · simp only [legacyTxBytes, ha, if_true, hinp, Option.toList_some, List.map_cons, List.map_nil,
        vec, txIn_finalIn, ← hlen, ← hmap, List.append_assoc, List.length_singleton, List.length_cons, List.length_nil]
  · refine ⟨tx.vin.mapIdx (finalIn (scriptCodeNoSep sc) i ht), _, ?_,
      scratch_ser tx _ vout2 hv1 hv2 hlock (by rw [List.length_mapIdx]; exact hvl) hF hl hser, ?_⟩
    · have : ¬ (h / 128 % 2 ≠ 0) := fun hh => ha ((ht_acp_iff hr).mp hh)
      simp only [pruneInputs]
      rw [if_neg this]
      simp only [pure_ok]
    · simp only [Bool.not_eq_true] at ha
      simp only [legacyTxBytes, ha, Bool.false_eq_true, if_false, vec, map_txIn_final,
        ← hlen, ← hmap, List.append_assoc, List.length_mapIdx]


theorem blank_ser_ok : serTxOut blankTxOut = .ok (txOut blankTxOut) :=
  serTxOut_ok (by decide) (by decide) (by decide)

theorem map_ok {α β} (f : α → β) (a : α) : Except.map f (Except.ok a : Res α) = Except.ok (f a) := rfl
theorem map_err {α β} (f : α → β) (e : Exc) : Except.map f (Except.error e : Res α) = Except.error e := rfl

/-- RawSignatureHash on a script that parses and an in-range transaction, for ANY Python int `h` as
    hash type whose mode bits are those of `ht`: the two "constant one" cases, otherwise the digest of
    the consensus serialisation followed by `struct.pack('<i', h)` — whose range error is the only
    exception that can escape. -/
theorem raw_eq_gen (sc : Bytes) (tx : Tx) (i ht : Nat) (hp : parses sc) (hsc : sc.length < 2 ^ 64)
    (hwf : FieldsWF tx) {h : Int} (hr : HtRel h ht) :
    rawSignatureHash sc tx i h =
      if i ≥ tx.vin.length then .ok (hashOne, true)
      else if isSingle ht = true ∧ i ≥ tx.vout.length then .ok (hashOne, true)
      else (packI 4 h).map (fun hb => (Crypto.hash256 (legacyTxBytes sc tx i ht ++ hb), false)) := by
  unfold rawSignatureHash
  by_cases hi : i ≥ tx.vin.length
  · rw [if_pos hi, if_pos hi, hashOne_eq]
  · rw [if_neg hi, if_neg hi]
    have hc : (scriptCodeNoSep sc).length < 2 ^ 64 := by
      have := noSep_length_le sc.length sc (Nat.le_refl _); omega
    have hlt : i < tx.vin.length := by omega
    have hinp : tx.vin[i]? = some tx.vin[i] := List.getElem?_eq_getElem hlt
    have hsigned : pyGetNat (tx.vin.map (fun x => { x with scriptSig := [] })) i
        = .ok { tx.vin[i] with scriptSig := [] } := by
      simp only [pyGetNat, List.getElem?_map, hinp, Option.map_some]
    simp only [fromTx_ok tx hwf, findAndDelete_parses hp, hsigned, bind_ok, vin1_eq tx.vin i _ _ hinp]
    have hout := hwf.2.2.2.2.2.1
    have hvoutlen := hwf.2.2.2.1
    rcases hpk : packI 4 h with e | hb
    all_goals (
    by_cases h2 : isNone ht = true
    · -- SIGHASH_NONE
      have h3 : ¬ isSingle ht = true := fun h3 => not_none_and_single ht ⟨h2, h3⟩
      have hm2 : h % 32 = 2 := (ht_none_iff hr).mpr h2
      obtain ⟨vin3, s, hpi, hser, hpre⟩ := raw_tail sc tx i ht tx.vin[i] [] hwf hinp hc
        (by simp [h2]) (by simp) (by simp) (by simp) hr
      simp only [pruneOutputs, hm2, if_true, zeroOtherSeq_blanked tx.vin i ht _ (Or.inr h2), hpi, hser, hpk,
        bind_ok, bind_err, map_ok, map_err, pure_ok, h3, Bool.false_eq_true, false_and, if_false, hpre]
    · have hm2 : ¬ h % 32 = 2 := fun hh => h2 ((ht_none_iff hr).mp hh)
      by_cases h3 : isSingle ht = true
      · -- SIGHASH_SINGLE
        have hm3 : h % 32 = 3 := (ht_single_iff hr).mpr h3
        have h32 : ¬ ((3 : Int) = 2) := by decide
        cases hvo : tx.vout[i]? with
        | none =>
          have hge : i ≥ tx.vout.length := List.getElem?_eq_none_iff.mp hvo
          simp only [pruneOutputs, hm3, h32, if_false, if_true, hvo, pure_ok, h3, hge, and_self, hashOne_eq]
        | some o =>
          have hlt' : i < tx.vout.length := by
            rcases List.getElem?_eq_some_iff.mp hvo with ⟨h', _⟩; exact h'
          have hge : ¬ i ≥ tx.vout.length := by omega
          have hmo : o ∈ tx.vout := List.mem_of_getElem? hvo
          obtain ⟨vin3, s, hpi, hser, hpre⟩ := raw_tail sc tx i ht tx.vin[i]
            (List.replicate i blankTxOut ++ [o]) hwf hinp hc
            (by simp [h2, h3])
            (by rw [show (List.replicate i blankTxOut ++ [o]).length = i + 1 by simp]
                exact (outs_single tx.vout i ht o h3 hvo).symm)
            (by intro x hx
                simp only [List.mem_append, List.mem_replicate, List.mem_singleton] at hx
                rcases hx with ⟨_, rfl⟩ | rfl
                · exact blank_ser_ok
                · exact serTxOut_ok (hout x hmo).1 (hout x hmo).2.1 (hout x hmo).2.2)
            (by simp; omega) hr
          simp only [pruneOutputs, hm3, h32, if_false, if_true, hvo,
            zeroOtherSeq_blanked tx.vin i ht _ (Or.inl h3), hpi, hser, hpk, bind_ok, pure_ok, h3, hge,
            and_false, if_false, bind_err, map_ok, map_err, hpre]
      · -- every other type (ALL and the undefined ones)
        have hm3 : ¬ h % 32 = 3 := fun hh => h3 ((ht_single_iff hr).mp hh)
        simp only [Bool.not_eq_true] at h2 h3
        obtain ⟨vin3, s, hpi, hser, hpre⟩ := raw_tail sc tx i ht tx.vin[i] tx.vout hwf hinp hc
          (by simp [h2, h3])
          (by rw [outs_all tx.vout i ht h3])
          (fun x hx => serTxOut_ok (hout x hx).1 (hout x hx).2.1 (hout x hx).2.2)
          hvoutlen hr
        simp only [pruneOutputs, hm2, hm3, if_false, blanked_eq_final tx.vin i ht _ h3 h2, hpi, hser, hpk,
          bind_ok, bind_err, map_ok, map_err, pure_ok, h3, Bool.false_eq_true, false_and, if_false, hpre])

/-- … in particular, when `struct.pack('<i', h)` yields the four little-endian bytes of `ht`: exactly the
    consensus digest and error indication -/
theorem raw_eq (sc : Bytes) (tx : Tx) (i ht : Nat) (hp : parses sc) (hsc : sc.length < 2 ^ 64)
    (hwf : FieldsWF tx) {h : Int} (hr : HtRel h ht) (hpk : packI 4 h = .ok (leBytes 4 ht)) :
    rawSignatureHash sc tx i h = .ok (legacySighash sc tx i ht) := by
  rw [raw_eq_gen sc tx i ht hp hsc hwf hr, hpk]
  unfold legacySighash legacyPreimage
  split
  · rfl
  · split
    · rfl
    · rfl

/-! ### `CScript.is_witness_scriptpubkey` -/

theorem leInt_byte (b : UInt8) : leInt [b] = if b.toNat < 128 then (b.toNat : Int) else (b.toNat : Int) - 256 := by
  simp only [leInt, leNat1, List.length_singleton]
  split <;> split <;> first | rfl | omega | (simp; omega)

theorem isWitnessScriptPubKey_eq (s : Bytes) : isWitnessScriptPubKey s = .ok (isWitnessProgram s) := by
  unfold isWitnessScriptPubKey isWitnessProgram
  rcases s with _ | ⟨b0, _ | ⟨b1, rest⟩⟩
  · simp
  · simp
  · have h0 := b0.toNat_lt
    have h1 := b1.toNat_lt
    simp only [List.length_cons]
    split
    · rename_i hsz
      congr 1
      simp only [Bool.false_eq, decide_eq_false_iff_not]
      omega
    · rename_i hsz
      simp only [leInt_byte]
      have hop : cscriptOpValue (if b0.toNat < 128 then (b0.toNat : Int) else (b0.toNat : Int) - 256) = .ok (b0.toNat : Int) := by
        unfold cscriptOpValue
        split
        · rw [if_pos (by omega)]
        · rw [if_neg (by omega), if_pos (by omega)]; congr 1; omega
      simp only [hop, bind_ok, pure_ok]
      split
      · rename_i hv
        congr 1
        simp only [Bool.false_eq, decide_eq_false_iff_not]
        omega
      · rename_i hv
        by_cases hb1 : b1.toNat < 128
        · rw [if_pos hb1]
          split
          · rename_i hl
            congr 1
            simp only [Bool.false_eq, decide_eq_false_iff_not]
            omega
          · rename_i hl
            congr 1
            simp only [Bool.true_eq, decide_eq_true_eq]
            omega
        · rw [if_neg hb1]
          split
          · rename_i hl
            congr 1
            simp only [Bool.false_eq, decide_eq_false_iff_not]
            omega
          · rename_i hl
            congr 1
            simp only [Bool.true_eq, decide_eq_true_eq]
            omega

end BtcVerif.SighashProofs
