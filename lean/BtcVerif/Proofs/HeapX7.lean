/-
  C09, extended catalogue, part 7: `RawSignatureHash` / `VerifyScript` under user-made aliasing:
  the heap only grows (every existing object stays as it is) and `InvX` is preserved.
-/
import BtcVerif.Proofs.HeapX6

namespace BtcVerif.Model.Heap
open BtcVerif BtcVerif.Spec.ValueSem BtcVerif.Spec.AliasSem BtcVerif.Model.HeapX

/-- a later heap of the surgery, seen from the caller's heap `h` and from the heap `h1` right after the copy -/
structure SCtx (h h1 hh : Heap) : Prop where
  pre : ∃ e, hh = h ++ e
  inv : InvX hh
  same : ∀ (x : Addr) (o1 : Obj), h1[x]? = some o1 →
    ∃ o : Obj, hh[x]? = some o ∧ o.isMut = o1.isMut ∧ o.sc.kind = o1.sc.kind

def IsM (hh : Heap) (x : Addr) (k : Nat) : Prop := ∃ o : Obj, hh[x]? = some o ∧ o.isMut = true ∧ o.sc.kind = k

theorem sctx_write {h h1 hh : Heap} (c : SCtx h h1 hh) {x : Addr} {ox o' : Obj} (hx : h.length ≤ x)
    (hox : hh[x]? = some ox) (hmx : ox.isMut = true) (hm' : o'.isMut = true)
    (hk' : o'.sc.kind = ox.sc.kind) (ht' : TypedObj hh o') : SCtx h h1 (hh.set x o') := by
  obtain ⟨⟨e, rfl⟩, hinv, hsame⟩ := c
  refine ⟨⟨e.set (x - h.length) o', by rw [List.set_append_right _ _ hx]⟩,
    invx_write hinv hox hmx hm' hk' ht', ?_⟩
  intro y o1 ho1
  obtain ⟨o, ho, e1, e2⟩ := hsame y o1 ho1
  by_cases hyx : y = x
  · subst hyx
    rw [hox] at ho; cases ho
    exact ⟨o', by simp [List.getElem?_set_self (List.getElem?_eq_some_iff.mp hox).1], by rw [hm', ← e1, hmx],
      by rw [hk', e2]⟩
  · exact ⟨o, by rw [List.getElem?_set_ne (fun e => hyx e.symm)]; exact ho, e1, e2⟩

theorem sctx_alloc {h h1 hh : Heap} (c : SCtx h h1 hh) {o : Obj} (c1 : o.cHash = none) (c2 : o.cPy = none)
    (ck : o.sc.alwaysImm = true → o.isMut = false)
    (ci : o.isMut = false → ∀ r ∈ o.refs, ∃ oc : Obj, hh[r]? = some oc ∧ Frozen oc)
    (ct : TypedObj (hh ++ [o]) o) : SCtx h h1 (hh ++ [o]) := by
  obtain ⟨⟨e, rfl⟩, hinv, hsame⟩ := c
  refine ⟨⟨e ++ [o], by simp⟩, ?_, ?_⟩
  · exact invx_ext hinv (e := [o]) (by simp [c1, c2]) (immClosedX_append_one hinv.immClosed ci)
      (kindOKX_append_one hinv.kindOK ck) (typedRefs_append_one hinv.typed ct)
  · intro y o1 ho1
    obtain ⟨o2, ho2, e1, e2⟩ := hsame y o1 ho1
    exact ⟨o2, getElem?_append_of_some [o] ho2, e1, e2⟩

theorem isM_of_same {h h1 hh : Heap} (c : SCtx h h1 hh) {x : Addr} {k : Nat} (hm : IsM h1 x k) : IsM hh x k := by
  obtain ⟨o1, ho1, m1, k1⟩ := hm
  obtain ⟨o, ho, e1, e2⟩ := c.same x o1 ho1
  exact ⟨o, ho, by rw [e1, m1], by rw [e2, k1]⟩

theorem kindAt_of_same {h h1 hh : Heap} (c : SCtx h h1 hh) {x : Addr} {k : Nat} (hk : kindAt h1 x = some k) :
    kindAt hh x = some k := by
  obtain ⟨o1, ho1, k1⟩ := kindAt_some hk
  obtain ⟨o, ho, _, e2⟩ := c.same x o1 ho1
  simp [kindAt, ho, e2, k1]

theorem assignAt_inv {hh hh' : Heap} {x : Addr} {f : Field} (ha : assignAt hh x f = some (.ok hh')) :
    ∃ (ox : Obj) (sc' : Scalars), hh[x]? = some ox ∧ ox.isMut = true ∧ applySc f ox.sc = some sc' ∧
      hh' = hh.set x { ox with sc := sc' } := by
  simp only [assignAt] at ha
  cases ho : hh[x]? with
  | none => simp [ho] at ha
  | some ox =>
    simp only [ho] at ha
    cases hm : ox.isMut with
    | false => simp [hm] at ha
    | true =>
      simp only [hm, Bool.not_true, Bool.false_eq_true, if_false] at ha
      cases hap : applySc f ox.sc with
      | none => simp [hap] at ha
      | some sc' =>
        simp only [hap, Option.some.injEq, Except.ok.injEq] at ha
        exact ⟨ox, sc', rfl, hm, hap, by rw [← ha, ← hm]⟩

/-- the objects of `h1` listed in `xs` are fresh when they are mutable -/
def FreshIfMut (h h1 : Heap) (xs : List Addr) : Prop :=
  ∀ x ∈ xs, ∃ o1 : Obj, h1[x]? = some o1 ∧ (o1.isMut = true → h.length ≤ x)

theorem sctx_assign {h h1 hh hh' : Heap} (c : SCtx h h1 hh) {x : Addr} {f : Field}
    (hf : ∃ o1 : Obj, h1[x]? = some o1 ∧ (o1.isMut = true → h.length ≤ x))
    (ha : assignAt hh x f = some (.ok hh')) : SCtx h h1 hh' := by
  obtain ⟨ox, sc', hox, hmx, hap, rfl⟩ := assignAt_inv ha
  obtain ⟨o1, ho1, hfr⟩ := hf
  obtain ⟨o, ho, e1, _⟩ := c.same x o1 ho1
  rw [hox] at ho; cases ho
  have hk := applySc_kind hap
  obtain ⟨ks, hks, hok⟩ := c.inv.typed x ox hox
  exact sctx_write c (hfr (by rw [← e1]; exact hmx)) hox hmx (o' := { ox with sc := sc' }) hmx hk
    ⟨ks, hks, by simp only [refKindsOK, hk]; exact hok⟩

theorem sctx_foldAssign {h h1 : Heap} (f : Field) : ∀ (xs : List Addr) {hh hh' : Heap}, SCtx h h1 hh →
    FreshIfMut h h1 xs → foldAssign f hh xs = some hh' → SCtx h h1 hh'
  | [], hh, hh', c, _, hfa => by simp [foldAssign] at hfa; subst hfa; exact c
  | x :: xs, hh, hh', c, hfr, hfa => by
    simp only [foldAssign] at hfa
    cases ha : assignAt hh x f with
    | none => simp [ha] at hfa
    | some r =>
      cases r with
      | error e => simp [ha] at hfa
      | ok h2 =>
        simp only [ha] at hfa
        exact sctx_foldAssign f xs (sctx_assign c (hfr x (by simp)) ha) (fun y hy => hfr y (by simp [hy])) hfa

theorem sctx_zeroSeqs {h h1 : Heap} (inIdx : Nat) : ∀ (xs : List Addr) (k : Nat) {hh hh' : Heap}, SCtx h h1 hh →
    FreshIfMut h h1 xs → zeroSeqs inIdx hh xs k = some hh' → SCtx h h1 hh'
  | [], _, hh, hh', c, _, hz => by simp [zeroSeqs] at hz; subst hz; exact c
  | x :: xs, k, hh, hh', c, hfr, hz => by
    simp only [zeroSeqs] at hz
    by_cases hk : k = inIdx
    · simp only [hk, if_true] at hz
      exact sctx_zeroSeqs inIdx xs _ c (fun y hy => hfr y (by simp [hy])) hz
    · simp only [hk, if_false] at hz
      cases ha : assignAt hh x (.nSequence 0) with
      | none => simp [ha] at hz
      | some r =>
        cases r with
        | error e => simp [ha] at hz
        | ok h2 =>
          simp only [ha] at hz
          exact sctx_zeroSeqs inIdx xs _ (sctx_assign c (hfr x (by simp)) ha) (fun y hy => hfr y (by simp [hy])) hz

/-- `c.<slot j> = y` on the fresh transaction copy -/
theorem sctx_setRef {h h1 hh hh' : Heap} (c : SCtx h h1 hh) {a : Addr} (ha : h.length ≤ a) (hm : IsM hh a 5)
    {j : Nat} {y : Addr} {k : Nat} (hj : [8, 9, 4][j]? = some k) (hy : kindAt hh y = some k)
    (hs : setRef hh a j y = some hh') : SCtx h h1 hh' := by
  obtain ⟨o, ho, hmo, hko⟩ := hm
  simp only [setRef, ho] at hs
  split at hs
  · rename_i hlt
    cases hs
    obtain ⟨ks, hks, hok⟩ := c.inv.typed a o ho
    simp only [refKindsOK, hko, refKindsK] at hok
    subst hok
    obtain ⟨kc, hkc1, hkc2⟩ := mapO_getElem hks j o.refs[j] (List.getElem?_eq_getElem hlt)
    rw [hj] at hkc1; cases hkc1
    exact sctx_write c ha ho hmo (o' := { o with refs := o.refs.set j y }) hmo rfl
      (typed_setSlot (c.inv.typed a o ho) (List.getElem?_eq_getElem hlt) (by rw [hkc2, hy]))
  · cases hs

theorem sctx_allocList {h h1 hh : Heap} (c : SCtx h h1 hh) (k : SeqKind) (hk : k = .ins ∨ k = .outs) :
    SCtx h h1 (hh ++ [{ isMut := true, sc := .seq k, refs := [] }]) ∧
      IsM (hh ++ [{ isMut := true, sc := .seq k, refs := [] }]) hh.length (Scalars.seq k).kind := by
  refine ⟨sctx_alloc c rfl rfl ?_ (fun hm => (by cases hm)) ⟨[], rfl, ?_⟩,
    ⟨{ isMut := true, sc := .seq k, refs := [] }, by simp, rfl, rfl⟩⟩
  · rcases hk with rfl | rfl <;> intro hai <;> cases hai
  · rcases hk with rfl | rfl <;> simp [refKindsOK, refKindsK, Scalars.kind]

theorem isM_set_other {hh : Heap} {x l : Addr} {k : Nat} {o' : Obj} (hne : x ≠ l) (hm : IsM hh l k) :
    IsM (hh.set x o') l k := by
  obtain ⟨o, ho, m, kk⟩ := hm
  exact ⟨o, by rw [List.getElem?_set_ne hne]; exact ho, m, kk⟩

theorem sctx_listWrite {h h1 hh : Heap} (c : SCtx h h1 hh) {l : Addr} (hl : h.length ≤ l) {k ek : Nat}
    (hm : IsM hh l k) (he : elemKind k = some ek) {o : Obj} (ho : hh[l]? = some o) {items : List Addr}
    (ht : TypedObj hh { o with refs := items }) :
    SCtx h h1 (hh.set l { o with refs := items }) ∧ IsM (hh.set l { o with refs := items }) l k := by
  obtain ⟨o2, ho2, hm2, hk2⟩ := hm
  rw [ho] at ho2; cases ho2
  exact ⟨sctx_write c hl ho hm2 (o' := { o with refs := items }) hm2 rfl ht,
    ⟨{ o with refs := items }, by simp [List.getElem?_set_self (List.getElem?_eq_some_iff.mp ho).1], hm2, hk2⟩⟩

theorem sctx_appendBlanks {h h1 : Heap} {l : Addr} (hl : h.length ≤ l) : ∀ (n : Nat) {hh hh' : Heap},
    SCtx h h1 hh → IsM hh l 9 → appendBlanks hh l n = some hh' → SCtx h h1 hh' ∧ IsM hh' l 9
  | 0, hh, hh', c, hm, ha => by simp [appendBlanks] at ha; subst ha; exact ⟨c, hm⟩
  | n + 1, hh, hh', c, hm, ha => by
    rw [appendBlanks_succ] at ha
    have c1 : SCtx h h1 (hh ++ [blankObj]) :=
      sctx_alloc c rfl rfl (fun _ => rfl) (fun _ r hr => by simp [blankObj] at hr) ⟨[], rfl, rfl⟩
    obtain ⟨o, ho, hmo, hko⟩ := hm
    have ho1 : (hh ++ [blankObj])[l]? = some o := getElem?_append_of_some [blankObj] ho
    simp only [ho1] at ha
    have hb : kindAt (hh ++ [blankObj]) hh.length = some 2 := by simp [kindAt, blankObj, Scalars.kind]
    obtain ⟨c2, m2⟩ := sctx_listWrite c1 hl (k := 9) (ek := 2) ⟨o, ho1, hmo, hko⟩ rfl ho1
      (items := o.refs ++ [hh.length])
      (typed_listAppend (c1.inv.typed l o ho1) (by rw [hko]; rfl) hb)
    exact sctx_appendBlanks hl n c2 m2 ha

/-- what is known right after the copy -/
structure ClonedX (h h1 : Heap) (c vinL voutL : Addr) (ins : List Addr) : Prop where
  hc : h.length ≤ c
  cm : IsM h1 c 5
  kvin : kindAt h1 vinL = some 8
  kvout : kindAt h1 voutL = some 9
  items : FreshIfMut h h1 ins
  ikind : ∀ x ∈ ins, kindAt h1 x = some 1
  len : h.length ≤ h1.length

theorem sctx_len {h h1 hh : Heap} (c : SCtx h h1 hh) : h.length ≤ hh.length := by
  obtain ⟨e, rfl⟩ := c.pre; simp

theorem sigScripts_ext {h h1 hh h3 : Heap} {ins : List Addr} {sub : Bytes} {inIdx : Nat} {xi : Addr}
    (c : SCtx h h1 hh) (hfr : FreshIfMut h h1 ins) (hs : sigScripts hh ins sub inIdx = some (h3, xi)) :
    SCtx h h1 h3 ∧ xi ∈ ins := by
  simp only [sigScripts] at hs
  cases hf : foldAssign (.scriptSig []) hh ins with
  | none => simp [hf] at hs
  | some h2 =>
    simp only [hf] at hs
    cases hx : ins[inIdx]? with
    | none => simp [hx] at hs
    | some x =>
      simp only [hx] at hs
      cases ha : assignAt h2 x (.scriptSig sub) with
      | none => simp [ha] at hs
      | some r =>
        cases r with
        | error e => simp [ha] at hs
        | ok h3' =>
          simp only [ha, Option.some.injEq, Prod.mk.injEq] at hs
          obtain ⟨rfl, rfl⟩ := hs
          have hmem := List.mem_of_getElem? hx
          exact ⟨sctx_assign (sctx_foldAssign _ ins c hfr hf) (hfr x hmem) ha, hmem⟩

theorem sigNone_ext {h h1 h3 h8 : Heap} {c vinL voutL : Addr} {ins : List Addr} {inIdx : Nat}
    (C : ClonedX h h1 c vinL voutL ins) (cx : SCtx h h1 h3) (hs : sigNone h3 c ins inIdx = some h8) :
    SCtx h h1 h8 := by
  simp only [sigNone, alloc] at hs
  obtain ⟨c4, m4⟩ := sctx_allocList cx .outs (Or.inr rfl)
  cases h5 : setRef (h3 ++ [{ isMut := true, sc := .seq .outs, refs := [] }]) c 1 h3.length with
  | none => simp [h5] at hs
  | some h5' =>
    simp only [h5] at hs
    have c5 := sctx_setRef c4 C.hc (isM_of_same c4 C.cm) (j := 1) (k := 9) rfl
      (by obtain ⟨o, ho, _, hk⟩ := m4; simp only [kindAt, ho, Option.map_some, hk]; rfl) h5
    exact sctx_zeroSeqs inIdx ins 0 c5 C.items hs

theorem sigSingle_ext {h h1 h3 h8 : Heap} {c vinL voutL : Addr} {ins : List Addr} {inIdx : Nat} {tmp : Addr}
    (C : ClonedX h h1 c vinL voutL ins) (cx : SCtx h h1 h3) (htmp : kindAt h3 tmp = some 2)
    (hs : sigSingle h3 c ins inIdx tmp = some h8) : SCtx h h1 h8 := by
  simp only [sigSingle, alloc] at hs
  obtain ⟨c4, m4⟩ := sctx_allocList cx .outs (Or.inr rfl)
  have hl : h.length ≤ h3.length := sctx_len cx
  have hcl : c ≠ h3.length := by
    obtain ⟨o1, ho1, _, _⟩ := C.cm
    obtain ⟨o, ho, _, _⟩ := cx.same c o1 ho1
    exact Nat.ne_of_lt (List.getElem?_eq_some_iff.mp ho).1
  cases h5 : setRef (h3 ++ [{ isMut := true, sc := .seq .outs, refs := [] }]) c 1 h3.length with
  | none => simp [h5] at hs
  | some h5' =>
    simp only [h5] at hs
    have c5 := sctx_setRef c4 C.hc (isM_of_same c4 C.cm) (j := 1) (k := 9) rfl
      (by obtain ⟨o, ho, _, hk⟩ := m4; simp only [kindAt, ho, Option.map_some, hk]; rfl) h5
    have m5 : IsM h5' h3.length 9 := by
      obtain ⟨oc, hoc, _, _⟩ := isM_of_same c4 C.cm
      simp only [setRef, hoc] at h5
      split at h5
      · cases h5; exact isM_set_other hcl m4
      · cases h5
    cases h6 : appendBlanks h5' h3.length inIdx with
    | none => simp [h6] at hs
    | some h6' =>
      simp only [h6] at hs
      obtain ⟨c6, m6⟩ := sctx_appendBlanks hl inIdx c5 m5 h6
      obtain ⟨o6, ho6, hm6, hk6⟩ := m6
      simp only [ho6] at hs
      have ht6 : kindAt h6' tmp = some 2 := by
        -- classes of existing objects never change
        have keep : ∀ {ha hb : Heap}, SCtx h h3 hb → kindAt h3 tmp = some 2 → kindAt hb tmp = some 2 :=
          fun cc hk => kindAt_of_same cc hk
        have cfrom3 : SCtx h h3 h6' := ⟨c6.pre, c6.inv, by
          intro x o1 ho1
          -- replay the three stages relative to h3
          have s4 : SCtx h h3 (h3 ++ [{ isMut := true, sc := .seq .outs, refs := [] }]) :=
            (sctx_allocList ⟨cx.pre, cx.inv, fun x o ho => ⟨o, ho, rfl, rfl⟩⟩ .outs (Or.inr rfl)).1
          have s5 := sctx_setRef s4 C.hc (isM_of_same c4 C.cm) (j := 1) (k := 9) rfl
            (by obtain ⟨o, ho, _, hk⟩ := m4; simp only [kindAt, ho, Option.map_some, hk]; rfl) h5
          have s6 := (sctx_appendBlanks hl inIdx s5 m5 h6).1
          exact s6.same x o1 ho1⟩
        exact keep (ha := h3) cfrom3 htmp
      obtain ⟨c7, _⟩ := sctx_listWrite c6 hl (k := 9) (ek := 2) ⟨o6, ho6, hm6, hk6⟩ rfl ho6
        (items := o6.refs ++ [tmp]) (typed_listAppend (c6.inv.typed _ o6 ho6) (by rw [hk6]; rfl) ht6)
      exact sctx_zeroSeqs inIdx ins 0 c7 C.items hs

theorem sigAnyone_ext {h h1 h8 h10 : Heap} {c vinL voutL : Addr} {ins : List Addr} {xi : Addr}
    (C : ClonedX h h1 c vinL voutL ins) (cx : SCtx h h1 h8) (hxi : xi ∈ ins)
    (hs : sigAnyone h8 c xi = some h10) : SCtx h h1 h10 := by
  simp only [sigAnyone, alloc] at hs
  obtain ⟨c9, m9⟩ := sctx_allocList cx .ins (Or.inl rfl)
  have hl : h.length ≤ h8.length := sctx_len cx
  have hcl : c ≠ h8.length := by
    obtain ⟨o1, ho1, _, _⟩ := C.cm
    obtain ⟨o, ho, _, _⟩ := cx.same c o1 ho1
    exact Nat.ne_of_lt (List.getElem?_eq_some_iff.mp ho).1
  cases h9 : setRef (h8 ++ [{ isMut := true, sc := .seq .ins, refs := [] }]) c 0 h8.length with
  | none => simp [h9] at hs
  | some h9' =>
    simp only [h9] at hs
    have c9' := sctx_setRef c9 C.hc (isM_of_same c9 C.cm) (j := 0) (k := 8) rfl
      (by obtain ⟨o, ho, _, hk⟩ := m9; simp only [kindAt, ho, Option.map_some, hk]; rfl) h9
    have m9' : IsM h9' h8.length 8 := by
      obtain ⟨oc, hoc, _, _⟩ := isM_of_same c9 C.cm
      simp only [setRef, hoc] at h9
      split at h9
      · cases h9; exact isM_set_other hcl m9
      · cases h9
    obtain ⟨o, ho, hmo, hko⟩ := m9'
    simp only [setItems, ho, Option.some.injEq] at hs
    subst hs
    have hkxi : kindAt h9' xi = some 1 := kindAt_of_same c9' (C.ikind xi hxi)
    exact (sctx_listWrite c9' hl (k := 8) (ek := 1) ⟨o, ho, hmo, hko⟩ rfl ho (items := [xi])
      ⟨[1], by simp [mapO, hkxi], by simp [refKindsOK, hko, refKindsK]⟩).1

theorem sigWit_ext {h h1 h10 h12 : Heap} {c vinL voutL : Addr} {ins : List Addr}
    (C : ClonedX h h1 c vinL voutL ins) (cx : SCtx h h1 h10) (hs : sigWit h10 c = some h12) : SCtx h h1 h12 := by
  simp only [sigWit, alloc] at hs
  obtain ⟨o0, o1, h0e, a1, a2, _, _⟩ := cx.inv.defaults
  have hk0 : kindAt h10 emptyTuple = some 10 := by simp [kindAt, h0e, a2, Scalars.kind]
  have c11 : SCtx h h1 (h10 ++ [{ isMut := false, sc := .wit, refs := [emptyTuple] }]) := by
    refine sctx_alloc cx rfl rfl (fun _ => rfl) ?_ ⟨[10], ?_, rfl⟩
    · intro _ r hr
      simp only [List.mem_singleton] at hr; subst hr
      exact ⟨o0, h0e, a1⟩
    · simp [mapO, kindAt_append_some _ hk0]
  exact sctx_setRef c11 C.hc (isM_of_same c11 C.cm) (j := 2) (k := 4) rfl
    (by simp [kindAt, Scalars.kind]) hs

end BtcVerif.Model.Heap
