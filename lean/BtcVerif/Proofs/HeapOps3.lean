/-
  C09 helper lemmas, part 11: simulation of field assignment.
-/
import BtcVerif.Proofs.HeapOps2

namespace BtcVerif.Model.Heap
open BtcVerif BtcVerif.Spec.ValueSem

theorem cnt_sub_le (y : Addr) : ∀ {p : List Nat} {t tx : ATree}, sub t p = some tx → mutPath t p = true →
    cnt y tx ≤ cnt y t
  | [], t, tx, hs, _ => by simp [sub] at hs; subst hs; exact Nat.le_refl _
  | i :: p, .node a m sc kids, tx, hs, hp => by
    simp only [sub] at hs
    simp only [mutPath, Bool.and_eq_true] at hp
    cases hki : kids[i]? with
    | none => simp [hki] at hs
    | some k =>
      simp only [hki] at hs hp
      have ih := cnt_sub_le y hs hp.2
      have h2 := cntL_le_of_getElem (x := y) hki
      simp only [cnt, hp.1, if_true]
      omega

/-- facts about a mutable target below a named root -/
theorem TInfo.mut_facts {s : St} {sp : Store} {tg : Target} {x : Addr} (hinv : Inv s)
    (I : TInfo s sp tg x) (hm : I.o.isMut = true) :
    ∃ kids, I.tx = .node x true I.o.sc kids ∧ mapO (unfoldA I.g s.heap) I.o.refs = some kids ∧
      (∀ k ∈ kids, x ∉ addrs k) ∧ (∀ y, cnt y I.tx ≤ 1) ∧ flagsOKL true kids := by
  obtain ⟨o, kids, ho, hk, htx⟩ := unfoldA_succ I.hux
  rw [I.ho] at ho; cases ho
  have hmp := mutPath_of_sub hinv.immClosed I.ho hm I.hu I.hsub I.haddr
  have hle : ∀ y, cnt y I.tx ≤ 1 := by
    intro y
    have h1 := cnt_sub_le y I.hsub hmp
    have h2 := nameCnt_le_total (h := s.heap) (y := y) (root_mem I.hroot)
    have h3 : nameCnt s.heap y (some I.a) = cnt y I.t := by simp [nameCnt, cntAt, I.hu]
    have h4 := hinv.sep y
    rw [h3] at h2
    exact Nat.le_trans h1 (Nat.le_trans h2 h4)
  rw [hm] at htx
  refine ⟨kids, htx, hk, ?_, hle, ?_⟩
  · intro k hkm
    have hx := hle x
    rw [htx] at hx
    simp only [cnt, if_true] at hx
    have hz : cntL x kids = 0 := by omega
    obtain ⟨c, _, huc⟩ := mapO_mem hk hkm
    exact not_mem_of_cnt_zero hinv.immClosed I.ho hm huc (cntL_eq_zero.mp hz k hkm)
  · have := I.hfx
    rw [htx] at this
    exact this.2

theorem assemble_applySc {sc : Scalars} {vs : List Val} {v : Val} (h : assemble sc vs = some v) (f : Field) :
    (applySc f sc = none → f.apply v = none) ∧
    (∀ sc', applySc f sc = some sc' → ∃ w, f.apply v = some w ∧ assemble sc' vs = some w ∧
      sc'.alwaysImm = sc.alwaysImm ∧ valKind w = valKind v ∧ sc'.isSeq = false) := by
  have hk := assemble_kind h
  cases sc with
  | outpoint hh n =>
    cases vs <;> simp [assemble] at h
    subst h
    cases f <;> simp [applySc, Field.apply, assemble, valKind, Scalars.alwaysImm, Scalars.isSeq]
  | txin sg q =>
    match vs, h with
    | [.outpoint o], h =>
      simp [assemble] at h; subst h
      cases f <;> simp [applySc, Field.apply, assemble, valKind, Scalars.alwaysImm, Scalars.isSeq]
  | txout x sg =>
    cases vs <;> simp [assemble] at h
    subst h
    cases f <;> simp [applySc, Field.apply, assemble, valKind, Scalars.alwaysImm, Scalars.isSeq]
  | tx ver lock =>
    match vs, h with
    | [.ins vin, .outs vout, .wit w], h =>
      simp [assemble] at h; subst h
      cases f <;> simp [applySc, Field.apply, assemble, valKind, Scalars.alwaysImm, Scalars.isSeq]
  | seq k =>
    cases f <;> simp [applySc] <;> cases v <;> simp [valKind, Scalars.kind] at hk <;> simp [Field.apply] <;>
      cases k <;> simp at hk
  | inwit st =>
    cases f <;> simp [applySc] <;> cases v <;> simp [valKind, Scalars.kind] at hk <;> simp [Field.apply]
  | wit =>
    cases f <;> simp [applySc] <;> cases v <;> simp [valKind, Scalars.kind] at hk <;> simp [Field.apply]
  | header hd =>
    cases f <;> simp [applySc] <;> cases v <;> simp [valKind, Scalars.kind] at hk <;> simp [Field.apply]
  | block hd =>
    cases f <;> simp [applySc] <;> cases v <;> simp [valKind, Scalars.kind] at hk <;> simp [Field.apply]

theorem sim_assign {s : St} {sp : Store} (hinv : Inv s) (hrel : Rel s sp) (tg : Target) (f : Field) :
    Sim s sp (.assign tg f) := by
  simp only [Sim, step, Spec.ValueSem.step]
  cases ht : s.target tg with
  | none =>
    rw [target_none hinv hrel ht]
    exact ⟨inv_skip hinv, rel_skip hrel, rfl⟩
  | some x =>
    obtain ⟨I⟩ := target_some hinv hrel ht
    simp only [I.ho, I.hlook, I.isSeq_eq, assignAt]
    cases hseq : I.vx.isSeq with
    | true => exact ⟨inv_skip hinv, rel_skip hrel, by simp⟩
    | false =>
      simp only [Bool.false_eq_true, if_false, I.hom]
      cases hm : I.o.isMut with
      | false => exact ⟨inv_skip hinv, rel_skip hrel, by simp⟩
      | true =>
        simp only [Bool.not_true, Bool.false_eq_true, if_false]
        obtain ⟨kids, htx, hk, hnot, hle, hfl⟩ := I.mut_facts hinv hm
        have hdx := I.hdx
        rw [htx] at hdx
        obtain ⟨vs, hvs, hasm⟩ := decode_inv hdx
        obtain ⟨hnone, hsome⟩ := assemble_applySc hasm f
        cases hap : applySc f I.o.sc with
        | none =>
          simp only [hnone hap]
          exact ⟨inv_skip hinv, rel_skip hrel, trivial⟩
        | some sc' =>
          obtain ⟨w, hw, hasm', hai, hkw, hnseq⟩ := hsome sc' hap
          simp only [hw]
          -- the value level update succeeds
          have hlook := I.hlook
          simp only [lookup, I.hentry, Option.bind_eq_bind, Option.bind_some] at hlook
          obtain ⟨v', hput, _⟩ := put_some hlook hkw
          simp only [update, I.hentry, hput, Option.bind_eq_bind, Option.bind_some, pure]
          -- the heap level write
          let o' : Obj := { isMut := true, sc := sc', refs := I.o.refs, cHash := I.o.cHash, cPy := I.o.cPy }
          let t' : ATree := .node x true sc' kids
          have hxl : x < s.heap.length := (List.getElem?_eq_some_iff.mp I.ho).1
          have ht' : unfoldA (I.g + 1) (s.heap.set x o') x = some t' := by
            have := unfold_new_node (o' := o') hxl (g := I.g) (tcs := kids) hk hnot
            simpa [o', t', hm] using this
          have hdt' : decode t' = some w := by
            simp only [t', decode_node, hvs, Option.bind_some]; exact hasm'
          have hdec := decode_replaceAt I.hsub I.hd hdt' hput
          have hsc : I.tx.sc = I.o.sc := I.hosc
          have hmut := inv_mutate hinv I.hroot I.hu I.hsub I.haddr I.ho hm (h1 := s.heap) (e := [])
            (by simp) (by simp) hinv.immClosed (o' := o') rfl
            (by
              have := hinv.kindOK x I.o I.ho
              simp only [o']
              rw [hai]
              cases hh : I.o.sc.alwaysImm with
              | false => rfl
              | true => rw [this hh] at hm; cases hm)
            I.hD ht' hdec
            (by show sc'.alwaysImm = I.tx.sc.alwaysImm; rw [hai, hsc])
            (by exact ⟨rfl, hfl⟩)
            (by
              intro y
              have h1 := hle y
              rw [htx] at h1 ⊢
              exact ⟨h1, fun _ => Nat.le_refl _⟩)
          obtain ⟨hinv', hnewtree, hoth⟩ := hmut
          refine ⟨hinv', ?_, trivial⟩
          have hrootflag : (replaceAt I.t tg.path t').isMut = I.e.isMut := by
            have hfl' := flagsOK_replaceAt (t' := t') I.hsub I.hf
              (by show sc'.alwaysImm = I.tx.sc.alwaysImm; rw [hai, hsc])
              (by rw [htx]; exact ⟨rfl, hfl⟩)
            rw [flagsOK_isMut hfl', I.hm]
          exact rel_mutate hrel I.hroot I.hentry hnewtree hdec hrootflag hoth

end BtcVerif.Model.Heap
