/-
  Helper lemmas for C02 (identifiers).  The hash function is an arbitrary `H : Bytes → Bytes`
  throughout (SHA-256 is never unfolded).
-/
import BtcVerif.Proofs.Wire
import BtcVerif.Model.Ident
import BtcVerif.Spec.Ident

namespace BtcVerif.Codec
open BtcVerif BtcVerif.Model.Wire BtcVerif.Model.Ident BtcVerif.Spec.Wire

theorem compactSize_ne_nil (n : Nat) : compactSize n ≠ [] := by
  unfold compactSize
  split
  · simp
  · split
    · simp
    · split <;> simp

theorem witStack_ne_nil (s : WitStack) : witStack s ≠ [] := by
  unfold witStack vec
  intro h
  exact compactSize_ne_nil _ (List.append_eq_nil_iff.1 h).1

/-- the serialised witness is empty exactly for the witness object without entries -/
theorem witness_bytes_eq_nil_iff (w : List WitStack) : (w.map witStack).flatten = [] ↔ w = [] := by
  cases w with
  | nil => simp
  | cons s w =>
    simp only [List.map_cons, List.flatten_cons, List.append_eq_nil_iff, reduceCtorEq, iff_false, not_and]
    intro h
    exact absurd h (witStack_ne_nil s)

/-- `self.wit != CTxWitness()` is true exactly when the witness object has at least one entry
    (all-empty stacks included) -/
theorem witNeDefault_ok {w : List WitStack} (h : ∀ s ∈ w, WFWitStack s) :
    witNeDefault w = .ok (!w.isEmpty) := by
  unfold witNeDefault
  rw [serWitness_ok h]
  have h0 : serWitness [] = .ok [] := rfl
  simp only [ok_bind, h0]
  cases w with
  | nil => rfl
  | cons s w =>
    have : (List.map witStack (s :: w)).flatten ≠ [] := by
      rw [Ne, witness_bytes_eq_nil_iff]; simp
    show (Except.ok ((List.map witStack (s :: w)).flatten != []) : Res Bool) = _
    rw [bne_iff_ne.2 this]
    rfl

/-- with at least one input the two forms differ (at byte 4: marker `00` against a non-zero count) -/
theorem txExtended_ne_txLegacy (t : Tx) (h : 1 ≤ t.vin.length) : txExtended t ≠ txLegacy t := by
  intro heq
  have := congrArg (List.drop 4) heq
  rw [txExtended_eq, txLegacy_eq, List.drop_left' (leBytesInt_length 4 _),
    List.drop_left' (leBytesInt_length 4 _)] at this
  obtain ⟨b, c, E, hE, hb⟩ := legacyBody_shape t h
  rw [hE] at this
  simp only [List.cons_append, List.cons.injEq] at this
  exact hb this.1.symm

/-- fields in wire range pass the constructors of the stripped copy -/
theorem ctorValid_of_wf {t : Tx} (wf : WFTx t) : ctorValid t = true := by
  obtain ⟨_, _, _, _, _, hvin, _, _, _, hlock⟩ := wf
  unfold ctorValid
  simp only [Bool.and_eq_true, decide_eq_true_eq, List.all_eq_true, beq_iff_eq]
  refine ⟨by omega, ?_⟩
  intro i hi
  obtain ⟨⟨h1, h2⟩, _, h3⟩ := hvin i hi
  exact ⟨⟨h1, by omega⟩, by omega⟩

/-- the constructor test does not look at the witness -/
theorem ctorValid_wit (t : Tx) (w : List WitStack) : ctorValid { t with wit := w } = ctorValid t := rfl

/-- value of `GetTxid` for any serialisable witness: ValueError if the stripped copy cannot be
    constructed *and* the witness object has entries, else the hash of the stripped serialisation -/
theorem getTxidWith_eq (H : Bytes → Bytes) (t : Tx) (hw : ∀ s ∈ t.wit, WFWitStack s)
    (hc : ctorValid t = true) :
    getTxidWith H t = (serTx { t with wit := [] }).map H := by
  unfold getTxidWith
  rw [witNeDefault_ok hw]
  simp only [ok_bind]
  cases hwit : t.wit with
  | nil =>
    have : t = { t with wit := [] } := by
      cases t; simp_all
    simp only [List.isEmpty_nil, Bool.not_true, Bool.false_eq_true, if_false]
    rw [← this]
    cases serTx t <;> rfl
  | cons s w =>
    simp only [List.isEmpty_cons, Bool.not_false, if_true, hc, Bool.not_true, Bool.false_eq_true, if_false]
    cases serTx { t with wit := [] } <;> rfl

/-- when the constructors refuse the stripped copy `GetTxid` raises ValueError as soon as the
    witness object has an entry (nothing is serialised first) -/
theorem getTxidWith_valueerr (H : Bytes → Bytes) (t : Tx) (hw : ∀ s ∈ t.wit, WFWitStack s)
    (hne : t.wit ≠ []) (hc : ctorValid t = false) : getTxidWith H t = .error .valueerr := by
  unfold getTxidWith
  rw [witNeDefault_ok hw]
  cases hwit : t.wit with
  | nil => exact absurd hwit hne
  | cons s w =>
    simp only [ok_bind, List.isEmpty_cons, Bool.not_false, if_true, hc]
    rfl

/-! ### `CMutableTransaction.stream_deserialize` -/

theorem mutableDefaultWit_of_hasWitness {t : Tx} (h : t.hasWitness = true) : mutableDefaultWit t = t := by
  unfold mutableDefaultWit
  have := hasWitness_wit_ne_nil h
  cases hw : t.wit with
  | nil => exact absurd hw this
  | cons s w => simp

theorem hasWitness_replicate (t : Tx) (n : Nat) :
    ({ t with wit := List.replicate n [] } : Tx).hasWitness = false := by
  simp [Tx.hasWitness]

theorem wf_mutableDefaultWit {t : Tx} (wf : WFTx t) : WFTx (mutableDefaultWit t) := by
  unfold mutableDefaultWit
  split
  · obtain ⟨hv1, hv2, h1, hin, hout, hvin, hvout, _, _, hlock⟩ := wf
    refine ⟨hv1, hv2, h1, hin, hout, hvin, hvout, Or.inr (by simp), ?_, hlock⟩
    intro s hs
    have : s = [] := (List.mem_replicate.1 hs).2
    subst this
    exact ⟨by decide, by simp⟩
  · exact wf

/-- the mutable default witness (one empty stack per input) serialises like no witness at all -/
theorem txBytes_mutableDefaultWit (t : Tx) : txBytes (mutableDefaultWit t) = txBytes t := by
  unfold mutableDefaultWit
  split
  · rename_i h
    have h0 : t.wit = [] := List.isEmpty_iff.1 h
    have hw : t.hasWitness = false := by simp [Tx.hasWitness, h0]
    simp only [txBytes, hasWitness_replicate, hw, Bool.false_eq_true, if_false]
    rfl
  · rfl

theorem dec_deTxMutable (t : Tx) (wf : WFTx t) :
    Dec deTxMutable (txBytes t) (mutableDefaultWit (normTx t)) := by
  unfold deTxMutable
  exact Dec.bind_last (dec_deTx t wf) (fun _ => rfl)

theorem clean_deTxMutable : Clean deTxMutable := by
  intro s; unfold deTxMutable
  clean_step (clean_deTx s)
  exact LibErr.pure _

/-- serialisation is injective on well-formed values up to the normal form -/
theorem txBytes_inj {a b : Tx} (wa : WFTx a) (wb : WFTx b) (h : txBytes a = txBytes b) :
    normTx a = normTx b := by
  have ha := (dec_deTx a wa).exact
  have hb := (dec_deTx b wb).exact
  rw [h, hb] at ha
  injection ha with ha
  exact (Prod.mk.inj ha).1.symm

end BtcVerif.Codec
