/-
  Helper lemmas for C02 (identifiers).  The hash function is an arbitrary `H : Bytes → Bytes`
  throughout (SHA-256 is never unfolded).
-/
import BtcVerif.Proofs.Wire
import BtcVerif.Model.Ident
import BtcVerif.Spec.Ident

namespace BtcVerif.Codec
open BtcVerif BtcVerif.Model.Wire BtcVerif.Model.Ident BtcVerif.Spec.Wire

theorem compactSize_ne_nil (n : Nat) : compactSize n ≠ [] := by
  unfold compactSize
  split
  · simp
  · split
    · simp
    · split <;> simp

theorem witStack_ne_nil (s : WitStack) : witStack s ≠ [] := by
  unfold witStack vec
  intro h
  exact compactSize_ne_nil _ (List.append_eq_nil_iff.1 h).1

/-- the serialised witness is empty exactly for the witness object without entries -/
theorem witness_bytes_eq_nil_iff (w : List WitStack) : (w.map witStack).flatten = [] ↔ w = [] := by
  cases w with
  | nil => simp
  | cons s w =>
    simp only [List.map_cons, List.flatten_cons, List.append_eq_nil_iff, reduceCtorEq, iff_false, not_and]
    intro h
    exact absurd h (witStack_ne_nil s)

/-- `self.wit != CTxWitness()` is true exactly when the witness object has at least one entry
    (all-empty stacks included) -/
theorem witNeDefault_ok {w : List WitStack} (h : ∀ s ∈ w, WFWitStack s) :
    witNeDefault w = .ok (!w.isEmpty) := by
  unfold witNeDefault
  rw [serWitness_ok h]
  have h0 : serWitness [] = .ok [] := rfl
  simp only [ok_bind, h0]
  cases w with
  | nil => rfl
  | cons s w =>
    have : (List.map witStack (s :: w)).flatten ≠ [] := by
      rw [Ne, witness_bytes_eq_nil_iff]; simp
    show (Except.ok ((List.map witStack (s :: w)).flatten != []) : Res Bool) = _
    rw [bne_iff_ne.2 this]
    rfl

/-- with at least one input the two forms differ (at byte 4: marker `00` against a non-zero count) -/
theorem txExtended_ne_txLegacy (t : Tx) (h : 1 ≤ t.vin.length) : txExtended t ≠ txLegacy t := by
  intro heq
  have := congrArg (List.drop 4) heq
  rw [txExtended_eq, txLegacy_eq, List.drop_left' (leBytesInt_length 4 _),
    List.drop_left' (leBytesInt_length 4 _)] at this
  obtain ⟨b, c, E, hE, hb⟩ := legacyBody_shape t h
  rw [hE] at this
  simp only [List.cons_append, List.cons.injEq] at this
  exact hb this.1.symm

/-- value of `GetTxid` for any serialisable witness: the hash of the stripped serialisation -/
theorem getTxidWith_eq (H : Bytes → Bytes) (t : Tx) (hw : ∀ s ∈ t.wit, WFWitStack s)
    (hl : t.nLockTime < 2 ^ 32) :
    getTxidWith H t = (serTx { t with wit := [] }).map H := by
  unfold getTxidWith
  rw [witNeDefault_ok hw]
  simp only [ok_bind]
  cases hwit : t.wit with
  | nil =>
    have : t = { t with wit := [] } := by
      cases t; simp_all
    simp only [List.isEmpty_nil, Bool.not_true, Bool.false_eq_true, if_false]
    rw [← this]
    cases serTx t <;> rfl
  | cons s w =>
    have hgt : ¬ t.nLockTime > 0xffffffff := by omega
    simp only [List.isEmpty_cons, Bool.not_false, if_true, hgt, if_false]
    cases serTx { t with wit := [] } <;> rfl

/-- serialisation is injective on well-formed values up to the normal form -/
theorem txBytes_inj {a b : Tx} (wa : WFTx a) (wb : WFTx b) (h : txBytes a = txBytes b) :
    normTx a = normTx b := by
  have ha := (dec_deTx a wa).exact
  have hb := (dec_deTx b wb).exact
  rw [h, hb] at ha
  injection ha with ha
  exact (Prod.mk.inj ha).1.symm

end BtcVerif.Codec
