/-
  C09 helper lemmas, part 23: every operation is simulated; histories.
-/
import BtcVerif.Proofs.HeapBlock2

namespace BtcVerif.Model.Heap
open BtcVerif BtcVerif.Spec.ValueSem

theorem sim_all {s : St} {sp : Store} (hinv : Inv s) (hrel : Rel s sp) (op : Op) : Sim s sp op := by
  cases hc : coreOp op with
  | true => exact sim_core hinv hrel op hc
  | false =>
    cases op with
    | newBlock h t => exact sim_newBlock hinv hrel h t
    | sighash r sb i ht => exact sim_sighash hinv hrel r sb i ht
    | verify r i c => exact sim_verify hinv hrel r i c
    | _ => simp [coreOp] at hc

/-- the value store a state denotes -/
def denote (s : St) : Store :=
  s.names.map fun n => n.bind fun a => (unfoldA D s.heap a).bind fun t => (decode t).map fun v => ⟨t.isMut, v⟩

theorem rel_denote {s : St} (hinv : Inv s) : Rel s (denote s) := by
  refine ⟨by simp [denote], ?_⟩
  intro r
  simp only [denote, St.root, List.getElem?_map]
  cases hn : s.names[r]? with
  | none => simp [RelAt]
  | some n =>
    cases n with
    | none => simp [RelAt]
    | some a =>
      obtain ⟨t, v, hu, hd, _⟩ := hinv.roots r a (by simp [St.root, hn])
      simp only [Option.map_some, Option.join_some, Option.bind_some, hu, hd, RelAt]
      exact ⟨t, rfl, hd, rfl⟩

theorem run_sim : ∀ (ops : List Op) {s : St} {sp : Store}, Inv s → Rel s sp →
    Inv (run s ops).1 ∧ Rel (run s ops).1 (Spec.ValueSem.run sp ops).1 ∧ (run s ops).2 = (Spec.ValueSem.run sp ops).2
  | [], s, sp, hinv, hrel => ⟨hinv, hrel, rfl⟩
  | op :: ops, s, sp, hinv, hrel => by
    obtain ⟨h1, h2, h3⟩ := sim_all hinv hrel op
    obtain ⟨k1, k2, k3⟩ := run_sim ops h1 h2
    simp only [run, Spec.ValueSem.run]
    exact ⟨k1, k2, by rw [h3, k3]⟩

end BtcVerif.Model.Heap
