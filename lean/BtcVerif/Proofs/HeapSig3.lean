/-
  C09 helper lemmas, part 20: `RawSignatureHash` on a named transaction; simulation of
  `sighash` and `verify`.
-/
import BtcVerif.Proofs.HeapSig2

namespace BtcVerif.Model.Heap
open BtcVerif BtcVerif.Spec.ValueSem

theorem cnt_root_pos {t : ATree} (hm : t.isMut = true) : 1 ≤ cnt t.addr t := by
  cases t with | node a m sc kids =>
    simp only [ATree.isMut] at hm
    simp [cnt, hm, ATree.addr]

/-- what the heap looks like right after `CMutableTransaction.from_tx(txTo)` -/
theorem cloned_of_clone {s : St} (hinv : Inv s) {a : Addr} {ta : ATree} {tv : Tx}
    (hu : unfoldA D s.heap a = some ta) (hd : decode ta = some (.tx tv)) :
    ∃ p, planClone true D s.heap a = some p ∧ ∃ vinL voutL w ins,
      Cloned s.heap (allocPlan s.heap p).1 (allocPlan s.heap p).2 vinL voutL w ins ∧
      ins.length = tv.vin.length ∧ Good s.heap (allocPlan s.heap p).1 := by
  obtain ⟨p, hp, e, t', he, hnew, hic, ht', hdec, hsc, hfl, hcnt⟩ := clone_step hinv true hu
  refine ⟨p, hp, ?_⟩
  generalize (allocPlan s.heap p).1 = h1 at *
  generalize (allocPlan s.heap p).2 = c at *
  rw [hd] at hdec
  have hnai : t'.sc.alwaysImm = false := by
    have := (decode_alwaysImm hdec).1; rw [← this]; rfl
  have hfl' : flagsOK true t' := by simpa [hnai] using hfl
  -- the transaction object
  have ht7 := ht'
  rw [D_eq] at ht7
  obtain ⟨oc, kids, hoc, hk, rfl⟩ := unfoldA_succ ht7
  have hocm : oc.isMut = true := hfl'.1
  obtain ⟨vs, hvs, hasm⟩ := decode_inv hdec
  have hkind := assemble_kind hasm
  obtain ⟨ver, lock, hscc⟩ := kind_tx hkind.symm
  rw [hscc] at hasm
  obtain ⟨vin, vout, wv, rfl⟩ := assemble_tx_inv hasm
  simp only [assemble, Option.some.injEq, Val.tx.injEq] at hasm
  have hlenk := mapO_length hvs
  match kids, hlenk with
  | [k0, k1, k2], _ =>
    have hlenr := mapO_length hk
    match hr : oc.refs, hlenr with
    | [vinL, voutL, w], _ =>
      rw [hr] at hk
      simp only [mapO] at hk hvs
      -- unfold the three parts
      cases h0 : unfoldA (4 + 3) h1 vinL with
      | none => simp [h0] at hk
      | some k0' =>
      cases h1' : unfoldA (4 + 3) h1 voutL with
      | none => simp [h0, h1'] at hk
      | some k1' =>
      cases h2' : unfoldA (4 + 3) h1 w with
      | none => simp [h0, h1', h2'] at hk
      | some k2' =>
      simp only [h0, h1', h2', Option.some.injEq, List.cons.injEq, and_true] at hk
      obtain ⟨rfl, rfl, rfl⟩ := hk
      cases d0 : decode k0' with
      | none => simp [d0] at hvs
      | some v0 =>
      cases d1 : decode k1' with
      | none => simp [d0, d1] at hvs
      | some v1 =>
      cases d2 : decode k2' with
      | none => simp [d0, d1, d2] at hvs
      | some v2 =>
      simp only [d0, d1, d2, Option.some.injEq, List.cons.injEq, and_true] at hvs
      obtain ⟨rfl, rfl, rfl⟩ := hvs
      -- the list `vin`
      obtain ⟨lo, items, hlo, hkit, rfl⟩ := unfoldA_succ h0
      have hk0 := decode_kind d0
      have hlsc : lo.sc = .seq .ins := kind_ins hk0.symm
      have hf0 : flagsOK true (.node vinL lo.isMut lo.sc items) := by
        have := flagsOKL_iff.mp hfl'.2 _ (List.mem_cons_self)
        simpa [ATree.sc, hlsc, Scalars.alwaysImm] using this
      have hlom : lo.isMut = true := hf0.1
      obtain ⟨ivs, hivs, hiasm⟩ := decode_inv d0
      rw [hlsc] at hiasm
      simp only [assemble, Option.map_eq_some_iff] at hiasm
      obtain ⟨l, hl, hle⟩ := hiasm
      cases hle
      have hivs' : ivs = vin.map .txin := mapO_asTxIn hl
      -- freshness from the counting bound
      have hroot : ∀ y, 1 ≤ cnt y (.node c oc.isMut oc.sc [.node vinL lo.isMut lo.sc items, k1', k2']) →
          s.heap.length ≤ y := by
        intro y hy
        have := hcnt y
        by_cases hyl : s.heap.length ≤ y
        · exact hyl
        · rw [if_neg hyl] at this; omega
      have hcfresh : s.heap.length ≤ c := hroot c (by simp [cnt, hocm])
      have hvfresh : s.heap.length ≤ vinL := hroot vinL (by simp only [cnt, cntL, hocm, hlom, if_true]; omega)
      have hitems : ∀ x ∈ lo.refs, s.heap.length ≤ x ∧ ∃ n, ObjIs h1 x 1 n := by
        intro x hx
        obtain ⟨it, hit, hux⟩ := mapO_mem' hkit hx
        obtain ⟨ox, kx, hox, _, rfl⟩ := unfoldA_succ hux
        obtain ⟨vi, hvi, hdi⟩ := mapO_mem' hivs hit
        have hvik : ∃ i, vi = .txin i := by
          rw [hivs'] at hvi
          obtain ⟨i, _, rfl⟩ := List.mem_map.mp hvi
          exact ⟨i, rfl⟩
        obtain ⟨i, rfl⟩ := hvik
        have hkx := decode_kind hdi
        have hfx := flagsOKL_iff.mp hf0.2 _ hit
        have hnaix : ox.sc.alwaysImm = false := (decode_alwaysImm hdi).1.symm
        have hxm : ox.isMut = true := by
          have := hfx.1; simpa [ATree.sc, hnaix] using this
        refine ⟨?_, ox.refs.length, ox, hox, hxm, hkx.symm, fun _ => rfl⟩
        apply hroot x
        obtain ⟨j, hj, hje⟩ := List.getElem_of_mem hit
        have h1c := cntL_le_of_getElem (x := x) (ts := items) (i := j)
          (k := .node x ox.isMut ox.sc kx) (by rw [List.getElem?_eq_getElem hj, hje])
        have : 1 ≤ cnt x (.node x ox.isMut ox.sc kx) := by simp [cnt, hxm]
        simp only [cnt, cntL, hocm, hlom, if_true]
        omega
      have hvoutlt : voutL < h1.length := by
        obtain ⟨o1, _, ho1, _, _⟩ := unfoldA_succ h1'
        exact (List.getElem?_eq_some_iff.mp ho1).1
      have hempty : ImmAt h1 emptyTuple := by
        obtain ⟨o0, o1, h0e, a1, _⟩ := hinv.defaults
        exact ⟨o0, by rw [he]; exact getElem?_append_of_some e h0e, a1⟩
      refine ⟨vinL, voutL, w, lo.refs, ?_, ?_, ⟨⟨e, he, hnew⟩, hic⟩⟩
      · refine ⟨hcfresh, ⟨oc, hoc, hocm, by rw [hscc]; rfl, fun _ => by rw [hr]; rfl⟩, ?_, ⟨lo, hlo, rfl⟩,
          hitems, hvoutlt, hempty, by rw [he]; simp⟩
        exact ⟨oc, by simp [txParts, hoc, hscc, hr]⟩
      · have h1l := mapO_length hkit
        have h2l := mapO_length hivs
        rw [hivs'] at h2l
        simp at h2l
        have htv : tv.vin = vin := by rw [← hasm]
        rw [htv]
        omega

/-- `RawSignatureHash` never gets stuck on a named transaction, and all it leaves behind is an
    extension of the heap by fresh objects -/
theorem rawSigHash_ok {s : St} (hinv : Inv s) {a : Addr} {tv : Tx} (habs : absVal s.heap a = some (.tx tv))
    (sub : Bytes) (inIdx ht : Nat) :
    ∃ h' d, rawSigHash s.heap a sub inIdx ht = some (h', d) ∧ Good s.heap h' := by
  have gself : Good s.heap s.heap := ⟨⟨[], by simp, by simp⟩, hinv.immClosed⟩
  simp only [rawSigHash, habs]
  by_cases h1 : inIdx ≥ tv.vin.length
  · exact ⟨s.heap, .ok hashOne, by simp [h1], gself⟩
  · simp only [h1, if_false]
    cases hv : validTx tv with
    | false => exact ⟨s.heap, .error .valueerr, by simp, gself⟩
    | true =>
      simp only [Bool.not_true, Bool.false_eq_true, if_false]
      simp only [absVal] at habs
      cases hu : unfoldA D s.heap a with
      | none => simp [hu] at habs
      | some ta =>
        simp only [hu, Option.bind_some] at habs
        obtain ⟨p, hp, vinL, voutL, w, ins, C, hlen, g1⟩ := cloned_of_clone hinv hu habs
        obtain ⟨h', d, es, st⟩ := surgery_ok C sub ht (by omega : inIdx < ins.length)
        refine ⟨h', d.getD (.ok hashOne), ?_, steps_good g1 st⟩
        simp [hp, es]

theorem good_trans {h hh hh' : Heap} (g1 : Good h hh) (g2 : Good hh hh') : Good h hh' := by
  obtain ⟨⟨e1, rfl, n1⟩, _⟩ := g1
  obtain ⟨⟨e2, rfl, n2⟩, i2⟩ := g2
  refine ⟨⟨e1 ++ e2, by simp, ?_⟩, i2⟩
  intro o ho
  rcases List.mem_append.mp ho with h1 | h1
  · exact n1 o h1
  · exact n2 o h1

/-- a state whose heap was extended by fresh objects only -/
theorem inv_good {s : St} (hinv : Inv s) {h' : Heap} (g : Good s.heap h') : Inv { s with heap := h' } := by
  obtain ⟨⟨e, rfl, hnew⟩, hic⟩ := g
  refine ⟨hic, ?_, ?_, ?_, ?_, defaults_ext e hinv.defaults⟩
  · have := (inv_ext hinv (e := e) rfl hnew hic none (fun a ha => by cases ha)).kindOK
    exact this
  · exact (inv_ext hinv (e := e) rfl hnew hic none (fun a ha => by cases ha)).cacheOK
  · intro y
    have hold : total (s.heap ++ e) s.names y = total s.heap s.names y := by
      apply total_congr
      intro a ha
      obtain ⟨r, hr⟩ := mem_root ha
      exact cntAt_ext e (hinv.roots r a hr)
    show total (s.heap ++ e) s.names y ≤ 1
    rw [hold]; exact hinv.sep y
  · intro r a hr
    exact rootOK_ext e (hinv.roots r a hr)

theorem absVal_good {s : St} {h' : Heap} (g : Good s.heap h') {a : Addr} {v : Val}
    (hv : absVal s.heap a = some v) : absVal h' a = some v := by
  obtain ⟨⟨e, rfl, _⟩, _⟩ := g
  exact absVal_ext e hv

theorem sim_sighash {s : St} {sp : Store} (hinv : Inv s) (hrel : Rel s sp) (r : Nat) (sub : Bytes) (i ht : Nat) :
    Sim s sp (.sighash r sub i ht) := by
  simp only [Sim, step, Spec.ValueSem.step, lookupTx]
  rcases root_tx_sim hinv hrel r with ⟨h1, h2⟩ | ⟨a, e, t, h1, h2, _, _, _, _, habs⟩
  · simp only [h1, h2]
    exact ⟨inv_skip hinv, rel_skip hrel, rfl⟩
  · simp only [h1, h2, habs]
    cases hval : e.val with
    | tx tv =>
      rw [hval] at habs
      obtain ⟨h', d, es, g⟩ := rawSigHash_ok hinv habs sub i ht
      obtain ⟨⟨ee, he, hnew⟩, hic⟩ := g
      simp only [es]
      exact ⟨inv_ext hinv he hnew hic none (fun a ha => by cases ha), rel_ext hrel he trivial, trivial⟩
    | _ => exact ⟨inv_skip hinv, rel_skip hrel, rfl⟩

/-- any number of `RawSignatureHash` calls -/
theorem rawSigHashes_ok {s : St} (hinv : Inv s) {a : Addr} {tv : Tx} (inIdx : Nat) :
    ∀ (calls : List (Bytes × Nat)) (hh : Heap), Good s.heap hh → absVal s.heap a = some (.tx tv) →
      ∃ h', rawSigHashes hh a inIdx calls = some h' ∧ Good s.heap h'
  | [], hh, g, _ => ⟨hh, rfl, g⟩
  | (sub, ht) :: cs, hh, g, habs => by
    have hinv' : Inv { s with heap := hh } := inv_good hinv g
    obtain ⟨h1, d, e1, g1⟩ := rawSigHash_ok (s := { s with heap := hh }) hinv' (absVal_good g habs) sub inIdx ht
    have g1' : Good s.heap h1 := good_trans g g1
    obtain ⟨h2, e2, g2⟩ := rawSigHashes_ok hinv inIdx cs h1 g1' habs
    exact ⟨h2, by simp only [rawSigHashes]; rw [show rawSigHash hh a sub inIdx ht = some (h1, d) from e1]; exact e2, g2⟩

theorem sim_verify {s : St} {sp : Store} (hinv : Inv s) (hrel : Rel s sp) (r i : Nat) (calls : List (Bytes × Nat)) :
    Sim s sp (.verify r i calls) := by
  simp only [Sim, step, Spec.ValueSem.step, lookupTx]
  rcases root_tx_sim hinv hrel r with ⟨h1, h2⟩ | ⟨a, e, t, h1, h2, _, _, _, _, habs⟩
  · simp only [h1, h2]
    exact ⟨inv_skip hinv, rel_skip hrel, rfl⟩
  · simp only [h1, h2, habs]
    cases hval : e.val with
    | tx tv =>
      rw [hval] at habs
      have gself : Good s.heap s.heap := ⟨⟨[], by simp, by simp⟩, hinv.immClosed⟩
      obtain ⟨h', es, g⟩ := rawSigHashes_ok hinv i calls s.heap gself habs
      obtain ⟨⟨ee, he, hnew⟩, hic⟩ := g
      simp only [es]
      exact ⟨inv_ext hinv he hnew hic none (fun a ha => by cases ha), rel_ext hrel he trivial, trivial⟩
    | _ => exact ⟨inv_skip hinv, rel_skip hrel, rfl⟩

end BtcVerif.Model.Heap
