/-
  C19 — helper lemmas: hex round trips, the decimal-context arithmetic of amounts, the number scanner.
-/
import BtcVerif.Model.Rpc
import Mathlib.Tactic.SplitIfs
namespace BtcVerif.Rpc
open BtcVerif Model.Rpc

/-! ### hex -/

theorem hexVal_hexDigit : ∀ n, n < 16 → hexVal? (hexDigit n) = some n := by decide

theorem ofNat_hex (x y : Nat) (hx : x < 16) (hy : y < 16) :
    (UInt8.ofNat (16 * x + y)).toNat / 16 = x ∧ (UInt8.ofNat (16 * x + y)).toNat % 16 = y := by
  rw [UInt8.toNat_ofNat']
  omega

theorem ofHexChars_flatMap (b : Bytes) : ofHexChars? (b.flatMap hexOfByte) = some b := by
  induction b with
  | nil => rfl
  | cons x xs ih =>
    have hx := x.toNat_lt
    simp only [List.flatMap_cons, hexOfByte, List.cons_append, List.nil_append, ofHexChars?,
      hexVal_hexDigit _ (show x.toNat / 16 < 16 by omega), hexVal_hexDigit _ (show x.toNat % 16 < 16 by omega), ih]
    have : UInt8.ofNat (16 * (x.toNat / 16) + x.toNat % 16) = x := by
      rw [Nat.div_add_mod]; exact UInt8.ofNat_toNat
    show some (UInt8.ofNat (16 * (x.toNat / 16) + x.toNat % 16) :: xs) = some (x :: xs)
    rw [this]

theorem ofHex_toHex (b : Bytes) : ofHex? (toHex b) = some b := by
  unfold ofHex? toHex
  rw [String.toList_ofList]
  exact ofHexChars_flatMap b


theorem lowerHex_roundtrip (c : Char) (h : Spec.Rpc.isLowerHexChar c = true) :
    ∃ v, v < 16 ∧ hexVal? c = some v ∧ hexDigit v = c := by
  unfold Spec.Rpc.isLowerHexChar at h
  simp only [Bool.or_eq_true, Bool.and_eq_true, decide_eq_true_eq] at h
  rcases h with ⟨h1, h2⟩ | ⟨h1, h2⟩
  · have a1 : 48 ≤ c.toNat := h1
    have a2 : c.toNat ≤ 57 := h2
    refine ⟨c.toNat - 48, by omega, ?_, ?_⟩
    · unfold hexVal?; simp [h1, h2]
    · unfold hexDigit
      have : c.toNat - 48 < 10 := by omega
      simp only [this, if_true]
      rw [show 48 + (c.toNat - 48) = c.toNat by omega, Char.ofNat_toNat]
  · have a1 : 97 ≤ c.toNat := h1
    have a2 : c.toNat ≤ 102 := h2
    refine ⟨c.toNat - 87, by omega, ?_, ?_⟩
    · unfold hexVal?
      have n1 : ¬ ('0' ≤ c ∧ c ≤ '9') := by
        intro ⟨_, hh⟩; have : c.toNat ≤ 57 := hh; omega
      simp [n1, h1, h2]
    · unfold hexDigit
      have : ¬ (c.toNat - 87 < 10) := by omega
      simp only [this, if_false]
      rw [show 87 + (c.toNat - 87) = c.toNat by omega, Char.ofNat_toNat]

theorem flatMap_ofHexChars : ∀ (s : List Char) (b : Bytes), (∀ c ∈ s, Spec.Rpc.isLowerHexChar c = true) →
    ofHexChars? s = some b → b.flatMap hexOfByte = s
  | [], b, _, h => by cases h; rfl
  | [_], b, _, h => by cases h
  | c1 :: c2 :: rest, b, hl, h => by
    obtain ⟨v1, hv1, e1, d1⟩ := lowerHex_roundtrip c1 (hl c1 (by simp))
    obtain ⟨v2, hv2, e2, d2⟩ := lowerHex_roundtrip c2 (hl c2 (by simp))
    unfold ofHexChars? at h
    rw [e1, e2] at h
    cases hr : ofHexChars? rest with
    | none => rw [hr] at h; cases h
    | some r =>
      rw [hr] at h
      have hb : b = UInt8.ofNat (16 * v1 + v2) :: r := by cases h; rfl
      have ih := flatMap_ofHexChars rest r (fun c hc => hl c (by simp [hc])) hr
      obtain ⟨q1, q2⟩ := ofNat_hex v1 v2 hv1 hv2
      rw [hb, List.flatMap_cons, ih, hexOfByte, q1, q2, d1, d2]
      rfl

theorem toHex_ofHex (s : String) (b : Bytes) (hl : ∀ c ∈ s.toList, Spec.Rpc.isLowerHexChar c = true)
    (h : ofHex? s = some b) : toHex b = s := by
  unfold toHex
  rw [flatMap_ofHexChars s.toList b hl h]
  exact String.ofList_toList
/-! ### decimal digits -/

theorem ndigits_lt (n : Nat) : n < 10 ^ ndigits n := by
  induction n using Nat.strongRecOn with
  | _ n ih =>
    rw [ndigits]
    by_cases h : n < 10
    · simp [h]
    · simp only [h, if_false]
      have := ih (n / 10) (by omega)
      rw [Nat.pow_succ]
      omega

theorem ndigits_ge (n : Nat) (hn : n ≠ 0) : 10 ^ (ndigits n - 1) ≤ n := by
  induction n using Nat.strongRecOn with
  | _ n ih =>
    rw [ndigits]
    by_cases h : n < 10
    · simp [h]; omega
    · simp only [h, if_false]
      have := ih (n / 10) (by omega) (by omega)
      have hp : 1 ≤ ndigits (n / 10) := by rw [ndigits]; split <;> omega
      rw [show ndigits (n / 10) + 1 - 1 = (ndigits (n / 10) - 1) + 1 by omega, Nat.pow_succ]
      omega

theorem ndigits_pos (n : Nat) : 1 ≤ ndigits n := by rw [ndigits]; split <;> omega

theorem ndigits_le_of_lt (n m : Nat) (h : n < 10 ^ m) (hm : 1 ≤ m) : ndigits n ≤ m := by
  by_cases hn : n = 0
  · subst hn; rw [ndigits]; simp; exact hm
  · have h1 := ndigits_ge n hn
    by_cases hle : ndigits n ≤ m
    · exact hle
    · exfalso
      have : 10 ^ m ≤ 10 ^ (ndigits n - 1) := Nat.pow_le_pow_right (by omega) (by omega)
      omega

theorem lt_of_ndigits_le (n m : Nat) (h : ndigits n ≤ m) : n < 10 ^ m :=
  Nat.lt_of_lt_of_le (ndigits_lt n) (Nat.pow_le_pow_right (by omega) h)

theorem ndigits_gt_of_ge (n m : Nat) (h : 10 ^ m ≤ n) : m < ndigits n := by
  by_cases hle : ndigits n ≤ m
  · have := lt_of_ndigits_le n m hle; omega
  · omega

/-! ### `Decimal * COIN`, rounded by the context, then `int()` -/

theorem truncDec_eq_nz (c : Nat) (e : Int) : truncDec c e = truncDecNZ c e := by
  unfold truncDec
  by_cases h : c = 0
  · rw [if_pos h, h]
    unfold truncDecNZ
    split
    · simp
    · rename_i he
      have : ndigits 0 = 1 := by rw [ndigits]; simp
      rw [this, if_pos (by omega)]
  · rw [if_neg h]

/-- if the exact product `c · 10^e` is a natural number `k` below 10^28, the context rounding does
    not touch it and `int()` returns it -/
theorem fix_trunc_exact (c : Nat) (e : Int) (k : Nat) (hk : k < 10 ^ 28)
    (h : if 0 ≤ e then c * 10 ^ e.toNat = k else c = k * 10 ^ (-e).toNat) :
    ∃ q e', fix c e = .ok (q, e') ∧ truncDec q e' = k := by
  by_cases hc0 : c = 0
  · subst hc0
    have hk0 : k = 0 := by
      split at h
      · simpa using h.symm
      · have := h.symm
        rcases Nat.mul_eq_zero.mp this with h1 | h1
        · exact h1
        · exact absurd h1 (Nat.ne_of_gt (Nat.pow_pos (by omega)))
    refine ⟨0, e, by simp [fix], ?_⟩
    subst hk0
    rw [truncDec_eq_nz]; unfold truncDecNZ
    split
    · simp
    · split
      · rfl
      · simp
  · have hcpos : 0 < c := Nat.pos_of_ne_zero hc0
    have hnd := ndigits_pos c
    by_cases he : 0 ≤ e
    · -- non-negative exponent: c ≤ k < 10^28, nothing is rounded
      simp only [he, if_true] at h
      have hpos : 0 < 10 ^ e.toNat := Nat.pow_pos (by omega)
      have hck : c ≤ k := by rw [← h]; exact Nat.le_mul_of_pos_right c hpos
      have hn28 : ndigits c ≤ 28 := ndigits_le_of_lt c 28 (by omega) (by omega)
      have he28 : e.toNat < 28 := by
        by_cases hlt : e.toNat < 28
        · exact hlt
        · exfalso
          have : 10 ^ 28 ≤ 10 ^ e.toNat := Nat.pow_le_pow_right (by omega) (by omega)
          have : 10 ^ e.toNat ≤ c * 10 ^ e.toNat := Nat.le_mul_of_pos_left _ hcpos
          omega
      refine ⟨c, e, ?_, ?_⟩
      · unfold fix
        have h1 : ¬ (e + ↑(ndigits c) - 1 > EMAX) := by unfold EMAX; omega
        have h2 : ndigits c ≤ PREC := hn28
        simp only [hc0, if_false, h1, h2, if_true]
      · rw [truncDec_eq_nz]; unfold truncDecNZ
        simp only [he, if_true]
        exact h
    · -- negative exponent: c = k · 10^m
      simp only [he, if_false] at h
      obtain ⟨m, hm⟩ : ∃ m : Nat, (-e).toNat = m ∧ e = -(m : Int) := ⟨(-e).toNat, rfl, by omega⟩
      obtain ⟨hm1, hm2⟩ := hm
      rw [hm1] at h
      have hmpos : 0 < m := by omega
      have hkpos : 0 < k := by
        rcases Nat.eq_zero_or_pos k with h0 | h0
        · subst h0; simp at h; exact absurd h hc0
        · exact h0
      have hp : 0 < 10 ^ m := Nat.pow_pos (by omega)
      have hclt : c < 10 ^ (28 + m) := by
        rw [h, Nat.pow_add]; exact Nat.mul_lt_mul_of_pos_right hk hp
      have hnle : ndigits c ≤ 28 + m := ndigits_le_of_lt c (28 + m) hclt (by omega)
      have hcge : 10 ^ m ≤ c := by rw [h]; exact Nat.le_mul_of_pos_left _ hkpos
      have hngt : m < ndigits c := ndigits_gt_of_ge c m hcge
      have hov : ¬ (e + ↑(ndigits c) - 1 > EMAX) := by unfold EMAX; omega
      by_cases hn28 : ndigits c ≤ 28
      · refine ⟨c, e, ?_, ?_⟩
        · unfold fix
          have h2 : ndigits c ≤ PREC := hn28
          simp only [hc0, if_false, hov, h2, if_true]
        · rw [truncDec_eq_nz]; unfold truncDecNZ
          have h3 : ¬ (ndigits c ≤ m) := by omega
          simp only [he, if_false, hm1, h3]
          rw [h]; exact Nat.mul_div_cancel _ hp
      · -- more than 28 digits: the dropped digits are all zero
        have hd : ndigits c - 28 ≤ m := by omega
        obtain ⟨d, hdd⟩ : ∃ d, ndigits c - 28 = d := ⟨_, rfl⟩
        have hdpos : 0 < d := by omega
        have hpd : 0 < 10 ^ d := Nat.pow_pos (by omega)
        have hsplit : c = (k * 10 ^ (m - d)) * 10 ^ d := by
          rw [h, Nat.mul_assoc, ← Nat.pow_add, show m - d + d = m by omega]
        have hq : c / 10 ^ d = k * 10 ^ (m - d) := by rw [hsplit]; exact Nat.mul_div_cancel _ hpd
        have hr : c % 10 ^ d = 0 := by rw [hsplit]; exact Nat.mul_mod_left _ _
        have hhalf : 0 < 5 * 10 ^ (d - 1) := Nat.mul_pos (by omega) (Nat.pow_pos (by omega))
        have hqlt : k * 10 ^ (m - d) < 10 ^ 28 := by
          have : k * 10 ^ (m - d) * 10 ^ d < 10 ^ 28 * 10 ^ d := by
            rw [← hsplit, ← Nat.pow_add]
            exact Nat.lt_of_lt_of_le (ndigits_lt c) (Nat.pow_le_pow_right (by omega) (by omega))
          exact Nat.lt_of_mul_lt_mul_right this
        have hqn : ¬ (ndigits (k * 10 ^ (m - d)) > PREC) := by
          have := ndigits_le_of_lt _ 28 hqlt (by omega)
          unfold PREC; omega
        refine ⟨k * 10 ^ (m - d), e + d, ?_, ?_⟩
        · unfold fix
          have h2 : ¬ (ndigits c ≤ PREC) := hn28
          have hd' : ndigits c - PREC = d := hdd
          have h3 : ¬ (0 > 5 * 10 ^ (d - 1) ∨ (0 = 5 * 10 ^ (d - 1) ∧ k * 10 ^ (m - d) % 2 = 1)) := by omega
          have h4 : ¬ (e + ↑d + ↑PREC - 1 > EMAX) := by unfold EMAX PREC; omega
          simp only [hc0, if_false, hov, h2, hd', hq, hr, h3, hqn, h4]
        · rw [truncDec_eq_nz]; unfold truncDecNZ
          by_cases hz : 0 ≤ e + (d : Int)
          · have hmd : m - d = 0 := by omega
            have : (e + (d : Int)).toNat = 0 := by omega
            simp only [hz, if_true, this, hmd]
            simp
          · have hneg : (-(e + (d : Int))).toNat = m - d := by omega
            have hge : 10 ^ (m - d) ≤ k * 10 ^ (m - d) := Nat.le_mul_of_pos_left _ hkpos
            have h5 : ¬ (ndigits (k * 10 ^ (m - d)) ≤ m - d) := by
              have := ndigits_gt_of_ge _ _ hge; omega
            simp only [hz, if_false, hneg, h5]
            exact Nat.mul_div_cancel _ (Nat.pow_pos (by omega))

open BtcVerif.Spec.Rpc (NumText COIN digitsVal isDigit)

theorem coin_eq : COIN = 10 ^ 8 := by decide

theorem denotes_shift (c : Nat) (e : Int) (K : Nat)
    (h : if 0 ≤ e + 8 then c * 10 ^ (e + 8).toNat = K else c = K * 10 ^ (-(e + 8)).toNat) :
    if 0 ≤ e then c * COIN * 10 ^ e.toNat = K else c * COIN = K * 10 ^ (-e).toNat := by
  rw [coin_eq]
  by_cases he : 0 ≤ e
  · have h8 : 0 ≤ e + 8 := by omega
    simp only [h8, if_true] at h
    simp only [he, if_true]
    rw [← h, show (e + 8).toNat = 8 + e.toNat by omega, Nat.pow_add, Nat.mul_assoc]
  · simp only [he, if_false]
    by_cases h8 : 0 ≤ e + 8
    · simp only [h8, if_true] at h
      rw [← h, Nat.mul_assoc, ← Nat.pow_add, show (e + 8).toNat + (-e).toNat = 8 by omega]
    · simp only [h8, if_false] at h
      rw [h, Nat.mul_assoc, ← Nat.pow_add, show (-(e + 8)).toNat + 8 = (-e).toNat by omega]

theorem applySign_eq (neg : Bool) (n : Nat) (k : Int) (hn : n = k.natAbs) (h1 : k < 0 → neg = true)
    (h2 : 0 < k → neg = false) : applySign neg n = k := by
  unfold applySign
  subst hn
  rcases Int.lt_trichotomy k 0 with h | h | h
  · rw [h1 h, if_pos rfl]; omega
  · subst h; cases neg <;> simp
  · rw [h2 h, if_neg (by simp)]; omega

theorem amountInNum_unfold_dec (t : NumText) (h : ¬ (t.frac = none ∧ t.exp = none))
    (hl : ¬ (t.expo + ndigits t.coeff - 1 > MAX_EMAX ∨ t.expo < MIN_ETINY)) :
    amountInNum t = (fix (t.coeff * COIN) t.expo >>= fun p => pure (applySign t.neg (truncDec p.1 p.2))) := by
  unfold amountInNum
  rw [if_neg h, if_neg hl]

/-- a text denoting exactly `k` satoshis is converted to `k`, whatever its form -/
theorem amountInNum_exact (t : NumText) (hlim : InLimits t) (k : Int) (hk : k.natAbs < 10 ^ 28)
    (h : t.denotes k) : amountInNum t = .ok k := by
  obtain ⟨hval, hneg, hpos⟩ := h
  obtain ⟨hl1, hl2, hl3⟩ := hlim
  by_cases hint : t.frac = none ∧ t.exp = none
  · unfold amountInNum
    rw [if_pos hint, if_neg (by omega)]
    apply congrArg Except.ok
    apply applySign_eq _ _ _ _ hneg hpos
    have hc : t.coeff = digitsVal t.intDigits := by
      unfold NumText.coeff; rw [hint.1]; simp
    have he : t.expo = 0 := by
      unfold NumText.expo; rw [hint.1, hint.2]; simp
    rw [he, hc] at hval
    simp only [Int.zero_add, show (0:Int) ≤ 8 by omega, if_true] at hval
    rw [coin_eq]
    exact hval
  · rw [amountInNum_unfold_dec t hint (by omega)]
    obtain ⟨q, e', hfix, htr⟩ := fix_trunc_exact (t.coeff * COIN) t.expo k.natAbs hk (denotes_shift _ _ _ hval)
    rw [hfix]
    show Except.ok _ = _
    apply congrArg Except.ok
    exact applySign_eq _ _ _ htr hneg hpos

open BtcVerif.Spec.Rpc (fracText expText expSignText)

/-! ### the number scanner reads back what the grammar writes -/

/-- the next character, if any, is not a digit -/
def Stops (r : List Char) : Prop := ∀ x r', r = x :: r' → isDigit x = false

theorem stops_nil : Stops [] := by intro x r' h; cases h

theorem stops_cons (x : Char) (r : List Char) (h : isDigit x = false) : Stops (x :: r) := by
  intro y r' e; cases e; exact h

theorem takeWhile_digits (l r : List Char) (hl : ∀ c ∈ l, isDigit c = true) (hr : Stops r) :
    (l ++ r).takeWhile isDigit = l ∧ (l ++ r).dropWhile isDigit = r := by
  induction l with
  | nil =>
    cases r with
    | nil => exact ⟨rfl, rfl⟩
    | cons x r' =>
      have := hr x r' rfl
      simp [this]
  | cons a l ih =>
    have ha := hl a (by simp)
    obtain ⟨i1, i2⟩ := ih (fun c hc => hl c (by simp [hc]))
    simp only [List.cons_append, List.takeWhile, List.dropWhile, ha, i1, i2, and_self]

theorem takeDigits_append (l r : List Char) (hne : l ≠ []) (hl : ∀ c ∈ l, isDigit c = true) (hr : Stops r) :
    takeDigits (l ++ r) = some (l, r) := by
  obtain ⟨h1, h2⟩ := takeWhile_digits l r hl hr
  unfold takeDigits
  simp only [h1, h2, hne, if_false]

theorem scanInt_append (ds r : List Char) (hne : ds ≠ []) (hl : ∀ c ∈ ds, isDigit c = true)
    (hz : ds = ['0'] ∨ ds.head? ≠ some '0') (hr : Stops r) : scanInt (ds ++ r) = some (ds, r) := by
  unfold scanInt
  rw [takeDigits_append ds r hne hl hr]
  have hcond : ¬ (ds.head? = some '0' ∧ 1 < ds.length) := by
    rintro ⟨h1, h2⟩
    rcases hz with h | h
    · rw [h] at h2; simp at h2
    · exact h h1
  simp only [hcond, if_false]

theorem not_digit_dot : isDigit '.' = false := by decide
theorem not_digit_e : isDigit 'e' = false := by decide
theorem not_digit_E : isDigit 'E' = false := by decide

theorem digit_ne (c x : Char) (hc : isDigit c = true) (hx : isDigit x = false) : c ≠ x := by
  intro e; rw [e, hx] at hc; cases hc

theorem expText_stops (x : Option (Char × Option Char × List Char))
    (h : ∀ m s ds, x = some (m, s, ds) → (m = 'e' ∨ m = 'E')) : Stops (expText x) := by
  cases x with
  | none => exact stops_nil
  | some p =>
    obtain ⟨m, s, ds⟩ := p
    rcases h m s ds rfl with rfl | rfl
    · exact stops_cons _ _ not_digit_e
    · exact stops_cons _ _ not_digit_E

theorem scanExpSign_text (s : Option Char) (ds : List Char) (hs : s = none ∨ s = some '+' ∨ s = some '-')
    (hne : ds ≠ []) (hd : ∀ c ∈ ds, isDigit c = true) : scanExpSign (expSignText s ++ ds) = (s, ds) := by
  rcases hs with rfl | rfl | rfl
  · match ds, hne, hd with
    | c :: rest, _, hd =>
      have hc := hd c (by simp)
      have h1 : c ≠ '+' := digit_ne c '+' hc (by decide)
      have h2 : c ≠ '-' := digit_ne c '-' hc (by decide)
      show scanExpSign (c :: rest) = _
      unfold scanExpSign
      simp only [h1, h2, if_false]
  · rfl
  · rfl

theorem scanExp_expText (x : Option (Char × Option Char × List Char))
    (h : ∀ m s ds, x = some (m, s, ds) → (m = 'e' ∨ m = 'E') ∧ (s = none ∨ s = some '+' ∨ s = some '-') ∧
      ds ≠ [] ∧ ∀ c ∈ ds, isDigit c = true) : scanExp (expText x) = (x, []) := by
  cases x with
  | none => rfl
  | some p =>
    obtain ⟨m, s, ds⟩ := p
    obtain ⟨hm, hs, hne, hd⟩ := h m s ds rfl
    have htd : takeDigits ds = some (ds, []) := by
      have := takeDigits_append ds [] hne hd stops_nil
      rwa [List.append_nil] at this
    show scanExp (m :: (expSignText s ++ ds)) = _
    unfold scanExp
    simp only [hm, if_true, scanExpSign_text s ds hs hne hd, htd]

theorem scanFrac_fracText (f : Option (List Char)) (r : List Char)
    (hf : ∀ g, f = some g → g ≠ [] ∧ ∀ c ∈ g, isDigit c = true) (hr : Stops r)
    (hdot : ∀ r', r ≠ '.' :: r') : scanFrac (fracText f ++ r) = (f, r) := by
  cases f with
  | none =>
    show scanFrac r = _
    cases r with
    | nil => rfl
    | cons c r' =>
      have hc : c ≠ '.' := by intro e; exact hdot r' (by rw [e])
      unfold scanFrac
      simp only [hc, if_false]
  | some g =>
    obtain ⟨hne, hd⟩ := hf g rfl
    show scanFrac ('.' :: (g ++ r)) = _
    unfold scanFrac
    simp only [if_true, takeDigits_append g r hne hd hr]

theorem expText_nodot (x : Option (Char × Option Char × List Char))
    (h : ∀ m s ds, x = some (m, s, ds) → (m = 'e' ∨ m = 'E')) : ∀ r', expText x ≠ '.' :: r' := by
  intro r' e
  cases x with
  | none => cases e
  | some p =>
    obtain ⟨m, s, ds⟩ := p
    rcases h m s ds rfl with rfl | rfl
    · cases e
    · cases e

/-- scanning the rendering of well-formed components gives the components back -/
theorem scanNumber_render (t : NumText) (hwf : t.WF) : scanNumber t.render = some t := by
  obtain ⟨hne, hd, hz, hf, he⟩ := hwf
  have he1 : ∀ m s ds, t.exp = some (m, s, ds) → (m = 'e' ∨ m = 'E') := fun m s ds h => (he m s ds h).1
  have hstopE := expText_stops t.exp he1
  have hstopF : Stops (fracText t.frac ++ expText t.exp) := by
    cases hfr : t.frac with
    | none => exact hstopE
    | some g => exact stops_cons _ _ not_digit_dot
  have hsign : scanSign t.render = (t.neg, t.intDigits ++ (fracText t.frac ++ expText t.exp)) := by
    unfold NumText.render
    cases hn : t.neg with
    | true => rfl
    | false =>
      match hi : t.intDigits, hne with
      | c :: rest, _ =>
        have hc : isDigit c = true := hd c (by rw [hi]; simp)
        have h1 : c ≠ '-' := digit_ne c '-' hc (by decide)
        show scanSign (c :: (rest ++ _)) = _
        unfold scanSign
        simp only [h1, if_false]
        rfl
  unfold scanNumber
  rw [hsign]
  simp only []
  rw [scanInt_append t.intDigits _ hne hd hz hstopF]
  simp only []
  rw [scanFrac_fracText t.frac (expText t.exp) hf hstopE (expText_nodot t.exp he1)]
  simp only []
  rw [scanExp_expText t.exp he]
  simp

/-! ### the satoshis a text denotes -/

theorem applySign_spec (neg : Bool) (n : Nat) :
    (applySign neg n).natAbs = n ∧ (applySign neg n < 0 → neg = true) ∧ (0 < applySign neg n → neg = false) := by
  unfold applySign
  cases neg
  · simp only [Bool.false_eq_true, if_false, Int.natAbs_natCast]
    exact ⟨trivial, fun h => by omega, fun _ => trivial⟩
  · simp only [if_true, Int.natAbs_neg, Int.natAbs_natCast]
    exact ⟨trivial, fun _ => trivial, fun h => by omega⟩

theorem satoshisDenoted_render (t : NumText) (hwf : t.WF) : satoshisDenoted t.render =
    (if 0 ≤ t.expo + 8 then some (applySign t.neg (t.coeff * 10 ^ (t.expo + 8).toNat))
     else if t.coeff % 10 ^ (-(t.expo + 8)).toNat = 0 then
       some (applySign t.neg (t.coeff / 10 ^ (-(t.expo + 8)).toNat))
     else none) := by
  unfold satoshisDenoted
  rw [scanNumber_render t hwf]

/-- `satoshisDenoted` decides `denotes`: it returns `k` exactly when the text denotes `k` satoshis
    (zero has one representative) -/
theorem satoshisDenoted_sound (t : NumText) (hwf : t.WF) (k : Int) (h : satoshisDenoted t.render = some k) :
    t.denotes k := by
  rw [satoshisDenoted_render t hwf] at h
  unfold NumText.denotes Spec.Rpc.denotesSat
  by_cases he : 0 ≤ t.expo + 8
  · rw [if_pos he] at h ⊢
    cases h
    obtain ⟨h1, h2, h3⟩ := applySign_spec t.neg (t.coeff * 10 ^ (t.expo + 8).toNat)
    exact ⟨h1.symm, h2, h3⟩
  · rw [if_neg he] at h ⊢
    by_cases hd : t.coeff % 10 ^ (-(t.expo + 8)).toNat = 0
    · rw [if_pos hd] at h
      cases h
      obtain ⟨h1, h2, h3⟩ := applySign_spec t.neg (t.coeff / 10 ^ (-(t.expo + 8)).toNat)
      refine ⟨?_, h2, h3⟩
      rw [h1]
      exact (Nat.div_mul_cancel (Nat.dvd_of_mod_eq_zero hd)).symm
    · rw [if_neg hd] at h; cases h

theorem satoshisDenoted_complete (t : NumText) (hwf : t.WF) (k : Int) (h : t.denotes k) :
    ∃ k', satoshisDenoted t.render = some k' ∧ k'.natAbs = k.natAbs := by
  rw [satoshisDenoted_render t hwf]
  obtain ⟨hval, _, _⟩ := h
  by_cases he : 0 ≤ t.expo + 8
  · rw [if_pos he] at hval ⊢
    exact ⟨_, rfl, by rw [(applySign_spec _ _).1, hval]⟩
  · rw [if_neg he] at hval ⊢
    have hd : t.coeff % 10 ^ (-(t.expo + 8)).toNat = 0 := by rw [hval]; exact Nat.mul_mod_left _ _
    rw [if_pos hd]
    refine ⟨_, rfl, ?_⟩
    rw [(applySign_spec _ _).1, hval]
    exact Nat.mul_div_cancel _ (Nat.pow_pos (by omega))

theorem fix_outcomes (c : Nat) (e : Int) : (∃ q, fix c e = .ok q) ∨ fix c e = .error overflow := by
  unfold fix
  by_cases h0 : c = 0
  · rw [if_pos h0]; exact Or.inl ⟨_, rfl⟩
  · rw [if_neg h0]
    simp only []
    by_cases hA : e + ↑(ndigits c) - 1 > EMAX
    · rw [if_pos hA]; exact Or.inr rfl
    · rw [if_neg hA]
      by_cases hB : ndigits c ≤ PREC
      · rw [if_pos hB]; exact Or.inl ⟨_, rfl⟩
      · rw [if_neg hB]
        repeat' split
        all_goals first | exact Or.inr rfl | exact Or.inl ⟨_, rfl⟩

/-- received amounts: a JSON number text is converted to an integer, refused with decimal.Overflow, or
    (numerals beyond CPython's size limits) rejected with the body as JSONRPCError(-342); no other
    exception can come out -/
theorem amountInNum_outcomes (t : NumText) :
    (∃ k, amountInNum t = .ok k) ∨ amountInNum t = .error overflow ∨ amountInNum t = .error .rpcerr := by
  by_cases hint : t.frac = none ∧ t.exp = none
  · unfold amountInNum; rw [if_pos hint]
    by_cases hl : t.intDigits.length > INT_MAX_STR_DIGITS
    · rw [if_pos hl]; exact Or.inr (Or.inr rfl)
    · rw [if_neg hl]; exact Or.inl ⟨_, rfl⟩
  · by_cases hl : t.expo + ndigits t.coeff - 1 > MAX_EMAX ∨ t.expo < MIN_ETINY
    · unfold amountInNum; rw [if_neg hint, if_pos hl]; exact Or.inr (Or.inr rfl)
    · rw [amountInNum_unfold_dec t hint hl]
      rcases fix_outcomes (t.coeff * COIN) t.expo with ⟨q, hq⟩ | hq
      · left; rw [hq]; exact ⟨_, rfl⟩
      · right; left; rw [hq]; rfl

end BtcVerif.Rpc
