/-
  Coherence of the per-property models — helper lemmas (theorems are in Props/Coherence.lean).
-/
import BtcVerif.Props.C01
import BtcVerif.Props.C02
import BtcVerif.Props.C03
import BtcVerif.Props.C06
import BtcVerif.Props.C08
import BtcVerif.Props.C10
import BtcVerif.Props.C12
import BtcVerif.Props.C13
import BtcVerif.Props.C14
import BtcVerif.Props.C15
import BtcVerif.Props.C16
import BtcVerif.Props.C17
import BtcVerif.Props.C18
import BtcVerif.Spec.ValueSem

namespace BtcVerif.CoherenceProofs
open BtcVerif

/-! ### 1. legacy signature-operation counting -/

theorem sigOpsLoop_legacy (ops : List Model.Script.RawOp) : ∀ (n last : Nat),
    Model.Script.sigOpsLoop false ops n last = .ok (n + (ops.map BlockCheckProofs.opWeight).sum) := by
  induction ops with
  | nil => intro n last; simp [Model.Script.sigOpsLoop]
  | cons o r ih =>
    intro n last
    have hstep : Model.Script.sigOpsStep false n last o.opcode = .ok (n + BlockCheckProofs.opWeight o) := by
      unfold Model.Script.sigOpsStep BlockCheckProofs.opWeight
      by_cases h1 : o.opcode = 0xac ∨ o.opcode = 0xad
      · simp [h1]
      · by_cases h2 : o.opcode = 0xae ∨ o.opcode = 0xaf
        · simp [h1, h2]
        · simp [h1, h2]
    simp only [Model.Script.sigOpsLoop, hstep, ih, List.map_cons, List.sum_cons]
    congr 1; omega

theorem getSigOpCount_legacy (s : Bytes) :
    Model.Script.getSigOpCount s false = .ok (Model.BlockCheck.sigOpCount s) := by
  unfold Model.Script.getSigOpCount Model.BlockCheck.sigOpCount
  rw [sigOpsLoop_legacy]
  simp only [Nat.zero_add]
  rfl

theorem spec_sigOps_eq (s : Bytes) : Spec.BlockCheck.sigOps s = Spec.Script.sigOpCount false s := by
  have h1 := C08.sigops_eq_spec s false
  rw [getSigOpCount_legacy, BlockCheckProofs.sigOpCount_eq] at h1
  exact Except.ok.inj h1

/-- the three transcriptions of Core's `GetScriptOp` -/
theorem getOp_script_ref (s : Bytes) : Spec.Script.getOp s = Spec.Script.Ref.getOp s := by
  cases s with
  | nil => rfl
  | cons b t =>
    simp only [Spec.Script.getOp, Spec.Script.Ref.getOp, Spec.Script.lenBytes, Spec.Script.declaredSize]
    by_cases h1 : b.toNat > 0x4e
    · have : ¬ b.toNat ≤ 0x4e := by omega
      simp [h1, this]
    · have h1' : b.toNat ≤ 0x4e := by omega
      simp only [h1, if_false, h1', if_true]
      by_cases h2 : b.toNat < 0x4c
      · simp [h2]
      · by_cases h3 : b.toNat = 0x4c
        · simp only [h3]
          by_cases hk : t.length < 1 <;> simp [hk]
        · by_cases h4 : b.toNat = 0x4d
          · simp only [h4]
            by_cases hk : t.length < 2 <;> simp [hk]
          · simp only [h2, h3, h4, if_false]
            by_cases hk : t.length < 4 <;> simp [hk]

theorem getOp_blockcheck (s : Bytes) :
    Spec.BlockCheck.getOp s = (Spec.Script.getOp s).map (fun x => (x.1, x.2.2)) := by
  cases s with
  | nil => rfl
  | cons b t =>
    simp only [Spec.Script.getOp, Spec.BlockCheck.getOp, Spec.Script.lenBytes, Spec.Script.declaredSize]
    by_cases h1 : b.toNat > 0x4e
    · have h2 : ¬ b.toNat < 0x4c := by omega
      have h3 : ¬ b.toNat = 0x4c := by omega
      have h4 : ¬ b.toNat = 0x4d := by omega
      have h5 : ¬ b.toNat = 0x4e := by omega
      simp [h1, h2, h3, h4, h5]
    · simp only [h1, if_false]
      by_cases h2 : b.toNat < 0x4c
      · simp only [h2, if_true]
        by_cases h6 : t.length < b.toNat
        · simp [h6]
        · simp [h6]
      · simp only [h2, if_false]
        by_cases h3 : b.toNat = 0x4c
        · simp only [h3, if_true]
          match t with
          | [] => simp
          | l :: r =>
            simp only [List.length_cons, List.take_succ_cons, List.take_zero, leNat, List.drop_succ_cons,
              List.drop_zero]
            by_cases h6 : r.length < l.toNat
            · simp [h6]
            · simp [h6]
        · simp only [h3, if_false]
          by_cases h4 : b.toNat = 0x4d
          · simp only [h4, if_true]
            match t with
            | [] => simp
            | [_] => simp
            | l0 :: l1 :: r =>
              simp only [List.length_cons, List.take_succ_cons, List.take_zero, leNat, List.drop_succ_cons,
                List.drop_zero]
              have e : l0.toNat + 256 * (l1.toNat + 256 * 0) = l0.toNat + 256 * l1.toNat := by omega
              rw [e]
              by_cases h6 : r.length < l0.toNat + 256 * l1.toNat
              · simp [h6]
              · simp [h6]
          · have h5 : b.toNat = 0x4e := by omega
            have c1 : ¬ (78 : Nat) < 76 := by decide
            have c2 : ¬ (78 : Nat) = 76 := by decide
            have c3 : ¬ (78 : Nat) = 77 := by decide
            simp only [h5, c1, c2, c3, if_false, if_true]
            match t with
            | [] => simp
            | [_] => simp
            | [_, _] => simp
            | [_, _, _] => simp
            | l0 :: l1 :: l2 :: l3 :: r =>
              simp only [List.length_cons, List.take_succ_cons, List.take_zero, leNat, List.drop_succ_cons,
                List.drop_zero]
              have e : l0.toNat + 256 * (l1.toNat + 256 * (l2.toNat + 256 * (l3.toNat + 256 * 0)))
                  = l0.toNat + 256 * l1.toNat + 65536 * l2.toNat + 16777216 * l3.toNat := by omega
              simp only [e]
              by_cases h6 : r.length < l0.toNat + 256 * l1.toNat + 65536 * l2.toNat + 16777216 * l3.toNat
              · simp [h6]
              · simp [h6]

end BtcVerif.CoherenceProofs
