/-
  Coherence of the per-property models — helper lemmas (theorems are in Props/Coherence.lean).
-/
import BtcVerif.Props.C01
import BtcVerif.Props.C02
import BtcVerif.Props.C03
import BtcVerif.Props.C06
import BtcVerif.Props.C08
import BtcVerif.Props.C10
import BtcVerif.Props.C12
import BtcVerif.Props.C13
import BtcVerif.Props.C14
import BtcVerif.Props.C15
import BtcVerif.Props.C16
import BtcVerif.Props.C17
import BtcVerif.Props.C18
import BtcVerif.Spec.ValueSem

namespace BtcVerif.CoherenceProofs
open BtcVerif

/-! ### 1. legacy signature-operation counting -/

theorem sigOpsLoop_legacy (ops : List Model.Script.RawOp) : ∀ (n last : Nat),
    Model.Script.sigOpsLoop false ops n last = .ok (n + (ops.map BlockCheckProofs.opWeight).sum) := by
  induction ops with
  | nil => intro n last; simp [Model.Script.sigOpsLoop]
  | cons o r ih =>
    intro n last
    have hstep : Model.Script.sigOpsStep false n last o.opcode = .ok (n + BlockCheckProofs.opWeight o) := by
      unfold Model.Script.sigOpsStep BlockCheckProofs.opWeight
      by_cases h1 : o.opcode = 0xac ∨ o.opcode = 0xad
      · simp [h1]
      · by_cases h2 : o.opcode = 0xae ∨ o.opcode = 0xaf
        · simp [h1, h2]
        · simp [h1, h2]
    simp only [Model.Script.sigOpsLoop, hstep, ih, List.map_cons, List.sum_cons]
    congr 1; omega

theorem getSigOpCount_legacy (s : Bytes) :
    Model.Script.getSigOpCount s false = .ok (Model.BlockCheck.sigOpCount s) := by
  unfold Model.Script.getSigOpCount Model.BlockCheck.sigOpCount
  rw [sigOpsLoop_legacy]
  simp only [Nat.zero_add]
  rfl

theorem spec_sigOps_eq (s : Bytes) : Spec.BlockCheck.sigOps s = Spec.Script.sigOpCount false s := by
  have h1 := C08.sigops_eq_spec s false
  rw [getSigOpCount_legacy, BlockCheckProofs.sigOpCount_eq] at h1
  exact Except.ok.inj h1

/-- the three transcriptions of Core's `GetScriptOp` -/
theorem getOp_script_ref (s : Bytes) : Spec.Script.getOp s = Spec.Script.Ref.getOp s := by
  cases s with
  | nil => rfl
  | cons b t =>
    simp only [Spec.Script.getOp, Spec.Script.Ref.getOp, Spec.Script.lenBytes, Spec.Script.declaredSize]
    by_cases h1 : b.toNat > 0x4e
    · have : ¬ b.toNat ≤ 0x4e := by omega
      simp [h1, this]
    · have h1' : b.toNat ≤ 0x4e := by omega
      simp only [h1, if_false, h1', if_true]
      by_cases h2 : b.toNat < 0x4c
      · simp [h2]
      · by_cases h3 : b.toNat = 0x4c
        · simp only [h3]
          by_cases hk : t.length < 1 <;> simp [hk]
        · by_cases h4 : b.toNat = 0x4d
          · simp only [h4]
            by_cases hk : t.length < 2 <;> simp [hk]
          · simp only [h2, h3, h4, if_false]
            by_cases hk : t.length < 4 <;> simp [hk]

theorem getOp_blockcheck (s : Bytes) :
    Spec.BlockCheck.getOp s = (Spec.Script.getOp s).map (fun x => (x.1, x.2.2)) := by
  cases s with
  | nil => rfl
  | cons b t =>
    simp only [Spec.Script.getOp, Spec.BlockCheck.getOp, Spec.Script.lenBytes, Spec.Script.declaredSize]
    by_cases h1 : b.toNat > 0x4e
    · have h2 : ¬ b.toNat < 0x4c := by omega
      have h3 : ¬ b.toNat = 0x4c := by omega
      have h4 : ¬ b.toNat = 0x4d := by omega
      have h5 : ¬ b.toNat = 0x4e := by omega
      simp [h1, h2, h3, h4, h5]
    · simp only [h1, if_false]
      by_cases h2 : b.toNat < 0x4c
      · simp only [h2, if_true]
        by_cases h6 : t.length < b.toNat
        · simp [h6]
        · simp [h6]
      · simp only [h2, if_false]
        by_cases h3 : b.toNat = 0x4c
        · simp only [h3, if_true]
          match t with
          | [] => simp
          | l :: r =>
            simp only [List.length_cons, List.take_succ_cons, List.take_zero, leNat, List.drop_succ_cons,
              List.drop_zero]
            by_cases h6 : r.length < l.toNat
            · simp [h6]
            · simp [h6]
        · simp only [h3, if_false]
          by_cases h4 : b.toNat = 0x4d
          · simp only [h4, if_true]
            match t with
            | [] => simp
            | [_] => simp
            | l0 :: l1 :: r =>
              simp only [List.length_cons, List.take_succ_cons, List.take_zero, leNat, List.drop_succ_cons,
                List.drop_zero]
              have e : l0.toNat + 256 * (l1.toNat + 256 * 0) = l0.toNat + 256 * l1.toNat := by omega
              rw [e]
              by_cases h6 : r.length < l0.toNat + 256 * l1.toNat
              · simp [h6]
              · simp [h6]
          · have h5 : b.toNat = 0x4e := by omega
            have c1 : ¬ (78 : Nat) < 76 := by decide
            have c2 : ¬ (78 : Nat) = 76 := by decide
            have c3 : ¬ (78 : Nat) = 77 := by decide
            simp only [h5, c1, c2, c3, if_false, if_true]
            match t with
            | [] => simp
            | [_] => simp
            | [_, _] => simp
            | [_, _, _] => simp
            | l0 :: l1 :: l2 :: l3 :: r =>
              simp only [List.length_cons, List.take_succ_cons, List.take_zero, leNat, List.drop_succ_cons,
                List.drop_zero]
              have e : l0.toNat + 256 * (l1.toNat + 256 * (l2.toNat + 256 * (l3.toNat + 256 * 0)))
                  = l0.toNat + 256 * l1.toNat + 65536 * l2.toNat + 16777216 * l3.toNat := by omega
              simp only [e]
              by_cases h6 : r.length < l0.toNat + 256 * l1.toNat + 65536 * l2.toNat + 16777216 * l3.toNat
              · simp [h6]
              · simp [h6]

/-! ### 2. serialisation lemmas, identifiers -/

theorem wfTx_txRange (t : Tx) (h : Spec.Wire.WFTx t) : Spec.Merkle.TxRange t := by
  obtain ⟨h1, h2, _, h4, h5, h6, h7, h8, h9, h10⟩ := h
  refine ⟨h1, h2, h4, h5, h6, h7, ?_, h9, h10⟩
  rcases h8 with h | h
  · simp [h]
  · omega

theorem wfBlock_blockRange (b : Block) (h : Spec.Wire.WFBlock b) : Spec.Merkle.BlockRange b :=
  ⟨h.1, h.2.1, fun t ht => wfTx_txRange t (h.2.2 t ht)⟩

theorem ctorValid_eq_validTx (t : Tx) : Model.Merkle.ctorValid t = Spec.ValueSem.validTx t := by
  rfl

theorem merkle_getTxid_eq_valueSem (t : Tx) : Model.Merkle.getTxid t = Spec.ValueSem.txidOf t := by
  unfold Model.Merkle.getTxid Spec.ValueSem.txidOf
  cases hw : Model.Wire.serWitness t.wit with
  | error e => rfl
  | ok w =>
    have h0 : Model.Wire.serWitness [] = .ok [] := rfl
    simp only [bind, Except.bind, h0, ctorValid_eq_validTx]

theorem merkle_getHash_eq_ident (t : Tx) : Model.Merkle.getHash t = Model.Ident.getHash t := by
  unfold Model.Merkle.getHash Model.Ident.getHash Model.Ident.getHashWith
  cases Model.Wire.serTx t <;> rfl

/-- C02's `GetTxid` validates only `nLockTime` when it rebuilds the stripped transaction; it agrees
    with the two others whenever the inputs would pass the constructor (always the case for an
    immutable transaction) -/
theorem ident_getTxid_eq_merkle (t : Tx) (h : t.vin.all Spec.ValueSem.validTxIn = true) :
    Model.Ident.getTxid t = Model.Merkle.getTxid t := by
  unfold Model.Ident.getTxid Model.Ident.getTxidWith Model.Ident.witNeDefault Model.Merkle.getTxid
  cases hw : Model.Wire.serWitness t.wit with
  | error e => rfl
  | ok w =>
    have h0 : Model.Wire.serWitness [] = .ok [] := rfl
    have hv : Model.Merkle.ctorValid t = decide (t.nLockTime ≤ 0xffffffff) := by
      rw [ctorValid_eq_validTx]; unfold Spec.ValueSem.validTx; rw [h]; simp
    simp only [bind, Except.bind, h0, pure, Except.pure, hv]
    by_cases hne : w = []
    · subst hne
      simp
      cases Model.Wire.serTx t <;> rfl
    · have : (w != []) = true := by simpa using hne
      simp only [this, if_true, ne_eq, hne, not_false_eq_true]
      by_cases hl : t.nLockTime > 0xffffffff
      · have : ¬ t.nLockTime ≤ 0xffffffff := by omega
        simp [hl, this, throw, throwThe, MonadExceptOf.throw]
      · have : t.nLockTime ≤ 0xffffffff := by omega
        simp only [hl, if_false, this, decide_true, if_true]
        unfold Tx.strip
        cases Model.Wire.serTx { t with wit := [] } <;> rfl

theorem getHeader_eq_ident (b : Block) : Model.BlockCheck.getHeader b.hdr = Model.Ident.getHeader b := by
  unfold Model.BlockCheck.getHeader Model.Ident.getHeader
  by_cases h1 : b.hdr.hashPrevBlock.length ≠ 32
  · simp [h1, throw, throwThe, MonadExceptOf.throw, bind, Except.bind]
  · by_cases h2 : b.hdr.hashMerkleRoot.length ≠ 32
    · simp [h1, h2, throw, throwThe, MonadExceptOf.throw, bind, Except.bind, pure, Except.pure]
    · simp [h1, h2, bind, Except.bind, pure, Except.pure]

theorem headerHash_eq (h : Header) :
    Model.Ident.headerHash h = (Model.Wire.serHeader h).map Crypto.hash256 := by
  unfold Model.Ident.headerHash Model.Ident.headerHashWith
  cases Model.Wire.serHeader h <;> rfl

/-! ### 5. FindAndDelete (C03's model vs C06's) -/

theorem fad_fold (script sig : Bytes) (ops : List Model.Script.RawOp) :
    ∀ (a : Model.Sighash.FadState) (b : Model.ScriptEval.FadAcc),
      a.r = b.r → a.last = b.last → a.skip = b.skip →
      let a' := ops.foldl (Model.Sighash.fadStep script sig) a
      let b' := ops.foldl (Model.ScriptEval.fadStep script sig) b
      a'.r = b'.r ∧ a'.last = b'.last ∧ a'.skip = b'.skip := by
  induction ops with
  | nil => intro a b h1 h2 h3; exact ⟨h1, h2, h3⟩
  | cons o r ih =>
    intro a b h1 h2 h3
    simp only [List.foldl_cons]
    apply ih
    · simp only [Model.Sighash.fadStep, Model.ScriptEval.fadStep, Model.Sighash.pySlice,
        Model.ScriptEval.slice, h1, h2, h3]
    · rfl
    · rfl

theorem findAndDelete_models (cap : Model.ScriptEval.Captured) (script sig : Bytes) :
    Model.ScriptEval.findAndDelete cap script sig =
      match Model.Sighash.findAndDelete script sig with
      | .ok r => .ok r
      | .error _ => .error (.invalid cap) := by
  unfold Model.ScriptEval.findAndDelete Model.Sighash.findAndDelete
  have h := fad_fold script sig (Model.Script.rawIter script).1
    { r := [], last := 0, skip := true } { r := [], last := 0, skip := true } rfl rfl rfl
  simp only at h
  obtain ⟨h1, h2, h3⟩ := h
  dsimp only
  cases hq : (Model.Script.rawIter script).2 with
  | some e => rfl
  | none => simp only [h1, h2, h3]

/-! ### 6. script-number codec (C08's Spec.Script vs C06's Ref) -/

theorem numDecode_eq_ref (b : Bytes) : Spec.Script.numDecode b = Spec.Script.Ref.scriptNumDecode b := by
  unfold Spec.Script.numDecode Spec.Script.Ref.scriptNumDecode
  rcases List.eq_nil_or_concat b with rfl | ⟨l, x, rfl⟩
  · rfl
  · simp

theorem bitLength_same (n : Nat) : Model.ScriptEval.bitLength n = Model.Script.bitLength n := by
  induction n using Nat.strongRecOn with
  | _ n ih =>
    rw [Model.ScriptEval.bitLength, Model.Script.bitLength]
    by_cases h : n = 0
    · simp [h]
    · simp only [h, dite_false]
      rw [ih (n / 2) (by omega)]

theorem bnBytes_same (n : Nat) (e : Bool) : Model.ScriptEval.bnBytes n e = Model.Script.bnBytes n e := by
  simp [Model.ScriptEval.bnBytes, Model.Script.bnBytes, bitLength_same]

theorem leMinimal_byteLen (m : Nat) : Spec.Script.Ref.leMinimal m = leBytes (Spec.Script.byteLen m) m := by
  rw [Model.ScriptEval.leMinimal_eq, bnBytes_same]
  unfold Model.Script.bnBytes
  simp only [Bool.false_eq_true, if_false, Nat.add_zero]
  rw [bnBytes_eq]

theorem u8_toNat_ofNat (n : Nat) (h : n < 256) : (UInt8.ofNat n).toNat = n := u8_ofNat_toNat n h

/-- Core's `CScriptNum::serialize` in its two transcriptions -/
theorem numEncode_eq_ref (z : Int) : Spec.Script.numEncode z = Spec.Script.Ref.scriptNumSer z := by
  by_cases hz : z = 0
  · subst hz; rw [numEncode_zero]; simp [Spec.Script.Ref.scriptNumSer]
  have hm : z.natAbs ≠ 0 := by omega
  generalize hmm : z.natAbs = m at hm
  obtain ⟨b1, b2⟩ := byteLen_bounds m hm
  have hpos : Spec.Script.byteLen m ≥ 1 := by rw [byteLen_pos hm]; omega
  obtain ⟨j, hj⟩ : ∃ j, Spec.Script.byteLen m = j + 1 := ⟨Spec.Script.byteLen m - 1, by omega⟩
  rw [hj] at b1 b2
  simp only [Nat.add_sub_cancel] at b1
  rw [pow256_succ] at b2
  generalize hP : 256 ^ j = P at b1 b2
  have hPpos : 0 < P := by rw [← hP]; exact pow256_pos j
  -- the top byte
  have htop_lt : m / P < 256 := (Nat.div_lt_iff_lt_mul hPpos).mpr (by omega)
  have htop_pos : 1 ≤ m / P := (Nat.le_div_iff_mul_le hPpos).mpr (by omega)
  have hres : Spec.Script.Ref.leMinimal m = leBytes j m ++ [UInt8.ofNat (m / P)] := by
    rw [leMinimal_byteLen, hj, leBytes_succ_right, hP, Nat.mod_eq_of_lt htop_lt]
  have hlast : (Spec.Script.Ref.leMinimal m).getLast? = some (UInt8.ofNat (m / P)) := by
    rw [hres]; simp
  have htn : (UInt8.ofNat (m / P)).toNat = m / P := u8_toNat_ofNat _ htop_lt
  unfold Spec.Script.Ref.scriptNumSer
  simp only [hz, if_false, hmm, hlast, htn]
  rw [numEncode_def, hmm]
  unfold numCode
  rw [hmm]
  by_cases hge : m / P ≥ 0x80
  · -- a sign byte is appended
    have hmge : 128 * P ≤ m := by
      have := (Nat.le_div_iff_mul_le hPpos).mp hge; omega
    have hnl : Spec.Script.numLen m = (j + 1) + 1 := by
      apply numLen_eq
      · rw [pow256_succ, hP]; omega
      · rw [pow256_succ, hP]; omega
    simp only [hge, if_true, hnl, Nat.add_sub_cancel]
    rw [leBytes_succ_right, pow256_succ, hP, hres]
    have e3 : leBytes (j + 1) m = leBytes j m ++ [UInt8.ofNat (m / P)] := by
      rw [leBytes_succ_right, hP, Nat.mod_eq_of_lt htop_lt]
    by_cases hneg : z < 0
    · simp only [hneg, if_true, decide_true]
      have e1 : leBytes (j + 1) (m + 128 * (256 * P)) = leBytes (j + 1) m := by
        have := leBytes_add_mul (j + 1) m 128
        rw [pow256_succ, hP] at this; exact this
      have e2 : (m + 128 * (256 * P)) / (256 * P) = 128 := by
        rw [Nat.add_mul_div_right _ _ (by omega), Nat.div_eq_of_lt (by omega)]
      rw [e1, e2, e3]
      rfl
    · simp only [hneg, if_false, decide_false]
      have hq : m / (256 * P) = 0 := Nat.div_eq_of_lt (by omega)
      rw [hq, e3]
      rfl
  · -- the sign bit goes into the top byte
    have hlt : m / P < 128 := by omega
    have hmlt : m < 128 * P := by
      have := (Nat.div_lt_iff_lt_mul hPpos).mp hlt; omega
    have hnl : Spec.Script.numLen m = j + 1 := by
      apply numLen_eq
      · rw [hP]; omega
      · rw [hP]; omega
    simp only [hge, if_false, hnl, Nat.add_sub_cancel]
    rw [leBytes_succ_right, hP, hres]
    by_cases hneg : z < 0
    · simp only [hneg, if_true, decide_true]
      have e1 : leBytes j (m + 128 * P) = leBytes j m := by
        have := leBytes_add_mul j m 128
        rw [hP] at this; exact this
      have e2 : (m + 128 * P) / P = m / P + 128 := Nat.add_mul_div_right _ _ hPpos
      rw [e1, e2, Nat.mod_eq_of_lt (by omega)]
      simp [List.dropLast_concat]
    · simp only [hneg, if_false, decide_false]
      rw [Nat.mod_eq_of_lt htop_lt]

/-- the two `_bignum.bn2vch` models (C08 carries the `struct.pack(">I", size)` of the MPI route, C06
    argues it away): they agree exactly on integers whose encoding is shorter than 2³² bytes -/
theorem bn2vch_models (z : Int) :
    Model.ScriptEval.bn2vch z = .ok (Spec.Script.numEncode z) ∧
    Model.Script.bn2vch z =
      if (Spec.Script.numEncode z).length < 2 ^ 32 then .ok (Spec.Script.numEncode z) else .error structError := by
  refine ⟨?_, bn2vch_eq z⟩
  rw [Model.ScriptEval.bn2vch_eq, numEncode_eq_ref]

theorem vch2bn_models (b : Bytes) :
    (b.length < 2 ^ 32 →
      Model.ScriptEval.vch2bn b = .ok (Spec.Script.numDecode b) ∧
      Model.Script.vch2bn b = .ok (some (Spec.Script.numDecode b))) ∧
    (¬ b.length < 2 ^ 32 →
      Model.ScriptEval.vch2bn b = .error (.py "error") ∧ Model.Script.vch2bn b = .error structError) := by
  constructor
  · intro h
    refine ⟨?_, by rw [vch2bn_eq, if_pos h]⟩
    rw [Model.ScriptEval.vch2bn_eq b h, numDecode_eq_ref]
  · intro h
    refine ⟨?_, by rw [vch2bn_eq, if_neg h]⟩
    unfold Model.ScriptEval.vch2bn
    have : b.length ≥ 2 ^ 32 := by omega
    rw [if_pos this]

/-! ### 7. predicates: `is_push_only`, `is_p2sh`, `is_witness_scriptpubkey`, push encoding -/

theorem isPushOnly_models (s : Bytes) : Model.Script.isPushOnly s = Model.ScriptEval.isPushOnly s := by
  unfold Model.Script.isPushOnly Model.ScriptEval.isPushOnly
  dsimp only
  rw [pushOnlyLoop_eq]
  generalize (Model.Script.rawIter s).1 = ops
  generalize (Model.Script.rawIter s).2 = e
  by_cases h : ops.any (fun o => decide (o.opcode > 0x60)) = true
  · have : ops.all (fun o => decide (o.opcode ≤ 0x60)) = false := by
      rw [List.all_eq_false]
      obtain ⟨o, ho, hc⟩ := List.any_eq_true.mp h
      exact ⟨o, ho, by simp at hc ⊢; omega⟩
    simp [h, this]
  · have h' : ops.any (fun o => decide (o.opcode > 0x60)) = false := by simpa using h
    have : ops.all (fun o => decide (o.opcode ≤ 0x60)) = true := by
      rw [List.all_eq_true]
      intro o ho
      have := List.any_eq_false.mp h' o ho
      simp at this ⊢; omega
    simp [h', this]

theorem isPushOnly_specs (s : Bytes) : Spec.Script.isPushOnly s = Spec.Script.Ref.isPushOnly s := by
  rw [← C08.pred_eq_spec_push_only, isPushOnly_models, (C06.predicates_equiv s).1]

theorem isP2sh_all (s : Bytes) :
    Model.Script.isP2sh s = Model.ScriptEval.isP2sh s ∧ Model.Addr.isP2sh s = Model.Script.isP2sh s ∧
    Spec.Script.isPayToScriptHash s = Spec.Script.Ref.isPayToScriptHash s := by
  refine ⟨rfl, ?_, ?_⟩
  · unfold Model.Addr.isP2sh Model.Script.isP2sh
    rw [Bool.eq_iff_iff]; simp
  · rw [← C08.pred_eq_spec_p2sh, ← (C06.predicates_equiv s).2]; rfl

theorem isWitnessProgram_specs (s : Bytes) :
    (Spec.Script.isWitnessProgram s).isSome = Spec.Sighash.isWitnessProgram s := by
  unfold Spec.Script.isWitnessProgram Spec.Sighash.isWitnessProgram
  match s with
  | [] => simp
  | [_] => simp
  | v :: l :: r =>
    rw [Bool.eq_iff_iff]
    simp only [List.length_cons, Bool.and_eq_true, Bool.or_eq_true, decide_eq_true_eq]
    split
    · simp only [Option.isSome_none, Bool.false_eq_true, false_iff]; omega
    · split
      · simp only [Option.isSome_none, Bool.false_eq_true, false_iff]; omega
      · split
        · simp only [Option.isSome_some, true_iff]; omega
        · simp only [Option.isSome_none, Bool.false_eq_true, false_iff]; omega

theorem isWitnessScriptPubKey_models (s : Bytes) :
    Model.Sighash.isWitnessScriptPubKey s = Model.Script.isWitnessScriptPubKey s := by
  rw [C03.isWitnessScriptPubKey_spec, C08.pred_eq_spec_witness_program, isWitnessProgram_specs]

theorem pushEnc_all (d : Bytes) :
    Model.Addr.pushEnc d = Model.Script.encodeOpPushdata d ∧
    (d.length < 2 ^ 32 →
      Model.Script.encodeOpPushdata d = .ok (Spec.Script.Ref.pushEnc d) ∧
      Model.ScriptEval.encodeOpPushdata d = .ok (Spec.Script.Ref.pushEnc d) ∧
      Spec.Script.pushEncode d = some (Spec.Script.Ref.pushEnc d)) := by
  refine ⟨rfl, ?_⟩
  intro h
  unfold Model.Script.encodeOpPushdata Model.ScriptEval.encodeOpPushdata Spec.Script.pushEncode
    Spec.Script.Ref.pushEnc
  by_cases h1 : d.length < 0x4c
  · simp [h1]
  · by_cases h2 : d.length ≤ 0xff
    · simp [h1, h2]
    · by_cases h3 : d.length ≤ 0xffff
      · simp [h1, h2, h3]
      · have h4 : d.length ≤ 0xffffffff := by omega
        simp [h1, h2, h3, h4]

theorem nbytes_eq_byteLen (n : Nat) : nbytes n = Spec.Script.byteLen n := by
  induction n using Nat.strongRecOn with
  | _ n ih =>
    rw [nbytes, Spec.Script.byteLen]
    by_cases h : n = 0
    · simp [h]
    · simp only [h, dite_false]
      rw [ih (n / 256) (by omega)]

/-! ### 8. C12's script helpers vs C08's builder -/

open Model.Script in
theorem recodeOp_eq_coerce (o : RawOp) (hw : o.wf) :
    coerceInstance (cookTok o) = (Model.Addr.recodeOp o).map some := by
  obtain ⟨h256, hd⟩ := hw
  unfold Model.Addr.recodeOp cookTok
  by_cases h0 : o.opcode = 0
  · simp [h0, coerceInstance, encodeOpN, Except.map]
  · simp only [h0, if_false]
    rcases hdd : o.data with _ | d
    · have hgt : ¬ o.opcode ≤ 0x4e := by
        intro hle; have := hd.mpr hle; rw [hdd] at this; simp at this
      simp only
      by_cases hs : 0x51 ≤ o.opcode ∧ o.opcode ≤ 0x60
      · simp only [hs, and_self, if_true, coerceInstance]
        have h1 : (0 : Int) ≤ ((o.opcode - 0x50 : Nat) : Int) ∧ ((o.opcode - 0x50 : Nat) : Int) ≤ 16 := by omega
        have h2 : ¬ ((o.opcode - 0x50 : Nat) : Int) = 0 := by omega
        simp only [h1, and_self, if_true, encodeOpN, not_true_eq_false, if_false, h2, Except.map]
        congr 3
        have e : (81 + (((o.opcode - 80 : Nat) : Int)).toNat - 1) = o.opcode := by simp; omega
        rw [e]
      · simp only [hs, if_false, coerceInstance, h256, if_true, Except.map]
    · simp only [coerceInstance]
      rfl

open Model.Script in
theorem joinBytes_somes (l : List Bytes) : joinBytes (l.map some) = .ok l.flatten := by
  induction l with
  | nil => rfl
  | cons a r ih => simp [joinBytes, ih]

open Model.Script in
theorem coerceAll_recode (ops : List RawOp) (hw : ∀ o ∈ ops, o.wf) :
    coerceAll (ops.map cookTok) = (ops.mapM Model.Addr.recodeOp).map (fun l => l.map some) := by
  induction ops with
  | nil => rfl
  | cons o r ih =>
    have ih' := ih (fun x hx => hw x (by simp [hx]))
    rw [List.mapM_cons, List.map_cons, coerceAll, recodeOp_eq_coerce o (hw o (by simp)), ih']
    cases Model.Addr.recodeOp o with
    | error e => rfl
    | ok a =>
      cases r.mapM Model.Addr.recodeOp with
      | error e => rfl
      | ok bs => rfl

open Model.Script in
theorem recode_build (ops : List RawOp) (hw : ∀ o ∈ ops, o.wf) :
    (ops.mapM Model.Addr.recodeOp).map List.flatten = build (ops.map cookTok) := by
  unfold build
  rw [coerceAll_recode ops hw]
  cases ops.mapM Model.Addr.recodeOp with
  | error e => rfl
  | ok l => simp [Except.map, joinBytes_somes]

open Model.Script in
/-- `CScript(tuple(scriptPubKey))` of C12 is cooked iteration followed by the builder of C08 -/
theorem canonicalize_eq_build (s : Bytes) :
    Model.Addr.canonicalize s =
      match cooked s with
      | (toks, none) => build toks
      | (_, some (.iter _)) => .error .invalidscript
      | (_, some (.py e)) => .error e := by
  rw [cooked_eq]
  unfold Model.Addr.canonicalize
  have hw := (rawIter_parse s).2.2
  rcases hq : rawIter s with ⟨ops, e⟩
  rw [hq] at hw
  cases e with
  | some x => rfl
  | none => exact recode_build ops hw

/-! ### 9. WIF at the text level: C13's payload through C10's Base58Check -/

theorem wif_text_roundtrip (H : Bytes → Bytes) (hH : ∀ x, 4 ≤ (H x).length) (ver : UInt8)
    (secret : Bytes) (c : Bool) (hs : secret.length = 32) :
    ∃ d, Model.Base58.fromBytes (Model.Keys.wifPayload secret c) (ver.toNat : Int) = .ok d ∧
      ∃ d', Model.Base58.new H (Model.Base58.str H d) = .ok d' ∧
        Model.Keys.wifParse ver.toNat d'.nVersion.toNat d'.data = .ok (secret, c) := by
  obtain ⟨d, h1, _, h3⟩ := C10.check_roundtrip H hH ver (Model.Keys.wifPayload secret c)
  exact ⟨d, h1, ⟨ver, Model.Keys.wifPayload secret c⟩, h3, C13.wif_roundtrip ver.toNat secret c hs⟩

/-! ### further duplicates found by grep -/

theorem addr_witness_predicates (s : Bytes) :
    Model.Addr.isWitnessV0Keyhash s = Model.Script.isWitnessV0Keyhash s ∧
    Model.Addr.isWitnessV0NestedKeyhash s = Model.Script.isWitnessV0NestedKeyhash s ∧
    Model.Addr.isWitnessV0Scripthash s = Model.Script.isWitnessV0Scripthash s := by
  unfold Model.Addr.isWitnessV0Keyhash Model.Addr.isWitnessV0NestedKeyhash Model.Addr.isWitnessV0Scripthash
    Model.Script.isWitnessV0Keyhash Model.Script.isWitnessV0NestedKeyhash Model.Script.isWitnessV0Scripthash
    Model.Addr.slice
  refine ⟨?_, ?_, ?_⟩ <;> (rw [Bool.eq_iff_iff]; simp)

/-- `CMutableTransaction.from_tx` of C03 and the validating constructor of C15/C16 and C09 accept the
    same transactions -/
theorem fromTx_eq_ctorValid (t : Tx) :
    Model.Sighash.fromTx t = if Model.Merkle.ctorValid t then .ok t else .error .valueerr := by
  unfold Model.Sighash.fromTx Model.Merkle.ctorValid Model.Sighash.fromTxInOk
  have e : (t.vin.all (fun i => decide (i.prevout.hash.length = 32) && decide (i.prevout.n ≤ 0xffffffff) &&
        decide (i.nSequence ≤ 0xffffffff)) && decide (t.nLockTime ≤ 0xffffffff)) =
      (decide (t.nLockTime ≤ 0xffffffff) && t.vin.all (fun i =>
        (i.prevout.hash.length == 32 && decide (i.prevout.n ≤ 0xffffffff)) && decide (i.nSequence ≤ 0xffffffff))) := by
    rw [Bool.and_comm]
    congr 2
  rw [e]

/-- C09's `GetHash` of a block (no `get_header()` step) and C02's agree when the two hash fields
    are 32 bytes long -/
theorem identOf_block (b : Block) (h1 : b.hdr.hashPrevBlock.length = 32) (h2 : b.hdr.hashMerkleRoot.length = 32) :
    Spec.ValueSem.identOf (.block b) = Model.Ident.blockHash b := by
  unfold Spec.ValueSem.identOf Model.Ident.blockHash Model.Ident.blockHashWith Model.Ident.getHeader
    Model.Ident.headerHashWith
  simp only [h1, h2, ne_eq, not_true_eq_false, if_false, bind, Except.bind, pure, Except.pure]
  cases Model.Wire.serHeader b.hdr <;> rfl

/-! ### the fourth GetScriptOp (C03/C04's, returning the operation's size) and CODESEPARATOR removal -/

theorem drop_helper (b : UInt8) (r : Bytes) (w n : Nat) :
    (r.drop w).drop n = (b :: r).drop (1 + w + n) := by
  have : 1 + w + n = (w + n) + 1 := by omega
  rw [this, List.drop_succ_cons, List.drop_drop]

open Spec.Script in
/-- C03's GetOp against C06's: same opcode byte, size = bytes consumed, rest = what is left -/
theorem sighash_getOp (b : UInt8) (r : Bytes) :
    match Ref.getOp (b :: r) with
    | none => Spec.Sighash.getOp (b :: r) = none
    | some (o, _, rest) =>
        ∃ n, Spec.Sighash.getOp (b :: r) = some (b, n) ∧ 1 ≤ n ∧ n ≤ (b :: r).length ∧
          rest = (b :: r).drop n ∧ o = b.toNat := by
  simp only [Ref.getOp, Spec.Sighash.getOp]
  by_cases h1 : b.toNat ≤ 0x4e
  · simp only [h1, if_true]
    by_cases h2 : b.toNat < 0x4c
    · simp only [h2, if_true]
      by_cases h6 : r.length < b.toNat
      · have : r.length - 0 < b.toNat := by omega
        simp [h6]
      · have : ¬ r.length - 0 < b.toNat := by omega
        simp only [h6, if_false, this]
        exact ⟨1 + 0 + b.toNat, rfl, by omega, by simp; omega, by simpa using drop_helper b r 0 b.toNat, trivial⟩
    · simp only [h2, if_false]
      by_cases h3 : b.toNat = 0x4c
      · simp only [h3, if_true]
        by_cases hk : r.length < 1
        · simp [hk]
        · simp only [hk, if_false]
          by_cases h6 : (r.drop 1).length < leNat (r.take 1)
          · have : r.length - 1 < leNat (r.take 1) := by simpa using h6
            simp [h6, this]
          · have : ¬ r.length - 1 < leNat (r.take 1) := by simpa using h6
            simp only [h6, if_false, this]
            refine ⟨1 + 1 + leNat (r.take 1), rfl, by omega, ?_, drop_helper b r 1 _, trivial⟩
            simp at h6 ⊢; omega
      · simp only [h3, if_false]
        by_cases h4 : b.toNat = 0x4d
        · simp only [h4, if_true]
          by_cases hk : r.length < 2
          · simp [hk]
          · simp only [hk, if_false]
            by_cases h6 : (r.drop 2).length < leNat (r.take 2)
            · have : r.length - 2 < leNat (r.take 2) := by simpa using h6
              simp [h6, this]
            · have : ¬ r.length - 2 < leNat (r.take 2) := by simpa using h6
              simp only [h6, if_false, this]
              refine ⟨1 + 2 + leNat (r.take 2), rfl, by omega, ?_, drop_helper b r 2 _, trivial⟩
              simp at h6 ⊢; omega
        · simp only [h4, if_false]
          by_cases hk : r.length < 4
          · simp [hk]
          · simp only [hk, if_false]
            by_cases h6 : (r.drop 4).length < leNat (r.take 4)
            · have : r.length - 4 < leNat (r.take 4) := by simpa using h6
              simp [h6, this]
            · have : ¬ r.length - 4 < leNat (r.take 4) := by simpa using h6
              simp only [h6, if_false, this]
              refine ⟨1 + 4 + leNat (r.take 4), rfl, by omega, ?_, drop_helper b r 4 _, trivial⟩
              simp at h6 ⊢; omega
  · simp only [h1, if_false]
    exact ⟨1, rfl, by omega, by simp, by simp, trivial⟩

open Spec.Script in
theorem skipMatches_ab_cons (t : Bytes) : Ref.skipMatches [0xab] (0xab :: t) = Ref.skipMatches [0xab] t := by
  rw [Ref.skipMatches]
  simp

open Spec.Script in
theorem skipMatches_ab_other (s : Bytes) (h : s.head? ≠ some 0xab) : Ref.skipMatches [0xab] s = s := by
  rw [Ref.skipMatches]
  have : ¬ (([0xab] : Bytes) ≠ [] ∧ ([0xab] : Bytes).isPrefixOf s = true) := by
    intro ⟨_, hp⟩
    cases s with
    | nil => simp [List.isPrefixOf] at hp
    | cons b t =>
      simp only [List.isPrefixOf, Bool.and_eq_true, beq_iff_eq] at hp
      exact h (by simp [hp.1])
  simp only [this, dite_false]

open Spec.Script in
theorem fadLoop_unfold (b s : Bytes) :
    Ref.fadLoop b s =
      match Ref.getOp (Ref.skipMatches b s) with
      | none => Ref.skipMatches b s
      | some (_, _, rest) =>
        (Ref.skipMatches b s).take ((Ref.skipMatches b s).length - rest.length) ++ Ref.fadLoop b rest := by
  rw [Ref.fadLoop]
  split <;> rename_i h <;> simp [h]

theorem scNoSep_unfold (s : Bytes) :
    Spec.Sighash.scriptCodeNoSep s =
      match Spec.Sighash.getOp s with
      | none => s
      | some (op, n) =>
        (if op = Spec.Sighash.OP_CODESEPARATOR then [] else s.take n) ++ Spec.Sighash.scriptCodeNoSep (s.drop n) := by
  rw [Spec.Sighash.scriptCodeNoSep]
  split <;> rename_i h <;> simp [h]

open Spec.Script in
/-- removing OP_CODESEPARATOR operations: Core's `FindAndDelete(script, [OP_CODESEPARATOR])` (C06's
    reference) and C03's reference `scriptCodeNoSep` agree on every byte string, parsing or not -/
theorem fad_codesep : ∀ (n : Nat) (s : Bytes), s.length = n →
    Ref.findAndDelete s [0xab] = Spec.Sighash.scriptCodeNoSep s := by
  intro n
  induction n using Nat.strongRecOn with
  | _ n ih =>
    intro s hn
    have hne : ¬ (([0xab] : Bytes) = []) := by simp
    have ihf : ∀ t : Bytes, t.length < n → Ref.fadLoop [0xab] t = Spec.Sighash.scriptCodeNoSep t := by
      intro t ht
      have := ih t.length ht t rfl
      unfold Ref.findAndDelete at this
      simpa only [hne, if_false] using this
    unfold Ref.findAndDelete
    simp only [hne, if_false]
    cases s with
    | nil =>
      rw [fadLoop_unfold, scNoSep_unfold, skipMatches_ab_other [] (by simp)]
      simp [Ref.getOp, Spec.Sighash.getOp]
    | cons b r =>
      by_cases hb : b = 0xab
      · subst hb
        have hg : Spec.Sighash.getOp (0xab :: r) = some (0xab, 1) := by
          simp [Spec.Sighash.getOp]
        rw [scNoSep_unfold, hg]
        simp only [Spec.Sighash.OP_CODESEPARATOR, if_true, List.nil_append, List.drop_succ_cons, List.drop_zero]
        rw [← ihf r (by simp at hn; omega), fadLoop_unfold, fadLoop_unfold [0xab] r, skipMatches_ab_cons]
      · have hs : Ref.skipMatches [0xab] (b :: r) = b :: r := skipMatches_ab_other _ (by simp [hb])
        have hget := sighash_getOp b r
        rw [fadLoop_unfold, scNoSep_unfold, hs]
        cases hq : Ref.getOp (b :: r) with
        | none =>
          rw [hq] at hget
          simp only at hget
          rw [hget]
        | some x =>
          obtain ⟨o, d, rest⟩ := x
          rw [hq] at hget
          simp only at hget
          obtain ⟨k, hk, hk1, hk2, hrest, _⟩ := hget
          have hlen : (b :: r).length - rest.length = k := by
            rw [hrest, List.length_drop]; omega
          have hb' : ¬ (b = Spec.Sighash.OP_CODESEPARATOR) := by
            simpa [Spec.Sighash.OP_CODESEPARATOR] using hb
          rw [hk]
          simp only [hb', if_false, hlen]
          rw [ihf rest (by rw [hrest, List.length_drop, ← hn]; omega), hrest]

end BtcVerif.CoherenceProofs
