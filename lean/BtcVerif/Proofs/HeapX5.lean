/-
  C09, extended catalogue, part 5: the reference-argument operations preserve `InvX`.
-/
import BtcVerif.Proofs.HeapX4

namespace BtcVerif.Model.Heap
open BtcVerif BtcVerif.Spec.ValueSem BtcVerif.Spec.AliasSem BtcVerif.Model.HeapX

theorem goodX_ref {h : Heap} {a : Addr} {k : Nat} (hk : kindAt h a = some k) : GoodX h (.ref a) :=
  getElem?_of_kindAt hk

/-- a fresh mutable object whose references are existing objects of the right classes -/
theorem invx_allocObj {h : Heap} (hinv : InvX h) (sc : Scalars) (refs : List Addr) (ks : List Nat)
    (hks : mapO (kindAt h) refs = some ks) (hok : refKindsK sc.kind ks) (hnai : sc.alwaysImm = false) :
    TrX h (alloc h { isMut := true, sc := sc, refs := refs }).1 := by
  have hg : GoodX h (.node true sc (refs.map Plan.ref)) := by
    unfold GoodX
    refine ⟨fun hai => (by rw [hnai] at hai; cases hai), fun hm => (by cases hm), ⟨ks, ?_, hok⟩, ?_⟩
    · rw [← hks]
      apply mapO_congr_idx (by simp)
      intro i p c hp hc
      simp only [List.getElem?_map, hc, Option.map_some, Option.some.injEq] at hp
      subst hp; rfl
    · rw [goodXL_iff]
      intro p hp
      obtain ⟨c, hc, rfl⟩ := List.mem_map.mp hp
      obtain ⟨k, _, hk⟩ := mapO_mem' hks hc
      exact goodX_ref hk
  have halloc : allocPlan h (.node true sc (refs.map Plan.ref)) = alloc h { isMut := true, sc := sc, refs := refs } := by
    have : ∀ (l : List Addr) (hh : Heap), allocPlans hh (l.map Plan.ref) = (hh, l) := by
      intro l
      induction l with
      | nil => intro hh; rfl
      | cons c l ih => intro hh; simp [allocPlans, allocPlan, ih]
    simp [allocPlan, this, alloc]
  rw [← halloc]
  exact (trx_alloc hinv hg).1

theorem kindAt_eq {h : Heap} {a : Addr} {o : Obj} (ho : h[a]? = some o) : kindAt h a = some o.sc.kind := by
  simp [kindAt, ho]

theorem invx_newOps {s : St} (hinv : InvX s.heap) : ∀ (op : OpX), (∀ b, op ≠ .base b) → TrX s.heap (HeapX.stepX s op).1.heap
  | .base b, h => absurd rfl (h b)
  | .assignRef t slot src, _ => by
    simp only [HeapX.stepX]
    cases ht : s.target t with
    | none => exact TrX.refl hinv
    | some x =>
      cases hs : s.target src with
      | none => exact TrX.refl hinv
      | some y =>
        simp only []
        cases ho : s.heap[x]? with
        | none => exact TrX.refl hinv
        | some o =>
          simp only []
          cases hseq : o.sc.isSeq with
          | true => exact TrX.refl hinv
          | false =>
            simp only [Bool.false_eq_true, if_false]
            cases hcur : o.refs[slot]? with
            | none => exact TrX.refl hinv
            | some cur =>
              simp only []
              by_cases hk : kindAt s.heap cur = kindAt s.heap y
              · simp only [hk, ne_eq, not_true_eq_false, if_false]
                cases hm : o.isMut with
                | false => exact TrX.refl hinv
                | true =>
                  simp only [Bool.not_true, Bool.false_eq_true, if_false]
                  exact trx_write hinv ho hm
                    (o' := { isMut := true, sc := o.sc, refs := o.refs.set slot y, cHash := o.cHash, cPy := o.cPy })
                    rfl rfl (typed_setSlot (hinv.typed x o ho) hcur hk)
              · simp only [ne_eq, hk, not_false_eq_true, if_true]; exact TrX.refl hinv
  | .setPrevout t v, _ => by
    simp only [HeapX.stepX]
    cases ht : s.target t with
    | none => exact TrX.refl hinv
    | some x =>
      simp only []
      by_cases hk : kindAt s.heap x = some 1
      · simp only [hk, ne_eq, not_true_eq_false, if_false]
        cases hv : validOutPoint v with
        | false => exact TrX.refl hinv
        | true =>
          simp only [Bool.not_true, Bool.false_eq_true, if_false]
          cases ho : s.heap[x]? with
          | none => exact TrX.refl hinv
          | some o =>
            simp only []
            cases hm : o.isMut with
            | false => exact TrX.refl hinv
            | true =>
              simp only [Bool.not_true, Bool.false_eq_true, if_false]
              have hko : o.sc.kind = 1 := by rw [kindAt_eq ho] at hk; exact Option.some.inj hk
              obtain ⟨t1, ⟨e, he⟩, hkr⟩ := trx_alloc hinv (goodX_planOutPoint s.heap true v)
              have hi1 := t1.inv
              have ho1 : (allocPlan s.heap (planOutPoint true v)).1[x]? = some o := by
                rw [he]; exact getElem?_append_of_some e ho
              refine t1.trans (trx_write hi1 ho1 hm
                (o' := { isMut := true, sc := o.sc, refs := [(allocPlan s.heap (planOutPoint true v)).2],
                         cHash := o.cHash, cPy := o.cPy }) rfl rfl ?_)
              refine ⟨[0], by simp [mapO, hkr 0 rfl], ?_⟩
              simp only [refKindsOK, hko, refKindsK]
      · simp only [ne_eq, hk, not_false_eq_true, if_true]; exact TrX.refl hinv
  | .appendRef l src, _ => by
    simp only [HeapX.stepX]
    cases hl : s.target l with
    | none => exact TrX.refl hinv
    | some x =>
      cases hs : s.target src with
      | none => exact TrX.refl hinv
      | some y =>
        simp only []
        cases hek : (kindAt s.heap x).bind elemKind with
        | none => exact TrX.refl hinv
        | some ek =>
          simp only []
          by_cases hk : kindAt s.heap y = some ek
          · simp only [hk, ne_eq, not_true_eq_false, if_false, withListAt]
            cases ho : s.heap[x]? with
            | none => exact TrX.refl hinv
            | some lo =>
              simp only []
              cases hm : lo.isMut with
              | false => exact TrX.refl hinv
              | true =>
                simp only [Bool.not_true, Bool.false_eq_true, if_false]
                have he : elemKind lo.sc.kind = some ek := by rw [kindAt_eq ho] at hek; exact hek
                exact trx_write hinv ho hm
                  (o' := { isMut := true, sc := lo.sc, refs := lo.refs ++ [y], cHash := lo.cHash, cPy := lo.cPy })
                  rfl rfl (typed_listAppend (hinv.typed x lo ho) he hk)
          · simp only [ne_eq, hk, not_false_eq_true, if_true]; exact TrX.refl hinv
  | .replaceRef l i src, _ => by
    simp only [HeapX.stepX]
    cases hl : s.target l with
    | none => exact TrX.refl hinv
    | some x =>
      cases hs : s.target src with
      | none => exact TrX.refl hinv
      | some y =>
        simp only []
        cases hek : (kindAt s.heap x).bind elemKind with
        | none => exact TrX.refl hinv
        | some ek =>
          simp only []
          by_cases hk : kindAt s.heap y = some ek
          · simp only [hk, ne_eq, not_true_eq_false, if_false, withListAt]
            cases ho : s.heap[x]? with
            | none => exact TrX.refl hinv
            | some lo =>
              simp only []
              cases hm : lo.isMut with
              | false => exact TrX.refl hinv
              | true =>
                simp only [Bool.not_true, Bool.false_eq_true, if_false]
                have he : elemKind lo.sc.kind = some ek := by rw [kindAt_eq ho] at hek; exact hek
                by_cases hi : i < lo.refs.length
                · simp only [hi, if_true]
                  exact trx_write hinv ho hm
                    (o' := { isMut := true, sc := lo.sc, refs := lo.refs.set i y, cHash := lo.cHash, cPy := lo.cPy })
                    rfl rfl (typed_listSet (hinv.typed x lo ho) he i hk)
                · simp only [hi, if_false]; exact TrX.refl hinv
          · simp only [ne_eq, hk, not_false_eq_true, if_true]; exact TrX.refl hinv
  | .newTxFrom vin vout lock ver wit, _ => by
    simp only [HeapX.stepX]
    cases hvi : s.target vin with
    | none => exact TrX.refl hinv
    | some avi =>
      cases hvo : s.target vout with
      | none => exact TrX.refl hinv
      | some avo =>
        simp only []
        by_cases hk1 : kindAt s.heap avi = some 8
        · by_cases hk2 : kindAt s.heap avo = some 9
          · simp only [hk1, hk2, ne_eq, not_true_eq_false, decide_false, Bool.or_self, Bool.false_eq_true, if_false]
            cases wit with
            | none =>
              simp only [Option.map_none]
              by_cases hl : lock ≤ 0xffffffff
              · simp only [hl, if_true]
                cases hlo : s.heap[avi]? with
                | none => exact TrX.refl hinv
                | some lo =>
                  simp only [allocDefaultWit]
                  obtain ⟨t1, ⟨e, he⟩, hkr⟩ := trx_alloc hinv (goodX_defaultWit s.heap lo.refs.length)
                  refine t1.trans (invx_allocObj t1.inv (.tx ver lock) _ [8, 9, 4] ?_ rfl rfl)
                  simp only [mapO]
                  rw [he, kindAt_append_some e hk1, kindAt_append_some e hk2, ← he, hkr 4 rfl]
              · simp only [hl, if_false]; exact TrX.refl hinv
            | some tw =>
              simp only [Option.map_some]
              cases hw : s.target tw with
              | none => exact TrX.refl hinv
              | some aw =>
                simp only []
                by_cases hk3 : kindAt s.heap aw = some 4
                · simp only [hk3, ne_eq, not_true_eq_false, if_false]
                  by_cases hl : lock ≤ 0xffffffff
                  · simp only [hl, if_true]
                    exact invx_allocObj hinv (.tx ver lock) _ [8, 9, 4] (by simp [mapO, hk1, hk2, hk3]) rfl rfl
                  · simp only [hl, if_false]; exact TrX.refl hinv
                · simp only [ne_eq, hk3, not_false_eq_true, if_true]; exact TrX.refl hinv
          · simp [hk2]; exact TrX.refl hinv
        · simp [hk1]; exact TrX.refl hinv
  | .newTxDefault v, _ => by
    simp only [HeapX.stepX]
    cases hv : validTx v with
    | false => exact TrX.refl hinv
    | true =>
      simp only [if_true, allocDefaultWit]
      obtain ⟨i1, ⟨e1, he1⟩, k1⟩ := trx_alloc hinv (goodX_planIns s.heap true v.vin)
      obtain ⟨i2, ⟨e2, he2⟩, k2⟩ := trx_alloc i1.inv (goodX_planOuts _ true v.vout)
      obtain ⟨i3, ⟨e3, he3⟩, k3⟩ := trx_alloc i2.inv (goodX_defaultWit _ v.vin.length)
      refine (i1.trans (i2.trans i3)).trans (invx_allocObj i3.inv (.tx v.nVersion v.nLockTime) _ [8, 9, 4] ?_ rfl rfl)
      simp only [mapO]
      rw [he3, he2, kindAt_append_some e3 (kindAt_append_some e2 (k1 8 rfl)), ← he2, kindAt_append_some e3 (k2 9 rfl),
        ← he3, k3 4 rfl]
  | .newTxInFrom prevout script seq, _ => by
    simp only [HeapX.stepX]
    cases prevout with
    | none =>
      simp only [Option.map_none]
      by_cases hq : seq ≤ 0xffffffff
      · simp only [hq, if_true]
        obtain ⟨i1, _, k1⟩ := trx_alloc hinv (goodX_planOutPoint s.heap true ⟨List.replicate 32 0, 0xffffffff⟩)
        exact i1.trans (invx_allocObj i1.inv (.txin script seq) _ [0] (by simp only [mapO, k1 0 rfl]) rfl rfl)
      · simp only [hq, if_false]; exact TrX.refl hinv
    | some tp =>
      simp only [Option.map_some]
      cases hp : s.target tp with
      | none => exact TrX.refl hinv
      | some ap =>
        simp only []
        by_cases hk : kindAt s.heap ap = some 0
        · simp only [hk, ne_eq, not_true_eq_false, if_false]
          by_cases hq : seq ≤ 0xffffffff
          · simp only [hq, if_true]
            exact invx_allocObj hinv (.txin script seq) _ [0] (by simp [mapO, hk]) rfl rfl
          · simp only [hq, if_false]; exact TrX.refl hinv
        · simp only [ne_eq, hk, not_false_eq_true, if_true]; exact TrX.refl hinv

  | .newCTxInFrom prevout script seq, _ => by
    simp only [HeapX.stepX]
    cases prevout with
    | none =>
      simp only [Option.map_none]
      by_cases hq : seq ≤ 0xffffffff
      · simp only [hq, if_true]
        exact (trx_alloc hinv (goodX_planTxIn s.heap false _)).1
      · simp only [hq, if_false]; exact TrX.refl hinv
    | some tp =>
      simp only [Option.map_some]
      cases hp : s.target tp with
      | none => exact TrX.refl hinv
      | some ap =>
        simp only []
        by_cases hk : kindAt s.heap ap = some 0
        · simp only [hk, ne_eq, not_true_eq_false, if_false]
          by_cases hq : seq ≤ 0xffffffff
          · simp only [hq, if_true]
            (repeat' split) <;> first
              | exact TrX.refl hinv
              | (rename_i hpl
                 obtain ⟨g1, g2, g3⟩ := planClone_goodX hinv false hpl
                 refine (trx_alloc hinv ?_).1
                 refine ⟨fun _ => rfl, ?_, ⟨[0], ?_, rfl⟩, g1, trivial⟩
                 · intro _ k hkk; simp only [List.mem_singleton] at hkk; subst hkk; exact g3 rfl
                 · simp only [mapO, g2, hk])
          · simp only [hq, if_false]; exact TrX.refl hinv
        · simp only [ne_eq, hk, not_false_eq_true, if_true]; exact TrX.refl hinv
  | .witListEdit t i st, _ => by
    simp only [HeapX.stepX]; (repeat' split) <;> exact TrX.refl hinv
  | .stackEdit t j b, _ => by
    simp only [HeapX.stepX]; (repeat' split) <;> exact TrX.refl hinv
  | .newHeaderFrom t, _ => by
    simp only [HeapX.stepX]
    (repeat' split) <;> first
      | exact TrX.refl hinv
      | exact invx_base_core hinv (.newHeader _) (Or.inl rfl)
  | .newBlockFrom t txs, _ => by
    simp only [HeapX.stepX]
    (repeat' split) <;> first
      | exact TrX.refl hinv
      | exact invx_base_core hinv (.newBlock _ _) (Or.inr ⟨_, _, rfl⟩)

end BtcVerif.Model.Heap
