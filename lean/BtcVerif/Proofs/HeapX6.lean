/-
  C09, extended catalogue, part 6: a copy made by `CMutableX.from_x` shares no mutable object with
  anything that existed before (the restated clause (iii)), under arbitrary user-made aliasing.
-/
import BtcVerif.Proofs.HeapX5

namespace BtcVerif.Model.Heap
open BtcVerif BtcVerif.Spec.ValueSem BtcVerif.Spec.AliasSem BtcVerif.Model.HeapX

/-- the plan of a mutable clone fits, refers to immutable objects only; no invariant is needed -/
theorem planClone_true_ok {h : Heap} : ∀ {f : Nat} {a : Addr} {t : ATree} {p : Plan},
    unfoldA f h a = some t → planClone true f h a = some p →
      Fits h f p ∧ RefsImm h f p ∧ ImmPlan h f p ∧ PlanAll (fun _ _ => True) f p
  | 0, _, _, _, hu, _ => by simp [unfoldA] at hu
  | f + 1, a, t, p, hu, hp => by
    obtain ⟨o, kids, ho, hkids, rfl⟩ := unfoldA_succ hu
    simp only [planClone, ho] at hp
    split at hp
    · rename_i hcond
      cases hp
      simp only [Bool.and_eq_true, Bool.not_eq_true', Bool.or_eq_true] at hcond
      exact ⟨⟨_, hu⟩, ⟨o, ho, hcond.1.2⟩, trivial, trivial⟩
    · cases hm : mapO (planClone true f h) o.refs with
      | none => simp [hm] at hp
      | some plans =>
        simp only [hm, Option.map_some, Option.some.injEq] at hp
        subst hp
        have hall : ∀ k ∈ plans, ∃ c ∈ o.refs, ∃ tc, unfoldA f h c = some tc ∧ planClone true f h c = some k := by
          intro k hk'
          obtain ⟨c, hc, hpc⟩ := mapO_mem hm hk'
          obtain ⟨tc, _, htc⟩ := mapO_mem' hkids hc
          exact ⟨c, hc, tc, htc, hpc⟩
        refine ⟨?_, ?_, ⟨fun hf => (by cases hf), ?_⟩, ⟨trivial, ?_⟩⟩
        · intro k hk'
          obtain ⟨c, _, tc, htc, hpc⟩ := hall k hk'
          exact (planClone_true_ok htc hpc).1
        · intro k hk'
          obtain ⟨c, _, tc, htc, hpc⟩ := hall k hk'
          exact (planClone_true_ok htc hpc).2.1
        · intro k hk'
          obtain ⟨c, _, tc, htc, hpc⟩ := hall k hk'
          exact (planClone_true_ok htc hpc).2.2.1
        · intro k hk'
          obtain ⟨c, _, tc, htc, hpc⟩ := hall k hk'
          exact (planClone_true_ok htc hpc).2.2.2

/-- a mutable object that does not count in the mutable top part of an unfolding does not occur in it at all -/
theorem not_mem_of_cnt_zeroX {h : Heap} (hinv : InvX h) {x : Addr} {ox : Obj}
    (hox : h[x]? = some ox) (hmx : ox.isMut = true) : ∀ {f : Nat} {a : Addr} {t : ATree},
    unfoldA f h a = some t → cnt x t = 0 → x ∉ addrs t
  | 0, _, _, hu, _ => by simp [unfoldA] at hu
  | f + 1, a, t, hu, hc => by
    obtain ⟨o, kids, ho, hk, rfl⟩ := unfoldA_succ hu
    cases hm : o.isMut with
    | false =>
      intro hx
      obtain ⟨ox', hox', hfr⟩ := imm_reachX hinv.immClosed hinv.kindOK hinv.typed hu
        (fun o' ho' => by rw [ho] at ho'; cases ho'; exact hm) x hx
      rw [hox] at hox'; cases hox'
      rw [hfr] at hmx; cases hmx
    | true =>
      simp only [cnt, hm, if_true] at hc
      have hax : a ≠ x := by intro e; simp [e] at hc
      have hcl : cntL x kids = 0 := by omega
      simp only [addrs, List.mem_cons, not_or]
      refine ⟨fun e => hax e.symm, ?_⟩
      intro hx
      obtain ⟨k, hk', hxk⟩ := mem_addrsL.mp hx
      obtain ⟨c, _, huc⟩ := mapO_mem hk hk'
      exact not_mem_of_cnt_zeroX hinv hox hmx huc (cntL_eq_zero.mp hcl k hk') hxk

/-- **(iii) restated**: after `CMutableX.from_x(src)`, every mutable object reachable from the copy
    was allocated by the copy
    operation itself: the copy shares no writable object with its source nor with anything else that
    existed — whatever aliasing the caller had created before -/
theorem copy_fresh {h : Heap} (hinv : InvX h) {a : Addr} {ta : ATree} {p : Plan}
    (hu : unfoldA D h a = some ta) (hp : planClone true D h a = some p) :
    InvX (allocPlan h p).1 ∧ (∃ e, (allocPlan h p).1 = h ++ e) ∧
    ∃ t', unfoldA D (allocPlan h p).1 (allocPlan h p).2 = some t' ∧
      ∀ (x : Addr) (ox : Obj), x ∈ addrs t' → (allocPlan h p).1[x]? = some ox → ox.isMut = true →
        h.length ≤ x := by
  obtain ⟨hfit, hrefs, himm, hall⟩ := planClone_true_ok hu hp
  have hres := allocPlan_spec h (fun _ _ => True) p D h ⟨[], by simp⟩ hfit hall himm
  obtain ⟨t', ht', hpt⟩ := hres.tree
  obtain ⟨hi1, hext, _⟩ := invx_alloc hinv (planClone_goodX hinv true hp).1
  refine ⟨hi1, hext, t', ht', ?_⟩
  intro x ox hx hox hmx
  have hc := (PT.cnt_le x hpt hrefs).2
  by_cases hlt : h.length ≤ x
  · exact hlt
  · exfalso
    have c : ¬(h.length ≤ x ∧ x < (allocPlan h p).1.length) := fun c => hlt c.1
    rw [if_neg c] at hc
    exact not_mem_of_cnt_zeroX hi1 hox hmx ht' (Nat.le_zero.mp hc) hx

end BtcVerif.Model.Heap
