/-
  Digest lengths of the executable hash functions of Crypto/: 32 bytes for SHA-256 and its double,
  20 bytes for SHA-1, RIPEMD-160 and Hash160 — for every input.  The final step of each
  implementation writes the state words into a byte-array literal (`digestBE8`, `digestBE5`,
  `digestLE5`), so the length does not depend on the compression loops.
-/
import BtcVerif.Crypto.Sha256
import BtcVerif.Crypto.Sha1
import BtcVerif.Crypto.Ripemd160

namespace BtcVerif.Crypto

theorem digestBE8_size (h : Array UInt32) : (digestBE8 h).data.toList.length = 32 := rfl
theorem digestBE5_size (h : Array UInt32) : (digestBE5 h).data.toList.length = 20 := rfl
theorem digestLE5_size (h : Array UInt32) : (digestLE5 h).data.toList.length = 20 := rfl

theorem sha256_length (m : Bytes) : (sha256 m).length = 32 := digestBE8_size _
theorem hash256_length (m : Bytes) : (hash256 m).length = 32 := digestBE8_size _
theorem sha1_length (m : Bytes) : (sha1 m).length = 20 := digestBE5_size _
theorem ripemd160_length (m : Bytes) : (ripemd160 m).length = 20 := digestLE5_size _
theorem hash160_length (m : Bytes) : (hash160 m).length = 20 := digestLE5_size _

end BtcVerif.Crypto
