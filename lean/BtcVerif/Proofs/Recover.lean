/-
  The python recovery code of `CECKey.recover` (Model.Keys.recover) against SEC 1 §4.1.6
  (Crypto.Secp256k1.recover): both reduce to the same expression over a lifted point.
-/
import BtcVerif.Model.Keys
import BtcVerif.Proofs.Keys

namespace BtcVerif
open BtcVerif.Crypto

/-! ### python recovery code = SEC 1 §4.1.6 on the domain -/

theorem liftX_ge (x : Nat) (odd : Bool) (h : x ≥ Secp256k1.p) : Secp256k1.liftX x odd = none := by
  simp [Secp256k1.liftX, h]

/-- the point both recovery procedures compute from a lifted `R` -/
def recQ (e r s : Nat) (R : Secp256k1.Point) : Secp256k1.Point :=
  Secp256k1.mulAdd2 ((Secp256k1.n - e % Secp256k1.n) % Secp256k1.n * Secp256k1.invMod r Secp256k1.n % Secp256k1.n)
    Secp256k1.G (s * Secp256k1.invMod r Secp256k1.n % Secp256k1.n) R

theorem ref_recover_eq (e r s recid : Nat) (hr0 : 0 < r) (hrn : r < Secp256k1.n) (hs0 : 0 < s)
    (hsn : s < Secp256k1.n) (hrec : recid < 4) :
    Secp256k1.recover e r s recid =
      (Secp256k1.liftX (r + recid / 2 * Secp256k1.n) (recid % 2 == 1)).bind
        (fun R => if recQ e r s R = .inf then none else some (recQ e r s R)) := by
  unfold Secp256k1.recover recQ
  have c1 : ¬ r = 0 := by omega
  have c2 : ¬ r ≥ Secp256k1.n := by omega
  have c3 : ¬ s = 0 := by omega
  have c4 : ¬ s ≥ Secp256k1.n := by omega
  have c5 : ¬ recid ≥ 4 := by omega
  simp only [c1, c2, c3, c4, c5, decide_false, Bool.or_false, Bool.false_eq_true, if_false]
  cases Secp256k1.liftX (r + recid / 2 * Secp256k1.n) (recid % 2 == 1) with
  | none => rfl
  | some R =>
    simp only [Option.bind]
    split <;> simp_all

theorem model_recover_eq (sigR sigS msg : Bytes) (recid : Nat)
    (hr0 : 0 < beNat sigR) (hrn : beNat sigR < Secp256k1.n) :
    Model.Keys.recover sigR sigS msg recid false =
      match Secp256k1.liftX (beNat sigR + recid / 2 * Secp256k1.n) (recid % 2 == 1) with
      | none => (0, none)
      | some R => (1, some (recQ (beNat msg) (beNat sigR) (beNat sigS) R)) := by
  unfold Model.Keys.recover recQ
  have hx : Secp256k1.n * (recid / 2) + beNat sigR = beNat sigR + recid / 2 * Secp256k1.n := by
    rw [Nat.mul_comm, Nat.add_comm]
  have hmod : beNat sigR % Secp256k1.n = beNat sigR := Nat.mod_eq_of_lt hrn
  have c1 : ¬ beNat sigR = 0 := by omega
  simp only [hx, hmod, c1, Bool.false_and, Bool.false_eq_true, if_false]
  by_cases hp : beNat sigR + recid / 2 * Secp256k1.n ≥ Secp256k1.p
  · simp only [hp, if_true, liftX_ge _ _ hp]
  · simp only [hp, if_false]

end BtcVerif
