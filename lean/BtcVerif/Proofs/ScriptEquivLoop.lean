/-
  C06 — simulation of one loop iteration, of the loop, and of `EvalScript`.
-/
import BtcVerif.Proofs.ScriptEquivStep

namespace BtcVerif.Model.ScriptEval
open BtcVerif BtcVerif.Spec BtcVerif.Spec.Script BtcVerif.Model.Script

/-- outcome of one iteration on both sides -/
def StepSim (script : Bytes) (m : M St) (r : Option Ref.State) : Prop :=
  match m with
  | .ok st' => ∃ code', r = some (toRef st' code') ∧ CodeRel script st'.pbegin code' ∧
      st'.nOpCount ≤ MAX_OPS_PER_SCRIPT
  | .error _ => r = none

theorem ref_disabled_none (env : Env) (fl : Flags) (opcode : Nat) (pc' : Bytes) (rs : Ref.State)
    (h : opcode ∈ disabledOpcodes) : Ref.loopBody env fl opcode [] pc' rs = none := by
  simp only [disabledOpcodes, List.mem_cons, List.mem_nil_iff, or_false] at h
  rcases h with rfl | rfl | rfl | rfl | rfl | rfl | rfl | rfl | rfl | rfl | rfl | rfl | rfl | rfl | rfl | rfl |
    rfl <;> simp [Ref.loopBody, Ref.alwaysDisabled, Ref.execOp]

/-- the common tail of an iteration: the size check -/
theorem tail_sim (script : Bytes) (code' : Bytes) (st' : St) (hc : CodeRel script st'.pbegin code')
    (hn : st'.nOpCount ≤ MAX_OPS_PER_SCRIPT) :
    StepSim script
      (if st'.stack.length + st'.alt.length > MAX_STACK_SIZE then raise st' else .ok st')
      (if st'.stack.length + st'.alt.length > MAX_STACK_SIZE then none else some (toRef st' code')) := by
  by_cases h : st'.stack.length + st'.alt.length > MAX_STACK_SIZE
  · simp [h, StepSim]
  · simp only [h, if_false]
    exact ⟨code', rfl, hc, hn⟩

theorem step_sim (c : Ctx) (fl : Flags) (script : Bytes) (op : RawOp) (pc' code : Bytes) (st : St)
    (hcov : op.opcode ∉ uncoveredOps)
    (hd1 : op.opcode ≤ 0x4e → op.data.isSome) (hd2 : op.opcode > 0x4e → op.data = none)
    (hsep : op.opcode = 0xab → script.drop op.sopIdx = 0xab :: pc')
    (hcode : CodeRel script st.pbegin code) (hnop : st.nOpCount ≤ MAX_OPS_PER_SCRIPT) :
    StepSim script (step c fl script op st)
      (Ref.loopBody c.env fl op.opcode (op.data.getD []) pc' (toRef st code)) := by
  unfold step
  dsimp only
  by_cases hdis : op.opcode ∈ disabledOpcodes
  · rw [if_pos hdis]
    have hgt : op.opcode > 0x4e := by
      simp only [disabledOpcodes, List.mem_cons, List.mem_nil_iff, or_false] at hdis; omega
    simp only [raiseNamed_eq, StepSim, hd2 hgt, Option.getD_none]
    exact ref_disabled_none c.env fl op.opcode pc' _ hdis
  rw [if_neg hdis]
  have hnd : op.opcode ∉ Ref.alwaysDisabled := by
    intro h; apply hdis
    simp only [Ref.alwaysDisabled, List.mem_cons, List.mem_nil_iff, or_false] at h
    simp only [disabledOpcodes, List.mem_cons, List.mem_nil_iff, or_false]
    omega
  obtain ⟨s, al, vf, pb, n⟩ := st
  dsimp only at hcode hnop
  by_cases hpush : op.opcode ≤ 0x4e
  · -- data push
    obtain ⟨d, hd⟩ := Option.isSome_iff_exists.mp (hd1 hpush)
    have hle : ¬ op.opcode > 0x60 := by omega
    have hn63 : ¬ (0x63 ≤ op.opcode ∧ op.opcode ≤ 0x68) := by omega
    have hnop' : ¬ n > MAX_OPS_PER_SCRIPT := by omega
    simp only [countOp, hle, if_false, dispatch, hpush, if_true, hd, Option.getD_some, bind, Except.bind,
      Ref.loopBody, toRef, hnd, checkExec, and_true, hn63, or_false, hnop']
    by_cases hlen : d.length > MAX_SCRIPT_ELEMENT_SIZE
    · simp [hlen, StepSim]
    · simp only [hlen, if_false]
      by_cases hfe : vf.all id = true
      · simp only [hfe, if_true]
        exact tail_sim script code ⟨d :: s, al, vf, pb, n⟩ hcode hnop
      · simp only [hfe, if_false]
        exact tail_sim script code ⟨s, al, vf, pb, n⟩ hcode hnop
  · -- opcode
    have hgt : op.opcode > 0x4e := by omega
    have h520 : ¬ (0 > MAX_SCRIPT_ELEMENT_SIZE) := by simp [MAX_SCRIPT_ELEMENT_SIZE]
    simp only [hd2 hgt, Option.getD_none, Ref.loopBody, toRef, List.length_nil, hnd, if_false, hpush, and_false,
      dispatch, checkExec, h520]
    -- countOp, brought to the shape of the reference's counter
    have hcm : countOp op.opcode ⟨s, al, vf, pb, n⟩ =
        if (if op.opcode > 0x60 then n + 1 else n) > MAX_OPS_PER_SCRIPT then
          raise ⟨s, al, vf, pb, (if op.opcode > 0x60 then n + 1 else n)⟩
        else .ok ⟨s, al, vf, pb, (if op.opcode > 0x60 then n + 1 else n)⟩ := by
      unfold countOp
      by_cases h60 : op.opcode > 0x60
      · simp only [h60, if_true]
      · have : ¬ n > MAX_OPS_PER_SCRIPT := by omega
        simp only [h60, if_false, this]
    rw [hcm]
    generalize (if op.opcode > 0x60 then n + 1 else n) = n'
    by_cases hcnt : n' > MAX_OPS_PER_SCRIPT
    · simp [hcnt, StepSim, bind, Except.bind]
    · simp only [hcnt, if_false, bind, Except.bind]
      have hn' : n' ≤ MAX_OPS_PER_SCRIPT := by omega
      by_cases hex : vf.all id = true ∨ (0x63 ≤ op.opcode ∧ op.opcode ≤ 0x68)
      · simp only [hex, if_true]
        by_cases hcs : op.opcode = 0xab
        · -- OP_CODESEPARATOR
          have hm : execOp c fl script op (vf.all id) ⟨s, al, vf, pb, n'⟩ = .ok ⟨s, al, vf, op.sopIdx, n'⟩ := by
            simp [execOp, hcs, binaryNumOps, unaryNumOps, opCodeSeparator]
          have hr : Ref.execOp c.env fl op.opcode pc' (vf.all id) ⟨s, al, vf, code, n'⟩ =
              some ⟨s, al, vf, pc', n'⟩ := by
            rw [hcs]; simp [Ref.execOp]
          rw [hm, hr]
          exact tail_sim script pc' ⟨s, al, vf, op.sopIdx, n'⟩ (Or.inr (hsep hcs)) hn'
        · have hs := execOp_sim c fl script op pc' code (vf.all id) ⟨s, al, vf, pb, n'⟩ hcov hcs
          simp only [toRef] at hs
          cases hm : execOp c fl script op (vf.all id) ⟨s, al, vf, pb, n'⟩ with
          | error e => rw [hm] at hs; simp only [Sim] at hs; simp [hs, StepSim]
          | ok st' =>
            rw [hm] at hs
            obtain ⟨hs1, hs2, hs3⟩ := hs
            rw [hs1]
            have := tail_sim script code st' (by rw [hs2]; exact hcode) (by rw [hs3]; exact hn')
            simpa [toRef] using this
      · simp only [hex, if_false]
        exact tail_sim script code ⟨s, al, vf, pb, n'⟩ hcode hn'

/-- outcome of the whole loop on both sides -/
def LoopSim (m : M St) (r : Option Ref.State) : Prop :=
  match m with
  | .ok st' => ∃ code', r = some (toRef st' code')
  | .error _ => r = none

theorem loop_sim (c : Ctx) (fl : Flags) (script : Bytes) (idx : Nat) (s : Bytes) :
    s = script.drop idx →
    (∀ o ∈ (rawIterFrom idx s).1, o.opcode ∉ uncoveredOps) →
    ∀ (st : St) (code : Bytes), CodeRel script st.pbegin code → st.nOpCount ≤ MAX_OPS_PER_SCRIPT →
      LoopSim (loop c fl script (rawIterFrom idx s).2 (rawIterFrom idx s).1 st)
        (Ref.evalLoop c.env fl s (toRef st code)) := by
  induction idx, s using rawIterFrom.induct with
  | case1 idx s h =>
    intro _ _ st code _ _
    have hs := rawStep_getOp idx s
    rw [h] at hs
    subst hs
    rw [rawIterFrom_none h]
    simp only [loop, LoopSim, evalLoop_nil]
    exact ⟨code, rfl⟩
  | case2 idx s e h =>
    intro _ _ st code _ _
    have hs := rawStep_getOp idx s
    rw [h] at hs
    rw [rawIterFrom_err h]
    simp only [loop, LoopSim]
    exact evalLoop_fail _ _ _ _ hs.1 hs.2
  | case3 idx s o rest h ops e heq ih =>
    intro hsd hcov st code hcode hnop
    have hs := rawStep_getOp idx s
    rw [h] at hs
    obtain ⟨hget, hidx, hd1, hd2, ⟨pre, hpre, hprene⟩, hb⟩ := hs
    have hne : s ≠ [] := by rw [hpre]; simp [hprene]
    rw [rawIterFrom_op h] at hcov ⊢
    simp only [loop, bind, Except.bind]
    rw [evalLoop_op _ _ _ _ hne hget]
    have hlen : s.length - rest.length = pre.length := by rw [hpre]; simp
    have hrest : rest = script.drop (idx + (s.length - rest.length)) := by
      rw [hlen, ← List.drop_drop, ← hsd, hpre, List.drop_left]
    have hsep : o.opcode = 0xab → script.drop o.sopIdx = 0xab :: rest := by
      intro ho
      obtain ⟨b, hb1, hb2⟩ := hb (by omega)
      rw [hidx, ← hsd, hb1]
      congr 1
      apply UInt8.toNat_inj.mp
      rw [hb2, ho]; rfl
    have hstep := step_sim c fl script o rest code st (hcov o (by simp)) hd1 hd2 hsep hcode hnop
    cases hm : step c fl script o st with
    | error err => rw [hm] at hstep; simp only [StepSim] at hstep; simp [hstep, LoopSim]
    | ok st' =>
      rw [hm] at hstep
      obtain ⟨code', hr, hcode', hnop'⟩ := hstep
      rw [hr]
      exact ih hrest (fun o' ho' => hcov o' (by simp [ho'])) st' code' hcode' hnop'

/-- `_EvalScript` against the reference `EvalScript` -/
theorem evalScriptRaw_sim (c : Ctx) (fl : Flags) (stack : List Bytes) (script : Bytes)
    (hcov : ∀ o ∈ (rawIter script).1, o.opcode ∉ uncoveredOps) :
    match evalScriptRaw c fl stack script with
    | .ok s' => Ref.evalScript c.env fl stack script = some s'
    | .error _ => Ref.evalScript c.env fl stack script = none := by
  unfold evalScriptRaw Ref.evalScript
  by_cases hsz : script.length > MAX_SCRIPT_SIZE
  · simp [hsz]
  · simp only [hsz, if_false, bind, Except.bind]
    have hl := loop_sim c fl script 0 script (by simp) hcov ⟨stack, [], [], 0, 0⟩ script (Or.inl ⟨rfl, rfl⟩)
      (by simp)
    simp only [toRef] at hl
    cases hm : loop c fl script (rawIter script).2 (rawIter script).1 ⟨stack, [], [], 0, 0⟩ with
    | error e =>
      simp only [rawIter] at hm
      rw [hm] at hl
      simp only [LoopSim] at hl
      simp [hl]
    | ok st' =>
      simp only [rawIter] at hm
      rw [hm] at hl
      obtain ⟨code', hr⟩ := hl
      rw [hr]
      by_cases hv : st'.vfExec.length ≠ 0
      · have : st'.vfExec ≠ [] := by intro h; simp [h] at hv
        simp [hv, this, toRef]
      · have : st'.vfExec = [] := by
          cases hvf : st'.vfExec with
          | nil => rfl
          | cons a r => simp [hvf] at hv
        simp [this, toRef]

/-- `EvalScript` (the wrapper turns CScriptInvalidError into EvalScriptError: still a failure) -/
theorem evalScript_sim (c : Ctx) (fl : Flags) (stack : List Bytes) (script : Bytes)
    (hcov : ∀ o ∈ (rawIter script).1, o.opcode ∉ uncoveredOps) :
    match evalScript c fl stack script with
    | .ok s' => Ref.evalScript c.env fl stack script = some s'
    | .error _ => Ref.evalScript c.env fl stack script = none := by
  have h := evalScriptRaw_sim c fl stack script hcov
  unfold evalScript
  cases hm : evalScriptRaw c fl stack script with
  | ok s' => rw [hm] at h; exact h
  | error e => rw [hm] at h; cases e <;> exact h

end BtcVerif.Model.ScriptEval
