/-
  C09 helper lemmas, part 17: the per-operation simulation lemmas put together.
-/
import BtcVerif.Proofs.HeapOps7

namespace BtcVerif.Model.Heap
open BtcVerif BtcVerif.Spec.ValueSem

/-- the operations whose simulation is proved in Proofs/HeapOps1–7 -/
def coreOp : Op → Bool
  | .sighash _ _ _ _ | .verify _ _ _ | .newBlock _ _ => false
  | _ => true

theorem sim_core {s : St} {sp : Store} (hinv : Inv s) (hrel : Rel s sp) (op : Op) (hc : coreOp op = true) :
    Sim s sp op := by
  cases op with
  | newTx v => exact sim_newTx hinv hrel v
  | newCTx v => exact sim_newCTx hinv hrel v
  | newHeader v => exact sim_newHeader hinv hrel v
  | newBlock h t => simp [coreOp] at hc
  | snapshot t => exact sim_snapshot hinv hrel t
  | mutCopy t => exact sim_mutCopy hinv hrel t
  | assign t f => exact sim_assign hinv hrel t f
  | delAttr t => exact sim_delAttr hinv hrel t
  | setVin r l => exact sim_setVin hinv hrel r l
  | setVout r l => exact sim_setVout hinv hrel r l
  | appendIn r v => exact sim_appendIn hinv hrel r v
  | replaceIn r i v => exact sim_replaceIn hinv hrel r i v
  | removeIn r i => exact sim_removeIn hinv hrel r i
  | appendOut r v => exact sim_appendOut hinv hrel r v
  | replaceOut r i v => exact sim_replaceOut hinv hrel r i v
  | removeOut r i => exact sim_removeOut hinv hrel r i
  | setWit r w => exact sim_setWit hinv hrel r w
  | ser t => exact sim_ser hinv hrel t
  | getHash t => exact sim_getHash hinv hrel t
  | txid t => exact sim_txid hinv hrel t
  | pyHash t => exact sim_pyHash hinv hrel t
  | eq a b => exact sim_eq hinv hrel a b
  | sighash r s i h => simp [coreOp] at hc
  | sighashW r i h => exact sim_sighashW hinv hrel r i h
  | verify r i c => simp [coreOp] at hc

/-- the initial state: only the two shared default objects, no names -/
theorem inv_init' : Inv init := by
  have h0 : init.heap[emptyTuple]? = some { isMut := false, sc := .seq .stacks, refs := [] } := rfl
  have h1 : init.heap[defaultWit]? = some { isMut := false, sc := .wit, refs := [emptyTuple] } := rfl
  refine ⟨?_, ?_, ?_, ?_, ?_, ⟨_, _, h0, rfl, rfl, rfl, h1, rfl, rfl, rfl⟩⟩
  · intro a o ho hm c hc
    match a, ho with
    | 0, ho => simp [init] at ho; subst ho; simp at hc
    | 1, ho =>
      simp [init] at ho; subst ho
      simp at hc; subst hc
      exact ⟨_, h0, rfl⟩
    | a + 2, ho => simp [init] at ho
  · intro a o ho hai
    match a, ho with
    | 0, ho => simp [init] at ho; subst ho; rfl
    | 1, ho => simp [init] at ho; subst ho; rfl
    | a + 2, ho => simp [init] at ho
  · intro a o ho hm
    match a, ho with
    | 0, ho => simp [init] at ho; subst ho; simp
    | 1, ho => simp [init] at ho; subst ho; simp
    | a + 2, ho => simp [init] at ho
  · intro y; simp [init, total]
  · intro r a hr; simp [St.root, init] at hr

theorem rel_init' : Rel init Spec.ValueSem.init := by
  refine ⟨rfl, ?_⟩
  intro r
  simp [St.root, init, Spec.ValueSem.init, RelAt]

end BtcVerif.Model.Heap
