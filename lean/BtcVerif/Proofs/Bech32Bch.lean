/-
  C11 helper lemmas, part 7: BIP173's `polymod` is the residue computation of the BCH code over GF(32)
  with generator g(x) = x⁶ + {29}x⁵ + {22}x⁴ + {20}x³ + {21}x² + {29}x + {18}.
-/
import BtcVerif.Proofs.Bech32Addr

namespace BtcVerif.Bech32
open BtcVerif.Spec.Bech32 (gfMul bchStep bchResidue unpack Residue)

theorem unpack_xor (a b : Nat) :
    unpack (a ^^^ b) = ⟨(unpack a).c5 ^^^ (unpack b).c5, (unpack a).c4 ^^^ (unpack b).c4,
      (unpack a).c3 ^^^ (unpack b).c3, (unpack a).c2 ^^^ (unpack b).c2, (unpack a).c1 ^^^ (unpack b).c1,
      (unpack a).c0 ^^^ (unpack b).c0⟩ := by
  have h : ∀ k, (a ^^^ b) / 2 ^ k % 32 = (a / 2 ^ k % 32) ^^^ (b / 2 ^ k % 32) := by
    intro k
    rw [Nat.xor_div_two_pow, show (32 : Nat) = 2 ^ 5 by rfl, Nat.xor_mod_two_pow]
  have h0 : (a ^^^ b) % 32 = (a % 32) ^^^ (b % 32) := by
    rw [show (32 : Nat) = 2 ^ 5 by rfl, Nat.xor_mod_two_pow]
  simp only [unpack, h, h0]

/-- the generator part is `top · g(x)` (coefficientwise product in GF(32)) -/
theorem unpack_G : ∀ t < 32, unpack (G t) =
    ⟨gfMul t 29, gfMul t 22, gfMul t 20, gfMul t 21, gfMul t 29, gfMul t 18⟩ := by decide

theorem unpack_shift (c v : Nat) (hv : v < 32) :
    unpack ((c % 2 ^ 25) * 32 + v) =
      ⟨(unpack c).c4, (unpack c).c3, (unpack c).c2, (unpack c).c1, (unpack c).c0, v⟩ := by
  simp only [unpack, Residue.mk.injEq]
  refine ⟨?_, ?_, ?_, ?_, ?_, ?_⟩ <;> omega

/-- one step of `polymod` on a 30-bit state is one step of the polynomial residue computation -/
theorem unpack_step (c v : Nat) (hc : c < 2 ^ 30) (hv : v < 32) :
    unpack (Spec.Bech32.polymodStep c v) = bchStep (unpack c) v := by
  rw [← polymodStep_eq_spec, polymodStep_eq]
  unfold T
  rw [Nat.xor_assoc, Nat.xor_comm (G _) v, ← Nat.xor_assoc, mul32_xor _ _ hv, unpack_xor,
    unpack_shift c v hv, unpack_G _ (by omega)]
  have hm : c / 2 ^ 25 % 32 = c / 2 ^ 25 := by omega
  simp only [bchStep, unpack, hm]

theorem polymodStep_lt (c v : Nat) (hv : v < 32) : Spec.Bech32.polymodStep c v < 2 ^ 30 := by
  rw [← polymodStep_eq_spec, polymodStep_eq]
  exact xor_lt30 (T_lt c) (by omega)

/-- `polymod` computes the residue of the message polynomial modulo g(x) over GF(32) -/
theorem unpack_polymod (vs : List Nat) (hvs : ∀ v ∈ vs, v < 32) :
    unpack (Spec.Bech32.polymod vs) = bchResidue vs := by
  unfold Spec.Bech32.polymod bchResidue
  have : unpack 1 = ⟨0, 0, 0, 0, 0, 1⟩ := by decide
  rw [← this]
  generalize hc : (1 : Nat) = c
  have hc30 : c < 2 ^ 30 := by omega
  clear hc this
  induction vs generalizing c with
  | nil => rfl
  | cons v vs ih =>
    simp only [List.foldl_cons]
    have hv := hvs v (by simp)
    rw [ih (fun x hx => hvs x (by simp [hx])) _ (polymodStep_lt c v hv), unpack_step c v hc30 hv]

theorem unpack_inj {a b : Nat} (ha : a < 2 ^ 30) (hb : b < 2 ^ 30) (h : unpack a = unpack b) : a = b := by
  simp only [unpack, Residue.mk.injEq] at h
  omega

end BtcVerif.Bech32
