/-
  C05 — symbolic evaluation of the interpreter model (Model/ScriptEval, property C06) on the
  standard script templates.  Only `Model.ScriptEval` is imported: the lemmas below unfold the
  model on fixed script skeletons with symbolic push data.
-/
import BtcVerif.Model.ScriptEval
import BtcVerif.Spec.Templates
import BtcVerif.Model.SpendCtx

namespace BtcVerif.C05T
open BtcVerif BtcVerif.Spec BtcVerif.Spec.Script BtcVerif.Model.Script BtcVerif.Model.ScriptEval
open BtcVerif.Spec.Templates

/-! ### raw_iter on a script skeleton -/

theorem rawIterFrom_nil (idx : Nat) : rawIterFrom idx [] = ([], none) := by
  rw [rawIterFrom]; simp [rawStep]

theorem rawIterFrom_op {idx : Nat} {s : Bytes} {o : RawOp} {rest : Bytes}
    (h : rawStep idx s = some (.op o rest)) :
    rawIterFrom idx s = (o :: (rawIterFrom (idx + (s.length - rest.length)) rest).1,
      (rawIterFrom (idx + (s.length - rest.length)) rest).2) := by
  rw [rawIterFrom]; split <;> simp_all

theorem toNat_ofNat_lt {n : Nat} (h : n < 256) : (UInt8.ofNat n).toNat = n := by
  simp [UInt8.toNat_ofNat', Nat.mod_eq_of_lt h]

theorem rawStep_push (idx : Nat) (d rest : Bytes) (h : d.length < 0x4c) :
    rawStep idx (pushData d ++ rest) = some (.op ⟨d.length, some d, idx⟩ rest) := by
  have hb : (UInt8.ofNat d.length).toNat = d.length := toNat_ofNat_lt (by omega)
  simp only [pushData, List.cons_append, rawStep, hb]
  rw [if_neg (by omega), if_pos h]
  simp

theorem rawStep_opcode (idx : Nat) (b : UInt8) (rest : Bytes) (h : b.toNat > 0x4e) :
    rawStep idx (b :: rest) = some (.op ⟨b.toNat, none, idx⟩ rest) := by
  simp [rawStep, h]

theorem rawIterFrom_push (idx : Nat) (d rest : Bytes) (h : d.length < 0x4c) :
    rawIterFrom idx (pushData d ++ rest) =
      (⟨d.length, some d, idx⟩ :: (rawIterFrom (idx + (d.length + 1)) rest).1,
       (rawIterFrom (idx + (d.length + 1)) rest).2) := by
  rw [rawIterFrom_op (rawStep_push idx d rest h)]
  have : (pushData d ++ rest).length - rest.length = d.length + 1 := by
    simp [pushData]; omega
  rw [this]

theorem rawIterFrom_opcode (idx : Nat) (b : UInt8) (rest : Bytes) (h : b.toNat > 0x4e) :
    rawIterFrom idx (b :: rest) =
      (⟨b.toNat, none, idx⟩ :: (rawIterFrom (idx + 1) rest).1, (rawIterFrom (idx + 1) rest).2) := by
  rw [rawIterFrom_op (rawStep_opcode idx b rest h)]
  have : (b :: rest).length - rest.length = 1 := by simp
  rw [this]

/-! ### single loop iterations -/

theorem countOp_push (n : Nat) (st : St) (hn : n ≤ 0x60) : countOp n st = .ok st := by
  unfold countOp
  rw [if_neg (by omega)]

theorem countOp_op (n : Nat) (st : St) (hn : n > 0x60) (hc : st.nOpCount + 1 ≤ 201) :
    countOp n st = .ok { st with nOpCount := st.nOpCount + 1 } := by
  have h : ¬ ({ st with nOpCount := st.nOpCount + 1 } : St).nOpCount > MAX_OPS_PER_SCRIPT := by
    simp only [MAX_OPS_PER_SCRIPT]; omega
  unfold countOp
  rw [if_pos hn]
  simp only [h, if_false]

theorem step_push (c : Ctx) (fl : Flags) (script : Bytes) (n idx : Nat) (d : Bytes)
    (stack alt : List Bytes) (pb nops : Nat)
    (hn : n < 0x4c) (hd : d.length ≤ 520) (hsz : stack.length + 1 + alt.length ≤ 1000) :
    step c fl script ⟨n, some d, idx⟩ ⟨stack, alt, [], pb, nops⟩ = .ok ⟨d :: stack, alt, [], pb, nops⟩ := by
  have h1 : n ∉ disabledOpcodes := by
    simp only [disabledOpcodes, List.mem_cons, List.not_mem_nil, or_false]; omega
  have h2 : n ≤ 0x4e := by omega
  have h3 : ¬ d.length > MAX_SCRIPT_ELEMENT_SIZE := by simp only [MAX_SCRIPT_ELEMENT_SIZE]; omega
  have h4 : ¬ (d :: stack).length + alt.length > MAX_STACK_SIZE := by
    simp only [MAX_STACK_SIZE, List.length_cons]; omega
  unfold step
  simp only [h1, if_false, countOp_push n _ (by omega : n ≤ 0x60), bind, Except.bind, dispatch, h2, if_true, h3,
    checkExec, List.all_nil, h4]



theorem execOp_checksig (c : Ctx) (fl : Flags) (script : Bytes) (idx : Nat) (f : Bool) (st : St) :
    execOp c fl script ⟨0xac, none, idx⟩ f st = opCheckSig c script 0xac st := by
  simp [execOp, binaryNumOps, unaryNumOps]

theorem execOp_dup (c : Ctx) (fl : Flags) (script : Bytes) (idx : Nat) (f : Bool) (st : St) :
    execOp c fl script ⟨0x76, none, idx⟩ f st = opDup 0x76 st := by
  simp [execOp, binaryNumOps, unaryNumOps]

theorem execOp_hash160 (c : Ctx) (fl : Flags) (script : Bytes) (idx : Nat) (f : Bool) (st : St) :
    execOp c fl script ⟨0xa9, none, idx⟩ f st = hashTop 0xa9 c.env.hashes.hash160 st := by
  simp [execOp, binaryNumOps, unaryNumOps]

theorem execOp_equalverify (c : Ctx) (fl : Flags) (script : Bytes) (idx : Nat) (f : Bool) (st : St) :
    execOp c fl script ⟨0x88, none, idx⟩ f st = opEqualVerify 0x88 st := by
  simp [execOp, binaryNumOps, unaryNumOps]

theorem execOp_equal (c : Ctx) (fl : Flags) (script : Bytes) (idx : Nat) (f : Bool) (st : St) :
    execOp c fl script ⟨0x87, none, idx⟩ f st = opEqual 0x87 st := by
  simp [execOp, binaryNumOps, unaryNumOps]

/-- one loop iteration for an opcode above OP_16 that is not disabled, outside any IF -/
theorem step_opcode (c : Ctx) (fl : Flags) (script : Bytes) (sop idx : Nat)
    (stack alt : List Bytes) (pb nops : Nat) (st' : St)
    (h60 : sop > 0x60) (hdis : sop ∉ disabledOpcodes) (hops : nops + 1 ≤ 201)
    (hex : execOp c fl script ⟨sop, none, idx⟩ true ⟨stack, alt, [], pb, nops + 1⟩ = .ok st')
    (hsz : st'.stack.length + st'.alt.length ≤ 1000) :
    step c fl script ⟨sop, none, idx⟩ ⟨stack, alt, [], pb, nops⟩ = .ok st' := by
  have h2 : ¬ sop ≤ 0x4e := by omega
  have h4 : ¬ st'.stack.length + st'.alt.length > MAX_STACK_SIZE := by
    simp only [MAX_STACK_SIZE]; omega
  have hc : countOp sop ⟨stack, alt, [], pb, nops⟩ = .ok ⟨stack, alt, [], pb, nops + 1⟩ :=
    countOp_op sop ⟨stack, alt, [], pb, nops⟩ h60 hops
  unfold step
  simp only [hdis, if_false, hc, bind, Except.bind, dispatch, h2,
    checkExec, List.all_nil, true_or, if_true, hex, h4]


/-! ### FindAndDelete of something that is not there -/

theorem take_append_slice (s : Bytes) (a b : Nat) (h : a ≤ b) : s.take a ++ slice s a b = s.take b := by
  unfold slice
  have : b = a + (b - a) := by omega
  conv => rhs; rw [this, List.take_add]

/-- the fold of `FindAndDelete` when no operation starts with `x`: everything before the last
    operation start has been copied -/
theorem fad_foldl (s x : Bytes) : ∀ (ops : List RawOp) (acc : FadAcc),
    acc.r = s.take acc.last → acc.skip = false →
    (∀ o ∈ ops, slice s o.sopIdx (o.sopIdx + x.length) ≠ x) →
    List.Pairwise (fun a b => a.sopIdx ≤ b.sopIdx) ops → (∀ o ∈ ops, acc.last ≤ o.sopIdx) →
    let acc' := ops.foldl (fadStep s x) acc
    acc'.r = s.take acc'.last ∧ acc'.skip = false := by
  intro ops
  induction ops with
  | nil => intro acc h1 h2 _ _ _; exact ⟨h1, h2⟩
  | cons o ops ih =>
    intro acc h1 h2 hne hpw hle
    simp only [List.foldl_cons]
    apply ih
    · simp only [fadStep, h2, Bool.not_false, if_true, h1]
      exact take_append_slice s acc.last o.sopIdx (hle o (List.mem_cons_self))
    · simp only [fadStep]
      have := hne o List.mem_cons_self
      simpa using this
    · intro o' ho'; exact hne o' (List.mem_cons_of_mem _ ho')
    · exact (List.pairwise_cons.1 hpw).2
    · intro o' ho'
      simp only [fadStep]
      exact (List.pairwise_cons.1 hpw).1 o' ho'

/-- `FindAndDelete(s, x) = s` when `s` tokenises, its first operation starts at 0, operation starts
    are non-decreasing, and no operation starts with `x` -/
theorem fad_noop (cap : Captured) (s x : Bytes) (o : RawOp) (ops : List RawOp)
    (hit : rawIter s = (o :: ops, none)) (h0 : o.sopIdx = 0)
    (hne : ∀ o' ∈ o :: ops, slice s o'.sopIdx (o'.sopIdx + x.length) ≠ x)
    (hpw : List.Pairwise (fun a b => a.sopIdx ≤ b.sopIdx) (o :: ops)) :
    findAndDelete cap s x = .ok s := by
  unfold findAndDelete
  simp only [hit, List.foldl_cons]
  have hfirst : fadStep s x { r := [], last := 0, skip := true } o = { r := [], last := 0, skip := false } := by
    have := hne o List.mem_cons_self
    simp only [fadStep, Bool.not_true, Bool.false_eq_true, if_false, h0, FadAcc.mk.injEq, true_and]
    rw [h0] at this
    simpa using this
  rw [hfirst]
  obtain ⟨h1, h2⟩ := fad_foldl s x ops { r := [], last := 0, skip := false } (by simp) rfl
    (fun o' ho' => hne o' (List.mem_cons_of_mem _ ho')) (List.pairwise_cons.1 hpw).2
    (fun o' _ => Nat.zero_le _)
  simp only [h2, Bool.not_false, if_true, h1, List.take_append_drop]

theorem slice_ne_of_head (s : Bytes) (idx : Nat) (x0 : UInt8) (xs : Bytes) (h : s[idx]? ≠ some x0) :
    slice s idx (idx + (x0 :: xs).length) ≠ x0 :: xs := by
  intro heq
  apply h
  unfold slice at heq
  have h2 : ((s.drop idx).take (idx + (x0 :: xs).length - idx))[0]? = some x0 := by rw [heq]; rfl
  rw [List.getElem?_take] at h2
  simp only [List.length_cons] at h2
  rw [if_pos (by omega), List.getElem?_drop] at h2
  simpa using h2

/-! ### _CheckSig -/

theorem checkSig_ok (c : Ctx) (cap : Captured) (body : Bytes) (ht : UInt8) (key sc : Bytes)
    (htot : c.SigTotal) (hlen : sc.length ≤ MAX_SCRIPT_SIZE) (hparse : (rawIter sc).2 = none) :
    checkSig c cap (body ++ [ht]) key sc = .ok (c.env.sigCheck body key sc ht.toNat) := by
  unfold checkSig
  have h1 : ¬ (body ++ [ht]).length = 0 := by simp
  have h2 : (body ++ [ht]).getLast? = some ht := by simp
  have h3 : (body ++ [ht]).dropLast = body := by simp
  obtain ⟨d, hd⟩ := htot.total sc ht.toNat hlen ht.toNat_lt hparse
  simp only [h1, if_false, h2, h3, hd, Ctx.env]


theorem encodeOpPushdata_direct (d : Bytes) (h : d.length < 0x4c) : encodeOpPushdata d = .ok (pushData d) := by
  unfold encodeOpPushdata pushData
  rw [if_pos h]

/-- OP_CHECKSIG with `key` on top of `sig`, outside any IF, given what FindAndDelete and _CheckSig return -/
theorem opCheckSig_eval (c : Ctx) (script : Bytes) (key sig : Bytes) (rest alt : List Bytes) (pb nops : Nat)
    (sc : Bytes) (b : Bool) (hlen : sig.length < 0x4c)
    (hfad : findAndDelete ⟨key :: sig :: rest, alt, nops⟩ (script.drop pb) (pushData sig) = .ok sc)
    (hsig : checkSig c ⟨key :: sig :: rest, alt, nops⟩ sig key sc = .ok b) :
    opCheckSig c script 0xac ⟨key :: sig :: rest, alt, [], pb, nops⟩ =
      .ok ⟨(if b then [1] else []) :: rest, alt, [], pb, nops⟩ := by
  unfold opCheckSig
  have hca : checkArgs 0xac 2 ⟨key :: sig :: rest, alt, [], pb, nops⟩ = .ok () := by
    unfold checkArgs
    rw [if_neg (by simp)]
  have g1 : getTop? (key :: sig :: rest) 1 = some key := by simp [getTop?]
  have g2 : getTop? (key :: sig :: rest) 2 = some sig := by simp [getTop?]
  simp only [hca, bind, Except.bind, g1, g2, pyIdx, encodeOpPushdata_direct sig hlen, St.cap, hfad, hsig, pop?]
  cases b <;> simp



theorem evalScript_of_loop (c : Ctx) (fl : Flags) (stack : List Bytes) (script : Bytes) (ops : List RawOp) (st : St)
    (hlen : script.length ≤ 10000) (hit : rawIter script = (ops, none))
    (hloop : loop c fl script none ops ⟨stack, [], [], 0, 0⟩ = .ok st) (hvf : st.vfExec = []) :
    evalScript c fl stack script = .ok st.stack := by
  have h1 : ¬ script.length > MAX_SCRIPT_SIZE := by simp only [MAX_SCRIPT_SIZE]; omega
  unfold evalScript evalScriptRaw
  simp only [h1, if_false, hit, hloop, bind, Except.bind, hvf, List.length_nil, ne_eq, not_true_eq_false]

theorem loop_nil (c : Ctx) (fl : Flags) (script : Bytes) (st : St) : loop c fl script none [] st = .ok st := by
  unfold loop; rfl

theorem loop_cons (c : Ctx) (fl : Flags) (script : Bytes) (op : RawOp) (ops : List RawOp) (st st' : St)
    (h : step c fl script op st = .ok st') :
    loop c fl script none (op :: ops) st = loop c fl script none ops st' := by
  rw [loop]; simp only [h, bind, Except.bind]

/-! ### pay-to-pubkey -/

theorem rawIter_push_only (d : Bytes) (h : d.length < 0x4c) :
    rawIter (pushData d) = ([⟨d.length, some d, 0⟩], none) := by
  have := rawIterFrom_push 0 d [] h
  rw [List.append_nil] at this
  unfold rawIter
  rw [this, rawIterFrom_nil]

theorem rawIter_p2pk (key : Bytes) (h : key.length < 0x4c) :
    rawIter (p2pkScript key) = ([⟨key.length, some key, 0⟩, ⟨0xac, none, key.length + 1⟩], none) := by
  unfold rawIter p2pkScript
  rw [rawIterFrom_push 0 key _ h, rawIterFrom_opcode _ 0xac [] (by decide), rawIterFrom_nil]
  simp

theorem ofNat_ne {a b : Nat} (ha : a < 256) (hb : b < 256) (h : a ≠ b) : UInt8.ofNat a ≠ UInt8.ofNat b := by
  intro he
  have := congrArg UInt8.toNat he
  rw [toNat_ofNat_lt ha, toNat_ofNat_lt hb] at this
  exact h this

theorem fad_p2pk (cap : Captured) (key sig : Bytes) (hk : key.length < 0x4c) (hs : sig.length < 0x4c)
    (hne : sig.length ≠ key.length) :
    findAndDelete cap (p2pkScript key) (pushData sig) = .ok (p2pkScript key) := by
  apply fad_noop cap _ _ _ _ (rawIter_p2pk key hk) rfl
  · intro o ho
    simp only [List.mem_cons, List.not_mem_nil, or_false] at ho
    rcases ho with rfl | rfl
    · apply slice_ne_of_head
      simp only [p2pkScript, pushData, List.cons_append, List.getElem?_cons_zero, ne_eq, Option.some.injEq]
      exact ofNat_ne (by omega) (by omega) (Ne.symm hne)
    · apply slice_ne_of_head
      have : (p2pkScript key)[key.length + 1]? = some 0xac := by
        simp [p2pkScript, pushData]
      rw [this]
      simp only [ne_eq, Option.some.injEq]
      have := ofNat_ne (show (0xac : Nat) < 256 by omega) (show sig.length < 256 by omega) (by omega)
      exact this
  · simp


/-- a scriptSig / prefix consisting of one direct push -/
theorem evalScript_push (c : Ctx) (fl : Flags) (stack : List Bytes) (d : Bytes) (h : d.length < 0x4c)
    (hsz : stack.length + 1 ≤ 1000) :
    evalScript c fl stack (pushData d) = .ok (d :: stack) := by
  have hl : (pushData d).length ≤ 10000 := by simp [pushData]; omega
  have := evalScript_of_loop c fl stack (pushData d) _ ⟨d :: stack, [], [], 0, 0⟩ hl (rawIter_push_only d h)
    (by rw [loop_cons _ _ _ _ _ _ _ (step_push c fl _ d.length 0 d stack [] 0 0 h (by omega) (by simpa using hsz)),
          loop_nil]) rfl
  exact this

theorem sig_parts (sig : Bytes) (h : sig ≠ []) : ∃ body ht, sig = body ++ [ht] :=
  ⟨sig.dropLast, sig.getLast h, (List.dropLast_concat_getLast h).symm⟩

/-- evaluation of `<key> OP_CHECKSIG` on the stack `[sig]` -/
theorem evalScript_p2pk (c : Ctx) (fl : Flags) (body : Bytes) (ht : UInt8) (key : Bytes)
    (htot : c.SigTotal) (hk : key.length < 0x4c) (hs : body.length + 1 < 0x4c) (hne : body.length + 1 ≠ key.length) :
    evalScript c fl [body ++ [ht]] (p2pkScript key) =
      .ok [if c.env.sigCheck body key (p2pkScript key) ht.toNat then [1] else []] := by
  have hl : (p2pkScript key).length ≤ 10000 := by simp [p2pkScript, pushData]; omega
  have hsl : (body ++ [ht]).length < 0x4c := by simpa using hs
  have hit := rawIter_p2pk key hk
  have hparse : (rawIter (p2pkScript key)).2 = none := by rw [hit]
  have e := evalScript_of_loop c fl [body ++ [ht]] (p2pkScript key) _
    ⟨[if c.env.sigCheck body key (p2pkScript key) ht.toNat then [1] else []], [], [], 0, 1⟩ hl hit ?_ rfl
  · exact e
  · rw [loop_cons _ _ _ _ _ _ _ (step_push c fl _ key.length 0 key [body ++ [ht]] [] 0 0 hk (by omega) (by simp))]
    rw [loop_cons _ _ _ _ _ _
      ⟨[if c.env.sigCheck body key (p2pkScript key) ht.toNat then [1] else []], [], [], 0, 1⟩, loop_nil]
    apply step_opcode
    · omega
    · decide
    · omega
    · rw [execOp_checksig]
      exact opCheckSig_eval c (p2pkScript key) key (body ++ [ht]) [] [] 0 1 (p2pkScript key) _ hsl
        (by rw [List.drop_zero]; exact fad_p2pk _ key (body ++ [ht]) hk hsl (by simpa using hne))
        (checkSig_ok c _ body ht key _ htot hl hparse)
    · simp



theorem checkTopTrue_one (rest : List Bytes) : checkTopTrue ([1] :: rest) = .ok () := by
  simp [checkTopTrue, getTop?, pyIdx, castToBool, castToBoolFrom, bind, Except.bind]

theorem checkTopTrue_empty (rest : List Bytes) : checkTopTrue ([] :: rest) = .error .verify := by
  simp [checkTopTrue, getTop?, pyIdx, castToBool, castToBoolFrom, bind, Except.bind]

theorem isP2sh_false_of_head (s : Bytes) (h : s[0]? ≠ some 0xa9) : isP2sh s = false := by
  unfold isP2sh
  simp [h]

theorem verifyCleanStack_one (fl : Flags) (x : Bytes) (h : fl.admissible = true) :
    verifyCleanStack fl [x] = .ok () := by
  unfold verifyCleanStack
  unfold Flags.admissible at h
  cases hc : fl.cleanStack <;> cases hp : fl.p2sh <;> simp_all

/-- the tail of VerifyScript when the scriptPubKey is not P2SH-shaped and left `stack` -/
theorem verifyScript_plain (c : Ctx) (fl : Flags) (scriptSig spk : Bytes) (s1 s2 : List Bytes)
    (h1 : evalScript c fl [] scriptSig = .ok s1) (h2 : evalScript c fl s1 spk = .ok s2)
    (hp : isP2sh spk = false) :
    verifyScript c fl scriptSig spk = (do checkTopTrue s2; verifyCleanStack fl s2) := by
  unfold verifyScript
  simp only [h1, h2, bind, Except.bind, hp, Bool.false_eq_true, and_false, if_false]


theorem ofNat_ne_lit {a : Nat} (ha : a < 256) (b : UInt8) (h : a ≠ b.toNat) : UInt8.ofNat a ≠ b := by
  intro he
  have := congrArg UInt8.toNat he
  rw [toNat_ofNat_lt ha] at this
  exact h this

theorem verify_p2pk (c : Ctx) (fl : Flags) (body : Bytes) (ht : UInt8) (key : Bytes)
    (hfl : fl.admissible = true) (htot : c.SigTotal) (hk : key.length < 0x4c) (hs : body.length + 1 < 0x4c)
    (hne : body.length + 1 ≠ key.length) :
    verifyScript c fl (pushData (body ++ [ht])) (p2pkScript key) =
      if c.env.sigCheck body key (p2pkScript key) ht.toNat then .ok () else .error .verify := by
  have hsl : (body ++ [ht]).length < 0x4c := by simpa using hs
  have hp : isP2sh (p2pkScript key) = false := by
    apply isP2sh_false_of_head
    simp only [p2pkScript, pushData, List.cons_append, List.getElem?_cons_zero, ne_eq, Option.some.injEq]
    exact ofNat_ne_lit (by omega) _ (by simp; omega)
  rw [verifyScript_plain c fl _ _ _ _ (evalScript_push c fl [] _ hsl (by simp))
    (evalScript_p2pk c fl body ht key htot hk hs hne) hp]
  cases c.env.sigCheck body key (p2pkScript key) ht.toNat
  · simp [checkTopTrue_empty, bind, Except.bind]
  · simp [checkTopTrue_one, verifyCleanStack_one fl _ hfl, bind, Except.bind]

/-! ### pay-to-pubkey-hash -/

theorem rawIter_p2pkh (h : Bytes) (hh : h.length < 0x4c) :
    rawIter (p2pkhScript h) =
      ([⟨0x76, none, 0⟩, ⟨0xa9, none, 1⟩, ⟨h.length, some h, 2⟩, ⟨0x88, none, h.length + 3⟩,
        ⟨0xac, none, h.length + 4⟩], none) := by
  unfold rawIter p2pkhScript
  simp only [List.cons_append, List.nil_append]
  rw [rawIterFrom_opcode _ 0x76 _ (by decide), rawIterFrom_opcode _ 0xa9 _ (by decide),
    rawIterFrom_push _ h _ hh, rawIterFrom_opcode _ 0x88 _ (by decide), rawIterFrom_opcode _ 0xac _ (by decide),
    rawIterFrom_nil]
  simp
  omega



theorem opDup_eval (x : Bytes) (rest alt : List Bytes) (pb nops : Nat) :
    opDup 0x76 ⟨x :: rest, alt, [], pb, nops⟩ = .ok ⟨x :: x :: rest, alt, [], pb, nops⟩ := by
  simp [opDup, checkArgs, getTop?, pyIdx, bind, Except.bind]

theorem hashTop_eval (sop : Nat) (f : Bytes → Bytes) (x : Bytes) (rest alt : List Bytes) (pb nops : Nat) :
    hashTop sop f ⟨x :: rest, alt, [], pb, nops⟩ = .ok ⟨f x :: rest, alt, [], pb, nops⟩ := by
  simp [hashTop, checkArgs, pop?, pyIdx, bind, Except.bind]

theorem opEqualVerify_eq (x : Bytes) (rest alt : List Bytes) (pb nops : Nat) :
    opEqualVerify 0x88 ⟨x :: x :: rest, alt, [], pb, nops⟩ = .ok ⟨rest, alt, [], pb, nops⟩ := by
  have h : ¬ rest.length + 1 + 1 < 2 := by omega
  simp [opEqualVerify, checkArgs, getTop?, pop?, pyIdx, bind, Except.bind, h]

theorem fad_p2pkh (cap : Captured) (h sig : Bytes) (hh : h.length < 0x4c) (hs : sig.length < 0x4c)
    (hne : sig.length ≠ h.length) :
    findAndDelete cap (p2pkhScript h) (pushData sig) = .ok (p2pkhScript h) := by
  apply fad_noop cap _ _ _ _ (rawIter_p2pkh h hh) rfl
  · intro o ho
    simp only [List.mem_cons, List.not_mem_nil, or_false] at ho
    have e0 : (p2pkhScript h)[0]? = some 0x76 := by simp [p2pkhScript]
    have e1 : (p2pkhScript h)[1]? = some 0xa9 := by simp [p2pkhScript]
    have e2 : (p2pkhScript h)[2]? = some (UInt8.ofNat h.length) := by simp [p2pkhScript, pushData]
    have e3 : (p2pkhScript h)[h.length + 3]? = some 0x88 := by
      simp [p2pkhScript, pushData]
    have e4 : (p2pkhScript h)[h.length + 4]? = some 0xac := by
      simp [p2pkhScript, pushData]
    rcases ho with rfl | rfl | rfl | rfl | rfl <;> apply slice_ne_of_head <;>
      simp only [e0, e1, e2, e3, e4, ne_eq, Option.some.injEq]
    · exact (ofNat_ne_lit (by omega) _ (by simp; omega)).symm
    · exact (ofNat_ne_lit (by omega) _ (by simp; omega)).symm
    · exact ofNat_ne (by omega) (by omega) (Ne.symm hne)
    · exact (ofNat_ne_lit (by omega) _ (by simp; omega)).symm
    · exact (ofNat_ne_lit (by omega) _ (by simp; omega)).symm
  · simp


/-- a scriptSig consisting of two direct pushes -/
theorem evalScript_push2 (c : Ctx) (fl : Flags) (d1 d2 : Bytes) (h1 : d1.length < 0x4c) (h2 : d2.length < 0x4c) :
    evalScript c fl [] (pushData d1 ++ pushData d2) = .ok [d2, d1] := by
  have hl : (pushData d1 ++ pushData d2).length ≤ 10000 := by simp [pushData]; omega
  have hit : rawIter (pushData d1 ++ pushData d2) =
      ([⟨d1.length, some d1, 0⟩, ⟨d2.length, some d2, d1.length + 1⟩], none) := by
    unfold rawIter
    have := rawIterFrom_push (0 + (d1.length + 1)) d2 [] h2
    rw [List.append_nil] at this
    rw [rawIterFrom_push 0 d1 _ h1, this, rawIterFrom_nil]
    simp
  have := evalScript_of_loop c fl [] _ _ ⟨[d2, d1], [], [], 0, 0⟩ hl hit
    (by rw [loop_cons _ _ _ _ _ _ _ (step_push c fl _ d1.length 0 d1 [] [] 0 0 h1 (by omega) (by simp)),
          loop_cons _ _ _ _ _ _ _ (step_push c fl _ d2.length _ d2 [d1] [] 0 0 h2 (by omega) (by simp)),
          loop_nil]) rfl
  exact this

/-- evaluation of `DUP HASH160 <h> EQUALVERIFY CHECKSIG` on `[key, sig]` when `h` is the hash of `key` -/
theorem evalScript_p2pkh (c : Ctx) (fl : Flags) (body : Bytes) (ht : UInt8) (key : Bytes)
    (htot : c.SigTotal) (hk : key.length < 0x4c) (hs : body.length + 1 < 0x4c)
    (hhl : (c.env.hashes.hash160 key).length = 20) (hne : body.length + 1 ≠ 20) :
    evalScript c fl [key, body ++ [ht]] (p2pkhScript (c.env.hashes.hash160 key)) =
      .ok [if c.env.sigCheck body key (p2pkhScript (c.env.hashes.hash160 key)) ht.toNat then [1] else []] := by
  generalize hh : c.env.hashes.hash160 key = h at *
  have hh4 : h.length < 0x4c := by omega
  have hl : (p2pkhScript h).length ≤ 10000 := by simp [p2pkhScript, pushData]; omega
  have hsl : (body ++ [ht]).length < 0x4c := by simpa using hs
  have hit := rawIter_p2pkh h hh4
  have hparse : (rawIter (p2pkhScript h)).2 = none := by rw [hit]
  let sig := body ++ [ht]
  have e := evalScript_of_loop c fl [key, sig] (p2pkhScript h) _
    ⟨[if c.env.sigCheck body key (p2pkhScript h) ht.toNat then [1] else []], [], [], 0, 4⟩ hl hit ?_ rfl
  · exact e
  · rw [loop_cons _ _ _ _ _ _ ⟨[key, key, sig], [], [], 0, 1⟩
      (step_opcode c fl _ 0x76 0 _ _ 0 0 _ (by omega) (by decide) (by omega)
        (by rw [execOp_dup]; exact opDup_eval key [sig] [] 0 1) (by simp))]
    rw [loop_cons _ _ _ _ _ _ ⟨[h, key, sig], [], [], 0, 2⟩
      (step_opcode c fl _ 0xa9 1 _ _ 0 1 _ (by omega) (by decide) (by omega)
        (by rw [execOp_hash160, hashTop_eval, hh]) (by simp))]
    rw [loop_cons _ _ _ _ _ _ _ (step_push c fl _ h.length 2 h [h, key, sig] [] 0 2 hh4 (by omega) (by simp))]
    rw [loop_cons _ _ _ _ _ _ ⟨[key, sig], [], [], 0, 3⟩
      (step_opcode c fl _ 0x88 _ _ _ 0 2 _ (by omega) (by decide) (by omega)
        (by rw [execOp_equalverify]; exact opEqualVerify_eq h [key, sig] [] 0 3) (by simp))]
    rw [loop_cons _ _ _ _ _ _
      ⟨[if c.env.sigCheck body key (p2pkhScript h) ht.toNat then [1] else []], [], [], 0, 4⟩, loop_nil]
    apply step_opcode
    · omega
    · decide
    · omega
    · rw [execOp_checksig]
      exact opCheckSig_eval c (p2pkhScript h) key sig [] [] 0 4 (p2pkhScript h) _ hsl
        (by rw [List.drop_zero]; exact fad_p2pkh _ h sig hh4 hsl (by simp [sig]; omega))
        (checkSig_ok c _ body ht key _ htot hl hparse)
    · simp

theorem verify_p2pkh (c : Ctx) (fl : Flags) (body : Bytes) (ht : UInt8) (key : Bytes)
    (hfl : fl.admissible = true) (htot : c.SigTotal) (hk : key.length < 0x4c) (hs : body.length + 1 < 0x4c)
    (hhl : (c.env.hashes.hash160 key).length = 20) (hne : body.length + 1 ≠ 20) :
    verifyScript c fl (pushData (body ++ [ht]) ++ pushData key) (p2pkhScript (c.env.hashes.hash160 key)) =
      if c.env.sigCheck body key (p2pkhScript (c.env.hashes.hash160 key)) ht.toNat then .ok ()
      else .error .verify := by
  have hsl : (body ++ [ht]).length < 0x4c := by simpa using hs
  have hp : isP2sh (p2pkhScript (c.env.hashes.hash160 key)) = false := by
    apply isP2sh_false_of_head
    simp [p2pkhScript]
  rw [verifyScript_plain c fl _ _ _ _ (evalScript_push2 c fl _ _ hsl hk)
    (evalScript_p2pkh c fl body ht key htot hk hs hhl hne) hp]
  cases c.env.sigCheck body key (p2pkhScript (c.env.hashes.hash160 key)) ht.toNat
  · simp [checkTopTrue_empty, bind, Except.bind]
  · simp [checkTopTrue_one, verifyCleanStack_one fl _ hfl, bind, Except.bind]


/-! ### P2SH wrapping -/

theorem rawIter_p2sh (h : Bytes) (hh : h.length < 0x4c) :
    rawIter (p2shScript h) = ([⟨0xa9, none, 0⟩, ⟨h.length, some h, 1⟩, ⟨0x87, none, h.length + 2⟩], none) := by
  unfold rawIter p2shScript
  simp only [List.cons_append, List.nil_append]
  rw [rawIterFrom_opcode _ 0xa9 _ (by decide), rawIterFrom_push _ h _ hh, rawIterFrom_opcode _ 0x87 _ (by decide),
    rawIterFrom_nil]
  simp
  omega

theorem isP2sh_p2sh (h : Bytes) (hh : h.length = 20) : isP2sh (p2shScript h) = true := by
  unfold isP2sh p2shScript pushData
  have e22 : ([0xa9] ++ UInt8.ofNat h.length :: h ++ [0x87])[22]? = some 0x87 := by
    simp [hh]
  rw [e22]
  simp [hh]

theorem opEqual_eval (x y : Bytes) (rest alt : List Bytes) (pb nops : Nat) :
    opEqual 0x87 ⟨x :: y :: rest, alt, [], pb, nops⟩ =
      .ok ⟨(if x = y then [1] else []) :: rest, alt, [], pb, nops⟩ := by
  have h : ¬ rest.length + 1 + 1 < 2 := by omega
  simp [opEqual, checkArgs, pop?, pyIdx, bind, Except.bind, h]

/-- the P2SH scriptPubKey on a stack whose top is the serialised script with the committed hash -/
theorem evalScript_p2sh (c : Ctx) (fl : Flags) (redeem : Bytes) (rest : List Bytes)
    (hhl : (c.env.hashes.hash160 redeem).length = 20) (hsz : rest.length + 2 ≤ 1000) :
    evalScript c fl (redeem :: rest) (p2shScript (c.env.hashes.hash160 redeem)) = .ok ([1] :: rest) := by
  generalize hh : c.env.hashes.hash160 redeem = h at *
  have hh4 : h.length < 0x4c := by omega
  have hl : (p2shScript h).length ≤ 10000 := by simp [p2shScript, pushData]; omega
  have e := evalScript_of_loop c fl (redeem :: rest) (p2shScript h) _ ⟨[1] :: rest, [], [], 0, 2⟩ hl
    (rawIter_p2sh h hh4) ?_ rfl
  · exact e
  · rw [loop_cons _ _ _ _ _ _ ⟨h :: rest, [], [], 0, 1⟩
      (step_opcode c fl _ 0xa9 0 _ _ 0 0 _ (by omega) (by decide) (by omega)
        (by rw [execOp_hash160, hashTop_eval, hh]) (by simp; omega))]
    rw [loop_cons _ _ _ _ _ _ _ (step_push c fl _ h.length 1 h (h :: rest) [] 0 1 hh4 (by omega) (by simp; omega))]
    rw [loop_cons _ _ _ _ _ _ ⟨[1] :: rest, [], [], 0, 2⟩, loop_nil]
    apply step_opcode
    · omega
    · decide
    · omega
    · rw [execOp_equal, opEqual_eval]; simp
    · simp; omega

theorem isPushOnly_of (s : Bytes) (ops : List RawOp) (hit : rawIter s = (ops, none))
    (h : ∀ o ∈ ops, o.opcode ≤ 0x60) : isPushOnly s = true := by
  unfold isPushOnly
  simp only [hit, Option.isNone_none]
  have : ops.any (fun o => decide (o.opcode > 0x60)) = false := by
    rw [List.any_eq_false]
    intro o ho
    have := h o ho
    simp; omega
  rw [this]; rfl

/-- the P2SH branch of VerifyScript -/
theorem verifyScript_p2sh (c : Ctx) (fl : Flags) (scriptSig redeem : Bytes) (rest s2 : List Bytes)
    (hp : fl.p2sh = true) (hpo : isPushOnly scriptSig = true)
    (hhl : (c.env.hashes.hash160 redeem).length = 20) (hsz : rest.length + 2 ≤ 1000)
    (h1 : evalScript c fl [] scriptSig = .ok (redeem :: rest))
    (h2 : evalScript c fl rest redeem = .ok s2) :
    verifyScript c fl scriptSig (p2shScript (c.env.hashes.hash160 redeem)) =
      (do checkTopTrue s2; verifyCleanStack fl s2) := by
  unfold verifyScript
  simp only [h1, evalScript_p2sh c fl redeem rest hhl hsz, bind, Except.bind, hp, if_true, checkTopTrue_one,
    isP2sh_p2sh _ hhl, and_self, verifyP2sh, hpo, Bool.not_true, Bool.false_eq_true, if_false,
    List.length_cons, pop?, pyIdx, h2]
  simp only [Nat.add_one_ne_zero, if_false]
  cases checkTopTrue s2 <;> rfl



theorem rawIter_push2 (d1 d2 : Bytes) (h1 : d1.length < 0x4c) (h2 : d2.length < 0x4c) :
    rawIter (pushData d1 ++ pushData d2) =
      ([⟨d1.length, some d1, 0⟩, ⟨d2.length, some d2, d1.length + 1⟩], none) := by
  unfold rawIter
  have := rawIterFrom_push (0 + (d1.length + 1)) d2 [] h2
  rw [List.append_nil] at this
  rw [rawIterFrom_push 0 d1 _ h1, this, rawIterFrom_nil]
  simp

theorem rawIter_push3 (d1 d2 d3 : Bytes) (h1 : d1.length < 0x4c) (h2 : d2.length < 0x4c) (h3 : d3.length < 0x4c) :
    rawIter (pushData d1 ++ pushData d2 ++ pushData d3) =
      ([⟨d1.length, some d1, 0⟩, ⟨d2.length, some d2, d1.length + 1⟩,
        ⟨d3.length, some d3, d1.length + 1 + (d2.length + 1)⟩], none) := by
  unfold rawIter
  have := rawIterFrom_push (0 + (d1.length + 1) + (d2.length + 1)) d3 [] h3
  rw [List.append_nil] at this
  rw [List.append_assoc, rawIterFrom_push 0 d1 _ h1, rawIterFrom_push _ d2 _ h2, this, rawIterFrom_nil]
  simp

theorem evalScript_push3 (c : Ctx) (fl : Flags) (d1 d2 d3 : Bytes) (h1 : d1.length < 0x4c) (h2 : d2.length < 0x4c)
    (h3 : d3.length < 0x4c) :
    evalScript c fl [] (pushData d1 ++ pushData d2 ++ pushData d3) = .ok [d3, d2, d1] := by
  have hl : (pushData d1 ++ pushData d2 ++ pushData d3).length ≤ 10000 := by simp [pushData]; omega
  exact evalScript_of_loop c fl [] _ _ ⟨[d3, d2, d1], [], [], 0, 0⟩ hl (rawIter_push3 d1 d2 d3 h1 h2 h3)
    (by rw [loop_cons _ _ _ _ _ _ _ (step_push c fl _ d1.length 0 d1 [] [] 0 0 h1 (by omega) (by simp)),
          loop_cons _ _ _ _ _ _ _ (step_push c fl _ d2.length _ d2 [d1] [] 0 0 h2 (by omega) (by simp)),
          loop_cons _ _ _ _ _ _ _ (step_push c fl _ d3.length _ d3 [d2, d1] [] 0 0 h3 (by omega) (by simp)),
          loop_nil]) rfl

/-- P2SH-wrapped pay-to-pubkey-hash -/
theorem verify_p2sh_p2pkh (c : Ctx) (fl : Flags) (body : Bytes) (ht : UInt8) (key : Bytes)
    (hfl : fl.admissible = true) (hp : fl.p2sh = true) (htot : c.SigTotal) (hk : key.length < 0x4c)
    (hs : body.length + 1 < 0x4c) (hhl : ∀ x, (c.env.hashes.hash160 x).length = 20) (hne : body.length + 1 ≠ 20) :
    let redeem := p2pkhScript (c.env.hashes.hash160 key)
    verifyScript c fl (pushData (body ++ [ht]) ++ pushData key ++ pushData redeem)
        (p2shScript (c.env.hashes.hash160 redeem)) =
      if c.env.sigCheck body key redeem ht.toNat then .ok () else .error .verify := by
  intro redeem
  have hsl : (body ++ [ht]).length < 0x4c := by simpa using hs
  have hrl : redeem.length < 0x4c := by
    simp [redeem, p2pkhScript, pushData, hhl key]
  have hpo : isPushOnly (pushData (body ++ [ht]) ++ pushData key ++ pushData redeem) = true := by
    apply isPushOnly_of _ _ (rawIter_push3 _ _ _ hsl hk hrl)
    intro o ho
    simp only [List.mem_cons, List.not_mem_nil, or_false] at ho
    rcases ho with rfl | rfl | rfl <;> simp only <;> omega
  rw [verifyScript_p2sh c fl _ redeem [key, body ++ [ht]] _ hp hpo (hhl redeem) (by simp)
    (evalScript_push3 c fl _ _ _ hsl hk hrl) (evalScript_p2pkh c fl body ht key htot hk hs (hhl key) hne)]
  cases c.env.sigCheck body key redeem ht.toNat
  · simp [checkTopTrue_empty, bind, Except.bind]
  · simp [checkTopTrue_one, verifyCleanStack_one fl _ hfl, bind, Except.bind]

/-- P2SH-wrapped pay-to-pubkey -/
theorem verify_p2sh_p2pk (c : Ctx) (fl : Flags) (body : Bytes) (ht : UInt8) (key : Bytes)
    (hfl : fl.admissible = true) (hp : fl.p2sh = true) (htot : c.SigTotal) (hk : key.length + 2 < 0x4c)
    (hs : body.length + 1 < 0x4c) (hhl : ∀ x, (c.env.hashes.hash160 x).length = 20)
    (hne : body.length + 1 ≠ key.length) :
    verifyScript c fl (pushData (body ++ [ht]) ++ pushData (p2pkScript key))
        (p2shScript (c.env.hashes.hash160 (p2pkScript key))) =
      if c.env.sigCheck body key (p2pkScript key) ht.toNat then .ok () else .error .verify := by
  have hsl : (body ++ [ht]).length < 0x4c := by simpa using hs
  have hrl : (p2pkScript key).length < 0x4c := by
    simp [p2pkScript, pushData]; omega
  have hpo : isPushOnly (pushData (body ++ [ht]) ++ pushData (p2pkScript key)) = true := by
    apply isPushOnly_of _ _ (rawIter_push2 _ _ hsl hrl)
    intro o ho
    simp only [List.mem_cons, List.not_mem_nil, or_false] at ho
    rcases ho with rfl | rfl <;> simp only <;> omega
  rw [verifyScript_p2sh c fl _ (p2pkScript key) [body ++ [ht]] _ hp hpo (hhl _) (by simp)
    (evalScript_push2 c fl _ _ hsl hrl) (evalScript_p2pk c fl body ht key htot (by omega) hs hne)]
  cases c.env.sigCheck body key (p2pkScript key) ht.toNat
  · simp [checkTopTrue_empty, bind, Except.bind]
  · simp [checkTopTrue_one, verifyCleanStack_one fl _ hfl, bind, Except.bind]


/-! ### multisig: signatures matched to keys in order -/

theorem _root_.BtcVerif.Spec.Templates.Matching.tail {chk : Bytes → Bytes → Bool} {s : Bytes} {ss ks : List Bytes}
    (h : Matching chk (s :: ss) ks) : Matching chk ss ks := by
  generalize hl : s :: ss = l at h
  induction h with
  | nil ks => cases hl
  | take _ hm _ => cases hl; exact .skip hm
  | skip _ ih => exact .skip (ih hl)

theorem greedy_of_matching {chk : Bytes → Bytes → Bool} : ∀ (ks ss : List Bytes),
    Matching chk ss ks → greedy chk ss ks = true := by
  intro ks
  induction ks with
  | nil =>
    intro ss h
    cases h
    rfl
  | cons k ks ih =>
    intro ss h
    cases ss with
    | nil => rfl
    | cons s ss =>
      simp only [greedy]
      split
      · apply ih
        cases h with
        | take _ hm => exact hm
        | skip hm => exact hm.tail
      · rename_i hc
        apply ih
        cases h with
        | take hk _ => exact absurd hk hc
        | skip hm => exact hm

theorem matching_of_greedy {chk : Bytes → Bytes → Bool} : ∀ (ks ss : List Bytes),
    greedy chk ss ks = true → Matching chk ss ks := by
  intro ks
  induction ks with
  | nil =>
    intro ss h
    cases ss with
    | nil => exact .nil _
    | cons s ss => simp [greedy] at h
  | cons k ks ih =>
    intro ss h
    cases ss with
    | nil => exact .nil _
    | cons s ss =>
      simp only [greedy] at h
      split at h
      · rename_i hc; exact .take hc (ih _ h)
      · exact .skip (ih _ h)

theorem greedy_iff_matching (chk : Bytes → Bytes → Bool) (ss ks : List Bytes) :
    greedy chk ss ks = true ↔ Matching chk ss ks :=
  ⟨matching_of_greedy ks ss, greedy_of_matching ks ss⟩

theorem greedy_too_many (chk : Bytes → Bytes → Bool) : ∀ (ks ss : List Bytes), ss.length > ks.length →
    greedy chk ss ks = false := by
  intro ks
  induction ks with
  | nil => intro ss h; cases ss with
    | nil => simp at h
    | cons s ss => rfl
  | cons k ks ih =>
    intro ss h
    cases ss with
    | nil => simp at h
    | cons s ss =>
      simp only [greedy]
      split
      · apply ih; simp at h ⊢; omega
      · apply ih; simp at h ⊢; omega

theorem _root_.BtcVerif.Spec.Templates.Matching.append {chk : Bytes → Bytes → Bool} {a b c d : List Bytes}
    (h1 : Matching chk a b) (h2 : Matching chk c d) : Matching chk (a ++ c) (b ++ d) := by
  induction h1 with
  | nil ks =>
    induction ks with
    | nil => exact h2
    | cons k ks ih => exact .skip ih
  | take hk _ ih => exact .take hk ih
  | skip _ ih => exact .skip ih

/-- order-preserving assignments survive reversing both lists -/
theorem _root_.BtcVerif.Spec.Templates.Matching.reverse {chk : Bytes → Bytes → Bool} {ss ks : List Bytes} (h : Matching chk ss ks) :
    Matching chk ss.reverse ks.reverse := by
  induction h with
  | nil ks => exact .nil _
  | @take s k ss ks hk _ ih =>
    rw [List.reverse_cons, List.reverse_cons]
    exact ih.append (.take hk (.nil []))
  | @skip k ss ks _ ih =>
    rw [List.reverse_cons]
    have := ih.append (Matching.skip (k := k) (Matching.nil (chk := chk) []))
    simpa using this


theorem checkSig_total (c : Ctx) (cap : Captured) (sig key sc : Bytes)
    (htot : c.SigTotal) (hlen : sc.length ≤ MAX_SCRIPT_SIZE) (hparse : (rawIter sc).2 = none) :
    checkSig c cap sig key sc = .ok (chkSig c.env sc sig key) := by
  unfold checkSig chkSig
  cases hs : sig.getLast? with
  | none =>
    have : sig = [] := by simpa using hs
    subst this
    simp
  | some ht =>
    have h1 : ¬ sig.length = 0 := by
      intro h
      have : sig = [] := List.length_eq_zero_iff.mp h
      subst this
      simp at hs
    obtain ⟨d, hd⟩ := htot.total sc ht.toNat hlen ht.toNat_lt hparse
    simp only [h1, if_false, hd, Ctx.env]

theorem getTop?_nat {α} (l : List α) (j : Nat) : getTop? l ((j : Int) + 1) = l[j]? := by
  unfold getTop?
  rw [if_pos (by omega)]
  congr 1
  omega

/-- the `while success and sigs_count > 0` loop computes `greedy` (OP_CHECKMULTISIG, not the VERIFY form) -/
theorem msLoop_greedy (c : Ctx) (script : Bytes) (st : St) (chk : Bytes → Bytes → Bool)
    (hchk : ∀ s k, checkSig c st.cap s k script = .ok (chk s k)) :
    ∀ (ks ss : List Bytes) (s : Bytes) (isig ikey : Nat),
      (s :: ss).length ≤ ks.length →
      (∀ j, j < ks.length → st.stack[ikey + j]? = ks[j]?) →
      (∀ j, j < (s :: ss).length → st.stack[isig + j]? = (s :: ss)[j]?) →
      msLoop c 0xae script st ((isig : Int) + 1) ((s :: ss).length : Nat) ((ikey : Int) + 1) (ks.length : Nat) =
        .ok (greedy chk (s :: ss) ks) := by
  intro ks
  induction ks with
  | nil => intro ss s _ _ h; simp at h
  | cons k ks ih =>
    intro ss s isig ikey hlen hk hs
    rw [msLoop]
    have e1 : getTop? st.stack ((isig : Int) + 1) = some s := by
      rw [getTop?_nat]; have := hs 0 (by simp); simpa using this
    have e2 : getTop? st.stack ((ikey : Int) + 1) = some k := by
      rw [getTop?_nat]; have := hk 0 (by simp); simpa using this
    simp only [e1, e2, pyIdx, bind, Except.bind, hchk s k]
    cases hc : chk s k
    · -- no match: the key is used up
      simp only [Bool.false_eq_true, if_false, greedy, hc]
      by_cases hgt : ((s :: ss).length : Int) > ((k :: ks).length : Int) - 1
      · have : greedy chk (s :: ss) ks = false := greedy_too_many chk ks (s :: ss) (by simp at hgt ⊢; omega)
        rw [this]
        simp only [List.length_cons] at hgt ⊢
        rw [if_pos (by push_cast at hgt ⊢; omega)]
        simp
      · simp only [List.length_cons] at hgt ⊢
        rw [if_neg (by push_cast at hgt ⊢; omega)]
        rw [dif_pos (by push_cast; omega)]
        have := ih ss s isig (ikey + 1) (by simp at hgt hlen ⊢; omega)
          (fun j hj => by
            have := hk (j + 1) (by simp; omega)
            simp only [List.getElem?_cons_succ] at this
            rw [← this]; congr 1; omega)
          hs
        simp only [List.length_cons] at this
        rw [← this]
        congr 1
        all_goals first | omega | (push_cast; omega) | (simp only [List.length_cons]; push_cast; omega) | rfl
    · -- match: signature and key are used up
      simp only [if_true, greedy, hc]
      simp only [List.length_cons] at hlen ⊢
      rw [if_neg (by push_cast; omega)]
      cases ss with
      | nil =>
        simp [greedy]
      | cons s' ss' =>
        rw [dif_pos (by simp only [List.length_cons]; push_cast; omega)]
        have := ih ss' s' (isig + 1) (ikey + 1) (by simp at hlen ⊢; omega)
          (fun j hj => by
            have := hk (j + 1) (by simp; omega)
            simp only [List.getElem?_cons_succ] at this
            rw [← this]; congr 1; omega)
          (fun j hj => by
            have := hs (j + 1) (by simp at hj ⊢; omega)
            simp only [List.getElem?_cons_succ] at this
            rw [← this]; congr 1; omega)
        simp only [List.length_cons] at this
        rw [← this]
        congr 1
        all_goals first | omega | (push_cast; omega) | (simp only [List.length_cons]; push_cast; omega) | rfl


theorem popN_eq (n : Nat) : ∀ (l : List Bytes), n ≤ l.length → popN n l = .ok (l.drop n) := by
  induction n with
  | zero => intro l _; rfl
  | succ n ih =>
    intro l h
    cases l with
    | nil => simp at h
    | cons a l =>
      simp only [popN, pop?, pyIdx, bind, Except.bind, List.drop_succ_cons]
      exact ih l (by simp at h; omega)

/-- the loop that removes the signatures from the script code, when none of them occurs in it -/
theorem msDropSigs_noop (st : St) (script : Bytes) (isig : Nat) : ∀ (n k : Nat),
    (∀ j, j < n → ∃ sig, st.stack[isig + k + j]? = some sig ∧ sig.length < 0x4c ∧
        findAndDelete st.cap script (pushData sig) = .ok script) →
    msDropSigs st ((isig : Int) + 1) n k script = .ok script := by
  intro n
  induction n with
  | zero => intro k _; rfl
  | succ n ih =>
    intro k h
    obtain ⟨sig, h1, h2, h3⟩ := h 0 (by omega)
    have e : getTop? st.stack ((isig : Int) + 1 + (k : Int)) = some sig := by
      have : ((isig : Int) + 1 + (k : Int)) = ((isig + k : Nat) : Int) + 1 := by push_cast; omega
      rw [this, getTop?_nat]
      simpa using h1
    simp only [msDropSigs, e, pyIdx, bind, Except.bind, encodeOpPushdata_direct sig h2, h3]
    apply ih
    intro j hj
    obtain ⟨s', a, b, d⟩ := h (j + 1) (by omega)
    exact ⟨s', by rw [← a]; congr 1; omega, b, d⟩

theorem vch2bn_byte (n : Nat) (h2 : n ≤ 127) : vch2bn [UInt8.ofNat n] = .ok (n : Int) := by
  have ht : (UInt8.ofNat n).toNat = n := toNat_ofNat_lt (by omega)
  simp [vch2bn, ht, beNat]
  omega

theorem castToBigNum_byte (n : Nat) (h2 : n ≤ 127) (st : St) : castToBigNum [UInt8.ofNat n] st = .ok (n : Int) := by
  simp [castToBigNum, vch2bn_byte n h2, bind, Except.bind, MAX_NUM_SIZE]

section stackshape
variable (a b d : Bytes) (rk rs : List Bytes)

theorem shape_len : (a :: (rk ++ b :: (rs ++ [d]))).length = rk.length + rs.length + 3 := by
  simp; omega

theorem shape_key (j : Nat) (h : j < rk.length) : (a :: (rk ++ b :: (rs ++ [d])))[1 + j]? = rk[j]? := by
  rw [Nat.add_comm, List.getElem?_cons_succ, List.getElem?_append_left h]

theorem shape_m : (a :: (rk ++ b :: (rs ++ [d])))[rk.length + 1]? = some b := by
  rw [List.getElem?_cons_succ, List.getElem?_append_right (Nat.le_refl _)]
  simp

theorem shape_sig (j : Nat) (h : j < rs.length) : (a :: (rk ++ b :: (rs ++ [d])))[rk.length + 2 + j]? = rs[j]? := by
  have : rk.length + 2 + j = (rk.length + 1 + j) + 1 := by omega
  rw [this, List.getElem?_cons_succ, List.getElem?_append_right (by omega)]
  have : rk.length + 1 + j - rk.length = j + 1 := by omega
  rw [this, List.getElem?_cons_succ, List.getElem?_append_left h]

theorem shape_drop : (a :: (rk ++ b :: (rs ++ [d]))).drop (rk.length + rs.length + 2) = [d] := by
  have : a :: (rk ++ b :: (rs ++ [d])) = (a :: rk ++ b :: rs) ++ [d] := by simp
  rw [this, List.drop_append_of_le_length (by simp; omega)]
  have : (a :: rk ++ b :: rs).length = rk.length + rs.length + 2 := by simp; omega
  rw [← this, List.drop_length]
  rfl

end stackshape


/-- `_CheckMultiSig` (OP_CHECKMULTISIG) on the stack  n, keys (last key on top), m, signatures (last
    signature on top), dummy -/
theorem checkMultiSig_eval (c : Ctx) (fl : Flags) (sc : Bytes) (rk rs : List Bytes) (alt : List Bytes)
    (pb nops : Nat) (chk : Bytes → Bytes → Bool)
    (hn : rk.length ≤ 20) (hm1 : 1 ≤ rs.length) (hm : rs.length ≤ rk.length) (hops : nops + rk.length ≤ 201)
    (hsl : ∀ s ∈ rs, s.length < 0x4c)
    (hfad : ∀ s ∈ rs, ∀ cap, findAndDelete cap sc (pushData s) = .ok sc)
    (hchk : ∀ cap s k, checkSig c cap s k sc = .ok (chk s k)) :
    checkMultiSig c fl 0xae sc
        ⟨[UInt8.ofNat rk.length] :: (rk ++ [UInt8.ofNat rs.length] :: (rs ++ [[]])), alt, [], pb, nops⟩ =
      .ok ⟨[if greedy chk rs rk then [1] else []], alt, [], pb, nops + rk.length⟩ := by
  obtain ⟨s0, ss0, hrs⟩ : ∃ s0 ss0, rs = s0 :: ss0 := by
    cases rs with
    | nil => simp at hm1
    | cons a b => exact ⟨a, b, rfl⟩
  obtain ⟨stack, hstack⟩ : ∃ stack, stack = [UInt8.ofNat rk.length] :: (rk ++ [UInt8.ofNat rs.length] :: (rs ++ [[]])) :=
    ⟨_, rfl⟩
  rw [← hstack]
  have hlen : stack.length = rk.length + rs.length + 3 := by rw [hstack]; exact shape_len _ _ _ _ _
  unfold checkMultiSig
  have c1 : ¬ stack.length < 1 := by omega
  have g1 : getTop? stack 1 = some [UInt8.ofNat rk.length] := by simp [getTop?, hstack]
  simp only [c1, if_false, g1, pyIdx, bind, Except.bind, castToBigNum_byte rk.length (by omega)]
  have c2 : ¬ ((rk.length : Int) < 0 ∨ (rk.length : Int) > 20) := by omega
  have c3 : ¬ (nops + (rk.length : Int).toNat > MAX_OPS_PER_SCRIPT) := by
    simp only [MAX_OPS_PER_SCRIPT, Int.toNat_natCast]; omega
  have c4 : ¬ ((stack.length : Int) < 2 + (rk.length : Int)) := by omega
  have g2 : getTop? stack (2 + (rk.length : Int)) = some [UInt8.ofNat rs.length] := by
    have : (2 + (rk.length : Int)) = ((rk.length + 1 : Nat) : Int) + 1 := by push_cast; omega
    rw [this, getTop?_nat, hstack]
    exact shape_m _ _ _ _ _
  simp only [c2, if_false, c3, c4, g2, castToBigNum_byte rs.length (by omega)]
  have c5 : ¬ ((rs.length : Int) < 0 ∨ (rs.length : Int) > (rk.length : Int)) := by omega
  have c6 : ¬ ((stack.length : Int) < 2 + (rk.length : Int) + 1 + (rs.length : Int) - 1) := by omega
  have c7 : ¬ ((stack.length : Int) < 2 + (rk.length : Int) + 1 + (rs.length : Int)) := by omega
  simp only [c5, if_false, c6, c7, Int.toNat_natCast]
  -- the signatures are not part of the script code
  have hdrop : msDropSigs ⟨stack, alt, [], pb, nops + rk.length⟩ (2 + (rk.length : Int) + 1) rs.length 0 sc = .ok sc := by
    have : (2 + (rk.length : Int) + 1) = ((rk.length + 2 : Nat) : Int) + 1 := by push_cast; omega
    rw [this]
    apply msDropSigs_noop
    intro j hj
    have hj' : rs[j]? = some rs[j] := List.getElem?_eq_getElem hj
    refine ⟨rs[j], ?_, hsl _ (List.getElem_mem hj), hfad _ (List.getElem_mem hj) _⟩
    simp only [Nat.add_zero]
    rw [← hj', hstack]
    exact shape_sig _ _ _ _ _ j hj
  simp only [hdrop]
  -- the matching loop
  have hpos : (rs.length : Int) > 0 := by omega
  have hloop : msLoop c 0xae sc ⟨stack, alt, [], pb, nops + rk.length⟩ (2 + (rk.length : Int) + 1) (rs.length : Int) 2
      (rk.length : Int) = .ok (greedy chk rs rk) := by
    have e1 : (2 + (rk.length : Int) + 1) = ((rk.length + 2 : Nat) : Int) + 1 := by push_cast; omega
    have e2 : (2 : Int) = ((1 : Nat) : Int) + 1 := by rfl
    rw [e1, e2, hrs]
    apply msLoop_greedy c sc _ chk (fun s k => hchk _ s k) rk ss0 s0 (rk.length + 2) 1
    · rw [← hrs]; exact hm
    · intro j hj
      simp only [hstack]
      exact shape_key _ _ _ _ _ j hj
    · intro j hj
      rw [← hrs] at hj ⊢
      simp only [hstack]
      exact shape_sig _ _ _ _ _ j hj
  simp only [hpos, if_true, hloop]
  -- clean up the stack
  have hpop : popN (2 + (rk.length : Int) + 1 + (rs.length : Int) - 1).toNat stack = .ok [[]] := by
    have : (2 + (rk.length : Int) + 1 + (rs.length : Int) - 1).toNat = rk.length + rs.length + 2 := by omega
    rw [this, popN_eq _ _ (by omega), hstack]
    exact congrArg _ (shape_drop _ _ _ _ _)
  simp only [hpop, nullDummyCheck, List.length_cons, List.length_nil, getTop?, pop?]
  cases fl.nullDummy <;> simp [pyIdx, bind, Except.bind]


/-! ### scripts made of a list of direct pushes -/

def pushOps (idx : Nat) : List Bytes → List RawOp
  | [] => []
  | d :: ds => ⟨d.length, some d, idx⟩ :: pushOps (idx + (d.length + 1)) ds

theorem pushAll_cons (d : Bytes) (ds : List Bytes) : pushAll (d :: ds) = pushData d ++ pushAll ds := by
  simp [pushAll]

theorem pushData_length (d : Bytes) : (pushData d).length = d.length + 1 := by simp [pushData]

theorem rawIterFrom_pushAll (rest : Bytes) : ∀ (ds : List Bytes) (idx : Nat), (∀ d ∈ ds, d.length < 0x4c) →
    rawIterFrom idx (pushAll ds ++ rest) =
      (pushOps idx ds ++ (rawIterFrom (idx + (pushAll ds).length) rest).1,
       (rawIterFrom (idx + (pushAll ds).length) rest).2) := by
  intro ds
  induction ds with
  | nil => intro idx _; simp [pushAll, pushOps]
  | cons d ds ih =>
    intro idx h
    rw [pushAll_cons, List.append_assoc, rawIterFrom_push idx d _ (h d List.mem_cons_self),
      ih _ (fun d' hd' => h d' (List.mem_cons_of_mem _ hd'))]
    simp only [pushOps, List.cons_append, List.length_append, pushData_length]
    have : idx + (d.length + 1) + (pushAll ds).length = idx + (d.length + 1 + (pushAll ds).length) := by omega
    rw [this]

theorem loop_pushOps (c : Ctx) (fl : Flags) (script : Bytes) (ops' : List RawOp) (alt : List Bytes) (pb nops : Nat) :
    ∀ (ds : List Bytes) (idx : Nat) (stack : List Bytes), (∀ d ∈ ds, d.length < 0x4c) →
      stack.length + ds.length + alt.length ≤ 1000 →
      loop c fl script none (pushOps idx ds ++ ops') ⟨stack, alt, [], pb, nops⟩ =
        loop c fl script none ops' ⟨ds.reverse ++ stack, alt, [], pb, nops⟩ := by
  intro ds
  induction ds with
  | nil => intro idx stack _ _; rfl
  | cons d ds ih =>
    intro idx stack h hsz
    simp only [pushOps, List.cons_append]
    have hd := h d List.mem_cons_self
    rw [loop_cons _ _ _ _ _ _ _ (step_push c fl script d.length idx d stack alt pb nops hd (by omega)
      (by simp at hsz; omega))]
    rw [ih _ (d :: stack) (fun d' hd' => h d' (List.mem_cons_of_mem _ hd')) (by simp at hsz ⊢; omega)]
    simp

theorem pushOps_facts (post : Bytes) : ∀ (ds : List Bytes) (pre : Bytes), (∀ d ∈ ds, d.length < 0x4c) →
    ∀ o ∈ pushOps pre.length ds,
      (pre ++ (pushAll ds ++ post))[o.sopIdx]? = some (UInt8.ofNat o.opcode) ∧ pre.length ≤ o.sopIdx ∧
      o.sopIdx < pre.length + (pushAll ds).length ∧ (∃ d ∈ ds, o.opcode = d.length) := by
  intro ds
  induction ds with
  | nil => intro pre _ o ho; simp [pushOps] at ho
  | cons d ds ih =>
    intro pre h o ho
    simp only [pushOps, List.mem_cons] at ho
    rcases ho with rfl | ho
    · refine ⟨?_, Nat.le_refl _, ?_, d, List.mem_cons_self, rfl⟩
      · rw [pushAll_cons, List.getElem?_append_right (Nat.le_refl _)]
        simp [pushData]
      · rw [pushAll_cons]; simp [pushData]
    · have e : pre.length + (d.length + 1) = (pre ++ pushData d).length := by simp [pushData]
      rw [e] at ho
      obtain ⟨a, b, c', d', hd', e'⟩ := ih (pre ++ pushData d) (fun x hx => h x (List.mem_cons_of_mem _ hx)) o ho
      refine ⟨?_, ?_, ?_, d', List.mem_cons_of_mem _ hd', e'⟩
      · rw [pushAll_cons]; simpa [List.append_assoc] using a
      · simp [pushData] at b; omega
      · rw [pushAll_cons]; simp [pushData] at c' ⊢; omega

theorem pushOps_sorted : ∀ (ds : List Bytes) (idx : Nat),
    List.Pairwise (fun a b : RawOp => a.sopIdx ≤ b.sopIdx) (pushOps idx ds) ∧ ∀ o ∈ pushOps idx ds, idx ≤ o.sopIdx := by
  intro ds
  induction ds with
  | nil => intro idx; simp [pushOps]
  | cons d ds ih =>
    intro idx
    obtain ⟨h1, h2⟩ := ih (idx + (d.length + 1))
    simp only [pushOps, List.pairwise_cons, List.mem_cons]
    refine ⟨⟨fun o ho => ?_, h1⟩, ?_⟩
    · have := h2 o ho; simp; omega
    · rintro o (rfl | ho)
      · exact Nat.le_refl _
      · have := h2 o ho; omega


/-! ### bare multisig -/

/-- the operation raw_iter yields for `numPush n` -/
def numOp (n idx : Nat) : RawOp :=
  if n = 0 then ⟨0, some [], idx⟩ else if n ≤ 16 then ⟨0x50 + n, none, idx⟩ else ⟨1, some [UInt8.ofNat n], idx⟩

theorem opN_toNat (n : Nat) (h : n ≤ 16) : (opN n).toNat = 0x50 + n := toNat_ofNat_lt (by omega)

theorem bl (n : Nat) : bitLength n = if n = 0 then 0 else bitLength (n / 2) + 1 := by
  rw [bitLength]; split <;> simp_all

theorem bn2vch_small (n : Nat) (h1 : 1 ≤ n) (h2 : n ≤ 16) : bn2vch (n : Int) = .ok [UInt8.ofNat n] := by
  have : n = 1 ∨ n = 2 ∨ n = 3 ∨ n = 4 ∨ n = 5 ∨ n = 6 ∨ n = 7 ∨ n = 8 ∨ n = 9 ∨ n = 10 ∨ n = 11 ∨ n = 12 ∨
      n = 13 ∨ n = 14 ∨ n = 15 ∨ n = 16 := by omega
  rcases this with rfl | rfl | rfl | rfl | rfl | rfl | rfl | rfl | rfl | rfl | rfl | rfl | rfl | rfl | rfl | rfl <;>
    simp [bn2vch, bn2mpiBody, bn2bin, bnBytes, bl, bind, Except.bind]

/-- one loop iteration for OP_1 … OP_16 -/
theorem step_small (c : Ctx) (fl : Flags) (script : Bytes) (n idx : Nat) (stack alt : List Bytes) (pb nops : Nat)
    (h1 : 1 ≤ n) (h16 : n ≤ 16) (hsz : stack.length + 1 + alt.length ≤ 1000) :
    step c fl script ⟨0x50 + n, none, idx⟩ ⟨stack, alt, [], pb, nops⟩ =
      .ok ⟨[UInt8.ofNat n] :: stack, alt, [], pb, nops⟩ := by
  have hdis : 0x50 + n ∉ disabledOpcodes := by
    simp only [disabledOpcodes, List.mem_cons, List.not_mem_nil, or_false]; omega
  have h2 : ¬ 0x50 + n ≤ 0x4e := by omega
  have h4 : ¬ ([UInt8.ofNat n] :: stack).length + alt.length > MAX_STACK_SIZE := by
    simp only [MAX_STACK_SIZE, List.length_cons]; omega
  have hb : execOp c fl script ⟨0x50 + n, none, idx⟩ true ⟨stack, alt, [], pb, nops⟩ =
      .ok ⟨[UInt8.ofNat n] :: stack, alt, [], pb, nops⟩ := by
    unfold execOp
    rw [if_pos (Or.inr ⟨by simp only []; omega, by simp only []; omega⟩)]
    have : ((0x50 + n : Nat) : Int) - 0x50 = (n : Int) := by push_cast; omega
    simp only [opSmallInt, this, bn2vch_small n h1 h16, bind, Except.bind]
  unfold step
  simp only [hdis, if_false, countOp_push _ _ (by omega : 0x50 + n ≤ 0x60), bind, Except.bind, dispatch, h2,
    checkExec, List.all_nil, true_or, if_true, hb, h4]

theorem numPush_length (n : Nat) : (numPush n).length = if n ≤ 16 then 1 else 2 := by
  unfold numPush
  split
  · rename_i h; subst h; rfl
  · split <;> simp [pushData]

theorem numPush_length_le (n : Nat) : 1 ≤ (numPush n).length ∧ (numPush n).length ≤ 2 := by
  rw [numPush_length]; split <;> omega

/-- one loop iteration for a small number, however it is written -/
theorem step_numOp (c : Ctx) (fl : Flags) (script : Bytes) (n idx : Nat) (stack alt : List Bytes) (pb nops : Nat)
    (h1 : 1 ≤ n) (hsz : stack.length + 1 + alt.length ≤ 1000) :
    step c fl script (numOp n idx) ⟨stack, alt, [], pb, nops⟩ =
      .ok ⟨[UInt8.ofNat n] :: stack, alt, [], pb, nops⟩ := by
  unfold numOp
  rw [if_neg (by omega)]
  split
  · rename_i h; exact step_small c fl script n idx stack alt pb nops h1 h hsz
  · exact step_push c fl script 1 idx [UInt8.ofNat n] stack alt pb nops (by omega) (by simp) hsz

theorem rawIterFrom_numPush (idx n : Nat) (rest : Bytes) :
    rawIterFrom idx (numPush n ++ rest) =
      (numOp n idx :: (rawIterFrom (idx + (numPush n).length) rest).1,
       (rawIterFrom (idx + (numPush n).length) rest).2) := by
  unfold numPush numOp
  split
  · have := rawIterFrom_push idx [] rest (by simp)
    simpa [pushData] using this
  split
  · rename_i h
    rw [List.singleton_append, rawIterFrom_opcode idx (opN n) _ (by rw [opN_toNat n h]; omega), opN_toNat n h]
    simp
  · rw [rawIterFrom_push idx [UInt8.ofNat n] rest (by simp)]
    simp [pushData]

theorem numOp_sopIdx (n idx : Nat) : (numOp n idx).sopIdx = idx := by
  unfold numOp; split
  · rfl
  · split <;> rfl

/-- the opcode byte of a small number is never the length byte of a push of 2 … 75 bytes -/
theorem numPush_head (n : Nat) (h1 : 1 ≤ n) (hn : n ≤ 20) (rest : Bytes) (x : Nat) (hx : x < 0x4c) (hx1 : x ≠ 1) :
    (numPush n ++ rest)[0]? ≠ some (UInt8.ofNat x) := by
  unfold numPush
  rw [if_neg (by omega)]
  split
  · rename_i h
    simp only [List.singleton_append, List.getElem?_cons_zero, ne_eq, Option.some.injEq]
    intro he
    have := congrArg UInt8.toNat he
    rw [opN_toNat n h, toNat_ofNat_lt (by omega)] at this
    omega
  · simp only [pushData, List.length_singleton, List.cons_append, List.getElem?_cons_zero, ne_eq,
      Option.some.injEq]
    exact ofNat_ne (by omega) (by omega) (Ne.symm hx1)

theorem rawIter_multisig (m : Nat) (keys : List Bytes) (hk : ∀ k ∈ keys, k.length < 0x4c) :
    rawIter (multisigScript m keys) =
      (numOp m 0 :: (pushOps (numPush m).length keys ++
        [numOp keys.length ((numPush m).length + (pushAll keys).length),
         ⟨0xae, none, (numPush m).length + (pushAll keys).length + (numPush keys.length).length⟩]), none) := by
  unfold rawIter multisigScript
  rw [rawIterFrom_numPush 0 m, rawIterFrom_pushAll _ keys _ hk, rawIterFrom_numPush,
    rawIterFrom_opcode _ 0xae _ (by decide), rawIterFrom_nil]
  simp

theorem execOp_checkmultisig (c : Ctx) (fl : Flags) (script : Bytes) (idx : Nat) (f : Bool) (st : St) :
    execOp c fl script ⟨0xae, none, idx⟩ f st = checkMultiSig c fl 0xae (script.drop st.pbegin) st := by
  simp [execOp, binaryNumOps, unaryNumOps]

theorem fad_multisig (cap : Captured) (m : Nat) (keys : List Bytes) (sig : Bytes) (hm1 : 1 ≤ m) (hm : m ≤ 20)
    (hn1 : 1 ≤ keys.length) (hn : keys.length ≤ 20) (hk : ∀ k ∈ keys, k.length < 0x4c) (hs : sig.length < 0x4c) (hs1 : sig.length ≠ 1)
    (hne : ∀ k ∈ keys, sig.length ≠ k.length) :
    findAndDelete cap (multisigScript m keys) (pushData sig) = .ok (multisigScript m keys) := by
  have hsh : multisigScript m keys = numPush m ++ (pushAll keys ++ (numPush keys.length ++ [0xae])) := rfl
  apply fad_noop cap _ _ _ _ (rawIter_multisig m keys hk) (numOp_sopIdx m 0)
  · intro o ho
    apply slice_ne_of_head
    simp only [List.mem_cons, List.mem_append, List.not_mem_nil, or_false] at ho
    rcases ho with rfl | ho | rfl | rfl
    · rw [numOp_sopIdx, hsh]
      exact numPush_head m hm1 hm _ _ hs hs1
    · obtain ⟨a, _, _, d, hd, e⟩ := pushOps_facts (numPush keys.length ++ [0xae]) keys (numPush m) hk o ho
      rw [hsh, a, e]
      simp only [ne_eq, Option.some.injEq]
      exact ofNat_ne (by have := hk d hd; omega) (by omega) (Ne.symm (hne d hd))
    · rw [numOp_sopIdx, hsh, List.getElem?_append_right (by omega), List.getElem?_append_right (by omega)]
      have : (numPush m).length + (pushAll keys).length - (numPush m).length - (pushAll keys).length = 0 := by omega
      rw [this]
      exact numPush_head keys.length hn1 hn _ _ hs hs1
    · have : (multisigScript m keys)[(numPush m).length + (pushAll keys).length + (numPush keys.length).length]? =
          some 0xae := by
        rw [hsh, List.getElem?_append_right (by omega), List.getElem?_append_right (by omega),
          List.getElem?_append_right (by omega)]
        have : (numPush m).length + (pushAll keys).length + (numPush keys.length).length - (numPush m).length -
            (pushAll keys).length - (numPush keys.length).length = 0 := by omega
        rw [this]; rfl
      simp only
      rw [this]
      simp only [ne_eq, Option.some.injEq]
      exact (ofNat_ne_lit (by omega) _ (by simp; omega)).symm
  · obtain ⟨h1, h2⟩ := pushOps_sorted keys (numPush m).length
    rw [List.pairwise_cons]
    refine ⟨fun o _ => by rw [numOp_sopIdx]; exact Nat.zero_le _, ?_⟩
    rw [List.pairwise_append]
    refine ⟨h1, by simp [numOp_sopIdx], ?_⟩
    intro a ha b hb
    obtain ⟨_, _, c', _⟩ := pushOps_facts (numPush keys.length ++ [0xae]) keys (numPush m) hk a ha
    simp only [List.mem_cons, List.not_mem_nil, or_false] at hb
    rcases hb with rfl | rfl
    · rw [numOp_sopIdx]; omega
    · simp only; omega

theorem pushAll_length_le : ∀ (ds : List Bytes), (∀ d ∈ ds, d.length < 0x4c) →
    (pushAll ds).length ≤ 0x4c * ds.length := by
  intro ds
  induction ds with
  | nil => intro _; simp [pushAll]
  | cons d ds ih =>
    intro h
    have := ih (fun x hx => h x (List.mem_cons_of_mem _ hx))
    have hd := h d List.mem_cons_self
    rw [pushAll_cons]
    simp only [List.length_append, pushData_length, List.length_cons]
    omega

theorem rawIter_pushAll (ds : List Bytes) (h : ∀ d ∈ ds, d.length < 0x4c) :
    rawIter (pushAll ds) = (pushOps 0 ds, none) := by
  have := rawIterFrom_pushAll [] ds 0 h
  rw [List.append_nil, rawIterFrom_nil] at this
  unfold rawIter
  rw [this]; simp

/-- a scriptSig that is a list of direct pushes leaves them on the stack (last one on top) -/
theorem evalScript_pushAll (c : Ctx) (fl : Flags) (ds : List Bytes) (h : ∀ d ∈ ds, d.length < 0x4c)
    (hn : ds.length ≤ 100) : evalScript c fl [] (pushAll ds) = .ok ds.reverse := by
  have hl : (pushAll ds).length ≤ 10000 := by have := pushAll_length_le ds h; omega
  have := evalScript_of_loop c fl [] (pushAll ds) _ ⟨ds.reverse, [], [], 0, 0⟩ hl (rawIter_pushAll ds h)
    (by
      have := loop_pushOps c fl (pushAll ds) [] [] 0 0 ds 0 [] h (by simp; omega)
      rw [List.append_nil] at this
      rw [this, loop_nil]; simp) rfl
  exact this

theorem isPushOnly_pushAll (ds : List Bytes) (h : ∀ d ∈ ds, d.length < 0x4c) : isPushOnly (pushAll ds) = true := by
  apply isPushOnly_of _ _ (rawIter_pushAll ds h)
  intro o ho
  obtain ⟨_, _, _, d, hd, e⟩ := pushOps_facts [] ds [] h o ho
  have := h d hd
  omega

/-- `<m> <keys> <n> OP_CHECKMULTISIG` on the stack left by `OP_0 <sigs>` -/
theorem evalScript_multisig (c : Ctx) (fl : Flags) (m : Nat) (keys sigs : List Bytes)
    (htot : c.SigTotal) (hm1 : 1 ≤ m) (hmn : m ≤ keys.length) (hn : keys.length ≤ 20) (hsl : sigs.length = m)
    (hk : ∀ k ∈ keys, k.length < 0x4c) (hs : ∀ s ∈ sigs, s.length < 0x4c) (hs1 : ∀ s ∈ sigs, s.length ≠ 1)
    (hne : ∀ s ∈ sigs, ∀ k ∈ keys, s.length ≠ k.length) :
    evalScript c fl (sigs.reverse ++ [[]]) (multisigScript m keys) =
      .ok [if greedy (chkSig c.env (multisigScript m keys)) sigs.reverse keys.reverse then [1] else []] := by
  have hm20 : m ≤ 20 := by omega
  have hL := pushAll_length_le keys hk
  have hp1 := numPush_length_le m
  have hp2 := numPush_length_le keys.length
  have hl : (multisigScript m keys).length ≤ 10000 := by
    simp only [multisigScript, List.length_append, List.length_singleton]; omega
  have hit := rawIter_multisig m keys hk
  have hparse : (rawIter (multisigScript m keys)).2 = none := by rw [hit]
  have e := evalScript_of_loop c fl (sigs.reverse ++ [[]]) (multisigScript m keys) _
    ⟨[if greedy (chkSig c.env (multisigScript m keys)) sigs.reverse keys.reverse then [1] else []], [], [], 0,
      1 + keys.length⟩ hl hit ?_ rfl
  · exact e
  · rw [loop_cons _ _ _ _ _ _ _ (step_numOp c fl _ m 0 (sigs.reverse ++ [[]]) [] 0 0 hm1 (by simp; omega))]
    rw [loop_pushOps c fl _ _ [] 0 0 keys _ _ hk (by simp; omega)]
    rw [loop_cons _ _ _ _ _ _ _ (step_numOp c fl _ keys.length _ _ [] 0 0 (by omega) (by simp; omega))]
    rw [loop_cons _ _ _ _ _ _
      ⟨[if greedy (chkSig c.env (multisigScript m keys)) sigs.reverse keys.reverse then [1] else []], [], [], 0,
        1 + keys.length⟩, loop_nil]
    apply step_opcode
    · omega
    · decide
    · omega
    · rw [execOp_checkmultisig]
      simp only [List.drop_zero]
      have := checkMultiSig_eval c fl (multisigScript m keys) keys.reverse sigs.reverse [] 0 1
        (chkSig c.env (multisigScript m keys)) (by simpa using hn) (by simp; omega) (by simp; omega)
        (by simp; omega)
        (fun s hs' => hs s (by simpa using hs'))
        (fun s hs' cap => fad_multisig cap m keys s hm1 hm20 (by omega) hn hk (hs s (by simpa using hs'))
          (hs1 s (by simpa using hs')) (hne s (by simpa using hs')))
        (fun cap s k => checkSig_total c cap s k _ htot hl hparse)
      simp only [List.length_reverse, hsl] at this
      exact this
    · simp

theorem isP2sh_multisig (m : Nat) (keys : List Bytes) (hm : m ≤ 20) : isP2sh (multisigScript m keys) = false := by
  apply isP2sh_false_of_head
  unfold multisigScript numPush
  split
  · simp
  split
  · rename_i h
    simp only [List.singleton_append, List.getElem?_cons_zero, ne_eq, Option.some.injEq]
    intro he
    have := congrArg UInt8.toNat he
    rw [opN_toNat m h] at this
    simp at this
    omega
  · simp [pushData]

/-- bare m-of-n multisig, `OP_0 <sigs>` against `<m> <keys> <n> OP_CHECKMULTISIG` -/
theorem verify_multisig (c : Ctx) (fl : Flags) (m : Nat) (keys sigs : List Bytes)
    (hfl : fl.admissible = true) (htot : c.SigTotal) (hm1 : 1 ≤ m) (hmn : m ≤ keys.length)
    (hn : keys.length ≤ 20) (hsl : sigs.length = m)
    (hk : ∀ k ∈ keys, k.length < 0x4c) (hs : ∀ s ∈ sigs, s.length < 0x4c) (hs1 : ∀ s ∈ sigs, s.length ≠ 1)
    (hne : ∀ s ∈ sigs, ∀ k ∈ keys, s.length ≠ k.length) :
    verifyScript c fl (multisigScriptSig sigs) (multisigScript m keys) =
      if greedy (chkSig c.env (multisigScript m keys)) sigs.reverse keys.reverse then .ok () else .error .verify := by
  have hp : isP2sh (multisigScript m keys) = false := isP2sh_multisig m keys (by omega)
  have h1 : evalScript c fl [] (multisigScriptSig sigs) = .ok (sigs.reverse ++ [[]]) := by
    have := evalScript_pushAll c fl ([] :: sigs) (by
      intro d hd
      simp only [List.mem_cons] at hd
      rcases hd with rfl | hd
      · simp
      · exact hs d hd) (by simp; omega)
    simpa [multisigScriptSig] using this
  rw [verifyScript_plain c fl _ _ _ _ h1
    (evalScript_multisig c fl m keys sigs htot hm1 hmn hn hsl hk hs hs1 hne) hp]
  cases greedy (chkSig c.env (multisigScript m keys)) sigs.reverse keys.reverse
  · simp [checkTopTrue_empty, bind, Except.bind]
  · simp [checkTopTrue_one, verifyCleanStack_one fl _ hfl, bind, Except.bind]

/-! ### pushes of up to 65535 bytes (`CScriptOp.encode_op_pushdata`) -/

def pushOpcode (d : Bytes) : Nat :=
  if d.length < 0x4c then d.length else if d.length ≤ 0xff then 0x4c else 0x4d

theorem pushOpcode_le (d : Bytes) : pushOpcode d ≤ 0x4d := by
  unfold pushOpcode; split
  · omega
  · split <;> omega

theorem rawStep_pushEnc (idx : Nat) (d rest : Bytes) (h : d.length ≤ 0xffff) :
    rawStep idx (pushEnc d ++ rest) = some (.op ⟨pushOpcode d, some d, idx⟩ rest) := by
  unfold pushEnc pushOpcode
  by_cases h1 : d.length < 0x4c
  · simp only [h1, if_true]
    exact rawStep_push idx d rest h1
  · simp only [h1, if_false]
    by_cases h2 : d.length ≤ 0xff
    · simp only [h2, if_true]
      have hb : (UInt8.ofNat d.length).toNat = d.length := toNat_ofNat_lt (by omega)
      simp [rawStep, hb]
    · simp only [h2, if_false]
      have hb0 : (UInt8.ofNat (d.length % 256)).toNat = d.length % 256 := toNat_ofNat_lt (by omega)
      have hb1 : (UInt8.ofNat (d.length / 256)).toNat = d.length / 256 := toNat_ofNat_lt (by omega)
      have e : d.length % 256 + d.length / 256 * 256 = d.length := by omega
      simp [rawStep, hb0, hb1, e]

theorem pushEnc_length_le (d : Bytes) : (pushEnc d).length ≤ d.length + 3 := by
  unfold pushEnc; split
  · simp
  · split <;> simp

theorem rawIterFrom_pushEnc (idx : Nat) (d rest : Bytes) (h : d.length ≤ 0xffff) :
    rawIterFrom idx (pushEnc d ++ rest) =
      (⟨pushOpcode d, some d, idx⟩ :: (rawIterFrom (idx + (pushEnc d).length) rest).1,
       (rawIterFrom (idx + (pushEnc d).length) rest).2) := by
  rw [rawIterFrom_op (rawStep_pushEnc idx d rest h)]
  have : (pushEnc d ++ rest).length - rest.length = (pushEnc d).length := by simp
  rw [this]

/-- one loop iteration for any data push -/
theorem step_pushop (c : Ctx) (fl : Flags) (script : Bytes) (n idx : Nat) (d : Bytes)
    (stack alt : List Bytes) (pb nops : Nat)
    (hn : n ≤ 0x4e) (hd : d.length ≤ 520) (hsz : stack.length + 1 + alt.length ≤ 1000) :
    step c fl script ⟨n, some d, idx⟩ ⟨stack, alt, [], pb, nops⟩ = .ok ⟨d :: stack, alt, [], pb, nops⟩ := by
  have h1 : n ∉ disabledOpcodes := by
    simp only [disabledOpcodes, List.mem_cons, List.not_mem_nil, or_false]; omega
  have h3 : ¬ d.length > MAX_SCRIPT_ELEMENT_SIZE := by simp only [MAX_SCRIPT_ELEMENT_SIZE]; omega
  have h4 : ¬ (d :: stack).length + alt.length > MAX_STACK_SIZE := by
    simp only [MAX_STACK_SIZE, List.length_cons]; omega
  unfold step
  simp only [h1, if_false, countOp_push n _ (by omega : n ≤ 0x60), bind, Except.bind, dispatch, hn, if_true, h3,
    checkExec, List.all_nil, h4]


/-- `<pushes> <serialised script>`: the scriptSig shape of a P2SH spend -/
theorem rawIter_pushAll_enc (ds : List Bytes) (r : Bytes) (h : ∀ d ∈ ds, d.length < 0x4c) (hr : r.length ≤ 0xffff) :
    rawIter (pushAll ds ++ pushEnc r) =
      (pushOps 0 ds ++ [⟨pushOpcode r, some r, 0 + (pushAll ds).length⟩], none) := by
  unfold rawIter
  have e := rawIterFrom_pushEnc (0 + (pushAll ds).length) r [] hr
  rw [List.append_nil] at e
  rw [rawIterFrom_pushAll _ ds 0 h, e, rawIterFrom_nil]

theorem evalScript_pushAll_enc (c : Ctx) (fl : Flags) (ds : List Bytes) (r : Bytes)
    (h : ∀ d ∈ ds, d.length < 0x4c) (hn : ds.length ≤ 100) (hr : r.length ≤ 520) :
    evalScript c fl [] (pushAll ds ++ pushEnc r) = .ok (r :: ds.reverse) := by
  have hl : (pushAll ds ++ pushEnc r).length ≤ 10000 := by
    have := pushAll_length_le ds h
    have := pushEnc_length_le r
    simp only [List.length_append]; omega
  exact evalScript_of_loop c fl [] _ _ ⟨r :: ds.reverse, [], [], 0, 0⟩ hl
    (rawIter_pushAll_enc ds r h (by omega))
    (by
      rw [loop_pushOps c fl _ _ [] 0 0 ds 0 [] h (by simp; omega)]
      rw [loop_cons _ _ _ _ _ _ _ (step_pushop c fl _ (pushOpcode r) _ r _ [] 0 0
        (by have := pushOpcode_le r; omega) hr (by simp; omega)), loop_nil]
      simp) rfl

theorem isPushOnly_pushAll_enc (ds : List Bytes) (r : Bytes) (h : ∀ d ∈ ds, d.length < 0x4c)
    (hr : r.length ≤ 0xffff) : isPushOnly (pushAll ds ++ pushEnc r) = true := by
  apply isPushOnly_of _ _ (rawIter_pushAll_enc ds r h hr)
  intro o ho
  simp only [List.mem_append, List.mem_cons, List.not_mem_nil, or_false] at ho
  rcases ho with ho | rfl
  · obtain ⟨_, _, _, d, hd, e⟩ := pushOps_facts [] ds [] h o ho
    have := h d hd
    omega
  · have := pushOpcode_le r
    simp only; omega

/-- P2SH-wrapped m-of-n multisig: `OP_0 <sigs> <redeem>` against `HASH160 <hash160 redeem> EQUAL` -/
theorem verify_p2sh_multisig (c : Ctx) (fl : Flags) (m : Nat) (keys sigs : List Bytes)
    (hfl : fl.admissible = true) (hp : fl.p2sh = true) (htot : c.SigTotal) (hm1 : 1 ≤ m) (hmn : m ≤ keys.length)
    (hn : keys.length ≤ 20) (hsl : sigs.length = m)
    (hk : ∀ k ∈ keys, k.length < 0x4c) (hs : ∀ s ∈ sigs, s.length < 0x4c) (hs1 : ∀ s ∈ sigs, s.length ≠ 1)
    (hne : ∀ s ∈ sigs, ∀ k ∈ keys, s.length ≠ k.length)
    (hrl : (multisigScript m keys).length ≤ 520) (hhl : ∀ x, (c.env.hashes.hash160 x).length = 20) :
    let redeem := multisigScript m keys
    verifyScript c fl (multisigScriptSig sigs ++ pushEnc redeem) (p2shScript (c.env.hashes.hash160 redeem)) =
      if greedy (chkSig c.env redeem) sigs.reverse keys.reverse then .ok () else .error .verify := by
  intro redeem
  have hds : ∀ d ∈ ([] : Bytes) :: sigs, d.length < 0x4c := by
    intro d hd
    simp only [List.mem_cons] at hd
    rcases hd with rfl | hd
    · simp
    · exact hs d hd
  have h1 : evalScript c fl [] (multisigScriptSig sigs ++ pushEnc redeem) = .ok (redeem :: (sigs.reverse ++ [[]])) := by
    have := evalScript_pushAll_enc c fl ([] :: sigs) redeem hds (by simp; omega) hrl
    simpa [multisigScriptSig] using this
  have hpo : isPushOnly (multisigScriptSig sigs ++ pushEnc redeem) = true :=
    isPushOnly_pushAll_enc _ _ hds (by show (multisigScript m keys).length ≤ 0xffff; omega)
  rw [verifyScript_p2sh c fl _ redeem (sigs.reverse ++ [[]]) _ hp hpo (hhl redeem) (by simp; omega) h1
    (evalScript_multisig c fl m keys sigs htot hm1 hmn hn hsl hk hs hs1 hne)]
  cases greedy (chkSig c.env redeem) sigs.reverse keys.reverse
  · simp [checkTopTrue_empty, bind, Except.bind]
  · simp [checkTopTrue_one, verifyCleanStack_one fl _ hfl, bind, Except.bind]


theorem opcodeName_equalverify : opcodeName? 0x88 = some "OP_EQUALVERIFY" := by decide

theorem opEqualVerify_ne (x y : Bytes) (rest alt : List Bytes) (pb nops : Nat) (h : x ≠ y) :
    opEqualVerify 0x88 ⟨x :: y :: rest, alt, [], pb, nops⟩ = .error (.eval ⟨x :: y :: rest, alt, nops⟩) := by
  have h' : ¬ rest.length + 1 + 1 < 2 := by omega
  simp [opEqualVerify, checkArgs, getTop?, pyIdx, bind, Except.bind, h', h, raiseNamed,
    opcodeName_equalverify, St.cap]

theorem loop_err (c : Ctx) (fl : Flags) (script : Bytes) (op : RawOp) (ops : List RawOp) (st : St) (e : Err)
    (h : step c fl script op st = .error e) :
    loop c fl script none (op :: ops) st = .error e := by
  rw [loop]; simp only [h, bind, Except.bind]

theorem step_opcode_err (c : Ctx) (fl : Flags) (script : Bytes) (sop idx : Nat)
    (stack alt : List Bytes) (pb nops : Nat) (e : Err)
    (h60 : sop > 0x60) (hdis : sop ∉ disabledOpcodes) (hops : nops + 1 ≤ 201)
    (hex : execOp c fl script ⟨sop, none, idx⟩ true ⟨stack, alt, [], pb, nops + 1⟩ = .error e) :
    step c fl script ⟨sop, none, idx⟩ ⟨stack, alt, [], pb, nops⟩ = .error e := by
  have h2 : ¬ sop ≤ 0x4e := by omega
  have hc : countOp sop ⟨stack, alt, [], pb, nops⟩ = .ok ⟨stack, alt, [], pb, nops + 1⟩ :=
    countOp_op sop ⟨stack, alt, [], pb, nops⟩ h60 hops
  unfold step
  simp only [hdis, if_false, hc, bind, Except.bind, dispatch, h2, checkExec, List.all_nil, true_or, if_true, hex]

/-- pay-to-pubkey-hash spent with a key whose hash is not the committed one: the script fails at
    OP_EQUALVERIFY (an EvalScriptError), whatever the signature -/
theorem verify_p2pkh_other_key (c : Ctx) (fl : Flags) (sig key h : Bytes)
    (hk : key.length < 0x4c) (hs : sig.length < 0x4c) (hhl : h.length = 20)
    (hne : c.env.hashes.hash160 key ≠ h) :
    ∃ cap, verifyScript c fl (p2pkhScriptSig sig key) (p2pkhScript h) = .error (.eval cap) := by
  have hh4 : h.length < 0x4c := by omega
  have hl : ¬ (p2pkhScript h).length > MAX_SCRIPT_SIZE := by
    simp [p2pkhScript, pushData, MAX_SCRIPT_SIZE]; omega
  have h1 : evalScript c fl [] (p2pkhScriptSig sig key) = .ok [key, sig] := evalScript_push2 c fl sig key hs hk
  have hloop : loop c fl (p2pkhScript h) none (rawIter (p2pkhScript h)).1 ⟨[key, sig], [], [], 0, 0⟩ =
      .error (.eval ⟨[h, c.env.hashes.hash160 key, key, sig], [], 3⟩) := by
    rw [rawIter_p2pkh h hh4]
    rw [loop_cons _ _ _ _ _ _ ⟨[key, key, sig], [], [], 0, 1⟩
      (step_opcode c fl _ 0x76 0 _ _ 0 0 _ (by omega) (by decide) (by omega)
        (by rw [execOp_dup]; exact opDup_eval key [sig] [] 0 1) (by simp))]
    rw [loop_cons _ _ _ _ _ _ ⟨[c.env.hashes.hash160 key, key, sig], [], [], 0, 2⟩
      (step_opcode c fl _ 0xa9 1 _ _ 0 1 _ (by omega) (by decide) (by omega)
        (by rw [execOp_hash160, hashTop_eval]) (by simp))]
    rw [loop_cons _ _ _ _ _ _ _ (step_push c fl _ h.length 2 h [c.env.hashes.hash160 key, key, sig] [] 0 2 hh4
      (by omega) (by simp))]
    apply loop_err
    apply step_opcode_err
    · omega
    · decide
    · omega
    · rw [execOp_equalverify]
      exact opEqualVerify_ne h _ [key, sig] [] 0 3 (Ne.symm hne)
  refine ⟨⟨[h, c.env.hashes.hash160 key, key, sig], [], 3⟩, ?_⟩
  unfold verifyScript
  simp only [h1, bind, Except.bind]
  have h2 : evalScript c fl [key, sig] (p2pkhScript h) =
      .error (.eval ⟨[h, c.env.hashes.hash160 key, key, sig], [], 3⟩) := by
    unfold evalScript evalScriptRaw
    simp only [hl, if_false, rawIter_p2pkh h hh4, bind, Except.bind]
    rw [rawIter_p2pkh h hh4] at hloop
    simp only [hloop]
  simp only [h2]


theorem greedy_congr {chk chk' : Bytes → Bytes → Bool} : ∀ (ks ss : List Bytes),
    (∀ s ∈ ss, ∀ k, chk s k = chk' s k) → greedy chk ss ks = greedy chk' ss ks := by
  intro ks
  induction ks with
  | nil => intro ss _; cases ss <;> rfl
  | cons k ks ih =>
    intro ss h
    cases ss with
    | nil => rfl
    | cons s ss =>
      simp only [greedy]
      rw [h s List.mem_cons_self k]
      split
      · exact ih ss (fun s' hs' => h s' (List.mem_cons_of_mem _ hs'))
      · exact ih (s :: ss) h

theorem greedy_all_false {chk : Bytes → Bytes → Bool} : ∀ (ks ss : List Bytes), ss ≠ [] →
    (∀ s ∈ ss, ∀ k, chk s k = false) → greedy chk ss ks = false := by
  intro ks
  induction ks with
  | nil => intro ss hne _; cases ss with
    | nil => exact absurd rfl hne
    | cons s ss => rfl
  | cons k ks ih =>
    intro ss hne h
    cases ss with
    | nil => exact absurd rfl hne
    | cons s ss =>
      simp only [greedy, h s List.mem_cons_self k, Bool.false_eq_true, if_false]
      exact ih (s :: ss) hne h

theorem greedy_all_false_mem {chk : Bytes → Bytes → Bool} : ∀ (ks ss : List Bytes), ss ≠ [] →
    (∀ s ∈ ss, ∀ k ∈ ks, chk s k = false) → greedy chk ss ks = false := by
  intro ks
  induction ks with
  | nil => intro ss hne _; cases ss with
    | nil => exact absurd rfl hne
    | cons s ss => rfl
  | cons k ks ih =>
    intro ss hne h
    cases ss with
    | nil => exact absurd rfl hne
    | cons s ss =>
      simp only [greedy, h s List.mem_cons_self k List.mem_cons_self, Bool.false_eq_true, if_false]
      exact ih (s :: ss) hne (fun s' hs' k' hk' => h s' hs' k' (List.mem_cons_of_mem _ hk'))

end BtcVerif.C05T
