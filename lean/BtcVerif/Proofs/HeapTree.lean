/-
  C09 helper lemmas, part 4: what the tree of an allocated plan looks like —
  counting bound (freshness), decoded value and mutability flags, for clones and for value plans.
-/
import BtcVerif.Proofs.HeapAlloc

namespace BtcVerif.Model.Heap
open BtcVerif BtcVerif.Spec.ValueSem

/-! ### decode -/

theorem decodeL_eq_mapO : ∀ ts : List ATree, decodeL ts = mapO decode ts
  | [] => by simp [decodeL, mapO]
  | t :: ts => by
    cases h1 : decode t <;> cases h2 : mapO decode ts <;> simp [decodeL, mapO, h1, decodeL_eq_mapO ts, h2]

theorem decode_node (a : Addr) (m : Bool) (sc : Scalars) (kids : List ATree) :
    decode (.node a m sc kids) = (mapO decode kids).bind (assemble sc) := by
  simp [decode, decodeL_eq_mapO]

theorem mapO_congr_idx {α α' β : Type} {f : α → Option β} {g : α' → Option β} :
    ∀ {l1 : List α} {l2 : List α'}, l1.length = l2.length →
      (∀ (i : Nat) (a : α) (b : α'), l1[i]? = some a → l2[i]? = some b → f a = g b) →
      mapO f l1 = mapO g l2
  | [], [], _, _ => by simp [mapO]
  | [], _ :: _, h, _ => by simp at h
  | _ :: _, [], h, _ => by simp at h
  | a :: l1, b :: l2, hl, hfg => by
    have h0 := hfg 0 a b (by simp) (by simp)
    have := mapO_congr_idx (f := f) (g := g) (l1 := l1) (l2 := l2) (by simpa using hl)
      (fun i a' b' ha hb => hfg (i + 1) a' b' (by simpa using ha) (by simpa using hb))
    simp [mapO, h0, this]

/-! ### mutability flags as the value level predicts them -/

mutual
/-- every object's flag is: parent's flag, unless the class has no mutable variant -/
def flagsOK : Bool → ATree → Prop
  | m, .node _ m' _ kids => m' = m ∧ flagsOKL m kids
def flagsOKL : Bool → List ATree → Prop
  | _, [] => True
  | m, k :: ks => flagsOK (m && !k.sc.alwaysImm) k ∧ flagsOKL m ks
end

theorem flagsOKL_iff {m : Bool} : ∀ {ks : List ATree},
    flagsOKL m ks ↔ ∀ k ∈ ks, flagsOK (m && !k.sc.alwaysImm) k
  | [] => by simp [flagsOKL]
  | k :: ks => by simp [flagsOKL, flagsOKL_iff (ks := ks)]

theorem flagsOK_isMut {m : Bool} {t : ATree} (h : flagsOK m t) : t.isMut = m := by
  cases t with | node a m' sc kids => exact h.1

theorem flagsOK_of_imm {h : Heap} (hic : ImmClosed h) : ∀ {f : Nat} {a : Addr} {t : ATree},
    unfoldA f h a = some t → t.isMut = false → flagsOK false t
  | 0, _, _, hu, _ => by simp [unfoldA] at hu
  | f + 1, a, t, hu, hm => by
    obtain ⟨o, kids, ho, hk, rfl⟩ := unfoldA_succ hu
    simp only [ATree.isMut] at hm
    refine ⟨hm, flagsOKL_iff.mpr ?_⟩
    intro k hk'
    obtain ⟨c, hc, huc⟩ := mapO_mem hk hk'
    obtain ⟨oc, hoc, hmc⟩ := hic a o ho hm c hc
    have : k.isMut = false := by
      cases f with
      | zero => simp [unfoldA] at huc
      | succ f' =>
        obtain ⟨o2, kids2, ho2, _, rfl⟩ := unfoldA_succ huc
        rw [hoc] at ho2; cases ho2; exact hmc
    simpa using flagsOK_of_imm hic huc this

/-! ### chains -/

theorem ite_range_add {lo mid hi y a b : Nat} (h1 : lo ≤ mid) (h3 : mid ≤ hi)
    (h2 : a ≤ if lo ≤ y ∧ y < mid then 1 else 0) (h4 : b ≤ if mid ≤ y ∧ y < hi then 1 else 0) :
    a + b ≤ if lo ≤ y ∧ y < hi then 1 else 0 := by
  by_cases c1 : lo ≤ y ∧ y < mid
  · rw [if_pos c1] at h2
    have c2 : ¬(mid ≤ y ∧ y < hi) := by omega
    rw [if_neg c2] at h4
    have c3 : lo ≤ y ∧ y < hi := by omega
    rw [if_pos c3]; omega
  · rw [if_neg c1] at h2
    by_cases c2 : mid ≤ y ∧ y < hi
    · rw [if_pos c2] at h4
      have c3 : lo ≤ y ∧ y < hi := by omega
      rw [if_pos c3]; omega
    · rw [if_neg c2] at h4
      have : a + b = 0 := by omega
      rw [this]; exact Nat.zero_le _

theorem ite_range_node {lo a' y b : Nat} (m : Bool) (h1 : lo ≤ a')
    (h4 : b ≤ if lo ≤ y ∧ y < a' then 1 else 0) :
    (if m = true then (if a' = y then 1 else 0) + b else 0) ≤ if lo ≤ y ∧ y < a' + 1 then 1 else 0 := by
  cases m with
  | false => simp
  | true =>
    simp only [if_true]
    have h5 : (if a' = y then 1 else 0) ≤ if a' ≤ y ∧ y < a' + 1 then 1 else 0 := by
      by_cases c : a' = y
      · rw [if_pos c, if_pos (by omega)]; exact Nat.le_refl _
      · rw [if_neg c]; exact Nat.zero_le _
    have := ite_range_add h1 (Nat.le_add_right a' 1) h4 h5
    omega

theorem Chain.length_eq {R : Plan → Nat → Nat → ATree → Prop} :
    ∀ {ps : List Plan} {lo hi : Nat} {ts : List ATree}, Chain R ps lo hi ts → ps.length = ts.length
  | [], _, _, [], _ => rfl
  | [], _, _, _ :: _, h => by simp [Chain] at h
  | _ :: _, _, _, [], h => by simp [Chain] at h
  | p :: ps, lo, hi, t :: ts, h => by
    obtain ⟨mid, _, hc⟩ := h
    simp [Chain.length_eq hc]

theorem Chain.get {R : Plan → Nat → Nat → ATree → Prop} :
    ∀ {ps : List Plan} {lo hi : Nat} {ts : List ATree}, Chain R ps lo hi ts →
      ∀ (i : Nat) (p : Plan) (t : ATree), ps[i]? = some p → ts[i]? = some t → ∃ lo' hi', R p lo' hi' t
  | [], _, _, _, _, i, p, t, hp, _ => by simp at hp
  | _ :: _, _, _, [], h, _, _, _, _, _ => by simp [Chain] at h
  | p0 :: ps, lo, hi, t0 :: ts, h, i, p, t, hp, ht => by
    obtain ⟨mid, h0, hc⟩ := h
    cases i with
    | zero => simp at hp ht; subst hp; subst ht; exact ⟨lo, mid, h0⟩
    | succ i => simp at hp ht; exact Chain.get hc i p t hp ht

/-- counting bound for a chain from the bound for its members -/
theorem Chain.cnt_le {R : Plan → Nat → Nat → ATree → Prop} (y : Addr)
    (hR : ∀ p lo hi t, R p lo hi t → lo ≤ hi ∧ cnt y t ≤ (if lo ≤ y ∧ y < hi then 1 else 0)) :
    ∀ {ps : List Plan} {lo hi : Nat} {ts : List ATree}, Chain R ps lo hi ts →
      lo ≤ hi ∧ cntL y ts ≤ (if lo ≤ y ∧ y < hi then 1 else 0)
  | [], _, _, [], h => by simp [Chain] at h; subst h; simp [cntL]
  | [], _, _, _ :: _, h => by simp [Chain] at h
  | _ :: _, _, _, [], h => by simp [Chain] at h
  | p :: ps, lo, hi, t :: ts, h => by
    obtain ⟨mid, h0, hc⟩ := h
    obtain ⟨h1, h2⟩ := hR p lo mid t h0
    obtain ⟨h3, h4⟩ := Chain.cnt_le y hR hc
    refine ⟨by omega, ?_⟩
    simp only [cntL]
    exact ite_range_add h1 h3 h2 h4

/-- the references of the plan are immutable objects of the base heap -/
def RefsImm (h0 : Heap) : Nat → Plan → Prop
  | _, .ref a => ∃ o : Obj, h0[a]? = some o ∧ o.isMut = false
  | 0, .node _ _ _ => False
  | f + 1, .node _ _ kids => ∀ k ∈ kids, RefsImm h0 f k

/-- **freshness**: the mutable part of an allocated tree lies in the fresh range, without repetition -/
theorem PT.cnt_le {h0 : Heap} (y : Addr) : ∀ {f : Nat} {p : Plan} {lo hi : Nat} {t : ATree},
    PT h0 f p lo hi t → RefsImm h0 f p → lo ≤ hi ∧ cnt y t ≤ (if lo ≤ y ∧ y < hi then 1 else 0)
  | f, .ref a, lo, hi, t, hpt, hr => by
    have hpt' : lo = hi ∧ unfoldA f h0 a = some t := by cases f <;> simpa [PT] using hpt
    have hr' : ∃ o : Obj, h0[a]? = some o ∧ o.isMut = false := by cases f <;> simpa [RefsImm] using hr
    obtain ⟨rfl, hu⟩ := hpt'
    obtain ⟨o, ho, hm⟩ := hr'
    refine ⟨Nat.le_refl _, ?_⟩
    cases f with
    | zero => simp [unfoldA] at hu
    | succ f =>
      obtain ⟨o2, kids, ho2, _, rfl⟩ := unfoldA_succ hu
      rw [ho] at ho2; cases ho2
      simp [cnt, hm]
  | 0, .node _ _ _, _, _, _, hpt, _ => by simp [PT] at hpt
  | f + 1, .node m sc kids, lo, hi, .node a' m' sc' kids', hpt, hr => by
    simp only [PT] at hpt
    simp only [RefsImm] at hr
    obtain ⟨rfl, hlo, rfl, rfl, hch⟩ := hpt
    have hc := Chain.cnt_le (R := fun p lo hi t => PT h0 f p lo hi t ∧ RefsImm h0 f p) y
      (fun p lo hi t hh => PT.cnt_le y hh.1 hh.2) (ps := kids) (lo := lo) (hi := a') (ts := kids') (by
        -- strengthen the chain with the hypothesis on the kids
        have : ∀ (ps : List Plan) (lo hi : Nat) (ts : List ATree), (∀ k ∈ ps, RefsImm h0 f k) →
            Chain (PT h0 f) ps lo hi ts →
            Chain (fun p lo hi t => PT h0 f p lo hi t ∧ RefsImm h0 f p) ps lo hi ts := by
          intro ps
          induction ps with
          | nil => intro lo hi ts _ hc; cases ts <;> simp [Chain] at hc ⊢ <;> exact hc
          | cons p ps ih =>
            intro lo hi ts hr hc
            cases ts with
            | nil => simp [Chain] at hc
            | cons t ts =>
              obtain ⟨mid, h0', hc'⟩ := hc
              exact ⟨mid, ⟨h0', hr p (by simp)⟩, ih mid hi ts (fun k hk => hr k (by simp [hk])) hc'⟩
        exact this kids lo a' kids' hr hch)
    refine ⟨by omega, ?_⟩
    simp only [cnt]
    obtain ⟨h3, h4⟩ := hc
    exact ite_range_node m' h3 h4

/-! ### clones -/

def KindOK (h : Heap) : Prop :=
  ∀ (a : Addr) (o : Obj), h[a]? = some o → o.sc.alwaysImm = true → o.isMut = false

theorem rebuilt_not_alwaysImm {sc : Scalars} (h : sc.rebuilt = true) : sc.alwaysImm = false := by
  cases sc with
  | seq k => cases k <;> simp [Scalars.rebuilt] at h <;> rfl
  | _ => simp [Scalars.rebuilt] at h

/-- the plan of a clone fits, refers to immutable objects only, respects `ImmPlan`, and allocates
    mutable objects only of classes that have a mutable variant -/
theorem planClone_ok {h : Heap} (hk : KindOK h) (tm : Bool) : ∀ {f : Nat} {a : Addr} {t : ATree} {p : Plan},
    unfoldA f h a = some t → planClone tm f h a = some p →
      Fits h f p ∧ RefsImm h f p ∧ ImmPlan h f p ∧
      PlanAll (fun m sc => (sc.alwaysImm = true → m = false)) f p ∧ (tm = false → rootImm h p)
  | 0, _, _, _, hu, _ => by simp [unfoldA] at hu
  | f + 1, a, t, p, hu, hp => by
    obtain ⟨o, kids, ho, hkids, rfl⟩ := unfoldA_succ hu
    simp only [planClone, ho] at hp
    split at hp
    · -- returned as is
      rename_i hcond
      cases hp
      simp only [Bool.and_eq_true, Bool.not_eq_true', Bool.or_eq_true] at hcond
      refine ⟨⟨_, hu⟩, ⟨o, ho, hcond.1.2⟩, trivial, trivial, fun _ => ⟨o, ho, hcond.1.2⟩⟩
    · rename_i hcond
      cases hm : mapO (planClone tm f h) o.refs with
      | none => simp [hm] at hp
      | some plans =>
        simp only [hm, Option.map_some, Option.some.injEq] at hp
        subst hp
        have hall : ∀ k ∈ plans, ∃ c ∈ o.refs, ∃ tc, unfoldA f h c = some tc ∧ planClone tm f h c = some k := by
          intro k hk'
          obtain ⟨c, hc, hpc⟩ := mapO_mem hm hk'
          obtain ⟨tc, _, htc⟩ := mapO_mem' hkids hc
          exact ⟨c, hc, tc, htc, hpc⟩
        refine ⟨?_, ?_, ⟨?_, ?_⟩, ⟨?_, ?_⟩, fun htm => htm⟩
        · intro k hk'
          obtain ⟨c, _, tc, htc, hpc⟩ := hall k hk'
          exact (planClone_ok hk tm htc hpc).1
        · intro k hk'
          obtain ⟨c, _, tc, htc, hpc⟩ := hall k hk'
          exact (planClone_ok hk tm htc hpc).2.1
        · intro htm k hk'
          obtain ⟨c, _, tc, htc, hpc⟩ := hall k hk'
          exact (planClone_ok hk tm htc hpc).2.2.2.2 htm
        · intro k hk'
          obtain ⟨c, _, tc, htc, hpc⟩ := hall k hk'
          exact (planClone_ok hk tm htc hpc).2.2.1
        · intro hai
          cases htm : tm with
          | false => rfl
          | true =>
            exfalso
            apply hcond
            have hnr : o.sc.rebuilt = false := by
              cases hr : o.sc.rebuilt with
              | false => rfl
              | true => rw [rebuilt_not_alwaysImm hr] at hai; cases hai
            simp [hnr, hk a o ho hai, hai]
        · intro k hk'
          obtain ⟨c, _, tc, htc, hpc⟩ := hall k hk'
          exact (planClone_ok hk tm htc hpc).2.2.2.1

/-- the tree allocated for a clone has the value of its source and the flags the value level predicts -/
theorem clone_tree {h : Heap} (hic : ImmClosed h) (hk : KindOK h) (tm : Bool) :
    ∀ {f : Nat} {a : Addr} {t t' : ATree} {p : Plan} {lo hi : Nat},
      unfoldA f h a = some t → planClone tm f h a = some p → PT h f p lo hi t' →
        decode t' = decode t ∧ t'.sc = t.sc ∧ flagsOK (tm && !t'.sc.alwaysImm) t'
  | 0, _, _, _, _, _, _, hu, _, _ => by simp [unfoldA] at hu
  | f + 1, a, t, t', p, lo, hi, hu, hp, hpt => by
    obtain ⟨o, kids, ho, hkids, rfl⟩ := unfoldA_succ hu
    simp only [planClone, ho] at hp
    split at hp
    · rename_i hcond
      cases hp
      simp only [PT] at hpt
      rw [hu] at hpt
      obtain ⟨_, hpt⟩ := hpt
      cases hpt
      simp only [Bool.and_eq_true, Bool.not_eq_true', Bool.or_eq_true] at hcond
      refine ⟨rfl, rfl, ?_⟩
      have hfl := flagsOK_of_imm hic hu (by simpa [ATree.isMut] using hcond.1.2)
      have : (tm && !o.sc.alwaysImm) = false := by
        rcases hcond.2 with h1 | h1 <;> simp [h1]
      simpa [ATree.sc, this] using hfl
    · rename_i hcond
      cases hm : mapO (planClone tm f h) o.refs with
      | none => simp [hm] at hp
      | some plans =>
        simp only [hm, Option.map_some, Option.some.injEq] at hp
        subst hp
        cases t' with | node a' m' sc' kids' =>
        simp only [PT] at hpt
        obtain ⟨_, _, hm', hsc', hch⟩ := hpt
        subst m'; subst sc'
        have hlen1 := mapO_length hkids
        have hlen2 := mapO_length hm
        have hlen3 := Chain.length_eq hch
        have hpoint : ∀ (i : Nat) (k k' : ATree), kids[i]? = some k → kids'[i]? = some k' →
            decode k' = decode k ∧ k'.sc = k.sc ∧ flagsOK (tm && !k'.sc.alwaysImm) k' := by
          intro i k k' hki hki'
          obtain ⟨c, hci, huc⟩ := mapO_getElem' hkids i k hki
          obtain ⟨pl, hpli, hpc⟩ := mapO_getElem hm i c hci
          obtain ⟨lo', hi', hpt'⟩ := Chain.get hch i pl k' hpli hki'
          exact clone_tree hic hk tm huc hpc hpt'
        refine ⟨?_, rfl, ?_, ?_⟩
        · rw [decode_node, decode_node]
          congr 1
          apply mapO_congr_idx (by omega)
          intro i k' k hk' hk0
          exact (hpoint i k k' hk0 hk').1
        · -- a fresh mutable object is of a class with a mutable variant
          simp only [ATree.sc]
          cases htm : tm with
          | false => rfl
          | true =>
            cases hai : o.sc.alwaysImm with
            | false => rfl
            | true =>
              exfalso
              apply hcond
              have hnr : o.sc.rebuilt = false := by
                cases hr : o.sc.rebuilt with
                | false => rfl
                | true => rw [rebuilt_not_alwaysImm hr] at hai; cases hai
              simp [hnr, hk a o ho hai, hai, htm]
        · simp only [ATree.sc]
          have hflag : (tm && !o.sc.alwaysImm) = tm := by
            cases htm : tm with
            | false => rfl
            | true =>
              cases hai : o.sc.alwaysImm with
              | false => rfl
              | true =>
                exfalso
                apply hcond
                have hnr : o.sc.rebuilt = false := by
                  cases hr : o.sc.rebuilt with
                  | false => rfl
                  | true => rw [rebuilt_not_alwaysImm hr] at hai; cases hai
                simp [hnr, hk a o ho hai, hai, htm]
          rw [hflag]
          apply flagsOKL_iff.mpr
          intro k' hk'
          obtain ⟨i, hi, rfl⟩ := List.getElem_of_mem hk'
          have hi0 : i < kids.length := by omega
          exact (hpoint i kids[i] kids'[i] (List.getElem?_eq_getElem hi0) (List.getElem?_eq_getElem hi)).2.2

end BtcVerif.Model.Heap
