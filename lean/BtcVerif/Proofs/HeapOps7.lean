/-
  C09 helper lemmas, part 16: `tx.vin = [...]`, `tx.vout = [...]`, `tx.wit = CTxWitness(...)`.
-/
import BtcVerif.Proofs.HeapOps6

namespace BtcVerif.Model.Heap
open BtcVerif BtcVerif.Spec.ValueSem

/-- the transaction object of a transaction root, as a target -/
structure TxNodeInfo (s : St) (sp : Store) (r : Nat) (e : Entry) (tv : Tx) (a : Addr) where
  I : TInfo s sp ⟨r, []⟩ a
  k0 : ATree
  k1 : ATree
  k2 : ATree
  he : I.e = e
  hmut : I.o.isMut = e.isMut
  htx : I.tx = .node a I.o.isMut I.o.sc [k0, k1, k2]
  hkids : mapO (unfoldA I.g s.heap) I.o.refs = some [k0, k1, k2]
  hdec : mapO decode [k0, k1, k2] = some [.ins tv.vin, .outs tv.vout, .wit tv.wit]
  hasm : ∀ vin vout wit, assemble I.o.sc [.ins vin, .outs vout, .wit wit] =
    some (.tx { tv with vin := vin, vout := vout, wit := wit })
  hg : I.g = 4 + 3
  hfl : I.o.isMut = true → flagsOKL true [k0, k1, k2]

theorem txNodeInfo {s : St} {sp : Store} (hinv : Inv s) (hrel : Rel s sp) {r : Nat} {e : Entry} {tv : Tx}
    {a : Addr} (h2 : (sp[r]?).join = some e) (hval : e.val = .tx tv) (t0 : s.target ⟨r, []⟩ = some a) :
    Nonempty (TxNodeInfo s sp r e tv a) := by
  obtain ⟨I⟩ := target_some hinv hrel t0
  have he : I.e = e := by have := I.hentry; simp only at this; rw [h2] at this; cases this; rfl
  have hlook := I.hlook
  simp only [lookup, I.hentry, Option.bind_eq_bind, Option.bind_some, he, hval, Val.getM] at hlook
  simp only [Option.some.injEq, Prod.mk.injEq] at hlook
  obtain ⟨hm, hvx⟩ := hlook
  obtain ⟨o, kids, ho, hk, htx⟩ := unfoldA_succ I.hux
  rw [I.ho] at ho; cases ho
  have hdx := I.hdx
  rw [htx, ← hvx] at hdx
  obtain ⟨vs, hvs, hasm⟩ := decode_inv hdx
  have hkind := assemble_kind hasm
  obtain ⟨ver, lock, hsc⟩ := kind_tx hkind.symm
  rw [hsc] at hasm
  obtain ⟨vin, vout, wv, rfl⟩ := assemble_tx_inv hasm
  simp only [assemble, Option.some.injEq, Val.tx.injEq] at hasm
  have hlen := mapO_length hvs
  match kids, hlen with
  | [k0, k1, k2], _ =>
    refine ⟨{ I := I, k0 := k0, k1 := k1, k2 := k2, he := he, hmut := by rw [← I.hom, ← hm], htx := htx,
              hkids := hk, hdec := by rw [hvs, ← hasm], hasm := ?_, hg := ?_, hfl := ?_ }⟩
    · intro vin' vout' wit'
      rw [hsc, ← hasm]; rfl
    · have := I.hD
      simp only [D, List.length_nil] at this
      omega
    · intro hmu
      have := I.hfx
      rw [htx, hmu] at this
      exact this.2

theorem put_root (v w : Val) : v.put [] w = some w := rfl

/-- the replacement of reference `j` of the transaction object by a freshly allocated part -/
theorem set_tx_ref {s : St} {sp : Store} (hinv : Inv s) (hrel : Rel s sp) {r : Nat} {e : Entry} {tv : Tx}
    {a : Addr} (X : TxNodeInfo s sp r e tv a) (hmu : e.isMut = true)
    (j : Nat) (p : Plan) (hgood : PlanGood s.heap (4 + 3) p) (mf : Bool) (cv : Val)
    (htree : ∀ lo hi t, PT s.heap (4 + 3) p lo hi t → TreeIs mf cv t ∧ t.sc.alwaysImm = !mf)
    (tv' : Tx)
    (hnewval : assemble X.I.o.sc ([Val.ins tv.vin, Val.outs tv.vout, Val.wit tv.wit].set j cv) = some (.tx tv'))
    (hj : j < 3) :
    Inv (s.bind ((allocPlan s.heap p).1.set a
      { isMut := true, sc := X.I.o.sc, refs := X.I.o.refs.set j (allocPlan s.heap p).2,
        cHash := X.I.o.cHash, cPy := X.I.o.cPy }) none) ∧
    Rel (s.bind ((allocPlan s.heap p).1.set a
      { isMut := true, sc := X.I.o.sc, refs := X.I.o.refs.set j (allocPlan s.heap p).2,
        cHash := X.I.o.cHash, cPy := X.I.o.cPy }) none)
      (Spec.ValueSem.bind (sp.set r (some { e with val := .tx tv' })) none) := by
  have hom : X.I.o.isMut = true := by rw [X.hmut, hmu]
  have hgood' : PlanGood s.heap X.I.g p := by rw [X.hg]; exact hgood
  obtain ⟨ee, tc, he, hnew, hic, htc, hpt, hcnt⟩ := alloc_good hinv hgood'
  rw [X.hg] at hpt
  obtain ⟨⟨hdc, hfc⟩, hsc⟩ := htree _ _ _ hpt
  have htx' : X.I.tx = .node a true X.I.o.sc [X.k0, X.k1, X.k2] := by rw [X.htx, hom]
  have hk' : mapO (unfoldA X.I.g (allocPlan s.heap p).1) (X.I.o.refs.set j (allocPlan s.heap p).2)
      = some ([X.k0, X.k1, X.k2].set j tc) := by
    apply mapO_list_set j _ htc
    rw [he]; exact mapO_ext_heap ee X.hkids
  have hkj : j < [X.k0, X.k1, X.k2].length := by simpa using hj
  have hres := mutate_kids hinv hrel X.I hom htx' he hnew hic hk'
    (by
      intro y
      have := cntL_set (x := y) (k' := tc) (List.getElem?_eq_getElem hkj)
      have := hcnt y
      omega)
    (flagsOKL_set (X.hfl hom) (by rw [hsc]; simpa using hfc))
    (w := .tx tv') (v' := .tx tv')
    (by rw [decode_node, mapO_list_set j X.hdec hdc]; simpa using hnewval)
    (put_root _ _)
  obtain ⟨k1, k2⟩ := hres
  rw [X.he] at k2
  exact ⟨k1, k2⟩

theorem setRef_eq {h : Heap} {a : Addr} {o : Obj} (ho : h[a]? = some o) {j : Nat} (hj : j < o.refs.length)
    (c : Addr) : setRef h a j c = some (h.set a { o with refs := o.refs.set j c }) := by
  simp [setRef, ho, hj]

theorem sim_setVin {s : St} {sp : Store} (hinv : Inv s) (hrel : Rel s sp) (r : Nat) (l : List TxIn) :
    Sim s sp (.setVin r l) := by
  simp only [Sim, step, Spec.ValueSem.step, withTx, editList]
  cases txRoot hinv hrel r with
  | none h1 h2 => simp only [h1, lookupTx, h2]; exact ⟨inv_skip hinv, rel_skip hrel, by simp⟩
  | other a e h1 h2 h3 h4 => simp only [h1, h3, h4, h2]; exact ⟨inv_skip hinv, rel_skip hrel, by simp⟩
  | tx a e tv o vi vo w h1 h2 hval h3 h4 ho hm t0 t1 t2 =>
    obtain ⟨X⟩ := txNodeInfo hinv hrel h2 hval t0
    have hoo : X.I.o = o := by have := X.I.ho; rw [ho] at this; cases this; rfl
    simp only [h1, h3, h4, hm]
    cases hv : l.all validTxIn with
    | false => exact ⟨inv_skip hinv, rel_skip hrel, by simp⟩
    | true =>
      simp only [Bool.not_true, Bool.false_eq_true, if_false]
      cases hmu : e.isMut with
      | false => exact ⟨inv_skip hinv, rel_skip hrel, by simp⟩
      | true =>
        simp only [Bool.not_true, Bool.false_eq_true, if_false]
        have hres := set_tx_ref hinv hrel X hmu 0 (planIns true l) (good_planIns s.heap true l 4) true (.ins l)
          (fun lo hi t ht => ⟨tree_planIns ht, by rw [(PT.root_sc ht).1]; rfl⟩)
          { tv with vin := l } (by simpa using X.hasm l tv.vout tv.wit) (by omega)
        have hlen : 0 < o.refs.length := by
          have := mapO_length X.hkids; rw [hoo] at this; simp at this; omega
        obtain ⟨ee, _, he, _⟩ := alloc_good hinv (show PlanGood s.heap (4 + 3) (planIns true l) from good_planIns s.heap true l 4)
        have ho1 : (allocPlan s.heap (planIns true l)).1[a]? = some o := by
          rw [he]; exact getElem?_append_of_some ee ho
        rw [setRef_eq ho1 hlen]
        obtain ⟨k1, k2⟩ := hres
        rw [hoo] at k1 k2
        have hmo : o.isMut = true := by rw [hm, hmu]
        exact ⟨by simpa [hmo] using k1, by simpa [hmo, hmu] using k2, rfl⟩

theorem sim_setVout {s : St} {sp : Store} (hinv : Inv s) (hrel : Rel s sp) (r : Nat) (l : List TxOut) :
    Sim s sp (.setVout r l) := by
  simp only [Sim, step, Spec.ValueSem.step, withTx, editList]
  cases txRoot hinv hrel r with
  | none h1 h2 => simp only [h1, lookupTx, h2]; exact ⟨inv_skip hinv, rel_skip hrel, by simp⟩
  | other a e h1 h2 h3 h4 => simp only [h1, h3, h4, h2]; exact ⟨inv_skip hinv, rel_skip hrel, by simp⟩
  | tx a e tv o vi vo w h1 h2 hval h3 h4 ho hm t0 t1 t2 =>
    obtain ⟨X⟩ := txNodeInfo hinv hrel h2 hval t0
    have hoo : X.I.o = o := by have := X.I.ho; rw [ho] at this; cases this; rfl
    simp only [h1, h3, h4, hm, Bool.not_true, Bool.false_eq_true, if_false]
    cases hmu : e.isMut with
    | false => exact ⟨inv_skip hinv, rel_skip hrel, by simp⟩
    | true =>
      simp only [Bool.not_true, Bool.false_eq_true, if_false]
      have hres := set_tx_ref hinv hrel X hmu 1 (planOuts true l) (good_planOuts s.heap true l 5) true (.outs l)
        (fun lo hi t ht => ⟨tree_planOuts ht, by rw [(PT.root_sc ht).1]; rfl⟩)
        { tv with vout := l } (by simpa using X.hasm tv.vin l tv.wit) (by omega)
      have hlen : 1 < o.refs.length := by
        have := mapO_length X.hkids; rw [hoo] at this; simp at this; omega
      obtain ⟨ee, _, he, _⟩ := alloc_good hinv (show PlanGood s.heap (5 + 2) (planOuts true l) from good_planOuts s.heap true l 5)
      have ho1 : (allocPlan s.heap (planOuts true l)).1[a]? = some o := by
        rw [he]; exact getElem?_append_of_some ee ho
      rw [setRef_eq ho1 hlen]
      obtain ⟨k1, k2⟩ := hres
      rw [hoo] at k1 k2
      have hmo : o.isMut = true := by rw [hm, hmu]
      exact ⟨by simpa [hmo] using k1, by simpa [hmo, hmu] using k2, rfl⟩

theorem sim_setWit {s : St} {sp : Store} (hinv : Inv s) (hrel : Rel s sp) (r : Nat) (wl : List WitStack) :
    Sim s sp (.setWit r wl) := by
  simp only [Sim, step, Spec.ValueSem.step, withTx, editList]
  cases txRoot hinv hrel r with
  | none h1 h2 => simp only [h1, lookupTx, h2]; exact ⟨inv_skip hinv, rel_skip hrel, by simp⟩
  | other a e h1 h2 h3 h4 => simp only [h1, h3, h4, h2]; exact ⟨inv_skip hinv, rel_skip hrel, by simp⟩
  | tx a e tv o vi vo w h1 h2 hval h3 h4 ho hm t0 t1 t2 =>
    obtain ⟨X⟩ := txNodeInfo hinv hrel h2 hval t0
    have hoo : X.I.o = o := by have := X.I.ho; rw [ho] at this; cases this; rfl
    simp only [h1, h3, h4, hm, Bool.not_true, Bool.false_eq_true, if_false]
    cases hmu : e.isMut with
    | false => exact ⟨inv_skip hinv, rel_skip hrel, by simp⟩
    | true =>
      simp only [Bool.not_true, Bool.false_eq_true, if_false]
      have hres := set_tx_ref hinv hrel X hmu 2 (planWit wl) (good_planWit s.heap wl 4) false (.wit wl)
        (fun lo hi t ht => ⟨tree_planWit ht, by rw [(PT.root_sc ht).1]; rfl⟩)
        { tv with wit := wl } (by simpa using X.hasm tv.vin tv.vout wl) (by omega)
      have hlen : 2 < o.refs.length := by
        have := mapO_length X.hkids; rw [hoo] at this; simp at this; omega
      obtain ⟨ee, _, he, _⟩ := alloc_good hinv (show PlanGood s.heap (4 + 3) (planWit wl) from good_planWit s.heap wl 4)
      have ho1 : (allocPlan s.heap (planWit wl)).1[a]? = some o := by
        rw [he]; exact getElem?_append_of_some ee ho
      rw [setRef_eq ho1 hlen]
      obtain ⟨k1, k2⟩ := hres
      rw [hoo] at k1 k2
      have hmo : o.isMut = true := by rw [hm, hmu]
      exact ⟨by simpa [hmo] using k1, by simpa [hmo, hmu] using k2, rfl⟩

end BtcVerif.Model.Heap
