/-
  C11 helper lemmas, part 1: the algebra of the BIP173 checksum.

  `polymodStep c v = T c ^^^ v` with `T` xor-linear and injective on 30-bit states; the syndrome of an
  error pattern `E` is `run 0 E`; a pattern of weight 1 or 2 (and length ≤ 89) has a non-zero syndrome.
  The only computation is `orbitCheck` (31·88 applications of `T`, kernel-checked).
-/
import BtcVerif.Model.Bech32
import Mathlib.Logic.Function.Iterate

namespace BtcVerif.Bech32
open BtcVerif.Model.Bech32

/-! ### bit-operation vocabulary → arithmetic -/

theorem shr_eq (a n : Nat) : a >>> n = a / 2 ^ n := Nat.shiftRight_eq_div_pow a n
theorem shl_eq (a n : Nat) : a <<< n = a * 2 ^ n := Nat.shiftLeft_eq a n
theorem and_m25 (a : Nat) : a &&& 0x1ffffff = a % 2 ^ 25 := Nat.and_two_pow_sub_one_eq_mod a 25
theorem and_31 (a : Nat) : a &&& 31 = a % 32 := Nat.and_two_pow_sub_one_eq_mod a 5

/-- `(y * 32) ^^^ x = y * 32 + x` for a 5-bit `x` -/
theorem mul32_xor (y x : Nat) (hx : x < 32) : (y * 32) ^^^ x = y * 32 + x := by
  apply Nat.eq_of_testBit_eq
  intro i
  have h1 : y * 32 = y <<< 5 := by rw [Nat.shiftLeft_eq]
  have h2 : y * 32 + x = 2 ^ 5 * y + x := by omega
  rw [h2, Nat.testBit_two_pow_mul_add _ (by simpa using hx), Nat.testBit_xor, h1, Nat.testBit_shiftLeft]
  by_cases hi : i < 5
  · have : ¬ (i ≥ 5) := by omega
    simp [hi, this]
  · have hx' : x.testBit i = false := Nat.testBit_lt_two_pow (Nat.lt_of_lt_of_le hx (by
      have : 2 ^ 5 ≤ 2 ^ i := Nat.pow_le_pow_right (by omega) (by omega)
      simpa using this))
    have : i ≥ 5 := by omega
    simp [hi, this, hx']

/-! ### the generator part `G` and the linear map `T` -/

/-- contribution of the generator constants selected by the bits of `top` -/
def G (top : Nat) : Nat := genXor top generator 0 0

/-- multiplication of the state by x modulo g(x) -/
def T (c : Nat) : Nat := ((c % 2 ^ 25) * 32) ^^^ G (c / 2 ^ 25)

theorem genXor_acc (top : Nat) (gs : List Nat) (i chk : Nat) :
    genXor top gs i chk = chk ^^^ genXor top gs i 0 := by
  induction gs generalizing i chk with
  | nil => simp [genXor]
  | cons g gs ih =>
    simp only [genXor]
    rw [ih (i + 1) (chk ^^^ _), ih (i + 1) (0 ^^^ _), Nat.zero_xor, Nat.xor_assoc]

/-- `polymod_affine`, first half: one checksum step is `T` of the state xor the value -/
theorem polymodStep_eq (c v : Nat) : polymodStep c v = T c ^^^ v := by
  unfold polymodStep T G
  simp only []
  rw [genXor_acc, shr_eq, shl_eq, and_m25]
  rw [Nat.xor_assoc, Nat.xor_comm v, ← Nat.xor_assoc]

theorem bit_xor_ite (s t i g : Nat) :
    (if ((s ^^^ t) >>> i) &&& 1 = 1 then g else 0)
      = (if (s >>> i) &&& 1 = 1 then g else 0) ^^^ (if (t >>> i) &&& 1 = 1 then g else 0) := by
  simp only [Nat.and_one_is_mod, Nat.shiftRight_xor_distrib]
  have := @Nat.xor_mod_two_eq_one (s >>> i) (t >>> i)
  by_cases h1 : s >>> i % 2 = 1 <;> by_cases h2 : t >>> i % 2 = 1 <;> simp_all

theorem genXor_linear (s t : Nat) (gs : List Nat) (i : Nat) :
    genXor (s ^^^ t) gs i 0 = genXor s gs i 0 ^^^ genXor t gs i 0 := by
  induction gs generalizing i with
  | nil => simp [genXor]
  | cons g gs ih =>
    simp only [genXor, Nat.zero_xor]
    rw [genXor_acc, genXor_acc s, genXor_acc t, ih, bit_xor_ite]
    generalize genXor s gs (i + 1) 0 = a
    generalize genXor t gs (i + 1) 0 = b
    generalize (if (s >>> i) &&& 1 = 1 then g else 0) = p
    generalize (if (t >>> i) &&& 1 = 1 then g else 0) = q
    rw [Nat.xor_assoc p q, ← Nat.xor_assoc q a b, Nat.xor_comm q a, Nat.xor_assoc a q b,
      ← Nat.xor_assoc p a]

theorem G_linear (s t : Nat) : G (s ^^^ t) = G s ^^^ G t := genXor_linear s t _ 0

/-- `polymod_affine`, second half: `T` is GF(2)-linear -/
theorem T_linear (a b : Nat) : T (a ^^^ b) = T a ^^^ T b := by
  unfold T
  rw [Nat.xor_mod_two_pow, Nat.xor_div_two_pow, G_linear]
  have h : ∀ x : Nat, x * 32 = x <<< 5 := fun x => by rw [Nat.shiftLeft_eq]
  rw [h, h, h, Nat.shiftLeft_xor_distrib]
  generalize (a % 2 ^ 25) <<< 5 = p
  generalize (b % 2 ^ 25) <<< 5 = q
  generalize G (a / 2 ^ 25) = r
  generalize G (b / 2 ^ 25) = s
  rw [Nat.xor_assoc p q, ← Nat.xor_assoc q r s, Nat.xor_comm q r, Nat.xor_assoc r q s,
    ← Nat.xor_assoc p r]

theorem G_zero : G 0 = 0 := by decide

theorem T_zero : T 0 = 0 := by decide

/-- only the five low bits of `top` matter -/
theorem G_mod (t : Nat) : G t = G (t % 32) := by
  have h : ∀ i, i < 5 → (t >>> i) &&& 1 = ((t % 32) >>> i) &&& 1 := by
    intro i hi
    simp only [Nat.and_one_is_mod, shr_eq]
    have : i = 0 ∨ i = 1 ∨ i = 2 ∨ i = 3 ∨ i = 4 := by omega
    rcases this with rfl | rfl | rfl | rfl | rfl <;> omega
  unfold G generator Spec.Bech32.generator
  simp only [genXor, h 0 (by omega), h 1 (by omega), h 2 (by omega), h 3 (by omega), h 4 (by omega)]

theorem G_lt_small : ∀ t < 32, G t < 2 ^ 30 := by decide

theorem G_lt (t : Nat) : G t < 2 ^ 30 := by
  rw [G_mod]; exact G_lt_small _ (Nat.mod_lt _ (by omega))

theorem T_lt (c : Nat) : T c < 2 ^ 30 := by
  unfold T
  apply Nat.xor_lt_two_pow _ (G_lt _)
  have : c % 2 ^ 25 < 2 ^ 25 := Nat.mod_lt _ (by omega)
  omega

/-- the low five bits of the generator part are a bijection of the 5-bit `top` -/
theorem G_low_inj : ∀ t < 32, G t % 32 = 0 → t = 0 := by decide

/-- `T` has trivial kernel on 30-bit states -/
theorem T_eq_zero {c : Nat} (hc : c < 2 ^ 30) (h : T c = 0) : c = 0 := by
  unfold T at h
  have h32 : ((c % 2 ^ 25) * 32 ^^^ G (c / 2 ^ 25)) % 2 ^ 5 = 0 := by rw [h]
  rw [Nat.xor_mod_two_pow] at h32
  have hz : (c % 2 ^ 25) * 32 % 2 ^ 5 = 0 := by omega
  rw [hz, Nat.zero_xor] at h32
  have ht : c / 2 ^ 25 = 0 := G_low_inj _ (by omega) (by simpa using h32)
  rw [ht, G_zero, Nat.xor_zero] at h
  omega

theorem xor_eq_zero {a b : Nat} (h : a ^^^ b = 0) : a = b := by
  apply Nat.eq_of_testBit_eq
  intro i
  have := congrArg (fun x => Nat.testBit x i) h
  simp only [Nat.testBit_xor, Nat.zero_testBit] at this
  cases ha : a.testBit i <;> cases hb : b.testBit i <;> simp_all

theorem xor_lt30 {a b : Nat} (ha : a < 2 ^ 30) (hb : b < 2 ^ 30) : a ^^^ b < 2 ^ 30 :=
  Nat.xor_lt_two_pow ha hb

theorem T_injective {a b : Nat} (ha : a < 2 ^ 30) (hb : b < 2 ^ 30) (h : T a = T b) : a = b := by
  apply xor_eq_zero
  apply T_eq_zero (xor_lt30 ha hb)
  rw [T_linear, h, Nat.xor_self]

/-! ### iterates -/

theorem iter_lt (n : Nat) {c : Nat} (hc : c < 2 ^ 30) : T^[n] c < 2 ^ 30 := by
  cases n with
  | zero => simpa using hc
  | succ n => rw [Function.iterate_succ_apply']; exact T_lt _

theorem iter_linear (n a b : Nat) : T^[n] (a ^^^ b) = T^[n] a ^^^ T^[n] b := by
  induction n generalizing a b with
  | zero => rfl
  | succ n ih => rw [Function.iterate_succ_apply, Function.iterate_succ_apply,
      Function.iterate_succ_apply, T_linear, ih]

theorem iter_injective (n : Nat) {a b : Nat} (ha : a < 2 ^ 30) (hb : b < 2 ^ 30)
    (h : T^[n] a = T^[n] b) : a = b := by
  induction n generalizing a b with
  | zero => simpa using h
  | succ n ih =>
    rw [Function.iterate_succ_apply, Function.iterate_succ_apply] at h
    exact T_injective ha hb (ih (T_lt _) (T_lt _) h)

theorem iter_zero (n : Nat) : T^[n] 0 = 0 := by
  induction n with
  | zero => rfl
  | succ n ih => rw [Function.iterate_succ_apply, T_zero, ih]

/-! ### running the checksum from a state; linearity in (state, values) -/

/-- the checksum state after feeding `vs` from state `c` -/
def run (c : Nat) (vs : List Nat) : Nat := vs.foldl (fun c v => T c ^^^ v) c

theorem foldl_polymodStep (c : Nat) (vs : List Nat) : vs.foldl polymodStep c = run c vs := by
  unfold run
  congr 1
  funext c v
  exact polymodStep_eq c v

theorem polymod_eq_run (vs : List Nat) : polymod vs = run 1 vs := foldl_polymodStep 1 vs

@[simp] theorem run_nil (c : Nat) : run c [] = c := rfl
@[simp] theorem run_cons (c v : Nat) (vs : List Nat) : run c (v :: vs) = run (T c ^^^ v) vs := rfl

theorem run_append (c : Nat) (a b : List Nat) : run c (a ++ b) = run (run c a) b := by
  simp [run, List.foldl_append]

theorem run_lt {c : Nat} (hc : c < 2 ^ 30) {vs : List Nat} (hv : ∀ v ∈ vs, v < 2 ^ 30) :
    run c vs < 2 ^ 30 := by
  induction vs generalizing c with
  | nil => simpa using hc
  | cons v vs ih =>
    rw [run_cons]
    exact ih (xor_lt30 (T_lt _) (hv v (by simp))) (fun x hx => hv x (by simp [hx]))

/-- pointwise xor of two value lists of the same length -/
def xorList : List Nat → List Nat → List Nat
  | a :: as, b :: bs => (a ^^^ b) :: xorList as bs
  | _, _ => []

/-- the syndrome of the difference is the difference of the syndromes -/
theorem run_xor (c d : Nat) (a b : List Nat) (h : a.length = b.length) :
    run (c ^^^ d) (xorList a b) = run c a ^^^ run d b := by
  induction a generalizing b c d with
  | nil =>
    cases b with
    | nil => rfl
    | cons _ _ => simp at h
  | cons x xs ih =>
    cases b with
    | nil => simp at h
    | cons y ys =>
      simp only [xorList, run_cons]
      have : T (c ^^^ d) ^^^ (x ^^^ y) = (T c ^^^ x) ^^^ (T d ^^^ y) := by
        rw [T_linear]
        generalize T c = p
        generalize T d = q
        rw [Nat.xor_assoc p q, ← Nat.xor_assoc q x y, Nat.xor_comm q x, Nat.xor_assoc x q y,
          ← Nat.xor_assoc p x]
      rw [this]
      exact ih _ _ _ (by simpa using h)

/-! ### error patterns -/

/-- number of non-zero entries -/
def weight : List Nat → Nat
  | [] => 0
  | v :: vs => (if v = 0 then 0 else 1) + weight vs

/-- weight 0 from a non-zero state: the state never becomes zero (`T` is injective) -/
theorem run_ne_zero_w0 (E : List Nat) (c : Nat) (hc : c < 2 ^ 30) (h0 : c ≠ 0) (hw : weight E = 0) :
    run c E ≠ 0 := by
  induction E generalizing c with
  | nil => simpa using h0
  | cons v E ih =>
    have hv : v = 0 := by
      by_cases hv : v = 0
      · exact hv
      · simp [weight, hv] at hw
    subst hv
    have hw' : weight E = 0 := by simpa [weight] using hw
    rw [run_cons, Nat.xor_zero]
    exact ih (T c) (T_lt _) (fun h => h0 (T_eq_zero hc h)) hw'

/-- weight 1 from a state whose `T`-orbit stays above the 5-bit values -/
theorem run_ne_zero_w1 (E : List Nat) (c : Nat) (hE : ∀ v ∈ E, v < 32) (hw : weight E = 1)
    (horb : ∀ m, 1 ≤ m → m ≤ E.length → 32 ≤ T^[m] c) : run c E ≠ 0 := by
  induction E generalizing c with
  | nil => simp [weight] at hw
  | cons v E ih =>
    rw [run_cons]
    by_cases hv : v = 0
    · subst hv
      rw [Nat.xor_zero]
      apply ih (T c) (fun x hx => hE x (by simp [hx])) (by simpa [weight] using hw)
      intro m hm1 hm2
      have := horb (m + 1) (by omega) (by simp; omega)
      rwa [Function.iterate_succ_apply] at this
    · have hT : 32 ≤ T c := by simpa using horb 1 (by omega) (by simp)
      have hv32 : v < 32 := hE v (by simp)
      have hw' : weight E = 0 := by simp [weight, hv] at hw; omega
      apply run_ne_zero_w0 E _ (xor_lt30 (T_lt _) (by omega)) _ hw'
      intro h
      have := xor_eq_zero h
      omega

/-! ### the kernel-checked orbit fact -/

/-- `p` holds along the orbit `T c, T² c, …, Tⁿ c` (computed incrementally) -/
def orbitAll (p : Nat → Bool) : Nat → Nat → Bool
  | 0, _ => true
  | n + 1, c => p (T c) && orbitAll p n (T c)

theorem orbitAll_spec (p : Nat → Bool) (n c : Nat) (h : orbitAll p n c = true) :
    ∀ m, 1 ≤ m → m ≤ n → p (T^[m] c) = true := by
  induction n generalizing c with
  | zero => intro m h1 h2; omega
  | succ n ih =>
    simp only [orbitAll, Bool.and_eq_true] at h
    intro m h1 h2
    by_cases hm : m = 1
    · subst hm; simpa using h.1
    · have := ih (T c) h.2 (m - 1) (by omega) (by omega)
      rw [← Function.iterate_succ_apply, show (m - 1).succ = m by omega] at this
      exact this

/-- for every non-zero 5-bit value `x` the orbit `Tᵐ x`, `1 ≤ m ≤ 88`, never returns to a 5-bit value -/
def orbitCheck : Bool :=
  (List.range 31).all fun i => orbitAll (fun s => decide (32 ≤ s)) 88 (i + 1)

theorem orbitCheck_true : orbitCheck = true := by decide +kernel

theorem orbit_ge32 (x : Nat) (hx1 : 1 ≤ x) (hx : x < 32) (m : Nat) (hm1 : 1 ≤ m) (hm : m ≤ 88) :
    32 ≤ T^[m] x := by
  have h := orbitCheck_true
  unfold orbitCheck at h
  rw [List.all_eq_true] at h
  have := orbitAll_spec _ _ _ (h (x - 1) (by simp; omega)) m hm1 hm
  rw [show x - 1 + 1 = x by omega] at this
  simpa using this

/-! ### every error pattern of weight 1 or 2 and length ≤ 89 has a non-zero syndrome -/

theorem syndrome_ne_zero_le2 (E : List Nat) (hE : ∀ v ∈ E, v < 32) (hlen : E.length ≤ 89)
    (hw : weight E = 1 ∨ weight E = 2) : run 0 E ≠ 0 := by
  induction E with
  | nil => simp [weight] at hw
  | cons v E ih =>
    rw [run_cons, T_zero, Nat.zero_xor]
    have hE' : ∀ x ∈ E, x < 32 := fun x hx => hE x (by simp [hx])
    have hl : E.length ≤ 88 := by simpa using hlen
    by_cases hv : v = 0
    · subst hv
      exact ih hE' (by omega) (by simpa [weight] using hw)
    · have hv32 : v < 32 := hE v (by simp)
      simp only [weight, hv, if_false] at hw
      rcases hw with hw | hw
      · exact run_ne_zero_w0 E v (by omega) hv (by omega)
      · exact run_ne_zero_w1 E v hE' (by omega)
          (fun m h1 h2 => orbit_ge32 v (by omega) hv32 m h1 (by omega))

end BtcVerif.Bech32
