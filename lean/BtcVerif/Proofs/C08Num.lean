/-
  Helper lemmas for C08's number codec: byte lengths, little-endian digits, the arithmetic
  reading of numEncode / numDecode / minimal, and `bn2vch` / `vch2bn` (MPI route) against them.
-/
import BtcVerif.Model.ScriptBuild
import Mathlib.Data.List.Induction
import Mathlib.Tactic.IntervalCases
import Mathlib.Tactic.ByContra
import Mathlib.Tactic.Ring

namespace BtcVerif
open BtcVerif.Spec.Script

/-! ### UInt8 bit operations used by the MPI code -/

theorem nat_or128 : ∀ n, n < 128 → n ||| 128 = n + 128 := by decide
set_option maxRecDepth 8000 in
theorem nat_and128 : ∀ n, n < 256 → ((n &&& 128 ≠ 0) ↔ n ≥ 128) := by decide
set_option maxRecDepth 8000 in
theorem nat_and127 : ∀ n, n < 256 → n ≥ 128 → n &&& 127 = n - 128 := by decide

theorem u8_or80 (b : UInt8) (h : b.toNat < 128) : (b ||| 0x80).toNat = b.toNat + 128 := by
  rw [UInt8.toNat_or]; exact nat_or128 _ h

theorem u8_and80 (i : UInt8) : (i &&& 0x80 ≠ 0) ↔ i.toNat ≥ 128 := by
  rw [← nat_and128 i.toNat i.toNat_lt]
  have e : (i &&& 0x80).toNat = i.toNat &&& 128 := UInt8.toNat_and i 0x80
  rw [← e]
  constructor
  · intro h h2; apply h; apply UInt8.toNat_inj.mp; simpa using h2
  · intro h h2; apply h; rw [h2]; rfl

theorem u8_and7f (i : UInt8) (h : i.toNat ≥ 128) : (i &&& 0x7f).toNat = i.toNat - 128 := by
  rw [UInt8.toNat_and]; exact nat_and127 _ i.toNat_lt h

theorem u8_ofNat_toNat (n : Nat) (h : n < 256) : (UInt8.ofNat n).toNat = n := by
  simp [UInt8.toNat_ofNat', Nat.mod_eq_of_lt h]

theorem u8_eq_of_toNat {a b : UInt8} (h : a.toNat = b.toNat) : a = b := UInt8.toNat_inj.mp h

/-! ### powers -/

theorem pow256_pos (k : Nat) : 0 < 256 ^ k := Nat.pow_pos (by omega)

theorem pow256_succ (k : Nat) : 256 ^ (k + 1) = 256 * 256 ^ k := by
  rw [Nat.pow_succ]; omega

theorem two_pow_8mul (k : Nat) : 2 ^ (8 * k) = 256 ^ k := by
  rw [Nat.pow_mul]

theorem two_pow_mul8 (k : Nat) : 2 ^ (k * 8) = 256 ^ k := by
  rw [Nat.mul_comm, two_pow_8mul]

/-! ### little-endian digits -/

theorem leNat_append (a b : Bytes) : leNat (a ++ b) = leNat a + 256 ^ a.length * leNat b := by
  induction a with
  | nil => simp [leNat]
  | cons x a ih =>
    simp only [List.cons_append, leNat, ih, List.length_cons, pow256_succ]
    rw [Nat.mul_add, Nat.mul_assoc]; omega

theorem leNat_singleton (t : UInt8) : leNat [t] = t.toNat := by simp [leNat]

theorem leBytes_mod (w n : Nat) : leBytes w (n % 256 ^ w) = leBytes w n := by
  have h := leBytes_leNat (leBytes w n)
  rw [leBytes_length, leNat_leBytes] at h
  exact h

theorem leBytes_add_mul (w n c : Nat) : leBytes w (n + c * 256 ^ w) = leBytes w n := by
  rw [← leBytes_mod w (n + c * 256 ^ w), Nat.add_mul_mod_self_right, leBytes_mod]

theorem leBytes_succ_right (w n : Nat) :
    leBytes (w + 1) n = leBytes w n ++ [UInt8.ofNat (n / 256 ^ w % 256)] := by
  induction w generalizing n with
  | zero => simp [leBytes]
  | succ w ih =>
    rw [leBytes, ih (n / 256)]
    simp only [leBytes, List.cons_append, pow256_succ, Nat.div_div_eq_div_mul]

theorem leBytes_inj_of_lt {w a b : Nat} (ha : a < 256 ^ w) (hb : b < 256 ^ w)
    (h : leBytes w a = leBytes w b) : a = b := by
  have := congrArg leNat h
  rwa [leNat_leBytes, leNat_leBytes, Nat.mod_eq_of_lt ha, Nat.mod_eq_of_lt hb] at this

/-- a byte string is determined by its length and its little-endian value -/
theorem eq_leBytes_of_leNat {b : Bytes} {w x : Nat} (hl : b.length = w) (hv : leNat b = x) :
    b = leBytes w x := by
  rw [← hl, ← hv, leBytes_leNat]

theorem beNat_eq_leNat_reverse (l : Bytes) : beNat l = leNat l.reverse := by
  unfold beNat
  induction l using List.reverseRecOn with
  | nil => rfl
  | append_singleton l x ih =>
    rw [List.foldl_append, List.reverse_append]
    simp only [List.foldl_cons, List.foldl_nil, List.reverse_cons, List.reverse_nil, List.nil_append,
      List.cons_append, leNat, ih]
    omega

theorem beNat_beBytes (w n : Nat) (h : n < 256 ^ w) : beNat (beBytes w n) = n := by
  rw [beNat_eq_leNat_reverse, beBytes, List.reverse_reverse, leNat_leBytes, Nat.mod_eq_of_lt h]

/-! ### byte length -/

theorem byteLen_zero : byteLen 0 = 0 := by unfold byteLen; simp

theorem byteLen_pos {n : Nat} (h : n ≠ 0) : byteLen n = byteLen (n / 256) + 1 := by
  rw [byteLen]; simp [h]

theorem byteLen_bounds (n : Nat) (h : n ≠ 0) :
    256 ^ (byteLen n - 1) ≤ n ∧ n < 256 ^ byteLen n := by
  induction n using Nat.strongRecOn with
  | _ n ih =>
    rw [byteLen_pos h]
    by_cases hq : n / 256 = 0
    · have : n < 256 := by omega
      simp [hq, byteLen_zero]; omega
    · obtain ⟨h1, h2⟩ := ih (n / 256) (by omega) hq
      have hnb : byteLen (n / 256) ≥ 1 := by rw [byteLen_pos hq]; omega
      obtain ⟨j, hj⟩ : ∃ j, byteLen (n / 256) = j + 1 := ⟨byteLen (n / 256) - 1, by omega⟩
      rw [hj] at h1 h2 ⊢
      simp only [Nat.add_sub_cancel] at h1 ⊢
      rw [pow256_succ] at h2 ⊢
      rw [pow256_succ (j + 1)]
      constructor <;> omega

theorem byteLen_eq {n k : Nat} (h1 : 256 ^ k ≤ n) (h2 : n < 256 ^ (k + 1)) : byteLen n = k + 1 := by
  have hn : n ≠ 0 := by have := pow256_pos k; omega
  obtain ⟨b1, b2⟩ := byteLen_bounds n hn
  have hpos : byteLen n ≥ 1 := by rw [byteLen_pos hn]; omega
  -- 256^(byteLen n - 1) ≤ n < 256^(k+1) and 256^k ≤ n < 256^(byteLen n)
  have a1 : byteLen n - 1 < k + 1 := by
    apply (Nat.pow_lt_pow_iff_right (a := 256) (by omega)).mp; omega
  have a2 : k < byteLen n := by
    apply (Nat.pow_lt_pow_iff_right (a := 256) (by omega)).mp; omega
  omega

theorem byteLen_eq_iff {n k : Nat} : byteLen n = k + 1 ↔ 256 ^ k ≤ n ∧ n < 256 ^ (k + 1) := by
  constructor
  · intro h
    have hn : n ≠ 0 := by intro h0; rw [h0, byteLen_zero] at h; omega
    have := byteLen_bounds n hn
    rw [h] at this; simpa using this
  · rintro ⟨h1, h2⟩; exact byteLen_eq h1 h2

theorem byteLen_eq_zero_iff {n : Nat} : byteLen n = 0 ↔ n = 0 := by
  constructor
  · intro h; by_contra hn; rw [byteLen_pos hn] at h; omega
  · intro h; rw [h, byteLen_zero]

/-! ### numLen, numEncode, numDecode in arithmetic form -/

theorem numLen_zero : numLen 0 = 0 := by simp [numLen, byteLen_zero]

theorem numLen_eq_zero_iff {m : Nat} : numLen m = 0 ↔ m = 0 := by
  unfold numLen; rw [byteLen_eq_zero_iff]; omega

theorem numLen_pos {m : Nat} (h : m ≠ 0) :
    ∃ j, numLen m = j + 1 ∧ 256 ^ j ≤ 2 * m ∧ m < 128 * 256 ^ j := by
  have h2 : 2 * m ≠ 0 := by omega
  obtain ⟨b1, b2⟩ := byteLen_bounds (2 * m) h2
  have hp : byteLen (2 * m) ≥ 1 := by rw [byteLen_pos h2]; omega
  refine ⟨byteLen (2 * m) - 1, by unfold numLen; omega, b1, ?_⟩
  have e : byteLen (2 * m) = (byteLen (2 * m) - 1) + 1 := by omega
  rw [e, pow256_succ] at b2
  omega

theorem numLen_eq {m j : Nat} (h1 : 256 ^ j ≤ 2 * m) (h2 : m < 128 * 256 ^ j) : numLen m = j + 1 := by
  unfold numLen
  apply byteLen_eq h1
  rw [pow256_succ]; omega

theorem numLen_eq_iff {m j : Nat} : numLen m = j + 1 ↔ 256 ^ j ≤ 2 * m ∧ m < 128 * 256 ^ j := by
  unfold numLen
  rw [byteLen_eq_iff, pow256_succ]; omega

theorem numEncode_zero : numEncode 0 = [] := by
  simp [numEncode, numLen_zero, leBytes]

theorem numEncode_length (z : Int) : (numEncode z).length = numLen z.natAbs := by
  simp [numEncode]

/-- the number whose `numLen` little-endian digits are `numEncode z` -/
def numCode (z : Int) : Nat :=
  if z < 0 then z.natAbs + 128 * 256 ^ (numLen z.natAbs - 1) else z.natAbs

theorem numEncode_def (z : Int) : numEncode z = leBytes (numLen z.natAbs) (numCode z) := by
  simp only [numEncode, numCode]

theorem numCode_lt (z : Int) : numCode z < 256 ^ numLen z.natAbs := by
  unfold numCode
  by_cases hz : z.natAbs = 0
  · have : ¬ z < 0 := by omega
    simp [this, hz]
  · obtain ⟨j, hj, h1, h2⟩ := numLen_pos hz
    rw [hj, pow256_succ]; simp only [Nat.add_sub_cancel]
    split <;> omega

theorem numEncode_leNat (z : Int) : leNat (numEncode z) = numCode z := by
  rw [numEncode_def, leNat_leBytes, Nat.mod_eq_of_lt (numCode_lt z)]

/-- splitting a non-empty string at its last byte -/
theorem reverse_cons_decomp {b : Bytes} {top : UInt8} {r : Bytes} (h : b.reverse = top :: r) :
    b = r.reverse ++ [top] ∧ b.length = r.length + 1 ∧
      leNat b = leNat r.reverse + 256 ^ r.length * top.toNat ∧ leNat r.reverse < 256 ^ r.length := by
  have hb : b = r.reverse ++ [top] := by
    rw [← List.reverse_reverse b, h]; simp
  refine ⟨hb, by rw [hb]; simp, ?_, ?_⟩
  · rw [hb, leNat_append, leNat_singleton]; simp
  · have := leNat_lt r.reverse; simpa using this

/-- the top bit of the last byte is set iff the little-endian value reaches 128·256^(len−1) -/
theorem top_ge_iff {L P t : Nat} (hL : L < P) : t ≥ 128 ↔ L + P * t ≥ 128 * P := by
  constructor
  · intro h
    have : P * 128 ≤ P * t := Nat.mul_le_mul_left _ h
    omega
  · intro h
    by_contra hc
    have : P * t ≤ P * 127 := Nat.mul_le_mul_left _ (by omega)
    omega

theorem numDecode_nil : numDecode [] = 0 := by simp [numDecode]

theorem numDecode_eq (b : Bytes) (hb : b ≠ []) :
    numDecode b =
      if leNat b ≥ 128 * 256 ^ (b.length - 1)
      then - ((leNat b - 128 * 256 ^ (b.length - 1) : Nat) : Int) else (leNat b : Int) := by
  unfold numDecode
  rcases hr : b.reverse with _ | ⟨top, r⟩
  · exact absurd (by simpa using hr) hb
  · obtain ⟨_, hl, hv, hlt⟩ := reverse_cons_decomp hr
    simp only [hl, Nat.add_sub_cancel, hv]
    have := top_ge_iff (t := top.toNat) hlt
    by_cases ht : top.toNat ≥ 128
    · simp only [ht, if_true]; rw [if_pos (this.mp ht)]
    · simp only [ht, if_false]; rw [if_neg (fun h => ht (this.mpr h))]

theorem numDecode_numEncode (z : Int) : numDecode (numEncode z) = z := by
  by_cases hz : z.natAbs = 0
  · have : z = 0 := by omega
    subst this; simp [numEncode_zero, numDecode_nil]
  · obtain ⟨j, hj, h1, h2⟩ := numLen_pos hz
    have hlen := numEncode_length z
    have hne : numEncode z ≠ [] := by
      intro h; rw [h] at hlen; simp at hlen; omega
    rw [numDecode_eq _ hne, numEncode_leNat, hlen, hj]
    simp only [Nat.add_sub_cancel, numCode, hj]
    by_cases hneg : z < 0
    · simp only [hneg, if_true]
      rw [if_pos (by omega)]; omega
    · simp only [hneg, if_false]
      rw [if_neg (by omega)]; omega

/-- magnitude part of a non-empty string: its value with the sign bit removed -/
def numMag (b : Bytes) : Nat := leNat b % (128 * 256 ^ (b.length - 1))

/-- Core's minimality test in arithmetic form: the magnitude needs exactly this many bytes -/
theorem minimal_iff (b : Bytes) : minimal b ↔ numLen (numMag b) = b.length := by
  unfold minimal numMag
  rcases hr : b.reverse with _ | ⟨t, _ | ⟨p, r⟩⟩
  · have : b = [] := by simpa using hr
    subst this; simp [leNat, numLen_zero]
  · -- one byte
    obtain ⟨hb, hl, hv, _⟩ := reverse_cons_decomp hr
    simp only [List.reverse_nil, leNat, List.length_nil, Nat.pow_zero, Nat.one_mul, Nat.zero_add] at hv hl
    simp only [hl, hv, Nat.sub_self, Nat.pow_zero, Nat.mul_one, or_false]
    rw [show (1 : Nat) = 0 + 1 from rfl, numLen_eq_iff]
    have := t.toNat_lt
    simp; omega
  · -- at least two bytes: b = r.reverse ++ [p, t]
    obtain ⟨hb, hl, hv, _⟩ := reverse_cons_decomp hr
    have hv2 : leNat (p :: r).reverse = leNat r.reverse + 256 ^ r.length * p.toNat := by
      rw [List.reverse_cons, leNat_append, leNat_singleton]; simp
    have hL := leNat_lt r.reverse
    simp only [List.length_reverse] at hL
    simp only [List.length_cons] at hl hv
    rw [hv, hv2, hl]
    simp only [Nat.add_sub_cancel, pow256_succ]
    generalize leNat r.reverse = L at *
    generalize hP : 256 ^ r.length = P at *
    have hPpos : 0 < P := by rw [← hP]; exact pow256_pos _
    have hp := p.toNat_lt
    have ht := t.toNat_lt
    -- split t = 128 * s + t'
    obtain ⟨s, t', hts, ht', hs⟩ : ∃ s t', t.toNat = 128 * s + t' ∧ t' < 128 ∧ s < 2 :=
      ⟨t.toNat / 128, t.toNat % 128, by omega, by omega, by omega⟩
    have hmod : t.toNat % 128 = t' := by omega
    rw [hmod]
    -- products as atoms
    have e1 : 256 * P * t.toNat = 32768 * P * s + 256 * (P * t') := by
      rw [hts]; ring
    have bPp : P * p.toNat ≤ P * 255 := Nat.mul_le_mul_left _ (by omega)
    have bPt : P * t' ≤ P * 127 := Nat.mul_le_mul_left _ (by omega)
    have hval : (L + P * p.toNat + 256 * P * t.toNat) % (128 * (256 * P)) = L + P * p.toNat + 256 * (P * t') := by
      rw [e1]
      have hlt : L + P * p.toNat + 256 * (P * t') < 128 * (256 * P) := by omega
      have hs' : s = 0 ∨ s = 1 := by omega
      rcases hs' with rfl | rfl
      · simp only [Nat.mul_zero, Nat.zero_add]; exact Nat.mod_eq_of_lt hlt
      · rw [show L + P * p.toNat + (32768 * P * 1 + 256 * (P * t')) =
            (L + P * p.toNat + 256 * (P * t')) + 128 * (256 * P) by omega,
          Nat.add_mod_right, Nat.mod_eq_of_lt hlt]
    rw [hval, show r.length + 1 + 1 = (r.length + 1) + 1 from rfl, numLen_eq_iff, pow256_succ, hP]
    constructor
    · rintro (h | h)
      · have : P * 1 ≤ P * t' := Nat.mul_le_mul_left _ (by omega)
        omega
      · have : P * 128 ≤ P * p.toNat := Nat.mul_le_mul_left _ h
        omega
    · rintro ⟨h1, _⟩
      by_contra hc
      have hc1 : t' = 0 := by omega
      have hc2 : p.toNat ≤ 127 := by omega
      have : P * p.toNat ≤ P * 127 := Nat.mul_le_mul_left _ hc2
      subst hc1
      simp only [Nat.mul_zero] at h1
      omega

theorem numMag_numEncode (z : Int) : numMag (numEncode z) = z.natAbs := by
  unfold numMag
  rw [numEncode_leNat, numEncode_length]
  by_cases hz : z.natAbs = 0
  · have : ¬ z < 0 := by omega
    simp [numCode, this, hz, numLen_zero]
  · obtain ⟨j, hj, h1, h2⟩ := numLen_pos hz
    simp only [numCode, hj, Nat.add_sub_cancel]
    split
    · rw [Nat.add_mod_right, Nat.mod_eq_of_lt h2]
    · exact Nat.mod_eq_of_lt h2

theorem numEncode_minimal (z : Int) : minimal (numEncode z) := by
  rw [minimal_iff, numMag_numEncode, numEncode_length]

theorem numEncode_numDecode (b : Bytes) (hm : minimal b) : numEncode (numDecode b) = b := by
  by_cases hb : b = []
  · subst hb; simp [numDecode_nil, numEncode_zero]
  · rw [minimal_iff] at hm
    obtain ⟨j, hj⟩ : ∃ j, b.length = j + 1 :=
      ⟨b.length - 1, by have : b.length ≠ 0 := by simpa using hb
                        omega⟩
    have hlt := leNat_lt b
    rw [hj, pow256_succ] at hlt
    rw [hj, numLen_eq_iff] at hm
    unfold numMag at hm
    rw [hj] at hm; simp only [Nat.add_sub_cancel] at hm
    have hdec := numDecode_eq b hb
    rw [hj] at hdec; simp only [Nat.add_sub_cancel] at hdec
    have hPpos := pow256_pos j
    obtain ⟨h1, h2⟩ := hm
    have key : numLen (numDecode b).natAbs = j + 1 ∧ numCode (numDecode b) = leNat b := by
      generalize hP : 256 ^ j = P at *
      generalize leNat b = n at *
      by_cases hge : n ≥ 128 * P
      · have hmod : n % (128 * P) = n - 128 * P := by
          rw [Nat.mod_eq_sub_mod hge, Nat.mod_eq_of_lt (by omega)]
        rw [hmod] at h1 h2
        rw [if_pos hge] at hdec
        have hna : (numDecode b).natAbs = n - 128 * P := by omega
        have hnl : numLen (n - 128 * P) = j + 1 := by
          rw [numLen_eq_iff, hP]; omega
        have hneg : numDecode b < 0 := by omega
        refine ⟨by rw [hna, hnl], ?_⟩
        unfold numCode
        rw [if_pos hneg, hna, hnl]; simp only [Nat.add_sub_cancel]; rw [hP]; omega
      · have hmod : n % (128 * P) = n := Nat.mod_eq_of_lt (by omega)
        rw [hmod] at h1 h2
        rw [if_neg hge] at hdec
        have hna : (numDecode b).natAbs = n := by omega
        have hnl : numLen n = j + 1 := by
          rw [numLen_eq_iff, hP]; omega
        have hneg : ¬ numDecode b < 0 := by omega
        refine ⟨by rw [hna, hnl], ?_⟩
        unfold numCode
        rw [if_neg hneg, hna]
    rw [numEncode_def, key.1, key.2, ← hj, leBytes_leNat]

/-! ### the MPI route of _bignum.py -/

open BtcVerif.Model.Script

theorem bitLength_zero : bitLength 0 = 0 := by unfold bitLength; simp

theorem bitLength_pos {n : Nat} (h : n ≠ 0) : bitLength n = bitLength (n / 2) + 1 := by
  rw [bitLength]; simp [h]

theorem bitLength_bounds (n : Nat) (h : n ≠ 0) :
    2 ^ (bitLength n - 1) ≤ n ∧ n < 2 ^ bitLength n := by
  induction n using Nat.strongRecOn with
  | _ n ih =>
    rw [bitLength_pos h]
    by_cases hq : n / 2 = 0
    · have : n = 1 := by omega
      subst this; simp [bitLength_zero]
    · obtain ⟨h1, h2⟩ := ih (n / 2) (by omega) hq
      have hnb : bitLength (n / 2) ≥ 1 := by rw [bitLength_pos hq]; omega
      obtain ⟨j, hj⟩ : ∃ j, bitLength (n / 2) = j + 1 := ⟨bitLength (n / 2) - 1, by omega⟩
      rw [hj] at h1 h2 ⊢
      simp only [Nat.add_sub_cancel] at h1 ⊢
      rw [Nat.pow_succ] at h2 ⊢
      rw [Nat.pow_succ 2 (j + 1)]
      constructor <;> omega

theorem bnBytes_eq (n : Nat) : (bitLength n + 7) / 8 = byteLen n := by
  by_cases h : n = 0
  · subst h; simp [bitLength_zero, byteLen_zero]
  · obtain ⟨b1, b2⟩ := bitLength_bounds n h
    have hbl : bitLength n ≥ 1 := by rw [bitLength_pos h]; omega
    obtain ⟨k, hk⟩ : ∃ k, (bitLength n + 7) / 8 = k + 1 := ⟨(bitLength n + 7) / 8 - 1, by omega⟩
    rw [hk]; symm
    apply byteLen_eq
    · rw [← two_pow_8mul]
      exact Nat.le_trans (Nat.pow_le_pow_right (by omega) (by omega)) b1
    · rw [← two_pow_8mul]
      exact Nat.lt_of_lt_of_le b2 (Nat.pow_le_pow_right (by omega) (by omega))

theorem two_pow_8k7 (k : Nat) : 2 ^ (8 * k + 7) = 128 * 256 ^ k := by
  rw [Nat.pow_add, two_pow_8mul]; omega

/-- `have_ext` (bit length a multiple of 8) says that the top byte has its high bit set -/
theorem haveExt_iff {n k : Nat} (h : n ≠ 0) (hk : byteLen n = k + 1) :
    bitLength n % 8 = 0 ↔ n ≥ 128 * 256 ^ k := by
  obtain ⟨b1, b2⟩ := bitLength_bounds n h
  have hb := bnBytes_eq n
  rw [hk] at hb
  constructor
  · intro h8
    have e : bitLength n - 1 = 8 * k + 7 := by omega
    rw [e, two_pow_8k7] at b1; exact b1
  · intro hge
    by_contra hne
    have : bitLength n ≤ 8 * k + 7 := by omega
    have := Nat.lt_of_lt_of_le b2 (Nat.pow_le_pow_right (by omega) this)
    rw [two_pow_8k7] at this; omega

theorem bn2binLoop_reverse (v i : Nat) : (bn2binLoop v i).reverse = leBytes i v := by
  induction i with
  | zero => rfl
  | succ i ih =>
    rw [bn2binLoop, List.reverse_cons, ih, leBytes_succ_right, two_pow_mul8]

theorem bn2bin_reverse (v : Nat) : (bn2bin v).reverse = leBytes (byteLen v) v := by
  unfold bn2bin bnBytes
  simp only [Bool.false_eq_true, if_false, Nat.add_zero]
  rw [bnBytes_eq, bn2binLoop_reverse]

theorem mpi2vch_append (s x : Bytes) (hs : s.length = 4) : mpi2vch (s ++ x) = x.reverse := by
  unfold mpi2vch
  rw [List.drop_left' hs]

theorem beBytes_length (w n : Nat) : (beBytes w n).length = w := by simp [beBytes]

/-- `bn2vch` computes the reference encoding; the only way it fails is `struct.pack(">I", …)` on a
    size of 2³² bytes or more -/
theorem bn2vch_eq (z : Int) :
    bn2vch z = if (numEncode z).length < 2 ^ 32 then .ok (numEncode z) else .error structError := by
  by_cases hz : z.natAbs = 0
  · have : z = 0 := by omega
    subst this
    simp [bn2vch, bn2mpi, bitLength_zero, packBE32, bnBytes, bn2bin, bn2binLoop, numEncode_zero, mpi2vch,
      beBytes_length]
  · obtain ⟨k, hk⟩ : ∃ k, byteLen z.natAbs = k + 1 :=
      ⟨byteLen z.natAbs - 1, by have := byteLen_pos hz; omega⟩
    have hbl : bitLength z.natAbs > 0 := by rw [bitLength_pos hz]; omega
    obtain ⟨b1, b2⟩ := byteLen_bounds _ hz
    rw [hk] at b1 b2; simp only [Nat.add_sub_cancel] at b1
    rw [pow256_succ] at b2
    have hext := haveExt_iff hz hk
    have hrev := bn2bin_reverse z.natAbs
    rw [hk] at hrev
    have hlen := numEncode_length z
    unfold bn2vch bn2mpi
    simp only [hbl, if_true]
    by_cases he : bitLength z.natAbs % 8 = 0
    · -- have_ext
      have hge := hext.mp he
      have hnl : numLen z.natAbs = k + 1 + 1 := by
        apply numLen_eq <;> rw [pow256_succ] <;> omega
      rw [hlen, hnl]
      simp only [he, decide_true, if_true, bnBytes, bnBytes_eq, hk, packBE32]
      by_cases hsz : k + 1 + 1 < 2 ^ 32
      · simp only [hsz, if_true]
        have hs4 : (beBytes 4 (k + 1 + 1)).length = 4 := beBytes_length _ _
        rw [numEncode_def, hnl, leBytes_succ_right]
        by_cases hneg : z < 0
        · simp only [hneg, decide_true, if_true, List.append_assoc]
          rw [mpi2vch_append _ _ hs4]
          simp only [List.cons_append, List.nil_append, List.reverse_cons, hrev]
          have e1 : numCode z = z.natAbs + 128 * 256 ^ (k + 1) := by
            simp [numCode, hneg, hnl]
          rw [e1, leBytes_add_mul]
          have e2 : (z.natAbs + 128 * 256 ^ (k + 1)) / 256 ^ (k + 1) % 256 = 128 := by
            rw [Nat.add_mul_div_right _ _ (pow256_pos _), pow256_succ,
              Nat.div_eq_of_lt (by omega)]
          rw [e2]; rfl
        · simp only [hneg, decide_false, Bool.false_eq_true, if_false, List.append_assoc]
          rw [mpi2vch_append _ _ hs4]
          simp only [List.cons_append, List.nil_append, List.reverse_cons, hrev]
          have e1 : numCode z = z.natAbs := by simp [numCode, hneg]
          rw [e1]
          have e2 : z.natAbs / 256 ^ (k + 1) % 256 = 0 := by
            rw [pow256_succ, Nat.div_eq_of_lt (by omega)]
          rw [e2]; rfl
      · simp only [hsz, if_false]
    · -- no extension byte
      have hlt : z.natAbs < 128 * 256 ^ k := by
        by_contra hc; exact he (hext.mpr (by omega))
      have hnl : numLen z.natAbs = k + 1 := by
        apply numLen_eq <;> omega
      rw [hlen, hnl]
      simp only [he, decide_false, Bool.false_eq_true, if_false, bnBytes, bnBytes_eq, hk, packBE32, Nat.add_zero]
      by_cases hsz : k + 1 < 2 ^ 32
      · simp only [hsz, if_true]
        have hs4 : (beBytes 4 (k + 1)).length = 4 := beBytes_length _ _
        rw [numEncode_def, hnl]
        by_cases hneg : z < 0
        · simp only [hneg, decide_true, if_true]
          -- the magnitude bytes are non-empty; split off the most significant one
          rw [leBytes_succ_right] at hrev
          rcases hb : bn2bin z.natAbs with _ | ⟨b, r⟩
          · rw [hb] at hrev; simp at hrev
          · rw [hb] at hrev
            simp only [List.reverse_cons] at hrev
            obtain ⟨hr, hbt⟩ := List.append_inj' hrev (by simp)
            simp only [List.append_nil]
            rw [mpi2vch_append _ _ hs4]
            simp only [List.reverse_cons, hr]
            have hq : z.natAbs / 256 ^ k < 128 := by
              apply (Nat.div_lt_iff_lt_mul (pow256_pos k)).mpr; omega
            have hbv : b.toNat = z.natAbs / 256 ^ k := by
              have : b = UInt8.ofNat (z.natAbs / 256 ^ k % 256) := by simpa using hbt
              rw [this, u8_ofNat_toNat _ (Nat.mod_lt _ (by omega))]
              exact Nat.mod_eq_of_lt (Nat.lt_trans hq (by omega))
            have e1 : numCode z = z.natAbs + 128 * 256 ^ k := by
              simp [numCode, hneg, hnl]
            rw [e1, leBytes_succ_right, leBytes_add_mul]
            have e2 : (z.natAbs + 128 * 256 ^ k) / 256 ^ k % 256 = z.natAbs / 256 ^ k + 128 := by
              rw [Nat.add_mul_div_right _ _ (pow256_pos _)]; omega
            rw [e2]
            have e3 : b ||| 128 = UInt8.ofNat (z.natAbs / 256 ^ k + 128) := by
              apply u8_eq_of_toNat
              rw [u8_or80 _ (by omega), u8_ofNat_toNat _ (by omega), hbv]
            rw [e3]
        · simp only [hneg, decide_false, Bool.false_eq_true, if_false, List.append_nil]
          rw [mpi2vch_append _ _ hs4, hrev]
          have e1 : numCode z = z.natAbs := by simp [numCode, hneg]
          rw [e1]
      · simp only [hsz, if_false]

theorem bin2bn_eq (s : Bytes) : bin2bn s = leNat s.reverse := by
  rw [← beNat_eq_leNat_reverse]; rfl

/-- `vch2bn` computes the reference decoding (never `None`); the only way it fails is
    `struct.pack(">I", len)` on 2³² bytes or more -/
theorem vch2bn_eq (b : Bytes) :
    vch2bn b = if b.length < 2 ^ 32 then .ok (some (numDecode b)) else .error structError := by
  unfold vch2bn vch2mpi packBE32
  by_cases hsz : b.length < 2 ^ 32
  · simp only [hsz, if_true]
    have hs4 : (beBytes 4 b.length).length = 4 := beBytes_length _ _
    unfold mpi2bn
    have hlen : (beBytes 4 b.length ++ b.reverse).length = b.length + 4 := by simp [hs4]; omega
    have htake : (beBytes 4 b.length ++ b.reverse).take 4 = beBytes 4 b.length := by
      rw [List.take_left' hs4]
    have hdrop : (beBytes 4 b.length ++ b.reverse).drop 4 = b.reverse := List.drop_left' hs4
    have hbe : beNat (beBytes 4 b.length) = b.length := beNat_beBytes 4 _ (by simpa using hsz)
    rw [hlen, htake, hdrop, hbe]
    simp only [show ¬ (b.length + 4 < 4) by omega, if_false, ne_eq, not_true_eq_false]
    by_cases h0 : b.length = 0
    · have : b = [] := by simpa using h0
      subst this; simp [numDecode_nil]
    · simp only [h0, if_false]
      rcases hr : b.reverse with _ | ⟨i, r⟩
      · have : b = [] := by simpa using hr
        subst this; simp at h0
      · obtain ⟨_, hl, hv, hlt⟩ := reverse_cons_decomp hr
        unfold numDecode
        rw [hr]
        simp only [u8_and80]
        by_cases hi : i.toNat ≥ 128
        · simp only [hi, if_true]
          rw [bin2bn_eq, List.reverse_cons, leNat_append, leNat_singleton, u8_and7f _ hi, hv, hl]
          simp only [List.length_reverse, Nat.add_sub_cancel]
          obtain ⟨i', hi'⟩ : ∃ i', i.toNat = i' + 128 := ⟨i.toNat - 128, by omega⟩
          rw [hi']; simp only [Nat.add_sub_cancel]
          have : leNat r.reverse + 256 ^ r.length * (i' + 128) - 128 * 256 ^ r.length =
              leNat r.reverse + 256 ^ r.length * i' := by
            rw [Nat.mul_add, Nat.mul_comm (256 ^ r.length) 128]; omega
          rw [this]
        · simp only [hi, if_false]
          rw [bin2bn_eq, ← hr, List.reverse_reverse]
  · simp only [hsz, if_false]

end BtcVerif
